(* Mps.v — executable model of the MPS reader (rust/ommx/src/mps/parser.rs, convert.rs)
   and of the MPS writer (to_mps.rs).

   Layering of the reader (the Rust code interleaves the two layers line by line; the
   composition is the same function):
     text line --tokenise--> fields --parse--> typed statement --apply--> tables [mps]
   and finally [finish] and [convert] into an instance.  HashMap / HashSet values are
   insertion-ordered association lists / duplicate-free lists: iteration order (which is
   hash order in the SDK) only influences the IDs given to foreign names and the order of
   terms, both of which are compared up to renaming / reordering. *)
Require Import Ommx.Num Ommx.Poly Ommx.Msg.
From Coq Require Import String Ascii.
Open Scope string_scope.
Open Scope list_scope.

(* ================================================================== *)
(* strings                                                             *)

Definition is_ws (c : ascii) : bool :=
  let n := N_of_ascii c in ((n =? 32) || ((9 <=? n) && (n <=? 13)))%N.
Definition sempty (s : string) : bool :=
  match s with EmptyString => true | _ => false end.

(* str::split_whitespace *)
Fixpoint split_aux (s : string) : string * list string :=
  match s with
  | EmptyString => (EmptyString, [])
  | String c s' =>
      let '(t, ts) := split_aux s' in
      if is_ws c then (EmptyString, if sempty t then ts else t :: ts)
      else (String c t, ts)
  end.
Definition split_ws (s : string) : list string :=
  let '(t, ts) := split_aux s in if sempty t then ts else t :: ts.

Fixpoint trim_start (s : string) : string :=
  match s with
  | String c s' => if is_ws c then trim_start s' else s
  | EmptyString => EmptyString
  end.
Fixpoint trim_end (s : string) : string :=
  match s with
  | EmptyString => EmptyString
  | String c s' =>
      let t := trim_end s' in
      if is_ws c && sempty t then EmptyString else String c t
  end.
Definition trim (s : string) : string := trim_end (trim_start s).
Definition blank (s : string) : bool := sempty (trim s).

Definition first_is (c : ascii) (s : string) : bool :=
  match s with String d _ => Ascii.eqb c d | EmptyString => false end.

Fixpoint strip_prefix (p s : string) : option string :=
  match p with
  | EmptyString => Some s
  | String a p' =>
      match s with
      | String b s' => if Ascii.eqb a b then strip_prefix p' s' else None
      | EmptyString => None
      end
  end.
Definition starts_with (p s : string) : bool :=
  match strip_prefix p s with Some _ => true | None => false end.

Definition sapp (a b : string) : string := String.append a b.
Infix "+++" := sapp (right associativity, at level 60).

(* ================================================================== *)
(* numbers as text                                                     *)

Definition digit_of (c : ascii) : option N :=
  let n := N_of_ascii c in
  if ((48 <=? n) && (n <=? 57))%N then Some (n - 48)%N else None.

(* longest digit prefix: accumulated value, number of digits read, rest *)
Fixpoint read_digits (s : string) (acc cnt : N) : N * N * string :=
  match s with
  | String c s' =>
      match digit_of c with
      | Some d => read_digits s' (acc * 10 + d)%N (cnt + 1)%N
      | None => (acc, cnt, s)
      end
  | EmptyString => (acc, cnt, s)
  end.

Definition lower (c : ascii) : ascii :=
  let n := N_of_ascii c in
  if ((65 <=? n) && (n <=? 90))%N then ascii_of_N (n + 32) else c.
Fixpoint slower (s : string) : string :=
  match s with EmptyString => EmptyString | String c s' => String (lower c) (slower s') end.

Definition read_sign (s : string) : bool * string :=
  match s with
  | String c s' =>
      if Ascii.eqb c "-"%char then (true, s')
      else if Ascii.eqb c "+"%char then (false, s')
      else (false, s)
  | EmptyString => (false, s)
  end.

(* mant * 10^(e - frac), signed *)
Definition dec_value (neg : bool) (mant frac : N) (eneg : bool) (e : N) : Qc :=
  let m := Z.of_N mant in
  let ex := ((if eneg then - Z.of_N e else Z.of_N e) - Z.of_N frac)%Z in
  let q : Q :=
    if (0 <=? ex)%Z then inject_Z (m * 10 ^ ex) else (m # Z.to_pos (10 ^ (- ex)))%Q in
  Q2Qc (if neg then (- q)%Q else q).

(* <f64 as FromStr>: [sign] (inf | infinity | nan | digits [. digits] [e [sign] digits]),
   at least one mantissa digit; None = ParseFloatError.  The value is the exact decimal
   (the SDK rounds it to binary64; generated texts only contain dyadic values). *)
Definition read_f64 (s : string) : option ext :=
  let '(neg, r) := read_sign s in
  let lw := slower r in
  if (lw =? "inf") || (lw =? "infinity") then Some (if neg then NInf else PInf)
  else if lw =? "nan" then Some NaN
  else
    let '(n1, k1, r1) := read_digits r 0%N 0%N in
    let '(n2, k2, r2) :=
      match r1 with
      | String c r1' => if Ascii.eqb c "."%char then read_digits r1' n1 0%N else (n1, 0%N, r1)
      | EmptyString => (n1, 0%N, r1)
      end in
    if (k1 + k2 =? 0)%N then None
    else
      match r2 with
      | EmptyString => Some (Fin (dec_value neg n2 k2 false 0%N))
      | String c r3 =>
          if Ascii.eqb (lower c) "e"%char then
            let '(eneg, r4) := read_sign r3 in
            let '(e, ke, r5) := read_digits r4 0%N 0%N in
            if (ke =? 0)%N || negb (sempty r5) then None
            else Some (Fin (dec_value neg n2 k2 eneg e))
          else None
      end.

(* <u64 as FromStr>: optional '+', at least one digit, below 2^64 *)
Definition read_u64 (s : string) : option N :=
  let r := match s with
           | String c s' => if Ascii.eqb c "+"%char then s' else s
           | EmptyString => s
           end in
  let '(n, k, rest) := read_digits r 0%N 0%N in
  if (k =? 0)%N || negb (sempty rest) then None
  else if (n <? 18446744073709551616)%N then Some n else None.

Fixpoint print_N_aux (fuel : nat) (n : N) (acc : string) : string :=
  match fuel with
  | O => acc
  | S f =>
      let acc' := String (ascii_of_N (48 + n mod 10)) acc in
      if (n / 10 =? 0)%N then acc' else print_N_aux f (n / 10)%N acc'
  end.
Definition print_N (n : N) : string := print_N_aux (S (N.to_nat (N.log2 n))) n EmptyString.

Fixpoint find_k (fuel : nat) (d : Z) (k : Z) : option Z :=
  match fuel with
  | O => None
  | S f => if ((10 ^ k) mod d =? 0)%Z then Some k else find_k f d (k + 1)%Z
  end.
Fixpoint zeros (n : nat) : string :=
  match n with O => EmptyString | S n' => String "0"%char (zeros n') end.
Definition pad_left (k : nat) (s : string) : string := zeros (k - String.length s) +++ s.

(* Rust's `{}` of an f64 whose value is a terminating decimal with few digits: the exact
   decimal expansion without exponent ("3", "-0.125").  Not a terminating decimal: "?" *)
Definition print_num (q : Qc) : string :=
  let n := Qnum q in
  let d := Zpos (Qden q) in
  match find_k 64 d 0%Z with
  | None => "?"
  | Some k =>
      let m := (Z.abs n * 10 ^ k / d)%Z in
      let ip := (m / 10 ^ k)%Z in
      let fp := (m mod 10 ^ k)%Z in
      (if (n <? 0)%Z then "-" else "") +++ print_N (Z.to_N ip) +++
      (if (k =? 0)%Z then "" else "." +++ pad_left (Z.to_nat k) (print_N (Z.to_N fp)))
  end.
Definition print_ext (x : ext) : string :=
  match x with PInf => "inf" | NInf => "-inf" | NaN => "NaN" | Fin q => print_num q end.

(* ================================================================== *)
(* association lists keyed by strings: HashMap<Name, V>, HashSet<Name>  *)

Section Assoc.
  Context {V : Type}.
  Fixpoint lookup (k : string) (m : list (string * V)) : option V :=
    match m with
    | [] => None
    | (k', v) :: m' => if k =? k' then Some v else lookup k m'
    end.
  (* HashMap::insert: overwrite or add *)
  Fixpoint insert (k : string) (v : V) (m : list (string * V)) : list (string * V) :=
    match m with
    | [] => [(k, v)]
    | (k', v') :: m' => if k =? k' then (k, v) :: m' else (k', v') :: insert k v m'
    end.
  Definition has_key (k : string) (m : list (string * V)) : bool :=
    match lookup k m with Some _ => true | None => false end.
End Assoc.

Definition smem (k : string) (l : list string) : bool := existsb (String.eqb k) l.
Definition sadd (k : string) (l : list string) : list string := if smem k l then l else l ++ [k].
Definition sdel (k : string) (l : list string) : list string :=
  filter (fun x => negb (k =? x)) l.

(* ================================================================== *)
(* the parsed tables (struct Mps)                                      *)

Record mcols := {
  c_vars : list string; c_int : list string; c_bin : list string; c_real : list string;
  c_u : list (string * ext); c_l : list (string * ext) }.
Record mrows := {
  r_a : list (string * list (string * num));
  r_b : list (string * num);
  r_eq : list string; r_ge : list string; r_le : list string }.
Record mps := {
  m_name : string; m_max : bool; m_obj : string;
  m_c : list (string * num);
  m_rows : mrows; m_cols : mcols }.

Definition cols0 : mcols :=
  {| c_vars := []; c_int := []; c_bin := []; c_real := []; c_u := []; c_l := [] |}.
Definition rows0 : mrows := {| r_a := []; r_b := []; r_eq := []; r_ge := []; r_le := [] |}.
Definition mps0 : mps :=
  {| m_name := ""; m_max := false; m_obj := ""; m_c := []; m_rows := rows0; m_cols := cols0 |}.

Inductive perr :=
| EUnknownRowName (s : string)
| EInvalidRowType (s : string)
| EInvalidBoundType (s : string)
| EInvalidHeader (s : string)
| EInvalidMarker (s : string)
| EInvalidObjSense (s : string)
| EParseFloat (s : string)
| EPanic (s : string)          (* assert! / index out of range in the Rust code *)
| EOutOfModel (s : string).    (* a non-finite coefficient / rhs / range: not modelled *)

Inductive res (X : Type) := Ok (x : X) | Err (e : perr).
Arguments Ok {X}. Arguments Err {X}.
Definition rbind {X Y} (r : res X) (f : X -> res Y) : res Y :=
  match r with Ok x => f x | Err e => Err e end.
Notation "'let?' x := r 'in' k" := (rbind r (fun x => k))
  (at level 200, x pattern, r at level 100, k at level 200, right associativity).

Definition read_fin (s : string) : res num :=
  match read_f64 s with
  | None => Err (EParseFloat s)
  | Some (Fin q) => Ok q
  | Some _ => Err (EOutOfModel s)
  end.
Definition read_ext (s : string) : res ext :=
  match read_f64 s with None => Err (EParseFloat s) | Some x => Ok x end.

(* ---- ROWS ---- *)
Inductive rty := RN | RE | RL | RG.

Definition parse_row (fields : list string) : res (rty * string) :=
  match fields with
  | [t; name] =>
      if t =? "N" then Ok (RN, name) else if t =? "E" then Ok (RE, name)
      else if t =? "G" then Ok (RG, name) else if t =? "L" then Ok (RL, name)
      else Err (EInvalidRowType t)
  | _ => Err (EPanic "ROWS: assert_eq!(fields.len(), 2)")
  end.

(* N rows: the first one names the objective; later ones (other than the objective) are
   free rows, remembered in [free]; E / G / L rows enter the matrix *)
Definition add_row (ty : rty) (name : string) (free : list string) (m : mps) : mps * list string :=
  let r := m_rows m in
  match ty with
  | RN =>
      if sempty (m_obj m) then
        ({| m_name := m_name m; m_max := m_max m; m_obj := name;
            m_c := m_c m; m_rows := r; m_cols := m_cols m |}, free)
      else if name =? m_obj m then (m, free) else (m, sadd name free)
  | _ =>
      let r' :=
        {| r_a := insert name [] (r_a r); r_b := r_b r;
           r_eq := match ty with RE => sadd name (r_eq r) | _ => r_eq r end;
           r_ge := match ty with RG => sadd name (r_ge r) | _ => r_ge r end;
           r_le := match ty with RL => sadd name (r_le r) | _ => r_le r end |} in
      ({| m_name := m_name m; m_max := m_max m; m_obj := m_obj m; m_c := m_c m;
          m_rows := r'; m_cols := m_cols m |}, free)
  end.

(* ---- (row, value) pairs of COLUMNS / RHS / RANGES lines ---- *)
Fixpoint parse_pairs (l : list string) : res (list (string * num)) :=
  match l with
  | [] => Ok []
  | r :: v :: l' =>
      let? q := read_fin v in
      let? ps := parse_pairs l' in
      Ok ((r, q) :: ps)
  | [_] => Err (EPanic "chunk[1]")
  end.

Definition len35 (fields : list string) : bool :=
  match fields with [_; _; _] | [_; _; _; _; _] => true | _ => false end.

(* ---- COLUMNS ---- *)
Inductive colstmt :=
| CMarker (on : bool)
| CEntry (col : string) (pairs : list (string * string)).  (* values still as text *)

Fixpoint text_pairs (l : list string) : list (string * string) :=
  match l with r :: v :: l' => (r, v) :: text_pairs l' | _ => [] end.

Definition parse_column (fields : list string) : res colstmt :=
  if negb (len35 fields) then Err (EPanic "COLUMNS: assert!(fields.len() == 3 || fields.len() == 5)")
  else
    match fields with
    | f0 :: f1 :: f2 :: rest =>
        if f1 =? "'MARKER'" then
          if f2 =? "'INTORG'" then Ok (CMarker true)
          else if f2 =? "'INTEND'" then Ok (CMarker false)
          else Err (EInvalidMarker f2)
        else Ok (CEntry f0 (text_pairs (f1 :: f2 :: rest)))
    | _ => Err (EPanic "unreachable")
    end.

(* one (row, value) chunk of a column line: the number is parsed first, then the row is
   looked up (objective row -> c, free row -> ignored, otherwise a[row] or UnknownRowName) *)
Definition add_coef (free : list string) (col : string) (rv : string * string) (m : mps) : res mps :=
  let '(row, v) := rv in
  let? q := read_fin v in
  if row =? m_obj m then
    Ok {| m_name := m_name m; m_max := m_max m; m_obj := m_obj m;
          m_c := insert col q (m_c m); m_rows := m_rows m; m_cols := m_cols m |}
  else if smem row free then Ok m
  else
    let r := m_rows m in
    match lookup row (r_a r) with
    | None => Err (EUnknownRowName row)
    | Some entries =>
        Ok {| m_name := m_name m; m_max := m_max m; m_obj := m_obj m; m_c := m_c m;
              m_rows := {| r_a := insert row (insert col q entries) (r_a r); r_b := r_b r;
                           r_eq := r_eq r; r_ge := r_ge r; r_le := r_le r |};
              m_cols := m_cols m |}
    end.

Fixpoint add_coefs (free : list string) (col : string) (l : list (string * string)) (m : mps)
  : res mps :=
  match l with
  | [] => Ok m
  | rv :: l' => let? m' := add_coef free col rv m in add_coefs free col l' m'
  end.

Definition declare_col (col : string) (is_int : bool) (m : mps) : mps :=
  let c := m_cols m in
  {| m_name := m_name m; m_max := m_max m; m_obj := m_obj m; m_c := m_c m; m_rows := m_rows m;
     m_cols := {| c_vars := sadd col (c_vars c);
                  c_int := if is_int then sadd col (c_int c) else c_int c;
                  c_bin := c_bin c;
                  c_real := if is_int then c_real c else sadd col (c_real c);
                  c_u := c_u c; c_l := c_l c |} |}.

(* ---- RHS ---- *)
Definition add_rhs (m : mps) (rv : string * num) : mps :=
  let r := m_rows m in
  {| m_name := m_name m; m_max := m_max m; m_obj := m_obj m; m_c := m_c m;
     m_rows := {| r_a := r_a r; r_b := insert (fst rv) (snd rv) (r_b r);
                  r_eq := r_eq r; r_ge := r_ge r; r_le := r_le r |};
     m_cols := m_cols m |}.

(* ---- RANGES ---- *)
Definition rhs_of (b : list (string * num)) (row : string) : num :=
  match lookup row b with Some x => x | None => 0 end.

(* the table of parser.rs:295-320 as a function:
   (type the ranged row keeps, type of the generated row, rhs of the generated row) *)
Definition range_rule (ty : rty) (b r : num) : option (rty * rty * num) :=
  match ty with
  | RE => if qltb 0 r then Some (RG, RL, b + qabs r) else Some (RL, RG, b - qabs r)
  | RG => Some (RG, RL, b + qabs r)
  | RL => Some (RL, RG, b - qabs r)
  | RN => None
  end.

Definition row_type (r : mrows) (row : string) : rty :=
  if smem row (r_eq r) then RE else if smem row (r_ge r) then RG
  else if smem row (r_le r) then RL else RN.

(* the name of the generated row: underscores are appended until the candidate is neither a key
   of [a] nor the objective row's name (whose RHS entry holds the objective constant) *)
Fixpoint fresh_row_name (fuel : nat) (a : list (string * list (string * num))) (obj : string)
  (cand : string) : string :=
  match fuel with
  | O => cand
  | S f => if has_key cand a || (cand =? obj) then fresh_row_name f a obj (cand +++ "_") else cand
  end.

Definition set_type (name : string) (ty : rty) (r : mrows) (a' : list (string * list (string * num)))
  (b' : list (string * num)) (drop_eq : bool) (old : string) : mrows :=
  {| r_a := a'; r_b := b';
     r_eq := if drop_eq then sdel old (r_eq r) else r_eq r;
     r_ge := match ty with RG => sadd name (r_ge r) | _ => r_ge r end;
     r_le := match ty with RL => sadd name (r_le r) | _ => r_le r end |}.

Definition add_range (m : mps) (rv : string * num) : res mps :=
  let '(row, rg) := rv in
  if qeqb rg 0 then Err (EPanic "RANGES with 0.0 is not supported")
  else
    let r := m_rows m in
    let new := fresh_row_name (S (S (List.length (r_a r)))) (r_a r) (m_obj m) (row +++ "_") in
    match lookup row (r_a r) with
    | None => Err (EUnknownRowName row)
    | Some entries =>
        let a' := insert new entries (r_a r) in
        let ty := row_type r row in
        let r' :=
          match range_rule ty (rhs_of (r_b r) row) rg with
          | None => {| r_a := a'; r_b := r_b r; r_eq := r_eq r; r_ge := r_ge r; r_le := r_le r |}
          | Some (ty1, ty2, b2) =>
              (* an E row leaves eq and joins ge / le; the generated row gets ty2 and b2 *)
              let r1 := match ty with
                        | RE => set_type row ty1 r a' (r_b r) true row
                        | _ => {| r_a := a'; r_b := r_b r; r_eq := r_eq r; r_ge := r_ge r;
                                  r_le := r_le r |}
                        end in
              set_type new ty2 r1 a' (insert new b2 (r_b r)) false row
          end in
        Ok {| m_name := m_name m; m_max := m_max m; m_obj := m_obj m; m_c := m_c m;
              m_rows := r'; m_cols := m_cols m |}
    end.

Fixpoint add_ranges (l : list (string * num)) (m : mps) : res mps :=
  match l with
  | [] => Ok m
  | rv :: l' => let? m' := add_range m rv in add_ranges l' m'
  end.

(* number and row are checked pair by pair, in order *)
Fixpoint add_range_fields (l : list string) (m : mps) : res mps :=
  match l with
  | [] => Ok m
  | r :: v :: l' => let? q := read_fin v in let? m' := add_range m (r, q) in add_range_fields l' m'
  | [_] => Err (EPanic "chunk[1]")
  end.

(* ---- BOUNDS ---- *)
Inductive bkw := UP | LO | FX | MI | PL | FR | BV | LI | UI.
Record bstmt := { b_kw : bkw; b_col : string; b_val : ext }.

Definition kw_of (s : string) : option bkw :=
  if s =? "UP" then Some UP else if s =? "LO" then Some LO else if s =? "FX" then Some FX
  else if s =? "MI" then Some MI else if s =? "PL" then Some PL else if s =? "FR" then Some FR
  else if s =? "BV" then Some BV else if s =? "LI" then Some LI else if s =? "UI" then Some UI
  else None.
Definition kw_needs_value (k : bkw) : bool :=
  match k with UP | LO | FX | LI | UI => true | _ => false end.

Definition parse_bound (fields : list string) : res bstmt :=
  match fields with
  | [] => Err (EPanic "fields[0]")
  | f0 :: rest =>
      match kw_of f0 with
      | None => Err (EInvalidBoundType f0)
      | Some PL => Ok {| b_kw := PL; b_col := nth 1 rest ""; b_val := PInf |}
      | Some k =>
          match rest with
          | _ :: col :: rest2 =>
              if kw_needs_value k then
                match rest2 with
                | v :: _ => let? x := read_ext v in Ok {| b_kw := k; b_col := col; b_val := x |}
                | [] => Err (EPanic "fields[3]")
                end
              else Ok {| b_kw := k; b_col := col; b_val := Fin 0 |}
          | _ => Err (EPanic "fields[2]")
          end
      end
  end.

(* the effect of one bound statement on the column tables.  PL sets the upper bound to
   +inf (the SDK's "do nothing" coincides with this unless an earlier statement set an upper
   bound on the same column). *)
Definition apply_bound (c : mcols) (s : bstmt) : mcols :=
  let x := b_col s in
  let v := b_val s in
  let mk int bin real u l :=
    {| c_vars := c_vars c; c_int := int; c_bin := bin; c_real := real; c_u := u; c_l := l |} in
  match b_kw s with
  | LO => mk (c_int c) (c_bin c) (c_real c) (c_u c) (insert x v (c_l c))
  | UP => mk (c_int c) (c_bin c) (c_real c) (insert x v (c_u c)) (c_l c)
  | FX => mk (c_int c) (c_bin c) (c_real c) (insert x v (c_u c)) (insert x v (c_l c))
  | MI => mk (c_int c) (c_bin c) (c_real c) (c_u c) (insert x NInf (c_l c))
  | BV => mk (sdel x (c_int c)) (sadd x (c_bin c)) (sdel x (c_real c))
             (insert x (Fin 1) (c_u c)) (insert x (Fin 0) (c_l c))
  | FR => mk (c_int c) (c_bin c) (c_real c) (insert x PInf (c_u c)) (insert x NInf (c_l c))
  | PL => mk (c_int c) (c_bin c) (c_real c) (insert x PInf (c_u c)) (c_l c)
  | UI => mk (sadd x (c_int c)) (c_bin c) (sdel x (c_real c)) (insert x v (c_u c)) (c_l c)
  | LI => mk (sadd x (c_int c)) (c_bin c) (sdel x (c_real c)) (c_u c) (insert x v (c_l c))
  end.

Definition set_cols (m : mps) (c : mcols) : mps :=
  {| m_name := m_name m; m_max := m_max m; m_obj := m_obj m; m_c := m_c m; m_rows := m_rows m;
     m_cols := c |}.

(* ---- finish: an integer column with u = 1 and l absent or 0 becomes binary ---- *)
Definition is_one (x : ext) : bool := eeqb x (Fin 1).
Definition lower_is_zero_or_absent (l : list (string * ext)) (name : string) : bool :=
  match lookup name l with Some lo => eeqb lo (Fin 0) | None => true end.

Definition finish_step (l : list (string * ext)) (ib : list string * list string)
  (nu : string * ext) : list string * list string :=
  let '(int, bin) := ib in
  if is_one (snd nu) && lower_is_zero_or_absent l (fst nu) && smem (fst nu) int
  then (sdel (fst nu) int, sadd (fst nu) bin) else (int, bin).

Definition finish_cols (c : mcols) : mcols :=
  let '(int, bin) := fold_left (finish_step (c_l c)) (c_u c) (c_int c, c_bin c) in
  {| c_vars := c_vars c; c_int := int; c_bin := bin; c_real := c_real c; c_u := c_u c; c_l := c_l c |}.

(* ================================================================== *)
(* the line-oriented state machine                                      *)

Inductive cursor := CName | CRows | CColumns | CRhs | CRanges | CBounds | CEnd.
Record pstate := {
  p_cur : cursor; p_int : bool; p_wait : bool; p_done : bool; p_free : list string; p_mps : mps }.
Definition pstate0 : pstate :=
  {| p_cur := CName; p_int := false; p_wait := false; p_done := false; p_free := [];
     p_mps := mps0 |}.

Definition parse_cursor (s : string) : res cursor :=
  if s =? "ROWS" then Ok CRows else if s =? "COLUMNS" then Ok CColumns
  else if s =? "RHS" then Ok CRhs else if s =? "RANGES" then Ok CRanges
  else if s =? "BOUNDS" then Ok CBounds else if s =? "ENDATA" then Ok CEnd
  else Err (EInvalidHeader s).
Definition parse_sense (s : string) : res bool :=
  if s =? "MIN" then Ok false else if s =? "MAX" then Ok true else Err (EInvalidObjSense s).

Definition with_mps (st : pstate) (m : mps) : pstate :=
  {| p_cur := p_cur st; p_int := p_int st; p_wait := p_wait st; p_done := p_done st; p_free := p_free st; p_mps := m |}.
Definition set_sense (m : mps) (b : bool) : mps :=
  {| m_name := m_name m; m_max := b; m_obj := m_obj m; m_c := m_c m; m_rows := m_rows m;
     m_cols := m_cols m |}.

Definition read_header (st : pstate) (line : string) : res pstate :=
  match strip_prefix "NAME" line with
  | Some name =>
      let m := p_mps st in
      Ok (with_mps st {| m_name := trim name; m_max := m_max m; m_obj := m_obj m; m_c := m_c m;
                         m_rows := m_rows m; m_cols := m_cols m |})
  | None =>
      match strip_prefix "OBJSENSE" line with
      | Some sense =>
          if sempty (trim sense) then
            Ok {| p_cur := p_cur st; p_int := p_int st; p_wait := true; p_done := p_done st; p_free := p_free st;
                  p_mps := p_mps st |}
          else let? b := parse_sense (trim sense) in Ok (with_mps st (set_sense (p_mps st) b))
      | None =>
          let? c := parse_cursor (trim line) in
          Ok {| p_cur := c; p_int := p_int st; p_wait := p_wait st; p_done := p_done st; p_free := p_free st;
                p_mps := p_mps st |}
      end
  end.

Definition read_fields (st : pstate) (line : string) (fields : list string) : res pstate :=
  let m := p_mps st in
  match p_cur st with
  | CRows =>
      let? (ty, name) := parse_row fields in
      let '(m', free') := add_row ty name (p_free st) m in
      Ok {| p_cur := p_cur st; p_int := p_int st; p_wait := p_wait st; p_done := p_done st;
            p_free := free'; p_mps := m' |}
  | CColumns =>
      let? cs := parse_column fields in
      match cs with
      | CMarker on =>
          Ok {| p_cur := p_cur st; p_int := on; p_wait := p_wait st; p_done := p_done st; p_free := p_free st;
                p_mps := m |}
      | CEntry col pairs =>
          let? m' := add_coefs (p_free st) col pairs (declare_col col (p_int st) m) in Ok (with_mps st m')
      end
  | CRhs =>
      if negb (len35 fields) then Err (EPanic "RHS: assert!(fields.len() == 3 || fields.len() == 5)")
      else let? ps := parse_pairs (tl fields) in Ok (with_mps st (fold_left add_rhs ps m))
  | CRanges =>
      if negb (len35 fields) then Err (EPanic "RANGES: assert!(fields.len() == 3 || fields.len() == 5)")
      else let? m' := add_range_fields (tl fields) m in Ok (with_mps st m')
  | CBounds =>
      let? s := parse_bound fields in Ok (with_mps st (set_cols m (apply_bound (m_cols m) s)))
  | CName => Err (EInvalidHeader line)
  | CEnd =>
      Ok {| p_cur := p_cur st; p_int := p_int st; p_wait := p_wait st; p_done := true; p_free := p_free st; p_mps := m |}
  end.

Definition step (st : pstate) (line : string) : res pstate :=
  if p_done st then Ok st
  else if blank line then Ok st
  else if first_is "*"%char line then Ok st
  else if negb (first_is " "%char line) then read_header st line
  else
    let fields := split_ws line in
    if p_wait st then
      match fields with
      | f0 :: _ =>
          let? b := parse_sense f0 in
          Ok {| p_cur := p_cur st; p_int := p_int st; p_wait := false; p_done := p_done st; p_free := p_free st;
                p_mps := set_sense (p_mps st) b |}
      | [] => Err (EPanic "fields[0]")
      end
    else read_fields st line fields.

Fixpoint run_lines (lines : list string) (st : pstate) : res pstate :=
  match lines with
  | [] => Ok st
  | l :: ls => let? st' := step st l in run_lines ls st'
  end.

Definition finish (st : pstate) : mps := set_cols (p_mps st) (finish_cols (m_cols (p_mps st))).
Definition parse_lines (lines : list string) : res mps :=
  let? st := run_lines lines pstate0 in Ok (finish st).

(* ================================================================== *)
(* instances (the observable part of ommx.v1.Instance)                 *)

Record dvar := {
  dv_id : N; dv_kind : N;                 (* 1 binary, 2 integer, 3 continuous, 0 unspecified *)
  dv_bound : option (ext * ext); dv_name : option string }.
Record cons := {
  cn_id : N; cn_eq : N;                   (* 1 "= 0", 2 "<= 0", 0 unspecified *)
  cn_fn : function; cn_name : option string }.
Record inst := {
  in_sense : N;                           (* 1 minimize, 2 maximize *)
  in_obj : function; in_dvars : list dvar; in_cons : list cons; in_name : option string }.

(* ================================================================== *)
(* convert.rs                                                          *)

Definition VAR_PREFIX := "OMMX_VAR_".
Definition CONSTR_PREFIX := "OMMX_CONSTR_".
Definition OBJ_NAME := "OBJ".

Definition parse_id_tag (prefix name : string) : option N :=
  match strip_prefix prefix name with
  | Some r => match read_u64 r with
              | Some n => if String.eqb (print_N n) r then Some n else None
              | None => None end
  | None => None end.

Definition get_dvar_kind (c : mcols) (x : string) : N :=
  (if smem x (c_int c) then 2 else if smem x (c_bin c) then 1
   else if smem x (c_real c) then 3 else 0)%N.

(* default [0, +inf); an upper bound <= 0 without a lower bound opens the lower bound *)
Definition get_dvar_bound (c : mcols) (x : string) : ext * ext :=
  match lookup x (c_l c), lookup x (c_u c) with
  | Some lo, None => (lo, PInf)
  | None, Some up => if eleb up (Fin 0) then (NInf, up) else (Fin 0, up)
  | Some lo, Some up => (lo, up)
  | None, None => (Fin 0, PInf)
  end.

Fixpoint enumerate_from {X} (i : N) (l : list X) : list (N * X) :=
  match l with [] => [] | x :: l' => (i, x) :: enumerate_from (i + 1)%N l' end.

(* (decision variables, name -> id) *)
Definition convert_dvars (c : mcols) : list dvar * list (string * N) :=
  let vars := c_vars c in
  if existsb (fun x => match parse_id_tag VAR_PREFIX x with None => true | Some _ => false end) vars then
    let ivs := enumerate_from 0%N vars in
    (map (fun iv => {| dv_id := fst iv; dv_kind := get_dvar_kind c (snd iv);
                       dv_bound := Some (get_dvar_bound c (snd iv));
                       dv_name := Some (snd iv) |}) ivs,
     map (fun iv => (snd iv, fst iv)) ivs)
  else
    let ivs := flat_map (fun x => match parse_id_tag VAR_PREFIX x with
                                  | Some i => [(i, x)] | None => [] end) vars in
    (map (fun iv => {| dv_id := fst iv; dv_kind := get_dvar_kind c (snd iv);
                       dv_bound := Some (get_dvar_bound c (snd iv));
                       dv_name := None |}) ivs,
     map (fun iv => (snd iv, fst iv)) ivs).

(* name_id_map[name]: indexing a missing key panics *)
Fixpoint convert_terms (ids : list (string * N)) (l : list (string * num)) : res (list (N * num)) :=
  match l with
  | [] => Ok []
  | (x, q) :: l' =>
      match lookup x ids with
      | None => Err (EPanic ("name_id_map: no entry for " +++ x))
      | Some i => let? ts := convert_terms ids l' in Ok ((i, q) :: ts)
      end
  end.

Definition mk_function (ts : list (N * num)) (c : num) : function :=
  match ts with [] => FConst c | _ => FLin {| l_terms := ts; l_const := c |} end.

Definition neg_terms (ts : list (N * num)) : list (N * num) :=
  map (fun ic => (fst ic, snd ic * - (1))) ts.

(* (terms, constant, equality) of a row:  E: a.x - b = 0,  L: a.x - b <= 0,  G: -a.x + b <= 0 *)
Definition convert_inequality (ts : list (N * num)) (b : num) (ty : rty)
  : list (N * num) * num * N :=
  match ty with
  | RE => (ts, - b, 1%N)
  | RL => (ts, - b, 2%N)
  | RG => (neg_terms ts, b, 2%N)
  | RN => (ts, - b, 0%N)
  end.

Definition convert_row_type (r : mrows) (row : string) : rty :=
  if smem row (r_eq r) then RE else if smem row (r_le r) then RL
  else if smem row (r_ge r) then RG else RN.

Definition convert_constraint (r : mrows) (ids : list (string * N)) (id : N) (name : option string)
  (row : string) (entries : list (string * num)) : res cons :=
  let? ts := convert_terms ids entries in
  let '(ts', c, eq) := convert_inequality ts (rhs_of (r_b r) row) (convert_row_type r row) in
  Ok {| cn_id := id; cn_eq := eq; cn_fn := mk_function ts' c; cn_name := name |}.

Fixpoint rmap {X Y} (f : X -> res Y) (l : list X) : res (list Y) :=
  match l with
  | [] => Ok []
  | x :: l' => let? y := f x in let? ys := rmap f l' in Ok (y :: ys)
  end.

Definition convert_constraints (r : mrows) (ids : list (string * N)) : res (list cons) :=
  let a := r_a r in
  if existsb (fun x => match parse_id_tag CONSTR_PREFIX (fst x) with None => true | Some _ => false end) a then
    rmap (fun ie => convert_constraint r ids (fst ie) (Some (fst (snd ie))) (fst (snd ie)) (snd (snd ie)))
         (enumerate_from 0%N a)
  else
    rmap (fun e => convert_constraint r ids (fst e) None (fst (snd e)) (snd (snd e)))
         (flat_map (fun e => match parse_id_tag CONSTR_PREFIX (fst e) with
                             | Some i => [(i, e)] | None => [] end) a).

Definition convert_objective (m : mps) (ids : list (string * N)) : res function :=
  let? ts := convert_terms ids (m_c m) in
  Ok (mk_function ts (- rhs_of (r_b (m_rows m)) (m_obj m))).

Definition convert (m : mps) : res inst :=
  let '(dvs, ids) := convert_dvars (m_cols m) in
  let? obj := convert_objective m ids in
  let? cs := convert_constraints (m_rows m) ids in
  Ok {| in_sense := if m_max m then 2%N else 1%N; in_obj := obj; in_dvars := dvs; in_cons := cs;
        in_name := if sempty (m_name m) then None else Some (m_name m) |}.

(* mps::load_raw_reader on the lines of the text *)
Definition load_lines (lines : list string) : res inst :=
  let? m := parse_lines lines in convert m.

(* ================================================================== *)
(* the writer (to_mps.rs)                                              *)

Inductive werr :=
| WConstraint (name : string) (degree : N)
| WObjective (degree : N)
| WInvalidVariableId (id : N).
Inductive wres (X : Type) := WOk (x : X) | WErr (e : werr).
Arguments WOk {X}. Arguments WErr {X}.

(* BTreeMap<Option<u64>, f64> accumulation of Polynomial::as_linear *)
Fixpoint bt_add (i : N) (c : num) (m : list (N * num)) : list (N * num) :=
  match m with
  | [] => [(i, c)]
  | (j, d) :: m' =>
      if (i =? j)%N then (j, d + c) :: m'
      else if (i <? j)%N then (i, c) :: m
      else (j, d) :: bt_add i c m'
  end.

Fixpoint poly_as_linear (p : polynomial) (ts : list (N * num)) (c : num) : option linear :=
  match p with
  | [] => Some {| l_terms := ts; l_const := c |}
  | ([], q) :: p' => poly_as_linear p' ts (c + q)
  | ([i], q) :: p' => poly_as_linear p' (bt_add i q ts) c
  | _ => None
  end.

Definition lin0 : linear := {| l_terms := []; l_const := 0 |}.
Definition as_linear (f : function) : option linear :=
  match f with
  | FUnset => Some lin0                      (* Instance::objective / Constraint::function: zero *)
  | FConst c => Some {| l_terms := []; l_const := c |}
  | FLin l => Some l
  | FQuad q =>
      if forallb tiny_eps (q_vals q) then Some (match q_lin q with Some l => l | None => lin0 end)
      else None
  | FPoly p => poly_as_linear p [] 0
  end.
Definition lin_degree (l : linear) : N := match l_terms l with [] => 0%N | _ => 1%N end.
Definition fn_degree (f : function) : N :=
  match f with
  | FUnset | FConst _ => 0%N
  | FLin l => lin_degree l
  | FQuad q =>
      if forallb tiny_eps (q_vals q) then match q_lin q with Some l => lin_degree l | None => 0%N end
      else 2%N
  | FPoly p => fold_right (fun mc acc => N.max (N.of_nat (List.length (fst mc))) acc) 0%N p
  end.

Definition constr_name (c : cons) : string := CONSTR_PREFIX +++ print_N (cn_id c).
Definition dvar_name (v : dvar) : string := VAR_PREFIX +++ print_N (dv_id v).

Definition w_beginning (I : inst) : list string :=
  [ "NAME " +++ match in_name I with Some n => n | None => "Converted OMMX problem" end;
    "OBJSENSE " +++ (if (in_sense I =? 2)%N then "MAX" else "MIN") ].

Definition w_rows (I : inst) : list string :=
  "ROWS" :: " N OBJ" ::
  map (fun c => " " +++ (if (cn_eq c =? 2)%N then "L" else "E") +++ " " +++ constr_name c) (in_cons I).

(* write_col_entry: one entry per (column, row): the sum of the coefficients of the terms with
   this id (a Linear message may repeat an id), skipped if the sum is 0 *)
Definition coef_sum (id : N) (ts : list (N * num)) : num :=
  fold_left (fun acc t => if (fst t =? id)%N then acc + snd t else acc) ts 0.
Definition w_col_entry (id : N) (vname rname : string) (f : function) : wres (list string) :=
  match as_linear f with
  | Some l =>
      let c := coef_sum id (l_terms l) in
      WOk (if qeqb c 0 then [] else ["    " +++ vname +++ "  " +++ rname +++ "  " +++ print_num c])
  | None => WErr (WConstraint rname (fn_degree f))
  end.

Fixpoint w_col_constraints (id : N) (vname : string) (cs : list cons) : wres (list string) :=
  match cs with
  | [] => WOk []
  | c :: cs' =>
      match w_col_entry id vname (constr_name c) (cn_fn c) with
      | WErr e => WErr e
      | WOk l1 =>
          match w_col_constraints id vname cs' with
          | WErr e => WErr e
          | WOk l2 => WOk (l1 ++ l2)
          end
      end
  end.

Definition marker_line (counter : N) (org : bool) : string :=
  "    MARK" +++ print_N counter +++ "   'MARKER'      " +++ (if org then "'INTORG'" else "'INTEND'").

(* the loop of write_columns with the IntorgTracker (block flag, counter) *)
Fixpoint w_columns_loop (I : inst) (vs : list dvar) (block : bool) (counter : N)
  : wres (list string) :=
  match vs with
  | [] => WOk (if block then [marker_line counter false] else [])
  | v :: vs' =>
      let is_int := ((dv_kind v =? 1) || (dv_kind v =? 2))%N in
      let '(mark, block', counter') :=
        if is_int then (if block then ([], true, counter) else ([marker_line counter true], true, (counter + 1)%N))
        else (if block then ([marker_line counter false], false, (counter + 1)%N) else ([], false, counter)) in
      match w_col_entry (dv_id v) (dvar_name v) OBJ_NAME (in_obj I) with
      | WErr (WConstraint _ d) => WErr (WObjective d)
      | WErr e => WErr e
      | WOk l0 =>
          match w_col_constraints (dv_id v) (dvar_name v) (in_cons I) with
          | WErr e => WErr e
          | WOk l1 =>
              match w_columns_loop I vs' block' counter' with
              | WErr e => WErr e
              | WOk l2 => WOk (mark ++ l0 ++ l1 ++ l2)
              end
          end
      end
  end.

Definition rhs_line (name : string) (c : num) : list string :=
  if qeqb c 0 then [] else ["  RHS1    " +++ name +++ "   " +++ print_num (- c)].

Fixpoint w_rhs_constraints (cs : list cons) : wres (list string) :=
  match cs with
  | [] => WOk []
  | c :: cs' =>
      match as_linear (cn_fn c) with
      | None => WErr (WConstraint (constr_name c) (fn_degree (cn_fn c)))
      | Some l =>
          match w_rhs_constraints cs' with
          | WErr e => WErr e
          | WOk ls => WOk (rhs_line (constr_name c) (l_const l) ++ ls)
          end
      end
  end.

Definition w_rhs (I : inst) : wres (list string) :=
  match w_rhs_constraints (in_cons I) with
  | WErr e => WErr e
  | WOk ls =>
      WOk ("RHS" :: match as_linear (in_obj I) with
                    | Some l => rhs_line OBJ_NAME (l_const l)
                    | None => []
                    end ++ ls)
  end.

(* used_decision_variable_ids: sorted, duplicate-free (BTreeSet) *)
Fixpoint ins_sorted (i : N) (l : list N) : list N :=
  match l with
  | [] => [i]
  | j :: l' => if (i =? j)%N then l else if (i <? j)%N then i :: l else j :: ins_sorted i l'
  end.
Definition fn_used (f : function) : list N :=
  match f with
  | FLin l => map fst (l_terms l)
  | FQuad q => match q_lin q with Some l => map fst (l_terms l) | None => [] end ++ q_cols q ++ q_rows q
  | FPoly p => flat_map fst p
  | _ => []
  end.
Definition used_ids (I : inst) : list N :=
  fold_right ins_sorted [] (fn_used (in_obj I) ++ flat_map (fun c => fn_used (cn_fn c)) (in_cons I)).

(* HashMap collected from the vector: the last variable with a given id wins *)
Definition var_by_id (I : inst) (id : N) : option dvar :=
  fold_left (fun acc v => if (dv_id v =? id)%N then Some v else acc) (in_dvars I) None.

Definition bound_lines (v : dvar) : list string :=
  let name := dvar_name v in
  let is_int := ((dv_kind v =? 1) || (dv_kind v =? 2))%N in
  match dv_bound v with
  | Some (lo, up) =>
      [ "  " +++ (if is_int then "UI" else "UP") +++ " BND1    " +++ name +++ "  " +++ print_ext up;
        "  " +++ (if is_int then "LI" else "LO") +++ " BND1    " +++ name +++ "  " +++ print_ext lo ]
  | None =>
      if (dv_kind v =? 1)%N then
        [ "  UI BND1    " +++ name +++ "  1"; "  LI BND1    " +++ name +++ "  0" ]
      else [ "  FR BND1    " +++ name ]
  end.

Fixpoint w_bounds_loop (I : inst) (ids : list N) : wres (list string) :=
  match ids with
  | [] => WOk []
  | id :: ids' =>
      match var_by_id I id with
      | None => WErr (WInvalidVariableId id)
      | Some v =>
          match w_bounds_loop I ids' with
          | WErr e => WErr e
          | WOk ls => WOk (bound_lines v ++ ls)
          end
      end
  end.

Definition write_mps (I : inst) : wres (list string) :=
  match w_columns_loop I (in_dvars I) false 0%N with
  | WErr e => WErr e
  | WOk cols =>
      match w_rhs I with
      | WErr e => WErr e
      | WOk rhs =>
          match w_bounds_loop I (used_ids I) with
          | WErr e => WErr e
          | WOk bnds =>
              WOk (w_beginning I ++ w_rows I ++ ("COLUMNS" :: cols) ++ rhs ++ ("BOUNDS" :: bnds)
                   ++ ["ENDATA"; ""])
          end
      end
  end.
