(* PEvalProofs.v — corollaries: partial evaluation commutes with evaluation; two steps = at once *)
Require Import Ommx.Num Ommx.Poly Ommx.Msg Ommx.Eval Ommx.Arith Ommx.PEval.

Lemma sget_app s1 s2 i :
  sget (s1 ++ s2) i = match sget s1 i with Some v => Some v | None => sget s2 i end.
Proof.
  induction s1 as [|[j v] s1 IH]; cbn [app sget]; [reflexivity|].
  destruct (i =? j)%N; [reflexivity|exact IH].
Qed.

Definition sdisjoint (s1 s2 : state) : Prop := forall i, sget s1 i <> None -> sget s2 i = None.

Lemma agrees_app_l rho s1 s2 : agrees rho (s1 ++ s2) -> agrees rho s1.
Proof. intros H i v G. apply H. rewrite sget_app, G. reflexivity. Qed.
Lemma agrees_app_r rho s1 s2 : sdisjoint s1 s2 -> agrees rho (s1 ++ s2) -> agrees rho s2.
Proof.
  intros D H i v G. apply H. rewrite sget_app.
  destruct (sget s1 i) as [w|] eqn:G1; [|exact G].
  rewrite (D i) in G; [discriminate|congruence].
Qed.
Lemma agrees_app rho s1 s2 : agrees rho s1 -> agrees rho s2 -> agrees rho (s1 ++ s2).
Proof.
  intros H1 H2 i v G. rewrite sget_app in G.
  destruct (sget s1 i) as [w|] eqn:G1; [inversion G; subst; apply H1; exact G1|apply H2; exact G].
Qed.

Section Cor.
  Variable tiny : num -> bool.
  Hypothesis TE : tiny_exact tiny.

  (* evaluating the remainder at the other values = evaluating the original at the combined state *)
  Theorem pe_then_eval f s1 s2 f' u v ids w ids' :
    sdisjoint s1 s2 ->
    fn_pe tiny f s1 = Some (f', u) ->
    fn_eval f' s2 = Some (v, ids) ->
    fn_eval f (s1 ++ s2) = Some (w, ids') ->
    v = w.
  Proof.
    intros D P E1 E2.
    pose (rho := total (s1 ++ s2)).
    assert (A12 : agrees rho (s1 ++ s2)) by apply total_agrees.
    pose proof (agrees_app_l _ _ _ A12) as A1.
    pose proof (agrees_app_r _ _ _ D A12) as A2.
    apply fn_eval_sound in E1. apply fn_eval_sound in E2.
    rewrite (proj1 E1 rho A2), (proj1 E2 rho A12).
    apply (fn_pe_sound tiny TE rho s1 A1 _ _ _ P).
  Qed.

  (* fixing in two steps denotes the same function as fixing at once, in either order *)
  Theorem pe_two_steps f s1 s2 f1 u1 f2 u2 f12 u12 :
    fn_pe tiny f s1 = Some (f1, u1) -> fn_pe tiny f1 s2 = Some (f2, u2) ->
    fn_pe tiny f (s1 ++ s2) = Some (f12, u12) ->
    forall rho, agrees rho s1 -> agrees rho s2 -> denote f2 rho = denote f12 rho.
  Proof.
    intros P1 P2 P12 rho A1 A2.
    rewrite (fn_pe_sound tiny TE rho s2 A2 _ _ _ P2), (fn_pe_sound tiny TE rho s1 A1 _ _ _ P1).
    symmetry. apply (fn_pe_sound tiny TE rho (s1 ++ s2) (agrees_app _ _ _ A1 A2) _ _ _ P12).
  Qed.
End Cor.
