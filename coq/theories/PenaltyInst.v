(* PenaltyInst.v — C09 composed with C10 at instance level: a penalty conversion
   (Instance::penalty_method / uniform_penalty_method), the instantiation of the weights
   (with_parameters) and Instance::evaluate.  The solution reported for the result I2 at x has
   the objective  f + sum_k w_k * g_k^2  (resp.  f + w * sum_k g_k^2), no active constraint, and as
   evaluated constraints the previously removed ones followed by the former active ones, in order,
   each with the value of its own function; feasible_relaxed is always true and feasible judges
   exactly those records. *)
Require Import Ommx.Num Ommx.Poly Ommx.Msg Ommx.Eval Ommx.Tree Ommx.Arith Ommx.ArithProofs Ommx.PEval
        Ommx.PEvalProofs Ommx.Inst Ommx.InstProofs Ommx.Transform Ommx.TransformProofs Ommx.Subst
        Ommx.SubstProofs Ommx.SubstInst Ommx.ParamInst.
From Coq Require Import String.
Close Scope string_scope.
Open Scope list_scope.
Open Scope Qc_scope.

(* ---------------- values depend only on the ids that occur ---------------- *)
Lemma mono_val_ext_in rho rho' m : (forall i, In i m -> rho i = rho' i) -> mono_val rho m = mono_val rho' m.
Proof.
  induction m as [|i m IH]; intro E; cbn [mono_val]; [reflexivity|].
  rewrite IH, (E i (or_introl eq_refl)); [reflexivity|]. intros j Hj. apply E. right. exact Hj.
Qed.
Lemma val_ext_occ rho rho' (t : terms) :
  (forall i, occurs_terms t i -> rho i = rho' i) -> val rho t = val rho' t.
Proof.
  induction t as [|[m c] t IH]; intro E; [reflexivity|].
  rewrite !val_cons, IH, (mono_val_ext_in rho rho' m); [reflexivity| |].
  - intros i Hi. apply E. exists m, c. split; [left; reflexivity|exact Hi].
  - intros i (m' & c' & Hin & Hi). apply E. exists m', c'. split; [right; exact Hin|exact Hi].
Qed.
Lemma denote_ext_occ f rho rho' : (forall i, occurs f i -> rho i = rho' i) -> denote f rho = denote f rho'.
Proof. apply val_ext_occ. Qed.

(* the weight that theta gives to parameter k *)
Definition weight (theta : state) (k : N) : num := total theta k.

(* sum_k w_k * g_k^2, the weights read from theta at ids k, k+1, ... *)
Fixpoint wpen_sum (theta : state) (rho : valuation) (cs : list constr) (k : N) : num :=
  match cs with
  | [] => 0
  | c :: cs' =>
      weight theta k * (denote (fn_or_zero (c_fn c)) rho * denote (fn_or_zero (c_fn c)) rho)
      + wpen_sum theta rho cs' (k + 1)
  end.

Lemma pen_sum_weights theta rho : agrees rho theta -> forall cs k,
  (forall j, (j < List.length cs)%nat -> sget theta (k + N.of_nat j) <> None) ->
  pen_sum rho cs k = wpen_sum theta rho cs k.
Proof.
  intros Ag. induction cs as [|c cs IH]; intros k H; cbn [pen_sum wpen_sum]; [reflexivity|].
  rewrite IH.
  - f_equal. f_equal. unfold weight, total.
    assert (G : sget theta k <> None).
    { specialize (H 0%nat). cbn [List.length N.of_nat] in H. rewrite N.add_0_r in H. apply H. lia. }
    destruct (sget theta k) as [w|] eqn:Gk; [apply Ag; exact Gk|congruence].
  - intros j Hj. replace (k + 1 + N.of_nat j)%N with (k + N.of_nat (S j))%N by lia.
    apply H. cbn [List.length]. lia.
Qed.

Lemma wpen_sum_ext theta rho rho' : forall cs k,
  (forall c, In c cs -> denote (fn_or_zero (c_fn c)) rho = denote (fn_or_zero (c_fn c)) rho') ->
  wpen_sum theta rho cs k = wpen_sum theta rho' cs k.
Proof.
  induction cs as [|c cs IH]; intros k H; cbn [wpen_sum]; [reflexivity|].
  rewrite (H c (or_introl eq_refl)), IH; [reflexivity|]. intros c' Hc. apply H. right. exact Hc.
Qed.
Lemma sq_sum_ext rho rho' : forall cs,
  (forall c, In c cs -> denote (fn_or_zero (c_fn c)) rho = denote (fn_or_zero (c_fn c)) rho') ->
  sq_sum rho cs = sq_sum rho' cs.
Proof.
  induction cs as [|c cs IH]; intros H; cbn [sq_sum]; [reflexivity|].
  rewrite (H c (or_introl eq_refl)), IH; [reflexivity|]. intros c' Hc. apply H. right. exact Hc.
Qed.

(* theta's values laid over a valuation *)
Definition over (theta : state) (rho : valuation) : valuation :=
  fun i => match sget theta i with Some w => w | None => rho i end.
Lemma over_agrees_theta theta rho : agrees (over theta rho) theta.
Proof. intros i v G. unfold over. rewrite G. reflexivity. Qed.
Lemma over_agrees_x theta rho x : sdisjoint theta x -> agrees rho x -> agrees (over theta rho) x.
Proof.
  intros Dj Ag i v G. unfold over. destruct (sget theta i) as [w|] eqn:Gt; [|apply Ag; exact G].
  rewrite (Dj i) in G; [discriminate|congruence].
Qed.
Lemma over_same theta rho f : (forall i, sget theta i <> None -> ~ occurs f i) ->
  denote f (over theta rho) = denote f rho.
Proof.
  intro H. apply denote_ext_occ. intros i Ho. unfold over.
  destruct (sget theta i) as [w|] eqn:Gt; [|reflexivity]. exfalso. apply (H i); [congruence|exact Ho].
Qed.

Section PenaltyInst.
  Variable tiny : num -> bool.
  Hypothesis TE : tiny_exact tiny.

  (* ---------------- the removed list built by the two loops ---------------- *)
  Definition newly_removed (reason : tree) (c : constr) (r : removed) : Prop :=
    r_c r = Some c /\ r_reason r = reason.

  Lemma penalty_loop_rs : forall cs k obj ps rs obj' ps' rs',
    penalty_loop tiny cs k obj ps rs = Some (obj', ps', rs') ->
    exists news, rs' = rs ++ news /\ Forall2 (newly_removed (A "penalty_method"%string)) cs news.
  Proof.
    induction cs as [|c cs IH]; intros k obj ps rs obj' ps' rs' H; cbn [penalty_loop] in H.
    - inversion H; subst. exists []. rewrite app_nil_r. split; [reflexivity|constructor].
    - destruct (penalty_term tiny k (fn_or_zero (c_fn c))) as [t|]; [|discriminate].
      destruct (fn_add tiny obj t) as [o|]; [|discriminate].
      apply IH in H. destruct H as (news & -> & F2). eexists (_ :: news).
      rewrite <- app_assoc. cbn [app]. split; [reflexivity|].
      constructor; [split; reflexivity|exact F2].
  Qed.
  Lemma uniform_loop_rs : forall cs qs rs qs' rs',
    uniform_loop tiny cs qs rs = Some (qs', rs') ->
    exists news, rs' = rs ++ news /\ Forall2 (newly_removed (A "uniform_penalty_method"%string)) cs news.
  Proof.
    induction cs as [|c cs IH]; intros qs rs qs' rs' H; cbn [uniform_loop] in H.
    - inversion H; subst. exists []. rewrite app_nil_r. split; [reflexivity|constructor].
    - destruct (fn_mul tiny (fn_or_zero (c_fn c)) (fn_or_zero (c_fn c))) as [ff|]; [|discriminate].
      destruct (fn_add tiny qs ff) as [q|]; [|discriminate].
      apply IH in H. destruct H as (news & -> & F2). eexists (_ :: news).
      rewrite <- app_assoc. cbn [app]. split; [reflexivity|].
      constructor; [split; reflexivity|exact F2].
  Qed.
  Lemma penalty_rs Ins P : penalty tiny Ins = Some P ->
    exists news, p_rs P = i_rs Ins ++ news /\ Forall2 (newly_removed (A "penalty_method"%string)) (i_cs Ins) news.
  Proof.
    unfold penalty. destruct (penalty_loop tiny _ _ _ _ _) as [[[o ps] rs]|] eqn:E; [|discriminate].
    intro H; inversion H; subst; clear H. cbn [p_rs]. eapply penalty_loop_rs; eauto.
  Qed.
  Lemma uniform_penalty_rs Ins P : uniform_penalty tiny Ins = Some P ->
    exists news, p_rs P = i_rs Ins ++ news /\
                 Forall2 (newly_removed (A "uniform_penalty_method"%string)) (i_cs Ins) news.
  Proof.
    unfold uniform_penalty. destruct (uniform_loop tiny _ _ _) as [[qs rs]|] eqn:E; [|discriminate].
    destruct (fn_mul tiny _ _) as [t|]; [|discriminate].
    destruct (fn_add tiny _ _) as [o|]; [|discriminate].
    intro H; inversion H; subst; clear H. cbn [p_rs]. eapply uniform_loop_rs; eauto.
  Qed.

  (* ---------------- constraints and flags of the evaluated result (both methods) ------------ *)
  Definition penalized_constraints (reason : tree) (Ins I2 : instance) (x : state) (sol : solution) : Prop :=
    i_cs I2 = [] /\
    exists er0 er1, so_evaluated sol = er0 ++ er1 /\
      Forall2 (fun r e => reports_removed r x e) (i_rs Ins) er0 /\
      Forall2 (fun c e => exists params, reports c (Some (reason, params)) x e) (i_cs Ins) er1 /\
      so_feasible_relaxed sol = true /\
      (so_feasible sol = true <-> Forall holds (er0 ++ er1)).

  Lemma penalized_constraints_spec reason Ins P theta I2 x sol :
    p_cs P = [] ->
    (exists news, p_rs P = i_rs Ins ++ news /\ Forall2 (newly_removed reason) (i_cs Ins) news) ->
    with_parameters tiny P theta = Some I2 -> inst_eval I2 x = Some sol ->
    penalized_constraints reason Ins I2 x sol.
  Proof.
    intros Ecs (news & Ers & Fn) HW HE.
    destruct (with_parameters_eval tiny TE _ _ _ _ _ HW HE) as (_ & (ea & er & E1 & Fa & Fr & H1 & H2) & _).
    destruct (with_parameters_spec tiny TE _ _ _ HW) as (_ & _ & _ & _ & _ & _ & Sem).
    destruct (Sem (total theta) (total_agrees theta)) as [_ Fc]. rewrite Ecs in Fc, Fa.
    assert (Ec2 : i_cs I2 = []) by (inversion Fc; reflexivity).
    inversion Fa; subst. cbn [app] in *.
    split; [exact Ec2|].
    rewrite Ers in Fr. apply Forall2_app_inv_l in Fr. destruct Fr as (er0 & er1 & F0 & F1 & ->).
    exists er0, er1. split; [exact E1|]. split; [exact F0|]. split; [|split].
    - apply (Forall2_compose (newly_removed reason) (fun r e => reports_removed r x e)) with (l' := news);
        [|exact Fn|exact F1].
      intros c r e [Hc Hr] (c' & Hc' & Rp). rewrite Hc in Hc'. inversion Hc'; subst c'.
      exists (r_params r). rewrite <- Hr. exact Rp.
    - apply H1. constructor.
    - exact H2.
  Qed.

  (* ---------------- per-constraint penalty method ---------------- *)
  Theorem penalty_eval : forall Ins P theta I2 x sol,
    iwf Ins ->
    penalty tiny Ins = Some P ->
    with_parameters tiny P theta = Some I2 ->
    inst_eval I2 x = Some sol ->
    (forall rho, agrees rho x -> agrees rho theta ->
       so_objective sol = denote (fn_or_zero (i_obj Ins)) rho
                          + wpen_sum theta rho (i_cs Ins) (next_id (i_dvs Ins))) /\
    (forall j, (j < List.length (i_cs Ins))%nat -> sget theta (next_id (i_dvs Ins) + N.of_nat j) <> None) /\
    penalized_constraints (A "penalty_method"%string) Ins I2 x sol /\
    i_dvs I2 = i_dvs Ins /\ i_sense I2 = i_sense Ins /\ i_deps I2 = i_deps Ins /\ i_hints I2 = i_hints Ins /\
    i_params I2 = Some theta /\ so_dvs sol = i_dvs Ins.
  Proof.
    intros Ins P theta I2 x sol W HP HW HE.
    destruct (penalty_spec tiny TE _ _ W HP) as (Ecs & _ & Hpa & _ & Edv & Ese & Ede & Ehi & Hobj).
    destruct (with_parameters_eval tiny TE _ _ _ _ _ HW HE) as (Ob & _ & F1 & F2 & _ & F4 & F5 & _ & F7 & F8).
    assert (Sup : forall j, (j < List.length (i_cs Ins))%nat ->
                            sget theta (next_id (i_dvs Ins) + N.of_nat j) <> None).
    { intros j Hj.
      assert (Hin : In (next_id (i_dvs Ins) + N.of_nat j)%N (map pa_id (p_params P))).
      { rewrite Hpa. apply in_map_iff. exists j. split; [reflexivity|]. apply in_seq. lia. }
      apply in_map_iff in Hin. destruct Hin as (p & <- & Hp).
      apply (with_parameters_supplied tiny _ _ _ HW p Hp). }
    split; [|split; [exact Sup|split]].
    - intros rho Ax At. rewrite (Ob rho Ax At), Hobj. f_equal. apply pen_sum_weights; assumption.
    - apply (penalized_constraints_spec _ Ins P theta); auto. apply penalty_rs. exact HP.
    - repeat split; congruence.
  Qed.

  (* ---------------- uniform penalty method ---------------- *)
  Theorem uniform_penalty_eval : forall Ins P theta I2 x sol,
    iwf Ins ->
    uniform_penalty tiny Ins = Some P ->
    with_parameters tiny P theta = Some I2 ->
    inst_eval I2 x = Some sol ->
    (forall rho, agrees rho x -> agrees rho theta ->
       so_objective sol = denote (fn_or_zero (i_obj Ins)) rho
                          + weight theta (next_id (i_dvs Ins)) * sq_sum rho (i_cs Ins)) /\
    sget theta (next_id (i_dvs Ins)) <> None /\
    penalized_constraints (A "uniform_penalty_method"%string) Ins I2 x sol /\
    i_dvs I2 = i_dvs Ins /\ i_sense I2 = i_sense Ins /\ i_deps I2 = i_deps Ins /\ i_hints I2 = i_hints Ins /\
    i_params I2 = Some theta /\ so_dvs sol = i_dvs Ins.
  Proof.
    intros Ins P theta I2 x sol W HP HW HE.
    destruct (uniform_penalty_spec tiny TE _ _ W HP) as (Ecs & _ & Hpa & Edv & Ese & Ede & Ehi & Hobj).
    destruct (with_parameters_eval tiny TE _ _ _ _ _ HW HE) as (Ob & _ & F1 & F2 & _ & F4 & F5 & _ & F7 & F8).
    assert (Sup : sget theta (next_id (i_dvs Ins)) <> None).
    { assert (Hin : In (next_id (i_dvs Ins)) (map pa_id (p_params P))) by (rewrite Hpa; left; reflexivity).
      apply in_map_iff in Hin. destruct Hin as (p & <- & Hp).
      apply (with_parameters_supplied tiny _ _ _ HW p Hp). }
    split; [|split; [exact Sup|split]].
    - intros rho Ax At. rewrite (Ob rho Ax At), Hobj. f_equal. f_equal. unfold weight, total.
      destruct (sget theta (next_id (i_dvs Ins))) as [w|] eqn:G; [apply At; exact G|congruence].
    - apply (penalized_constraints_spec _ Ins P theta); auto. apply uniform_penalty_rs. exact HP.
    - repeat split; congruence.
  Qed.

  (* ---------------- the objective against the valuations of x (or of the reported state) alone:
     the ids that theta gives a value to are fresh -- they have no value in x and do not occur in
     the objective or in a constraint of the original instance ---------------- *)
  Definition theta_fresh (theta : state) (Ins : instance) (x : state) : Prop :=
    sdisjoint theta x /\
    (forall i, sget theta i <> None -> ~ occurs (fn_or_zero (i_obj Ins)) i) /\
    (forall c, In c (i_cs Ins) -> forall i, sget theta i <> None -> ~ occurs (fn_or_zero (c_fn c)) i).

  Corollary penalty_eval_fresh : forall Ins P theta I2 x sol,
    iwf Ins -> theta_fresh theta Ins x ->
    penalty tiny Ins = Some P ->
    with_parameters tiny P theta = Some I2 ->
    inst_eval I2 x = Some sol ->
    (forall rho, agrees rho x ->
       so_objective sol = denote (fn_or_zero (i_obj Ins)) rho
                          + wpen_sum theta rho (i_cs Ins) (next_id (i_dvs Ins))) /\
    (sext x (so_state sol) -> forall rho, agrees rho (so_state sol) ->
       so_objective sol = denote (fn_or_zero (i_obj Ins)) rho
                          + wpen_sum theta rho (i_cs Ins) (next_id (i_dvs Ins))).
  Proof.
    intros Ins P theta I2 x sol W (Dj & Fo & Fc) HP HW HE.
    destruct (penalty_eval _ _ _ _ _ _ W HP HW HE) as (Ob & _).
    assert (M : forall rho, agrees rho x ->
       so_objective sol = denote (fn_or_zero (i_obj Ins)) rho
                          + wpen_sum theta rho (i_cs Ins) (next_id (i_dvs Ins))).
    { intros rho Ax.
      rewrite (Ob (over theta rho) (over_agrees_x _ _ _ Dj Ax) (over_agrees_theta _ _)).
      rewrite (over_same theta rho _ Fo). f_equal. apply wpen_sum_ext.
      intros c Hc. apply over_same. apply Fc. exact Hc. }
    split; [exact M|]. intros X rho Ag. apply M. eapply agrees_sext; eauto.
  Qed.

  Corollary uniform_penalty_eval_fresh : forall Ins P theta I2 x sol,
    iwf Ins -> theta_fresh theta Ins x ->
    uniform_penalty tiny Ins = Some P ->
    with_parameters tiny P theta = Some I2 ->
    inst_eval I2 x = Some sol ->
    (forall rho, agrees rho x ->
       so_objective sol = denote (fn_or_zero (i_obj Ins)) rho
                          + weight theta (next_id (i_dvs Ins)) * sq_sum rho (i_cs Ins)) /\
    (sext x (so_state sol) -> forall rho, agrees rho (so_state sol) ->
       so_objective sol = denote (fn_or_zero (i_obj Ins)) rho
                          + weight theta (next_id (i_dvs Ins)) * sq_sum rho (i_cs Ins)).
  Proof.
    intros Ins P theta I2 x sol W (Dj & Fo & Fc) HP HW HE.
    destruct (uniform_penalty_eval _ _ _ _ _ _ W HP HW HE) as (Ob & _).
    assert (M : forall rho, agrees rho x ->
       so_objective sol = denote (fn_or_zero (i_obj Ins)) rho
                          + weight theta (next_id (i_dvs Ins)) * sq_sum rho (i_cs Ins)).
    { intros rho Ax.
      rewrite (Ob (over theta rho) (over_agrees_x _ _ _ Dj Ax) (over_agrees_theta _ _)).
      rewrite (over_same theta rho _ Fo). f_equal. f_equal. apply sq_sum_ext.
      intros c Hc. apply over_same. apply Fc. exact Hc. }
    split; [exact M|]. intros X rho Ag. apply M. eapply agrees_sext; eauto.
  Qed.
End PenaltyInst.

(* ================= non-vacuity ================= *)
(* binary x1, x2; minimise x1 + 2*x2; active constraints 7: x1 + x2 - 1 = 0 and 8: x1 - x2 <= 0;
   a previously removed constraint 3: x1 - 1 = 0.  Fresh weight ids 3 and 4 (max id + 1, + 2).
   theta = {3 -> 5, 4 -> 7}.  At x = (1, 0): f = 1, g7 = 0, g8 = 1, so
   penalty method: 1 + 5*0 + 7*1 = 8;  uniform method (weight id 3): 1 + 5*(0 + 1) = 6. *)
Definition bin (i : N) : dvar :=
  {| dv_id := i; dv_kind := KIND_BINARY; dv_bound := None; dv_subst := None; dv_meta := [] |}.
Definition Ins_p : instance :=
  {| i_sense := SENSE_MIN;
     i_obj := Some (lin2 1 1 2 (qz 2) 0);
     i_dvs := [ bin 1; bin 2 ];
     i_cs := [ {| c_id := 7; c_eq := EQ_ZERO; c_fn := Some (lin2 1 1 2 1 (qz (-1))); c_meta := [A "c7"%string] |};
               {| c_id := 8; c_eq := LE_ZERO; c_fn := Some (lin2 1 1 2 (qz (-1)) 0); c_meta := [A "c8"%string] |} ];
     i_rs := [ {| r_c := Some {| c_id := 3; c_eq := EQ_ZERO;
                                 c_fn := Some (FLin {| l_terms := [(1%N, 1)]; l_const := qz (-1) |});
                                 c_meta := [] |};
                  r_reason := A "old"%string; r_params := L [] |} ];
     i_deps := []; i_params := None; i_hints := L []; i_desc := L [] |}.
Definition theta_p : state := [ (3%N, qz 5); (4%N, qz 7) ].
Definition x_p : state := [ (1%N, 1); (2%N, 0) ].

Ltac occ_contra H Hin Hi :=
  vm_compute in Hin;
  repeat (destruct Hin as [Hin|Hin];
          [inversion Hin; subst; cbn [In] in Hi; intuition (subst; apply H; vm_compute; reflexivity)|]);
  try contradiction.

Lemma theta_p_fresh : theta_fresh theta_p Ins_p x_p.
Proof.
  split; [|split].
  - intros i H. unfold theta_p in H. cbn [sget] in H. unfold x_p. cbn [sget].
    destruct (i =? 3)%N eqn:E3; [apply N.eqb_eq in E3; subst; reflexivity|].
    destruct (i =? 4)%N eqn:E4; [apply N.eqb_eq in E4; subst; reflexivity|]. congruence.
  - intros i H (m & c & Hin & Hi). occ_contra H Hin Hi.
  - intros c0 Hc i H (m & c & Hin & Hi).
    destruct Hc as [<-|[<-|[]]]; occ_contra H Hin Hi.
Qed.

Example penalty_eval_nonvacuous :
  exists P P' I2 I2' sol sol',
    iwf Ins_p /\ theta_fresh theta_p Ins_p x_p /\
    penalty tiny_0 Ins_p = Some P /\ uniform_penalty tiny_0 Ins_p = Some P' /\
    with_parameters tiny_0 P theta_p = Some I2 /\ with_parameters tiny_0 P' theta_p = Some I2' /\
    inst_eval I2 x_p = Some sol /\ inst_eval I2' x_p = Some sol' /\
    so_objective sol = qz 8 /\ so_objective sol' = qz 6 /\
    denote (fn_or_zero (i_obj Ins_p)) (total x_p)
      + wpen_sum theta_p (total x_p) (i_cs Ins_p) (next_id (i_dvs Ins_p)) = qz 8 /\
    denote (fn_or_zero (i_obj Ins_p)) (total x_p)
      + weight theta_p (next_id (i_dvs Ins_p)) * sq_sum (total x_p) (i_cs Ins_p) = qz 6 /\
    i_cs I2 = [] /\ i_cs I2' = [] /\
    map ev_id (so_evaluated sol) = [3%N; 7%N; 8%N] /\ map ev_value (so_evaluated sol) = [0; 0; 1] /\
    map ev_id (so_evaluated sol') = [3%N; 7%N; 8%N] /\ map ev_value (so_evaluated sol') = [0; 0; 1] /\
    so_feasible_relaxed sol = true /\ so_feasible sol = false /\
    so_feasible_relaxed sol' = true /\ so_feasible sol' = false.
Proof.
  do 6 eexists.
  split. { split; [exact Logic.I|repeat constructor]. }
  split. { exact theta_p_fresh. }
  split. { vm_compute. reflexivity. }
  split. { vm_compute. reflexivity. }
  split. { vm_compute. reflexivity. }
  split. { vm_compute. reflexivity. }
  split. { vm_compute. reflexivity. }
  split. { vm_compute. reflexivity. }
  repeat split; vm_compute; reflexivity.
Qed.

Print Assumptions penalty_eval.
Print Assumptions uniform_penalty_eval.
Print Assumptions penalty_eval_fresh.
Print Assumptions uniform_penalty_eval_fresh.
Print Assumptions penalty_eval_nonvacuous.
