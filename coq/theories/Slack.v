(* Slack.v — Instance::convert_inequality_to_equality_with_integer_slack and
   Instance::add_integer_slack_to_inequality (v1_ext/instance.rs:475-634). *)
Require Import Ommx.Num Ommx.Poly Ommx.Msg Ommx.Eval Ommx.Tree Ommx.Arith Ommx.Inst Ommx.Relax
        Ommx.Transform Ommx.Bound.
From Coq Require Import String.
Open Scope string_scope.
Open Scope list_scope.

Inductive slack_err :=
| SNotFound | SNotInequality | SNoFunction | SUnknownVariable | SContinuous | SInvalidBound
| SContent | SInfeasible | SRange | SPanic.

(* get_bounds as a Bound.bounds box; None if some declared bound is invalid *)
Fixpoint box_of (dvs : list dvar) (acc : bounds) : option bounds :=
  match dvs with
  | [] => Some acc
  | v :: dvs' =>
      match dv_bound_of v with
      | None => None
      | Some (l, u) => box_of dvs' ((dv_id v, {| lower := l; upper := u |}) :: acc)
      end
  end.
Fixpoint kind_of (i : N) (dvs : list dvar) (cur : option Z) : option Z :=
  match dvs with
  | [] => cur
  | v :: dvs' => kind_of i dvs' (if (dv_id v =? i)%N then Some (dv_kind v) else cur)
  end.
(* every used variable is a known binary or integer variable; ids in ascending order *)
Fixpoint check_kinds (ids : list N) (dvs : list dvar) : option slack_err :=
  match ids with
  | [] => None
  | i :: ids' =>
      match kind_of i dvs None with
      | None => Some SUnknownVariable
      | Some k => if (k =? KIND_BINARY)%Z || (k =? KIND_INTEGER)%Z then check_kinds ids' dvs
                  else Some SContinuous
      end
  end.
Definition used_sorted (f : function) : list N := dedup_sorted (sort_ids (fn_used f)).

Fixpoint find_constr (id : N) (cs : list constr) : option constr :=
  match cs with
  | [] => None
  | c :: cs' => if (c_id c =? id)%N then Some c else find_constr id cs'
  end.
Fixpoint replace_constr (id : N) (c' : constr) (cs : list constr) : list constr :=
  match cs with
  | [] => []
  | c :: cs' => if (c_id c =? id)%N then c' :: cs' else c :: replace_constr id c' cs'
  end.

Definition slack_dv (id cid : N) (b : ext * ext) : dvar :=
  {| dv_id := id; dv_kind := KIND_INTEGER; dv_bound := Some b; dv_subst := None;
     dv_meta := [L [A "ommx.slack"]; L [I (Z.of_N cid)]; L []; L []] |}.

Definition set_dvs_cs (I : instance) (dvs : list dvar) (cs : list constr) : instance :=
  {| i_sense := i_sense I; i_obj := i_obj I; i_dvs := dvs; i_cs := cs; i_rs := i_rs I;
     i_deps := i_deps I; i_params := i_params I; i_hints := i_hints I; i_desc := i_desc I |}.

Definition ext_gt0 (x : ext) : bool := eltb (Fin 0) x.
Definition ext_le0 (x : ext) : bool := eleb x (Fin 0).

Section Slack.
  Variable tiny : num -> bool.

  (* common prologue: the constraint, its function, the kinds of its variables *)
  Definition slack_prologue (I : instance) (cid : N) (check_ineq_first : bool)
    : slack_err + (bounds * constr * function) :=
    match box_of (i_dvs I) [] with
    | None => inl SInvalidBound
    | Some bs =>
        match find_constr cid (i_cs I) with
        | None => inl SNotFound
        | Some c =>
            if negb (c_eq c =? LE_ZERO)%Z then inl SNotInequality
            else match c_fn c with
                 | None => inl SNoFunction
                 | Some f =>
                     match check_kinds (used_sorted f) (i_dvs I) with
                     | Some e => inl e
                     | None => inr (bs, c, f)
                     end
                 end
        end
    end.

  Definition relaxed_with (I : instance) (cid : N) (reason : string) : slack_err + instance :=
    match relax I cid (A reason) (L []) with
    | Some I' => inr I'
    | None => inl SNotFound
    end.

  Definition convert_slack (I : instance) (cid : N) (max_range : N) : slack_err + instance :=
    match slack_prologue I cid true with
    | inl e => inl e
    | inr (bs, c, f) =>
        match content_factor f with
        | None => inl SPanic
        | Some a =>
            match fn_mul tiny f (FConst a) with
            | None => inl SPanic
            | Some af =>
                match evaluate_bound af bs with
                | None => inl SPanic
                | Some B0 =>
                    match as_integer_bound B0 with
                    | None => inl SPanic
                    | Some B =>
                        if ext_gt0 (lower B) then inl SInfeasible
                        else if ext_le0 (upper B) then
                          relaxed_with I cid "convert_inequality_to_equality_with_integer_slack"
                        else
                          let ub := eneg (lower B) in
                          if eltb (Fin (qz (Z.of_N max_range))) ub then inl SRange
                          else
                            let sid := next_id (i_dvs I) in
                            match fn_add tiny f (FLin (lin_single sid (1 / a))) with
                            | None => inl SPanic
                            | Some f' =>
                                inr (set_dvs_cs I (i_dvs I ++ [slack_dv sid cid (Fin 0, ub)])
                                       (replace_constr cid {| c_id := c_id c; c_eq := EQ_ZERO; c_fn := Some f';
                                                              c_meta := c_meta c |} (i_cs I)))
                            end
                    end
                end
            end
        end
    end.

  (* returns the instance and the coefficient b of the slack (None when the constraint was moved
     to the removed constraints because it always holds) *)
  Definition add_slack (I : instance) (cid : N) (U : N) : slack_err + (instance * option ext) :=
    match slack_prologue I cid true with
    | inl e => inl e
    | inr (bs, c, f) =>
        match evaluate_bound f bs with
        | None => inl SPanic
        | Some B =>
            if ext_gt0 (lower B) then inl SInfeasible
            else if ext_le0 (upper B) then
              match relaxed_with I cid "add_integer_slack_to_inequality" with
              | inr I' => inr (I', None)
              | inl e => inl e
              end
            else
              match lower B, U with
              | Fin l, Npos _ =>
                  let b := (- l) / qz (Z.of_N U) in
                  let sid := next_id (i_dvs I) in
                  match fn_add tiny f (FLin (lin_single sid b)) with
                  | None => inl SPanic
                  | Some f' =>
                      inr (set_dvs_cs I (i_dvs I ++ [slack_dv sid cid (Fin 0, Fin (qz (Z.of_N U)))])
                             (replace_constr cid {| c_id := c_id c; c_eq := c_eq c; c_fn := Some f';
                                                    c_meta := c_meta c |} (i_cs I)),
                           Some (Fin b))
                  end
              | _, _ => inl SPanic      (* unbounded function or U = 0: outside the property *)
              end
        end
    end.
End Slack.
