(* CodecEq.v — the verified comparator of the C07 correspondence: exact boolean equality on dynamic
   values, proved sound, applied after both sides are put in canonical order (message fields by
   number, map entries by key).  `same_content a b = true` therefore certifies
   `canon a = canon b` (Leibniz): equal up to the order of fields and of map entries, which the
   wire format does not fix (prost emits fields by tag and HashMap entries in arbitrary order). *)
From Coq Require Import NArith ZArith List Bool String.
Require Import Ommx.Schema Ommx.Wire Ommx.Codec.
Import ListNotations.
Open Scope list_scope.
Open Scope N_scope.

(* ------------------------------------------------------------------ induction principle *)
Section ValueInd.
Variable P : value -> Prop.
Hypothesis HU : forall n, P (VU64 n).
Hypothesis HI : forall z, P (VI64 z).
Hypothesis HB : forall b, P (VBool b).
Hypothesis HF : forall n, P (VF64 n).
Hypothesis HS : forall b, P (VStr b).
Hypothesis HE : forall z, P (VEnum z).
Hypothesis HM : forall fs, Forall (fun nv : N * value => P (snd nv)) fs -> P (VMsg fs).
Hypothesis HL : forall vs, Forall P vs -> P (VList vs).
Hypothesis HP : forall kvs, Forall (fun kv : value * value => P (fst kv) /\ P (snd kv)) kvs -> P (VMap kvs).

Fixpoint value_ind' (v : value) : P v :=
  match v with
  | VU64 n => HU n
  | VI64 z => HI z
  | VBool b => HB b
  | VF64 n => HF n
  | VStr b => HS b
  | VEnum z => HE z
  | VMsg fs =>
      HM fs ((fix go (l : list (N * value)) : Forall (fun nv : N * value => P (snd nv)) l :=
                match l with
                | [] => Forall_nil _
                | nv :: r => Forall_cons nv (value_ind' (snd nv)) (go r)
                end) fs)
  | VList vs =>
      HL vs ((fix go (l : list value) : Forall P l :=
                match l with
                | [] => Forall_nil _
                | x :: r => Forall_cons x (value_ind' x) (go r)
                end) vs)
  | VMap kvs =>
      HP kvs ((fix go (l : list (value * value)) : Forall (fun kv : value * value => P (fst kv) /\ P (snd kv)) l :=
                 match l with
                 | [] => Forall_nil _
                 | kv :: r => Forall_cons kv (conj (value_ind' (fst kv)) (value_ind' (snd kv))) (go r)
                 end) kvs)
  end.
End ValueInd.

(* ------------------------------------------------------------------ exact equality *)
Fixpoint value_eqb (a b : value) {struct a} : bool :=
  match a, b with
  | VU64 x, VU64 y => x =? y
  | VI64 x, VI64 y => Z.eqb x y
  | VBool x, VBool y => Bool.eqb x y
  | VF64 x, VF64 y => x =? y
  | VStr x, VStr y => list_eqb N.eqb x y
  | VEnum x, VEnum y => Z.eqb x y
  | VMsg fa, VMsg fb =>
      (fix go (l1 : list (N * value)) (l2 : list (N * value)) : bool :=
         match l1, l2 with
         | [], [] => true
         | nx :: r1, ny :: r2 => (fst nx =? fst ny) && value_eqb (snd nx) (snd ny) && go r1 r2
         | _, _ => false
         end) fa fb
  | VList xa, VList xb =>
      (fix go (l1 : list value) (l2 : list value) : bool :=
         match l1, l2 with
         | [], [] => true
         | x :: r1, y :: r2 => value_eqb x y && go r1 r2
         | _, _ => false
         end) xa xb
  | VMap ka, VMap kb =>
      (fix go (l1 : list (value * value)) (l2 : list (value * value)) : bool :=
         match l1, l2 with
         | [], [] => true
         | kx :: r1, ky :: r2 =>
             value_eqb (fst kx) (fst ky) && value_eqb (snd kx) (snd ky) && go r1 r2
         | _, _ => false
         end) ka kb
  | _, _ => false
  end.

Theorem value_eqb_sound : forall a b, value_eqb a b = true -> a = b.
Proof.
  induction a as [n|z|b|n|b|z|fs IHfs|vs IHvs|kvs IHkvs] using value_ind';
    intros b0 Heq; destruct b0; cbn [value_eqb] in Heq; try discriminate Heq.
  - apply N.eqb_eq in Heq. now subst.
  - apply Z.eqb_eq in Heq. now subst.
  - apply Bool.eqb_prop in Heq. now subst.
  - apply N.eqb_eq in Heq. now subst.
  - apply (list_eqb_sound N.eqb) in Heq; [now subst|]. intros x y E. now apply N.eqb_eq.
  - apply Z.eqb_eq in Heq. now subst.
  - f_equal. revert fs0 Heq.
    induction IHfs as [|[n x] r Hx Hr IH]; intros [|[m y] r2] Heq; try discriminate Heq.
    + reflexivity.
    + cbn [fst snd] in *. rewrite !andb_true_iff in Heq. destruct Heq as [[H1 H2] H3].
      apply N.eqb_eq in H1. apply Hx in H2. apply IH in H3. now subst.
  - f_equal. revert vs0 Heq.
    induction IHvs as [|x r Hx Hr IH]; intros [|y r2] Heq; try discriminate Heq.
    + reflexivity.
    + rewrite !andb_true_iff in Heq. destruct Heq as [H2 H3]. apply Hx in H2. apply IH in H3. now subst.
  - f_equal. revert kvs0 Heq.
    induction IHkvs as [|[k x] r [Hk Hx] Hr IH]; intros [|[k2 y] r2] Heq; try discriminate Heq.
    + reflexivity.
    + cbn [fst snd] in *. rewrite !andb_true_iff in Heq. destruct Heq as [[H1 H2] H3].
      apply Hk in H1. apply Hx in H2. apply IH in H3. now subst.
Qed.

(* ------------------------------------------------------------------ canonical order *)
Fixpoint bytes_leb (a b : list N) : bool :=
  match a, b with
  | [], _ => true
  | _ :: _, [] => false
  | x :: r, y :: s => if x <? y then true else if y <? x then false else bytes_leb r s
  end.
Definition key_leb (a b : value) : bool :=
  match a, b with
  | VU64 x, VU64 y => x <=? y
  | VI64 x, VI64 y => Z.leb x y
  | VBool x, VBool y => implb x y
  | VStr x, VStr y => bytes_leb x y
  | VEnum x, VEnum y => Z.leb x y
  | _, _ => true
  end.

Fixpoint insert_field (x : N * value) (l : list (N * value)) : list (N * value) :=
  match l with
  | [] => [x]
  | y :: r => if fst x <=? fst y then x :: l else y :: insert_field x r
  end.
Fixpoint insert_entry (x : value * value) (l : list (value * value)) : list (value * value) :=
  match l with
  | [] => [x]
  | y :: r => if key_leb (fst x) (fst y) then x :: l else y :: insert_entry x r
  end.
Fixpoint canon (v : value) : value :=
  match v with
  | VMsg fs => VMsg (fold_right insert_field [] (map (fun nv : N * value => (fst nv, canon (snd nv))) fs))
  | VList vs => VList (map canon vs)
  | VMap kvs => VMap (fold_right insert_entry [] (map (fun kv : value * value => (fst kv, canon (snd kv))) kvs))
  | _ => v
  end.

Definition same_content (a b : value) : bool := value_eqb (canon a) (canon b).

Theorem same_content_sound a b : same_content a b = true -> canon a = canon b.
Proof. apply value_eqb_sound. Qed.

(* sorting only permutes: nothing is lost or invented *)
Lemma insert_field_length x l : List.length (insert_field x l) = S (List.length l).
Proof. induction l as [|y r IH]; cbn; [reflexivity|]. destruct (fst x <=? fst y); cbn; auto. Qed.
Lemma insert_field_In x l y : In y (insert_field x l) <-> y = x \/ In y l.
Proof.
  induction l as [|z r IH]; cbn; [intuition|]. destruct (fst x <=? fst z); cbn; [intuition|].
  rewrite IH. intuition.
Qed.
