(* ValidateProofs.v — C08: validation accepts exactly the well-formed instances; the typed view
   accepts exactly the messages satisfying wf_typed and reports an error otherwise. *)
Require Import Ommx.Num Ommx.Poly Ommx.Msg Ommx.Eval Ommx.Tree Ommx.Inst Ommx.Relax Ommx.Transform
        Ommx.Validate.
From Coq Require Import String.
Close Scope string_scope.
Open Scope list_scope.

Lemma nodupb_spec l : nodupb l = true <-> NoDup l.
Proof.
  induction l as [|i l IH]; cbn [nodupb]; [split; [constructor|reflexivity]|].
  rewrite andb_true_iff, negb_true_iff, IH. split.
  - intros [M H]. constructor; [|exact H]. intro Hin. apply mem_In in Hin. congruence.
  - intro H. inversion H as [|? ? Hn Hd]; subst. split; [|exact Hd].
    destruct (mem i l) eqn:M; [apply mem_In in M; contradiction|reflexivity].
Qed.

(* ---------------- validate ---------------- *)
Theorem validate_iff I : validate I = true <->
  NoDup (map dv_id (i_dvs I)) /\ NoDup (map c_id (all_constrs I)) /\
  (forall i, In i (inst_used I) -> In i (map dv_id (i_dvs I))).
Proof.
  unfold validate, validate_dv_ids, validate_constraint_ids.
  rewrite !andb_true_iff, !nodupb_spec, subset_spec. tauto.
Qed.

Theorem pvalidate_iff P : pvalidate P = true <->
  NoDup (map dv_id (p_dvs P) ++ map pa_id (p_params P)) /\
  (forall i, In i (fn_used (fn_or_zero (p_obj P)) ++ flat_map constr_used (p_cs P)) ->
             In i (map dv_id (p_dvs P) ++ map pa_id (p_params P))) /\
  NoDup (map c_id (p_cs P ++ removed_constrs (p_rs P))).
Proof.
  unfold pvalidate. rewrite !andb_true_iff, !nodupb_spec, subset_spec. tauto.
Qed.

(* ---------------- the typed view ---------------- *)
Lemma parse_dv_none v : parse_dv v = None <-> (1 <= dv_kind v <= 5)%Z /\ dv_bound_of v <> None.
Proof.
  unfold parse_dv.
  destruct ((1 <=? dv_kind v)%Z && (dv_kind v <=? 5)%Z) eqn:K; cbn [negb].
  - apply andb_true_iff in K. destruct K as [K1 K2]. apply Z.leb_le in K1. apply Z.leb_le in K2.
    destruct (dv_bound_of v) as [b|].
    + split; [intros _; split; [lia|discriminate]|reflexivity].
    + split; [discriminate|intros [_ H]; contradiction].
  - split; [discriminate|]. intros [[K1 K2] _]. apply andb_false_iff in K.
    destruct K as [K|K]; apply Z.leb_gt in K; lia.
Qed.

Lemma parse_dvs_none : forall dvs seen, parse_dvs dvs seen = None <->
  (forall v, In v dvs -> parse_dv v = None) /\ NoDup (map dv_id dvs) /\
  (forall v, In v dvs -> ~ In (dv_id v) seen).
Proof.
  induction dvs as [|v dvs IH]; intro seen; cbn [parse_dvs map].
  - split; [intros _; repeat split; [intros ? []|constructor|intros ? []]|reflexivity].
  - destruct (parse_dv v) as [e|] eqn:P.
    + split; [discriminate|]. intros [H _]. rewrite (H v (or_introl eq_refl)) in P. discriminate.
    + destruct (mem (dv_id v) seen) eqn:M.
      * split; [discriminate|]. intros (_ & _ & H). exfalso. apply (H v (or_introl eq_refl)).
        apply mem_In. exact M.
      * rewrite IH. split.
        -- intros (H1 & H2 & H3). split; [|split].
           ++ intros w [<-|Hw]; [exact P|apply H1; exact Hw].
           ++ constructor; [|exact H2]. intro Hin. apply in_map_iff in Hin. destruct Hin as (w & Ew & Hw).
              apply (H3 w Hw). rewrite Ew. left. reflexivity.
           ++ intros w [<-|Hw]; [intro Hin; apply mem_In in Hin; congruence|].
              intro Hin. apply (H3 w Hw). right. exact Hin.
        -- intros (H1 & H2 & H3). inversion H2 as [|? ? Hn Hd]; subst. split; [|split].
           ++ intros w Hw. apply H1. right. exact Hw.
           ++ exact Hd.
           ++ intros w Hw [E|Hin].
              ** apply Hn. rewrite E. apply in_map. exact Hw.
              ** apply (H3 w (or_intror Hw)). exact Hin.
Qed.

Definition constr_ok (c : constr) : Prop :=
  (c_eq c = EQ_ZERO \/ c_eq c = LE_ZERO) /\ exists f, c_fn c = Some f /\ f <> FUnset.
Lemma parse_constr_none c : parse_constr c = None <-> constr_ok c.
Proof.
  unfold parse_constr, constr_ok.
  destruct ((c_eq c =? EQ_ZERO)%Z || (c_eq c =? LE_ZERO)%Z) eqn:E; cbn [negb].
  - apply orb_true_iff in E. rewrite !Z.eqb_eq in E.
    destruct (c_fn c) as [f|].
    + destruct f as [|a|l|q|p]; cbn [parse_fn].
      * split; [discriminate|]. intros [_ (f & Ef & Nf)]. inversion Ef; subst. contradiction.
      * split; [intros _; split; [exact E|eexists; split; [reflexivity|discriminate]]|reflexivity].
      * split; [intros _; split; [exact E|eexists; split; [reflexivity|discriminate]]|reflexivity].
      * split; [intros _; split; [exact E|eexists; split; [reflexivity|discriminate]]|reflexivity].
      * split; [intros _; split; [exact E|eexists; split; [reflexivity|discriminate]]|reflexivity].
    + split; [discriminate|]. intros [_ (f & Ef & _)]. discriminate.
  - split; [discriminate|]. intros [[H|H] _]; apply orb_false_iff in E; destruct E as [E1 E2];
      apply Z.eqb_neq in E1; apply Z.eqb_neq in E2; contradiction.
Qed.

Lemma parse_constrs_none : forall cs seen, parse_constrs cs seen = None <->
  (forall c, In c cs -> constr_ok c) /\ NoDup (map c_id cs) /\ (forall c, In c cs -> ~ In (c_id c) seen).
Proof.
  induction cs as [|c cs IH]; intro seen; cbn [parse_constrs map].
  - split; [intros _; split; [intros ? []|split; [constructor|intros ? []]]|reflexivity].
  - destruct (parse_constr c) as [e|] eqn:P.
    + split; [discriminate|]. intros [H _]. specialize (H c (or_introl eq_refl)). apply parse_constr_none in H. congruence.
    + apply parse_constr_none in P. destruct (mem (c_id c) seen) eqn:M.
      * split; [discriminate|]. intros (_ & _ & H). exfalso. apply (H c (or_introl eq_refl)). apply mem_In. exact M.
      * rewrite IH. split.
        -- intros (H1 & H2 & H3). split; [|split].
           ++ intros w [<-|Hw]; [exact P|apply H1; exact Hw].
           ++ constructor; [|exact H2]. intro Hin. apply in_map_iff in Hin. destruct Hin as (w & Ew & Hw).
              apply (H3 w Hw). rewrite Ew. left. reflexivity.
           ++ intros w [<-|Hw]; [intro Hin; apply mem_In in Hin; congruence|].
              intro Hin. apply (H3 w Hw). right. exact Hin.
        -- intros (H1 & H2 & H3). inversion H2 as [|? ? Hn Hd]; subst. split; [|split].
           ++ intros w Hw. apply H1. right. exact Hw.
           ++ exact Hd.
           ++ intros w Hw [E|Hin].
              ** apply Hn. rewrite E. apply in_map. exact Hw.
              ** apply (H3 w (or_intror Hw)). exact Hin.
Qed.

Lemma parse_removed_none : forall rs active seen, parse_removed rs active seen = None <->
  (forall r, In r rs -> r_c r <> None) /\
  (forall c, In c (removed_constrs rs) -> constr_ok c) /\
  NoDup (map c_id (removed_constrs rs)) /\
  (forall c, In c (removed_constrs rs) -> ~ In (c_id c) active /\ ~ In (c_id c) seen).
Proof.
  induction rs as [|r rs IH]; intros active seen; cbn [parse_removed removed_constrs].
  - split; [intros _; split; [intros ? []|split; [intros ? []|split; [constructor|intros ? []]]]|reflexivity].
  - destruct (r_c r) as [c|] eqn:Rc.
    + destruct (parse_constr c) as [e|] eqn:P.
      * split; [discriminate|]. intros (_ & H & _). specialize (H c (or_introl eq_refl)). apply parse_constr_none in H. congruence.
      * apply parse_constr_none in P. destruct (mem (c_id c) active || mem (c_id c) seen) eqn:M.
        -- split; [discriminate|]. intros (_ & _ & _ & H). exfalso.
           destruct (H c (or_introl eq_refl)) as [Ha Hs]. apply orb_true_iff in M.
           destruct M as [M|M]; apply mem_In in M; contradiction.
        -- apply orb_false_iff in M. destruct M as [Ma Ms]. rewrite IH. cbn [map]. split.
           ++ intros (H0 & H1 & H2 & H3). split; [|split; [|split]].
              ** intros w [<-|Hw]; [rewrite Rc; discriminate|apply H0; exact Hw].
              ** intros w [<-|Hw]; [exact P|apply H1; exact Hw].
              ** constructor; [|exact H2]. intro Hin. apply in_map_iff in Hin. destruct Hin as (w & Ew & Hw).
                 destruct (H3 w Hw) as [_ Hs]. apply Hs. rewrite Ew. left. reflexivity.
              ** intros w [<-|Hw].
                 --- split; intro Hin; apply mem_In in Hin; congruence.
                 --- destruct (H3 w Hw) as [Ha Hs]. split; [exact Ha|]. intro Hin. apply Hs. right. exact Hin.
           ++ intros (H0 & H1 & H2 & H3). inversion H2 as [|? ? Hn Hd]; subst. split; [|split; [|split]].
              ** intros w Hw. apply H0. right. exact Hw.
              ** intros w Hw. apply H1. right. exact Hw.
              ** exact Hd.
              ** intros w Hw. destruct (H3 w (or_intror Hw)) as [Ha Hs]. split; [exact Ha|].
                 intros [E|Hin]; [apply Hn; rewrite E; apply in_map; exact Hw|apply Hs; exact Hin].
    + split; [discriminate|]. intros (H & _). exfalso. apply (H r (or_introl eq_refl)). exact Rc.
Qed.

Lemma undefined_in_nil ids defined : undefined_in ids defined = [] <-> (forall i, In i ids -> In i defined).
Proof.
  unfold undefined_in. induction ids as [|i ids IH]; cbn [filter]; [split; [intros _ ? []|reflexivity]|].
  destruct (mem i defined) eqn:M; cbn [negb].
  - rewrite IH. split; [intros H j [<-|Hj]; [apply mem_In; exact M|apply H; exact Hj]|intros H j Hj; apply H; right; exact Hj].
  - split; [discriminate|]. intro H. specialize (H i (or_introl eq_refl)). apply mem_In in H. congruence.
Qed.

Lemma deps_errs_nil (deps : list (N * function)) dvids :
  flat_map (fun df => (if mem (fst df) dvids then [] else [(EUndefVar (fst df), [(M_INSTANCE, "decision_variable_dependency"%string)])])
                      ++ match parse_fn (snd df) with
                         | Some e => [(e, [(M_INSTANCE, "decision_variable_dependency"%string)])]
                         | None => [] end) deps = []
  <-> forall d f, In (d, f) deps -> In d dvids /\ f <> FUnset.
Proof.
  induction deps as [|[d f] deps IH]; cbn [flat_map fst snd]; [split; [intros _ ? ? []|reflexivity]|].
  split.
  - intro H. apply app_eq_nil in H. destruct H as [H1 H2]. apply app_eq_nil in H1. destruct H1 as [Ha Hb].
    intros d' f' [E|Hin].
    + inversion E; subst. split.
      * destruct (mem d' dvids) eqn:M; [apply mem_In; exact M|discriminate].
      * destruct f'; cbn [parse_fn] in Hb; try discriminate; discriminate.
    + apply IH; assumption.
  - intro H. destruct (H d f (or_introl eq_refl)) as [Hd Hf].
    apply mem_In in Hd. rewrite Hd. cbn [app].
    destruct f; try contradiction; cbn [parse_fn app]; apply IH; intros d' f' Hin; apply H; right; exact Hin.
Qed.

Lemma all_constrs_forall (P : constr -> Prop) I :
  (forall c, In c (all_constrs I) -> P c) <->
  (forall c, In c (i_cs I) -> P c) /\ (forall c, In c (removed_constrs (i_rs I)) -> P c).
Proof.
  unfold all_constrs. split.
  - intro H. split; intros c Hc; apply H; apply in_or_app; auto.
  - intros [H1 H2] c Hc. apply in_app_or in Hc. destruct Hc; auto.
Qed.

Lemma flat_map_used_forall (cs : list constr) (dvids : list N) :
  (forall i, In i (flat_map constr_used cs) -> In i dvids) <->
  (forall c, In c cs -> forall i, In i (constr_used c) -> In i dvids).
Proof.
  split.
  - intros H c Hc i Hi. apply H. apply in_flat_map. exists c. auto.
  - intros H i Hi. apply in_flat_map in Hi. destruct Hi as (c & Hc & Hi). eapply H; eauto.
Qed.

Lemma NoDup_app_iff {X} (a b : list X) :
  NoDup (a ++ b) <-> NoDup a /\ NoDup b /\ (forall x, In x b -> ~ In x a).
Proof.
  induction a as [|x a IH]; cbn [app].
  - split; [intro H; repeat split; [constructor|exact H|intros ? _ []]|intros (_ & H & _); exact H].
  - split.
    + intro H. inversion H as [|? ? Hn Hd]; subst. apply IH in Hd. destruct Hd as (Ha & Hb & Hab).
      split; [constructor; [intro Hin; apply Hn; apply in_or_app; left; exact Hin|exact Ha]|].
      split; [exact Hb|]. intros y Hy [E|Hin]; [subst; apply Hn; apply in_or_app; right; exact Hy|apply (Hab y Hy Hin)].
    + intros (Ha & Hb & Hab). inversion Ha as [|? ? Hn Hd]; subst. constructor.
      * intro Hin. apply in_app_or in Hin. destruct Hin as [Hin|Hin]; [contradiction|apply (Hab x Hin); left; reflexivity].
      * apply IH. split; [exact Hd|]. split; [exact Hb|]. intros y Hy Hin. apply (Hab y Hy). right. exact Hin.
Qed.

(* the typed view accepts exactly the messages that satisfy wf_typed *)
Theorem parse_instance_iff I h : parse_instance I h = None <-> wf_typed I h.
Proof.
  unfold parse_instance, wf_typed.
  set (dvids := map dv_id (i_dvs I)).
  destruct ((i_sense I =? SENSE_MIN)%Z || (i_sense I =? SENSE_MAX)%Z) eqn:S; cbn [negb].
  2:{ split; [discriminate|]. intros [[H|H] _]; apply orb_false_iff in S; destruct S as [S1 S2];
        apply Z.eqb_neq in S1; apply Z.eqb_neq in S2; contradiction. }
  apply orb_true_iff in S. rewrite !Z.eqb_eq in S.
  destruct (parse_dvs (i_dvs I) []) as [e|] eqn:Pd.
  { split; [discriminate|]. intros (_ & Hv & Hn & _).
    assert (N : parse_dvs (i_dvs I) [] = None).
    { apply parse_dvs_none. split; [intros v Hv'; apply parse_dv_none; apply Hv; exact Hv'|]. split; [exact Hn|intros ? _ []]. }
    congruence. }
  apply parse_dvs_none in Pd. destruct Pd as (Pd1 & Pd2 & _).
  assert (Hdv : forall v, In v (i_dvs I) -> (1 <= dv_kind v <= 5)%Z /\ dv_bound_of v <> None).
  { intros v Hv. apply parse_dv_none. apply Pd1. exact Hv. }
  destruct (i_obj I) as [f|] eqn:Ob.
  2:{ split; [discriminate|]. intros (_ & _ & _ & (f & Ef & _) & _). discriminate. }
  destruct (parse_fn f) as [e|] eqn:Pf.
  { split; [discriminate|]. intros (_ & _ & _ & (f' & Ef & Nf & _) & _). inversion Ef; subst.
    destruct f'; cbn [parse_fn] in Pf; try discriminate. contradiction. }
  assert (Nf : f <> FUnset) by (intro E; subst; discriminate).
  destruct (undefined_in (fn_used f) dvids) as [|u0 us] eqn:Uo.
  2:{ split; [discriminate|]. intros (_ & _ & _ & (f' & Ef & _ & Hu) & _). inversion Ef; subst f'.
      apply undefined_in_nil in Hu. unfold dvids in *. congruence. }
  assert (Uo' := proj1 (undefined_in_nil _ _) Uo). clear Uo. rename Uo' into Uo.
  destruct (parse_constrs (i_cs I) []) as [e|] eqn:Pc.
  { split; [discriminate|]. intros (_ & _ & _ & _ & Hc & _ & Hn & _).
    assert (N : parse_constrs (i_cs I) [] = None).
    { apply parse_constrs_none. split; [|split; [|intros ? _ []]].
      - intros c Hc'. destruct (Hc c) as (H1 & H2 & _); [apply in_or_app; left; exact Hc'|]. split; assumption.
      - unfold all_constrs in Hn. rewrite map_app in Hn. apply NoDup_app_iff in Hn. apply Hn. }
    congruence. }
  apply parse_constrs_none in Pc. destruct Pc as (Pc1 & Pc2 & _).
  destruct (undefined_in (flat_map constr_used (i_cs I)) dvids) as [|u0 us] eqn:Uc.
  2:{ split; [discriminate|]. intros (_ & _ & _ & _ & Hc & _).
      assert (N : undefined_in (flat_map constr_used (i_cs I)) dvids = []).
      { apply undefined_in_nil. apply flat_map_used_forall. intros c Hc' i Hi.
        destruct (Hc c) as (_ & _ & H3); [apply in_or_app; left; exact Hc'|]. apply H3. exact Hi. }
      congruence. }
  assert (Uc' := proj1 (flat_map_used_forall _ _) (proj1 (undefined_in_nil _ _) Uc)). clear Uc. rename Uc' into Uc.
  destruct (parse_removed (i_rs I) (map c_id (i_cs I)) []) as [e|] eqn:Pr.
  { split; [discriminate|]. intros (_ & _ & _ & _ & Hc & Hr & Hn & _).
    assert (N : parse_removed (i_rs I) (map c_id (i_cs I)) [] = None).
    { apply parse_removed_none. split; [exact Hr|]. split; [|split].
      - intros c Hc'. destruct (Hc c) as (H1 & H2 & _); [apply in_or_app; right; exact Hc'|]. split; assumption.
      - unfold all_constrs in Hn. rewrite map_app in Hn. apply NoDup_app_iff in Hn. apply Hn.
      - intros c Hc'. split; [|intros []].
        unfold all_constrs in Hn. rewrite map_app in Hn. apply NoDup_app_iff in Hn.
        destruct Hn as (_ & _ & Hd). apply Hd. apply in_map. exact Hc'. }
    congruence. }
  apply parse_removed_none in Pr. destruct Pr as (Pr0 & Pr1 & Pr2 & Pr3).
  destruct (undefined_in (flat_map constr_used (removed_constrs (i_rs I))) dvids) as [|u0 us] eqn:Ur.
  2:{ split; [discriminate|]. intros (_ & _ & _ & _ & Hc & _).
      assert (N : undefined_in (flat_map constr_used (removed_constrs (i_rs I))) dvids = []).
      { apply undefined_in_nil. apply flat_map_used_forall. intros c Hc' i Hi.
        destruct (Hc c) as (_ & _ & H3); [apply in_or_app; right; exact Hc'|]. apply H3. exact Hi. }
      congruence. }
  assert (Ur' := proj1 (flat_map_used_forall _ _) (proj1 (undefined_in_nil _ _) Ur)). clear Ur. rename Ur' into Ur.
  match goal with |- context [flat_map ?g (i_deps I)] => destruct (flat_map g (i_deps I)) as [|e0 es] eqn:Dp end.
  2:{ split; [discriminate|]. intros (_ & _ & _ & _ & _ & _ & _ & Hd & _).
      assert (Hd' := proj2 (deps_errs_nil (i_deps I) dvids) Hd). congruence. }
  assert (Dp' := proj1 (deps_errs_nil (i_deps I) dvids) Dp). clear Dp. rename Dp' into Dp.
  destruct (parse_hints h dvids (map c_id (i_cs I))) as [e|] eqn:Ph.
  { split; [discriminate|]. intros (_ & _ & _ & _ & _ & _ & _ & _ & Hh). unfold dvids in *. congruence. }
  split; [|reflexivity]. intros _.
  split; [exact S|]. split; [exact Hdv|]. split; [exact Pd2|].
  split; [exists f; repeat split; auto|].
  split.
  { apply all_constrs_forall. split.
    - intros c Hc. destruct (Pc1 c Hc) as [H1 H2]. repeat split; auto. intros i Hi. eapply Uc; eauto.
    - intros c Hc. destruct (Pr1 c Hc) as [H1 H2]. repeat split; auto. intros i Hi. eapply Ur; eauto. }
  split; [exact Pr0|].
  split.
  { unfold all_constrs. rewrite map_app. apply NoDup_app_iff. split; [exact Pc2|]. split; [exact Pr2|].
    intros x Hx Hin. apply in_map_iff in Hx. destruct Hx as (c & <- & Hc). destruct (Pr3 c Hc) as [Ha _]. contradiction. }
  split; [exact Dp|reflexivity].
Qed.
