(* Poly.v — keyed term lists, the BTreeMap-merge-with-dropping of the SDK and its
   residual theorem, monomials, polynomial values, a sound equality test. *)
Require Import Ommx.Num.
From Coq Require Import Permutation.

(* ------------------------------------------------------------------ *)
(* Generic keyed coefficient maps: BTreeMap<K, f64> used as accumulator *)
Section Keyed.
  Context {K : Type}.
  Variable keqb : K -> K -> bool.
  Hypothesis keqb_spec : forall a b, keqb a b = true <-> a = b.
  Variable kv : K -> num.             (* value of a key under a valuation *)

  Definition tlist := list (K * num).

  Fixpoint valg (l : tlist) : num :=
    match l with [] => 0 | (k, c) :: l' => c * kv k + valg l' end.

  Fixpoint find (k : K) (m : tlist) : option num :=
    match m with
    | [] => None
    | (k', c) :: m' => if keqb k k' then Some c else find k m'
    end.
  Fixpoint remove (k : K) (m : tlist) : tlist :=
    match m with
    | [] => []
    | (k', c) :: m' => if keqb k k' then remove k m' else (k', c) :: remove k m'
    end.
  (* insert-or-overwrite *)
  Fixpoint upd (k : K) (v : num) (m : tlist) : tlist :=
    match m with
    | [] => [(k, v)]
    | (k', c) :: m' => if keqb k k' then (k, v) :: m' else (k', c) :: upd k v m'
    end.
  Definition getd (k : K) (m : tlist) : num :=
    match find k m with Some x => x | None => 0 end.

  Definition keys (m : tlist) : list K := map fst m.
  Definition coeffs (m : tlist) : list num := map snd m.

  Variable tiny : num -> bool.

  (* the accumulate-then-drop step on a BTreeMap entry: v := entry k or default; v += c; if tiny v then remove k *)
  Definition mstep (m : tlist) (kc : K * num) : tlist :=
    let v := getd (fst kc) m + snd kc in
    if tiny v then remove (fst kc) m else upd (fst kc) v m.
  Definition merge_from (m : tlist) (l : tlist) : tlist := fold_left mstep l m.
  Definition merge (l : tlist) : tlist := merge_from [] l.

  (* what the dropping removed, as a term list *)
  Fixpoint resid_from (m : tlist) (l : tlist) : tlist :=
    match l with
    | [] => []
    | kc :: l' =>
        let v := getd (fst kc) m + snd kc in
        if tiny v then (fst kc, v) :: resid_from (remove (fst kc) m) l'
        else resid_from (upd (fst kc) v m) l'
    end.

  Lemma merge_from_cons m kc l : merge_from m (kc :: l) = merge_from (mstep m kc) l.
  Proof. reflexivity. Qed.
  Lemma merge_from_nil m : merge_from m [] = m.
  Proof. reflexivity. Qed.

  Lemma keqb_refl k : keqb k k = true.
  Proof. apply keqb_spec; reflexivity. Qed.
  Lemma keqb_false a b : keqb a b = false <-> a <> b.
  Proof.
    split; intro H.
    - intro E. apply keqb_spec in E. congruence.
    - destruct (keqb a b) eqn:E; [apply keqb_spec in E; contradiction|reflexivity].
  Qed.

  Lemma valg_app a b : valg (a ++ b) = valg a + valg b.
  Proof.
    induction a as [|[k c] a IH]; cbn [valg app]; [ring|]. rewrite IH. ring.
  Qed.

  Lemma find_not_in k m : ~ In k (keys m) -> find k m = None.
  Proof.
    induction m as [|[k' c] m IH]; cbn [find keys map fst In]; intro H; [reflexivity|].
    destruct (keqb k k') eqn:E.
    - apply keqb_spec in E. subst. exfalso. apply H. left. reflexivity.
    - apply IH. intro. apply H. right. assumption.
  Qed.

  Lemma remove_not_in k m : ~ In k (keys m) -> remove k m = m.
  Proof.
    induction m as [|[k' c] m IH]; cbn [remove keys map fst In]; intro H; [reflexivity|].
    destruct (keqb k k') eqn:E.
    - apply keqb_spec in E. subst. exfalso. apply H. left. reflexivity.
    - f_equal. apply IH. intro. apply H. right. assumption.
  Qed.

  Lemma keys_remove k k0 m : In k0 (keys (remove k m)) -> In k0 (keys m) /\ k0 <> k.
  Proof.
    induction m as [|[k' c] m IH]; cbn [remove keys map fst In]; [tauto|].
    destruct (keqb k k') eqn:E.
    - intro H. apply IH in H. tauto.
    - cbn [keys map fst In]. intros [H|H].
      + subst k0. split; [left; reflexivity|]. apply keqb_false in E. congruence.
      + apply IH in H. tauto.
  Qed.
  Lemma keys_remove_rev k k0 m : In k0 (keys m) -> k0 <> k -> In k0 (keys (remove k m)).
  Proof.
    induction m as [|[k' c] m IH]; cbn [remove keys map fst In]; [tauto|].
    intros H N. destruct (keqb k k') eqn:E.
    - apply keqb_spec in E. subst k'. destruct H as [H|H]; [congruence|]. apply IH; assumption.
    - cbn [keys map fst In]. destruct H as [H|H]; [left; assumption|right; apply IH; assumption].
  Qed.

  Lemma keys_upd k v k0 m : In k0 (keys (upd k v m)) <-> k0 = k \/ In k0 (keys m).
  Proof.
    induction m as [|[k' c] m IH]; cbn [upd keys map fst In].
    - intuition.
    - destruct (keqb k k') eqn:E; cbn [keys map fst In].
      + apply keqb_spec in E. subst k'. intuition.
      + rewrite IH. intuition.
  Qed.

  Lemma NoDup_remove k m : NoDup (keys m) -> NoDup (keys (remove k m)).
  Proof.
    induction m as [|[k' c] m IH]; cbn [remove keys map fst]; intro H; [constructor|].
    inversion H as [|? ? Hn Hd]; subst.
    destruct (keqb k k') eqn:E; [apply IH; assumption|].
    cbn [keys map fst]. constructor; [|apply IH; assumption].
    intro Hin. apply keys_remove in Hin. tauto.
  Qed.

  Lemma NoDup_upd k v m : NoDup (keys m) -> NoDup (keys (upd k v m)).
  Proof.
    induction m as [|[k' c] m IH]; cbn [upd keys map fst]; intro H.
    - constructor; [intros []|constructor].
    - inversion H as [|? ? Hn Hd]; subst.
      destruct (keqb k k') eqn:E; cbn [keys map fst].
      + apply keqb_spec in E. subst k'. constructor; assumption.
      + constructor; [|apply IH; assumption].
        intro Hin. apply keys_upd in Hin. destruct Hin as [->|Hin]; [|contradiction].
        rewrite keqb_refl in E. discriminate.
  Qed.

  (* value bookkeeping for maps with unique keys *)
  Lemma valg_remove k m :
    NoDup (keys m) -> valg (remove k m) + getd k m * kv k = valg m.
  Proof.
    unfold getd.
    induction m as [|[k' c] m IH]; cbn [remove find valg keys map fst]; intro H.
    - ring.
    - inversion H as [|? ? Hn Hd]; subst.
      destruct (keqb k k') eqn:E.
      + apply keqb_spec in E. subst k'.
        rewrite remove_not_in by assumption. ring.
      + cbn [valg]. rewrite <- (IH Hd). ring.
  Qed.

  Lemma valg_upd k v m :
    NoDup (keys m) -> valg (upd k v m) + getd k m * kv k = valg m + v * kv k.
  Proof.
    unfold getd.
    induction m as [|[k' c] m IH]; cbn [upd find valg keys map fst]; intro H.
    - ring.
    - inversion H as [|? ? Hn Hd]; subst.
      destruct (keqb k k') eqn:E.
      + apply keqb_spec in E. subst k'. cbn [valg]. ring.
      + cbn [valg]. specialize (IH Hd).
        transitivity (c * kv k' + (valg (upd k v m) +
           match find k m with Some x => x | None => 0 end * kv k)); [ring|].
        rewrite IH. ring.
  Qed.

  Lemma merge_from_nodup l : forall m, NoDup (keys m) -> NoDup (keys (merge_from m l)).
  Proof.
    induction l as [|[k c] l IH]; intros m H; [exact H|]. rewrite merge_from_cons.
    apply IH. unfold mstep; cbn [fst snd].
    destruct (tiny _); [apply NoDup_remove|apply NoDup_upd]; assumption.
  Qed.

  (* THE residual theorem: nothing but tiny accumulated coefficients is lost *)
  Theorem merge_from_val l : forall m, NoDup (keys m) ->
    valg (merge_from m l) + valg (resid_from m l) = valg m + valg l.
  Proof.
    induction l as [|[k c] l IH]; intros m H.
    - rewrite merge_from_nil. cbn [resid_from valg]. ring.
    - rewrite merge_from_cons. cbn [resid_from valg fst snd].
      unfold mstep; cbn [fst snd].
      destruct (tiny (getd k m + c)) eqn:T.
      + cbn [valg].
        pose proof (IH (remove k m) (NoDup_remove k m H)) as E.
        pose proof (valg_remove k m H) as R.
        transitivity ((valg (merge_from (remove k m) l) + valg (resid_from (remove k m) l))
                      + (getd k m + c) * kv k); [ring|].
        rewrite E. rewrite <- R. ring.
      + pose proof (IH (upd k (getd k m + c) m) (NoDup_upd k _ m H)) as E.
        pose proof (valg_upd k (getd k m + c) m H) as R.
        rewrite E.
        transitivity ((valg (upd k (getd k m + c) m) + getd k m * kv k)
                      - getd k m * kv k + valg l); [ring|].
        rewrite R. ring.
  Qed.

  Lemma resid_from_tiny l : forall m,
    Forall (fun kc => tiny (snd kc) = true) (resid_from m l).
  Proof.
    induction l as [|[k c] l IH]; intros m; cbn [resid_from fst snd]; [constructor|].
    destruct (tiny (getd k m + c)) eqn:T; [constructor; [exact T|apply IH]|apply IH].
  Qed.

  Lemma resid_from_length l : forall m, (length (resid_from m l) <= length l)%nat.
  Proof.
    induction l as [|[k c] l IH]; intros m; cbn [resid_from length fst snd]; [lia|].
    destruct (tiny _); cbn [length].
    - specialize (IH (remove k m)). lia.
    - specialize (IH (upd k (getd k m + c) m)). lia.
  Qed.

  Theorem merge_val l : valg (merge l) + valg (resid_from [] l) = valg l.
  Proof.
    unfold merge. rewrite merge_from_val by constructor. cbn [valg]. ring.
  Qed.

  Lemma merge_nodup l : NoDup (keys (merge l)).
  Proof. apply merge_from_nodup. constructor. Qed.

  (* exact version: when tiny means zero the merge keeps the value *)
  Lemma valg_all_zero l : Forall (fun kc : K * num => snd kc = 0) l -> valg l = 0.
  Proof.
    induction 1 as [|[k c] l H _ IH]; cbn [valg]; [reflexivity|].
    cbn [snd] in H. subst c. rewrite IH. ring.
  Qed.

  Theorem merge_val_exact l : tiny_exact tiny -> valg (merge l) = valg l.
  Proof.
    intro TE. pose proof (merge_val l) as E.
    rewrite (valg_all_zero (resid_from [] l)) in E.
    - rewrite <- E. ring.
    - eapply Forall_impl; [|apply resid_from_tiny]. intros kc H. apply TE. exact H.
  Qed.

  Theorem merge_from_val_exact m l : tiny_exact tiny -> NoDup (keys m) ->
    valg (merge_from m l) = valg m + valg l.
  Proof.
    intros TE H. pose proof (merge_from_val l m H) as E.
    rewrite (valg_all_zero (resid_from m l)) in E.
    - rewrite <- E. ring.
    - eapply Forall_impl; [|apply resid_from_tiny]. intros kc Hk. apply TE. exact Hk.
  Qed.

  (* keys of the result come from the inputs *)
  Lemma merge_from_keys l : forall m k,
    In k (keys (merge_from m l)) -> In k (keys m) \/ In k (keys l).
  Proof.
    induction l as [|[k0 c] l IH]; intros m k; [rewrite merge_from_nil; tauto|].
    rewrite merge_from_cons.
    intro H. apply IH in H. cbn [keys map fst In]. destruct H as [H|H]; [|tauto].
    unfold mstep in H; cbn [fst snd] in H. destruct (tiny _).
    - apply keys_remove in H. tauto.
    - apply keys_upd in H. destruct H as [->|H]; tauto.
  Qed.

  (* every stored coefficient survived the dropping test *)
  Definition all_nontiny (m : tlist) : Prop := Forall (fun kc => tiny (snd kc) = false) m.

  Lemma remove_forall P k m : Forall P m -> Forall P (remove k m).
  Proof.
    induction 1 as [|[k' c] m H Hm IH]; cbn [remove]; [constructor|].
    destruct (keqb k k'); [exact IH|constructor; [exact H|exact IH]].
  Qed.
  Lemma upd_forall (P : K * num -> Prop) k v m : P (k, v) -> Forall P m -> Forall P (upd k v m).
  Proof.
    intros Hp. induction 1 as [|[k' c] m H Hm IH]; cbn [upd].
    - constructor; [assumption|constructor].
    - destruct (keqb k k'); constructor; assumption.
  Qed.
  Lemma merge_from_nontiny l : forall m, all_nontiny m -> all_nontiny (merge_from m l).
  Proof.
    induction l as [|[k c] l IH]; intros m H; [exact H|]. rewrite merge_from_cons.
    apply IH. unfold mstep; cbn [fst snd]. destruct (tiny _) eqn:T.
    - apply remove_forall. exact H.
    - apply upd_forall; [exact T|exact H].
  Qed.
  Lemma merge_nontiny l : all_nontiny (merge l).
  Proof. apply merge_from_nontiny. constructor. Qed.

End Keyed.

Arguments tlist : clear implicits.

(* accumulation without any dropping: `*map.entry(k).or_default() += c` *)
Definition never (c : num) : bool := false.
Lemma never_exact : tiny_exact never. Proof. intros c H; discriminate. Qed.

(* ------------------------------------------------------------------ *)
(* Monomials *)
Definition valuation := N -> num.

Fixpoint mono_val (rho : valuation) (m : list N) : num :=
  match m with [] => 1 | i :: m' => rho i * mono_val rho m' end.

Lemma mono_val_app rho a b : mono_val rho (a ++ b) = mono_val rho a * mono_val rho b.
Proof. induction a as [|i a IH]; cbn [mono_val app]; [ring|]. rewrite IH. ring. Qed.

Lemma mono_val_perm rho a b : Permutation a b -> mono_val rho a = mono_val rho b.
Proof.
  induction 1 as [|x l l' _ IH|x y l|l l' l'' _ IH1 _ IH2]; cbn [mono_val].
  - reflexivity.
  - rewrite IH. reflexivity.
  - ring.
  - congruence.
Qed.

(* insertion sort on ids = Vec::sort_unstable up to what can be observed *)
Fixpoint ins_id (i : N) (l : list N) : list N :=
  match l with
  | [] => [i]
  | j :: l' => if (i <=? j)%N then i :: l else j :: ins_id i l'
  end.
Fixpoint sort_ids (l : list N) : list N :=
  match l with [] => [] | i :: l' => ins_id i (sort_ids l') end.

Lemma ins_id_perm i l : Permutation (i :: l) (ins_id i l).
Proof.
  induction l as [|j l IH]; cbn [ins_id]; [reflexivity|].
  destruct (i <=? j)%N; [reflexivity|].
  eapply perm_trans; [apply perm_swap|]. apply perm_skip. exact IH.
Qed.
Lemma sort_ids_perm l : Permutation l (sort_ids l).
Proof.
  induction l as [|i l IH]; cbn [sort_ids]; [constructor|].
  eapply perm_trans; [apply perm_skip; exact IH|apply ins_id_perm].
Qed.
Lemma mono_val_sort rho l : mono_val rho (sort_ids l) = mono_val rho l.
Proof. symmetry. apply mono_val_perm. apply sort_ids_perm. Qed.
Lemma sort_ids_in i l : In i (sort_ids l) <-> In i l.
Proof.
  split; apply Permutation_in; [apply Permutation_sym|]; apply sort_ids_perm.
Qed.

Fixpoint ids_eqb (a b : list N) : bool :=
  match a, b with
  | [], [] => true
  | i :: a', j :: b' => (i =? j)%N && ids_eqb a' b'
  | _, _ => false
  end.
Lemma ids_eqb_spec a b : ids_eqb a b = true <-> a = b.
Proof.
  revert b; induction a as [|i a IH]; intros [|j b]; cbn [ids_eqb];
    try (split; [discriminate|discriminate]); [tauto|].
  rewrite andb_true_iff, N.eqb_eq, IH. split; [intros [-> ->]; reflexivity|].
  intro E; inversion E; tauto.
Qed.

(* ------------------------------------------------------------------ *)
(* Polynomials as lists of (ids, coefficient) *)
Definition terms := tlist (list N).
Definition val (rho : valuation) (t : terms) : num := valg (mono_val rho) t.

Lemma val_nil rho : val rho [] = 0. Proof. reflexivity. Qed.
Lemma val_cons rho m c t : val rho ((m, c) :: t) = c * mono_val rho m + val rho t.
Proof. reflexivity. Qed.
Lemma val_app rho a b : val rho (a ++ b) = val rho a + val rho b.
Proof. apply valg_app. Qed.

Definition pmerge (tiny : num -> bool) (t : terms) : terms := merge ids_eqb tiny t.

Definition sort_keys (t : terms) : terms := map (fun mc => (sort_ids (fst mc), snd mc)) t.
Lemma val_sort_keys rho t : val rho (sort_keys t) = val rho t.
Proof.
  induction t as [|[m c] t IH]; cbn [sort_keys map fst snd]; [reflexivity|].
  rewrite !val_cons. fold (sort_keys t). rewrite IH, mono_val_sort. reflexivity.
Qed.

Definition scale_terms (a : num) (t : terms) : terms := map (fun mc => (fst mc, a * snd mc)) t.
Lemma val_scale rho a t : val rho (scale_terms a t) = a * val rho t.
Proof.
  induction t as [|[m c] t IH]; cbn [scale_terms map fst snd].
  - rewrite val_nil. ring.
  - rewrite !val_cons. fold (scale_terms a t). rewrite IH. ring.
Qed.

(* product of term lists, every pair *)
Definition mul_terms (a b : terms) : terms :=
  flat_map (fun x => map (fun y => (fst x ++ fst y, snd x * snd y)) b) a.
Lemma val_mul_terms rho a b : val rho (mul_terms a b) = val rho a * val rho b.
Proof.
  unfold mul_terms.
  induction a as [|[m c] a IH]; cbn [flat_map fst snd].
  - rewrite val_nil. ring.
  - rewrite val_app, IH, val_cons.
    assert (E : val rho (map (fun y => (m ++ fst y, c * snd y)) b) = c * mono_val rho m * val rho b).
    { clear. induction b as [|[m' c'] b IH]; cbn [map fst snd].
      - rewrite val_nil. ring.
      - rewrite !val_cons, IH, mono_val_app. ring. }
    rewrite E. ring.
Qed.

(* formal equality test used by the comparator: a - b merges to all-zero coefficients *)
Definition all_zero (t : terms) : bool := forallb (fun mc => qeqb (snd mc) 0) t.
Definition poly_eqb (a b : terms) : bool :=
  all_zero (merge ids_eqb never (sort_keys (a ++ scale_terms (-(1)) b))).

Lemma all_zero_val rho t : all_zero t = true -> val rho t = 0.
Proof.
  unfold all_zero. rewrite forallb_forall. intro H.
  apply valg_all_zero. apply Forall_forall. intros kc Hin.
  apply qeqb_eq. apply H. exact Hin.
Qed.

Theorem poly_eqb_sound a b : poly_eqb a b = true -> forall rho, val rho a = val rho b.
Proof.
  unfold poly_eqb. intros H rho.
  apply (all_zero_val rho) in H. unfold val in H.
  rewrite (merge_val_exact ids_eqb ids_eqb_spec (mono_val rho) never _ never_exact) in H.
  fold (val rho (sort_keys (a ++ scale_terms (- (1)) b))) in H.
  rewrite val_sort_keys, val_app, val_scale in H.
  transitivity (val rho a + - (1) * val rho b + val rho b); [ring|].
  rewrite H. ring.
Qed.

(* occurrence of an id in a term list (zero coefficients included) *)
Definition occurs_terms (t : terms) (i : N) : Prop := exists m c, In (m, c) t /\ In i m.

(* agreement of a valuation with a partial state *)
Definition state := list (N * num).
Fixpoint sget (s : state) (i : N) : option num :=
  match s with
  | [] => None
  | (j, v) :: s' => if (i =? j)%N then Some v else sget s' i
  end.
Definition agrees (rho : valuation) (s : state) : Prop :=
  forall i v, sget s i = Some v -> rho i = v.
Definition total (s : state) : valuation :=
  fun i => match sget s i with Some v => v | None => 0 end.
Lemma total_agrees s : agrees (total s) s.
Proof. intros i v H. unfold total. rewrite H. reflexivity. Qed.
