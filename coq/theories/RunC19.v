(* RunC19.v — correspondence runner for C19.
   Phase 1 ([render_C19]): decode (model, layout, fault), return the text lines written by the
   independent writer of QplibSpec.v.
   Phase 2 ([run_C19]): given the same (model, layout, fault), the lines the SDK was fed and the
   SDK's answer, recompute the text (it must be the very [render_fault] text), run the model
   reader on it, and judge the SDK's instance against [meaning M] and against the model reader,
   or, for a faulty text, the SDK's error against the expected line number and class. *)
Require Import Ommx.Num Ommx.Poly Ommx.Msg Ommx.Tree Ommx.Qplib Ommx.QplibSpec.
From Coq Require Import String Ascii.
Open Scope string_scope.
Open Scope list_scope.

(* ---------------- decoders of the generator's trees ---------------- *)
Definition d_nat (t : tree) : option nat := do n <- d_N t; Some (N.to_nat n).
Definition d_snum (t : tree) : option snum :=
  match t with
  | L [A "inf"; b] => do b' <- d_bool b; Some (SInf b')
  | L [A "dec"; b; m; e; st] =>
      do b' <- d_bool b; do m' <- d_N m; do e' <- d_Z e; do st' <- d_nat st;
      Some (SDec b' m' e' st')
  | _ => None
  end.
Definition d_okind (t : tree) : option okind :=
  match t with A "L" => Some OL | A "D" => Some OD | A "C" => Some OC | A "Q" => Some OQ
  | _ => None end.
Definition d_vkind (t : tree) : option vkind :=
  match t with A "C" => Some VC | A "B" => Some VB | A "M" => Some VM | A "I" => Some VI
  | A "G" => Some VG | _ => None end.
Definition d_ckind (t : tree) : option ckind :=
  match t with A "N" => Some CN | A "B" => Some CB | A "L" => Some CL | A "D" => Some CD
  | A "C" => Some CC | A "Q" => Some CQ | _ => None end.
Definition d_sense (t : tree) : option sense :=
  match t with A "min" => Some Minimize | A "max" => Some Maximize | _ => None end.
Definition d_vtype (t : tree) : option vtype :=
  match t with I 0 => Some TCont | I 1 => Some TInt | I 2 => Some TBin | _ => None end.
Definition d_isec (t : tree) : option (list (N * snum)) := d_list (d_pair d_N d_snum) t.
Definition d_triple {X Y Z} (dx : tree -> option X) (dy : tree -> option Y)
  (dz : tree -> option Z) (t : tree) : option (X * Y * Z) :=
  match t with
  | L [a; b; c] => do x <- dx a; do y <- dy b; do z <- dz c; Some (x, y, z)
  | _ => None
  end.
Definition d_quad {X Y Z W} (dx : tree -> option X) (dy : tree -> option Y)
  (dz : tree -> option Z) (dw : tree -> option W) (t : tree) : option (X * Y * Z * W) :=
  match t with
  | L [a; b; c; d] => do x <- dx a; do y <- dy b; do z <- dz c; do w <- dw d; Some (x, y, z, w)
  | _ => None
  end.

Definition d_model (t : tree) : option qp_model :=
  match t with
  | L [name; ok; vk; ck; se; n; m; q0; b0d; b0; q0c; qs; bs; inf; cld; cl; cud; cu;
       ld; l; ud; u; td; ts; x0d; x0; y0d; y0; z0d; z0; vn; cn] =>
      do name' <- d_str name; do ok' <- d_okind ok; do vk' <- d_vkind vk; do ck' <- d_ckind ck;
      do se' <- d_sense se; do n' <- d_nat n; do m' <- d_nat m;
      do q0' <- d_list (d_triple d_N d_N d_snum) q0;
      do b0d' <- d_snum b0d; do b0' <- d_isec b0; do q0c' <- d_snum q0c;
      do qs' <- d_list (d_quad d_N d_N d_N d_snum) qs;
      do bs' <- d_list (d_triple d_N d_N d_snum) bs;
      do inf' <- d_snum inf;
      do cld' <- d_snum cld; do cl' <- d_isec cl; do cud' <- d_snum cud; do cu' <- d_isec cu;
      do ld' <- d_snum ld; do l' <- d_isec l; do ud' <- d_snum ud; do u' <- d_isec u;
      do td' <- d_vtype td; do ts' <- d_list (d_pair d_N d_vtype) ts;
      do x0d' <- d_snum x0d; do x0' <- d_isec x0; do y0d' <- d_snum y0d; do y0' <- d_isec y0;
      do z0d' <- d_snum z0d; do z0' <- d_isec z0;
      do vn' <- d_list (d_pair d_N d_str) vn; do cn' <- d_list (d_pair d_N d_str) cn;
      Some {| m_name := name'; m_ok := ok'; m_vk := vk'; m_ck := ck'; m_sense := se';
              m_n := n'; m_m := m'; m_q0 := q0'; m_b0d := b0d'; m_b0 := b0'; m_q0c := q0c';
              m_qs := qs'; m_bs := bs'; m_inf := inf'; m_cld := cld'; m_cl := cl';
              m_cud := cud'; m_cu := cu'; m_ld := ld'; m_l := l'; m_ud := ud'; m_u := u';
              m_td := td'; m_t := ts'; m_x0d := x0d'; m_x0 := x0'; m_y0d := y0d'; m_y0 := y0';
              m_z0d := z0d'; m_z0 := z0'; m_vnames := vn'; m_cnames := cn' |}
  | _ => None
  end.

Definition d_deco (t : tree) : option deco :=
  match t with
  | L [b; ind; tb; tr] =>
      do b' <- d_list d_str b; do ind' <- d_str ind; do tb' <- d_bool tb; do tr' <- d_str tr;
      Some {| d_before := b'; d_indent := ind'; d_tab := tb'; d_trail := tr' |}
  | _ => None
  end.
Definition d_layout (t : tree) : option layout :=
  match t with
  | L [cl; ss; ds; af] =>
      do cl' <- d_bool cl; do ss' <- d_nat ss; do ds' <- d_list d_deco ds;
      do af' <- d_list d_str af;
      Some {| ly_code_lower := cl'; ly_sense_style := ss'; ly_decos := ds'; ly_after := af' |}
  | _ => None
  end.
Definition d_role (t : tree) : option role :=
  match t with
  | A "type" => Some RType | A "sense" => Some RSense | A "count" => Some RCount
  | A "idx" => Some RIdx | A "num" => Some RNum | A "vtype" => Some RVType
  | _ => None
  end.
Definition d_fault (t : tree) : option fault :=
  match t with
  | L [A "none"] => Some FNone
  | L [A "bad"; r; k; w] => do r' <- d_role r; do k' <- d_nat k; do w' <- d_str w;
                            Some (FBad r' k' w')
  | L [A "eof"; k] => do k' <- d_nat k; Some (FEof k')
  | _ => None
  end.
Definition d_case (t : tree) : option (qp_model * layout * fault) :=
  match t with
  | L [m; ly; f] => do m' <- d_model m; do ly' <- d_layout ly; do f' <- d_fault f;
                    Some (m', ly', f')
  | _ => None
  end.

(* ---------------- phase 1 ---------------- *)
Definition render_C19 (t : tree) : tree :=
  match d_case t with
  | Some (M, ly, f) => L (map A (fst (render_fault ly M f)))
  | None => badcase "C19: cannot decode (model, layout, fault)"
  end.

(* ---------------- comparison of abstract instances ---------------- *)
Definition ext_eqb (a b : ext) : bool :=
  match a, b with
  | NInf, NInf | PInf, PInf | NaN, NaN => true
  | Fin x, Fin y => qeqb x y
  | _, _ => false
  end.
Definition sense_eqb (a b : sense) : bool :=
  match a, b with Minimize, Minimize | Maximize, Maximize => true | _, _ => false end.
Definition vtype_eqb (a b : vtype) : bool :=
  match a, b with TCont, TCont | TInt, TInt | TBin, TBin => true | _, _ => false end.
Definition optstr_eqb (a b : option string) : bool :=
  match a, b with
  | None, None => true
  | Some x, Some y => x =? y
  | _, _ => false
  end.
Fixpoint nodupb (l : list N) : bool :=
  match l with [] => true | x :: l' => negb (mem x l') && nodupb l' end.
Definition find_var (i : N) (l : list avar) : option avar :=
  List.find (fun v => (av_id v =? i)%N) l.
Definition find_con (i : N) (l : list acon) : option acon :=
  List.find (fun c => (ac_id c =? i)%N) l.

Fixpoint first_some {X} (l : list (option X)) : option X :=
  match l with [] => None | Some x :: _ => Some x | None :: l' => first_some l' end.

Definition cmp_var (got : list avar) (e : avar) : option string :=
  match find_var (av_id e) got with
  | None => Some "a declared variable is missing"
  | Some g =>
      if negb (vtype_eqb (av_kind e) (av_kind g)) then Some "variable type"
      else if negb (ext_eqb (av_lo e) (av_lo g)) then Some "variable lower bound"
      else if negb (ext_eqb (av_hi e) (av_hi g)) then Some "variable upper bound"
      else if negb (optstr_eqb (av_name e) (av_name g)) then Some "variable name"
      else None
  end.
Definition cmp_con (got : list acon) (e : acon) : option string :=
  match find_con (ac_id e) got with
  | None => Some "a constraint side is missing (id scheme k / m+k)"
  | Some g => if poly_eqb (ac_terms e) (ac_terms g) then None
              else Some "constraint function (signs / constants / coefficients)"
  end.
(* [None] = the two abstract instances agree; otherwise the first differing clause *)
Definition ainst_cmp (e g : ainst) : option string :=
  if negb (sense_eqb (a_sense e) (a_sense g)) then Some "sense"
  else if negb (poly_eqb (a_obj e) (a_obj g)) then Some "objective"
  else if negb (Nat.eqb (List.length (a_vars e)) (List.length (a_vars g)))
  then Some "number of variables"
  else if negb (nodupb (map av_id g.(a_vars))) then Some "duplicate variable id"
  else match first_some (map (cmp_var (a_vars g)) (a_vars e)) with
  | Some c => Some c
  | None =>
      if negb (Nat.eqb (List.length (a_cons e)) (List.length (a_cons g)))
      then Some "number of constraints (one per finite side)"
      else if negb (nodupb (map ac_id g.(a_cons))) then Some "duplicate constraint id"
      else first_some (map (cmp_con (a_cons g)) (a_cons e))
  end.

(* the abstract content of a model instance *)
Definition abstract (ins : inst) : ainst :=
  {| a_sense := i_sense ins;
     a_obj := fn_terms (i_obj ins);
     a_vars := map (fun v => {| av_id := dv_id v; av_kind := dv_kind v; av_lo := dv_lower v;
                                av_hi := dv_upper v; av_name := dv_name v |}) (i_vars ins);
     a_cons := map (fun c => {| ac_id := c_id c; ac_terms := fn_terms (c_fn c) |}) (i_cons ins) |}.

(* ---------------- decoding the SDK's instance tree (harness/src/conv.rs) ---------------- *)
Definition is_empty_list (t : tree) : bool := match t with L [] => true | _ => false end.
Definition d_sdk_var (t : tree) : option avar :=
  match t with
  | L [id; kind; bound; subst; name; subs; params; descr] =>
      do id' <- d_N id;
      do kind' <- (match kind with I 1 => Some TBin | I 2 => Some TInt | I 3 => Some TCont
                   | _ => None end);
      do b <- (match bound with L [L [lo; hi]] => do l <- d_ext lo; do h <- d_ext hi; Some (l, h)
               | _ => None end);
      do name' <- d_opt d_str name;
      if is_empty_list subst && is_empty_list subs && is_empty_list params && is_empty_list descr
      then Some {| av_id := id'; av_kind := kind'; av_lo := fst b; av_hi := snd b;
                   av_name := name' |}
      else None
  | _ => None
  end.
(* constraint: every one must be "<= 0" (equality code 2) with a function and a name *)
Definition d_sdk_con (t : tree) : option (acon * string) :=
  match t with
  | L [id; I 2; L [f]; L [A name]; subs; params; descr] =>
      do id' <- d_N id; do f' <- d_function f;
      if is_empty_list subs && is_empty_list params && is_empty_list descr
      then Some ({| ac_id := id'; ac_terms := fn_terms f' |}, name)
      else None
  | _ => None
  end.
Record sdk_inst := { s_abs : ainst; s_cnames : list (N * string);
                     s_name : option string; s_descr : option string }.
Definition d_sdk_inst (t : tree) : option sdk_inst :=
  match t with
  | L [se; L [obj]; dvs; cs; L []; L []; L []; L []; L [L [nm; ds; L []; L []]]] =>
      do se' <- (match se with I 1 => Some Minimize | I 2 => Some Maximize | _ => None end);
      do obj' <- d_function obj;
      do vs <- d_list d_sdk_var dvs;
      do cs' <- d_list d_sdk_con cs;
      do nm' <- d_opt d_str nm; do ds' <- d_opt d_str ds;
      Some {| s_abs := {| a_sense := se'; a_obj := fn_terms obj'; a_vars := vs;
                          a_cons := map fst cs' |};
              s_cnames := map (fun c => (ac_id (fst c), snd c)) cs';
              s_name := nm'; s_descr := ds' |}
  | _ => None
  end.

(* ---------------- encoders for the expected value shown in a disagreement ---------------- *)
Definition e_vtype (t : vtype) : tree :=
  A (match t with TCont => "continuous" | TInt => "integer" | TBin => "binary" end).
Definition e_ainst (a : ainst) : tree :=
  L [A (match a_sense a with Minimize => "minimize" | Maximize => "maximize" end);
     L [A "objective"; e_terms (a_obj a)];
     L (map (fun v => L [e_N (av_id v); e_vtype (av_kind v); e_ext (av_lo v); e_ext (av_hi v);
                         e_opt A (av_name v)]) (a_vars a));
     L (map (fun c => L [e_N (ac_id c); e_terms (ac_terms c); A "<= 0"]) (a_cons a))].
Definition ekind_name (k : ekind) : string :=
  match k with
  | EEof => "eof" | EInvalidLine => "line" | EProblemType => "ptype" | ESense => "sense"
  | EVarType => "vtype" | EInt => "int" | EFloat => "float" | EIndex => "index"
  | EFields => "fields" | ENonFinite => "nonfinite"
  end.
Definition ekind_eqb (a b : ekind) : bool := ekind_name a =? ekind_name b.

Fixpoint lines_eqb (a b : list string) : bool :=
  match a, b with
  | [], [] => true
  | x :: a', y :: b' => (x =? y) && lines_eqb a' b'
  | _, _ => false
  end.

Definition cnames_cmp (ins : inst) (sd : sdk_inst) : bool :=
  forallb (fun c => match List.find (fun p => (fst p =? c_id c)%N) (s_cnames sd) with
                    | Some p => snd p =? c_name c
                    | None => false
                    end) (i_cons ins).

Definition has_diag (M : qp_model) : bool :=
  (match m_ok M with OL => false | _ => existsb (fun e => (fst (fst e) =? snd (fst e))%N) (m_q0 M) end)
  || (has_quad_cons (m_ck M)
      && existsb (fun e => (snd (fst (fst e)) =? snd (fst e))%N) (m_qs M)).

(* ---------------- phase 2: the judge ---------------- *)
Definition judge_loaded (M : qp_model) (ins : inst) (r : tree) : tree :=
  let want := meaning M in
  match ainst_cmp want (abstract ins) with
  | Some c => badcase ("the model reader disagrees with meaning M on the rendered text: " ++ c)
  | None =>
      match ok_payload r with
      | None =>
          if is_err r || is_panic r
          then disagree "a well-formed QPLIB text must load" (e_ainst want)
          else badresult "qplib_load: result shape"
      | Some p =>
          match d_sdk_inst p with
          | None => disagree "instance shape (bound / function / name present, <= 0, no extras)"
                             (e_ainst want)
          | Some sd =>
              match ainst_cmp want (s_abs sd) with
              | Some c => disagree c (e_ainst want)
              | None =>
                  match ainst_cmp (abstract ins) (s_abs sd) with
                  | Some c => disagree ("model reader: " ++ c) (e_ainst (abstract ins))
                  | None =>
                      if negb (cnames_cmp ins sd) then
                        disagree "constraint name" (L (map (fun c => A (c_name c)) (i_cons ins)))
                      else if negb (optstr_eqb (i_name ins) (s_name sd)) then
                        disagree "instance name" (e_opt A (i_name ins))
                      else if negb (optstr_eqb (Some (i_descr ins)) (s_descr sd)) then
                        disagree "description (type code)" (A (i_descr ins))
                      else agree ["loaded"; ptype_string (m_ok M) (m_vk M) (m_ck M);
                                  if has_diag M then "diagonal-entry" else "no-diagonal-entry"]
                  end
              end
          end
      end
  end.

Definition judge_error (line : nat) (k : ekind) (mo : outcome) (r : tree) : tree :=
  let want := L [A "err"; A (ekind_name k); I (Z.of_nat line)] in
  match mo with
  | Failed line' k' =>
      if negb (Nat.eqb line line' && ekind_eqb k k')
      then badcase ("the model reader reports a different error than the writer expects: "
                    ++ ekind_name k' ++ " at " ++ nat_digits line')
      else
        match r with
        | L [A "err"; A "qplib"; A _; I l; A cls] =>
            if negb (l =? Z.of_nat line)%Z then disagree "error line number" want
            else if negb (cls =? ekind_name k) then disagree "error class" want
            else agree ["err"; ekind_name k]
        | _ =>
            if is_panic r || is_err r || match ok_payload r with Some _ => true | None => false end
            then disagree "malformed text must be reported as an error with its line number" want
            else badresult "qplib_load: result shape"
        end
  | _ => badcase "the model reader does not fail on the faulty text"
  end.

Definition run_C19 (case : tree) : tree :=
  match case with
  | L [A "qplib_load"; L [spec; L lines]; r] =>
      match d_case spec, omap d_str lines with
      | Some (M, ly, f), Some ls =>
          let (text, want) := render_fault ly M f in
          if negb (lines_eqb text ls) then badcase "the text is not render_fault ly M f"
          else
            match want with
            | XNoFault => badcase "fault not applicable to this model"
            | XMeaning =>
                match load text with
                | Loaded ins => judge_loaded M ins r
                | Failed l k => badcase ("the model reader rejects the rendered text: "
                                         ++ ekind_name k ++ " at " ++ nat_digits l)
                | OutOfModel => badcase "rendered text is outside the model (non-finite coefficient)"
                end
            | XError line k => judge_error line k (load text) r
            end
      | _, _ => badcase "C19: cannot decode the case"
      end
  | _ => badcase "C19: unknown op"
  end.

(* a plain-text judge for hand-written / probe texts: model reader vs SDK only *)
Definition run_C19_text (case : tree) : tree :=
  match case with
  | L [A "qplib_load_text"; L lines; r] =>
      match omap d_str lines with
      | Some ls =>
          match load ls with
          | Loaded ins =>
              match ok_payload r with
              | Some p =>
                  match d_sdk_inst p with
                  | Some sd => match ainst_cmp (abstract ins) (s_abs sd) with
                              | None => agree ["loaded"]
                              | Some c => disagree c (e_ainst (abstract ins))
                              end
                  | None => disagree "instance shape" (e_ainst (abstract ins))
                  end
              | None => disagree "must load" (e_ainst (abstract ins))
              end
          | Failed l k =>
              match r with
              | L [A "err"; A "qplib"; A _; I l'; A cls] =>
                  if (l' =? Z.of_nat l)%Z && (cls =? ekind_name k) then agree ["err"; cls]
                  else disagree "error line / class" (L [A "err"; A (ekind_name k); I (Z.of_nat l)])
              | _ => disagree "must be an error with a line number"
                              (L [A "err"; A (ekind_name k); I (Z.of_nat l)])
              end
          | OutOfModel => agree ["out-of-model"]
          end
      | None => badcase "lines"
      end
  | _ => badcase "C19 text: unknown op"
  end.

(* ---------------- soundness of the comparator ---------------- *)
Lemma first_some_none {X Y} (f : X -> option Y) l :
  first_some (map f l) = None -> forall x, In x l -> f x = None.
Proof.
  induction l as [|a l IH]; cbn [map first_some]; intros H x Hx; [destruct Hx|].
  destruct (f a) eqn:E; [discriminate|]. destruct Hx as [<-|Hx]; [exact E|apply IH; assumption].
Qed.
Lemma sense_eqb_eq a b : sense_eqb a b = true -> a = b.
Proof. destruct a, b; cbn; congruence. Qed.

(* an `agree` on the abstract content certifies: same sense, objectives equal as polynomials
   (for every valuation), as many variables / constraints, and every expected constraint side
   is present under its id with a function equal as a polynomial; every expected variable is
   present under its id with the same type, bounds and name *)
Theorem ainst_cmp_sound e g : ainst_cmp e g = None ->
  a_sense e = a_sense g
  /\ (forall rho, val rho (a_obj e) = val rho (a_obj g))
  /\ List.length (a_vars e) = List.length (a_vars g)
  /\ List.length (a_cons e) = List.length (a_cons g)
  /\ (forall v, In v (a_vars e) -> exists v', In v' (a_vars g) /\ av_id v' = av_id v /\
        av_kind v' = av_kind v /\ ext_eqb (av_lo v) (av_lo v') = true /\
        ext_eqb (av_hi v) (av_hi v') = true /\ optstr_eqb (av_name v) (av_name v') = true)
  /\ (forall c, In c (a_cons e) -> exists c', In c' (a_cons g) /\ ac_id c' = ac_id c /\
        forall rho, val rho (ac_terms c) = val rho (ac_terms c')).
Proof.
  unfold ainst_cmp.
  destruct (sense_eqb (a_sense e) (a_sense g)) eqn:E1; cbn [negb]; [|discriminate].
  destruct (poly_eqb (a_obj e) (a_obj g)) eqn:E2; cbn [negb]; [|discriminate].
  destruct (Nat.eqb (List.length (a_vars e)) (List.length (a_vars g))) eqn:E3; cbn [negb]; [|discriminate].
  destruct (nodupb (map av_id (a_vars g))); cbn [negb]; [|discriminate].
  destruct (first_some (map (cmp_var (a_vars g)) (a_vars e))) eqn:E4; [discriminate|].
  destruct (Nat.eqb (List.length (a_cons e)) (List.length (a_cons g))) eqn:E5; cbn [negb]; [|discriminate].
  destruct (nodupb (map ac_id (a_cons g))); cbn [negb]; [|discriminate].
  intro E6.
  split; [apply sense_eqb_eq; exact E1|].
  split; [apply poly_eqb_sound; exact E2|].
  split; [apply Nat.eqb_eq; exact E3|].
  split; [apply Nat.eqb_eq; exact E5|].
  split.
  - intros v Hv. pose proof (first_some_none _ _ E4 v Hv) as C. unfold cmp_var in C.
    destruct (find_var (av_id v) (a_vars g)) as [v'|] eqn:Fv; [|discriminate].
    unfold find_var in Fv. apply find_some in Fv. destruct Fv as [Hin Hid]. apply N.eqb_eq in Hid.
    exists v'. split; [exact Hin|]. split; [exact Hid|].
    destruct (vtype_eqb (av_kind v) (av_kind v')) eqn:K; cbn [negb] in C; [|discriminate].
    destruct (ext_eqb (av_lo v) (av_lo v')) eqn:Lo; cbn [negb] in C; [|discriminate].
    destruct (ext_eqb (av_hi v) (av_hi v')) eqn:Hi; cbn [negb] in C; [|discriminate].
    destruct (optstr_eqb (av_name v) (av_name v')) eqn:Nm; cbn [negb] in C; [|discriminate].
    split; [|auto]. destruct (av_kind v), (av_kind v'); cbn in K; congruence.
  - intros c Hc. pose proof (first_some_none _ _ E6 c Hc) as C. unfold cmp_con in C.
    destruct (find_con (ac_id c) (a_cons g)) as [c'|] eqn:Fc; [|discriminate].
    unfold find_con in Fc. apply find_some in Fc. destruct Fc as [Hin Hid]. apply N.eqb_eq in Hid.
    exists c'. split; [exact Hin|]. split; [exact Hid|].
    destruct (poly_eqb (ac_terms c) (ac_terms c')) eqn:P; [|discriminate].
    apply poly_eqb_sound. exact P.
Qed.
