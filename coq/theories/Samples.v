(* Samples.v — sample_set.rs (Samples / SampledValues / SampleSet), Constraint::evaluate_samples,
   Instance::evaluate_samples (evaluate.rs:290-320, 345-355, 443-506), SampleSet::get / best. *)
Require Import Ommx.Num Ommx.Poly Ommx.Msg Ommx.Eval Ommx.Tree Ommx.Inst.
From Coq Require Import String.
Open Scope string_scope.

Definition samples := list (state * list N).          (* SamplesEntry { state, ids } *)
Definition sampled_values := list (num * list N).     (* SampledValuesEntry { value, ids } *)

Definition samples_ids (S : samples) : list N := flat_map snd S.
(* Samples::iter *)
Definition samples_iter (S : samples) : list (N * state) :=
  flat_map (fun e => map (fun k => (k, fst e)) (snd e)) S.
(* the state stored for a sample id: first entry listing it *)
Fixpoint samples_state (S : samples) (k : N) : option state :=
  match S with
  | [] => None
  | (st, ids) :: S' => if mem k ids then Some st else samples_state S' k
  end.

(* Samples::map: one value per entry, ids copied *)
Fixpoint samples_map (f : state -> option num) (S : samples) : option sampled_values :=
  match S with
  | [] => Some []
  | (st, ids) :: S' =>
      match f st, samples_map f S' with
      | Some v, Some r => Some ((v, ids) :: r)
      | _, _ => None
      end
  end.
(* SampledValues::get: first entry whose ids contain the sample id *)
Fixpoint sv_get (sv : sampled_values) (k : N) : option num :=
  match sv with
  | [] => None
  | (v, ids) :: sv' => if mem k ids then Some v else sv_get sv' k
  end.
Definition sv_iter (sv : sampled_values) : list (N * num) :=
  flat_map (fun e => map (fun k => (k, fst e)) (snd e)) sv.

(* FromIterator<(u64,f64)> for SampledValues: group ids by value (hash-map order is not
   specified: groups in order of first appearance) *)
Fixpoint group_add (v : num) (k : N) (g : sampled_values) : sampled_values :=
  match g with
  | [] => [(v, [k])]
  | (w, ids) :: g' => if qeqb w v then (w, ids ++ [k])%list :: g' else (w, ids) :: group_add v k g'
  end.
Definition group (l : list (N * num)) : sampled_values :=
  fold_left (fun g kv => group_add (snd kv) (fst kv) g) l [].

(* ---------------- sampled constraints ---------------- *)
Record sampled_constr := {
  sc_id : N; sc_eq : Z; sc_values : sampled_values; sc_used : list N; sc_meta : list tree;
  sc_feasible : list (N * bool); sc_removed : option (tree * tree) }.

Definition feas_of (eq : Z) (v : num) : option bool :=
  if (eq =? EQ_ZERO)%Z then Some (qltb (qabs v) tol6)
  else if (eq =? LE_ZERO)%Z then Some (qltb v tol6)
  else None.
Fixpoint feas_map (eq : Z) (l : list (N * num)) : option (list (N * bool)) :=
  match l with
  | [] => Some []
  | (k, v) :: l' =>
      match feas_of eq v, feas_map eq l' with
      | Some b, Some r => Some ((k, b) :: r)
      | _, _ => None
      end
  end.
Definition fn_used_ids (f : function) (s : state) : list N :=
  match fn_eval f s with Some (_, ids) => ids | None => [] end.

Definition constr_eval_samples (c : constr) (S : samples) : option sampled_constr :=
  let f := fn_or_zero (c_fn c) in
  match samples_map (fun st => match fn_eval f st with Some (v, _) => Some v | None => None end) S with
  | None => None
  | Some vals =>
      match feas_map (c_eq c) (sv_iter vals) with
      | None => None
      | Some fe =>
          Some {| sc_id := c_id c; sc_eq := c_eq c; sc_values := vals;
                  sc_used := flat_map (fun e => fn_used_ids f (fst e)) S; sc_meta := c_meta c;
                  sc_feasible := fe; sc_removed := None |}
      end
  end.
Definition removed_eval_samples (r : removed) (S : samples) : option sampled_constr :=
  match r_c r with
  | None => None       (* `expect`: panics *)
  | Some c =>
      match constr_eval_samples c S with
      | None => None
      | Some sc =>
          Some {| sc_id := sc_id sc; sc_eq := sc_eq sc; sc_values := sc_values sc; sc_used := sc_used sc;
                  sc_meta := sc_meta sc; sc_feasible := sc_feasible sc;
                  sc_removed := Some (r_reason r, r_params r) |}
      end
  end.

(* HashMap<u64,bool>: association list, first binding wins *)
Fixpoint bget (m : list (N * bool)) (k : N) : option bool :=
  match m with
  | [] => None
  | (j, b) :: m' => if (k =? j)%N then Some b else bget m' k
  end.
Definition bset (m : list (N * bool)) (k : N) (b : bool) := (k, b) :: m.

(* for (sample_id, feasible) in evaluated.is_feasible(1e-6)?: if !feasible { map.insert(id,false) } *)
Definition mark_infeasible (m : list (N * bool)) (sc : sampled_constr) : option (list (N * bool)) :=
  match feas_map (sc_eq sc) (sv_iter (sc_values sc)) with
  | None => None
  | Some fe => Some (fold_left (fun (m0 : list (N * bool)) (kb : N * bool) => if snd kb then m0 else bset m0 (fst kb) false) fe m)
  end.

Fixpoint eval_samples_loop {X} (ev : X -> samples -> option sampled_constr) (l : list X) (S : samples)
         (m : list (N * bool)) (acc : list sampled_constr) : option (list (N * bool) * list sampled_constr) :=
  match l with
  | [] => Some (m, acc)
  | x :: l' =>
      match ev x S with
      | None => None
      | Some sc =>
          match mark_infeasible m sc with
          | None => None
          | Some m' => eval_samples_loop ev l' S m' (acc ++ [sc])%list
          end
      end
  end.

(* state completion of each entry: dependencies, then nearest-to-zero fill (fix bb6a295) *)
Fixpoint complete_states (I : instance) (S : samples) : option samples :=
  match S with
  | [] => Some []
  | (st, ids) :: S' =>
      match eval_deps (i_deps I) st with
      | None => None
      | Some s1 =>
          match fill_vacant (i_dvs I) s1, complete_states I S' with
          | Some s2, Some r => Some ((s2, ids) :: r)
          | _, _ => None
          end
      end
  end.

Record sampled_dv := { sd_dv : dvar; sd_samples : option sampled_values }.
Record sampleset := {
  ss_objectives : option sampled_values; ss_dvs : list sampled_dv; ss_constraints : list sampled_constr;
  ss_feasible : list (N * bool); ss_feasible_relaxed : list (N * bool);
  ss_feasible_unrelaxed : list (N * bool); ss_sense : Z }.

(* Samples::transpose restricted to one variable id *)
Definition transpose_at (S : samples) (d : N) : option sampled_values :=
  let l := flat_map (fun ks => match sget (snd ks) d with Some v => [(fst ks, v)] | None => [] end)
                    (samples_iter S) in
  match l with [] => None | _ => Some (group l) end.

Definition inst_eval_samples (I : instance) (S : samples) : option sampleset :=
  let init := map (fun k => (k, true)) (samples_ids S) in
  match eval_samples_loop constr_eval_samples (i_cs I) S init [] with
  | None => None
  | Some (fr, cs1) =>
      match eval_samples_loop removed_eval_samples (i_rs I) S fr cs1 with
      | None => None
      | Some (fe, cs2) =>
          let f := fn_or_zero (i_obj I) in
          match samples_map (fun st => match fn_eval f st with Some (v, _) => Some v | None => None end) S with
          | None => None
          | Some objs =>
              match complete_states I S with
              | None => None
              | Some S' =>
                  Some {| ss_objectives := Some objs;
                          ss_dvs := map (fun d => {| sd_dv := d; sd_samples := transpose_at S' (dv_id d) |}) (i_dvs I);
                          ss_constraints := cs2; ss_feasible := fe; ss_feasible_relaxed := fr;
                          ss_feasible_unrelaxed := []; ss_sense := i_sense I |}
              end
          end
      end
  end.

(* ---------------- SampleSet accessors ---------------- *)
Definition ss_relaxed_map (ss : sampleset) : list (N * bool) :=
  match ss_feasible_relaxed ss with [] => ss_feasible ss | m => m end.
Definition ss_unrelaxed_map (ss : sampleset) : list (N * bool) :=
  match ss_feasible_relaxed ss with [] => ss_feasible_unrelaxed ss | _ => ss_feasible ss end.

Definition sc_get (sc : sampled_constr) (k : N) : option evaluated :=
  match sv_get (sc_values sc) k with
  | None => None
  | Some v => Some {| ev_id := sc_id sc; ev_eq := sc_eq sc; ev_value := v; ev_used := sc_used sc;
                      ev_meta := sc_meta sc; ev_removed := sc_removed sc |}
  end.
Fixpoint get_state (dvs : list sampled_dv) (k : N) (acc : state) : option state :=
  match dvs with
  | [] => Some acc
  | d :: dvs' =>
      match dv_subst (sd_dv d) with
      | Some x => get_state dvs' k (sset acc (dv_id (sd_dv d)) x)
      | None =>
          match (match sd_samples d with Some sv => sv_get sv k | None => None end) with
          | Some x => get_state dvs' k (sset acc (dv_id (sd_dv d)) x)
          | None => None
          end
      end
  end.
Definition ss_get (ss : sampleset) (k : N) : option solution :=
  match omap (fun sc => sc_get sc k) (ss_constraints ss), get_state (ss_dvs ss) k [],
        (match ss_objectives ss with Some o => sv_get o k | None => None end),
        bget (ss_relaxed_map ss) k, bget (ss_unrelaxed_map ss) k with
  | Some evs, Some st, Some obj, Some fr, Some fe =>
      Some {| so_state := st; so_objective := obj; so_dvs := map sd_dv (ss_dvs ss); so_evaluated := evs;
              so_feasible := fe; so_feasible_relaxed := fr |}
  | _, _, _, _, _ => None
  end.

(* feasible ids in ascending order (BTreeSet), duplicates removed *)
Fixpoint dedup_keys (l : list N) : list N :=
  match l with [] => [] | k :: l' => if mem k l' then dedup_keys l' else k :: dedup_keys l' end.
Definition true_ids (m : list (N * bool)) : list N :=
  sort_ids (filter (fun k => match bget m k with Some true => true | _ => false end) (dedup_keys (map fst m))).
Definition feasible_ids (ss : sampleset) : list N := true_ids (ss_relaxed_map ss).
Definition feasible_unrelaxed_ids (ss : sampleset) : list N := true_ids (ss_unrelaxed_map ss).

(* strictly better under the sense: Sense::try_from accepts 0,1,2; only Minimize (1) minimises *)
Definition better (sense : Z) (a b : num) : bool :=
  if (sense =? SENSE_MIN)%Z then qltb a b else qltb b a.
(* Iterator::min_by: the first of several equal minima *)
Fixpoint first_best (sense : Z) (l : list (N * num)) (cur : option (N * num)) : option (N * num) :=
  match l with
  | [] => cur
  | (k, v) :: l' =>
      match cur with
      | None => first_best sense l' (Some (k, v))
      | Some (k0, v0) => first_best sense l' (if better sense v v0 then Some (k, v) else Some (k0, v0))
      end
  end.
Definition best (ss : sampleset) (ids : list N) : option N :=
  match ss_objectives ss with
  | None => None
  | Some o =>
      match omap (fun k => match sv_get o k with Some v => Some (k, v) | None => None end) ids with
      | None => None
      | Some objs =>
          if negb ((0 <=? ss_sense ss)%Z && (ss_sense ss <=? 2)%Z) then None
          else match first_best (ss_sense ss) objs None with
               | Some (k, _) => Some k
               | None => None
               end
      end
  end.
Definition best_feasible_id (ss : sampleset) : option N := best ss (feasible_ids ss).
Definition best_feasible_unrelaxed_id (ss : sampleset) : option N := best ss (feasible_unrelaxed_ids ss).

(* the property of a legitimate winner: a candidate that no candidate strictly beats *)
Definition is_best (sense : Z) (objs : list (N * num)) (k : N) : Prop :=
  exists v, In (k, v) objs /\ forall j w, In (j, w) objs -> better sense w v = false.
Definition is_best_b (sense : Z) (objs : list (N * num)) (k : N) : bool :=
  existsb (fun kv => (fst kv =? k)%N && forallb (fun jw => negb (better sense (snd jw) (snd kv))) objs) objs.
