(* PEval.v — Evaluate::partial_evaluate for the four function representations
   (rust/ommx/src/evaluate.rs:40-48, 79-93, 135-182, 216-244). *)
Require Import Ommx.Num Ommx.Poly Ommx.Msg Ommx.Eval Ommx.Arith Ommx.ArithProofs.

Section PE.
  Variable tiny : num -> bool.

  (* Linear: every term whose id has a value is folded into the constant and removed
     (swap_remove scrambles the order of the survivors: not observable through denote) *)
  Fixpoint lin_pe_loop (ts : list (N * num)) (s : state) (c : num) (keep : list (N * num))
           (used : list N) : list (N * num) * num * list N :=
    match ts with
    | [] => (keep, c, used)
    | (i, a) :: ts' =>
        match sget s i with
        | Some v => lin_pe_loop ts' s (c + a * v) keep (i :: used)
        | None => lin_pe_loop ts' s c ((i, a) :: keep) used
        end
    end.
  Definition lin_pe (l : linear) (s : state) : linear * list N :=
    match lin_pe_loop (l_terms l) s (l_const l) [] [] with
    | (keep, c, used) => ({| l_terms := keep; l_const := c |}, used)
    end.

  (* Quadratic *)
  (* pass 1: the linear part; accumulates new linear coefficients in a BTreeMap without dropping *)
  Fixpoint quad_pe_lin (ts : list (N * num)) (s : state) (c : num) (acc : list (N * num))
           (used : list N) : num * list (N * num) * list N :=
    match ts with
    | [] => (c, acc, used)
    | (i, a) :: ts' =>
        match sget s i with
        | Some v => quad_pe_lin ts' s (c + a * v) acc (i :: used)
        | None => quad_pe_lin ts' s c (acc ++ [(i, a)]) used
        end
    end.
  (* pass 2: the (row, column, value) entries, four cases *)
  Fixpoint quad_pe_entries (z : tlist (N * N)) (s : state) (c : num) (acc : list (N * num))
           (keep : tlist (N * N)) (used : list N)
    : num * list (N * num) * tlist (N * N) * list N :=
    match z with
    | [] => (c, acc, keep, used)
    | ((r, cl), x) :: z' =>
        match sget s r, sget s cl with
        | Some u, Some v => quad_pe_entries z' s (c + x * u * v) acc keep (cl :: r :: used)
        | Some u, None => quad_pe_entries z' s c (acc ++ [(cl, x * u)]) keep (r :: used)
        | None, Some v => quad_pe_entries z' s c (acc ++ [(r, x * v)]) keep (cl :: used)
        | None, None => quad_pe_entries z' s c acc (keep ++ [((r, cl), x)]) used
        end
    end.
  (* None = Err: `ensure!` on the three lengths *)
  Definition quad_pe (q : quadratic) (s : state) : option (quadratic * list N) :=
    let c0 := match q_lin q with Some l => l_const l | None => 0 end in
    let ts := match q_lin q with Some l => l_terms l | None => [] end in
    match quad_pe_lin ts s c0 [] [] with
    | (c1, acc1, used1) =>
        if negb (q_lengths_ok q) then None
        else
          match quad_pe_entries (q_entries q) s c1 acc1 [] used1 with
          | (c2, acc2, keep, used2) =>
              let lin :=
                match acc2 with
                | [] => if qeqb c2 0 then None else Some (lin_new tiny (merge N.eqb never acc2) c2)
                | _ => Some (lin_new tiny (merge N.eqb never acc2) c2)
                end in
              Some ({| q_rows := map (fun kc => fst (fst kc)) keep;
                       q_cols := map (fun kc => snd (fst kc)) keep;
                       q_vals := map snd keep; q_lin := lin |}, used2)
          end
    end.

  (* Polynomial: a term with a tiny coefficient is skipped before its ids are looked at *)
  Fixpoint mono_pe (ids : list N) (s : state) (v : num) (rest : list N) (used : list N)
    : num * list N * list N :=
    match ids with
    | [] => (v, rest, used)
    | i :: ids' =>
        match sget s i with
        | Some x => mono_pe ids' s (v * x) rest (i :: used)
        | None => mono_pe ids' s v (rest ++ [i]) used
        end
    end.
  Fixpoint poly_pe_terms (p : polynomial) (s : state) (used : list N) : terms * list N :=
    match p with
    | [] => ([], used)
    | (ids, c) :: p' =>
        if tiny c then poly_pe_terms p' s used
        else
          match mono_pe ids s c [] used with
          | (v, rest, used') =>
              match poly_pe_terms p' s used' with
              | (t, used'') => ((rest, v) :: t, used'')
              end
          end
    end.
  Definition poly_pe (p : polynomial) (s : state) : polynomial * list N :=
    match poly_pe_terms p s [] with
    | (t, used) => (merge ids_eqb tiny t, used)
    end.

  Definition fn_pe (f : function) (s : state) : option (function * list N) :=
    match f with
    | FUnset => Some (FUnset, [])
    | FConst c => Some (FConst c, [])
    | FLin l => match lin_pe l s with (l', u) => Some (FLin l', u) end
    | FQuad q => match quad_pe q s with Some (q', u) => Some (FQuad q', u) | None => None end
    | FPoly p => match poly_pe p s with (p', u) => Some (FPoly p', u) end
    end.

  (* ------------------------------------------------------------------ *)
  Hypothesis TE : tiny_exact tiny.
  Variable rho : valuation.
  Variable s : state.
  Hypothesis Ag : agrees rho s.
  Notation V := (val rho).

  Lemma lin_pe_loop_val : forall ts c keep used keep' c' used',
    lin_pe_loop ts s c keep used = (keep', c', used') ->
    valg rho keep' + c' = valg rho keep + c + valg rho ts.
  Proof.
    induction ts as [|[i a] ts IH]; intros c keep used keep' c' used' H; cbn [lin_pe_loop] in H.
    - inversion H; subst. cbn [valg]. ring.
    - destruct (sget s i) as [v|] eqn:G.
      + apply IH in H. rewrite H. cbn [valg]. rewrite (Ag _ _ G). ring.
      + apply IH in H. rewrite H. cbn [valg]. ring.
  Qed.
  Lemma V_lin_pe l l' u : lin_pe l s = (l', u) -> V (lin_terms l') = V (lin_terms l).
  Proof.
    unfold lin_pe. destruct (lin_pe_loop (l_terms l) s (l_const l) [] []) as [[keep c] used] eqn:E.
    intro H; inversion H; subst. rewrite !V_lin; cbn [l_terms l_const].
    rewrite (lin_pe_loop_val _ _ _ _ _ _ _ E). cbn [valg]. ring.
  Qed.

  Lemma quad_pe_lin_val : forall ts c acc used c' acc' used',
    quad_pe_lin ts s c acc used = (c', acc', used') ->
    valg rho acc' + c' = valg rho acc + c + valg rho ts.
  Proof.
    induction ts as [|[i a] ts IH]; intros c acc used c' acc' used' H; cbn [quad_pe_lin] in H.
    - inversion H; subst. cbn [valg]. ring.
    - destruct (sget s i) as [v|] eqn:G.
      + apply IH in H. rewrite H. cbn [valg]. rewrite (Ag _ _ G). ring.
      + apply IH in H. rewrite H, valg_app. cbn [valg]. ring.
  Qed.
  Lemma quad_pe_entries_val : forall z c acc keep used c' acc' keep' used',
    quad_pe_entries z s c acc keep used = (c', acc', keep', used') ->
    valg (pkv rho) keep' + valg rho acc' + c'
    = valg (pkv rho) keep + valg rho acc + c + valg (pkv rho) z.
  Proof.
    induction z as [|[[r cl] x] z IH]; intros c acc keep used c' acc' keep' used' H;
      cbn [quad_pe_entries] in H.
    - inversion H; subst. cbn [valg]. ring.
    - destruct (sget s r) as [u|] eqn:Gr; destruct (sget s cl) as [v|] eqn:Gc;
        apply IH in H; rewrite H; rewrite ?valg_app; cbn [valg]; unfold pkv; cbn [fst snd];
        rewrite ?(Ag _ _ Gr), ?(Ag _ _ Gc); ring.
  Qed.

  Lemma V_quad_pe q q' u : quad_pe q s = Some (q', u) -> V (quad_terms q') = V (quad_terms q).
  Proof.
    unfold quad_pe.
    set (c0 := match q_lin q with Some l => l_const l | None => 0 end).
    set (ts := match q_lin q with Some l => l_terms l | None => [] end).
    destruct (quad_pe_lin ts s c0 [] []) as [[c1 acc1] used1] eqn:E1.
    destruct (negb (q_lengths_ok q)); [discriminate|].
    destruct (quad_pe_entries (q_entries q) s c1 acc1 [] used1) as [[[c2 acc2] keep] used2] eqn:E2.
    intro H. inversion H; subst q' u; clear H.
    apply quad_pe_lin_val in E1. apply quad_pe_entries_val in E2. cbn [valg] in E1, E2.
    rewrite !V_quad_terms. unfold q_entries at 1; cbn [q_rows q_cols q_vals q_lin].
    rewrite zip3_maps.
    assert (EL : V (optlin_terms (q_lin q)) = valg rho ts + c0).
    { unfold ts, c0. destruct (q_lin q) as [l|]; cbn [optlin_terms].
      - apply V_lin.
      - rewrite val_nil. cbn [valg]. ring. }
    rewrite EL.
    assert (EN : forall acc c, V (lin_terms (lin_new tiny (merge N.eqb never acc) c)) = valg rho acc + c).
    { intros acc c. rewrite (V_lin_new tiny TE rho).
      rewrite (merge_val_exact N.eqb Neqb_spec rho never _ never_exact). reflexivity. }
    transitivity (valg (pkv rho) keep + (valg rho acc2 + c2)).
    - f_equal. destruct acc2 as [|a acc2].
      + destruct (qeqb c2 0) eqn:Z; cbn [optlin_terms].
        * apply qeqb_eq in Z. subst c2. rewrite val_nil. cbn [valg]. ring.
        * apply EN.
      + cbn [optlin_terms]. apply EN.
    - transitivity (valg (pkv rho) keep + valg rho acc2 + c2); [ring|]. rewrite E2.
      transitivity (valg (pkv rho) (q_entries q) + (valg rho acc1 + c1)); [ring|]. rewrite E1. ring.
  Qed.

  Lemma mono_pe_val : forall ids v rest used v' rest' used',
    mono_pe ids s v rest used = (v', rest', used') ->
    v' * mono_val rho rest' = v * mono_val rho rest * mono_val rho ids.
  Proof.
    induction ids as [|i ids IH]; intros v rest used v' rest' used' H; cbn [mono_pe] in H.
    - inversion H; subst. cbn [mono_val]. ring.
    - destruct (sget s i) as [x|] eqn:G; apply IH in H; rewrite H; cbn [mono_val].
      + rewrite (Ag _ _ G). ring.
      + rewrite mono_val_app. cbn [mono_val]. ring.
  Qed.
  Lemma poly_pe_terms_val : forall p used t used',
    poly_pe_terms p s used = (t, used') -> V t = V p.
  Proof.
    induction p as [|[ids c] p IH]; intros used t used' H; cbn [poly_pe_terms] in H.
    - inversion H; subst. reflexivity.
    - destruct (tiny c) eqn:T.
      + apply IH in H. rewrite H, val_cons. apply TE in T. subst c. ring.
      + destruct (mono_pe ids s c [] used) as [[v rest] used1] eqn:M.
        destruct (poly_pe_terms p s used1) as [t1 used2] eqn:P.
        inversion H; subst. rewrite !val_cons, (IH _ _ _ P).
        apply mono_pe_val in M. rewrite M. cbn [mono_val]. ring.
  Qed.
  Lemma V_poly_pe p p' u : poly_pe p s = (p', u) -> V p' = V p.
  Proof.
    unfold poly_pe. destruct (poly_pe_terms p s []) as [t used] eqn:E.
    intro H; inversion H; subst.
    unfold val at 1. rewrite (merge_val_exact ids_eqb ids_eqb_spec (mono_val rho) tiny _ TE).
    apply (poly_pe_terms_val _ _ _ _ E).
  Qed.

  Theorem fn_pe_sound f f' u : fn_pe f s = Some (f', u) -> denote f' rho = denote f rho.
  Proof.
    unfold denote. destruct f as [|c|l|q|p]; cbn [fn_pe]; intro H.
    - inversion H; subst. reflexivity.
    - inversion H; subst. reflexivity.
    - destruct (lin_pe l s) as [l' u'] eqn:E. inversion H; subst. cbn [fn_terms].
      apply (V_lin_pe _ _ _ E).
    - destruct (quad_pe q s) as [[q' u']|] eqn:E; [|discriminate]. inversion H; subst. cbn [fn_terms].
      apply (V_quad_pe _ _ _ E).
    - destruct (poly_pe p s) as [p' u'] eqn:E. inversion H; subst. cbn [fn_terms].
      apply (V_poly_pe _ _ _ E).
  Qed.
End PE.

(* ------------------------------------------------------------------ *)
(* the partially evaluated function mentions no fixed variable; the returned ids are fixed
   variables that occurred *)
Section PEIds.
  Variable tiny : num -> bool.
  Variable s : state.

  Definition fixed (i : N) : Prop := sget s i <> None.

  Lemma lin_pe_loop_ids : forall ts c keep used keep' c' used',
    lin_pe_loop ts s c keep used = (keep', c', used') ->
    (forall i, In i (map fst keep') -> In i (map fst keep) \/ (In i (map fst ts) /\ ~ fixed i)) /\
    (forall i, In i used' -> In i used \/ (In i (map fst ts) /\ fixed i)).
  Proof.
    unfold fixed.
    induction ts as [|[i a] ts IH]; intros c keep used keep' c' used' H; cbn [lin_pe_loop] in H.
    - inversion H; subst. split; auto.
    - destruct (sget s i) as [v|] eqn:G; apply IH in H; destruct H as [H1 H2]; split; intros k Hk.
      + apply H1 in Hk. cbn [map fst In]. tauto.
      + apply H2 in Hk. cbn [map fst In In] in *. destruct Hk as [[<-|Hk]|Hk]; [right; split; [auto|congruence]|auto|tauto].
      + apply H1 in Hk. cbn [map fst In] in *. destruct Hk as [[<-|Hk]|Hk]; [right; split; [auto|congruence]|auto|tauto].
      + apply H2 in Hk. cbn [map fst In]. tauto.
  Qed.

  Theorem lin_pe_ids l l' u : lin_pe l s = (l', u) ->
    (forall i, In i (map fst (l_terms l')) -> In i (map fst (l_terms l)) /\ ~ fixed i) /\
    (forall i, In i u -> In i (map fst (l_terms l)) /\ fixed i).
  Proof.
    unfold lin_pe. destruct (lin_pe_loop (l_terms l) s (l_const l) [] []) as [[keep c] used] eqn:E.
    intro H; inversion H; subst. cbn [l_terms].
    apply lin_pe_loop_ids in E. destruct E as [E1 E2]. cbn [map In] in *.
    split; intros i Hi; [apply E1 in Hi|apply E2 in Hi]; tauto.
  Qed.
End PEIds.
