(* PenaltyPathEval.v — C04, the QUBO-driver path: Instance::substitute, then a penalty conversion
   (penalty_method / uniform_penalty_method), then the instantiation of the weights
   (with_parameters); evaluating the RESULT at a state over the remaining variables still reports
   for every replaced variable the value of its replacement (and for every earlier dependent
   variable the value of its original defining function).  Only the evaluation of the final
   instance is assumed to succeed. *)
Require Import Ommx.Num Ommx.Poly Ommx.Msg Ommx.Eval Ommx.Tree Ommx.Arith Ommx.ArithProofs Ommx.Inst
        Ommx.InstProofs Ommx.Transform Ommx.TransformProofs Ommx.Subst Ommx.SubstProofs Ommx.DepsOrder
        Ommx.SubstInst Ommx.PenaltyPath.
From Coq Require Import String Permutation.
Close Scope string_scope.
Open Scope list_scope.
Open Scope Qc_scope.

(* ---------------- any instance: what the reported state says about the dependencies -------- *)
Theorem inst_eval_reports_deps : forall K s sol,
  NoDup (dkeys (i_deps K)) ->
  (forall d, In d (dkeys (i_deps K)) -> sget (insert_subst (i_dvs K) s) d = None) ->
  sext s (insert_subst (i_dvs K) s) ->
  inst_eval K s = Some sol ->
  sext s (so_state sol) /\ solved (i_deps K) (so_state sol) /\ so_dvs sol = i_dvs K.
Proof.
  intros K s sol ND FR SX HE. destruct (inst_eval_state_solved K s sol ND FR HE) as [X Sv].
  split; [eapply sext_trans; eauto|]. split; [exact Sv|]. apply (inst_eval_dvs _ _ _ HE).
Qed.

Section PenaltyPathEval.
  Variable tiny : num -> bool.
  Hypothesis TE : tiny_exact tiny.

  (* any instance K that carries the dependency map and the decision variables of the substituted
     instance J -- whatever its objective and constraints are *)
  Theorem subst_deps_reports : forall Ins R J K s sol,
    (forall i r, lookup i R = Some r -> fwf r) ->
    NoDup (dkeys R) -> NoDup (dkeys (i_deps Ins)) ->
    (forall d, In d (dkeys R) \/ In d (dkeys (i_deps Ins)) -> sget (insert_subst (i_dvs Ins) s) d = None) ->
    sext s (insert_subst (i_dvs Ins) s) ->
    inst_substitute tiny Ins R = Some J ->
    i_deps K = i_deps J -> i_dvs K = i_dvs J ->
    inst_eval K s = Some sol ->
    sext s (so_state sol) /\
    (forall a f, lookup a R = Some f ->
       exists v ids, sget (so_state sol) a = Some v /\ fn_eval f (so_state sol) = Some (v, ids) /\
                     (forall rho, agrees rho (so_state sol) -> v = denote f rho) /\
                     (forall w ids', fn_eval f s = Some (w, ids') -> w = v)) /\
    (forall d h, In (d, h) (i_deps Ins) -> ~ In d (dkeys R) ->
       exists v, sget (so_state sol) d = Some v /\
                 forall rho, agrees rho (so_state sol) -> v = denote h rho) /\
    so_dvs sol = i_dvs Ins.
  Proof.
    intros Ins R J K s sol RW NDR NDI FR SX HS EKd EKv HE.
    destruct (inst_substitute_dkeys tiny _ _ _ HS) as [Kin Knd].
    destruct (inst_substitute_shape tiny _ _ _ HS) as (ds' & _ & _ & _ & Ed & EJ & Edv).
    destruct (inst_eval_reports_deps K s sol) as (X & Sv & Dv).
    - rewrite EKd. apply Knd; assumption.
    - intros d Hd. rewrite EKv, Edv. apply FR. apply Kin. rewrite <- EKd. exact Hd.
    - rewrite EKv, Edv. exact SX.
    - exact HE.
    - rewrite EKd in Sv.
      assert (Fx : forall rho, agrees rho (so_state sol) -> fixes R rho).
      { intros rho Ag. apply (solved_fixes (i_deps J) (so_state sol)); auto.
        intros i r Lk. rewrite EJ. apply in_or_app. left. apply lookup_in. exact Lk. }
      split; [exact X|]. split; [|split].
      + intros a f Lk. destruct (Sv a f) as (v & ids & G & E).
        { rewrite EJ. apply in_or_app. left. apply lookup_in. exact Lk. }
        exists v, ids. split; [exact G|]. split; [exact E|]. split.
        * intros rho Ag. apply fn_eval_sound in E. apply (proj1 E rho Ag).
        * intros w ids' Ew. pose proof (fn_eval_mono _ _ _ _ X Ew) as E'. congruence.
      + intros d h Hin Hn. destruct (deps_subst_rel tiny _ _ _ Ed) as [_ Rl].
        destruct (Rl d h Hin) as (g & Hg & Eg).
        destruct (Sv d g) as (v & ids & G & E).
        { rewrite EJ. apply in_or_app. right. apply filter_In. split; [exact Hg|].
          apply keep_true. exact Hn. }
        exists v. split; [exact G|]. intros rho Ag. apply fn_eval_sound in E.
        rewrite (proj1 E rho Ag). apply (subst_fix tiny TE R h g rho RW Eg). apply Fx. exact Ag.
      + rewrite Dv, EKv. exact Edv.
  Qed.

  Theorem penalty_path_reports : forall Ins R J P theta I2 s sol2,
    (forall i r, lookup i R = Some r -> fwf r) ->
    NoDup (dkeys R) -> NoDup (dkeys (i_deps Ins)) ->
    (forall d, In d (dkeys R) \/ In d (dkeys (i_deps Ins)) -> sget (insert_subst (i_dvs Ins) s) d = None) ->
    sext s (insert_subst (i_dvs Ins) s) ->
    inst_substitute tiny Ins R = Some J ->
    (penalty tiny J = Some P \/ uniform_penalty tiny J = Some P) ->
    with_parameters tiny P theta = Some I2 ->
    inst_eval I2 s = Some sol2 ->
    sext s (so_state sol2) /\
    (forall a f, lookup a R = Some f ->
       exists v ids, sget (so_state sol2) a = Some v /\ fn_eval f (so_state sol2) = Some (v, ids) /\
                     (forall rho, agrees rho (so_state sol2) -> v = denote f rho) /\
                     (forall w ids', fn_eval f s = Some (w, ids') -> w = v)) /\
    (forall d h, In (d, h) (i_deps Ins) -> ~ In d (dkeys R) ->
       exists v, sget (so_state sol2) d = Some v /\
                 forall rho, agrees rho (so_state sol2) -> v = denote h rho) /\
    so_dvs sol2 = i_dvs Ins.
  Proof.
    intros Ins R J P theta I2 s sol2 RW NDR NDI FR SX HS HP HW HE.
    destruct (penalty_path_frame tiny J P theta I2 HP HW) as [Ed Ev].
    exact (subst_deps_reports Ins R J I2 s sol2 RW NDR NDI FR SX HS Ed Ev HE).
  Qed.
End PenaltyPathEval.

(* ================= non-vacuity ================= *)
(* binary x1, x2, x3, continuous x4 = x3 + x2 (already dependent); minimise x1*x2 + x3 subject to
   the LINEAR constraint 9: x2 + x3 - 1 = 0.  Replace x3 := 1 - x1 (the constraint becomes
   x2 - x1 = 0), convert by either penalty method (weight id 5 = max id + 1), set the weight to 5,
   evaluate at x1 = 0, x2 = 1:  x3 = 1, x4 = 2, objective 0 + 1 + 5*(1 - 0)^2 = 6. *)
Definition bdv (i : N) : dvar :=
  {| dv_id := i; dv_kind := KIND_BINARY; dv_bound := None; dv_subst := None; dv_meta := [] |}.
Definition Ins_q : instance :=
  {| i_sense := SENSE_MIN;
     i_obj := Some (FPoly [([1; 2]%N, 1); ([3]%N, 1)]);
     i_dvs := [ bdv 1; bdv 2; bdv 3; xdv 4 ];
     i_cs := [ {| c_id := 9; c_eq := EQ_ZERO; c_fn := Some (lin2 2 1 3 1 (qz (-1))); c_meta := [A "c9"%string] |} ];
     i_rs := [];
     i_deps := [ (4%N, lin2 3 1 2 1 0) ];
     i_params := None; i_hints := L []; i_desc := L [] |}.
Definition R_q : repl := [ (3%N, FLin {| l_terms := [(1%N, qz (-1))]; l_const := 1 |}) ].
Definition s_q : state := [ (1%N, 0); (2%N, 1) ].
Definition theta_q : state := [ (5%N, qz 5) ].

Example penalty_path_nonvacuous :
  exists J P P' I2 I2' sol sol',
    (forall i r, lookup i R_q = Some r -> fwf r) /\
    NoDup (dkeys R_q) /\ NoDup (dkeys (i_deps Ins_q)) /\
    (forall d, In d (dkeys R_q) \/ In d (dkeys (i_deps Ins_q)) ->
               sget (insert_subst (i_dvs Ins_q) s_q) d = None) /\
    sext s_q (insert_subst (i_dvs Ins_q) s_q) /\
    inst_substitute tiny_0 Ins_q R_q = Some J /\
    penalty tiny_0 J = Some P /\ uniform_penalty tiny_0 J = Some P' /\
    with_parameters tiny_0 P theta_q = Some I2 /\ with_parameters tiny_0 P' theta_q = Some I2' /\
    inst_eval I2 s_q = Some sol /\ inst_eval I2' s_q = Some sol' /\
    so_objective sol = qz 6 /\ so_objective sol' = qz 6 /\
    sget (so_state sol) 3 = Some 1 /\ sget (so_state sol') 3 = Some 1 /\
    sget (so_state sol) 4 = Some (qz 2) /\ sget (so_state sol') 4 = Some (qz 2) /\
    map ev_value (so_evaluated sol) = [1] /\ map ev_value (so_evaluated sol') = [1].
Proof.
  do 7 eexists.
  split. { intros i r H. unfold R_q in H. cbn [lookup] in H.
           destruct (i =? 3)%N; [inversion H; subst; exact Logic.I|discriminate]. }
  split. { vm_compute. repeat constructor; cbn [In]; intuition discriminate. }
  split. { vm_compute. repeat constructor; cbn [In]; intuition discriminate. }
  split. { intros d [H|H]; vm_compute in H; intuition (subst; vm_compute; reflexivity). }
  split. { rewrite insert_subst_none; [apply sext_refl|].
           intros v H. vm_compute in H. intuition (subst; reflexivity). }
  split. { vm_compute. reflexivity. }
  split. { vm_compute. reflexivity. }
  split. { vm_compute. reflexivity. }
  split. { vm_compute. reflexivity. }
  split. { vm_compute. reflexivity. }
  split. { vm_compute. reflexivity. }
  split. { vm_compute. reflexivity. }
  repeat split; vm_compute; reflexivity.
Qed.

Print Assumptions inst_eval_reports_deps.
Print Assumptions subst_deps_reports.
Print Assumptions penalty_path_reports.
Print Assumptions penalty_path_nonvacuous.
