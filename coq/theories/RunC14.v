(* RunC14.v — correspondence runner for C14: replay a relax/restore history on the model. *)
Require Import Ommx.Num Ommx.Poly Ommx.Msg Ommx.Eval Ommx.Tree Ommx.Inst Ommx.Relax Ommx.RunC05.
From Coq Require Import String.
Open Scope string_scope.

Definition fn_eqb (f g : function) : bool := poly_eqb (fn_terms f) (fn_terms g).
Definition constr_eqb (a b : constr) : bool :=
  (c_id a =? c_id b)%N && (c_eq a =? c_eq b)%Z && optb fn_eqb (c_fn a) (c_fn b) && trees_eqb (c_meta a) (c_meta b).
Definition removed_eqb (a b : removed) : bool :=
  optb constr_eqb (r_c a) (r_c b) && tree_eqb (r_reason a) (r_reason b) && tree_eqb (r_params a) (r_params b).
(* multiset equality for lists with unique ids: same length, every element matched *)
Definition mset_eqb {X} (e : X -> X -> bool) (a b : list X) : bool :=
  Nat.eqb (List.length a) (List.length b) &&
  forallb (fun x => existsb (e x) b) a && forallb (fun y => existsb (fun x => e x y) a) b.
Definition inst_lists_eqb (a b : instance) : bool :=
  mset_eqb constr_eqb (i_cs a) (i_cs b) && mset_eqb removed_eqb (i_rs a) (i_rs b).

Definition d_rop (t : tree) : option rop :=
  match t with
  | L [A "relax"; i; r; p] => do i' <- d_N i; Some (Relax i' r p)
  | L [A "restore"; i] => do i' <- d_N i; Some (Restore i')
  | _ => None
  end.

Definition e_lists (I : instance) : tree :=
  L [A "active ids"; e_list e_N (map c_id (i_cs I)); A "removed ids"; e_list e_N (map c_id (removed_constrs (i_rs I)))].

(* feasible flag of an SDK evaluation answer, if it succeeded *)
Definition sdk_feasible (r : tree) : option bool :=
  match ok_payload r with
  | Some (L [_; _; _; _; fe; _; _; _; _]) => d_bool fe
  | _ => None
  end.

Fixpoint replay (I : instance) (s : state) (ops : list rop) (obs : list tree) (feas0 : option bool)
         (n : nat) : tree :=
  match ops, obs with
  | [], [] => agree ["history"; if Nat.leb 4 n then "len>=4" else "len<4"]
  | o :: ops', L [res; it; ev] :: obs' =>
      let '(I', okb) := step I o in
      match d_instance it with
      | None => badresult "relax_history: instance shape"
      | Some Isdk =>
          if negb (match res with A "ok" => okb | A "err" => negb okb | _ => false end)
          then disagree "operation must succeed iff the id is in the expected list" (L [e_bool okb; e_lists I'])
          else if negb (inst_lists_eqb Isdk I')
          then disagree "active / removed lists after the operation (only the named constraint moves, with the given reason; a failed operation changes nothing)" (e_lists I')
          else
            match judge_inst_eval Isdk s ev with
            | L (A "agree" :: _) =>
                match feas0, sdk_feasible ev with
                | Some b0, Some b1 =>
                    if Bool.eqb b0 b1 then replay I' s ops' obs' feas0 (S n)
                    else disagree "overall feasibility must be invariant under relax/restore" (e_bool b0)
                | _, _ => replay I' s ops' obs' feas0 (S n)
                end
            | v => v
            end
      end
  | _, _ => badresult "relax_history: number of observations"
  end.

Definition run_C14 (case : tree) : tree :=
  match case with
  | L [A "relax_history"; L [i; ops; s]; r] =>
      match d_instance i, d_list d_rop ops, d_state s with
      | Some I', Some ops', Some s' =>
          match ok_payload r with
          | Some (L (L [A "start"; _; ev0] :: obs)) =>
              match judge_inst_eval I' s' ev0 with
              | L (A "agree" :: _) => replay I' s' ops' obs (sdk_feasible ev0) 0
              | v => v
              end
          | _ => badresult "relax_history: shape"
          end
      | _, _, _ => badcase "relax_history: input"
      end
  | _ => badcase "C14: unknown op"
  end.
