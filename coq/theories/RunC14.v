(* RunC14.v — correspondence runner for C14: replay a relax/restore history on the model. *)
Require Import Ommx.Num Ommx.Poly Ommx.Msg Ommx.Eval Ommx.Tree Ommx.Inst Ommx.Relax Ommx.RunC05.
From Coq Require Import String.
Open Scope string_scope.

Definition fn_eqb (f g : function) : bool := poly_eqb (fn_terms f) (fn_terms g).
Definition constr_eqb (a b : constr) : bool :=
  (c_id a =? c_id b)%N && (c_eq a =? c_eq b)%Z && optb fn_eqb (c_fn a) (c_fn b) && trees_eqb (c_meta a) (c_meta b).
Definition removed_eqb (a b : removed) : bool :=
  optb constr_eqb (r_c a) (r_c b) && tree_eqb (r_reason a) (r_reason b) && tree_eqb (r_params a) (r_params b).
(* multiset equality for lists with unique ids: same length, every element matched *)
Definition mset_eqb {X} (e : X -> X -> bool) (a b : list X) : bool :=
  Nat.eqb (List.length a) (List.length b) &&
  forallb (fun x => existsb (e x) b) a && forallb (fun y => existsb (fun x => e x y) a) b.
Definition inst_lists_eqb (a b : instance) : bool :=
  mset_eqb constr_eqb (i_cs a) (i_cs b) && mset_eqb removed_eqb (i_rs a) (i_rs b).

(* everything but the two constraint lists: relax / restore (successful or not) must leave it alone *)
Definition frame_eqb (a b : instance) : bool :=
  (i_sense a =? i_sense b)%Z && optb fn_eqb (i_obj a) (i_obj b) && list_eqb dvar_eqb (i_dvs a) (i_dvs b) &&
  mset_eqb (fun x y : N * function => (fst x =? fst y)%N && fn_eqb (snd x) (snd y)) (i_deps a) (i_deps b) &&
  optb state_eqb (i_params a) (i_params b) && tree_eqb (i_hints a) (i_hints b) && tree_eqb (i_desc a) (i_desc b).

Definition d_rop (t : tree) : option rop :=
  match t with
  | L [A "relax"; i; r; p] => do i' <- d_N i; Some (Relax i' r p)
  | L [A "restore"; i] => do i' <- d_N i; Some (Restore i')
  | _ => None
  end.

Definition e_lists (I : instance) : tree :=
  L [A "active ids"; e_list e_N (map c_id (i_cs I)); A "removed ids"; e_list e_N (map c_id (removed_constrs (i_rs I)))].

(* feasible flag of an SDK evaluation answer, if it succeeded *)
Definition sdk_feasible (r : tree) : option bool :=
  match ok_payload r with
  | Some (L [_; _; _; _; fe; _; _; _; _]) => d_bool fe
  | _ => None
  end.

(* Instance::evaluate_samples on the states (sample ids 0, 1, ..): both flags of every sample must be those of the
   model's evaluation of that state alone on the CURRENT lists (so they obey the same invariance) *)
Fixpoint flag_of (m : list tree) (k : N) : option bool :=
  match m with
  | [] => None
  | L [kt; bt] :: m' => match d_N kt with
                        | Some j => if (j =? k)%N then d_bool bt else flag_of m' k
                        | None => None end
  | _ :: _ => None
  end.
Fixpoint judge_flags (I : instance) (states : list state) (k : N) (fe fr : list tree) : option tree :=
  match states with
  | [] => None
  | st :: states' =>
      match inst_eval I st with
      | None => judge_flags I states' (k + 1)%N fe fr        (* out-of-bound state: evaluate alone rejects it *)
      | Some sol =>
          match flag_of fe k, flag_of fr k with
          | Some bfe, Some bfr =>
              if negb (Bool.eqb bfe (so_feasible sol))
              then Some (disagree "evaluate_samples: feasible flag of a sample differs from evaluating its state alone (all constraints, relaxed ones included)" (L [e_N k; e_bool (so_feasible sol)]))
              else if negb (Bool.eqb bfr (so_feasible_relaxed sol))
              then Some (disagree "evaluate_samples: feasible_relaxed flag of a sample differs from evaluating its state alone" (L [e_N k; e_bool (so_feasible_relaxed sol)]))
              else judge_flags I states' (k + 1)%N fe fr
          | _, _ => Some (disagree "evaluate_samples: a submitted sample id has no feasibility flag" (e_N k))
          end
      end
  end.
Definition judge_sample_flags (I : instance) (states : list state) (sf : tree) : option tree :=
  match ok_payload sf with
  | Some (L [L fe; L fr]) => judge_flags I states 0%N fe fr
  | _ => if existsb (fun st => match inst_eval I st with Some _ => true | None => false end) states
         then (if is_err sf || is_panic sf then Some (disagree "evaluate_samples must succeed on in-bound covering states" (A "ok"))
               else Some (badresult "sample flags shape"))
         else None
  end.

Fixpoint replay (I : instance) (s : state) (states : list state) (ops : list rop) (obs : list tree) (feas0 : option bool)
         (n : nat) : tree :=
  match ops, obs with
  | [], [] => agree ["history"; if Nat.leb 4 n then "len>=4" else "len<4"]
  | o :: ops', L (res :: it :: ev :: more) :: obs' =>
      let '(I', okb) := step I o in
      match d_instance it with
      | None => badresult "relax_history: instance shape"
      | Some Isdk =>
          if negb (match res with A "ok" => okb | A "err" => negb okb | _ => false end)
          then disagree "operation must succeed iff the id is in the expected list" (L [e_bool okb; e_lists I'])
          else if negb (inst_lists_eqb Isdk I')
          then disagree "active / removed lists after the operation (only the named constraint moves, with the given reason; a failed operation changes nothing)" (e_lists I')
          else if negb (frame_eqb Isdk I')
          then disagree "nothing but the two constraint lists may change (sense, objective, variables, dependencies, parameters, hints, description)" (e_lists I')
          else
            match judge_inst_eval Isdk s ev with
            | L (A "agree" :: _) =>
                match feas0, sdk_feasible ev with
                | Some b0, Some b1 =>
                    if Bool.eqb b0 b1 then
                      match (match more with [sf] => judge_sample_flags Isdk states sf | _ => None end) with
                      | Some v => v
                      | None => replay I' s states ops' obs' feas0 (S n)
                      end
                    else disagree "overall feasibility must be invariant under relax/restore" (e_bool b0)
                | _, _ =>
                    match (match more with [sf] => judge_sample_flags Isdk states sf | _ => None end) with
                    | Some v => v
                    | None => replay I' s states ops' obs' feas0 (S n)
                    end
                end
            | v => v
            end
      end
  | _, _ => badresult "relax_history: number of observations"
  end.

Definition run_C14 (case : tree) : tree :=
  match case with
  | L [A "relax_history"; L (i :: ops :: s :: extra); r] =>
      match d_instance i, d_list d_rop ops, d_state s,
            (match extra with [e] => d_list d_state e | [] => Some [] | _ => None end) with
      | Some I', Some ops', Some s', Some ex =>
          let states := s' :: ex in
          match ok_payload r with
          | Some (L (L (A "start" :: _ :: ev0 :: more0) :: obs)) =>
              match judge_inst_eval I' s' ev0 with
              | L (A "agree" :: _) =>
                  match (match more0 with [sf] => judge_sample_flags I' states sf | _ => None end) with
                  | Some v => v
                  | None => replay I' s' states ops' obs (sdk_feasible ev0) 0
                  end
              | v => v
              end
          | _ => badresult "relax_history: shape"
          end
      | _, _, _, _ => badcase "relax_history: input"
      end
  | _ => badcase "C14: unknown op"
  end.
