(* MpsRoundTrip.v — C17 (B): reading the rendered text of an abstract model, as theorems
   (for ALL abstract models and ALL layouts; no bound on sizes).

   Layer 1 (text -> typed statements; sections 1-7), for every layout and every lexically
   well-formed model (names are tokens, no row is called 'MARKER', numbers read back):
       parse_render_typed :  wf_lex M = true -> parse_lines (render ly M) = typed_parse M
   where [typed_parse] applies the reader's statement functions (add_row, declare_col, add_coef,
   add_rhs, add_range, apply_bound, finish) directly to the data of M: no text, no tokens, no
   numbers as text.  The equation is between [res] values, so it covers the error cases too.

   Layer 2 (sections 8): the tables [typed_parse] builds, in closed form, for a structurally
   well-formed model ([tables_closed]; RANGES through the invariant [RI] and [ranges_view]).

   Layer 3 (sections 9-11): [convert] of these tables is [meaning M] by names:
       load_render_represents :  wf_model M = true ->
           exists I, load_lines (render ly M) = Ok I /\ represents I (meaning M)
       represents_match_spec  :  represents I S -> match_spec I S = None
       load_render_match_spec :  wf_model M = true ->
           exists I, load_lines (render ly M) = Ok I /\ match_spec I (meaning M) = None
   i.e. the per-case check of RunC17.judge_load, for all models and layouts ([judge_load_rendered]).

   Section 12 removes the assumption on numbers: every terminating decimal with fewer than 64
   fractional digits is a token and reads back ([num_ok_printable]); the [_decimal] theorems use
   [wf_model_dec], which only asks that the numbers of M are such decimals. *)
Require Import Ommx.Num Ommx.Poly Ommx.Msg Ommx.Tree Ommx.Mps Ommx.MpsSpec Ommx.MpsProofs Ommx.RunC17.
From Coq Require Import String Ascii.
Open Scope string_scope.
Open Scope list_scope.

(* ================================================================== *)
(* 0. lists                                                             *)

Lemma list_ind2 {A} (P : list A -> Prop) :
  P [] -> (forall x, P [x]) -> (forall x y l, P l -> P (y :: l) -> P (x :: y :: l)) ->
  forall l, P l.
Proof.
  intros H0 H1 H2.
  assert (H : forall l, P l /\ forall x, P (x :: l)).
  { induction l as [|a l [IH1 IH2]]; split; auto. }
  intro l. apply H.
Qed.

(* ================================================================== *)
(* 1. tokens and lines                                                  *)

Fixpoint nows (s : string) : bool :=
  match s with EmptyString => true | String c s' => negb (is_ws c) && nows s' end.
(* a token: non-empty, no white space *)
Definition tok (s : string) : bool := negb (sempty s) && nows s.

Lemma sapp_cons c t s : (String c t) +++ s = String c (t +++ s).
Proof. reflexivity. Qed.
Lemma sapp_empty s : "" +++ s = s.
Proof. reflexivity. Qed.
Lemma sapp_nil_r s : s +++ "" = s.
Proof. induction s as [|c s IH]; [reflexivity|]. rewrite sapp_cons, IH. reflexivity. Qed.

Lemma split_aux_cons c s :
  split_aux (String c s) =
  if is_ws c
  then ("", if sempty (fst (split_aux s)) then snd (split_aux s)
            else fst (split_aux s) :: snd (split_aux s))
  else (String c (fst (split_aux s)), snd (split_aux s)).
Proof. cbn [split_aux]. destruct (split_aux s) as [t ts]. destruct (is_ws c); reflexivity. Qed.

Lemma split_aux_nows_app t s : nows t = true ->
  split_aux (t +++ s) = (t +++ fst (split_aux s), snd (split_aux s)).
Proof.
  induction t as [|c t IH]; intro H.
  - rewrite !sapp_empty. destruct (split_aux s); reflexivity.
  - cbn [nows] in H. apply andb_true_iff in H. destruct H as [Hc Ht].
    rewrite !sapp_cons, split_aux_cons. apply negb_true_iff in Hc. rewrite Hc.
    rewrite (IH Ht). reflexivity.
Qed.

Definition tab : string := String (ascii_of_N 9) "".
Definition is_sep (s : string) : Prop := s = tab \/ s = "  ".

Lemma tok_nonempty t : tok t = true -> sempty t = false.
Proof. unfold tok. intro H. apply andb_true_iff in H. destruct H as [H _]. apply negb_true_iff in H. exact H. Qed.
Lemma tok_nows t : tok t = true -> nows t = true.
Proof. unfold tok. intro H. apply andb_true_iff in H. tauto. Qed.

Lemma split_aux_sep sp g gs J : is_sep sp -> sempty g = false -> split_aux J = (g, gs) ->
  split_aux (sp +++ J) = ("", g :: gs).
Proof.
  intros [->| ->] Hg HJ.
  - unfold tab. rewrite sapp_cons, sapp_empty, split_aux_cons, HJ. cbn [fst snd]. rewrite Hg. reflexivity.
  - rewrite !sapp_cons, sapp_empty. rewrite split_aux_cons.
    assert (W : is_ws " " = true) by reflexivity. rewrite W.
    rewrite split_aux_cons, W, HJ. cbn [fst snd sempty]. rewrite Hg. reflexivity.
Qed.

Lemma split_aux_join sp fs : is_sep sp -> forall f, forallb tok (f :: fs) = true ->
  split_aux (join sp (f :: fs)) = (f, fs).
Proof.
  intro Hs. induction fs as [|g fs IH]; intros f H.
  - cbn [join]. rewrite <- (sapp_nil_r f) at 1. rewrite split_aux_nows_app.
    + cbn [split_aux fst snd]. rewrite sapp_nil_r. reflexivity.
    + cbn [forallb] in H. apply andb_true_iff in H. apply tok_nows. tauto.
  - change (join sp (f :: g :: fs)) with (f +++ sp +++ join sp (g :: fs)).
    cbn [forallb] in H. apply andb_true_iff in H. destruct H as [Hf Hr].
    rewrite split_aux_nows_app by (apply tok_nows; exact Hf).
    rewrite (split_aux_sep sp g fs _ Hs); [cbn [fst snd]; rewrite sapp_nil_r; reflexivity| |apply IH; exact Hr].
    cbn [forallb] in Hr. apply andb_true_iff in Hr. apply tok_nonempty. tauto.
Qed.

Definition lsep (ly : layout) : string := if ly_tabs ly then tab else "  ".
Lemma lsep_sep ly : is_sep (lsep ly).
Proof. unfold lsep, is_sep. destruct (ly_tabs ly); auto. Qed.
Lemma fline_eq ly fs : fline ly fs = String " " (join (lsep ly) fs).
Proof. reflexivity. Qed.

Lemma split_ws_fline ly f fs : forallb tok (f :: fs) = true -> split_ws (fline ly (f :: fs)) = f :: fs.
Proof.
  intro H. rewrite fline_eq. unfold split_ws. rewrite split_aux_cons.
  assert (W : is_ws " " = true) by reflexivity. rewrite W.
  rewrite (split_aux_join _ _ (lsep_sep ly) _ H). cbn [fst snd sempty].
  cbn [forallb] in H. apply andb_true_iff in H. destruct H as [H _]. rewrite (tok_nonempty _ H). reflexivity.
Qed.

Lemma join_head sp f fs : exists X, join sp (f :: fs) = f +++ X.
Proof.
  destruct fs as [|g fs].
  - exists "". cbn [join]. rewrite sapp_nil_r. reflexivity.
  - eexists. reflexivity.
Qed.

Lemma blank_nonws c s : is_ws c = false -> blank (String c s) = false.
Proof. intro H. unfold blank, trim. cbn [trim_start]. rewrite H. cbn [trim_end]. rewrite H. reflexivity. Qed.

Lemma blank_fline ly f fs : tok f = true -> blank (fline ly (f :: fs)) = false.
Proof.
  intro H. rewrite fline_eq. destruct (join_head (lsep ly) f fs) as [X ->].
  destruct f as [|c f]; [discriminate|].
  apply tok_nows in H. cbn [nows] in H. apply andb_true_iff in H. destruct H as [H _].
  apply negb_true_iff in H. rewrite sapp_cons.
  unfold blank, trim. cbn [trim_start]. assert (W : is_ws " " = true) by reflexivity. rewrite W.
  fold (trim (String c (f +++ X))). fold (blank (String c (f +++ X))). apply blank_nonws. exact H.
Qed.

(* ================================================================== *)
(* 2. the state machine on rendered lines                               *)

Definition mkst (cur : cursor) (i : bool) (free : list string) (m : mps) : pstate :=
  {| p_cur := cur; p_int := i; p_wait := false; p_done := false; p_free := free; p_mps := m |}.

Lemma step_fline ly f fs cur i free m : forallb tok (f :: fs) = true ->
  step (mkst cur i free m) (fline ly (f :: fs))
  = read_fields (mkst cur i free m) (fline ly (f :: fs)) (f :: fs).
Proof.
  intro H. unfold step. cbn [p_done p_wait mkst].
  rewrite blank_fline by (cbn [forallb] in H; apply andb_true_iff in H; tauto).
  rewrite (split_ws_fline _ _ _ H). reflexivity.
Qed.

Lemma run_lines_app a b st :
  run_lines (a ++ b) st = let? st' := run_lines a st in run_lines b st'.
Proof.
  revert st. induction a as [|l a IH]; intro st; cbn [app run_lines rbind]; [reflexivity|].
  destruct (step st l) as [st'|e]; cbn [rbind]; [apply IH|reflexivity].
Qed.

Definition skippable (l : string) : bool := blank l || first_is "*"%char l.
Lemma step_skip st l : skippable l = true -> step st l = Ok st.
Proof.
  unfold skippable, step. intro H. destruct (p_done st); [reflexivity|].
  destruct (blank l); [reflexivity|]. cbn [orb] in H. rewrite H. reflexivity.
Qed.
Lemma run_skip ls st : forallb skippable ls = true -> run_lines ls st = Ok st.
Proof.
  induction ls as [|l ls IH]; intro H; cbn [run_lines]; [reflexivity|].
  cbn [forallb] in H. apply andb_true_iff in H. destruct H as [H1 H2].
  rewrite (step_skip _ _ H1). cbn [rbind]. apply IH. exact H2.
Qed.

Lemma run_section ly h body rest st :
  run_lines (section ly h body ++ rest) st =
  let? st1 := step st h in let? st2 := run_lines body st1 in run_lines rest st2.
Proof.
  unfold section. cbn [app run_lines]. destruct (step st h) as [st1|e]; cbn [rbind]; [|reflexivity].
  rewrite <- !app_assoc. rewrite run_lines_app.
  rewrite run_skip by (destruct (ly_comments ly); reflexivity). cbn [rbind].
  rewrite run_lines_app. destruct (run_lines body st1) as [st2|e]; cbn [rbind]; [|reflexivity].
  rewrite run_lines_app. rewrite run_skip by (destruct (ly_blanks ly); reflexivity). reflexivity.
Qed.

(* ================================================================== *)
(* 3. numbers                                                           *)

(* a number the writer can print and the reader reads back: its text is a token and parses to
   the same value.  (Section 12 proves this for every terminating decimal with fewer than 64 fractional digits: [num_ok_printable].) *)
Definition num_ok (q : num) : bool :=
  tok (print_num q) &&
  match read_f64 (print_num q) with Some (Fin q') => qeqb q' q | _ => false end.
Definition ext_ok (x : ext) : bool := match x with Fin q => num_ok q | _ => true end.

Lemma num_ok_tok q : num_ok q = true -> tok (print_num q) = true.
Proof. unfold num_ok. intro H. apply andb_true_iff in H. tauto. Qed.
Lemma num_ok_read q : num_ok q = true -> read_f64 (print_num q) = Some (Fin q).
Proof.
  unfold num_ok. intro H. apply andb_true_iff in H. destruct H as [_ H].
  destruct (read_f64 (print_num q)) as [[| q' | |]|]; try discriminate.
  apply qeqb_eq in H. subst. reflexivity.
Qed.
Lemma ext_ok_tok x : ext_ok x = true -> tok (print_ext x) = true.
Proof. destruct x; cbn [ext_ok print_ext]; try reflexivity. apply num_ok_tok. Qed.
Lemma ext_ok_read x : ext_ok x = true -> read_ext (print_ext x) = Ok x.
Proof.
  destruct x; cbn [ext_ok print_ext]; try reflexivity.
  intro H. unfold read_ext. rewrite (num_ok_read _ H). reflexivity.
Qed.
Lemma num_ok_fin q : num_ok q = true -> read_fin (print_num q) = Ok q.
Proof. intro H. unfold read_fin. rewrite (num_ok_read _ H). reflexivity. Qed.

(* ================================================================== *)
(* 4. typed statements: the reader's functions on values instead of text *)

Definition add_coef_q (free : list string) (col : string) (rq : string * num) (m : mps) : res mps :=
  let '(row, q) := rq in
  if row =? m_obj m then
    Ok {| m_name := m_name m; m_max := m_max m; m_obj := m_obj m;
          m_c := insert col q (m_c m); m_rows := m_rows m; m_cols := m_cols m |}
  else if smem row free then Ok m
  else
    let r := m_rows m in
    match lookup row (r_a r) with
    | None => Err (EUnknownRowName row)
    | Some entries =>
        Ok {| m_name := m_name m; m_max := m_max m; m_obj := m_obj m; m_c := m_c m;
              m_rows := {| r_a := insert row (insert col q entries) (r_a r); r_b := r_b r;
                           r_eq := r_eq r; r_ge := r_ge r; r_le := r_le r |};
              m_cols := m_cols m |}
    end.
Fixpoint add_coefs_q (free : list string) (col : string) (l : list (string * num)) (m : mps) : res mps :=
  match l with
  | [] => Ok m
  | rq :: l' => let? m' := add_coef_q free col rq m in add_coefs_q free col l' m'
  end.

Lemma add_coef_print free col row q m : num_ok q = true ->
  add_coef free col (row, print_num q) m = add_coef_q free col (row, q) m.
Proof. intro H. unfold add_coef, add_coef_q. rewrite (num_ok_fin _ H). reflexivity. Qed.

Lemma add_coef_q_cols free col rq m m' : add_coef_q free col rq m = Ok m' -> m_cols m' = m_cols m.
Proof.
  destruct rq as [row q]. unfold add_coef_q.
  destruct (row =? m_obj m); [intro H; inversion H; reflexivity|].
  destruct (smem row free); [intro H; inversion H; reflexivity|].
  destruct (lookup row (r_a (m_rows m))); intro H; inversion H; reflexivity.
Qed.

Definition declared (col : string) (i : bool) (m : mps) : Prop := declare_col col i m = m.
Lemma sadd_idem k l : sadd k (sadd k l) = sadd k l.
Proof. unfold sadd at 1. rewrite smem_sadd_same. reflexivity. Qed.
Lemma declared_declare col i m : declared col i (declare_col col i m).
Proof.
  unfold declared, declare_col. cbn [m_cols m_name m_max m_obj m_c m_rows c_vars c_int c_bin c_real c_u c_l].
  rewrite sadd_idem. destruct i; rewrite sadd_idem; reflexivity.
Qed.
Lemma declared_cols col i m m' : m_cols m' = m_cols m -> declared col i m -> declared col i m'.
Proof.
  unfold declared, declare_col. intros E H.
  destruct m as [n1 x1 o1 cc1 r1 k1], m' as [n2 x2 o2 cc2 r2 k2].
  cbn [m_cols m_name m_max m_obj m_c m_rows] in *.
  subst. inversion H as [Hc]. rewrite !Hc. reflexivity.
Qed.

(* one column: declared on its first line, then its entries in order *)
Definition t_col (free : list string) (m : mps) (c : scol) : res mps :=
  match sc_coefs c with
  | [] => Ok m
  | ps => add_coefs_q free (sc_name c) ps (declare_col (sc_name c) (sc_int c) m)
  end.
Fixpoint t_cols (free : list string) (cs : list scol) (m : mps) : res mps :=
  match cs with
  | [] => Ok m
  | c :: cs' => let? m' := t_col free m c in t_cols free cs' m'
  end.

Definition m_init (M : lp_model) : mps :=
  {| m_name := trim (lp_name M);
     m_max := match lp_sense M with Some b => b | None => false end;
     m_obj := ""; m_c := []; m_rows := rows0; m_cols := cols0 |}.

Definition rows_fold (rows : list srow) (mf : mps * list string) : mps * list string :=
  fold_left (fun mf r => add_row (sr_ty r) (sr_name r) (snd mf) (fst mf)) rows mf.

(* the tables before [finish] *)
Definition typed_tables (M : lp_model) : res mps :=
  let mf := rows_fold (lp_rows M) (add_row RN (lp_objrow M) [] (m_init M)) in
  let? m2 := t_cols (snd mf) (lp_cols M) (fst mf) in
  let m3 := fold_left add_rhs (rhs_entries M) m2 in
  let? m4 := add_ranges (range_entries M) m3 in
  Ok (set_cols m4 (fold_left apply_bound (lp_bounds M) (m_cols m4))).
Definition typed_parse (M : lp_model) : res mps :=
  let? m := typed_tables M in Ok (set_cols m (finish_cols (m_cols m))).

(* ================================================================== *)
(* 5. lexical well-formedness                                           *)

Definition name_ok (s : string) : bool := tok s.
Definition entry_ok (e : string * num) : bool := tok (fst e) && num_ok (snd e).
Definition coef_ok (e : string * num) : bool := entry_ok e && negb (fst e =? "'MARKER'").
Definition bstmt_ok (b : bstmt) : bool :=
  tok (b_col b) && (if kw_needs_value (b_kw b) then ext_ok (b_val b) else true).

Definition wf_lex (M : lp_model) : bool :=
  tok (lp_objrow M)
  && forallb (fun r => tok (sr_name r)) (lp_rows M)
  && forallb (fun c => tok (sc_name c) && forallb coef_ok (sc_coefs c)) (lp_cols M)
  && forallb entry_ok (rhs_entries M)
  && forallb entry_ok (range_entries M)
  && forallb bstmt_ok (lp_bounds M).

(* ================================================================== *)
(* 6. the sections                                                      *)

(* ---- ROWS ---- *)
Lemma tok_rty t : tok (rty_word t) = true.
Proof. destruct t; reflexivity. Qed.

Lemma step_row ly t name i free m : tok name = true ->
  step (mkst CRows i free m) (fline ly [rty_word t; name])
  = Ok (mkst CRows i (snd (add_row t name free m)) (fst (add_row t name free m))).
Proof.
  intro H. rewrite step_fline by (cbn [forallb]; rewrite tok_rty, H; reflexivity).
  unfold read_fields. cbn [p_cur mkst p_mps p_free p_int p_wait p_done].
  assert (P : parse_row [rty_word t; name] = Ok (t, name)) by (destruct t; reflexivity).
  rewrite P. cbn [rbind]. destruct (add_row t name free m) as [m' f']. reflexivity.
Qed.

Lemma run_rows ly rows : forall i free m,
  forallb (fun r => tok (sr_name r)) rows = true ->
  run_lines (map (fun r => fline ly [rty_word (sr_ty r); sr_name r]) rows) (mkst CRows i free m)
  = Ok (mkst CRows i (snd (rows_fold rows (m, free))) (fst (rows_fold rows (m, free)))).
Proof.
  induction rows as [|r rows IH]; intros i free m H; cbn [map run_lines]; [reflexivity|].
  cbn [forallb] in H. apply andb_true_iff in H. destruct H as [H1 H2].
  rewrite (step_row _ _ _ _ _ _ H1). cbn [rbind]. rewrite (IH _ _ _ H2).
  unfold rows_fold. cbn [fold_left fst snd].
  destruct (add_row (sr_ty r) (sr_name r) free m) as [m' f']. reflexivity.
Qed.

(* ---- COLUMNS ---- *)
Lemma step_marker ly on i free m :
  step (mkst CColumns i free m) (marker ly on) = Ok (mkst CColumns on free m).
Proof.
  unfold marker. rewrite step_fline by (destruct on; reflexivity).
  destruct on; reflexivity.
Qed.

Lemma coef_ok_parts e : coef_ok e = true ->
  tok (fst e) = true /\ num_ok (snd e) = true /\ (fst e =? "'MARKER'") = false.
Proof.
  unfold coef_ok, entry_ok. intro H. apply andb_true_iff in H. destruct H as [H1 H2].
  apply andb_true_iff in H1. apply negb_true_iff in H2. tauto.
Qed.

Lemma step_col3 ly col p i free m : tok col = true -> coef_ok p = true ->
  step (mkst CColumns i free m) (fline ly [col; fst p; print_num (snd p)])
  = let? m' := add_coefs_q free col [p] (declare_col col i m) in Ok (mkst CColumns i free m').
Proof.
  intros Hc Hp. destruct (coef_ok_parts _ Hp) as (T & Nk & Mk). destruct p as [r q]. cbn [fst snd] in *.
  rewrite step_fline by (cbn [forallb]; rewrite Hc, T, (num_ok_tok _ Nk); reflexivity).
  unfold read_fields. cbn [p_cur mkst p_mps p_free p_int p_wait p_done].
  unfold parse_column. cbn [len35 negb]. rewrite Mk. cbn [rbind text_pairs add_coefs add_coefs_q].
  rewrite (add_coef_print _ _ _ _ _ Nk).
  destruct (add_coef_q free col (r, q) (declare_col col i m)); reflexivity.
Qed.

Lemma step_col5 ly col p p2 i free m : tok col = true -> coef_ok p = true -> coef_ok p2 = true ->
  step (mkst CColumns i free m)
       (fline ly [col; fst p; print_num (snd p); fst p2; print_num (snd p2)])
  = let? m' := add_coefs_q free col [p; p2] (declare_col col i m) in Ok (mkst CColumns i free m').
Proof.
  intros Hc Hp Hp2. destruct (coef_ok_parts _ Hp) as (T & Nk & Mk).
  destruct (coef_ok_parts _ Hp2) as (T2 & Nk2 & _).
  destruct p as [r q], p2 as [r2 q2]. cbn [fst snd] in *.
  rewrite step_fline
    by (cbn [forallb]; rewrite Hc, T, T2, (num_ok_tok _ Nk), (num_ok_tok _ Nk2); reflexivity).
  unfold read_fields. cbn [p_cur mkst p_mps p_free p_int p_wait p_done].
  unfold parse_column. cbn [len35 negb]. rewrite Mk. cbn [rbind text_pairs add_coefs add_coefs_q].
  rewrite (add_coef_print _ _ _ _ _ Nk).
  destruct (add_coef_q free col (r, q) (declare_col col i m)) as [m1|e]; cbn [rbind]; [|reflexivity].
  rewrite (add_coef_print _ _ _ _ _ Nk2).
  destruct (add_coef_q free col (r2, q2) m1); reflexivity.
Qed.

Lemma add_coefs_q_declared free col i ps : forall m m', declared col i m ->
  add_coefs_q free col ps m = Ok m' -> declared col i m'.
Proof.
  induction ps as [|p ps IH]; intros m m' D H; cbn [add_coefs_q] in H.
  - inversion H; subst; exact D.
  - destruct (add_coef_q free col p m) as [m1|e] eqn:E; cbn [rbind] in H; [|discriminate].
    apply (IH m1); [|exact H]. eapply declared_cols; [eapply add_coef_q_cols; exact E|exact D].
Qed.

Lemma add_coefs_q_app free col a b m :
  add_coefs_q free col (a ++ b) m = let? m' := add_coefs_q free col a m in add_coefs_q free col b m'.
Proof.
  revert m. induction a as [|p a IH]; intro m; cbn [app add_coefs_q rbind]; [reflexivity|].
  destruct (add_coef_q free col p m); cbn [rbind]; [apply IH|reflexivity].
Qed.

Lemma pair_lines_cons2 ly h p q ps :
  pair_lines ly h (p :: q :: ps) =
  if ly_five ly
  then fline ly [h; fst p; print_num (snd p); fst q; print_num (snd q)] :: pair_lines ly h ps
  else fline ly [h; fst p; print_num (snd p)] :: pair_lines ly h (q :: ps).
Proof. reflexivity. Qed.

(* the lines of one column *)
Lemma run_col_lines ly col i free : tok col = true -> forall ps, forallb coef_ok ps = true ->
  forall m,
  run_lines (pair_lines ly col ps) (mkst CColumns i free m)
  = let? m' := add_coefs_q free col ps (match ps with [] => m | _ => declare_col col i m end) in
    Ok (mkst CColumns i free m').
Proof.
  intros Hc ps. induction ps as [|p|p p2 ps IH1 IH2] using list_ind2; intros H m.
  - reflexivity.
  - cbn [pair_lines run_lines]. cbn [forallb] in H. apply andb_true_iff in H. destruct H as [H _].
    rewrite (step_col3 _ _ _ _ _ _ Hc H).
    destruct (add_coefs_q free col [p] (declare_col col i m)); reflexivity.
  - cbn [forallb] in H. apply andb_true_iff in H. destruct H as [Hp H].
    pose proof H as H'. cbn [forallb] in H'. apply andb_true_iff in H'. destruct H' as [Hp2 Hps].
    rewrite pair_lines_cons2. destruct (ly_five ly).
    + cbn [run_lines]. rewrite (step_col5 _ _ _ _ _ _ _ Hc Hp Hp2).
      change (p :: p2 :: ps) with ([p; p2] ++ ps). rewrite add_coefs_q_app.
      destruct (add_coefs_q free col [p; p2] (declare_col col i m)) as [m1|e] eqn:E; cbn [rbind]; [|reflexivity].
      rewrite (IH1 Hps m1).
      assert (D : declared col i m1) by (eapply add_coefs_q_declared; [apply declared_declare|exact E]).
      destruct ps; [reflexivity|]. rewrite D. reflexivity.
    + cbn [run_lines]. rewrite (step_col3 _ _ _ _ _ _ Hc Hp).
      change (p :: p2 :: ps) with ([p] ++ p2 :: ps). rewrite add_coefs_q_app.
      destruct (add_coefs_q free col [p] (declare_col col i m)) as [m1|e] eqn:E; cbn [rbind]; [|reflexivity].
      rewrite (IH2 H m1).
      assert (D : declared col i m1) by (eapply add_coefs_q_declared; [apply declared_declare|exact E]).
      rewrite D. reflexivity.
Qed.

Lemma run_cols ly free cs : forall in_int m,
  forallb (fun c => tok (sc_name c) && forallb coef_ok (sc_coefs c)) cs = true ->
  run_lines (col_lines ly cs in_int) (mkst CColumns in_int free m)
  = let? m' := t_cols free cs m in Ok (mkst CColumns false free m').
Proof.
  induction cs as [|c cs IH]; intros in_int m H.
  - cbn [col_lines t_cols rbind]. destruct in_int; cbn [run_lines]; [|reflexivity].
    rewrite step_marker. reflexivity.
  - cbn [forallb] in H. apply andb_true_iff in H. destruct H as [Hc Hcs].
    apply andb_true_iff in Hc. destruct Hc as [Hn Hp].
    cbn [col_lines t_cols]. rewrite run_lines_app.
    assert (Mk : run_lines (if sc_int c then if in_int then [] else [marker ly true]
                            else if in_int then [marker ly false] else []) (mkst CColumns in_int free m)
                 = Ok (mkst CColumns (sc_int c) free m)).
    { destruct (sc_int c), in_int; cbn [run_lines]; rewrite ?step_marker; reflexivity. }
    rewrite Mk. cbn [rbind]. rewrite run_lines_app. rewrite (run_col_lines ly _ (sc_int c) free Hn _ Hp m).
    unfold t_col.
    destruct (sc_coefs c) as [|p ps]; cbn [add_coefs_q rbind]; [apply IH; exact Hcs|].
    destruct (add_coef_q free (sc_name c) p (declare_col (sc_name c) (sc_int c) m)) as [m1|e];
      cbn [rbind]; [|reflexivity].
    destruct (add_coefs_q free (sc_name c) ps m1) as [m2|e]; cbn [rbind]; [apply IH; exact Hcs|reflexivity].
Qed.

(* ---- RHS ---- *)
Lemma entry_ok_parts e : entry_ok e = true -> tok (fst e) = true /\ num_ok (snd e) = true.
Proof. unfold entry_ok. intro H. apply andb_true_iff in H. exact H. Qed.

Lemma step_rhs3 ly h p i free m : tok h = true -> entry_ok p = true ->
  step (mkst CRhs i free m) (fline ly [h; fst p; print_num (snd p)])
  = Ok (mkst CRhs i free (fold_left add_rhs [p] m)).
Proof.
  intros Hh Hp. destruct (entry_ok_parts _ Hp) as (T & Nk). destruct p as [r q]. cbn [fst snd] in *.
  rewrite step_fline by (cbn [forallb]; rewrite Hh, T, (num_ok_tok _ Nk); reflexivity).
  unfold read_fields. cbn [p_cur mkst p_mps p_free p_int p_wait p_done len35 negb tl parse_pairs].
  rewrite (num_ok_fin _ Nk). reflexivity.
Qed.
Lemma step_rhs5 ly h p p2 i free m : tok h = true -> entry_ok p = true -> entry_ok p2 = true ->
  step (mkst CRhs i free m) (fline ly [h; fst p; print_num (snd p); fst p2; print_num (snd p2)])
  = Ok (mkst CRhs i free (fold_left add_rhs [p; p2] m)).
Proof.
  intros Hh Hp Hp2. destruct (entry_ok_parts _ Hp) as (T & Nk). destruct (entry_ok_parts _ Hp2) as (T2 & Nk2).
  destruct p as [r q], p2 as [r2 q2]. cbn [fst snd] in *.
  rewrite step_fline
    by (cbn [forallb]; rewrite Hh, T, T2, (num_ok_tok _ Nk), (num_ok_tok _ Nk2); reflexivity).
  unfold read_fields. cbn [p_cur mkst p_mps p_free p_int p_wait p_done len35 negb tl parse_pairs].
  rewrite (num_ok_fin _ Nk). cbn [rbind]. rewrite (num_ok_fin _ Nk2). reflexivity.
Qed.

Lemma run_rhs_lines ly h i free : tok h = true -> forall es, forallb entry_ok es = true -> forall m,
  run_lines (pair_lines ly h es) (mkst CRhs i free m) = Ok (mkst CRhs i free (fold_left add_rhs es m)).
Proof.
  intros Hh es. induction es as [|p|p p2 es IH1 IH2] using list_ind2; intros H m.
  - reflexivity.
  - cbn [forallb] in H. apply andb_true_iff in H. destruct H as [H _].
    cbn [pair_lines run_lines]. rewrite (step_rhs3 _ _ _ _ _ _ Hh H). reflexivity.
  - cbn [forallb] in H. apply andb_true_iff in H. destruct H as [Hp H].
    pose proof H as H'. cbn [forallb] in H'. apply andb_true_iff in H'. destruct H' as [Hp2 Hes].
    rewrite pair_lines_cons2. destruct (ly_five ly); cbn [run_lines].
    + rewrite (step_rhs5 _ _ _ _ _ _ _ Hh Hp Hp2). cbn [rbind]. rewrite (IH1 Hes). reflexivity.
    + rewrite (step_rhs3 _ _ _ _ _ _ Hh Hp). cbn [rbind]. rewrite (IH2 H). reflexivity.
Qed.

(* ---- RANGES ---- *)
Lemma step_rng3 ly h p i free m : tok h = true -> entry_ok p = true ->
  step (mkst CRanges i free m) (fline ly [h; fst p; print_num (snd p)])
  = let? m' := add_ranges [p] m in Ok (mkst CRanges i free m').
Proof.
  intros Hh Hp. destruct (entry_ok_parts _ Hp) as (T & Nk). destruct p as [r q]. cbn [fst snd] in *.
  rewrite step_fline by (cbn [forallb]; rewrite Hh, T, (num_ok_tok _ Nk); reflexivity).
  unfold read_fields. cbn [p_cur mkst p_mps p_free p_int p_wait p_done len35 negb tl add_range_fields add_ranges].
  rewrite (num_ok_fin _ Nk). cbn [rbind].
  destruct (add_range m (r, q)); reflexivity.
Qed.
Lemma step_rng5 ly h p p2 i free m : tok h = true -> entry_ok p = true -> entry_ok p2 = true ->
  step (mkst CRanges i free m) (fline ly [h; fst p; print_num (snd p); fst p2; print_num (snd p2)])
  = let? m' := add_ranges [p; p2] m in Ok (mkst CRanges i free m').
Proof.
  intros Hh Hp Hp2. destruct (entry_ok_parts _ Hp) as (T & Nk). destruct (entry_ok_parts _ Hp2) as (T2 & Nk2).
  destruct p as [r q], p2 as [r2 q2]. cbn [fst snd] in *.
  rewrite step_fline
    by (cbn [forallb]; rewrite Hh, T, T2, (num_ok_tok _ Nk), (num_ok_tok _ Nk2); reflexivity).
  unfold read_fields. cbn [p_cur mkst p_mps p_free p_int p_wait p_done len35 negb tl add_range_fields add_ranges].
  rewrite (num_ok_fin _ Nk). cbn [rbind].
  destruct (add_range m (r, q)) as [m1|e]; cbn [rbind]; [|reflexivity].
  rewrite (num_ok_fin _ Nk2). cbn [rbind].
  destruct (add_range m1 (r2, q2)); reflexivity.
Qed.

Lemma add_ranges_app a b m :
  add_ranges (a ++ b) m = let? m' := add_ranges a m in add_ranges b m'.
Proof.
  revert m. induction a as [|p a IH]; intro m; cbn [app add_ranges rbind]; [reflexivity|].
  destruct (add_range m p); cbn [rbind]; [apply IH|reflexivity].
Qed.

Lemma run_rng_lines ly h i free : tok h = true -> forall es, forallb entry_ok es = true -> forall m,
  run_lines (pair_lines ly h es) (mkst CRanges i free m)
  = let? m' := add_ranges es m in Ok (mkst CRanges i free m').
Proof.
  intros Hh es. induction es as [|p|p p2 es IH1 IH2] using list_ind2; intros H m.
  - reflexivity.
  - cbn [forallb] in H. apply andb_true_iff in H. destruct H as [H _].
    cbn [pair_lines run_lines]. rewrite (step_rng3 _ _ _ _ _ _ Hh H).
    destruct (add_ranges [p] m); reflexivity.
  - cbn [forallb] in H. apply andb_true_iff in H. destruct H as [Hp H].
    pose proof H as H'. cbn [forallb] in H'. apply andb_true_iff in H'. destruct H' as [Hp2 Hes].
    rewrite pair_lines_cons2. destruct (ly_five ly); cbn [run_lines].
    + rewrite (step_rng5 _ _ _ _ _ _ _ Hh Hp Hp2).
      change (p :: p2 :: es) with ([p; p2] ++ es). rewrite add_ranges_app.
      destruct (add_ranges [p; p2] m) as [m1|e]; cbn [rbind]; [|reflexivity]. apply (IH1 Hes).
    + rewrite (step_rng3 _ _ _ _ _ _ Hh Hp).
      change (p :: p2 :: es) with ([p] ++ p2 :: es). rewrite add_ranges_app.
      destruct (add_ranges [p] m) as [m1|e]; cbn [rbind]; [|reflexivity]. apply (IH2 H).
Qed.

(* ---- BOUNDS ---- *)
Lemma tok_kw k : tok (kw_word k) = true.
Proof. destruct k; reflexivity. Qed.
Lemma kw_of_word k : kw_of (kw_word k) = Some k.
Proof. destruct k; reflexivity. Qed.

Lemma set_cols_set_cols m c1 c2 : set_cols (set_cols m c1) c2 = set_cols m c2.
Proof. reflexivity. Qed.
Lemma set_cols_same m : set_cols m (m_cols m) = m.
Proof. destruct m; reflexivity. Qed.

Lemma step_bound ly b i free m : bstmt_ok b = true ->
  step (mkst CBounds i free m) (bound_line ly b)
  = Ok (mkst CBounds i free (set_cols m (apply_bound (m_cols m) b))).
Proof.
  unfold bstmt_ok. intro H. apply andb_true_iff in H. destruct H as [Hc Hv].
  destruct b as [k col v]. cbn [b_kw b_col b_val] in *. unfold bound_line. cbn [b_kw b_col b_val].
  destruct (kw_needs_value k) eqn:K.
  - cbn [app]. rewrite step_fline
      by (cbn [forallb]; rewrite tok_kw, Hc, (ext_ok_tok _ Hv); reflexivity).
    unfold read_fields. cbn [p_cur mkst p_mps p_free p_int p_wait p_done].
    unfold parse_bound. rewrite kw_of_word.
    destruct k; try discriminate K; cbn [kw_needs_value]; rewrite (ext_ok_read _ Hv); reflexivity.
  - cbn [app]. rewrite step_fline by (cbn [forallb]; rewrite tok_kw, Hc; reflexivity).
    unfold read_fields. cbn [p_cur mkst p_mps p_free p_int p_wait p_done].
    unfold parse_bound. rewrite kw_of_word.
    destruct k; try discriminate K; reflexivity.
Qed.

Lemma run_bounds ly bs : forall i free m, forallb bstmt_ok bs = true ->
  run_lines (map (bound_line ly) bs) (mkst CBounds i free m)
  = Ok (mkst CBounds i free (set_cols m (fold_left apply_bound bs (m_cols m)))).
Proof.
  induction bs as [|b bs IH]; intros i free m H; cbn [map run_lines fold_left].
  - rewrite set_cols_same. reflexivity.
  - cbn [forallb] in H. apply andb_true_iff in H. destruct H as [H1 H2].
    rewrite (step_bound _ _ _ _ _ H1). cbn [rbind]. rewrite (IH _ _ _ H2). reflexivity.
Qed.

(* ================================================================== *)
(* 7. Layer 1: the whole text                                           *)

Lemma trim_sp s : trim (" " +++ s) = trim s.
Proof. reflexivity. Qed.

Lemma step_sense_line ly (b : bool) cur i free m :
  step {| p_cur := cur; p_int := i; p_wait := true; p_done := false; p_free := free; p_mps := m |}
       (fline ly [if b then "MAX" else "MIN"])
  = Ok (mkst cur i free (set_sense m b)).
Proof.
  unfold step. cbn [p_done p_wait].
  rewrite blank_fline by (destruct b; reflexivity).
  rewrite split_ws_fline by (destruct b; reflexivity).
  destruct b; reflexivity.
Qed.

Theorem parse_render_typed : forall ly M, wf_lex M = true ->
  parse_lines (render ly M) = typed_parse M.
Proof.
  intros ly M W. unfold wf_lex in W.
  apply andb_true_iff in W; destruct W as [W Wbnd].
  apply andb_true_iff in W; destruct W as [W Wrng].
  apply andb_true_iff in W; destruct W as [W Wrhs].
  apply andb_true_iff in W; destruct W as [W Wcols].
  apply andb_true_iff in W; destruct W as [Wobj Wrows].
  unfold parse_lines, render, typed_parse, typed_tables.
  (* leading comments *)
  rewrite run_lines_app. rewrite run_skip by (destruct (ly_comments ly); reflexivity). cbn [rbind].
  (* NAME *)
  rewrite run_section.
  assert (S1 : step pstate0 ("NAME " +++ lp_name M)
               = Ok (mkst CName false []
                       {| m_name := trim (lp_name M); m_max := false; m_obj := ""; m_c := [];
                          m_rows := rows0; m_cols := cols0 |})) by reflexivity.
  rewrite S1. cbn [rbind run_lines].
  (* OBJSENSE *)
  assert (S2 : forall rest,
    run_lines (match lp_sense M with
               | None => []
               | Some b =>
                   let w := if b then "MAX" else "MIN" in
                   if ly_inline ly then section ly ("OBJSENSE " +++ w) []
                   else section ly "OBJSENSE" [fline ly [w]]
               end ++ rest)
              (mkst CName false []
                 {| m_name := trim (lp_name M); m_max := false; m_obj := ""; m_c := [];
                    m_rows := rows0; m_cols := cols0 |})
    = run_lines rest (mkst CName false [] (m_init M))).
  { intro rest. unfold m_init. destruct (lp_sense M) as [b|]; [|reflexivity].
    cbv zeta. destruct (ly_inline ly); rewrite run_section.
    - destruct b; reflexivity.
    - assert (E : step (mkst CName false []
                          {| m_name := trim (lp_name M); m_max := false; m_obj := ""; m_c := [];
                             m_rows := rows0; m_cols := cols0 |}) "OBJSENSE"
                  = Ok {| p_cur := CName; p_int := false; p_wait := true; p_done := false; p_free := [];
                          p_mps := {| m_name := trim (lp_name M); m_max := false; m_obj := ""; m_c := [];
                                      m_rows := rows0; m_cols := cols0 |} |}) by reflexivity.
      rewrite E. cbn [rbind run_lines]. rewrite step_sense_line. reflexivity. }
  rewrite S2. clear S1 S2.
  (* ROWS *)
  rewrite run_section.
  assert (S3 : step (mkst CName false [] (m_init M)) "ROWS" = Ok (mkst CRows false [] (m_init M)))
    by reflexivity.
  rewrite S3. clear S3. cbn [rbind run_lines].
  change (fline ly ["N"; lp_objrow M]) with (fline ly [rty_word RN; lp_objrow M]).
  rewrite (step_row ly RN (lp_objrow M) false [] (m_init M) Wobj). cbn [rbind].
  rewrite (run_rows ly (lp_rows M) _ _ _ Wrows). cbn [rbind].
  set (mf := rows_fold (lp_rows M)
               (fst (add_row RN (lp_objrow M) [] (m_init M)), snd (add_row RN (lp_objrow M) [] (m_init M)))).
  assert (Emf : rows_fold (lp_rows M) (add_row RN (lp_objrow M) [] (m_init M)) = mf).
  { unfold mf. destruct (add_row RN (lp_objrow M) [] (m_init M)); reflexivity. }
  rewrite Emf. clearbody mf. clear Emf.
  (* COLUMNS *)
  rewrite run_section.
  assert (S4 : step (mkst CRows false (snd mf) (fst mf)) "COLUMNS" = Ok (mkst CColumns false (snd mf) (fst mf)))
    by reflexivity.
  rewrite S4. clear S4. cbn [rbind]. rewrite (run_cols ly _ _ _ _ Wcols).
  destruct (t_cols (snd mf) (lp_cols M) (fst mf)) as [m2|e]; cbn [rbind]; [|reflexivity].
  (* RHS *)
  rewrite run_section.
  assert (S5 : step (mkst CColumns false (snd mf) m2) "RHS" = Ok (mkst CRhs false (snd mf) m2)) by reflexivity.
  rewrite S5. clear S5. cbn [rbind].
  rewrite (run_rhs_lines ly "RHS" false (snd mf) eq_refl _ Wrhs). cbn [rbind].
  set (m3 := fold_left add_rhs (rhs_entries M) m2). clearbody m3.
  (* BOUNDS and ENDATA, for any state they are entered from *)
  match goal with |- context [?X ++ ["ENDATA"]] => set (B := X) end.
  assert (S7 : forall cur m4, cur = CRhs \/ cur = CRanges ->
               run_lines (B ++ ["ENDATA"]) (mkst cur false (snd mf) m4)
               = Ok (mkst CEnd false (snd mf)
                       (set_cols m4 (fold_left apply_bound (lp_bounds M) (m_cols m4))))).
  { intros cur m4 Hcur. unfold B. destruct (lp_bounds M) as [|b0 bs] eqn:E.
    - cbn [app fold_left run_lines]. rewrite set_cols_same. destruct Hcur as [-> | ->]; reflexivity.
    - rewrite run_section.
      assert (S : step (mkst cur false (snd mf) m4) "BOUNDS" = Ok (mkst CBounds false (snd mf) m4))
        by (destruct Hcur as [-> | ->]; reflexivity).
      rewrite S. cbn [rbind]. rewrite (run_bounds ly _ _ _ _ Wbnd). reflexivity. }
  clearbody B.
  (* RANGES *)
  destruct (range_entries M) as [|e0 es] eqn:Er.
  - cbn [app add_ranges rbind]. rewrite S7 by (left; reflexivity). reflexivity.
  - rewrite run_section.
    assert (S : step (mkst CRhs false (snd mf) m3) "RANGES" = Ok (mkst CRanges false (snd mf) m3)) by reflexivity.
    rewrite S. cbn [rbind]. rewrite (run_rng_lines ly "RNG" false (snd mf) eq_refl _ Wrng).
    destruct (add_ranges (e0 :: es) m3) as [m4|e]; cbn [rbind]; [|reflexivity].
    rewrite S7 by (right; reflexivity). reflexivity.
Qed.

(* ================================================================== *)
(* 8. Layer 2: the tables in closed form                                *)

(* ---- association lists with unique keys ---- *)
Lemma smem_In k l : smem k l = true <-> In k l.
Proof.
  unfold smem. rewrite existsb_exists. split.
  - intros (x & Hx & E). apply String.eqb_eq in E. subst. exact Hx.
  - intro H. exists k. split; [exact H|apply String.eqb_refl].
Qed.
Lemma smem_notin k l : ~ In k l -> smem k l = false.
Proof. intro H. apply not_true_is_false. intro T. apply H. apply smem_In. exact T. Qed.
Lemma sadd_fresh k l : ~ In k l -> sadd k l = l ++ [k].
Proof. intro H. unfold sadd. rewrite (smem_notin _ _ H). reflexivity. Qed.
Lemma insert_fresh {V} k (v : V) m : ~ In k (map fst m) -> insert k v m = m ++ [(k, v)].
Proof.
  induction m as [|[k' v'] m IH]; cbn [insert map fst In app]; intro H; [reflexivity|].
  destruct (k =? k') eqn:E.
  - apply String.eqb_eq in E. subst. exfalso. apply H. left. reflexivity.
  - rewrite IH; [reflexivity|]. intro. apply H. right. assumption.
Qed.
Lemma lookup_notin {V} k (m : list (string * V)) : ~ In k (map fst m) -> lookup k m = None.
Proof.
  induction m as [|[k' v'] m IH]; cbn [lookup map fst In]; intro H; [reflexivity|].
  destruct (k =? k') eqn:E.
  - apply String.eqb_eq in E. subst. exfalso. apply H. left. reflexivity.
  - apply IH. intro. apply H. right. assumption.
Qed.
Lemma lookup_in_keys {V} k (m : list (string * V)) v : lookup k m = Some v -> In k (map fst m).
Proof.
  induction m as [|[k' v'] m IH]; cbn [lookup map fst In]; [discriminate|].
  destruct (k =? k') eqn:E; [apply String.eqb_eq in E; subst; auto|]. intro H. right. apply IH. exact H.
Qed.

(* tables presented as  map (fun r => (key r, val r)) l  with unique keys *)
Lemma lookup_mapkv {X V} (key : X -> string) (val : X -> V) l x :
  In x l -> NoDup (map key l) -> lookup (key x) (map (fun r => (key r, val r)) l) = Some (val x).
Proof.
  induction l as [|y l IH]; cbn [map lookup In]; [tauto|]. intros Hin Hnd.
  inversion Hnd as [|? ? Hn Hd]; subst.
  destruct Hin as [->|Hin]; [rewrite String.eqb_refl; reflexivity|].
  destruct (key x =? key y) eqn:E; [|apply IH; assumption].
  apply String.eqb_eq in E. exfalso. apply Hn. rewrite <- E. apply in_map. exact Hin.
Qed.
Lemma insert_mapkv {X V} (key : X -> string) (val : X -> V) l x v :
  In x l -> NoDup (map key l) ->
  insert (key x) v (map (fun r => (key r, val r)) l)
  = map (fun r => (key r, if key r =? key x then v else val r)) l.
Proof.
  induction l as [|y l IH]; cbn [map insert In]; [tauto|]. intros Hin Hnd.
  inversion Hnd as [|? ? Hn Hd]; subst.
  destruct Hin as [->|Hin].
  - rewrite String.eqb_refl. f_equal. apply map_ext_in. intros z Hz.
    destruct (key z =? key x) eqn:E; [|reflexivity].
    apply String.eqb_eq in E. exfalso. apply Hn. rewrite <- E. apply in_map. exact Hz.
  - destruct (key x =? key y) eqn:E.
    + apply String.eqb_eq in E. exfalso. apply Hn. rewrite <- E. apply in_map. exact Hin.
    + rewrite String.eqb_sym in E. rewrite E. f_equal. apply IH; assumption.
Qed.

(* ---- ROWS ---- *)
Definition rty_eqb (a b : rty) : bool :=
  match a, b with RN, RN | RE, RE | RL, RL | RG, RG => true | _, _ => false end.
Definition names_of (t : rty) (rows : list srow) : list string :=
  map sr_name (filter (fun r => rty_eqb (sr_ty r) t) rows).
Definition nonN (rows : list srow) : list srow :=
  filter (fun r => negb (rty_eqb (sr_ty r) RN)) rows.

Lemma names_of_snoc t pre r :
  names_of t (pre ++ [r]) = names_of t pre ++ (if rty_eqb (sr_ty r) t then [sr_name r] else []).
Proof. unfold names_of. rewrite filter_app, map_app. cbn [filter]. destruct (rty_eqb (sr_ty r) t); reflexivity. Qed.
Lemma nonN_snoc pre r :
  nonN (pre ++ [r]) = nonN pre ++ (if rty_eqb (sr_ty r) RN then [] else [r]).
Proof. unfold nonN. rewrite filter_app. cbn [filter]. destruct (rty_eqb (sr_ty r) RN); reflexivity. Qed.
Lemma names_of_sub t rows x : In x (names_of t rows) -> In x (map sr_name rows).
Proof.
  unfold names_of. intro H. apply in_map_iff in H. destruct H as (r & <- & Hr).
  apply filter_In in Hr. apply in_map. tauto.
Qed.
Lemma nonN_sub rows x : In x (map sr_name (nonN rows)) -> In x (map sr_name rows).
Proof.
  unfold nonN. intro H. apply in_map_iff in H. destruct H as (r & <- & Hr).
  apply filter_In in Hr. apply in_map. tauto.
Qed.

Section Rows.
  Variable M : lp_model.
  Let name0 := trim (lp_name M).
  Let max0 := match lp_sense M with Some b => b | None => false end.

  Definition rows_tbl (A : list (string * list (string * num))) (B : list (string * num))
             (pre : list srow) : mrows :=
    {| r_a := A; r_b := B; r_eq := names_of RE pre; r_ge := names_of RG pre; r_le := names_of RL pre |}.
  Definition rows_state (pre : list srow) : mps * list string :=
    ({| m_name := name0; m_max := max0; m_obj := lp_objrow M; m_c := [];
        m_rows := rows_tbl (map (fun r => (sr_name r, [])) (nonN pre)) [] pre; m_cols := cols0 |},
     names_of RN pre).

  Hypothesis obj_nonempty : sempty (lp_objrow M) = false.

  Lemma rows_state_nil : add_row RN (lp_objrow M) [] (m_init M) = rows_state [].
  Proof. reflexivity. Qed.

  Lemma rows_step pre r : ~ In (sr_name r) (lp_objrow M :: map sr_name pre) ->
    add_row (sr_ty r) (sr_name r) (snd (rows_state pre)) (fst (rows_state pre)) = rows_state (pre ++ [r]).
  Proof.
    intro H. cbn [In] in H.
    assert (Hobj : (sr_name r =? lp_objrow M) = false).
    { apply String.eqb_neq. intro E. apply H. left. symmetry. exact E. }
    assert (Hpre : ~ In (sr_name r) (map sr_name pre)) by tauto.
    assert (Ht : forall t, ~ In (sr_name r) (names_of t pre)).
    { intros t Hi. apply Hpre. eapply names_of_sub. exact Hi. }
    assert (Ha : ~ In (sr_name r) (map fst (map (fun r0 => (sr_name r0, @nil (string * num))) (nonN pre)))).
    { rewrite map_map. cbn [fst]. intro Hi. apply Hpre. apply nonN_sub. exact Hi. }
    unfold rows_state, rows_tbl, add_row.
    cbn [fst snd m_obj m_rows m_name m_max m_c m_cols r_a r_b r_eq r_ge r_le].
    rewrite !names_of_snoc, nonN_snoc.
    destruct (sr_ty r) eqn:T; cbn [rty_eqb];
      rewrite ?obj_nonempty, ?Hobj, ?(sadd_fresh _ _ (Ht _)), ?(insert_fresh _ _ _ Ha), ?map_app, ?app_nil_r;
      reflexivity.
  Qed.

  Lemma rows_fold_state rows : forall pre,
    NoDup (lp_objrow M :: map sr_name (pre ++ rows)) ->
    rows_fold rows (rows_state pre) = rows_state (pre ++ rows).
  Proof.
    induction rows as [|r rows IH]; intros pre H.
    - rewrite app_nil_r. reflexivity.
    - unfold rows_fold. cbn [fold_left]. rewrite rows_step.
      + replace (pre ++ r :: rows) with ((pre ++ [r]) ++ rows) by (rewrite <- app_assoc; reflexivity).
        apply IH. rewrite <- app_assoc. exact H.
      + rewrite map_app in H. cbn [map] in H. inversion H as [|? ? Hn Hd]; subst.
        intros [E|Hi].
        * apply Hn. rewrite E. apply in_or_app. right. left. reflexivity.
        * apply NoDup_remove_2 in Hd. apply Hd. apply in_or_app. left. exact Hi.
  Qed.
End Rows.

(* ---- COLUMNS ---- *)
Definition sel (col : string) (ps : list (string * num)) (r : string) : list (string * num) :=
  flat_map (fun rv => if fst rv =? r then [(col, snd rv)] else []) ps.
Definition rvec (cs : list scol) (r : string) : list (string * num) :=
  flat_map (fun c => sel (sc_name c) (sc_coefs c) r) cs.
Lemma row_vec_rvec M r : row_vec M r = rvec (lp_cols M) r.
Proof. reflexivity. Qed.

Lemma sel_app col a b r : sel col (a ++ b) r = sel col a r ++ sel col b r.
Proof. unfold sel. apply flat_map_app. Qed.
Lemma sel_notin col ps r : ~ In r (map fst ps) -> sel col ps r = [].
Proof.
  induction ps as [|[r' q] ps IH]; cbn [map fst In]; intro H; [reflexivity|].
  unfold sel. cbn [flat_map fst snd]. fold (sel col ps r).
  destruct (r' =? r) eqn:E; [apply String.eqb_eq in E; exfalso; apply H; auto|].
  cbn [app]. apply IH. tauto.
Qed.
Lemma sel_keys col ps r x : In x (map fst (sel col ps r)) -> x = col.
Proof.
  induction ps as [|[r' q] ps IH]; [intros []|].
  unfold sel. cbn [flat_map fst snd]. fold (sel col ps r).
  rewrite map_app, in_app_iff. intros [H|H]; [|apply IH; exact H].
  destruct (r' =? r); cbn [map fst In] in H; [destruct H as [<-|[]]; reflexivity|destruct H].
Qed.
Lemma rvec_app a b r : rvec (a ++ b) r = rvec a r ++ rvec b r.
Proof. unfold rvec. apply flat_map_app. Qed.
Lemma rvec_keys cs r x : In x (map fst (rvec cs r)) -> In x (map sc_name cs).
Proof.
  induction cs as [|c cs IH]; [intros []|].
  unfold rvec. cbn [flat_map map In]. fold (rvec cs r). rewrite map_app, in_app_iff.
  intros [H|H]; [left; symmetry; eapply sel_keys; exact H|right; apply IH; exact H].
Qed.

Lemma NoDup_map_inj {X Y} (f : X -> Y) l a b :
  NoDup (map f l) -> In a l -> In b l -> f a = f b -> a = b.
Proof.
  induction l as [|x l IH]; cbn [map In]; [tauto|]. intros H Ha Hb E.
  inversion H as [|? ? Hn Hd]; subst.
  destruct Ha as [->|Ha], Hb as [->|Hb]; auto.
  - exfalso. apply Hn. rewrite E. apply in_map. exact Hb.
  - exfalso. apply Hn. rewrite <- E. apply in_map. exact Ha.
Qed.
Lemma NoDup_map_filter {X Y} (f : X -> Y) p l : NoDup (map f l) -> NoDup (map f (filter p l)).
Proof.
  induction l as [|x l IH]; cbn [map filter]; intro H; [constructor|].
  inversion H as [|? ? Hn Hd]; subst. destruct (p x); cbn [map]; [|apply IH; exact Hd].
  constructor; [|apply IH; exact Hd].
  intro Hi. apply Hn. apply in_map_iff in Hi. destruct Hi as (y & E & Hy).
  apply filter_In in Hy. rewrite <- E. apply in_map. tauto.
Qed.

Definition cols_tbl (pre : list scol) : mcols :=
  {| c_vars := map sc_name pre; c_int := map sc_name (filter sc_int pre); c_bin := [];
     c_real := map sc_name (filter (fun c => negb (sc_int c)) pre); c_u := []; c_l := [] |}.

Section Cols.
  Variable M : lp_model.
  Let name0 := trim (lp_name M).
  Let max0 := match lp_sense M with Some b => b | None => false end.
  Let rows := lp_rows M.
  Let objrow := lp_objrow M.
  Let free := names_of RN rows.
  Hypothesis rows_nodup : NoDup (objrow :: map sr_name rows).

  Definition cstate (B : list (string * num)) (cp : list scol) (vec : string -> list (string * num)) : mps :=
    {| m_name := name0; m_max := max0; m_obj := objrow; m_c := vec objrow;
       m_rows := rows_tbl (map (fun r => (sr_name r, vec (sr_name r))) (nonN rows)) B rows;
       m_cols := cols_tbl cp |}.

  Lemma cstate_ext B cp vec vec' :
    vec objrow = vec' objrow -> (forall r, In r (nonN rows) -> vec (sr_name r) = vec' (sr_name r)) ->
    cstate B cp vec = cstate B cp vec'.
  Proof.
    intros H1 H2. unfold cstate. rewrite H1. f_equal. unfold rows_tbl. f_equal.
    apply map_ext_in. intros r Hr. rewrite (H2 r Hr). reflexivity.
  Qed.

  Lemma rows_state_cstate : fst (rows_state M rows) = cstate [] [] (rvec []).
  Proof. reflexivity. Qed.

  Lemma nonN_nodup : NoDup (map sr_name (nonN rows)).
  Proof. unfold nonN. apply NoDup_map_filter. inversion rows_nodup; assumption. Qed.
  Lemma objrow_not_row r : In r rows -> sr_name r <> objrow.
  Proof.
    intros Hr E. inversion rows_nodup as [|? ? Hn _]; subst. apply Hn. rewrite <- E. apply in_map. exact Hr.
  Qed.

  Lemma add_coef_closed B cp vec col row q :
    In row (objrow :: map sr_name rows) -> ~ In col (map fst (vec row)) ->
    add_coef_q free col (row, q) (cstate B cp vec)
    = Ok (cstate B cp (fun r => vec r ++ (if row =? r then [(col, q)] else []))).
  Proof.
    intros Hrow Hcol. unfold add_coef_q. cbn [cstate m_obj m_c m_rows m_name m_max m_cols].
    destruct (row =? objrow) eqn:Eo.
    - apply String.eqb_eq in Eo. subst row. f_equal. unfold cstate. rewrite String.eqb_refl.
      rewrite (insert_fresh _ _ _ Hcol). f_equal. unfold rows_tbl. f_equal.
      apply map_ext_in. intros r Hr. unfold nonN in Hr. apply filter_In in Hr. destruct Hr as [Hr _].
      destruct (objrow =? sr_name r) eqn:E; [|rewrite app_nil_r; reflexivity].
      apply String.eqb_eq in E. exfalso. apply (objrow_not_row r Hr). symmetry. exact E.
    - apply String.eqb_neq in Eo. destruct Hrow as [E|Hrow]; [congruence|].
      apply in_map_iff in Hrow. destruct Hrow as (r0 & E0 & Hr0). subst row.
      assert (Hnd : NoDup (map sr_name rows)) by (inversion rows_nodup; assumption).
      destruct (rty_eqb (sr_ty r0) RN) eqn:T0.
      + assert (F : smem (sr_name r0) free = true).
        { apply smem_In. unfold free, names_of. apply in_map. apply filter_In. auto. }
        rewrite F. f_equal. apply cstate_ext.
        * destruct (sr_name r0 =? objrow) eqn:E; [apply String.eqb_eq in E; congruence|].
          rewrite app_nil_r. reflexivity.
        * intros r Hr. unfold nonN in Hr. apply filter_In in Hr. destruct Hr as [Hr Tr].
          destruct (sr_name r0 =? sr_name r) eqn:E; [|rewrite app_nil_r; reflexivity].
          apply String.eqb_eq in E. assert (r0 = r) by (eapply NoDup_map_inj; eauto). subst r.
          rewrite T0 in Tr. discriminate.
      + assert (F : smem (sr_name r0) free = false).
        { apply smem_notin. unfold free, names_of. intro Hi. apply in_map_iff in Hi.
          destruct Hi as (r1 & E1 & Hr1). apply filter_In in Hr1. destruct Hr1 as [Hr1 T1].
          assert (r1 = r0) by (eapply NoDup_map_inj; eauto). subst r1. congruence. }
        rewrite F. cbn [rows_tbl r_a r_b r_eq r_ge r_le].
        assert (Hin : In r0 (nonN rows)) by (unfold nonN; apply filter_In; rewrite T0; auto).
        rewrite (lookup_mapkv sr_name (fun r => vec (sr_name r)) _ r0 Hin nonN_nodup).
        f_equal. unfold cstate.
        destruct (sr_name r0 =? objrow) eqn:E; [apply String.eqb_eq in E; congruence|].
        rewrite app_nil_r. f_equal. unfold rows_tbl. f_equal.
        rewrite (insert_mapkv sr_name (fun r => vec (sr_name r)) _ r0 _ Hin nonN_nodup).
        apply map_ext_in. intros r Hr. rewrite (String.eqb_sym (sr_name r0) (sr_name r)).
        destruct (sr_name r =? sr_name r0) eqn:E2; [|rewrite app_nil_r; reflexivity].
        apply String.eqb_eq in E2. rewrite E2. rewrite (insert_fresh _ _ _ Hcol). reflexivity.
  Qed.

  Lemma add_coefs_closed B cp pre col ps : forall ps1,
    ~ In col (map sc_name pre) -> NoDup (map fst (ps1 ++ ps)) ->
    (forall p, In p ps -> In (fst p) (objrow :: map sr_name rows)) ->
    add_coefs_q free col ps (cstate B cp (fun r => rvec pre r ++ sel col ps1 r))
    = Ok (cstate B cp (fun r => rvec pre r ++ sel col (ps1 ++ ps) r)).
  Proof.
    induction ps as [|[row q] ps IH]; intros ps1 Hc Hnd Hdecl; cbn [add_coefs_q].
    - rewrite app_nil_r. reflexivity.
    - rewrite add_coef_closed.
      + cbn [rbind].
        replace (ps1 ++ (row, q) :: ps) with ((ps1 ++ [(row, q)]) ++ ps) by (rewrite <- app_assoc; reflexivity).
        rewrite <- IH.
        * f_equal. apply cstate_ext; [|intros r _]; rewrite sel_app, app_assoc; unfold sel at 3;
            cbn [flat_map fst snd]; rewrite app_nil_r; reflexivity.
        * exact Hc.
        * rewrite <- app_assoc. exact Hnd.
        * intros p Hp. apply Hdecl. right. exact Hp.
      + apply (Hdecl (row, q)). left. reflexivity.
      + rewrite map_app, in_app_iff. intros [H|H].
        * apply Hc. eapply rvec_keys. exact H.
        * rewrite sel_notin in H; [destruct H|].
          rewrite map_app in Hnd. cbn [map fst] in Hnd. apply NoDup_remove_2 in Hnd.
          intro Hi. apply Hnd. apply in_or_app. left. exact Hi.
  Qed.

  Definition col_wf (c : scol) : Prop :=
    sc_coefs c <> [] /\ NoDup (map fst (sc_coefs c)) /\
    forall p, In p (sc_coefs c) -> In (fst p) (objrow :: map sr_name rows).

  Lemma cols_tbl_snoc pre c B vec : ~ In (sc_name c) (map sc_name pre) ->
    declare_col (sc_name c) (sc_int c) (cstate B pre vec) = cstate B (pre ++ [c]) vec.
  Proof.
    intro H. unfold declare_col, cstate, cols_tbl.
    cbn [m_cols m_name m_max m_obj m_c m_rows c_vars c_int c_bin c_real c_u c_l].
    rewrite (sadd_fresh _ _ H). rewrite !filter_app, !map_app. cbn [filter map].
    assert (Hi : ~ In (sc_name c) (map sc_name (filter sc_int pre))).
    { intro Hi. apply H. apply in_map_iff in Hi. destruct Hi as (y & E & Hy). apply filter_In in Hy.
      rewrite <- E. apply in_map. tauto. }
    assert (Hr : ~ In (sc_name c) (map sc_name (filter (fun c0 => negb (sc_int c0)) pre))).
    { intro Hj. apply H. apply in_map_iff in Hj. destruct Hj as (y & E & Hy). apply filter_In in Hy.
      rewrite <- E. apply in_map. tauto. }
    destruct (sc_int c); cbn [negb map]; rewrite ?app_nil_r, ?(sadd_fresh _ _ Hi), ?(sadd_fresh _ _ Hr);
      reflexivity.
  Qed.

  Lemma t_col_closed B pre c : ~ In (sc_name c) (map sc_name pre) -> col_wf c ->
    t_col free (cstate B pre (rvec pre)) c = Ok (cstate B (pre ++ [c]) (rvec (pre ++ [c]))).
  Proof.
    intros Hc (Hne & Hnd & Hdecl). unfold t_col.
    destruct (sc_coefs c) as [|p ps] eqn:E; [congruence|]. rewrite <- E in *.
    rewrite (cols_tbl_snoc _ _ _ _ Hc).
    rewrite (cstate_ext B (pre ++ [c]) (rvec pre) (fun r => rvec pre r ++ sel (sc_name c) [] r))
      by (intros; cbn [sel flat_map]; rewrite app_nil_r; reflexivity).
    rewrite (add_coefs_closed B (pre ++ [c]) pre (sc_name c) (sc_coefs c) [] Hc Hnd Hdecl).
    f_equal. apply cstate_ext; [|intros r _]; rewrite rvec_app; unfold rvec at 3; cbn [flat_map app];
      rewrite app_nil_r; reflexivity.
  Qed.

  Lemma t_cols_closed B cs : forall pre, NoDup (map sc_name (pre ++ cs)) -> Forall col_wf cs ->
    t_cols free cs (cstate B pre (rvec pre)) = Ok (cstate B (pre ++ cs) (rvec (pre ++ cs))).
  Proof.
    induction cs as [|c cs IH]; intros pre Hnd Hwf; cbn [t_cols].
    - rewrite app_nil_r. reflexivity.
    - inversion Hwf as [|? ? Hc Hcs]; subst. rewrite t_col_closed.
      + cbn [rbind].
        replace (pre ++ c :: cs) with ((pre ++ [c]) ++ cs) by (rewrite <- app_assoc; reflexivity).
        apply IH; [rewrite <- app_assoc; exact Hnd|exact Hcs].
      + rewrite map_app in Hnd. cbn [map] in Hnd. apply NoDup_remove_2 in Hnd.
        intro Hi. apply Hnd. apply in_or_app. left. exact Hi.
      + exact Hc.
  Qed.
End Cols.

(* ---- RHS ---- *)
Lemma fold_insert_fresh {V} (es : list (string * V)) : forall B,
  NoDup (map fst (B ++ es)) -> fold_left (fun b e => insert (fst e) (snd e) b) es B = B ++ es.
Proof.
  induction es as [|[k v] es IH]; intros B H; cbn [fold_left fst snd].
  - rewrite app_nil_r. reflexivity.
  - rewrite insert_fresh.
    + rewrite IH; rewrite <- app_assoc; [reflexivity|exact H].
    + rewrite map_app in H. cbn [map fst] in H. apply NoDup_remove_2 in H.
      intro Hi. apply H. apply in_or_app. left. exact Hi.
Qed.

Definition opt_rows (f : srow -> option num) (rows : list srow) : list (string * num) :=
  flat_map (fun r => match f r with Some b => [(sr_name r, b)] | None => [] end) rows.
Lemma opt_rows_keys f rows x : In x (map fst (opt_rows f rows)) -> In x (map sr_name rows).
Proof.
  induction rows as [|r rows IH]; [intros []|]. unfold opt_rows. cbn [flat_map map]. fold (opt_rows f rows).
  rewrite map_app, in_app_iff. intros [H|H]; [|right; apply IH; exact H].
  destruct (f r); cbn [map fst In] in H; [destruct H as [<-|[]]; left; reflexivity|destruct H].
Qed.
Lemma opt_rows_nodup f rows : NoDup (map sr_name rows) -> NoDup (map fst (opt_rows f rows)).
Proof.
  induction rows as [|r rows IH]; cbn [map]; intro H; [constructor|].
  inversion H as [|? ? Hn Hd]; subst. unfold opt_rows. cbn [flat_map]. fold (opt_rows f rows).
  destruct (f r); cbn [app map fst]; [|apply IH; exact Hd].
  constructor; [|apply IH; exact Hd]. intro Hi. apply Hn. eapply opt_rows_keys. exact Hi.
Qed.
Lemma opt_rows_lookup f rows r : NoDup (map sr_name rows) -> In r rows ->
  lookup (sr_name r) (opt_rows f rows) = f r.
Proof.
  induction rows as [|r0 rows IH]; cbn [map In]; [tauto|]. intros H Hin.
  inversion H as [|? ? Hn Hd]; subst. unfold opt_rows. cbn [flat_map]. fold (opt_rows f rows).
  destruct Hin as [->|Hin].
  - destruct (f r) eqn:E; cbn [app lookup]; [rewrite String.eqb_refl; reflexivity|].
    apply lookup_notin. intro Hi. apply Hn. eapply opt_rows_keys. exact Hi.
  - assert (Hne : (sr_name r =? sr_name r0) = false).
    { apply String.eqb_neq. intro E. apply Hn. rewrite <- E. apply in_map. exact Hin. }
    destruct (f r0); cbn [app lookup]; rewrite ?Hne; apply IH; assumption.
Qed.
Lemma opt_rows_in f rows e : In e (opt_rows f rows) -> exists r, In r rows /\ sr_name r = fst e /\ f r = Some (snd e).
Proof.
  unfold opt_rows. intro H. apply in_flat_map in H. destruct H as (r & Hr & He).
  exists r. destruct (f r); [destruct He as [<-|[]]; auto|destruct He].
Qed.
Lemma rhs_entries_eq M :
  rhs_entries M = (if qeqb (lp_objconst M) 0 then [] else [(lp_objrow M, - lp_objconst M)])
                  ++ opt_rows sr_rhs (lp_rows M).
Proof. reflexivity. Qed.
Lemma range_entries_eq M : range_entries M = opt_rows sr_range (lp_rows M).
Proof. reflexivity. Qed.

(* ---- RANGES ---- *)
Lemma smem_sadd k x l : smem x (sadd k l) = (k =? x) || smem x l.
Proof.
  destruct (k =? x) eqn:E.
  - apply String.eqb_eq in E. subst. apply smem_sadd_same.
  - apply String.eqb_neq in E. apply smem_sadd_other. exact E.
Qed.
Lemma smem_sdel k x l : smem x (sdel k l) = negb (k =? x) && smem x l.
Proof.
  destruct (k =? x) eqn:E.
  - apply String.eqb_eq in E. subst. apply smem_sdel_same.
  - apply String.eqb_neq in E. apply smem_sdel_other. exact E.
Qed.

Fixpoint underscores (n : nat) : string :=
  match n with O => "" | S n' => "_" +++ underscores n' end.
Lemma sapp_assoc a b c : (a +++ b) +++ c = a +++ b +++ c.
Proof. induction a as [|x a IH]; [reflexivity|]. rewrite !sapp_cons, IH. reflexivity. Qed.
Lemma sapp_length a b : String.length (a +++ b) = (String.length a + String.length b)%nat.
Proof. induction a as [|x a IH]; [reflexivity|]. rewrite sapp_cons. cbn [String.length]. rewrite IH. reflexivity. Qed.

Lemma has_key_in {V} k (a : list (string * V)) : has_key k a = true <-> In k (map fst a).
Proof.
  unfold has_key. split.
  - destruct (lookup k a) eqn:E; [intros _; eapply lookup_in_keys; exact E|discriminate].
  - intro H. destruct (lookup k a) eqn:E; [reflexivity|].
    exfalso. revert E. induction a as [|[k' v] a IH]; cbn [lookup map fst In] in *; [tauto|].
    destruct (k =? k') eqn:E2; [discriminate|]. apply IH. destruct H as [H|H]; [|exact H].
    subst. rewrite String.eqb_refl in E2. discriminate.
Qed.

Lemma fresh_form fuel a obj : forall cand,
  exists k, fresh_row_name fuel a obj cand = cand +++ underscores k.
Proof.
  induction fuel as [|f IH]; intro cand; cbn [fresh_row_name].
  - exists O. cbn [underscores]. rewrite sapp_nil_r. reflexivity.
  - destruct (has_key cand a || (cand =? obj)).
    + destruct (IH (cand +++ "_")) as [k E]. exists (S k). rewrite E. cbn [underscores].
      rewrite sapp_assoc. reflexivity.
    + exists O. cbn [underscores]. rewrite sapp_nil_r. reflexivity.
Qed.

Lemma filter_length_lt {X} (p q : X -> bool) l x :
  (forall y, q y = true -> p y = true) -> In x l -> p x = true -> q x = false ->
  (List.length (filter q l) < List.length (filter p l))%nat.
Proof.
  intros Hqp. induction l as [|y l IH]; cbn [In filter]; [tauto|]. intros Hin Hp Hq.
  assert (Hle : forall l', (List.length (filter q l') <= List.length (filter p l'))%nat).
  { induction l' as [|z l' IH']; cbn [filter List.length]; [lia|].
    destruct (q z) eqn:Ez; [rewrite (Hqp z Ez); cbn [List.length]; lia|].
    destruct (p z); cbn [List.length]; lia. }
  destruct Hin as [->|Hin].
  - rewrite Hp, Hq. cbn [List.length]. specialize (Hle l). lia.
  - specialize (IH Hin Hp Hq). destruct (q y) eqn:Ey; [rewrite (Hqp y Ey); cbn [List.length]; lia|].
    destruct (p y); cbn [List.length]; lia.
Qed.

(* the names the candidate must avoid: the objective row and the keys of the table *)
Definition avoid (a : list (string * list (string * num))) (obj : string) : list string :=
  obj :: map fst a.
Definition cnt (L : nat) (l : list string) : nat :=
  List.length (filter (fun k => Nat.leb L (String.length k)) l).

Lemma avoid_test a obj cand : has_key cand a || (cand =? obj) = true <-> In cand (avoid a obj).
Proof.
  unfold avoid. cbn [In]. rewrite orb_true_iff, has_key_in, String.eqb_eq.
  split; intros [H|H]; auto.
Qed.

Lemma fresh_not_key_aux a obj fuel : forall cand,
  (cnt (String.length cand) (avoid a obj) < fuel)%nat ->
  ~ In (fresh_row_name fuel a obj cand) (avoid a obj).
Proof.
  induction fuel as [|f IH]; intros cand H; [lia|]. cbn [fresh_row_name].
  destruct (has_key cand a || (cand =? obj)) eqn:E.
  - apply IH. rewrite sapp_length. cbn [String.length]. apply avoid_test in E.
    assert (L : (cnt (String.length cand + 1) (avoid a obj) < cnt (String.length cand) (avoid a obj))%nat).
    { unfold cnt. apply (filter_length_lt _ _ _ cand).
      - intros y Hy. apply Nat.leb_le in Hy. apply Nat.leb_le. lia.
      - exact E.
      - apply Nat.leb_le. lia.
      - apply Nat.leb_gt. lia. }
    lia.
  - intro Hi. apply avoid_test in Hi. congruence.
Qed.
(* with one more unit of fuel than there are names to avoid, the result avoids them all *)
Lemma fresh_not_key a obj cand :
  let new := fresh_row_name (S (S (List.length a))) a obj cand in
  ~ In new (map fst a) /\ new <> obj.
Proof.
  cbv zeta.
  assert (N : ~ In (fresh_row_name (S (S (List.length a))) a obj cand) (avoid a obj)).
  { apply fresh_not_key_aux. unfold cnt.
    assert (H : forall (p : string -> bool) l, (List.length (filter p l) <= List.length l)%nat).
    { intros p l. induction l as [|y l IH]; cbn [filter List.length]; [lia|].
      destruct (p y); cbn [List.length]; lia. }
    specialize (H (fun k => Nat.leb (String.length cand) (String.length k)) (avoid a obj)).
    unfold avoid in H at 2. cbn [List.length] in H. rewrite map_length in H. lia. }
  unfold avoid in N. cbn [In] in N. split; [tauto|]. intro E. apply N. left. symmetry. exact E.
Qed.

Definition tt (r : mrows) (x : string) : bool * bool * bool :=
  (smem x (r_eq r), smem x (r_ge r), smem x (r_le r)).
Definition rt_of (t : bool * bool * bool) : rty :=
  let '(a, b, c) := t in if a then RE else if b then RG else if c then RL else RN.
Definition ind (t : rty) : bool * bool * bool :=
  match t with
  | RE => (true, false, false) | RG => (false, true, false)
  | RL => (false, false, true) | RN => (false, false, false)
  end.
Lemma row_type_tt r x : row_type r x = rt_of (tt r x).
Proof. reflexivity. Qed.
Lemma rt_of_ind t : rt_of (ind t) = t.
Proof. destruct t; reflexivity. Qed.
Lemma triple_eq {X Y Z} (a a' : X) (b b' : Y) (c c' : Z) :
  (a, b, c) = (a', b', c') -> a = a' /\ b = b' /\ c = c'.
Proof. intro H. inversion H. auto. Qed.
Lemma convert_row_type_ind r x t : tt r x = ind t -> convert_row_type r x = t.
Proof.
  unfold tt, convert_row_type. intro H. destruct t; cbn [ind] in H; apply triple_eq in H;
    destruct H as (H1 & H2 & H3); rewrite ?H1, ?H2, ?H3; reflexivity.
Qed.

(* the invariant of the row tables: unique keys, every key in exactly one type set, and
   the type sets contain nothing else *)
Definition RI (r : mrows) : Prop :=
  keys_nodup (r_a r) /\ (forall x, tt r x = ind (row_type r x)) /\
  (forall x, In x (map fst (r_a r)) <-> row_type r x <> RN).

Lemma range_rule_types ty b rg ty1 ty2 b2 :
  range_rule ty b rg = Some (ty1, ty2, b2) -> ty1 <> RN /\ ty2 <> RN.
Proof.
  destruct ty; cbn [range_rule]; try discriminate; try destruct (qltb 0 rg);
    intro H; inversion H; subst; split; discriminate.
Qed.

Lemma range_step_tables m row rg entries :
  let r := m_rows m in
  RI r -> lookup row (r_a r) = Some entries -> rg <> 0 ->
  exists m' new ty1 ty2 b2,
    add_range m (row, rg) = Ok m' /\
    range_rule (row_type r row) (rhs_of (r_b r) row) rg = Some (ty1, ty2, b2) /\
    ~ In new (map fst (r_a r)) /\ new <> m_obj m /\
    (exists k, new = (row +++ "_") +++ underscores k) /\
    (m_name m' = m_name m /\ m_max m' = m_max m /\ m_obj m' = m_obj m /\ m_c m' = m_c m /\
     m_cols m' = m_cols m) /\
    r_a (m_rows m') = r_a r ++ [(new, entries)] /\
    (forall x, x <> new -> rhs_of (r_b (m_rows m')) x = rhs_of (r_b r) x) /\
    rhs_of (r_b (m_rows m')) new = b2 /\
    (forall x, tt (m_rows m') x = if new =? x then ind ty2 else if row =? x then ind ty1 else tt r x).
Proof.
  intros r (Hnd & Htt & Hkeys) Hl Hrg.
  unfold add_range. fold r. apply qeqb_neq in Hrg. rewrite Hrg, Hl.
  set (new := fresh_row_name (S (S (List.length (r_a r)))) (r_a r) (m_obj m) (row +++ "_")).
  destruct (fresh_not_key (r_a r) (m_obj m) (row +++ "_")) as [Hfresh Hnobj]. fold new in Hfresh, Hnobj.
  assert (Hform : exists k, new = (row +++ "_") +++ underscores k) by apply fresh_form.
  assert (Hrowkey : In row (map fst (r_a r))) by (eapply lookup_in_keys; exact Hl).
  assert (Hrn : (row =? new) = false).
  { apply String.eqb_neq. intro E. apply Hfresh. rewrite <- E. exact Hrowkey. }
  assert (Hnewty : row_type r new = RN).
  { destruct (row_type r new) eqn:E; [reflexivity| | |]; exfalso; apply Hfresh; apply Hkeys; congruence. }
  pose proof (Htt new) as Tnew. rewrite Hnewty in Tnew. unfold tt in Tnew. cbn [ind] in Tnew.
  apply triple_eq in Tnew. destruct Tnew as (Tn1 & Tn2 & Tn3).
  pose proof (Htt row) as Trow. unfold tt in Trow.
  assert (Hty : row_type r row <> RN) by (apply Hkeys; exact Hrowkey).
  rewrite (insert_fresh _ _ _ Hfresh).
  assert (RH : forall b2 x, x <> new -> rhs_of (insert new b2 (r_b r)) x = rhs_of (r_b r) x).
  { intros b2 x Hx. unfold rhs_of. rewrite lookup_insert_other by congruence. reflexivity. }
  assert (RN' : forall b2, rhs_of (insert new b2 (r_b r)) new = b2).
  { intro b2. unfold rhs_of. rewrite lookup_insert_same. reflexivity. }
  destruct (row_type r row) eqn:T; [congruence| | |]; cbn [range_rule ind] in *;
    apply triple_eq in Trow; destruct Trow as (Tr1 & Tr2 & Tr3).
  - destruct (qltb 0 rg).
    + eexists _, new, RG, RL, _. repeat (split; [reflexivity || assumption|]).
      cbn [m_rows set_type r_a r_b r_eq r_ge r_le]. repeat split; try reflexivity; auto.
      intro x. unfold tt. cbn [set_type r_eq r_ge r_le]. rewrite !smem_sadd, smem_sdel.
      destruct (new =? x) eqn:En.
      * apply String.eqb_eq in En. subst x. rewrite Hrn, Tn1, Tn2, Tn3. reflexivity.
      * destruct (row =? x) eqn:Er; [apply String.eqb_eq in Er; subst x; rewrite Tr1, Tr2, Tr3|]; reflexivity.
    + eexists _, new, RL, RG, _. repeat (split; [reflexivity || assumption|]).
      cbn [m_rows set_type r_a r_b r_eq r_ge r_le]. repeat split; try reflexivity; auto.
      intro x. unfold tt. cbn [set_type r_eq r_ge r_le]. rewrite !smem_sadd, smem_sdel.
      destruct (new =? x) eqn:En.
      * apply String.eqb_eq in En. subst x. rewrite Hrn, Tn1, Tn2, Tn3. reflexivity.
      * destruct (row =? x) eqn:Er; [apply String.eqb_eq in Er; subst x; rewrite Tr1, Tr2, Tr3|]; reflexivity.
  - eexists _, new, RL, RG, _. repeat (split; [reflexivity || assumption|]).
    cbn [m_rows set_type r_a r_b r_eq r_ge r_le]. repeat split; try reflexivity; auto.
    intro x. unfold tt. cbn [set_type r_eq r_ge r_le]. rewrite !smem_sadd.
    destruct (new =? x) eqn:En.
    * apply String.eqb_eq in En. subst x. rewrite Tn1, Tn2, Tn3. reflexivity.
    * destruct (row =? x) eqn:Er; [apply String.eqb_eq in Er; subst x; rewrite Tr1, Tr2, Tr3|]; reflexivity.
  - eexists _, new, RG, RL, _. repeat (split; [reflexivity || assumption|]).
    cbn [m_rows set_type r_a r_b r_eq r_ge r_le]. repeat split; try reflexivity; auto.
    intro x. unfold tt. cbn [set_type r_eq r_ge r_le]. rewrite !smem_sadd.
    destruct (new =? x) eqn:En.
    * apply String.eqb_eq in En. subst x. rewrite Tn1, Tn2, Tn3. reflexivity.
    * destruct (row =? x) eqn:Er; [apply String.eqb_eq in Er; subst x; rewrite Tr1, Tr2, Tr3|]; reflexivity.
Qed.

(* the row tables as a list of (name, entries, type, right-hand side), in the order of r_a *)
Definition vrow : Type := string * list (string * num) * rty * num.
Definition vname (v : vrow) : string := fst (fst (fst v)).
Definition ventries (v : vrow) : list (string * num) := snd (fst (fst v)).
Definition vty (v : vrow) : rty := snd (fst v).
Definition vrhs (v : vrow) : num := snd v.
Definition rview (r : mrows) : list vrow :=
  map (fun ne => (fst ne, snd ne, row_type r (fst ne), rhs_of (r_b r) (fst ne))) (r_a r).
Lemma rview_names r : map vname (rview r) = map fst (r_a r).
Proof. unfold rview. rewrite map_map. reflexivity. Qed.

Definition rule1 (ty : rty) (b rg : num) : rty :=
  match range_rule ty b rg with Some (t1, _, _) => t1 | None => ty end.
Definition rule2 (ty : rty) (b rg : num) : rty * num :=
  match range_rule ty b rg with Some (_, t2, b2) => (t2, b2) | None => (ty, b) end.

(* the effect of the RANGES entries [es] on an existing row *)
Definition upd_all (es : list (string * num)) (v : vrow) : vrow :=
  match lookup (vname v) es with
  | Some rg => (vname v, ventries v, rule1 (vty v) (vrhs v) rg, vrhs v)
  | None => v
  end.
(* the generated row of the entry e, which ranges the row v *)
Definition gen_of (e : string * num) (v nv : vrow) : Prop :=
  vname v = fst e /\ ventries nv = ventries v /\ (vty nv, vrhs nv) = rule2 (vty v) (vrhs v) (snd e) /\
  exists k, vname nv = (fst e +++ "_") +++ underscores k.

Lemma rview_lookup r row entries : lookup row (r_a r) = Some entries ->
  In (row, entries, row_type r row, rhs_of (r_b r) row) (rview r).
Proof.
  unfold rview. generalize (fun x => row_type r x) as f. generalize (fun x => rhs_of (r_b r) x) as g.
  intros g f. induction (r_a r) as [|[k v] a IH]; cbn [lookup map fst snd In]; [discriminate|].
  destruct (row =? k) eqn:E; [|intro H; right; apply IH; exact H].
  apply String.eqb_eq in E. subst k. intro H. inversion H; subst. left. reflexivity.
Qed.

Lemma Forall2_impl_in {X Y} (P Q : X -> Y -> Prop) l l' :
  (forall a b, In a l -> In b l' -> P a b -> Q a b) -> Forall2 P l l' -> Forall2 Q l l'.
Proof.
  intros H F. induction F as [|a b l l' Hab F IH]; constructor.
  - apply H; [left; reflexivity|left; reflexivity|exact Hab].
  - apply IH. intros a' b' Ha Hb. apply H; right; assumption.
Qed.

Lemma ranges_view es : forall m,
  RI (m_rows m) -> NoDup (map fst es) ->
  (forall e, In e es -> In (fst e) (map fst (r_a (m_rows m))) /\ snd e <> 0) ->
  exists m' news,
    add_ranges es m = Ok m' /\ RI (m_rows m') /\
    (m_name m' = m_name m /\ m_max m' = m_max m /\ m_obj m' = m_obj m /\ m_c m' = m_c m /\
     m_cols m' = m_cols m) /\
    rview (m_rows m') = map (upd_all es) (rview (m_rows m)) ++ news /\
    Forall2 (fun e nv => exists v, In v (rview (m_rows m)) /\ gen_of e v nv) es news /\
    Forall (fun nv => vname nv <> m_obj m) news /\
    (forall x, ~ In x (map vname news) -> rhs_of (r_b (m_rows m')) x = rhs_of (r_b (m_rows m)) x).
Proof.
  induction es as [|[row rg] es IH]; intros m HRI Hnd Hes.
  - exists m, []. cbn [add_ranges]. split; [reflexivity|]. split; [exact HRI|].
    split; [repeat split; reflexivity|]. split; [|split; [constructor|split; [constructor|reflexivity]]].
    rewrite app_nil_r. rewrite <- (map_id (rview (m_rows m))) at 1. apply map_ext. intro v. reflexivity.
  - cbn [add_ranges].
    destruct (Hes (row, rg) (or_introl eq_refl)) as [Hk Hrg]. cbn [fst snd] in Hk, Hrg.
    assert (Hl : exists entries, lookup row (r_a (m_rows m)) = Some entries).
    { destruct (lookup row (r_a (m_rows m))) eqn:E; [eexists; reflexivity|].
      exfalso. apply has_key_in in Hk. unfold has_key in Hk. rewrite E in Hk. discriminate. }
    destruct Hl as [entries Hl].
    destruct (range_step_tables m row rg entries HRI Hl Hrg)
      as (m1 & new & ty1 & ty2 & b2 & Ha & Hrule & Hfresh & Hnobj & Hform & Hframe & Hra & Hrhs & Hrhsn & Htt1).
    rewrite Ha. cbn [rbind].
    destruct HRI as (Hnd0 & Htt0 & Hkeys0).
    destruct (range_rule_types _ _ _ _ _ _ Hrule) as [Hty1 Hty2].
    (* the type of every name after the step *)
    assert (RT : forall x, row_type (m_rows m1) x =
                           if new =? x then ty2 else if row =? x then ty1 else row_type (m_rows m) x).
    { intro x. rewrite row_type_tt, Htt1. destruct (new =? x); [apply rt_of_ind|].
      destruct (row =? x); [apply rt_of_ind|]. reflexivity. }
    assert (HRI1 : RI (m_rows m1)).
    { split; [|split].
      - rewrite Hra. rewrite <- (insert_fresh _ _ _ Hfresh). apply insert_nodup. exact Hnd0.
      - intro x. rewrite Htt1, RT. destruct (new =? x); [reflexivity|]. destruct (row =? x); [reflexivity|].
        apply Htt0.
      - intro x. rewrite Hra, RT, map_app, in_app_iff. cbn [map fst In].
        destruct (new =? x) eqn:En.
        + apply String.eqb_eq in En. subst x. split; [intros _; exact Hty2|intros _; right; left; reflexivity].
        + apply String.eqb_neq in En. destruct (row =? x) eqn:Er.
          * apply String.eqb_eq in Er. subst x. split; [intros _; exact Hty1|intros _; left; exact Hk].
          * rewrite <- Hkeys0. split; [intros [H|[H|[]]]; [exact H|congruence]|intro H; left; exact H]. }
    assert (Hview1 : rview (m_rows m1)
                     = map (upd_all [(row, rg)]) (rview (m_rows m)) ++ [(new, entries, ty2, b2)]).
    { unfold rview at 1. rewrite Hra, map_app. cbn [map fst snd].
      rewrite RT, String.eqb_refl, Hrhsn. apply (f_equal2 (@app vrow)); [|reflexivity].
      unfold rview. rewrite map_map. apply map_ext_in. intros [k v] Hin. cbn [fst snd].
      assert (Hkn : k <> new).
      { intro E. apply Hfresh. rewrite <- E. apply in_map_iff. exists (k, v). auto. }
      rewrite RT, (Hrhs k Hkn).
      assert (En : (new =? k) = false) by (apply String.eqb_neq; congruence). rewrite En.
      unfold upd_all. cbn [vname vty vrhs ventries fst snd lookup]. rewrite (String.eqb_sym k row).
      destruct (row =? k) eqn:Er; [|reflexivity].
      apply String.eqb_eq in Er. subst k. unfold rule1. rewrite Hrule. reflexivity. }
    (* the remaining entries *)
    cbn [map fst] in Hnd. apply NoDup_cons_iff in Hnd. destruct Hnd as [Hnrow Hnd'].
    assert (Hes' : forall e, In e es -> In (fst e) (map fst (r_a (m_rows m1))) /\ snd e <> 0).
    { intros e He. destruct (Hes e (or_intror He)) as [H1 H2]. split; [|exact H2].
      rewrite Hra, map_app. apply in_or_app. left. exact H1. }
    destruct (IH m1 HRI1 Hnd' Hes') as (m' & news & Hadd & HRI' & Hframe' & Hview' & Hgen' & Hno' & Hrhs').
    exists m', ((new, entries, ty2, b2) :: news).
    destruct Hframe as (F1 & F2 & F3 & F4 & F5). destruct Hframe' as (G1 & G2 & G3 & G4 & G5).
    assert (Hnew_es : lookup new es = None).
    { apply lookup_notin. intro Hi. apply in_map_iff in Hi. destruct Hi as (e & E & He).
      apply Hfresh. rewrite <- E. apply (Hes e (or_intror He)). }
    split; [exact Hadd|]. split; [exact HRI'|].
    split; [repeat split; congruence|].
    split; [|split; [|split]].
    + rewrite Hview', Hview1, map_app, map_map. cbn [map]. rewrite <- app_assoc. cbn [app].
      f_equal; [|f_equal].
      * apply map_ext. intro v. unfold upd_all at 2 3. cbn [lookup].
        destruct (vname v =? row) eqn:E.
        -- apply String.eqb_eq in E. unfold upd_all. cbn [vname fst snd]. rewrite E.
           rewrite (lookup_notin row es Hnrow). reflexivity.
        -- reflexivity.
      * unfold upd_all. cbn [vname fst snd]. rewrite Hnew_es. reflexivity.
    + constructor.
      * exists (row, entries, row_type (m_rows m) row, rhs_of (r_b (m_rows m)) row).
        split; [apply rview_lookup; exact Hl|].
        unfold gen_of, rule2. cbn [vname ventries vty vrhs fst snd]. rewrite Hrule. auto.
      * eapply Forall2_impl_in; [|exact Hgen'].
        intros e nv He _ (v1 & Hv1 & Hg). rewrite Hview1 in Hv1. apply in_app_or in Hv1.
        destruct Hg as (Gn & Ge & Gr & Gk).
        destruct Hv1 as [Hv1|[Hv1|[]]].
        -- apply in_map_iff in Hv1. destruct Hv1 as (v & Ev & Hv).
           assert (Hvn : vname v1 = vname v).
           { rewrite <- Ev. unfold upd_all. destruct (lookup (vname v) [(row, rg)]); reflexivity. }
           assert (Hne : (vname v =? row) = false).
           { apply String.eqb_neq. intro E. apply Hnrow. rewrite <- E, <- Hvn, Gn.
             apply in_map. exact He. }
           assert (Ev' : v1 = v).
           { rewrite <- Ev. unfold upd_all. cbn [lookup]. rewrite Hne. reflexivity. }
           rewrite Ev' in Gn, Ge, Gr. exists v. split; [exact Hv|]. unfold gen_of. tauto.
        -- exfalso. apply Hfresh. subst v1. cbn [vname fst] in Gn. rewrite Gn.
           apply (Hes e (or_intror He)).
    + constructor; [exact Hnobj|]. rewrite <- F3. exact Hno'.
    + intros x Hx. cbn [map vname fst In] in Hx. rewrite Hrhs'; [apply Hrhs|]; intro; apply Hx; auto.
Qed.

(* ---- the tables of a structurally well-formed model ---- *)
Lemma rty_eqb_eq a b : rty_eqb a b = true <-> a = b.
Proof. destruct a, b; cbn [rty_eqb]; split; intro H; try reflexivity; try discriminate. Qed.
Lemma names_of_in t rows x :
  In x (names_of t rows) <-> exists r, In r rows /\ sr_name r = x /\ sr_ty r = t.
Proof.
  unfold names_of. rewrite in_map_iff. split.
  - intros (r & E & Hr). apply filter_In in Hr. destruct Hr as [Hr T]. apply rty_eqb_eq in T. eauto.
  - intros (r & Hr & E & T). exists r. split; [exact E|]. apply filter_In. split; [exact Hr|].
    apply rty_eqb_eq. exact T.
Qed.
Lemma nonN_in rows r : In r (nonN rows) <-> In r rows /\ sr_ty r <> RN.
Proof.
  unfold nonN. rewrite filter_In. split; intros [H1 H2]; split; auto.
  - intro E. rewrite E in H2. discriminate.
  - destruct (sr_ty r); try reflexivity. congruence.
Qed.

Definition rhs0 (r : srow) : num := match sr_rhs r with Some b => b | None => 0 end.

Section Tables.
  Variable M : lp_model.
  Let rows := lp_rows M.
  Let cols := lp_cols M.
  Let objrow := lp_objrow M.
  Hypothesis Hobj : sempty objrow = false.
  Hypothesis Hrows : NoDup (objrow :: map sr_name rows).
  Hypothesis Hcols : NoDup (map sc_name cols).
  Hypothesis Hcoefs : Forall (col_wf M) cols.
  Hypothesis Hrng : forall r rg, In r rows -> sr_range r = Some rg -> sr_ty r <> RN /\ rg <> 0.

  Let Hnd : NoDup (map sr_name rows).
  Proof. inversion Hrows; assumption. Qed.

  Definition m3 : mps := cstate M (rhs_entries M) cols (rvec cols).

  Lemma add_rhs_cstate B cp vec es :
    fold_left add_rhs es (cstate M B cp vec)
    = cstate M (fold_left (fun b e => insert (fst e) (snd e) b) es B) cp vec.
  Proof. revert B. induction es as [|e es IH]; intro B; cbn [fold_left]; [reflexivity|]. apply IH. Qed.

  Lemma rhs_entries_nodup : NoDup (map fst (rhs_entries M)).
  Proof.
    rewrite rhs_entries_eq. destruct (qeqb (lp_objconst M) 0); cbn [app map fst].
    - apply opt_rows_nodup. exact Hnd.
    - constructor; [|apply opt_rows_nodup; exact Hnd].
      intro Hi. apply opt_rows_keys in Hi. inversion Hrows; subst. contradiction.
  Qed.

  Lemma before_ranges :
    let mf := rows_fold rows (add_row RN objrow [] (m_init M)) in
    t_cols (snd mf) cols (fst mf) = Ok (cstate M [] cols (rvec cols)) /\
    fold_left add_rhs (rhs_entries M) (cstate M [] cols (rvec cols)) = m3.
  Proof.
    cbv zeta. unfold objrow. rewrite (rows_state_nil M).
    rewrite (rows_fold_state M Hobj rows []) by exact Hrows. cbn [app].
    split.
    - change (snd (rows_state M rows)) with (names_of RN (lp_rows M)).
      unfold rows. rewrite (rows_state_cstate M).
      apply (t_cols_closed M Hrows [] cols []); [exact Hcols|exact Hcoefs].
    - rewrite add_rhs_cstate. unfold m3. f_equal. apply (fold_insert_fresh (rhs_entries M) []).
      exact rhs_entries_nodup.
  Qed.

  (* the row tables before RANGES *)
  Definition view0 (r : srow) : vrow := (sr_name r, rvec cols (sr_name r), sr_ty r, rhs0 r).

  Lemma names_of_unique t t' x : In x (names_of t rows) -> In x (names_of t' rows) -> t = t'.
  Proof.
    rewrite !names_of_in. intros (r & Hr & E & T) (r' & Hr' & E' & T').
    assert (r = r') by (eapply NoDup_map_inj; eauto; congruence). subst. reflexivity.
  Qed.

  Lemma RI_m3 : RI (m_rows m3).
  Proof.
    unfold m3, cstate, rows_tbl. cbn [m_rows]. split; [|split].
    - unfold keys_nodup. cbn [r_a]. rewrite map_map. cbn [fst]. apply nonN_nodup. exact Hrows.
    - intro x. rewrite row_type_tt. unfold tt. cbn [r_eq r_ge r_le]. fold rows.
      destruct (smem x (names_of RE rows)) eqn:E1, (smem x (names_of RG rows)) eqn:E2,
               (smem x (names_of RL rows)) eqn:E3; try reflexivity; exfalso;
        rewrite ?smem_In in *.
      + pose proof (names_of_unique _ _ _ E1 E2). discriminate.
      + pose proof (names_of_unique _ _ _ E1 E2). discriminate.
      + pose proof (names_of_unique _ _ _ E1 E3). discriminate.
      + pose proof (names_of_unique _ _ _ E2 E3). discriminate.
    - intro x. cbn [r_a]. rewrite map_map. cbn [fst]. rewrite row_type_tt. unfold tt. cbn [r_eq r_ge r_le].
      fold rows. split.
      + intro H. apply in_map_iff in H. destruct H as (r & E & Hr). apply nonN_in in Hr. destruct Hr as [Hr T].
        assert (Hin : In x (names_of (sr_ty r) rows)) by (apply names_of_in; eauto).
        apply smem_In in Hin. destruct (sr_ty r) eqn:Ty; [congruence| | |]; unfold rt_of.
        * rewrite Hin. discriminate.
        * destruct (smem x (names_of RE rows)); [discriminate|].
          destruct (smem x (names_of RG rows)); [discriminate|]. rewrite Hin. discriminate.
        * destruct (smem x (names_of RE rows)); [discriminate|]. rewrite Hin. discriminate.
      + intro H. unfold rt_of in H.
        assert (Hex : exists t, t <> RN /\ In x (names_of t rows)).
        { destruct (smem x (names_of RE rows)) eqn:E1; [exists RE; split; [discriminate|apply smem_In; exact E1]|].
          destruct (smem x (names_of RG rows)) eqn:E2; [exists RG; split; [discriminate|apply smem_In; exact E2]|].
          destruct (smem x (names_of RL rows)) eqn:E3; [exists RL; split; [discriminate|apply smem_In; exact E3]|].
          congruence. }
        destruct Hex as (t & Ht & Hin). apply names_of_in in Hin. destruct Hin as (r & Hr & E & T).
        apply in_map_iff. exists r. split; [exact E|]. apply nonN_in. split; [exact Hr|congruence].
  Qed.

  Lemma row_type_m3 r : In r (nonN rows) -> row_type (m_rows m3) (sr_name r) = sr_ty r.
  Proof.
    intro Hr. apply nonN_in in Hr. destruct Hr as [Hr T].
    destruct RI_m3 as (_ & Htt & _). specialize (Htt (sr_name r)).
    assert (Hin : smem (sr_name r) (names_of (sr_ty r) rows) = true).
    { apply smem_In. apply names_of_in. eauto. }
    assert (L : tt (m_rows m3) (sr_name r)
                = (smem (sr_name r) (names_of RE rows), smem (sr_name r) (names_of RG rows),
                   smem (sr_name r) (names_of RL rows))) by reflexivity.
    rewrite L in Htt. clear L.
    destruct (sr_ty r) eqn:Ty; [congruence| | |]; rewrite Hin in Htt;
      destruct (row_type (m_rows m3) (sr_name r)); cbn [ind] in Htt; apply triple_eq in Htt;
      destruct Htt as (H1 & H2 & H3); try reflexivity; discriminate.
  Qed.

  Lemma rhs_of_rows r : In r rows -> rhs_of (rhs_entries M) (sr_name r) = rhs0 r.
  Proof.
    intro Hr. unfold rhs_of, rhs0. rewrite rhs_entries_eq.
    assert (Hne : (sr_name r =? objrow) = false).
    { apply String.eqb_neq. apply (objrow_not_row M Hrows). exact Hr. }
    destruct (qeqb (lp_objconst M) 0); cbn [app lookup]; fold objrow; rewrite ?Hne;
      rewrite (opt_rows_lookup sr_rhs (lp_rows M) r Hnd Hr); reflexivity.
  Qed.
  Lemma rhs_of_obj : - rhs_of (rhs_entries M) objrow = lp_objconst M.
  Proof.
    unfold rhs_of. rewrite rhs_entries_eq. destruct (qeqb (lp_objconst M) 0) eqn:E; cbn [app lookup].
    - rewrite lookup_notin.
      + apply qeqb_eq in E. rewrite E. ring.
      + intro Hi. apply opt_rows_keys in Hi. inversion Hrows; subst. contradiction.
    - fold objrow. rewrite String.eqb_refl. ring.
  Qed.

  Lemma rview_m3 : rview (m_rows m3) = map view0 (nonN rows).
  Proof.
    unfold rview. unfold m3 at 3. unfold cstate, rows_tbl. cbn [m_rows r_a]. rewrite map_map. cbn [fst snd].
    apply map_ext_in. intros r Hr. unfold view0. rewrite (row_type_m3 r Hr).
    f_equal. unfold m3, cstate, rows_tbl. cbn [m_rows r_b]. apply rhs_of_rows. apply nonN_in in Hr. tauto.
  Qed.

  Definition orig_view (r : srow) : vrow :=
    match sr_range r with
    | Some rg => (sr_name r, rvec cols (sr_name r), rule1 (sr_ty r) (rhs0 r) rg, rhs0 r)
    | None => view0 r
    end.

  Theorem tables_closed :
    exists m4 news,
      typed_tables M = Ok (set_cols m4 (fold_left apply_bound (lp_bounds M) (cols_tbl cols))) /\
      (m_name m4 = trim (lp_name M) /\
       m_max m4 = match lp_sense M with Some b => b | None => false end /\
       m_obj m4 = objrow /\ m_c m4 = rvec cols objrow /\ m_cols m4 = cols_tbl cols) /\
      RI (m_rows m4) /\
      rview (m_rows m4) = map orig_view (nonN rows) ++ news /\
      Forall2 (fun e nv => exists r, In r (nonN rows) /\ gen_of e (view0 r) nv) (range_entries M) news /\
      Forall (fun nv => vname nv <> objrow) news /\
      (forall x, ~ In x (map vname news) -> rhs_of (r_b (m_rows m4)) x = rhs_of (rhs_entries M) x).
  Proof.
    destruct before_ranges as [Hc Hr].
    assert (Hes : forall e, In e (range_entries M) ->
                            In (fst e) (map fst (r_a (m_rows m3))) /\ snd e <> 0).
    { intros e He. rewrite range_entries_eq in He. apply opt_rows_in in He.
      destruct He as (r & Hr0 & En & Er). destruct (Hrng r _ Hr0 Er) as [T Z]. split; [|exact Z].
      rewrite <- rview_names, rview_m3, map_map. cbn [vname view0 fst]. rewrite <- En.
      apply (in_map sr_name). apply nonN_in. auto. }
    destruct (ranges_view (range_entries M) m3 RI_m3
                (opt_rows_nodup sr_range rows Hnd) Hes)
      as (m4 & news & Hadd & HRI & Hframe & Hview & Hgen & Hno & Hrhs).
    exists m4, news. unfold typed_tables. fold rows cols objrow. cbv zeta. rewrite Hc. cbn [rbind].
    rewrite Hr, Hadd. cbn [rbind].
    destruct Hframe as (F1 & F2 & F3 & F4 & F5).
    split; [rewrite F5; reflexivity|].
    split; [rewrite F1, F2, F3, F4, F5; repeat split; reflexivity|].
    split; [exact HRI|]. split; [|split; [|split; [exact Hno|]]].
    - rewrite Hview, rview_m3, map_map. f_equal. apply map_ext_in. intros r Hr0.
      unfold upd_all, orig_view. cbn [vname view0 fst]. rewrite range_entries_eq.
      rewrite (opt_rows_lookup sr_range (lp_rows M) r Hnd) by (apply nonN_in in Hr0; tauto).
      destruct (sr_range r); reflexivity.
    - eapply Forall2_impl_in; [|exact Hgen]. intros e nv _ _ (v & Hv & Hg).
      rewrite rview_m3 in Hv. apply in_map_iff in Hv. destruct Hv as (r & <- & Hr0). eauto.
    - intros x Hx. rewrite (Hrhs x Hx). reflexivity.
  Qed.
End Tables.

(* ================================================================== *)
(* 9. the comparator of RunC17: a sufficient condition for [match_spec = None] *)
From Coq Require Import Permutation.

Definition body : Type := (bool * list (string * num) * num)%type.
Definition vlabel (v : string * bool * list (string * num) * num) : string := fst (fst (fst v)).
Definition vbody (v : string * bool * list (string * num) * num) : body :=
  (snd (fst (fst v)), snd (fst v), snd v).
Definition abody (a : acons) : body := (ac_eq a, ac_terms a, ac_const a).
Definition id_table (I : inst) : list (N * string) := map (fun v => (dv_id v, var_label v)) (in_dvars I).

(* "I is the abstract instance S, by names" *)
Record represents (I : inst) (S : ainst) : Prop := {
  rp_sense : in_sense I = if ai_max S then 2%N else 1%N;
  rp_ids : NoDup (map dv_id (in_dvars I));
  rp_vars : Forall2 (fun v a => var_label v = av_name a /\ dv_kind v = kind_code (av_kind a) /\
                                dv_bound v = Some (av_lo a, av_up a)) (in_dvars I) (ai_vars S);
  rp_names : NoDup (map av_name (ai_vars S));
  rp_nonan : Forall (fun a => is_nan (av_lo a) = false /\ is_nan (av_up a) = false) (ai_vars S);
  rp_obj : exists ts, lin_of (in_obj I) = Some (ts, ai_objconst S) /\
                      name_terms (id_table I) ts = Some (ai_obj S);
  rp_cons : exists vs, omap' (view_cons (id_table I)) (in_cons I) = Some vs /\
      Permutation (map vbody vs) (map abody (ai_cons S)) /\
      (forall a, In a (ai_cons S) ->
         exists v, List.find (fun v => vlabel v =? ac_row a) vs = Some v /\
           exists a', In a' (ai_cons S) /\ ac_row a' = ac_row a /\ vbody v = abody a');
  rp_cids : NoDup (map cn_id (in_cons I));
  rp_clabels : NoDup (map cons_label (in_cons I));
  rp_name : in_name I = if sempty (ai_name S) then None else Some (ai_name S)
}.

Lemma nodupb_true l : NoDup l -> nodupb l = true.
Proof.
  induction 1 as [|x l Hn Hd IH]; cbn [nodupb]; [reflexivity|]. rewrite IH, andb_true_r.
  apply negb_true_iff. apply not_true_is_false. intro T. apply Hn. apply mem_In. exact T.
Qed.
Lemma snodupb_true l : NoDup l -> snodupb l = true.
Proof.
  induction 1 as [|x l Hn Hd IH]; cbn [snodupb]; [reflexivity|]. rewrite IH, andb_true_r.
  apply negb_true_iff. apply smem_notin. exact Hn.
Qed.
Lemma Forall2_length {X Y} (P : X -> Y -> Prop) l l' : Forall2 P l l' -> List.length l = List.length l'.
Proof. induction 1; cbn [List.length]; congruence. Qed.
Lemma Forall2_in_r {X Y} (P : X -> Y -> Prop) l l' b :
  Forall2 P l l' -> In b l' -> exists a, In a l /\ P a b.
Proof.
  induction 1 as [|x y l l' Hxy F IH]; cbn [In]; [tauto|].
  intros [<-|H]; [exists x; auto|]. destruct (IH H) as (a & Ha & Pa). exists a; auto.
Qed.
Lemma Forall2_map_eq {X Y Z} (P : X -> Y -> Prop) (f : X -> Z) (g : Y -> Z) l l' :
  (forall a b, P a b -> f a = g b) -> Forall2 P l l' -> map f l = map g l'.
Proof. intros H. induction 1; cbn [map]; [reflexivity|]. f_equal; auto. Qed.

Lemma find_by_key {X} (k : X -> string) l x s :
  NoDup (map k l) -> In x l -> k x = s -> List.find (fun y => k y =? s) l = Some x.
Proof.
  induction l as [|y l IH]; cbn [map In List.find]; [tauto|]. intros Hnd Hin E.
  inversion Hnd as [|? ? Hn Hd]; subst.
  destruct Hin as [->|Hin]; [rewrite String.eqb_refl; reflexivity|].
  destruct (k y =? k x) eqn:E2; [|apply IH; auto].
  apply String.eqb_eq in E2. exfalso. apply Hn. rewrite E2. apply in_map. exact Hin.
Qed.

Lemma eeqb_refl x : is_nan x = false -> eeqb x x = true.
Proof. destruct x; cbn [is_nan eeqb]; try reflexivity; try discriminate. intros _. apply qeqb_eq. reflexivity. Qed.

(* ---- equality of named linear forms is reflexive ---- *)
Fixpoint sumk (k : string) (l : list (string * num)) : num :=
  match l with [] => 0 | (k', c) :: l' => (if k' =? k then c else 0) + sumk k l' end.

Lemma find_upd_same k v m : Poly.find String.eqb k (upd String.eqb k v m) = Some v.
Proof.
  induction m as [|[k' c] m IH]; cbn [upd Poly.find]; [rewrite String.eqb_refl; reflexivity|].
  destruct (k =? k') eqn:E; cbn [Poly.find]; rewrite ?String.eqb_refl, ?E; auto.
Qed.
Lemma find_upd_other k k0 v m : k <> k0 ->
  Poly.find String.eqb k0 (upd String.eqb k v m) = Poly.find String.eqb k0 m.
Proof.
  intro N. induction m as [|[k' c] m IH]; cbn [upd Poly.find].
  - destruct (k0 =? k) eqn:E; [apply String.eqb_eq in E; congruence|reflexivity].
  - destruct (k =? k') eqn:E; cbn [Poly.find].
    + apply String.eqb_eq in E. subst k'.
      destruct (k0 =? k) eqn:E2; [apply String.eqb_eq in E2; congruence|reflexivity].
    + destruct (k0 =? k'); auto.
Qed.

Lemma getd_merge_from k l : forall m,
  getd String.eqb k (merge_from String.eqb never m l) = getd String.eqb k m + sumk k l.
Proof.
  induction l as [|[k' c] l IH]; intro m.
  - rewrite merge_from_nil. cbn [sumk]. ring.
  - rewrite merge_from_cons, IH. unfold mstep, never. cbn [fst snd sumk].
    unfold getd at 1. destruct (k' =? k) eqn:E.
    + apply String.eqb_eq in E. subst k'. rewrite find_upd_same. ring.
    + apply String.eqb_neq in E. rewrite (find_upd_other _ _ _ _ E). unfold getd. ring.
Qed.
Lemma sumk_app k a b : sumk k (a ++ b) = sumk k a + sumk k b.
Proof. induction a as [|[k' c] a IH]; cbn [app sumk]; [ring|]. rewrite IH. ring. Qed.
Lemma sumk_neg k b : sumk k (map (fun kc => (fst kc, - snd kc)) b) = - sumk k b.
Proof.
  induction b as [|[k' c] b IH]; cbn [map sumk fst snd]; [ring|]. rewrite IH.
  destruct (k' =? k); ring.
Qed.
Lemma getd_in_nodup k c m : NoDup (keys m) -> In (k, c) m -> getd String.eqb k m = c.
Proof.
  unfold getd. induction m as [|[k' c'] m IH]; cbn [keys map fst In Poly.find]; [tauto|].
  intros Hnd Hin. inversion Hnd as [|? ? Hn Hd]; subst.
  destruct Hin as [E|Hin]; [inversion E; subst; rewrite String.eqb_refl; reflexivity|].
  destruct (k =? k') eqn:E; [|apply IH; assumption].
  apply String.eqb_eq in E. subst k'. exfalso. apply Hn. apply in_map_iff. exists (k, c). auto.
Qed.

Lemma nterms_eqb_refl l : nterms_eqb l l = true.
Proof.
  unfold nterms_eqb. apply forallb_forall. intros [k c] Hin. cbn [snd]. apply qeqb_eq.
  rewrite <- (getd_in_nodup k c _ (merge_nodup String.eqb String.eqb_eq (fun _ => 0) never _) Hin).
  unfold merge. rewrite getd_merge_from, sumk_app, sumk_neg. cbn [getd Poly.find]. unfold getd. cbn [Poly.find]. ring.
Qed.

Lemma filter_map_length {X Y} (f : X -> Y) (p : Y -> bool) l :
  List.length (filter (fun x => p (f x)) l) = List.length (filter p (map f l)).
Proof. induction l as [|x l IH]; cbn [filter map]; [reflexivity|]. destruct (p (f x)); cbn [List.length]; congruence. Qed.
Lemma perm_filter_length {X} (p : X -> bool) l l' :
  Permutation l l' -> List.length (filter p l) = List.length (filter p l').
Proof.
  induction 1 as [|x l l' _ IH|x y l|l l' l'' _ IH1 _ IH2]; cbn [filter].
  - reflexivity.
  - destruct (p x); cbn [List.length]; congruence.
  - destruct (p x), (p y); reflexivity.
  - congruence.
Qed.

Lemma omap'_length {X Y} (f : X -> option Y) l ys : omap' f l = Some ys -> List.length ys = List.length l.
Proof.
  revert ys. induction l as [|x l IH]; intros ys H; cbn [omap'] in H.
  - inversion H. reflexivity.
  - destruct (f x); [|discriminate]. destruct (omap' f l) as [ys'|]; [|discriminate].
    inversion H. cbn [List.length]. rewrite (IH ys' eq_refl). reflexivity.
Qed.

Definition beqb (b b' : body) : bool :=
  Bool.eqb (fst (fst b)) (fst (fst b')) && nterms_eqb (snd (fst b)) (snd (fst b')) && qeqb (snd b) (snd b').
Lemma view_eqb_body v w : view_eqb v w = beqb (vbody v) (vbody w).
Proof. destruct v as [[[l e] t] k], w as [[[l' e'] t'] k']. reflexivity. Qed.
Lemma body_eqb_body v a : body_eqb v a = beqb (vbody v) (abody a).
Proof. destruct v as [[[l e] t] k]. reflexivity. Qed.
Lemma beqb_refl b : beqb b b = true.
Proof.
  destruct b as [[e t] k]. unfold beqb. cbn [fst snd].
  rewrite nterms_eqb_refl. destruct e; cbn [Bool.eqb andb]; apply qeqb_eq; reflexivity.
Qed.
Lemma vbody_view_of_acons a : vbody (view_of_acons a) = abody a.
Proof. reflexivity. Qed.

Theorem represents_match_spec I S : represents I S -> match_spec I S = None.
Proof.
  intros [Hsense Hids Hvars Hnames Hnonan (ots & Hlin & Hnt) (vs & Hom & Hperm & Hrow) Hcids Hclab Hname].
  unfold match_spec. fold (id_table I).
  rewrite Hsense, N.eqb_refl. cbn [negb].
  rewrite (nodupb_true _ Hids). cbn [negb].
  rewrite (Forall2_length _ _ _ Hvars), Nat.eqb_refl. cbn [negb].
  assert (Hlab : map var_label (in_dvars I) = map av_name (ai_vars S)).
  { eapply Forall2_map_eq; [|exact Hvars]. intros v a (E & _). exact E. }
  rewrite Hlab, (snodupb_true _ Hnames). cbn [negb].
  assert (Hvok : forallb (var_ok I) (ai_vars S) = true).
  { apply forallb_forall. intros a Ha. unfold var_ok.
    destruct (Forall2_in_r _ _ _ _ Hvars Ha) as (v & Hv & E & Hk & Hb).
    rewrite (find_by_key var_label (in_dvars I) v (av_name a)); [|rewrite Hlab; exact Hnames|exact Hv|exact E].
    rewrite Hk, N.eqb_refl, Hb. rewrite Forall_forall in Hnonan. destruct (Hnonan a Ha) as [N1 N2].
    rewrite (eeqb_refl _ N1), (eeqb_refl _ N2). reflexivity. }
  rewrite Hvok. cbn [negb]. rewrite Hlin, Hnt, nterms_eqb_refl. cbn [negb].
  assert (Hq : qeqb (ai_objconst S) (ai_objconst S) = true) by (apply qeqb_eq; reflexivity).
  rewrite Hq. cbn [negb]. rewrite Hom.
  rewrite (nodupb_true _ Hcids), (snodupb_true _ Hclab). cbn [negb].
  assert (Hlen : List.length vs = List.length (map view_of_acons (ai_cons S))).
  { rewrite <- (map_length vbody vs), (Permutation_length Hperm), !map_length. reflexivity. }
  rewrite Hlen, Nat.eqb_refl. cbn [negb].
  assert (Hcnt : forallb (fun w => Nat.eqb (count (view_eqb w) vs)
                                            (count (view_eqb w) (map view_of_acons (ai_cons S))))
                         (map view_of_acons (ai_cons S)) = true).
  { apply forallb_forall. intros w _. apply Nat.eqb_eq. unfold count.
    rewrite (filter_ext _ (fun v => beqb (vbody w) (vbody v))) by (intro v; apply view_eqb_body).
    rewrite (filter_ext (view_eqb w) (fun v => beqb (vbody w) (vbody v))) by (intro v; apply view_eqb_body).
    rewrite !(filter_map_length vbody (beqb (vbody w))).
    rewrite map_map. rewrite (map_ext (fun x => vbody (view_of_acons x)) abody) by (intro; reflexivity).
    apply perm_filter_length. exact Hperm. }
  rewrite Hcnt. cbn [negb].
  assert (Hrw : forallb (fun a =>
                   match List.find (fun v => fst (fst (fst v)) =? ac_row a) vs with
                   | None => false
                   | Some v => existsb (fun a' => (ac_row a' =? ac_row a) && body_eqb v a') (ai_cons S)
                   end) (ai_cons S) = true).
  { apply forallb_forall. intros a Ha. destruct (Hrow a Ha) as (v & Hf & a' & Ha' & Er & Eb).
    unfold vlabel in Hf. rewrite Hf. apply existsb_exists. exists a'. split; [exact Ha'|].
    rewrite Er, String.eqb_refl, body_eqb_body, Eb, beqb_refl. reflexivity. }
  rewrite Hrw. cbn [negb]. rewrite Hname.
  destruct (sempty (ai_name S)) eqn:E; [reflexivity|]. rewrite String.eqb_refl. reflexivity.
Qed.

(* ================================================================== *)
(* 10. Layer 3: convert                                                 *)

(* ---- ID assignment: enumerate foreign names, or recover the IDs of tagged names ---- *)
Section Tagged.
  Context {X : Type}.
  Variable key : X -> string.
  Variable prefix : string.

  Definition unparsable (x : X) : bool :=
    match parse_id_tag prefix (key x) with None => true | Some _ => false end.
  Definition foreign (l : list X) : bool := existsb unparsable l.
  Definition tagged (l : list X) : list (N * X) :=
    if foreign l then enumerate_from 0%N l
    else flat_map (fun x => match parse_id_tag prefix (key x) with Some i => [(i, x)] | None => [] end) l.
  (* every tagged name is the canonical name of its ID (needed only when all names are tagged) *)
  Definition canonical (x : X) : bool :=
    match parse_id_tag prefix (key x) with Some i => (prefix +++ print_N i) =? key x | None => true end.
  Definition ids_okb (l : list X) : bool := foreign l || forallb canonical l.

  Lemma enumerate_snd (l : list X) : forall i, map snd (enumerate_from i l) = l.
  Proof. induction l as [|x l IH]; intro i; cbn [enumerate_from map snd]; [reflexivity|]. rewrite IH. reflexivity. Qed.
  Lemma enumerate_ge (l : list X) : forall i iv, In iv (enumerate_from i l) -> (i <= fst iv)%N.
  Proof.
    induction l as [|x l IH]; intros i iv; cbn [enumerate_from In]; [tauto|].
    intros [<-|H]; [cbn [fst]; lia|]. apply IH in H. lia.
  Qed.
  Lemma enumerate_nodup (l : list X) : forall i, NoDup (map fst (enumerate_from i l)).
  Proof.
    induction l as [|x l IH]; intro i; cbn [enumerate_from map fst]; constructor; [|apply IH].
    intro Hi. apply in_map_iff in Hi. destruct Hi as (iv & E & Hiv). apply enumerate_ge in Hiv. lia.
  Qed.

  Lemma nodup_fst_of_snd {Y} (k2 : Y -> string) (l : list (N * Y)) :
    NoDup (map (fun iv => k2 (snd iv)) l) ->
    (forall a b, In a l -> In b l -> fst a = fst b -> k2 (snd a) = k2 (snd b)) ->
    NoDup (map fst l).
  Proof.
    induction l as [|a l IH]; cbn [map]; intros Hnd Hinj; [constructor|].
    inversion Hnd as [|? ? Hn Hd]; subst. constructor.
    - intro Hi. apply in_map_iff in Hi. destruct Hi as (b & E & Hb). apply Hn.
      apply in_map_iff. exists b. split; [|exact Hb]. symmetry. apply Hinj; [left; reflexivity|right; exact Hb|].
      symmetry. exact E.
    - apply IH; [exact Hd|]. intros a' b' Ha Hb. apply Hinj; right; assumption.
  Qed.

  Lemma tagged_spec (l : list X) : NoDup (map key l) -> ids_okb l = true ->
    map snd (tagged l) = l /\ NoDup (map fst (tagged l)) /\
    (foreign l = false -> forall iv, In iv (tagged l) -> prefix +++ print_N (fst iv) = key (snd iv)).
  Proof.
    intros Hnd Hok. unfold tagged, ids_okb in *. destruct (foreign l) eqn:F.
    - split; [apply enumerate_snd|]. split; [apply enumerate_nodup|discriminate].
    - cbn [orb] in Hok. rewrite forallb_forall in Hok.
      assert (Hall : forall x, In x l -> exists i, parse_id_tag prefix (key x) = Some i).
      { intros x Hx. unfold foreign in F. destruct (parse_id_tag prefix (key x)) eqn:E; [eauto|].
        exfalso. assert (T : existsb unparsable l = true).
        { apply existsb_exists. exists x. split; [exact Hx|]. unfold unparsable. rewrite E. reflexivity. }
        congruence. }
      set (f := fun x => match parse_id_tag prefix (key x) with Some i => [(i, x)] | None => [] end).
      assert (Hsnd : map snd (flat_map f l) = l).
      { clear Hnd Hok F. induction l as [|x l IH]; [reflexivity|]. cbn [flat_map]. rewrite map_app.
        rewrite IH by (intros y Hy; apply Hall; right; exact Hy).
        destruct (Hall x (or_introl eq_refl)) as [i E]. unfold f. rewrite E. reflexivity. }
      assert (Hcan : forall iv, In iv (flat_map f l) -> prefix +++ print_N (fst iv) = key (snd iv)).
      { intros iv Hiv. apply in_flat_map in Hiv. destruct Hiv as (x & Hx & Hiv). unfold f in Hiv.
        specialize (Hok x Hx). unfold canonical in Hok.
        destruct (parse_id_tag prefix (key x)) as [i|]; [|destruct Hiv].
        destruct Hiv as [<-|[]]. cbn [fst snd]. apply String.eqb_eq. exact Hok. }
      split; [exact Hsnd|]. split; [|intros _; exact Hcan].
      apply (nodup_fst_of_snd key).
      + rewrite <- (map_map snd key), Hsnd. exact Hnd.
      + intros a b Ha Hb E. rewrite <- (Hcan a Ha), <- (Hcan b Hb), E. reflexivity.
  Qed.
End Tagged.

(* ---- names <-> IDs ---- *)
Definition swap (iv : N * string) : string * N := (snd iv, fst iv).

Lemma lookup_swap ivs i x : NoDup (map snd ivs) -> In (i, x) ivs -> lookup x (map swap ivs) = Some i.
Proof.
  induction ivs as [|[j y] ivs IH]; cbn [map snd In lookup swap fst]; [tauto|]. intros Hnd Hin.
  inversion Hnd as [|? ? Hn Hd]; subst.
  destruct Hin as [E|Hin]; [inversion E; subst; rewrite String.eqb_refl; reflexivity|].
  destruct (x =? y) eqn:E; [|apply IH; assumption].
  apply String.eqb_eq in E. subst y. exfalso. apply Hn. apply in_map_iff. exists (i, x). auto.
Qed.
Lemma find_id ivs i x : NoDup (map fst ivs) -> In (i, x) ivs ->
  List.find (fun e : N * string => (fst e =? i)%N) ivs = Some (i, x).
Proof.
  induction ivs as [|[j y] ivs IH]; cbn [map fst In List.find]; [tauto|]. intros Hnd Hin.
  inversion Hnd as [|? ? Hn Hd]; subst.
  destruct Hin as [E|Hin]; [inversion E; subst; rewrite N.eqb_refl; reflexivity|].
  destruct (j =? i)%N eqn:E; [|apply IH; assumption].
  apply N.eqb_eq in E. subst j. exfalso. apply Hn. apply in_map_iff. exists (i, x). auto.
Qed.

Lemma conv_name ivs : NoDup (map fst ivs) -> NoDup (map snd ivs) -> forall l,
  (forall kc, In kc l -> In (fst kc) (map snd ivs)) ->
  exists ts, convert_terms (map swap ivs) l = Ok ts /\ name_terms ivs ts = Some l.
Proof.
  intros H1 H2. induction l as [|[x q] l IH]; intro Hl.
  - exists []. split; reflexivity.
  - destruct IH as (ts & Hc & Hn); [intros kc Hk; apply Hl; right; exact Hk|].
    assert (Hx : In x (map snd ivs)) by (apply (Hl (x, q)); left; reflexivity).
    apply in_map_iff in Hx. destruct Hx as ([i y] & E & Hin). cbn [snd] in E. subst y.
    exists ((i, q) :: ts). cbn [convert_terms name_terms].
    rewrite (lookup_swap _ _ _ H2 Hin), Hc. cbn [rbind].
    rewrite (find_id _ _ _ H1 Hin), Hn. split; reflexivity.
Qed.
Lemma name_terms_map tbl (g : num -> num) : forall ts l, name_terms tbl ts = Some l ->
  name_terms tbl (map (fun ic => (fst ic, g (snd ic))) ts) = Some (map (fun kc => (fst kc, g (snd kc))) l).
Proof.
  induction ts as [|[i q] ts IH]; intros l H; cbn [name_terms map fst snd] in *.
  - inversion H. reflexivity.
  - destruct (List.find (fun e => (fst e =? i)%N) tbl) as [e|]; [|discriminate].
    destruct (name_terms tbl ts) as [r|]; [|discriminate]. inversion H. subst l.
    rewrite (IH r eq_refl). reflexivity.
Qed.

Lemma lin_of_mk ts c : lin_of (mk_function ts c) = Some (ts, c).
Proof. destruct ts; reflexivity. Qed.

(* ---- decision variables ---- *)
Lemma apply_bound_vars c s : c_vars (apply_bound c s) = c_vars c.
Proof. destruct s as [k x v]. destruct k; reflexivity. Qed.
Lemma fold_bound_vars bs : forall c, c_vars (fold_left apply_bound bs c) = c_vars c.
Proof. induction bs as [|s bs IH]; intro c; cbn [fold_left]; [reflexivity|]. rewrite IH. apply apply_bound_vars. Qed.
Lemma finish_cols_vars c : c_vars (finish_cols c) = c_vars c.
Proof. unfold finish_cols. destruct (fold_left _ _ _). reflexivity. Qed.

Definition mkdv (c : mcols) (named : bool) (iv : N * string) : dvar :=
  {| dv_id := fst iv; dv_kind := get_dvar_kind c (snd iv);
     dv_bound := Some (get_dvar_bound c (snd iv));
     dv_name := if named then Some (snd iv) else None |}.

Lemma convert_dvars_eq c :
  let ivs := tagged (fun x => x) VAR_PREFIX (c_vars c) in
  convert_dvars c = (map (mkdv c (foreign (fun x => x) VAR_PREFIX (c_vars c))) ivs, map swap ivs).
Proof.
  cbv zeta. unfold convert_dvars, tagged, foreign, unparsable.
  destruct (existsb _ (c_vars c)); reflexivity.
Qed.

(* ---- constraints ---- *)
Lemma convert_constraints_eq r ids :
  convert_constraints r ids =
  rmap (fun ie => convert_constraint r ids (fst ie)
                    (if foreign fst CONSTR_PREFIX (r_a r) then Some (fst (snd ie)) else None)
                    (fst (snd ie)) (snd (snd ie)))
       (tagged fst CONSTR_PREFIX (r_a r)).
Proof.
  unfold convert_constraints, tagged, foreign, unparsable.
  destruct (existsb _ (r_a r)); reflexivity.
Qed.

Definition unwrap {X} (d : X) (r : res X) : X := match r with Ok x => x | Err _ => d end.
Lemma rmap_ok {X Y} (f : X -> res Y) (d : Y) l :
  (forall x, In x l -> exists y, f x = Ok y) -> rmap f l = Ok (map (fun x => unwrap d (f x)) l).
Proof.
  induction l as [|x l IH]; intro H; cbn [rmap map]; [reflexivity|].
  destruct (H x (or_introl eq_refl)) as [y E]. rewrite E. cbn [rbind unwrap].
  rewrite IH by (intros x' Hx'; apply H; right; exact Hx'). reflexivity.
Qed.
Lemma omap'_map {X Y} (f : X -> option Y) (g : X -> Y) l :
  (forall x, In x l -> f x = Some (g x)) -> omap' f l = Some (map g l).
Proof.
  induction l as [|x l IH]; intro H; cbn [omap' map]; [reflexivity|].
  rewrite (H x (or_introl eq_refl)). rewrite IH by (intros x' Hx'; apply H; right; exact Hx'). reflexivity.
Qed.

(* the normalised constraint of a row: (is-equality, terms, constant) *)
Definition cbody (v : vrow) : body :=
  match vty v with
  | RE => (true, ventries v, - vrhs v)
  | RL => (false, ventries v, - vrhs v)
  | RG => (false, negv (ventries v), vrhs v)
  | RN => (false, [], 0)
  end.

Lemma negv_neg_terms l : map (fun kc : string * num => (fst kc, snd kc * - (1))) l = negv l.
Proof. unfold negv. apply map_ext. intros [k c]. cbn [fst snd]. f_equal. ring. Qed.

Lemma cons_view r ivs id nm row entries :
  NoDup (map fst ivs) -> NoDup (map snd ivs) ->
  (forall kc, In kc entries -> In (fst kc) (map snd ivs)) ->
  tt r row = ind (row_type r row) -> row_type r row <> RN ->
  exists c, convert_constraint r (map swap ivs) id nm row entries = Ok c /\
    cn_id c = id /\ cn_name c = nm /\
    exists e t k, view_cons ivs c = Some (cons_label c, e, t, k) /\
                  (e, t, k) = cbody (row, entries, row_type r row, rhs_of (r_b r) row).
Proof.
  intros H1 H2 Hent Htt Hty. destruct (conv_name ivs H1 H2 entries Hent) as (ts & Hc & Hn).
  unfold convert_constraint. rewrite Hc. cbn [rbind].
  rewrite (convert_row_type_ind r row _ Htt).
  unfold cbody. cbn [vty vrhs ventries fst snd].
  destruct (row_type r row) eqn:T; [congruence| | |]; cbn [convert_inequality];
    eexists; (split; [reflexivity|]); cbn [cn_id cn_name]; (split; [reflexivity|]); (split; [reflexivity|]);
    unfold view_cons; cbn [cn_fn cn_eq]; rewrite lin_of_mk.
  - rewrite Hn. cbn [N.eqb Pos.eqb]. do 3 eexists. split; reflexivity.
  - rewrite Hn. cbn [N.eqb Pos.eqb]. do 3 eexists. split; reflexivity.
  - unfold neg_terms. rewrite (name_terms_map ivs (fun q => q * - (1)) ts entries Hn).
    cbn [N.eqb Pos.eqb]. do 3 eexists. split; [reflexivity|]. rewrite negv_neg_terms. reflexivity.
Qed.

(* ---- a generated row name is never an ID tag ---- *)
Fixpoint ends_us (s : string) : bool :=
  match s with
  | EmptyString => false
  | String c s' => match s' with EmptyString => Ascii.eqb c "_"%char | _ => ends_us s' end
  end.
Lemma ends_us_app a b : sempty b = false -> ends_us (a +++ b) = ends_us b.
Proof.
  intro H. induction a as [|c a IH]; [reflexivity|]. rewrite sapp_cons. cbn [ends_us].
  destruct (a +++ b) eqn:E; [|exact IH].
  destruct a; [rewrite sapp_empty in E; subst b; discriminate|discriminate].
Qed.
Lemma ends_us_gen k : ends_us ("_" +++ underscores k) = true.
Proof.
  induction k as [|k IH]; [reflexivity|]. cbn [underscores].
  rewrite ends_us_app; [exact IH|reflexivity].
Qed.
Lemma strip_prefix_eq p : forall s r, strip_prefix p s = Some r -> s = p +++ r.
Proof.
  induction p as [|a p IH]; intros s r H; cbn [strip_prefix] in H; [inversion H; reflexivity|].
  destruct s as [|b s]; [discriminate|]. destruct (Ascii.eqb a b) eqn:E; [|discriminate].
  apply Ascii.eqb_eq in E. subst b. rewrite sapp_cons. f_equal. apply IH. exact H.
Qed.
Lemma strip_prefix_app p s : strip_prefix p (p +++ s) = Some s.
Proof. induction p as [|a p IH]; [reflexivity|]. rewrite sapp_cons. cbn [strip_prefix]. rewrite Ascii.eqb_refl. exact IH. Qed.

Lemma read_digits_all s : forall acc cnt n k, read_digits s acc cnt = (n, k, "") -> ends_us s = false.
Proof.
  induction s as [|c s IH]; intros acc cnt n k H; [reflexivity|]. cbn [read_digits] in H.
  destruct (digit_of c) as [d|] eqn:D; [|inversion H].
  cbn [ends_us]. destruct s as [|c' s'] eqn:Es; [|rewrite <- Es in *; eapply IH; exact H].
  destruct (Ascii.eqb c "_"%char) eqn:E; [|reflexivity]. apply Ascii.eqb_eq in E. subst c. discriminate.
Qed.
Lemma read_u64_not_us s n : read_u64 s = Some n -> ends_us s = false.
Proof.
  unfold read_u64. destruct s as [|c s]; [discriminate|].
  destruct (Ascii.eqb c "+"%char) eqn:E.
  - apply Ascii.eqb_eq in E. subst c.
    destruct (read_digits s 0 0) as [[n' k] rest] eqn:R.
    destruct ((k =? 0)%N || negb (sempty rest)) eqn:B; [discriminate|]. intros _.
    apply orb_false_iff in B. destruct B as [_ B]. apply negb_false_iff in B.
    destruct rest; [|discriminate]. cbn [ends_us]. destruct s; [reflexivity|].
    eapply read_digits_all. exact R.
  - destruct (read_digits (String c s) 0 0) as [[n' k] rest] eqn:R.
    destruct ((k =? 0)%N || negb (sempty rest)) eqn:B; [discriminate|]. intros _.
    apply orb_false_iff in B. destruct B as [_ B]. apply negb_false_iff in B.
    destruct rest; [|discriminate]. eapply read_digits_all. exact R.
Qed.
Lemma gen_unparsable p row k : parse_id_tag p ((row +++ "_") +++ underscores k) = None.
Proof.
  unfold parse_id_tag. destruct (strip_prefix p _) as [r|] eqn:E; [|reflexivity].
  apply strip_prefix_eq in E. destruct (read_u64 r) eqn:R; [|reflexivity].
  exfalso. pose proof (read_u64_not_us _ _ R) as U.
  assert (T : ends_us ((row +++ "_") +++ underscores k) = true).
  { rewrite sapp_assoc. rewrite ends_us_app; [apply ends_us_gen|reflexivity]. }
  rewrite E in T. destruct r; [discriminate|]. rewrite ends_us_app in T by reflexivity. congruence.
Qed.

(* ---- permutations of per-row pieces ---- *)
Lemma perm_flat_map2 {X Y} (f g h : X -> list Y) l :
  (forall x, In x l -> Permutation (f x ++ g x) (h x)) ->
  Permutation (flat_map f l ++ flat_map g l) (flat_map h l).
Proof.
  induction l as [|x l IH]; intro H; cbn [flat_map]; [constructor|].
  rewrite <- app_assoc.
  apply Permutation_trans with (f x ++ g x ++ flat_map f l ++ flat_map g l).
  - apply Permutation_app_head. rewrite !app_assoc. apply Permutation_app_tail. apply Permutation_app_comm.
  - rewrite app_assoc. apply Permutation_app; [apply H; left; reflexivity|].
    apply IH. intros y Hy. apply H. right. exact Hy.
Qed.
Lemma map_flat_map {X Y Z} (f : Y -> Z) (g : X -> list Y) l :
  map f (flat_map g l) = flat_map (fun x => map f (g x)) l.
Proof. induction l as [|x l IH]; cbn [flat_map map]; [reflexivity|]. rewrite map_app, IH. reflexivity. Qed.
Lemma map_filter_flat_map {X Y} (f : X -> Y) (p : X -> bool) l :
  map f (filter p l) = flat_map (fun x => if p x then [f x] else []) l.
Proof. induction l as [|x l IH]; cbn [filter flat_map map]; [reflexivity|]. destruct (p x); cbn [map app]; rewrite IH; reflexivity. Qed.

Lemma Forall2_opt_rows {Y Z} (P : string * num -> Y -> Prop) (f : srow -> option num)
      (g : Y -> Z) (h : srow -> num -> Z) rows : forall news,
  Forall2 P (opt_rows f rows) news ->
  (forall r rg nv, In r rows -> f r = Some rg -> P (sr_name r, rg) nv -> g nv = h r rg) ->
  map g news = flat_map (fun r => match f r with Some rg => [h r rg] | None => [] end) rows.
Proof.
  induction rows as [|r rows IH]; intros news F H.
  - inversion F. reflexivity.
  - unfold opt_rows in F. cbn [flat_map] in F. fold (opt_rows f rows) in F. cbn [flat_map].
    destruct (f r) as [rg|] eqn:E; cbn [app] in *.
    + inversion F as [|e nv es news' Hp F' E1 E2]; subst. cbn [map]. f_equal.
      * apply (H r rg nv); [left; reflexivity|exact E|exact Hp].
      * apply IH; [exact F'|]. intros r' rg' nv' Hr'. apply H. right. exact Hr'.
    + apply IH; [exact F|]. intros r' rg' nv' Hr'. apply H. right. exact Hr'.
Qed.

Lemma Forall2_of_map_eq {X Y Z} (f : X -> Z) (g : Y -> Z) l : forall l',
  map f l = map g l' -> Forall2 (fun a b => f a = g b) l l'.
Proof.
  induction l as [|a l IH]; intros [|b l'] H; cbn [map] in H; try discriminate; constructor.
  - inversion H. reflexivity.
  - apply IH. inversion H. reflexivity.
Qed.
Lemma Forall2_map_lr {X Y X' Y'} (P : X' -> Y' -> Prop) (f : X -> X') (g : Y -> Y') l l' :
  Forall2 (fun a b => P (f a) (g b)) l l' -> Forall2 P (map f l) (map g l').
Proof. induction 1; cbn [map]; constructor; assumption. Qed.

Lemma smem_map_filter (p : scol -> bool) cols c :
  NoDup (map sc_name cols) -> In c cols ->
  smem (sc_name c) (map sc_name (filter p cols)) = p c.
Proof.
  intros Hnd Hc. destruct (p c) eqn:E.
  - apply smem_In. apply in_map. apply filter_In. auto.
  - apply smem_notin. intro Hi. apply in_map_iff in Hi. destruct Hi as (c' & En & Hc').
    apply filter_In in Hc'. destruct Hc' as [Hc' Ep].
    assert (c' = c) by (eapply NoDup_map_inj; eauto). subst. congruence.
Qed.

Lemma vbody_tuple l (b : body) : vbody (l, fst (fst b), snd (fst b), snd b) = b.
Proof. destruct b as [[e t] k]. reflexivity. Qed.

Lemma ids_okb_map {X} (key : X -> string) p l :
  ids_okb key p l = ids_okb (fun x : string => x) p (map key l).
Proof.
  unfold ids_okb, foreign. f_equal.
  - induction l as [|x l IH]; cbn [existsb map]; [reflexivity|]. rewrite IH. reflexivity.
  - induction l as [|x l IH]; cbn [forallb map]; [reflexivity|]. rewrite IH. reflexivity.
Qed.
Lemma foreign_in {X} (key : X -> string) p l x :
  In x l -> parse_id_tag p (key x) = None -> foreign key p l = true.
Proof.
  intros Hx Hp. unfold foreign. apply existsb_exists. exists x. split; [exact Hx|].
  unfold unparsable. rewrite Hp. reflexivity.
Qed.
(* since [parse_id_tag] only accepts the canonical rendering of a number, the id condition of
   the well-formedness predicate holds for EVERY list of names (it is kept in the statements
   below, where it is now redundant) *)
Lemma canonical_all {X} (key : X -> string) p x : canonical key p x = true.
Proof.
  unfold canonical. destruct (parse_id_tag p (key x)) as [i|] eqn:E; [|reflexivity].
  apply parse_id_tag_canonical in E. rewrite E. apply String.eqb_refl.
Qed.
Lemma ids_okb_all {X} (key : X -> string) p l : ids_okb key p l = true.
Proof.
  unfold ids_okb. apply orb_true_iff. right. apply forallb_forall. intros x _. apply canonical_all.
Qed.

Section Final.
  Variable M : lp_model.
  Local Notation rows := (lp_rows M).
  Local Notation cols := (lp_cols M).
  Local Notation objrow := (lp_objrow M).
  Local Notation names := (map sc_name (lp_cols M)).
  Hypothesis Hobj : sempty objrow = false.
  Hypothesis Hrows : NoDup (objrow :: map sr_name rows).
  Hypothesis Hcols : NoDup names.
  Hypothesis Hcoefs : Forall (col_wf M) cols.
  Hypothesis Hrng : forall r rg, In r rows -> sr_range r = Some rg -> sr_ty r <> RN /\ rg <> 0.
  Hypothesis Hname : trim (lp_name M) = lp_name M.
  Hypothesis Hvids : ids_okb (fun x : string => x) VAR_PREFIX names = true.
  Hypothesis Hcids : range_entries M <> [] \/ ids_okb sr_name CONSTR_PREFIX (nonN rows) = true.
  Hypothesis Hnonan : forall c, In c cols ->
    is_nan (av_lo (col_meaning M c)) = false /\ is_nan (av_up (col_meaning M c)) = false.

  Definition Ob (r : srow) : list body :=
    if negb (rty_eqb (sr_ty r) RN) then [cbody (orig_view M r)] else [].
  Definition genb (r : srow) (rg : num) : body :=
    cbody ("", rvec cols (sr_name r), fst (rule2 (sr_ty r) (rhs0 r) rg), snd (rule2 (sr_ty r) (rhs0 r) rg)).
  Definition Nb (r : srow) : list body :=
    match sr_range r with Some rg => [genb r rg] | None => [] end.

  Lemma row_perm r : In r rows -> Permutation (Ob r ++ Nb r) (map abody (row_meaning M r)).
  Proof.
    intro Hr. unfold Ob, Nb, genb, orig_view, view0, row_meaning, rule1, rule2, rhs0.
    rewrite row_vec_rvec.
    destruct (sr_ty r) eqn:T; destruct (sr_range r) as [rg|] eqn:R; cbn [rty_eqb negb app map];
      try (destruct (Hrng r rg Hr R) as (H1 & _); congruence); try apply Permutation_refl.
    - cbn [range_rule range_interval]. destruct (qltb 0 rg); unfold cbody, abody;
        cbn [vty ventries vrhs fst snd map ac_eq ac_terms ac_const]; [apply Permutation_refl|apply perm_swap].
    - cbn [range_rule range_interval]. unfold cbody, abody;
        cbn [vty ventries vrhs fst snd map ac_eq ac_terms ac_const]. apply perm_swap.
  Qed.

  Definition cb : mcols := fold_left apply_bound (lp_bounds M) (cols_tbl cols).
  Definition c' : mcols := finish_cols cb.
  Lemma c'_vars : c_vars c' = names.
  Proof. unfold c', cb. rewrite finish_cols_vars, fold_bound_vars. reflexivity. Qed.

  Lemma var_facts c : In c cols ->
    get_dvar_bound c' (sc_name c) = (av_lo (col_meaning M c), av_up (col_meaning M c)) /\
    get_dvar_kind c' (sc_name c) = kind_code (av_kind (col_meaning M c)).
  Proof.
    intro Hc.
    destruct (bounds_fold (cols_tbl cols) (lp_bounds M) (sc_name c) (sc_int c)) as [B K].
    - reflexivity.
    - reflexivity.
    - cbn [cols_tbl c_int]. apply smem_map_filter; assumption.
    - reflexivity.
    - cbn [cols_tbl c_real]. apply (smem_map_filter (fun c0 => negb (sc_int c0))); assumption.
    - split; [|exact K]. fold cb c' in B. rewrite B. unfold col_meaning. cbn [av_lo av_up].
      apply surjective_pairing.
  Qed.

  Definition dummy_cons : cons := {| cn_id := 0%N; cn_eq := 0%N; cn_fn := FUnset; cn_name := None |}.
  Definition rv (r : mrows) (ne : string * list (string * num)) : vrow :=
    (fst ne, snd ne, row_type r (fst ne), rhs_of (r_b r) (fst ne)).
  Definition vw (v : vrow) : string * bool * list (string * num) * num :=
    (vname v, fst (fst (cbody v)), snd (fst (cbody v)), snd (cbody v)).

  Theorem load_represents :
    exists I, (let? m := typed_parse M in convert m) = Ok I /\ represents I (meaning M).
  Proof.
    destruct (tables_closed M Hobj Hrows Hcols Hcoefs Hrng)
      as (m4 & news & Htt & (F1 & F2 & F3 & F4 & F5) & HRI & Hview & Hgen & Hnoobj & Hrhs).
    assert (Hnd : NoDup (map sr_name rows)) by (inversion Hrows; assumption).
    unfold typed_parse. rewrite Htt. cbn [rbind].
    fold cb. 
    change (finish_cols (m_cols (set_cols m4 cb))) with c'.
    set (r4 := m_rows m4) in *.
    (* --- names of generated rows --- *)
    assert (Hnews : forall nv, In nv news ->
              exists r rg k, In r rows /\ sr_range r = Some rg /\
                             vname nv = (sr_name r +++ "_") +++ underscores k /\
                             ventries nv = rvec cols (sr_name r)).
    { intros nv Hnv. destruct (Forall2_in_r _ _ _ _ Hgen Hnv) as (e & He & r & Hr & Gn & Ge & _ & (k & Gk)).
      rewrite range_entries_eq in He. apply opt_rows_in in He. destruct He as (r0 & Hr0 & En & Er).
      cbn [vname view0 fst] in Gn. apply nonN_in in Hr. destruct Hr as [Hr _].
      assert (r0 = r) by (eapply NoDup_map_inj; eauto; congruence). subst r0.
      exists r, (snd e), k. split; [exact Hr|]. split; [exact Er|]. split; [rewrite Gn; exact Gk|exact Ge]. }
    assert (Hobjnew : ~ In objrow (map vname news)).
    { intro Hi. apply in_map_iff in Hi. destruct Hi as (nv & E & Hnv).
      rewrite Forall_forall in Hnoobj. apply (Hnoobj nv Hnv). exact E. }
    (* --- decision variables --- *)
    destruct (tagged_spec (fun x : string => x) VAR_PREFIX names) as (Hsnd & Hfst & Hcan);
      [rewrite map_id; exact Hcols|exact Hvids|].
    set (ivs := tagged (fun x : string => x) VAR_PREFIX names) in *.
    set (fg := foreign (fun x : string => x) VAR_PREFIX names) in *.
    assert (Hsnd' : NoDup (map snd ivs)) by (rewrite Hsnd; exact Hcols).
    assert (Hlabel : forall iv, In iv ivs -> var_label (mkdv c' fg iv) = snd iv).
    { intros iv Hiv. unfold var_label, mkdv. cbn [dv_name dv_id]. destruct fg eqn:Fg; [reflexivity|].
      apply (Hcan eq_refl iv Hiv). }
    assert (Hkeys : forall x kc, In kc (rvec cols x) -> In (fst kc) (map snd ivs)).
    { intros x kc Hk. rewrite Hsnd. eapply rvec_keys. apply in_map. exact Hk. }
    (* --- objective --- *)
    destruct (conv_name ivs Hfst Hsnd' (rvec cols objrow) (Hkeys objrow)) as (tso & Hco & Hno).
    (* --- constraints --- *)
    destruct HRI as (Hknd & Htt4 & Hkeys4).
    assert (Hokra : ids_okb fst CONSTR_PREFIX (r_a r4) = true).
    { assert (Hk : map fst (r_a r4) = map sr_name (nonN rows) ++ map vname news).
      { rewrite <- rview_names, Hview, map_app, map_map. f_equal. apply map_ext. intro r.
        unfold orig_view, view0. destruct (sr_range r); reflexivity. }
      destruct news as [|nv news'] eqn:En.
      - assert (Hre : range_entries M = []) by (inversion Hgen; reflexivity).
        destruct Hcids as [Hc|Hc]; [congruence|].
        rewrite ids_okb_map, Hk, app_nil_r, <- ids_okb_map. exact Hc.
      - destruct (Hnews nv (or_introl eq_refl)) as (r & rg & k & _ & _ & Enm & _).
        assert (Hin : In (vname nv) (map fst (r_a r4))) by (rewrite Hk; apply in_or_app; right; left; reflexivity).
        apply in_map_iff in Hin. destruct Hin as (ne & E & Hne).
        unfold ids_okb. rewrite (foreign_in fst CONSTR_PREFIX _ ne Hne); [reflexivity|].
        rewrite E, Enm. apply gen_unparsable. }
    destruct (tagged_spec fst CONSTR_PREFIX (r_a r4) Hknd Hokra) as (Hsndc & Hfstc & Hcanc).
    set (ies := tagged fst CONSTR_PREFIX (r_a r4)) in *.
    set (fgc := foreign fst CONSTR_PREFIX (r_a r4)) in *.
    set (F := fun ie : N * (string * list (string * num)) =>
                convert_constraint r4 (map swap ivs) (fst ie)
                  (if fgc then Some (fst (snd ie)) else None) (fst (snd ie)) (snd (snd ie))).
    assert (Hie : forall ie, In ie ies -> In (snd ie) (r_a r4)).
    { intros ie H. rewrite <- Hsndc. apply in_map. exact H. }
    assert (Hentries : forall ne, In ne (r_a r4) -> exists x, snd ne = rvec cols x).
    { intros ne Hne. assert (Hv : In (rv r4 ne) (rview r4)) by (unfold rview; apply (in_map (rv r4)); exact Hne).
      rewrite Hview in Hv. apply in_app_or in Hv. destruct Hv as [Hv|Hv].
      - apply in_map_iff in Hv. destruct Hv as (r & E & _). exists (sr_name r).
        change (snd ne) with (ventries (rv r4 ne)). rewrite <- E. unfold orig_view, view0.
        destruct (sr_range r); reflexivity.
      - destruct (Hnews _ Hv) as (r & _ & _ & _ & _ & _ & Ee). exists (sr_name r). exact Ee. }
    assert (HF : forall ie, In ie ies ->
              exists c, F ie = Ok c /\ cn_id c = fst ie /\ cons_label c = fst (snd ie) /\
                        view_cons ivs c = Some (vw (rv r4 (snd ie)))).
    { intros ie Hin. pose proof (Hie ie Hin) as Hne.
      destruct (Hentries _ Hne) as [x Ex].
      assert (Hty : row_type r4 (fst (snd ie)) <> RN).
      { apply Hkeys4. apply in_map. exact Hne. }
      destruct (cons_view r4 ivs (fst ie) (if fgc then Some (fst (snd ie)) else None)
                  (fst (snd ie)) (snd (snd ie)) Hfst Hsnd')
        as (c & Hc & Hid & Hnm & e & t & k & Hvc & Hb).
      - rewrite Ex. apply Hkeys.
      - apply Htt4.
      - exact Hty.
      - exists c. split; [exact Hc|]. split; [exact Hid|].
        assert (Hl : cons_label c = fst (snd ie)).
        { unfold cons_label. rewrite Hnm, Hid. destruct fgc eqn:Fg; [reflexivity|]. apply (Hcanc eq_refl ie Hin). }
        split; [exact Hl|]. rewrite Hvc, Hl. unfold vw, rv. cbn [vname fst]. rewrite <- Hb. reflexivity. }
    set (G := fun ie => unwrap dummy_cons (F ie)).
    assert (HG : forall ie, In ie ies -> F ie = Ok (G ie)).
    { intros ie Hin. destruct (HF ie Hin) as (c & Hc & _). unfold G. rewrite Hc. reflexivity. }
    (* --- the instance --- *)
    eexists. split.
    { unfold convert. cbn [m_cols set_cols]. rewrite convert_dvars_eq, c'_vars. fold ivs fg. cbv iota beta.
      unfold convert_objective. cbn [m_c m_rows m_obj set_cols]. rewrite F4, Hco. cbn [rbind].
      rewrite convert_constraints_eq. fold r4 ies fgc. fold F.
      rewrite (rmap_ok F dummy_cons ies) by (intros ie Hin; exists (G ie); apply HG; exact Hin).
      cbn [rbind]. reflexivity. }
    match goal with |- represents ?J _ => set (II := J) end.
    assert (Htbl : id_table II = ivs).
    { unfold id_table, II. cbn [in_dvars]. rewrite map_map.
      transitivity (map (fun iv : N * string => (fst iv, snd iv)) ivs).
      - apply map_ext_in. intros iv Hiv. rewrite (Hlabel iv Hiv). reflexivity.
      - rewrite <- (map_id ivs) at 2. apply map_ext. intros [i x]. reflexivity. }
    set (vs := map (fun ie : N * (string * list (string * num)) => vw (rv r4 (snd ie))) ies).
    assert (Hvs : vs = map vw (rview r4)).
    { unfold vs, rview. fold (rv r4). rewrite <- Hsndc. rewrite !map_map. reflexivity. }
    assert (Hbodies : map vbody vs = map cbody (rview r4)).
    { rewrite Hvs, map_map. apply map_ext. intro v. apply vbody_tuple. }
    assert (Hperm : Permutation (map vbody vs) (map abody (ai_cons (meaning M)))).
    { rewrite Hbodies, Hview, map_app, map_map. cbn [meaning ai_cons]. rewrite map_flat_map.
      assert (E1 : map (fun x => cbody (orig_view M x)) (nonN rows) = flat_map Ob rows).
      { unfold nonN. rewrite (map_filter_flat_map (fun x => cbody (orig_view M x))). reflexivity. }
      assert (E2 : map cbody news = flat_map Nb rows).
      { rewrite range_entries_eq in Hgen.
        apply (Forall2_opt_rows _ sr_range cbody genb rows news Hgen).
        intros r rg nv Hr R (r' & Hr' & Gn & Ge & Gr & _).
        cbn [vname view0 fst] in Gn. apply nonN_in in Hr'. destruct Hr' as [Hr' _].
        assert (r' = r) by (eapply NoDup_map_inj; eauto). subst r'.
        cbn [ventries vty vrhs view0 fst snd] in Ge, Gr.
        unfold genb. rewrite <- Gr, <- Ge. reflexivity. }
      rewrite E1, E2. apply perm_flat_map2. intros r Hr. apply row_perm. exact Hr. }
    assert (Hvlab : map vlabel vs = map fst (r_a r4)).
    { unfold vs. rewrite map_map. rewrite <- Hsndc. rewrite map_map. reflexivity. }
    assert (HGc : forall ie, In ie ies -> cn_id (unwrap dummy_cons (F ie)) = fst ie /\
                                          cons_label (unwrap dummy_cons (F ie)) = fst (snd ie) /\
                                          view_cons ivs (unwrap dummy_cons (F ie)) = Some (vw (rv r4 (snd ie)))).
    { intros ie Hin. destruct (HF ie Hin) as (c & Hc & H1 & H2 & H3). rewrite Hc. cbn [unwrap]. auto. }
    constructor.
    - (* sense *)
      unfold II. cbn [in_sense m_max set_cols meaning ai_max]. rewrite F2. reflexivity.
    - (* variable ids *)
      unfold II. cbn [in_dvars]. rewrite map_map. exact Hfst.
    - (* variables *)
      unfold II. cbn [in_dvars meaning ai_vars]. apply Forall2_map_lr.
      eapply Forall2_impl_in; [|apply (Forall2_of_map_eq snd sc_name ivs cols Hsnd)].
      intros iv c Hiv Hc E. cbn beta in E.
      destruct (var_facts c Hc) as [B K].
      split; [rewrite (Hlabel iv Hiv); exact E|].
      unfold mkdv. cbn [dv_kind dv_bound]. rewrite E, B, K. split; reflexivity.
    - (* variable names *)
      cbn [meaning ai_vars]. rewrite map_map. exact Hcols.
    - (* no NaN *)
      cbn [meaning ai_vars]. apply Forall_forall. intros a Ha. apply in_map_iff in Ha.
      destruct Ha as (c & <- & Hc). apply Hnonan. exact Hc.
    - (* objective *)
      exists tso. rewrite Htbl. split; [|exact Hno].
      unfold II. cbn [in_obj m_rows m_obj set_cols meaning ai_objconst]. rewrite lin_of_mk.
      fold r4. rewrite F3, (Hrhs objrow Hobjnew), (rhs_of_obj M Hrows). reflexivity.
    - (* constraints *)
      exists vs. rewrite Htbl. split; [|split; [exact Hperm|]].
      + unfold II. cbn [in_cons]. unfold vs. clear -HGc.
        induction ies as [|ie l IH]; [reflexivity|]. cbn [map omap'].
        destruct (HGc ie (or_introl eq_refl)) as (_ & _ & H3). rewrite H3.
        rewrite IH by (intros ie' Hin; apply HGc; right; exact Hin). reflexivity.
      + intros a Ha. cbn [meaning ai_cons] in Ha. apply in_flat_map in Ha. destruct Ha as (r & Hr & Ha).
        assert (Hrow : ac_row a = sr_name r /\ sr_ty r <> RN).
        { revert Ha. unfold row_meaning.
          destruct (sr_ty r); destruct (sr_range r) as [rg|]; cbn [In];
            try destruct (range_interval _ _ rg) as [h u]; cbn [In];
            intuition (subst; try discriminate; reflexivity). }
        destruct Hrow as [Erow Hty].
        assert (Hrn : In r (nonN rows)) by (apply nonN_in; auto).
        exists (vw (orig_view M r)). split.
        * rewrite Erow. apply (find_by_key vlabel).
          -- rewrite Hvlab. exact Hknd.
          -- rewrite Hvs. apply in_map. rewrite Hview. apply in_or_app. left. apply in_map. exact Hrn.
          -- unfold vw, vlabel, orig_view, view0. cbn [fst]. destruct (sr_range r); reflexivity.
        * assert (Hin : In (cbody (orig_view M r)) (map abody (row_meaning M r))).
          { eapply Permutation_in; [apply (row_perm r Hr)|]. apply in_or_app. left.
            unfold Ob. destruct (sr_ty r); try congruence; left; reflexivity. }
          apply in_map_iff in Hin. destruct Hin as (a' & Eb & Ha').
          exists a'. split; [cbn [meaning ai_cons]; apply in_flat_map; exists r; auto|].
          split; [|rewrite Eb; apply vbody_tuple].
          rewrite Erow. revert Ha'. unfold row_meaning.
          destruct (sr_ty r); destruct (sr_range r) as [rg|]; cbn [In];
            try destruct (range_interval _ _ rg) as [h u]; cbn [In];
            intuition (subst; reflexivity).
    - (* constraint ids *)
      unfold II. cbn [in_cons]. rewrite map_map.
      rewrite (map_ext_in _ fst) by (intros ie Hin; apply (HGc ie Hin)). exact Hfstc.
    - (* constraint names *)
      unfold II. cbn [in_cons]. rewrite map_map.
      rewrite (map_ext_in _ (fun ie => fst (snd ie))) by (intros ie Hin; apply (HGc ie Hin)).
      rewrite <- (map_map snd fst), Hsndc. exact Hknd.
    - (* problem name *)
      unfold II. cbn [in_name m_name set_cols meaning ai_name]. rewrite F1, Hname. reflexivity.
  Qed.
End Final.

(* ================================================================== *)
(* 11. the boolean well-formedness predicate and the main theorems      *)

Definition is_nilb {X} (l : list X) : bool := match l with [] => true | _ => false end.
Definition col_wfb (M : lp_model) (c : scol) : bool :=
  negb (is_nilb (sc_coefs c)) && snodupb (map fst (sc_coefs c)) &&
  forallb (fun p => smem (fst p) (lp_objrow M :: map sr_name (lp_rows M))) (sc_coefs c).
Definition rng_okb (M : lp_model) (r : srow) : bool :=
  match sr_range r with
  | Some rg => negb (rty_eqb (sr_ty r) RN) && negb (qeqb rg 0)
  | None => true
  end.
Definition var_nonanb (M : lp_model) (c : scol) : bool :=
  negb (is_nan (av_lo (col_meaning M c))) && negb (is_nan (av_up (col_meaning M c))).

Definition wf_sem (M : lp_model) : bool :=
  snodupb (lp_objrow M :: map sr_name (lp_rows M))
  && snodupb (map sc_name (lp_cols M))
  && forallb (col_wfb M) (lp_cols M)
  && forallb (rng_okb M) (lp_rows M)
  && (trim (lp_name M) =? lp_name M)
  && ids_okb (fun x : string => x) VAR_PREFIX (map sc_name (lp_cols M))
  && (negb (is_nilb (range_entries M)) || ids_okb sr_name CONSTR_PREFIX (nonN (lp_rows M)))
  && forallb (var_nonanb M) (lp_cols M).

Definition wf_model (M : lp_model) : bool := wf_lex M && wf_sem M.

Lemma snodupb_NoDup l : snodupb l = true -> NoDup l.
Proof.
  induction l as [|x l IH]; cbn [snodupb]; intro H; constructor.
  - apply andb_true_iff in H. destruct H as [H _]. apply negb_true_iff in H.
    intro Hi. apply smem_In in Hi. congruence.
  - apply IH. apply andb_true_iff in H. tauto.
Qed.

Theorem load_render_represents : forall ly M, wf_model M = true ->
  exists I, load_lines (render ly M) = Ok I /\ represents I (meaning M).
Proof.
  intros ly M W. unfold wf_model in W. apply andb_true_iff in W. destruct W as [Wl Ws].
  unfold load_lines. rewrite (parse_render_typed ly M Wl).
  unfold wf_sem in Ws.
  apply andb_true_iff in Ws; destruct Ws as [Ws Wnan].
  apply andb_true_iff in Ws; destruct Ws as [Ws Wcid].
  apply andb_true_iff in Ws; destruct Ws as [Ws Wvid].
  apply andb_true_iff in Ws; destruct Ws as [Ws Wname].
  apply andb_true_iff in Ws; destruct Ws as [Ws Wrng].
  apply andb_true_iff in Ws; destruct Ws as [Ws Wcoef].
  apply andb_true_iff in Ws; destruct Ws as [Wrows Wcols].
  apply load_represents.
  - unfold wf_lex in Wl. do 5 (apply andb_true_iff in Wl; destruct Wl as [Wl _]).
    apply tok_nonempty. exact Wl.
  - apply snodupb_NoDup. exact Wrows.
  - apply snodupb_NoDup. exact Wcols.
  - apply Forall_forall. intros c Hc. rewrite forallb_forall in Wcoef. specialize (Wcoef c Hc).
    unfold col_wfb in Wcoef. apply andb_true_iff in Wcoef. destruct Wcoef as [Wc W3].
    apply andb_true_iff in Wc. destruct Wc as [W1 W2]. split; [|split].
    + intro E. rewrite E in W1. discriminate.
    + apply snodupb_NoDup. exact W2.
    + intros p Hp. rewrite forallb_forall in W3. apply smem_In. apply W3. exact Hp.
  - intros r rg Hr R. rewrite forallb_forall in Wrng. specialize (Wrng r Hr). unfold rng_okb in Wrng.
    rewrite R in Wrng. apply andb_true_iff in Wrng. destruct Wrng as [W1 W2].
    apply negb_true_iff in W1, W2. split.
    + intro E. rewrite E in W1. discriminate.
    + apply qeqb_neq. exact W2.
  - apply String.eqb_eq. exact Wname.
  - exact Wvid.
  - apply orb_true_iff in Wcid. destruct Wcid as [H|H]; [left|right; exact H].
    intro E. rewrite E in H. discriminate.
  - intros c Hc. rewrite forallb_forall in Wnan. specialize (Wnan c Hc). unfold var_nonanb in Wnan.
    apply andb_true_iff in Wnan. destruct Wnan as [N1 N2]. apply negb_true_iff in N1, N2. auto.
Qed.

(* the check of RunC17, for all models and layouts *)
Theorem load_render_match_spec : forall ly M, wf_model M = true ->
  exists I, load_lines (render ly M) = Ok I /\ match_spec I (meaning M) = None.
Proof.
  intros ly M W. destruct (load_render_represents ly M W) as (I & H1 & H2).
  exists I. split; [exact H1|apply represents_match_spec; exact H2].
Qed.

(* hence the verdict of [judge_load] on a rendered text never is the bad case
   "reader model differs from meaning M" / "reader model rejects a rendered model" *)
Corollary judge_load_rendered : forall ly M r, wf_model M = true ->
  judge_load M false (render ly M) r =
  match ok_payload r with
  | None => disagree "a well-formed text must load" (A "ok")
  | Some p =>
      match d_inst p with
      | None => badresult "mps_load: result shape"
      | Some Is =>
          match match_spec Is (meaning M) with
          | Some why => disagree why (A "see meaning M")
          | None => agree ["ok"]
          end
      end
  end.
Proof.
  intros ly M r W. destruct (load_render_match_spec ly M W) as (I & H1 & H2).
  unfold judge_load. rewrite H1, H2. reflexivity.
Qed.

(* ---- non-vacuity ---- *)
Definition ex_model : lp_model :=
  {| lp_name := "demo"; lp_sense := Some true; lp_objrow := "COST"; lp_objconst := qz 3;
     lp_rows := [ {| sr_name := "e1"; sr_ty := RE; sr_rhs := Some (qz 4); sr_range := Some (qz (-2)) |};
                  {| sr_name := "e2"; sr_ty := RE; sr_rhs := Some (qz 1); sr_range := Some (qz 2) |};
                  {| sr_name := "g1"; sr_ty := RG; sr_rhs := Some (qz 1); sr_range := None |};
                  {| sr_name := "l1"; sr_ty := RL; sr_rhs := None; sr_range := Some (qz 5) |};
                  {| sr_name := "free"; sr_ty := RN; sr_rhs := None; sr_range := None |} ];
     lp_cols := [ {| sc_name := "x"; sc_int := false;
                     sc_coefs := [("COST", qz 1); ("e1", qz 2); ("g1", qz (-1)); ("free", qz 9)] |};
                  {| sc_name := "y"; sc_int := true;
                     sc_coefs := [("e1", qz 1); ("e2", qz 1); ("l1", qz 3)] |};
                  {| sc_name := "z"; sc_int := false; sc_coefs := [("COST", qz (-2)); ("l1", qz 1)] |} ];
     lp_bounds := [ {| b_kw := UP; b_col := "x"; b_val := Fin (qz (-4)) |};
                    {| b_kw := UP; b_col := "y"; b_val := Fin (qz 1) |};
                    {| b_kw := FR; b_col := "z"; b_val := Fin 0 |} ] |}.
Example ex_model_wf : wf_model ex_model = true.
Proof. vm_compute. reflexivity. Qed.

(* all names tagged: the ID-recovery branch of convert *)
Definition ex_model_tagged : lp_model :=
  {| lp_name := ""; lp_sense := None; lp_objrow := "OBJ"; lp_objconst := 0;
     lp_rows := [ {| sr_name := "OMMX_CONSTR_7"; sr_ty := RL; sr_rhs := Some (qz 4); sr_range := None |};
                  {| sr_name := "OMMX_CONSTR_2"; sr_ty := RG; sr_rhs := None; sr_range := None |} ];
     lp_cols := [ {| sc_name := "OMMX_VAR_5"; sc_int := true;
                     sc_coefs := [("OBJ", qz 1); ("OMMX_CONSTR_7", Q2Qc (5 # 4))] |};
                  {| sc_name := "OMMX_VAR_0"; sc_int := false;
                     sc_coefs := [("OMMX_CONSTR_2", qz (-3)); ("OMMX_CONSTR_7", qz 1)] |} ];
     lp_bounds := [ {| b_kw := BV; b_col := "OMMX_VAR_5"; b_val := Fin 0 |};
                    {| b_kw := MI; b_col := "OMMX_VAR_0"; b_val := Fin 0 |} ] |}.
Example ex_model_tagged_wf : wf_model ex_model_tagged = true.
Proof. vm_compute. reflexivity. Qed.

(* Layer 1 also covers rejected texts: an entry in an undeclared row *)
Definition ex_model_bad : lp_model :=
  {| lp_name := "t"; lp_sense := None; lp_objrow := "obj"; lp_objconst := 0;
     lp_rows := [ {| sr_name := "r1"; sr_ty := RL; sr_rhs := None; sr_range := None |} ];
     lp_cols := [ {| sc_name := "x"; sc_int := false; sc_coefs := [("obj", qz 1); ("nosuch", qz 2)] |} ];
     lp_bounds := [] |}.
Example ex_model_bad_typed :
  wf_lex ex_model_bad = true /\ typed_parse ex_model_bad = Err (EUnknownRowName "nosuch").
Proof. vm_compute. split; reflexivity. Qed.

(* the objective row is called like the row RANGES would generate for [lim]: the generated row
   steps aside ("lim__"), and the objective constant is the file's (- RHS of the objective row) *)
Definition ex_model_clash : lp_model :=
  {| lp_name := "clash"; lp_sense := None; lp_objrow := "lim_"; lp_objconst := qz 7;
     lp_rows := [ {| sr_name := "lim"; sr_ty := RL; sr_rhs := Some (qz 10); sr_range := Some (qz 4) |} ];
     lp_cols := [ {| sc_name := "x"; sc_int := false; sc_coefs := [("lim_", qz 1); ("lim", qz 2)] |} ];
     lp_bounds := [] |}.
Definition ex_layout_plain : layout :=
  {| ly_five := false; ly_comments := false; ly_blanks := false; ly_inline := true; ly_tabs := false |}.
Example ex_model_clash_loaded :
  wf_model ex_model_clash = true /\
  rhs_entries ex_model_clash = [("lim_", qz (-7)); ("lim", qz 10)] /\
  match load_lines (render ex_layout_plain ex_model_clash) with
  | Ok J =>
      lin_of (in_obj J) = Some ([(0%N, qz 1)], qz 7) /\
      map cons_label (in_cons J) = ["lim"; "lim__"] /\
      match_spec J (meaning ex_model_clash) = None
  | Err _ => False
  end.
Proof. vm_compute. repeat split; reflexivity. Qed.

Print Assumptions parse_render_typed.
Print Assumptions load_render_represents.
Print Assumptions load_render_match_spec.
Print Assumptions judge_load_rendered.

(* ================================================================== *)
(* 12. discharging [num_ok]: every number the printer prints as a terminating decimal
       (fewer than 64 fractional digits) is a token and reads back.  (The decimal lemmas follow
       the development made for the writer round trip, C18; repeated here so that this file
       only depends on the model and the specification.) *)

Lemma nows_app a b : nows (a +++ b) = nows a && nows b.
Proof.
  induction a as [|c a IH]; [reflexivity|]. rewrite sapp_cons. cbn [nows]. rewrite IH.
  rewrite andb_assoc. reflexivity.
Qed.
Lemma sempty_app a b : sempty (a +++ b) = sempty a && sempty b.
Proof. destruct a; reflexivity. Qed.
Lemma tok_app_l a b : tok a = true -> nows b = true -> tok (a +++ b) = true.
Proof.
  unfold tok. intros Ha Hb. apply andb_true_iff in Ha. destruct Ha as [H1 H2].
  rewrite sempty_app, nows_app, H2, Hb. apply negb_true_iff in H1. rewrite H1. reflexivity.
Qed.

Definition dchar (d : N) : ascii := ascii_of_N (48 + d).

Lemma digit_cases (d : N) : (d < 10)%N ->
  d = 0%N \/ d = 1%N \/ d = 2%N \/ d = 3%N \/ d = 4%N \/ d = 5%N \/ d = 6%N \/ d = 7%N \/ d = 8%N \/ d = 9%N.
Proof. lia. Qed.
Ltac digits d H :=
  let C := fresh in
  pose proof (digit_cases d H) as C;
  repeat (destruct C as [C|C]; [subst d; reflexivity|]); subst d; reflexivity.

Lemma digit_of_dchar d : (d < 10)%N -> digit_of (dchar d) = Some d.
Proof. intro H. digits d H. Qed.
Lemma is_ws_dchar d : (d < 10)%N -> is_ws (dchar d) = false.
Proof. intro H. digits d H. Qed.
Lemma dchar_not_plus d : (d < 10)%N -> Ascii.eqb (dchar d) "+"%char = false.
Proof. intro H. digits d H. Qed.

Lemma print_N_aux_spec : forall f n acc, (n < 2 ^ N.of_nat (S f))%N ->
  (exists k, (0 < k)%N /\ forall a c,
      read_digits (print_N_aux (S f) n acc) a c = read_digits acc (a * 10 ^ k + n)%N (c + k)%N) /\
  (exists d s, (d < 10)%N /\ print_N_aux (S f) n acc = String (dchar d) s) /\
  nows (print_N_aux (S f) n acc) = nows acc.
Proof.
  induction f as [|f IH]; intros n acc Hn.
  - assert (Hd : (n / 10 = 0)%N) by (apply N.div_small; cbn in Hn; lia).
    assert (Hm : (n mod 10 = n)%N) by (apply N.mod_small; cbn in Hn; lia).
    cbn [print_N_aux]. rewrite Hd, Hm. cbn [N.eqb].
    assert (L : (n < 10)%N) by (cbn in Hn; lia).
    split; [|split].
    + exists 1%N. split; [lia|]. intros a c. cbn [read_digits]. fold (dchar n).
      rewrite (digit_of_dchar n L). rewrite N.pow_1_r. reflexivity.
    + exists n, acc. split; [exact L|reflexivity].
    + cbn [nows]. fold (dchar n). rewrite (is_ws_dchar n L). reflexivity.
  - assert (L : (n mod 10 < 10)%N) by (apply N.mod_lt; lia).
    change (print_N_aux (S (S f)) n acc)
      with (if (n / 10 =? 0)%N then String (dchar (n mod 10)) acc
            else print_N_aux (S f) (n / 10)%N (String (dchar (n mod 10)) acc)).
    destruct (n / 10 =? 0)%N eqn:E.
    + apply N.eqb_eq in E.
      assert (Hm : (n mod 10 = n)%N).
      { pose proof (N.div_mod n 10). lia. }
      split; [|split].
      * exists 1%N. split; [lia|]. intros a c. cbn [read_digits].
        rewrite (digit_of_dchar _ L). rewrite Hm. rewrite N.pow_1_r. reflexivity.
      * exists (n mod 10)%N, acc. split; [exact L|reflexivity].
      * cbn [nows]. rewrite (is_ws_dchar _ L). reflexivity.
    + assert (Hq : (n / 10 < 2 ^ N.of_nat (S f))%N).
      { apply N.div_lt_upper_bound; [lia|].
        replace (N.of_nat (S (S f))) with (N.succ (N.of_nat (S f))) in Hn by lia.
        rewrite N.pow_succ_r' in Hn. lia. }
      destruct (IH (n / 10)%N (String (dchar (n mod 10)) acc) Hq) as [[k [Hk R]] [[d [s [Hd Es]]] W]].
      split; [|split].
      * exists (k + 1)%N. split; [lia|]. intros a c. rewrite R. cbn [read_digits].
        rewrite (digit_of_dchar _ L). f_equal; [|lia].
        rewrite N.pow_add_r. pose proof (N.div_mod n 10). lia.
      * exists d, s. split; [exact Hd|exact Es].
      * rewrite W. cbn [nows]. rewrite (is_ws_dchar _ L). reflexivity.
Qed.

Lemma print_N_fuel n : (n < 2 ^ N.of_nat (S (N.to_nat (N.log2 n))))%N.
Proof.
  replace (N.of_nat (S (N.to_nat (N.log2 n)))) with (N.succ (N.log2 n)) by lia.
  destruct (N.eq_dec n 0) as [->|Hn]; [reflexivity|].
  apply N.log2_spec. lia.
Qed.

Lemma print_N_spec n :
  (exists k, (0 < k)%N /\ read_digits (print_N n) 0 0 = (n, k, "")) /\
  (exists d s, (d < 10)%N /\ print_N n = String (dchar d) s) /\
  nows (print_N n) = true.
Proof.
  unfold print_N.
  destruct (print_N_aux_spec (N.to_nat (N.log2 n)) n "" (print_N_fuel n)) as [[k [Hk R]] [D W]].
  split; [|split; [exact D|exact W]].
  exists k. split; [exact Hk|]. rewrite R. cbn [read_digits]. rewrite N.mul_0_l, !N.add_0_l. reflexivity.
Qed.

Lemma tok_print_N n : tok (print_N n) = true.
Proof.
  destruct (print_N_spec n) as [_ [[d [s [_ E]]] W]]. unfold tok. rewrite W, E. reflexivity.
Qed.

Lemma nows_zeros n : nows (zeros n) = true.
Proof. induction n as [|n IH]; [reflexivity|]. cbn [zeros nows]. rewrite IH. reflexivity. Qed.

Lemma tok_print_num q : tok (print_num q) = true.
Proof.
  unfold print_num. destruct (find_k 64 (Z.pos (Qden q)) 0) as [k|]; [|reflexivity].
  set (ip := print_N _). set (fp := print_N _).
  assert (Hi : tok ip = true) by apply tok_print_N.
  assert (Hf : nows fp = true) by (apply tok_nows, tok_print_N).
  assert (T : nows (if (k =? 0)%Z then "" else "." +++ pad_left (Z.to_nat k) fp) = true).
  { destruct (k =? 0)%Z; [reflexivity|]. rewrite nows_app. unfold pad_left. rewrite nows_app, nows_zeros, Hf. reflexivity. }
  destruct (Qnum q <? 0)%Z.
  - apply tok_app_l; [reflexivity|]. rewrite nows_app, T, (tok_nows _ Hi). reflexivity.
  - rewrite sapp_empty. apply tok_app_l; assumption.
Qed.
Lemma tok_print_ext x : tok (print_ext x) = true.
Proof. destruct x; try reflexivity. apply tok_print_num. Qed.

Lemma print_N_spec_gen n : exists k, (0 < k)%N /\
  forall a c, read_digits (print_N n) a c = ((a * 10 ^ k + n)%N, (c + k)%N, "").
Proof.
  unfold print_N.
  destruct (print_N_aux_spec (N.to_nat (N.log2 n)) n "" (print_N_fuel n)) as [[k [Hk R]] _].
  exists k. split; [exact Hk|]. intros a c. rewrite R. reflexivity.
Qed.

Lemma read_digits_app s : forall a c a' c' t,
  read_digits s a c = (a', c', "") -> read_digits (s +++ t) a c = read_digits t a' c'.
Proof.
  induction s as [|x s IH]; intros a c a' c' t H.
  - cbn [read_digits] in H. inversion H; subst. reflexivity.
  - rewrite sapp_cons. cbn [read_digits] in *. destruct (digit_of x); [apply IH; exact H|discriminate].
Qed.
Lemma read_digits_count s : forall a c a' c',
  read_digits s a c = (a', c', "") -> c' = (c + N.of_nat (String.length s))%N.
Proof.
  induction s as [|x s IH]; intros a c a' c' H; cbn [read_digits String.length] in *.
  - inversion H; subst. lia.
  - destruct (digit_of x); [|discriminate]. apply IH in H. lia.
Qed.
Lemma read_digits_zeros z : forall t a c,
  read_digits (zeros z +++ t) a c = read_digits t (a * 10 ^ N.of_nat z)%N (c + N.of_nat z)%N.
Proof.
  induction z as [|z IH]; intros t a c.
  - cbn [zeros]. rewrite sapp_empty. f_equal; cbn; lia.
  - cbn [zeros]. rewrite sapp_cons. cbn [read_digits].
    change (digit_of "0"%char) with (Some 0%N). cbv beta iota. rewrite IH. f_equal.
    + rewrite Nat2N.inj_succ, N.pow_succ_r'. lia.
    + lia.
Qed.

Lemma print_N_aux_length : forall f n acc j, (n < 2 ^ N.of_nat (S f))%N -> (0 < j)%nat ->
  (n < 10 ^ N.of_nat j)%N ->
  (String.length (print_N_aux (S f) n acc) <= j + String.length acc)%nat.
Proof.
  induction f as [|f IH]; intros n acc j Hn Hj Hlt.
  - assert (Hd : (n / 10 = 0)%N) by (apply N.div_small; cbn in Hn; lia).
    cbn [print_N_aux]. rewrite Hd. cbn [N.eqb String.length]. lia.
  - change (print_N_aux (S (S f)) n acc)
      with (if (n / 10 =? 0)%N then String (dchar (n mod 10)) acc
            else print_N_aux (S f) (n / 10)%N (String (dchar (n mod 10)) acc)).
    destruct (n / 10 =? 0)%N eqn:E; [cbn [String.length]; lia|].
    apply N.eqb_neq in E.
    assert (Hq : (n / 10 < 2 ^ N.of_nat (S f))%N).
    { apply N.div_lt_upper_bound; [lia|].
      replace (N.of_nat (S (S f))) with (N.succ (N.of_nat (S f))) in Hn by lia.
      rewrite N.pow_succ_r' in Hn. lia. }
    destruct j as [|j]; [lia|].
    destruct j as [|j].
    { exfalso. apply E. apply N.div_small. cbn in Hlt. lia. }
    assert (Hlt' : (n / 10 < 10 ^ N.of_nat (S j))%N).
    { apply N.div_lt_upper_bound; [lia|].
      replace (N.of_nat (S (S j))) with (N.succ (N.of_nat (S j))) in Hlt by lia.
      rewrite N.pow_succ_r' in Hlt. exact Hlt. }
    pose proof (IH (n / 10)%N (String (dchar (n mod 10)) acc) (S j) Hq (Nat.lt_0_succ j) Hlt') as L.
    cbn [String.length] in L. lia.
Qed.
Lemma print_N_length n j : (0 < j)%nat -> (n < 10 ^ N.of_nat j)%N -> (String.length (print_N n) <= j)%nat.
Proof.
  intros Hj Hlt. unfold print_N.
  pose proof (print_N_aux_length (N.to_nat (N.log2 n)) n "" j (print_N_fuel n) Hj Hlt) as L.
  cbn [String.length] in L. lia.
Qed.

Lemma dchar_not_minus d : (d < 10)%N -> Ascii.eqb (dchar d) "-"%char = false.
Proof. intro H. digits d H. Qed.
Lemma lower_dchar_i d : (d < 10)%N -> Ascii.eqb (lower (dchar d)) "i"%char = false.
Proof. intro H. digits d H. Qed.
Lemma lower_dchar_n d : (d < 10)%N -> Ascii.eqb (lower (dchar d)) "n"%char = false.
Proof. intro H. digits d H. Qed.

(* the prefix [read_f64] performs before the digits, on a string that starts with a digit *)
Lemma starts_digit_sign d s : (d < 10)%N -> read_sign (String (dchar d) s) = (false, String (dchar d) s).
Proof. intro H. cbn [read_sign]. rewrite (dchar_not_minus d H), (dchar_not_plus d H). reflexivity. Qed.
Lemma starts_digit_words d s : (d < 10)%N ->
  ((slower (String (dchar d) s) =? "inf") || (slower (String (dchar d) s) =? "infinity") = false) /\
  (slower (String (dchar d) s) =? "nan") = false.
Proof.
  intro H. cbn [slower String.eqb]. rewrite (lower_dchar_i d H), (lower_dchar_n d H). split; reflexivity.
Qed.

Definition dec_text (neg : bool) (ip : N) (tail : string) : string :=
  (if neg then "-" else "") +++ print_N ip +++ tail.

Lemma read_f64_dec_text neg ip tail :
  read_f64 (dec_text neg ip tail) =
  let '(n1, k1, r1) := read_digits (print_N ip +++ tail) 0%N 0%N in
  let '(n2, k2, r2) :=
    match r1 with
    | String c r1' => if Ascii.eqb c "."%char then read_digits r1' n1 0%N else (n1, 0%N, r1)
    | EmptyString => (n1, 0%N, r1)
    end in
  if (k1 + k2 =? 0)%N then None
  else
    match r2 with
    | EmptyString => Some (Fin (dec_value neg n2 k2 false 0%N))
    | String c r3 =>
        if Ascii.eqb (lower c) "e"%char then
          let '(eneg, r4) := read_sign r3 in
          let '(e, ke, r5) := read_digits r4 0%N 0%N in
          if (ke =? 0)%N || negb (sempty r5) then None
          else Some (Fin (dec_value neg n2 k2 eneg e))
        else None
    end.
Proof.
  destruct (print_N_spec ip) as [_ [[d [s [Hd E]]] _]].
  assert (S : read_sign (dec_text neg ip tail) = (neg, print_N ip +++ tail)).
  { unfold dec_text. destruct neg; [reflexivity|]. rewrite sapp_empty, E, sapp_cons. apply starts_digit_sign. exact Hd. }
  unfold read_f64. rewrite S.
  destruct (starts_digit_words d (s +++ tail) Hd) as [W1 W2].
  rewrite E, sapp_cons, W1, W2. reflexivity.
Qed.

Lemma read_f64_int neg ip :
  read_f64 (dec_text neg ip "") = Some (Fin (dec_value neg ip 0 false 0)).
Proof.
  rewrite read_f64_dec_text. rewrite sapp_nil_r.
  destruct (print_N_spec_gen ip) as [k [Hk R]]. rewrite R.
  rewrite N.mul_0_l, !N.add_0_l, N.add_0_r.
  assert (K : (k =? 0)%N = false) by (apply N.eqb_neq; lia). rewrite K. reflexivity.
Qed.

Lemma read_f64_frac neg ip fp j : (0 < j)%nat -> (fp < 10 ^ N.of_nat j)%N ->
  read_f64 (dec_text neg ip ("." +++ pad_left j (print_N fp))) =
  Some (Fin (dec_value neg (ip * 10 ^ N.of_nat j + fp) (N.of_nat j) false 0)).
Proof.
  intros Hj Hfp. rewrite read_f64_dec_text.
  destruct (print_N_spec_gen ip) as [k [Hk R]].
  rewrite (read_digits_app _ _ _ _ _ _ (R 0%N 0%N)).
  rewrite N.mul_0_l, !N.add_0_l.
  rewrite sapp_cons, sapp_empty. cbn [read_digits].
  change (digit_of "."%char) with (@None N). cbv beta iota.
  change (Ascii.eqb "."%char "."%char) with true. cbv beta iota.
  unfold pad_left. rewrite read_digits_zeros.
  destruct (print_N_spec_gen fp) as [kf [Hkf Rf]]. rewrite Rf.
  pose proof (read_digits_count _ _ _ _ _ (Rf 0%N 0%N)) as C. rewrite N.add_0_l in C.
  pose proof (print_N_length fp j Hj Hfp) as Len.
  assert (Ek : (0 + N.of_nat (j - String.length (print_N fp)) + kf = N.of_nat j)%N) by lia.
  rewrite Ek.
  assert (Em : (ip * 10 ^ N.of_nat (j - String.length (print_N fp)) * 10 ^ kf + fp = ip * 10 ^ N.of_nat j + fp)%N).
  { rewrite <- N.mul_assoc, <- N.pow_add_r. f_equal. f_equal. f_equal. lia. }
  rewrite Em.
  assert (K : (k + N.of_nat j =? 0)%N = false) by (apply N.eqb_neq; lia). rewrite K. reflexivity.
Qed.

Lemma find_k_spec d : forall fuel k0 k, find_k fuel d k0 = Some k ->
  (k0 <= k)%Z /\ ((10 ^ k) mod d = 0)%Z.
Proof.
  induction fuel as [|f IH]; intros k0 k H; cbn [find_k] in H; [discriminate|].
  destruct ((10 ^ k0) mod d =? 0)%Z eqn:E.
  - inversion H; subst. split; [lia|apply Z.eqb_eq; exact E].
  - apply IH in H. destruct H as [H1 H2]. split; [lia|exact H2].
Qed.

Definition printable (q : num) : bool :=
  match find_k 64 (Z.pos (Qden q)) 0 with Some _ => true | None => false end.

Lemma dec_value_int (neg : bool) (z : Z) : (0 <= z)%Z ->
  dec_value neg (Z.to_N z) 0 false 0 = Q2Qc (inject_Z (if neg then - z else z)).
Proof.
  intro Hz. unfold dec_value. change (Z.of_N 0) with 0%Z. change (0 - 0)%Z with 0%Z.
  change (0 <=? 0)%Z with true. cbv iota. change (10 ^ 0)%Z with 1%Z. rewrite Z2N.id by exact Hz.
  rewrite Z.mul_1_r. destruct neg; [|reflexivity].
  apply Qc_is_canon. rewrite !this_Q2Qc. unfold inject_Z, Qopp, Qeq. cbn [Qnum Qden]. lia.
Qed.

Lemma read_printable q : printable q = true ->
  match read_f64 (print_num q) with Some (Fin q') => qeqb q' q | _ => false end = true.
Proof.
  unfold printable. destruct q as [[qn qd] Hc]. unfold print_num. cbn [this Qnum Qden].
  destruct (find_k 64 (Z.pos qd) 0) as [k|] eqn:Fk; [|discriminate]. intros _.
  destruct (find_k_spec _ _ _ _ Fk) as [Hk0 Hdiv].
  set (d := Z.pos qd) in *.
  assert (Hd : (0 < d)%Z) by (unfold d; lia).
  assert (P10 : (0 < 10 ^ k)%Z) by (apply Z.pow_pos_nonneg; lia).
  set (m := (Z.abs qn * 10 ^ k / d)%Z).
  assert (Hm : (m * d = Z.abs qn * 10 ^ k)%Z).
  { unfold m. apply Z.mod_divide in Hdiv; [|lia]. destruct Hdiv as [e He]. rewrite He.
    rewrite Z.mul_assoc, Z.div_mul by lia. ring. }
  assert (Hm0 : (0 <= m)%Z) by (unfold m; apply Z.div_pos; [|exact Hd]; apply Z.mul_nonneg_nonneg; lia).
  pose proof (Z.div_mod m (10 ^ k) ltac:(lia)) as DM.
  pose proof (Z.mod_pos_bound m (10 ^ k) P10) as MB.
  assert (Hip : (0 <= m / 10 ^ k)%Z) by (apply Z.div_pos; lia).
  fold (dec_text (qn <? 0)%Z (Z.to_N (m / 10 ^ k))
          (if (k =? 0)%Z then "" else "." +++ pad_left (Z.to_nat k) (print_N (Z.to_N (m mod 10 ^ k))))).
  destruct (k =? 0)%Z eqn:K0.
  - (* an integer *)
    apply Z.eqb_eq in K0. subst k. rewrite read_f64_int.
    change (10 ^ 0)%Z with 1%Z in *. rewrite Z.div_1_r in *.
    assert (D1 : d = 1%Z).
    { destruct (Z.eq_dec d 1) as [E|E]; [exact E|]. rewrite Z.mod_1_l in Hdiv by lia. lia. }
    rewrite (dec_value_int _ _ Hm0). apply qeqb_eq. apply Qc_is_canon. rewrite this_Q2Qc. cbn [this].
    unfold inject_Z, Qeq. cbn [Qnum Qden]. fold d. rewrite D1 in *.
    destruct (qn <? 0)%Z eqn:Sg; [apply Z.ltb_lt in Sg|apply Z.ltb_ge in Sg]; lia.
  - apply Z.eqb_neq in K0.
    assert (Jpos : (0 < Z.to_nat k)%nat) by lia.
    assert (Fb : (Z.to_N (m mod 10 ^ k) < 10 ^ N.of_nat (Z.to_nat k))%N).
    { apply N2Z.inj_lt. rewrite N2Z.inj_pow, Z2N.id by lia. rewrite nat_N_Z, Z2Nat.id by lia.
      change (Z.of_N 10) with 10%Z. lia. }
    rewrite (read_f64_frac _ _ _ _ Jpos Fb).
    apply qeqb_eq. unfold dec_value.
    assert (EZ : Z.of_N (Z.to_N (m / 10 ^ k) * 10 ^ N.of_nat (Z.to_nat k) + Z.to_N (m mod 10 ^ k)) = m).
    { rewrite N2Z.inj_add, N2Z.inj_mul, N2Z.inj_pow, !Z2N.id by lia. rewrite nat_N_Z, Z2Nat.id by lia.
      change (Z.of_N 10) with 10%Z. lia. }
    rewrite EZ. rewrite nat_N_Z, Z2Nat.id by lia. cbn [Z.of_N].
    assert (EX : (0 - k <? 0)%Z = true) by (apply Z.ltb_lt; lia).
    assert (EL : (0 <=? 0 - k)%Z = false) by (apply Z.leb_gt; lia). rewrite EL.
    replace (- (0 - k))%Z with k by lia.
    apply Qc_is_canon. rewrite this_Q2Qc. cbn [this].
    destruct (qn <? 0)%Z eqn:Sg; [apply Z.ltb_lt in Sg|apply Z.ltb_ge in Sg];
      unfold Qopp, Qeq; cbn [Qnum Qden]; rewrite Z2Pos.id by lia; fold d; lia.
Qed.

Theorem num_ok_printable q : printable q = true -> num_ok q = true.
Proof. intro H. unfold num_ok. rewrite tok_print_num, (read_printable q H). reflexivity. Qed.
Print Assumptions num_ok_printable.

(* ---- the theorems with no assumption left about the number printer / parser ---- *)
Definition ext_printable (x : ext) : bool := match x with Fin q => printable q | _ => true end.
Definition entry_dec (e : string * num) : bool := tok (fst e) && printable (snd e).
Definition coef_dec (e : string * num) : bool := entry_dec e && negb (fst e =? "'MARKER'").
Definition bstmt_dec (b : bstmt) : bool :=
  tok (b_col b) && (if kw_needs_value (b_kw b) then ext_printable (b_val b) else true).
(* names are tokens, no row is called 'MARKER', every number is a terminating decimal *)
Definition wf_lex_dec (M : lp_model) : bool :=
  tok (lp_objrow M)
  && forallb (fun r => tok (sr_name r)) (lp_rows M)
  && forallb (fun c => tok (sc_name c) && forallb coef_dec (sc_coefs c)) (lp_cols M)
  && forallb entry_dec (rhs_entries M)
  && forallb entry_dec (range_entries M)
  && forallb bstmt_dec (lp_bounds M).
Definition wf_model_dec (M : lp_model) : bool := wf_lex_dec M && wf_sem M.

Lemma forallb_impl {X} (p q : X -> bool) l : (forall x, p x = true -> q x = true) ->
  forallb p l = true -> forallb q l = true.
Proof. intros H Hp. rewrite forallb_forall in *. intros x Hx. apply H. apply Hp. exact Hx. Qed.

Lemma entry_dec_ok e : entry_dec e = true -> entry_ok e = true.
Proof.
  unfold entry_dec, entry_ok. intro H. apply andb_true_iff in H. destruct H as [H1 H2].
  rewrite H1, (num_ok_printable _ H2). reflexivity.
Qed.
Lemma wf_lex_dec_wf_lex M : wf_lex_dec M = true -> wf_lex M = true.
Proof.
  unfold wf_lex_dec, wf_lex. intro H.
  apply andb_true_iff in H; destruct H as [H H6].
  apply andb_true_iff in H; destruct H as [H H5].
  apply andb_true_iff in H; destruct H as [H H4].
  apply andb_true_iff in H; destruct H as [H H3].
  apply andb_true_iff in H; destruct H as [H1 H2].
  rewrite H1, H2. cbn [andb].
  assert (H3' : forallb (fun c => tok (sc_name c) && forallb coef_ok (sc_coefs c)) (lp_cols M) = true).
  { revert H3. apply forallb_impl.
    intros c Hc. apply andb_true_iff in Hc. destruct Hc as [Hc1 Hc2]. rewrite Hc1. cbn [andb].
    revert Hc2. apply forallb_impl. intros e He. unfold coef_dec, coef_ok in *.
    apply andb_true_iff in He. destruct He as [He1 He2]. rewrite (entry_dec_ok _ He1), He2. reflexivity. }
  rewrite H3'.
  rewrite (forallb_impl _ _ _ entry_dec_ok H4), (forallb_impl _ _ _ entry_dec_ok H5). cbn [andb].
  revert H6. apply forallb_impl. intros b Hb. unfold bstmt_dec, bstmt_ok in *.
  apply andb_true_iff in Hb. destruct Hb as [Hb1 Hb2]. rewrite Hb1. cbn [andb].
  destruct (kw_needs_value (b_kw b)); [|reflexivity].
  destruct (b_val b); cbn [ext_printable ext_ok] in *; try reflexivity. apply num_ok_printable. exact Hb2.
Qed.
Lemma wf_model_dec_wf_model M : wf_model_dec M = true -> wf_model M = true.
Proof.
  unfold wf_model_dec, wf_model. intro H. apply andb_true_iff in H. destruct H as [H1 H2].
  rewrite (wf_lex_dec_wf_lex M H1), H2. reflexivity.
Qed.

Theorem parse_render_typed_decimal : forall ly M, wf_lex_dec M = true ->
  parse_lines (render ly M) = typed_parse M.
Proof. intros ly M H. apply parse_render_typed. apply wf_lex_dec_wf_lex. exact H. Qed.

Theorem load_render_represents_decimal : forall ly M, wf_model_dec M = true ->
  exists I, load_lines (render ly M) = Ok I /\ represents I (meaning M).
Proof. intros ly M H. apply load_render_represents. apply wf_model_dec_wf_model. exact H. Qed.

Theorem load_render_match_spec_decimal : forall ly M, wf_model_dec M = true ->
  exists I, load_lines (render ly M) = Ok I /\ match_spec I (meaning M) = None.
Proof. intros ly M H. apply load_render_match_spec. apply wf_model_dec_wf_model. exact H. Qed.

Example ex_model_wf_dec : wf_model_dec ex_model = true.
Proof. vm_compute. reflexivity. Qed.
Example ex_model_tagged_wf_dec : wf_model_dec ex_model_tagged = true.
Proof. vm_compute. reflexivity. Qed.

Print Assumptions parse_render_typed_decimal.
Print Assumptions load_render_represents_decimal.
Print Assumptions load_render_match_spec_decimal.
