(* PEvalInstState.v — C03 at instance level, the recorded variable values: the state reported by
   evaluating the partially evaluated instance at s2 equals, id by id, the state reported by
   evaluating the original at s1 u s2 (fixed variables through their substituted values, dependent
   variables through the partially evaluated dependency functions, whatever order the dependency
   pass takes on either side). *)
Require Import Ommx.Num Ommx.Poly Ommx.Msg Ommx.Eval Ommx.Tree Ommx.Arith Ommx.PEval Ommx.PEvalProofs
        Ommx.Inst Ommx.InstProofs Ommx.Transform Ommx.PEvalInst Ommx.Subst Ommx.SubstProofs Ommx.DepsOrder.
From Coq Require Import String Permutation.
Close Scope string_scope.
Open Scope list_scope.
Open Scope Qc_scope.

Definition seqv (a b : state) : Prop := forall i, sget a i = sget b i.
Lemma seqv_sext a b : seqv a b -> sext a b.
Proof. intros H i v G. rewrite <- H. exact G. Qed.
Lemma seqv_sym a b : seqv a b -> seqv b a.
Proof. intros H i. symmetry. apply H. Qed.
Lemma sext_antisym a b : sext a b -> sext b a -> seqv a b.
Proof.
  intros X Y i. destruct (sget a i) as [v|] eqn:Ga; [symmetry; apply X; exact Ga|].
  destruct (sget b i) as [w|] eqn:Gb; [|reflexivity]. apply Y in Gb. congruence.
Qed.

(* the value recorded by insert_subst: the substituted value of the last definition of the id
   that has one, else the state's *)
Fixpoint subst_of (dvs : list dvar) (i : N) : option num :=
  match dvs with
  | [] => None
  | v :: r =>
      match subst_of r i with
      | Some x => Some x
      | None => if (i =? dv_id v)%N then dv_subst v else None
      end
  end.
Lemma sget_insert_subst : forall dvs s i,
  sget (insert_subst dvs s) i = match subst_of dvs i with Some x => Some x | None => sget s i end.
Proof.
  induction dvs as [|v r IH]; intros s i; cbn [insert_subst subst_of]; [reflexivity|].
  rewrite IH. destruct (subst_of r i) as [x|]; [reflexivity|].
  destruct (dv_subst v) as [y|]; [|destruct (i =? dv_id v)%N; reflexivity].
  rewrite sget_sset. destruct (i =? dv_id v)%N; reflexivity.
Qed.

Section StatePart.
  Variable tiny : num -> bool.
  Hypothesis TE : tiny_exact tiny.
  Variable s1 : state.

  (* f' is the partial evaluation of f (in either role) *)
  Definition pe_rel (f f' : function) : Prop := exists u, fn_pe tiny f s1 = Some (f', u).

  (* in any state that contains s1, a function and its partial evaluation have the same value *)
  Lemma pe_same_value f f' X v ids w ids' : pe_rel f f' -> sext s1 X ->
    fn_eval f' X = Some (v, ids) -> fn_eval f X = Some (w, ids') -> v = w.
  Proof.
    intros (u & P) S1 E1 E2. pose (rho := total X).
    assert (AX : agrees rho X) by apply total_agrees.
    assert (A1 : agrees rho s1) by (intros i x G; apply AX; apply S1; exact G).
    apply fn_eval_sound in E1. apply fn_eval_sound in E2.
    rewrite (proj1 E1 rho AX), (proj1 E2 rho AX).
    apply (fn_pe_sound tiny TE rho s1 A1 _ _ _ P).
  Qed.

  (* two dependency lists related key by key *)
  Definition deps_rel (R : function -> function -> Prop) (a b : list (N * function)) : Prop :=
    forall d g, In (d, g) a -> exists h, In (d, h) b /\ R g h.

  (* a successful run over [o] stays below any solution T2 of a related list that contains s1 *)
  Lemma cross_below (R : function -> function -> Prop)
        (HR : forall g h X v ids w ids', R g h -> sext s1 X ->
                fn_eval g X = Some (v, ids) -> fn_eval h X = Some (w, ids') -> v = w) :
    forall p o T, seq_ok p o T -> forall other T2, deps_rel R o other -> solved other T2 ->
      sext s1 T2 -> sext p T2 -> sext T T2.
  Proof.
    induction 1 as [|p d g v ids l T Hn E H IH]; intros other T2 DR S2 X1 Xp; [exact Xp|].
    apply (IH other T2); auto.
    - intros d0 g0 Hin. apply DR. right. exact Hin.
    - destruct (DR d g (or_introl eq_refl)) as (h & Hin & Rgh).
      destruct (S2 d h Hin) as (w & ids' & G & E').
      pose proof (fn_eval_mono _ _ _ _ Xp E) as Eg.
      assert (v = w) by (eapply HR; eauto). subst w.
      intros i x. rewrite sget_sset. destruct (i =? d)%N eqn:Ei.
      + apply N.eqb_eq in Ei. subst i. intro H0. inversion H0; subst. exact G.
      + apply Xp.
  Qed.

  Lemma deps_pe_rel : forall ds ds' u, deps_pe_u tiny ds s1 = Some (ds', u) ->
    dkeys ds' = dkeys ds /\ deps_rel pe_rel ds ds' /\ deps_rel (fun g h => pe_rel h g) ds' ds.
  Proof.
    induction ds as [|[d f] ds IH]; intros ds' u H; cbn [deps_pe_u] in H.
    - inversion H; subst. repeat split; intros d g [].
    - destruct (fn_pe tiny f s1) as [[f' uf]|] eqn:P; [|discriminate].
      destruct (deps_pe_u tiny ds s1) as [[r ur]|] eqn:Pr; [|discriminate].
      inversion H; subst. destruct (IH _ _ eq_refl) as (K & R1 & R2).
      split; [cbn [dkeys map fst]; f_equal; exact K|]. split.
      + intros d0 g [Eq|Hin].
        * inversion Eq; subst. exists f'. split; [left; reflexivity|exists uf; exact P].
        * destruct (R1 d0 g Hin) as (h & Hh & Rh). exists h. split; [right; exact Hh|exact Rh].
      + intros d0 g [Eq|Hin].
        * inversion Eq; subst. exists f. split; [left; reflexivity|exists uf; exact P].
        * destruct (R2 d0 g Hin) as (h & Hh & Rh). exists h. split; [right; exact Hh|exact Rh].
  Qed.

  Lemma deps_rel_perm R a a' b : Permutation a' a -> deps_rel R a b -> deps_rel R a' b.
  Proof. intros P D d g Hin. apply D. eapply Permutation_in; eauto. Qed.

  (* the dependency passes of the two instances end in the same state *)
  Lemma eval_deps_pe ds ds' u XJ XI TJ TI :
    deps_pe_u tiny ds s1 = Some (ds', u) -> seqv XJ XI -> sext s1 XI ->
    NoDup (dkeys ds) -> (forall d, In d (dkeys ds) -> sget XI d = None) ->
    eval_deps ds' XJ = Some TJ -> eval_deps ds XI = Some TI -> seqv TJ TI.
  Proof.
    intros P EQ S1 ND FR EJ EI.
    destruct (deps_pe_rel _ _ _ P) as (K & R1 & R2).
    assert (NDJ : NoDup (dkeys ds')) by (rewrite K; exact ND).
    assert (FRJ : forall d, In d (dkeys ds') -> sget XJ d = None).
    { intros d Hd. rewrite EQ. apply FR. rewrite <- K. exact Hd. }
    destruct (eval_deps_trace _ _ _ NDJ FRJ EJ) as (oJ & PJ & SJ).
    destruct (eval_deps_trace _ _ _ ND FR EI) as (oI & PI & SI).
    pose proof (solved_perm _ _ _ PJ (seq_ok_solved _ _ _ SJ)) as SolJ.
    pose proof (solved_perm _ _ _ PI (seq_ok_solved _ _ _ SI)) as SolI.
    pose proof (seq_ok_sext _ _ _ SJ) as XJT. pose proof (seq_ok_sext _ _ _ SI) as XIT.
    assert (S1I : sext s1 TI) by (eapply sext_trans; eauto).
    assert (S1J : sext s1 TJ).
    { eapply sext_trans; [|exact XJT]. eapply sext_trans; [exact S1|apply seqv_sext; apply seqv_sym; exact EQ]. }
    apply sext_antisym.
    - apply (cross_below (fun g h => pe_rel h g)) with (p := XJ) (o := oJ) (other := ds); auto.
      + intros g h X v ids w ids' Rgh SX Eg Eh. eapply pe_same_value; eauto.
      + eapply deps_rel_perm; eauto.
      + eapply sext_trans; [apply seqv_sext; exact EQ|exact XIT].
    - apply (cross_below pe_rel) with (p := XI) (o := oI) (other := ds'); auto.
      + intros g h X v ids w ids' Rgh SX Eg Eh. symmetry. eapply pe_same_value; eauto.
      + eapply deps_rel_perm; eauto.
      + eapply sext_trans; [apply seqv_sext; apply seqv_sym; exact EQ|exact XJT].
  Qed.

  (* fill_vacant only reads ids, kinds and bounds *)
  Lemma fill_vacant_ext : forall dvsA dvsB A B A' B',
    Forall2 (fun a b => dv_id a = dv_id b /\ dv_bound_of a = dv_bound_of b) dvsA dvsB -> seqv A B ->
    fill_vacant dvsA A = Some A' -> fill_vacant dvsB B = Some B' -> seqv A' B'.
  Proof.
    induction dvsA as [|a dvsA IH]; intros dvsB A B A' B' F EQ HA HB; inversion F as [|? b ? dvsB' [Ei Eb] F']; subst;
      cbn [fill_vacant] in HA, HB.
    - inversion HA; inversion HB; subst. exact EQ.
    - rewrite <- Ei, <- Eb, <- (EQ (dv_id a)) in HB.
      destruct (sget A (dv_id a)) as [x|] eqn:G.
      + eapply IH; eauto.
      + destruct (dv_bound_of a) as [bd|]; [|discriminate].
        destruct (nearest_to_zero bd) as [|x| |]; try discriminate.
        eapply IH; [exact F'| |exact HA|exact HB].
        intro i. rewrite !sget_sset, Ei. destruct (i =? dv_id b)%N; [reflexivity|apply EQ].
  Qed.

  Variable s2 : state.
  Variable I : instance.
  (* the fixed ids are defined variables that carry no substituted value yet *)
  Hypothesis Fixed : forall i x, sget s1 i = Some x ->
    (exists v, In v (i_dvs I) /\ dv_id v = i) /\ (forall v, In v (i_dvs I) -> dv_id v = i -> dv_subst v = None).

  Definition fix_dv (v : dvar) : dvar :=
    match sget s1 (dv_id v) with Some x => set_subst v x | None => v end.

  Lemma subst_of_fix : forall dvs i,
    (forall v, In v dvs -> dv_id v = i -> sget s1 i <> None -> dv_subst v = None) ->
    subst_of (map fix_dv dvs) i =
      match sget s1 i with
      | Some x => if existsb (fun v => (i =? dv_id v)%N) dvs then Some x else None
      | None => subst_of dvs i
      end.
  Proof.
    induction dvs as [|v r IH]; intros i H; cbn [map subst_of existsb].
    - destruct (sget s1 i); reflexivity.
    - rewrite IH by (intros w Hw; apply H; right; exact Hw).
      assert (Eid : dv_id (fix_dv v) = dv_id v) by (unfold fix_dv; destruct (sget s1 (dv_id v)); reflexivity).
      rewrite Eid. destruct (sget s1 i) as [x|] eqn:G.
      + destruct (existsb _ r); [rewrite orb_true_r; reflexivity|]. rewrite orb_false_r.
        destruct (i =? dv_id v)%N eqn:Ei; [|reflexivity].
        apply N.eqb_eq in Ei. unfold fix_dv. rewrite <- Ei, G. reflexivity.
      + destruct (subst_of r i); [reflexivity|].
        destruct (i =? dv_id v)%N eqn:Ei; [|reflexivity].
        apply N.eqb_eq in Ei. unfold fix_dv. rewrite <- Ei, G. reflexivity.
  Qed.

  Lemma init_states : seqv (insert_subst (map fix_dv (i_dvs I)) s2) (insert_subst (i_dvs I) (s1 ++ s2))
                      /\ sext s1 (insert_subst (i_dvs I) (s1 ++ s2)).
  Proof.
    assert (SO : forall i x, sget s1 i = Some x -> subst_of (i_dvs I) i = None).
    { intros i x G. destruct (Fixed i x G) as [_ Hn]. clear - Hn.
      induction (i_dvs I) as [|v r IH]; cbn [subst_of]; [reflexivity|].
      rewrite IH by (intros w Hw; apply Hn; right; exact Hw).
      destruct (i =? dv_id v)%N eqn:Ei; [|reflexivity]. apply N.eqb_eq in Ei.
      apply Hn; [left; reflexivity|symmetry; exact Ei]. }
    split.
    - intro i. rewrite !sget_insert_subst, sget_app, subst_of_fix.
      + destruct (sget s1 i) as [x|] eqn:G.
        * rewrite (SO i x G). destruct (Fixed i x G) as [(v & Hv & Hi) _].
          assert (Ex : existsb (fun v0 => (i =? dv_id v0)%N) (i_dvs I) = true).
          { apply existsb_exists. exists v. split; [exact Hv|]. apply N.eqb_eq. symmetry. exact Hi. }
          rewrite Ex. reflexivity.
        * reflexivity.
      + intros v Hv Hi Hs. destruct (sget s1 i) as [x|] eqn:G; [|contradiction].
        destruct (Fixed i x G) as [_ Hn]. apply Hn; assumption.
    - intros i x G. rewrite sget_insert_subst, (SO i x G), sget_app, G. reflexivity.
  Qed.

  (* C03, the values recorded for the decision variables *)
  Theorem inst_pe_state J u m1 m2 :
    NoDup (dkeys (i_deps I)) ->
    (forall d, In d (dkeys (i_deps I)) -> sget (insert_subst (i_dvs I) (s1 ++ s2)) d = None) ->
    inst_pe tiny I s1 = Some (J, u) ->
    inst_eval J s2 = Some m1 -> inst_eval I (s1 ++ s2) = Some m2 ->
    forall i, sget (so_state m1) i = sget (so_state m2) i.
  Proof.
    intros ND FR. unfold inst_pe.
    destruct (match i_obj I with
              | None => Some (None, [])
              | Some f => match fn_pe tiny f s1 with Some (f', u) => Some (Some f', u) | None => None end
              end) as [[o u0]|]; [|discriminate].
    destruct (constrs_pe_u tiny (i_cs I) s1) as [[cs u1]|]; [|discriminate].
    destruct (removed_pe_u tiny (i_rs I) s1) as [[rs u2]|]; [|discriminate].
    destruct (deps_pe_u tiny (i_deps I) s1) as [[ds u3]|] eqn:Pd; [|discriminate].
    intro H; inversion H; subst J u; clear H.
    unfold inst_eval; cbn [i_dvs i_cs i_rs i_obj i_deps].
    destruct (negb (check_bound _ s2 tol7)); [discriminate|].
    destruct (negb (check_bound (i_dvs I) (s1 ++ s2) tol7)); [intros _ H; discriminate|].
    destruct (eval_loop constr_eval cs s2 true []) as [[fr1 ev1]|]; [|discriminate].
    destruct (eval_loop removed_eval rs s2 fr1 ev1) as [[fe1 ev1']|]; [|discriminate].
    destruct (fn_eval (fn_or_zero o) s2) as [[ob1 i1]|]; [|discriminate].
    change (map (fun v => match sget s1 (dv_id v) with Some x => set_subst v x | None => v end) (i_dvs I))
      with (map fix_dv (i_dvs I)).
    destruct (eval_deps ds _) as [t1|] eqn:D1; [|discriminate].
    destruct (fill_vacant _ t1) as [t1'|] eqn:F1; [|discriminate].
    intro H1; inversion H1; subst m1; clear H1.
    destruct (eval_loop constr_eval (i_cs I) (s1 ++ s2) true []) as [[fr2 ev2]|]; [|discriminate].
    destruct (eval_loop removed_eval (i_rs I) (s1 ++ s2) fr2 ev2) as [[fe2 ev2']|]; [|discriminate].
    destruct (fn_eval (fn_or_zero (i_obj I)) (s1 ++ s2)) as [[ob2 i2]|]; [|discriminate].
    destruct (eval_deps (i_deps I) _) as [t2|] eqn:D2; [|discriminate].
    destruct (fill_vacant (i_dvs I) t2) as [t2'|] eqn:F2; [|discriminate].
    intro H2; inversion H2; subst m2; clear H2. cbn [so_state].
    destruct init_states as [EQ S1].
    pose proof (eval_deps_pe _ _ _ _ _ _ _ Pd EQ S1 ND FR D1 D2) as ET.
    apply (fill_vacant_ext (map fix_dv (i_dvs I)) (i_dvs I) t1 t2 t1' t2'); auto.
    clear. induction (i_dvs I) as [|v r IH]; cbn [map]; constructor; [|exact IH].
    unfold fix_dv, set_subst, dv_bound_of. destruct (sget s1 (dv_id v)); split; reflexivity.
  Qed.
End StatePart.
