(* RunSamples.v — correspondence runners for C06 (sample-set evaluation) and the best-sample
   part of C15. *)
Require Import Ommx.Num Ommx.Poly Ommx.Msg Ommx.Eval Ommx.Tree Ommx.Arith Ommx.Inst Ommx.Relax
        Ommx.RunC02 Ommx.RunC03 Ommx.RunC05 Ommx.RunC14 Ommx.Transform Ommx.RunTransform Ommx.Samples.
From Coq Require Import String.
Open Scope string_scope.

Definition d_samples (t : tree) : option samples := d_list (d_pair d_state (d_list d_N)) t.
Definition d_sv (t : tree) : option sampled_values := d_list (d_pair d_num (d_list d_N)) t.
Definition d_bmap (t : tree) : option (list (N * bool)) := d_list (d_pair d_N d_bool) t.

Definition ids_of_sv (sv : sampled_values) : list N := flat_map snd sv.

(* SDK sampled constraint: [id, eq, opt values, used, name, subs, params, desc, opt removed_reason, rr_params, feasible] *)
Record sdk_sc := { k_id : N; k_eq : Z; k_values : option sampled_values; k_used : list N;
                   k_meta : list tree; k_removed : option (tree * tree); k_feasible : list (N * bool) }.
Definition d_sdk_sc (t : tree) : option sdk_sc :=
  match t with
  | L [i; e; v; u; n; su; pa; de; rr; rp; fe] =>
      do i' <- d_N i; do e' <- d_Z e; do v' <- d_opt d_sv v; do u' <- d_list d_N u;
      do rr' <- d_opt (fun x => Some x) rr; do fe' <- d_bmap fe;
      Some {| k_id := i'; k_eq := e'; k_values := v'; k_used := u'; k_meta := [n; su; pa; de];
              k_removed := match rr' with Some r => Some (r, rp) | None => None end; k_feasible := fe' |}
  | _ => None
  end.
Record sdk_ss := { t_objectives : option sampled_values; t_dvs : list (option dvar * option sampled_values);
                   t_constraints : list sdk_sc; t_feasible : list (N * bool);
                   t_feasible_relaxed : list (N * bool); t_feasible_unrelaxed : list (N * bool); t_sense : Z }.
Definition d_sdk_ss (t : tree) : option sdk_ss :=
  match t with
  | L [o; dvs; cs; fe; fr; fu; se] =>
      do o' <- d_opt d_sv o; do dvs' <- d_list (d_pair (d_opt d_dvar) (d_opt d_sv)) dvs;
      do cs' <- d_list d_sdk_sc cs; do fe' <- d_bmap fe; do fr' <- d_bmap fr; do fu' <- d_bmap fu;
      do se' <- d_Z se;
      Some {| t_objectives := o'; t_dvs := dvs'; t_constraints := cs'; t_feasible := fe';
              t_feasible_relaxed := fr'; t_feasible_unrelaxed := fu'; t_sense := se' |}
  | _ => None
  end.

Definition osv_get (o : option sampled_values) (k : N) : option num :=
  match o with Some sv => sv_get sv k | None => None end.

(* per-id agreement of the SDK sample set with the model's *)
Definition ss_agree_at (M : sampleset) (T : sdk_ss) (k : N) : bool :=
  optb qeqb (osv_get (ss_objectives M) k) (osv_get (t_objectives T) k) &&
  optb Bool.eqb (bget (ss_feasible M) k) (bget (t_feasible T) k) &&
  optb Bool.eqb (bget (ss_feasible_relaxed M) k) (bget (t_feasible_relaxed T) k) &&
  list_eqb (fun (m : sampled_constr) (c : sdk_sc) =>
              (sc_id m =? k_id c)%N && (sc_eq m =? k_eq c)%Z && trees_eqb (sc_meta m) (k_meta c) &&
              optb (fun p q => tree_eqb (fst p) (fst q) && tree_eqb (snd p) (snd q)) (sc_removed m) (k_removed c) &&
              optb qeqb (sv_get (sc_values m) k) (osv_get (k_values c) k) &&
              optb Bool.eqb (bget (sc_feasible m) k) (bget (k_feasible c) k))
           (ss_constraints M) (t_constraints T).

(* a Solution obtained from the sample set against the single-state evaluation: objective, the
   evaluated constraints, both flags, and the values of the DEFINED variables *)
Definition state_eqb_on (ids : list N) (a b : state) : bool :=
  forallb (fun i => optb qeqb (sget a i) (sget b i)) ids.

Definition judge_get (dvids : list N) (sol : solution) (p : tree) : option string :=
  match p with
  | L [st; obj; dvs; evs; fe; fr; _; _; _] =>
      match d_opt d_state st, d_num obj, d_list d_dvar dvs, d_list d_evaluated evs,
            d_bool fe, d_opt d_bool fr with
      | Some (Some st'), Some obj', Some dvs', Some evs', Some fe', Some fr' =>
          if negb (qeqb obj' (so_objective sol)) then Some "objective"
          else if negb (list_eqb evaluated_eqb (so_evaluated sol) evs') then Some "per-constraint values / metadata"
          else if negb (optb Bool.eqb fr' (Some (so_feasible_relaxed sol))) then Some "feasible_relaxed flag"
          else if negb (Bool.eqb fe' (so_feasible sol)) then Some "feasible flag"
          else if negb (state_eqb_on dvids st' (so_state sol)) then Some "variable values"
          else if negb (list_eqb dvar_eqb (so_dvs sol) dvs') then Some "decision variables"
          else None
      | _, _, _, _, _, _ => Some "shape"
      end
  | _ => Some "shape"
  end.

Definition sol_eqb_on (dvids : list N) (a b : solution) : bool :=
  qeqb (so_objective a) (so_objective b) && Bool.eqb (so_feasible a) (so_feasible b) &&
  Bool.eqb (so_feasible_relaxed a) (so_feasible_relaxed b) && state_eqb_on dvids (so_state a) (so_state b) &&
  list_eqb (fun x y => (ev_id x =? ev_id y)%N && (ev_eq x =? ev_eq y)%Z && qeqb (ev_value x) (ev_value y) &&
                        set_eqb (ev_used x) (ev_used y) && trees_eqb (ev_meta x) (ev_meta y) &&
                        optb (fun p q => tree_eqb (fst p) (fst q) && tree_eqb (snd p) (snd q)) (ev_removed x) (ev_removed y))
           (so_evaluated a) (so_evaluated b).

Fixpoint judge_per (I : instance) (S : samples) (M : sampleset) (T : sdk_ss) (per : list tree) (n : nat) : tree :=
  match per with
  | [] => agree ["samples"; if Nat.leb 2 n then "ids>=2" else "ids<2"]
  | L [kt; g; single] :: per' =>
      match d_N kt with
      | None => badresult "eval_samples: per-id shape"
      | Some k =>
          let dvids := map dv_id (i_dvs I) in
          if negb (ss_agree_at M T k)
          then disagree "sample set tables at this sample id (objective / constraint values / feasibility)" (e_N k)
          else
            match samples_state S k with
            | None => badcase "eval_samples: id without state"
            | Some st =>
                match inst_eval I st with
                | None => badcase "eval_samples: generator must give states that evaluate alone"
                | Some sol =>
                    match ss_get M k with
                    | None => badcase "MODEL: ss_get fails where inst_eval succeeds"
                    | Some msol =>
                        if negb (sol_eqb_on dvids msol sol) then badcase "MODEL: ss_get differs from inst_eval"
                        else
                          match ok_payload single with
                          | None => disagree "evaluating the sample's state alone must succeed" (e_N k)
                          | Some sp =>
                              match judge_get dvids sol sp with
                              | Some why => disagree ("single evaluation: " ++ why) (e_solution sol)
                              | None =>
                                  match ok_payload g with
                                  | None => disagree "SampleSet::get must succeed and equal the single evaluation" (e_solution sol)
                                  | Some gp =>
                                      match judge_get dvids sol gp with
                                      | Some why => disagree ("SampleSet::get vs single evaluation: " ++ why) (e_solution sol)
                                      | None => judge_per I S M T per' (Datatypes.S n)
                                      end
                                  end
                              end
                          end
                    end
                end
            end
      end
  | _ => badresult "eval_samples: per-id shape"
  end.

Definition cand_objs (o : option sampled_values) (ids : list N) : option (list (N * num)) :=
  omap (fun k => match osv_get o k with Some v => Some (k, v) | None => None end) ids.

(* the winner is a constrained observable: any candidate that no candidate strictly beats *)
Definition judge_best (sense : Z) (o : option sampled_values) (ids : list N) (r : tree) (what : string) : option string :=
  match cand_objs o ids with
  | None => if is_err r then None else Some (what ++ ": must fail (objective missing)")
  | Some objs =>
      if negb ((0 <=? sense)%Z && (sense <=? 2)%Z) then (if is_err r then None else Some (what ++ ": invalid sense must fail"))
      else
        match objs with
        | [] => if is_err r then None else Some (what ++ ": must fail exactly when no sample is feasible")
        | _ =>
            match ok_payload r with
            | Some kt =>
                match d_N kt with
                | Some k => if is_best_b sense objs k then None
                            else Some (what ++ ": the returned sample is not feasible or is beaten")
                | None => Some (what ++ ": shape")
                end
            | None => Some (what ++ ": must succeed (a feasible sample exists)")
            end
        end
  end.

(* best_feasible() / best_feasible_unrelaxed() must be get(id) of the id the corresponding *_id() accessor returns *)
Fixpoint per_get (per : list tree) (k : N) : option tree :=
  match per with
  | [] => None
  | L [kt; g; _] :: per' => match d_N kt with
                            | Some k' => if (k' =? k)%N then Some g else per_get per' k
                            | None => None
                            end
  | _ :: _ => None
  end.
Definition best_is_get (per : list tree) (b bs : tree) : bool :=
  match ok_payload b with
  | None => true
  | Some kt => match d_N kt with
               | Some k => match per_get per k with Some g => tree_eqb g bs | None => false end
               | None => false
               end
  end.

Definition run_C06 (case : tree) : tree :=
  match case with
  | L [A "eval_samples"; L [i; s]; r] =>
      match d_instance i, d_samples s with
      | Some I', Some Sm =>
          match inst_eval_samples I' Sm with
          | None => if is_err r || is_panic r then agree ["samples"; "err"]
                    else disagree "evaluate_samples must fail" (A "err")
          | Some M =>
              match ok_payload r with
              | Some (L [sst; L per; b1; b2; bs1; bs2]) =>
                  match d_sdk_ss sst with
                  | None => badresult "eval_samples: sample set shape"
                  | Some T =>
                      let ids := samples_ids Sm in
                      if negb (set_eqb (match t_objectives T with Some sv => ids_of_sv sv | None => [] end) ids &&
                               set_eqb (map fst (t_feasible T)) ids && set_eqb (map fst (t_feasible_relaxed T)) ids)
                      then disagree "objective and feasibility tables must be keyed by exactly the submitted sample ids" (e_list e_N ids)
                      else if negb ((t_sense T =? i_sense I')%Z) then disagree "sense of the sample set" (Tree.I (i_sense I'))
                      else
                        match judge_best (t_sense T) (t_objectives T) (true_ids (t_feasible_relaxed T)) b1 "best_feasible_id",
                              judge_best (t_sense T) (t_objectives T) (true_ids (t_feasible T)) b2 "best_feasible_unrelaxed_id" with
                        | Some why, _ | _, Some why => disagree why (L [])
                        | None, None =>
                            if negb (Bool.eqb (is_err b1) (is_err bs1) && Bool.eqb (is_err b2) (is_err bs2))
                            then disagree "best_feasible() must fail exactly when best_feasible_id() does" (L [])
                            else if negb (best_is_get per b1 bs1 && best_is_get per b2 bs2)
                            then disagree "best_feasible() / best_feasible_unrelaxed() must return get(id) of the selected sample" (L [])
                            else judge_per I' Sm M T per 0
                        end
                  end
              | _ => if is_err r || is_panic r then disagree "evaluate_samples must succeed" (L [])
                     else badresult "eval_samples: shape"
              end
          end
      | _, _ => badcase "eval_samples: input"
      end
  | _ => badcase "C06: unknown op"
  end.

Definition run_C15 (case : tree) : tree :=
  match case with
  | L [A "as_min"; _; _] => run_as_min case
  | L [A "best"; L [o; fe; fr; fu; se; _]; r] =>
      match d_opt d_sv o, d_bmap fe, d_bmap fr, d_bmap fu, d_Z se with
      | Some o', Some fe', Some fr', Some fu', Some se' =>
          let ss := {| ss_objectives := o'; ss_dvs := []; ss_constraints := []; ss_feasible := fe';
                       ss_feasible_relaxed := fr'; ss_feasible_unrelaxed := fu'; ss_sense := se' |} in
          match ok_payload r with
          | Some (L [b1; b2]) =>
              match judge_best se' o' (feasible_ids ss) b1 "best_feasible_id",
                    judge_best se' o' (feasible_unrelaxed_ids ss) b2 "best_feasible_unrelaxed_id" with
              | Some why, _ | _, Some why => disagree why (L [e_opt e_N (best_feasible_id ss); e_opt e_N (best_feasible_unrelaxed_id ss)])
              | None, None =>
                  agree ["best"; match fr' with [] => "legacy-fields" | _ => "current-fields" end;
                         match best_feasible_id ss with Some _ => "some-feasible" | None => "none-feasible" end]
              end
          | _ => badresult "best: shape"
          end
      | _, _, _, _, _ => badcase "best: input"
      end
  | _ => badcase "C15: unknown op"
  end.
