(* CodecProof.v — the schema layer of C07: for EVERY well-formed schema, decoding the encoding of
   any typed message value gives back its normal form ([codec_roundtrip]). *)
From Coq Require Import NArith ZArith List Lia Bool String.
Require Import Ommx.Schema Ommx.Wire Ommx.Codec.
Import ListNotations.
Open Scope list_scope.
Open Scope N_scope.

(* ------------------------------------------------------------------ leaves *)
Lemma leaf_rt t x : leaf_ok t x = true ->
  exists p, enc_leaf t x = Some p /\ dec_leaf t p = Some x /\ wf_payload p /\
            (match p with PLen _ => packable t = false | PI32 _ => False | _ => True end).
Proof.
  destruct t as [s|e|m]; [destruct s| |]; destruct x; cbn [leaf_ok]; intro H; try discriminate H;
    cbn [enc_leaf dec_leaf].
  - (* double *) exists (PI64 bits). cbn. apply N.ltb_lt in H. auto.
  - (* int64 *) apply andb_true_iff in H. destruct H as [H1 H2].
    apply Z.leb_le in H1. apply Z.ltb_lt in H2.
    exists (PVarint (z_to_u64 z)). cbn [dec_leaf wf_payload]. rewrite i64_roundtrip by lia.
    repeat split; auto. apply z_to_u64_lt.
  - (* uint64 *) exists (PVarint n). cbn. apply N.ltb_lt in H. auto.
  - (* bool *) exists (PVarint (if b then 1 else 0)). cbn [dec_leaf wf_payload].
    destruct b; cbn; repeat split; auto; reflexivity.
  - (* string *) exists (PLen b). cbn. apply N.ltb_lt in H. auto.
  - (* bytes *) exists (PLen b). cbn. apply N.ltb_lt in H. auto.
  - (* enum *) apply andb_true_iff in H. destruct H as [H1 H2].
    apply Z.leb_le in H1. apply Z.ltb_lt in H2.
    exists (PVarint (z_to_u64 z)). cbn [dec_leaf wf_payload]. rewrite i32_roundtrip by lia.
    repeat split; auto. apply z_to_u64_lt.
Qed.

Lemma leaf_default t x : leaf_ok t x = true -> is_default x = true -> x = default_of t.
Proof.
  destruct t as [s|e|m]; [destruct s| |]; destruct x; cbn [leaf_ok]; intro H; try discriminate H;
    cbn [is_default default_of]; intro D.
  - destruct bits; [reflexivity|discriminate D].
  - destruct z; [reflexivity|discriminate D|discriminate D].
  - destruct n; [reflexivity|discriminate D].
  - destruct b; [discriminate D|reflexivity].
  - destruct b; [reflexivity|discriminate D].
  - destruct b; [reflexivity|discriminate D].
  - destruct z; [reflexivity|discriminate D|discriminate D].
Qed.

Lemma leaf_not_msg t x : leaf_ok t x = true -> match t with TM _ => False | _ => True end.
Proof. destruct t as [s|e|m]; cbn; auto. destruct x; discriminate. Qed.

(* ------------------------------------------------------------------ field lists *)
Definition keys (acc : list (N * value)) : list N := map fst acc.

Lemma fget_none acc n : ~ In n (keys acc) -> fget acc n = None.
Proof.
  induction acc as [|[k v] r IH]; cbn; [reflexivity|]. intro H.
  destruct (N.eqb_spec k n); [exfalso; apply H; left; exact e|]. apply IH. tauto.
Qed.
Lemma fget_none_inv acc n : fget acc n = None -> ~ In n (keys acc).
Proof.
  induction acc as [|[k v] r IH]; cbn; [tauto|].
  destruct (N.eqb_spec k n); [discriminate|]. intros H [E|E]; [contradiction|]. now apply IH.
Qed.
Lemma fset_fresh acc n v : fget acc n = None -> fset acc n v = acc ++ [(n, v)].
Proof.
  induction acc as [|[k x] r IH]; cbn; [reflexivity|].
  destruct (N.eqb_spec k n); [discriminate|]. intro H. now rewrite IH.
Qed.
Lemma fget_last acc n v : fget acc n = None -> fget (acc ++ [(n, v)]) n = Some v.
Proof.
  induction acc as [|[k x] r IH]; cbn.
  - rewrite N.eqb_refl. reflexivity.
  - destruct (N.eqb_spec k n); [discriminate|]. exact IH.
Qed.
Lemma fset_last acc n v w : fget acc n = None -> fset (acc ++ [(n, v)]) n w = acc ++ [(n, w)].
Proof.
  induction acc as [|[k x] r IH]; cbn.
  - rewrite N.eqb_refl. reflexivity.
  - destruct (N.eqb_spec k n); [discriminate|]. intro H. now rewrite IH.
Qed.
Lemma keys_app a b : keys (a ++ b) = keys a ++ keys b.
Proof. apply map_app. Qed.

Lemma filter_all {X} (f : X -> bool) l : (forall x, In x l -> f x = true) -> filter f l = l.
Proof.
  induction l as [|x r IH]; cbn; [reflexivity|]. intro H.
  rewrite (H x) by (left; reflexivity). f_equal. apply IH. intros y Hy. apply H. right. exact Hy.
Qed.

Lemma clear_group_noop desc g n acc :
  (forall k, In k (keys acc) -> in_group desc g k = false) -> clear_group desc g n acc = acc.
Proof.
  intro H. unfold clear_group. apply filter_all. intros [k v] Hin.
  cbn [fst]. rewrite (H k); [reflexivity|]. unfold keys. apply in_map_iff. exists (k, v). auto.
Qed.

Lemma fold_opt_app {X Y} (f : X -> Y -> option X) l1 : forall a l2,
  fold_opt f a (l1 ++ l2) =
  match fold_opt f a l1 with Some a' => fold_opt f a' l2 | None => None end.
Proof.
  induction l1 as [|y r IH]; intros a l2; cbn; [reflexivity|].
  destruct (f a y); [apply IH|reflexivity].
Qed.

(* accumulating a repeated field *)
Definition with_list (acc : list (N * value)) (n : N) (pre : list value) : list (N * value) :=
  match pre with [] => acc | _ => acc ++ [(n, VList pre)] end.

Lemma fpush_with_list acc n pre vs : fget acc n = None ->
  fpush (with_list acc n pre) n vs = with_list acc n (pre ++ vs).
Proof.
  intro H. destruct vs as [|v vs'].
  - rewrite app_nil_r. reflexivity.
  - unfold fpush. destruct pre as [|p pre']; cbn [with_list app].
    + rewrite H. now rewrite fset_fresh.
    + rewrite fget_last by exact H. rewrite fset_last by exact H. reflexivity.
Qed.

(* accumulating a map field *)
Definition with_map (acc : list (N * value)) (n : N) (pre : list (value * value)) : list (N * value) :=
  match pre with [] => acc | _ => acc ++ [(n, VMap pre)] end.

Lemma kv_insert_fresh pre k v :
  existsb (fun k' => key_eqb k' k) (map fst pre) = false -> kv_insert pre k v = pre ++ [(k, v)].
Proof.
  induction pre as [|[k' v'] r IH]; cbn; [reflexivity|].
  destruct (key_eqb k' k); cbn; [discriminate|]. intro H. now rewrite IH.
Qed.

Lemma fmap_insert_with_map acc n pre k v : fget acc n = None ->
  existsb (fun k' => key_eqb k' k) (map fst pre) = false ->
  fmap_insert (with_map acc n pre) n k v = with_map acc n (pre ++ [(k, v)]).
Proof.
  intros H Hk. unfold fmap_insert. destruct pre as [|p pre']; cbn [with_map app].
  - rewrite H. now rewrite fset_fresh.
  - rewrite fget_last by exact H. rewrite fset_last by exact H.
    rewrite kv_insert_fresh by exact Hk. reflexivity.
Qed.

(* ------------------------------------------------------------------ packed payloads *)
Lemma packed_rt t : packable t = true -> forall vs rest_fuel,
  forallb (leaf_ok t) vs = true ->
  (List.length vs <= rest_fuel)%nat ->
  dec_packed rest_fuel t (flat_map (enc_packed_elem t) vs) = Some vs.
Proof.
  intros Hp vs. induction vs as [|v vs IH]; intros fuel Hok Hf.
  - destruct fuel; reflexivity.
  - cbn [forallb] in Hok. apply andb_true_iff in Hok. destruct Hok as [Hv Hvs].
    destruct (leaf_rt t v Hv) as (p & He & Hd & Hw & Hshape).
    cbn [flat_map]. unfold enc_packed_elem at 1. rewrite He.
    destruct fuel as [|fuel]; [cbn in Hf; lia|].
    assert (Hf' : (List.length vs <= fuel)%nat) by (cbn in Hf; lia).
    destruct p as [n|n|b|n].
    + (* varint element *)
      destruct (enc_varint_nonempty n) as (b0 & t0 & E).
      assert (D : dec_varint (enc_varint n ++ flat_map (enc_packed_elem t) vs)
                  = Some (n, flat_map (enc_packed_elem t) vs))
        by (apply varint_roundtrip; exact Hw).
      rewrite E in *. cbn [app dec_packed] in *.
      assert (T : t <> TS SDouble).
      { intro; subst t. destruct v; cbn in He; try discriminate He. }
      destruct t as [[]|e|m]; try congruence; try discriminate Hp;
        rewrite D, Hd, (IH _ Hvs Hf'); reflexivity.
    + (* 64-bit element: only doubles *)
      assert (T : t = TS SDouble).
      { destruct t as [[]|e|m]; destruct v; cbn in He; try discriminate He; reflexivity. }
      subst t. pose proof (enc_le_length 8 n) as L.
      remember (enc_le 8 n) as le8. destruct le8 as [|b0 t0]; [cbn in L; lia|].
      cbn [app dec_packed].
      destruct (Nat.ltb_spec (List.length (b0 :: t0 ++ flat_map (enc_packed_elem (TS SDouble)) vs)) 8) as [Hl|Hl].
      { cbn [List.length] in Hl, L. rewrite app_length in Hl. lia. }
      change (b0 :: t0 ++ flat_map (enc_packed_elem (TS SDouble)) vs)
        with ((b0 :: t0) ++ flat_map (enc_packed_elem (TS SDouble)) vs).
      rewrite (firstn_app_len _ _ _ L), (skipn_app_len _ _ _ L).
      rewrite (IH _ Hvs Hf'). rewrite Heqle8.
      rewrite le_roundtrip by (change (256 ^ N.of_nat 8) with (2 ^ 64); exact Hw).
      destruct v; cbn in He; try discriminate He. inversion He. subst. reflexivity.
    + rewrite Hshape in Hp. discriminate Hp.
    + contradiction.
Qed.

Lemma packed_len t vs : forallb (leaf_ok t) vs = true -> packable t = true ->
  (List.length vs <= List.length (flat_map (enc_packed_elem t) vs))%nat.
Proof.
  intros Hok Hp. induction vs as [|v vs IH]; [cbn; lia|].
  cbn [forallb] in Hok. apply andb_true_iff in Hok. destruct Hok as [Hv Hvs].
  cbn [flat_map]. rewrite app_length. specialize (IH Hvs).
  destruct (leaf_rt t v Hv) as (p & He & _ & _ & Hshape).
  unfold enc_packed_elem at 1. rewrite He. destruct p as [n|n|b|n].
  - destruct (enc_varint_nonempty n) as (b0 & t0 & E). rewrite E. cbn [List.length]. lia.
  - rewrite enc_le_length. cbn [List.length]. lia.
  - rewrite Hshape in Hp. discriminate Hp.
  - contradiction.
Qed.

(* ------------------------------------------------------------------ one record through [step] *)
Section StepLemmas.
Variable rec : rec_t.
Variable desc : list field.

Lemma step_singular_leaf acc n p f x :
  lookup_field desc n = Some f ->
  (match f_ty f with TM _ => False | _ => True end) ->
  dec_leaf (f_ty f) p = Some x ->
  step rec desc acc (n, p) =
  match f_card f with
  | CImplicit => Some (if is_default x then fremove acc n else fset acc n x)
  | COptional => Some (fset acc n x)
  | COneof g => Some (fset (clear_group desc g n acc) n x)
  | _ => step rec desc acc (n, p)
  end.
Proof.
  intros L T D. unfold step at 1. rewrite L.
  destruct (f_card f) eqn:EC; try (unfold step; rewrite L, EC; reflexivity);
    destruct (f_ty f) eqn:ET; try contradiction; rewrite D; reflexivity.
Qed.

Lemma step_singular_msg acc n b f m' :
  lookup_field desc n = Some f -> f_ty f = TM m' ->
  step rec desc acc (n, PLen b) =
  match f_card f with
  | CImplicit | COptional =>
      match rec m' (old_fields (fget acc n)) b with
      | Some fs => Some (fset acc n (VMsg fs)) | None => None end
  | COneof g =>
      let acc' := clear_group desc g n acc in
      match rec m' (old_fields (fget acc' n)) b with
      | Some fs => Some (fset acc' n (VMsg fs)) | None => None end
  | _ => step rec desc acc (n, PLen b)
  end.
Proof.
  intros L T. unfold step at 1. rewrite L, T.
  destruct (f_card f) eqn:EC; try reflexivity; unfold step; rewrite L, EC, T; reflexivity.
Qed.

Lemma step_repeated_msg acc n b f m' pk :
  lookup_field desc n = Some f -> f_ty f = TM m' -> f_card f = CRepeated pk ->
  step rec desc acc (n, PLen b) =
  match rec m' [] b with Some fs => Some (fpush acc n [VMsg fs]) | None => None end.
Proof. intros L T EC. unfold step. rewrite L, EC, T. reflexivity. Qed.

Lemma step_repeated_unpacked acc n p f pk x :
  lookup_field desc n = Some f -> f_card f = CRepeated pk ->
  (match f_ty f with TM _ => False | _ => True end) ->
  dec_leaf (f_ty f) p = Some x ->
  (match p with PLen _ => packable (f_ty f) = false | _ => True end) ->
  step rec desc acc (n, p) = Some (fpush acc n [x]).
Proof.
  intros L EC T D Hp. unfold step. rewrite L, EC.
  destruct (f_ty f) eqn:ET; try contradiction; destruct p; try rewrite Hp; rewrite D; reflexivity.
Qed.

Lemma step_repeated_packed acc n b f pk vs :
  lookup_field desc n = Some f -> f_card f = CRepeated pk ->
  packable (f_ty f) = true ->
  dec_packed (List.length b) (f_ty f) b = Some vs ->
  step rec desc acc (n, PLen b) = Some (fpush acc n vs).
Proof.
  intros L EC Hp D. unfold step. rewrite L, EC.
  destruct (f_ty f) eqn:ET; try discriminate Hp; rewrite Hp, D; reflexivity.
Qed.

Lemma step_map acc n b f k rs key x :
  lookup_field desc n = Some f -> f_card f = CMap k ->
  parse_records b = Some rs ->
  fold_opt (entry_step rec k (f_ty f)) (default_of (TS k), default_of (f_ty f)) rs = Some (key, x) ->
  step rec desc acc (n, PLen b) = Some (fmap_insert acc n key x).
Proof.
  intros L EC P F. unfold step. rewrite L, EC.
  destruct (f_ty f) eqn:ET; rewrite P, F; reflexivity.
Qed.
End StepLemmas.

(* ------------------------------------------------------------------ small list facts *)
Lemma flat_map_nil {X Y} (f : X -> list Y) l : flat_map f l = [] -> forall x, In x l -> f x = [].
Proof.
  induction l as [|y r IH]; cbn; [tauto|]. intro H. apply app_eq_nil in H. destruct H as [H1 H2].
  intros x [E|E]; [subst; exact H1|apply IH; assumption].
Qed.
Lemma flat_map_all_nil {X Y} (f : X -> list Y) l : (forall x, In x l -> f x = []) -> flat_map f l = [].
Proof.
  induction l as [|y r IH]; cbn; [reflexivity|]. intro H.
  rewrite (H y) by (left; reflexivity). cbn. apply IH. intros x Hx. apply H. right. exact Hx.
Qed.

Lemma nodupb_app_fresh {X} (e : X -> X -> bool) a x b :
  nodupb e (a ++ x :: b) = true -> existsb (fun y => e y x) a = false.
Proof.
  induction a as [|y r IH]; cbn; [reflexivity|]. intro H.
  apply andb_true_iff in H. destruct H as [H1 H2]. apply negb_true_iff in H1.
  rewrite existsb_app in H1. apply orb_false_iff in H1. destruct H1 as [_ H1].
  cbn in H1. apply orb_false_iff in H1. destruct H1 as [H1 _]. rewrite H1. cbn. apply IH. exact H2.
Qed.

Lemma depth_list_le vs k : (depth (VList vs) <= k)%nat -> Forall (fun e => (depth e <= k)%nat) vs.
Proof.
  induction vs as [|v r IH]; cbn [depth fold_right]; intro H; constructor.
  - cbn [depth fold_right] in H. lia.
  - apply IH. cbn [depth]. lia.
Qed.
Lemma depth_map_le kvs k : (depth (VMap kvs) <= k)%nat -> Forall (fun kv => (depth (snd kv) <= k)%nat) kvs.
Proof.
  induction kvs as [|v r IH]; cbn [depth fold_right]; intro H; constructor.
  - lia.
  - apply IH. cbn [depth]. lia.
Qed.
Lemma depth_fields_le fs k : (depth (VMsg fs) <= S k)%nat -> Forall (fun nv => (depth (snd nv) <= k)%nat) fs.
Proof.
  cbn [depth]. intro H. apply le_S_n in H. revert H.
  induction fs as [|v r IH]; cbn [fold_right]; intro H; constructor.
  - lia.
  - apply IH. lia.
Qed.

Definition fields_of (v : value) : list (N * value) := match v with VMsg fs => fs | _ => [] end.

Section RT.
Variable sch : schema.
Variable ext : bool.

Lemma typed_msg_norm m x : typedb sch ext m x = true -> norm sch m x = VMsg (fields_of (norm sch m x)).
Proof.
  destruct x; cbn [typedb]; try discriminate. intros _. cbn [norm].
  destruct (lookup_msg sch m); reflexivity.
Qed.

(* ---- records produced for one field are well formed *)
Lemma len_ok_wf rs : len_ok rs = true -> wf_payload (PLen (enc_records rs)).
Proof. unfold len_ok. intro H. apply N.ltb_lt in H. exact H. Qed.

Lemma enc_unpacked_wf n t x : leaf_ok t x = true -> 1 <= n -> n < 2 ^ 29 ->
  wf_records (enc_unpacked n t x).
Proof.
  intros H H1 H2. destruct (leaf_rt t x H) as (p & He & _ & Hw & _).
  unfold enc_unpacked. rewrite He. constructor; [|constructor]. repeat split; auto.
Qed.

Lemma enc_entry_leaf_wf t num x : leaf_ok t x = true -> 1 <= num -> num < 2 ^ 29 ->
  wf_records (enc_entry_leaf t num x).
Proof.
  intros H H1 H2. unfold enc_entry_leaf. destruct (is_default x); [constructor|].
  apply (enc_unpacked_wf num t x H H1 H2).
Qed.

Definition entry_typed (kk : scalar) (t : ty) (kv : value * value) : bool :=
  leaf_ok (TS kk) (fst kv) &&
  match t with
  | TM m' => typedb sch ext m' (snd kv) && len_ok (enc_msg sch m' (snd kv))
  | t => leaf_ok t (snd kv)
  end &&
  len_ok (enc_entry (enc_msg sch) kk t kv).

Lemma enc_entry_wf kk t kv : entry_typed kk t kv = true ->
  wf_records (enc_entry (enc_msg sch) kk t kv).
Proof.
  unfold entry_typed. rewrite !andb_true_iff. intros [[Hk Hv] _].
  unfold enc_entry. apply Forall_app. split.
  - apply enc_entry_leaf_wf; [exact Hk|lia|reflexivity].
  - destruct t as [s|e|m'].
    + apply enc_entry_leaf_wf; [exact Hv|lia|reflexivity].
    + apply enc_entry_leaf_wf; [exact Hv|lia|reflexivity].
    + apply andb_true_iff in Hv. destruct Hv as [_ Hl].
      destruct (enc_msg sch m' (snd kv)) eqn:E; [constructor|].
      constructor; [|constructor]. split; [cbn; lia|]. split; [reflexivity|].
      apply len_ok_wf. exact Hl.
Qed.

Lemma enc_field_wf desc n x f :
  lookup_field desc n = Some f -> field_ok sch f = true ->
  typed_field sch ext (typedb sch ext) desc (n, x) = true ->
  wf_records (enc_field (enc_msg sch) desc (n, x)).
Proof.
  intros L FO T.
  assert (Hn : f_num f = n) by (apply lookup_field_In in L; tauto).
  unfold field_ok in FO. rewrite !andb_true_iff in FO. destruct FO as [[[[F1 F2] _] _] _].
  apply N.leb_le in F1. apply N.ltb_lt in F2. rewrite Hn in F1, F2.
  unfold typed_field in T. unfold enc_field. rewrite L in *.
  destruct (f_card f) eqn:EC.
  - (* implicit *)
    destruct (f_ty f) eqn:ET.
    + destruct (is_implicit CImplicit && is_default x); [constructor|].
      destruct x; apply enc_unpacked_wf; auto.
    + destruct (is_implicit CImplicit && is_default x); [constructor|].
      destruct x; apply enc_unpacked_wf; auto.
    + assert (typedb sch ext m x && len_ok (enc_msg sch m x) = true) by (destruct x; exact T).
      apply andb_true_iff in H. destruct H as [_ Hl].
      assert (E : wf_records [(n, PLen (enc_records (enc_msg sch m x)))]).
      { constructor; [|constructor]. repeat split; auto. apply len_ok_wf. exact Hl. }
      destruct x; exact E.
  - (* optional *)
    destruct (f_ty f) eqn:ET.
    + cbn [is_implicit andb]. destruct x; apply enc_unpacked_wf; auto.
    + cbn [is_implicit andb]. destruct x; apply enc_unpacked_wf; auto.
    + assert (typedb sch ext m x && len_ok (enc_msg sch m x) = true) by (destruct x; exact T).
      apply andb_true_iff in H. destruct H as [_ Hl].
      assert (E : wf_records [(n, PLen (enc_records (enc_msg sch m x)))]).
      { constructor; [|constructor]. repeat split; auto. apply len_ok_wf. exact Hl. }
      destruct x; exact E.
  - (* repeated *)
    destruct x; try discriminate T.
    destruct (f_ty f) eqn:ET.
    + apply andb_true_iff in T. destruct T as [T1 T2].
      destruct vs as [|v0 vs0]; [constructor|].
      destruct packed.
      * cbn [negb orb] in T2. constructor; [|constructor]. repeat split; auto. apply N.ltb_lt. exact T2.
      * remember (v0 :: vs0) as vs. clear Heqvs T2. induction vs as [|v r IH]; [constructor|].
        cbn [flat_map]. cbn [forallb] in T1. apply andb_true_iff in T1. destruct T1 as [Tv Tr].
        apply Forall_app. split; [apply enc_unpacked_wf; auto|apply IH; exact Tr].
    + apply andb_true_iff in T. destruct T as [T1 T2].
      destruct vs as [|v0 vs0]; [constructor|].
      destruct packed.
      * cbn [negb orb] in T2. constructor; [|constructor]. repeat split; auto. apply N.ltb_lt. exact T2.
      * remember (v0 :: vs0) as vs. clear Heqvs T2. induction vs as [|v r IH]; [constructor|].
        cbn [flat_map]. cbn [forallb] in T1. apply andb_true_iff in T1. destruct T1 as [Tv Tr].
        apply Forall_app. split; [apply enc_unpacked_wf; auto|apply IH; exact Tr].
    + induction vs as [|v r IH]; [constructor|].
      cbn [forallb] in T. apply andb_true_iff in T. destruct T as [Tv Tr].
      apply andb_true_iff in Tv. destruct Tv as [_ Hl].
      cbn [map]. constructor; [|apply IH; exact Tr]. repeat split; auto. apply len_ok_wf. exact Hl.
  - (* map *)
    destruct x; try discriminate T.
    apply andb_true_iff in T. destruct T as [_ T].
    induction kvs as [|kv r IH]; [constructor|].
    cbn [forallb] in T. apply andb_true_iff in T. destruct T as [Tv Tr].
    cbn [map]. constructor; [|apply IH; exact Tr]. repeat split; auto. apply len_ok_wf.
    rewrite !andb_true_iff in Tv. tauto.
  - (* oneof *)
    destruct (f_ty f) eqn:ET.
    + cbn [is_implicit andb]. destruct x; apply enc_unpacked_wf; auto.
    + cbn [is_implicit andb]. destruct x; apply enc_unpacked_wf; auto.
    + assert (typedb sch ext m x && len_ok (enc_msg sch m x) = true) by (destruct x; exact T).
      apply andb_true_iff in H. destruct H as [_ Hl].
      assert (E : wf_records [(n, PLen (enc_records (enc_msg sch m x)))]).
      { constructor; [|constructor]. repeat split; auto. apply len_ok_wf. exact Hl. }
      destruct x; exact E.
Qed.
End RT.

(* ------------------------------------------------------------------ one field through the decoder *)
Section FieldRT.
Variable sch : schema.
Variable ext : bool.
Variable rec : rec_t.
Variable k : nat.
Hypothesis Hrec : forall m' x, (depth x <= k)%nat -> typedb sch ext m' x = true ->
  rec m' [] (encode sch m' x) = Some (fields_of (norm sch m' x)).
Variable desc : list field.

Lemma fold_repeated_msg acc n f m' pk :
  lookup_field desc n = Some f -> f_ty f = TM m' -> f_card f = CRepeated pk -> fget acc n = None ->
  forall vs pre,
  Forall (fun e => (depth e <= k)%nat) vs ->
  forallb (fun e => typedb sch ext m' e && len_ok (enc_msg sch m' e)) vs = true ->
  fold_opt (step rec desc) (with_list acc n pre)
           (map (fun e => (n, PLen (enc_records (enc_msg sch m' e)))) vs)
  = Some (with_list acc n (pre ++ map (norm sch m') vs)).
Proof.
  intros L ET EC G vs. induction vs as [|v r IH]; intros pre D T.
  - cbn. now rewrite app_nil_r.
  - cbn [map fold_opt]. inversion D as [|? ? Dv Dr]. subst.
    cbn [forallb] in T. apply andb_true_iff in T. destruct T as [Tv Tr].
    apply andb_true_iff in Tv. destruct Tv as [Tv _].
    rewrite (step_repeated_msg rec desc _ n _ f m' pk L ET EC).
    change (enc_records (enc_msg sch m' v)) with (encode sch m' v).
    rewrite (Hrec m' v Dv Tv). rewrite <- (typed_msg_norm sch ext m' v Tv).
    rewrite (fpush_with_list acc n pre [norm sch m' v] G).
    rewrite (IH (pre ++ [norm sch m' v]) Dr Tr). rewrite <- app_assoc. reflexivity.
Qed.

Lemma fold_repeated_unpacked acc n f pk :
  lookup_field desc n = Some f -> f_card f = CRepeated pk ->
  (match f_ty f with TM _ => False | _ => True end) -> fget acc n = None ->
  forall vs pre, forallb (leaf_ok (f_ty f)) vs = true ->
  fold_opt (step rec desc) (with_list acc n pre) (flat_map (enc_unpacked n (f_ty f)) vs)
  = Some (with_list acc n (pre ++ vs)).
Proof.
  intros L EC NT G vs. induction vs as [|v r IH]; intros pre T.
  - cbn. now rewrite app_nil_r.
  - cbn [forallb] in T. apply andb_true_iff in T. destruct T as [Tv Tr].
    destruct (leaf_rt _ _ Tv) as (p & He & Hd & _ & Hs).
    cbn [flat_map]. unfold enc_unpacked at 1. rewrite He. cbn [app fold_opt].
    rewrite (step_repeated_unpacked rec desc _ n p f pk v L EC NT Hd).
    + rewrite (fpush_with_list acc n pre [v] G). rewrite (IH (pre ++ [v]) Tr).
      rewrite <- app_assoc. reflexivity.
    + destruct p; auto.
Qed.

(* ---- map entries *)
Definition norm_kv (t : ty) (kv : value * value) : value * value :=
  match t with TM m' => (fst kv, norm sch m' (snd kv)) | _ => kv end.

Lemma enc_empty_norm_empty_field d n x :
  typed_field sch ext (typedb sch ext) d (n, x) = true ->
  enc_field (enc_msg sch) d (n, x) = [] -> norm_field (norm sch) d (n, x) = [].
Proof.
  unfold typed_field, enc_field, norm_field.
  destruct (lookup_field d n) as [f|]; [|reflexivity].
  assert (U : forall t v, leaf_ok t v = true -> enc_unpacked n t v <> []).
  { intros t v H. destruct (leaf_rt t v H) as (p & He & _). unfold enc_unpacked. rewrite He. discriminate. }
  destruct (f_card f) eqn:EC.
  - destruct (f_ty f) eqn:ET.
    + intros T E. assert (leaf_ok (TS s) x = true) by (destruct x; exact T).
      destruct (is_implicit CImplicit && is_default x) eqn:C.
      * destruct x; reflexivity.
      * exfalso. apply (U _ _ H). destruct x; exact E.
    + intros T E. assert (leaf_ok (TE e) x = true) by (destruct x; exact T).
      destruct (is_implicit CImplicit && is_default x) eqn:C.
      * destruct x; reflexivity.
      * exfalso. apply (U _ _ H). destruct x; exact E.
    + intros _ E. exfalso. destruct x; discriminate E.
  - destruct (f_ty f) eqn:ET.
    + intros T E. assert (leaf_ok (TS s) x = true) by (destruct x; exact T).
      exfalso. apply (U _ _ H). destruct x; exact E.
    + intros T E. assert (leaf_ok (TE e) x = true) by (destruct x; exact T).
      exfalso. apply (U _ _ H). destruct x; exact E.
    + intros _ E. exfalso. destruct x; discriminate E.
  - destruct x; try reflexivity. destruct vs as [|v0 r]; [reflexivity|].
    destruct (f_ty f) eqn:ET.
    + intros T E. exfalso. apply andb_true_iff in T. destruct T as [T _].
      cbn [forallb] in T. apply andb_true_iff in T. destruct T as [T _].
      destruct packed; [discriminate E|]. cbn [flat_map] in E. apply app_eq_nil in E.
      apply (U _ _ T). tauto.
    + intros T E. exfalso. apply andb_true_iff in T. destruct T as [T _].
      cbn [forallb] in T. apply andb_true_iff in T. destruct T as [T _].
      destruct packed; [discriminate E|]. cbn [flat_map] in E. apply app_eq_nil in E.
      apply (U _ _ T). tauto.
    + intros _ E. discriminate E.
  - destruct x; try reflexivity. destruct kvs as [|kv r]; [reflexivity|].
    intros _ E. discriminate E.
  - destruct (f_ty f) eqn:ET.
    + intros T E. assert (leaf_ok (TS s) x = true) by (destruct x; exact T).
      exfalso. apply (U _ _ H). destruct x; exact E.
    + intros T E. assert (leaf_ok (TE e) x = true) by (destruct x; exact T).
      exfalso. apply (U _ _ H). destruct x; exact E.
    + intros _ E. exfalso. destruct x; discriminate E.
Qed.

Lemma enc_empty_norm_empty m v :
  typedb sch ext m v = true -> enc_msg sch m v = [] -> norm sch m v = VMsg [].
Proof.
  destruct v; cbn [typedb]; try discriminate. cbn [enc_msg norm].
  destruct (lookup_msg sch m) as [d|]; [|reflexivity].
  rewrite !andb_true_iff. intros [_ T] E. f_equal.
  apply flat_map_all_nil. intros [n x] Hin.
  apply enc_empty_norm_empty_field.
  - rewrite forallb_forall in T. apply T. exact Hin.
  - apply (flat_map_nil _ _ E). exact Hin.
Qed.

Lemma entry_key_rt kk key dv :
  leaf_ok (TS kk) key = true ->
  fold_opt (entry_step rec kk (TS kk)) (default_of (TS kk), dv) (enc_entry_leaf (TS kk) 1 key) = Some (key, dv)
  /\ forall t, fold_opt (entry_step rec kk t) (default_of (TS kk), dv) (enc_entry_leaf (TS kk) 1 key) = Some (key, dv).
Proof.
  intro H.
  assert (G : forall t, fold_opt (entry_step rec kk t) (default_of (TS kk), dv) (enc_entry_leaf (TS kk) 1 key) = Some (key, dv)).
  { intro t. unfold enc_entry_leaf. destruct (is_default key) eqn:D.
    - cbn [fold_opt]. rewrite (leaf_default _ _ H D). reflexivity.
    - destruct (leaf_rt _ _ H) as (p & He & Hd & _). rewrite He. cbn [fold_opt].
      unfold entry_step. change (1 =? 1) with true. cbv iota. rewrite Hd. reflexivity. }
  split; [apply G|exact G].
Qed.

Lemma entry_rt kk t kv :
  entry_typed sch ext kk t kv = true -> (depth (snd kv) <= k)%nat ->
  fold_opt (entry_step rec kk t) (default_of (TS kk), default_of t) (enc_entry (enc_msg sch) kk t kv)
  = Some (norm_kv t kv).
Proof.
  unfold entry_typed. rewrite !andb_true_iff. intros [[Hk Hv] _] D.
  destruct kv as [key v]. cbn [fst snd] in *.
  unfold enc_entry. rewrite fold_opt_app. cbn [fst snd].
  rewrite (proj2 (entry_key_rt kk key (default_of t) Hk) t).
  assert (LEAF : forall t', t' = t -> match t' with TM _ => False | _ => True end -> leaf_ok t' v = true ->
     fold_opt (entry_step rec kk t') (key, default_of t') (enc_entry_leaf t' 2 v) = Some (key, v)).
  { intros t' _ NT Hl. unfold enc_entry_leaf. destruct (is_default v) eqn:Dv.
    - cbn [fold_opt]. rewrite (leaf_default _ _ Hl Dv). reflexivity.
    - destruct (leaf_rt _ _ Hl) as (p & He & Hd & _). rewrite He. cbn [fold_opt].
      unfold entry_step. change (2 =? 1) with false. change (2 =? 2) with true. cbv iota.
      cbn [fst snd]. destruct t'; try contradiction; rewrite Hd; reflexivity. }
  destruct t as [s|e|m'].
  - unfold norm_kv. apply LEAF; auto.
  - unfold norm_kv. apply LEAF; auto.
  - apply andb_true_iff in Hv. destruct Hv as [Hv _]. unfold norm_kv. cbn [fst snd].
    destruct (enc_msg sch m' v) as [|r0 rs] eqn:E.
    + cbn [fold_opt]. rewrite (enc_empty_norm_empty m' v Hv E). reflexivity.
    + cbn [fold_opt]. unfold entry_step. change (2 =? 1) with false. change (2 =? 2) with true.
      cbv iota. cbn [fst snd default_of old_fields]. rewrite <- E.
      change (enc_records (enc_msg sch m' v)) with (encode sch m' v).
      rewrite (Hrec m' v D Hv). rewrite <- (typed_msg_norm sch ext m' v Hv). reflexivity.
Qed.

Lemma norm_kv_fst t kv : fst (norm_kv t kv) = fst kv.
Proof. unfold norm_kv. destruct t; reflexivity. Qed.

Lemma fold_map acc n f kk :
  lookup_field desc n = Some f -> f_card f = CMap kk -> fget acc n = None ->
  forall kvs pre,
  Forall (fun kv => (depth (snd kv) <= k)%nat) kvs ->
  forallb (entry_typed sch ext kk (f_ty f)) kvs = true ->
  nodupb key_eqb (map fst pre ++ map fst kvs) = true ->
  fold_opt (step rec desc) (with_map acc n pre)
     (map (fun kv : value * value => (n, PLen (enc_records (enc_entry (enc_msg sch) kk (f_ty f) kv)))) kvs)
  = Some (with_map acc n (pre ++ map (norm_kv (f_ty f)) kvs)).
Proof.
  intros L EC G kvs. induction kvs as [|kv r IH]; intros pre D T ND.
  - cbn. now rewrite app_nil_r.
  - cbn [map fold_opt]. inversion D as [|? ? Dv Dr]. subst.
    cbn [forallb] in T. apply andb_true_iff in T. destruct T as [Tv Tr].
    rewrite (step_map rec desc _ n _ f kk (enc_entry (enc_msg sch) kk (f_ty f) kv)
               (fst (norm_kv (f_ty f) kv)) (snd (norm_kv (f_ty f) kv)) L EC).
    + rewrite norm_kv_fst.
      rewrite (fmap_insert_with_map acc n pre _ _ G).
      * replace (fst kv, snd (norm_kv (f_ty f) kv)) with (norm_kv (f_ty f) kv)
          by (rewrite <- (norm_kv_fst (f_ty f) kv); destruct (norm_kv (f_ty f) kv); reflexivity).
        rewrite (IH (pre ++ [norm_kv (f_ty f) kv]) Dr Tr).
        -- rewrite <- app_assoc. reflexivity.
        -- rewrite map_app. cbn [map]. rewrite norm_kv_fst. rewrite <- app_assoc. exact ND.
      * cbn [map] in ND. apply (nodupb_app_fresh key_eqb _ _ _ ND).
    + apply records_roundtrip. apply (enc_entry_wf sch ext). exact Tv.
    + rewrite (entry_rt kk (f_ty f) kv Tv Dv). destruct (norm_kv (f_ty f) kv); reflexivity.
Qed.

(* ---- the per-field statement *)
Lemma field_rt acc n x f :
  lookup_field desc n = Some f -> field_ok sch f = true ->
  (depth x <= k)%nat ->
  typed_field sch ext (typedb sch ext) desc (n, x) = true ->
  fget acc n = None ->
  (forall g, f_card f = COneof g -> forall k', In k' (keys acc) -> in_group desc g k' = false) ->
  fold_opt (step rec desc) acc (enc_field (enc_msg sch) desc (n, x))
  = Some (acc ++ norm_field (norm sch) desc (n, x)).
Proof.
  intros L FO D T G OG.
  assert (PK : f_card f = CRepeated true -> packable (f_ty f) = true).
  { intro EC. unfold field_ok in FO. rewrite EC in FO. rewrite !andb_true_iff in FO.
    destruct FO as [_ FO]. exact FO. }
  (* singular leaf, shared by implicit / optional / oneof *)
  assert (SL : forall c, f_card f = c ->
             (match c with CImplicit | COptional | COneof _ => True | _ => False end) ->
             (match f_ty f with TM _ => False | _ => True end) -> leaf_ok (f_ty f) x = true ->
             fold_opt (step rec desc) acc (if is_implicit c && is_default x then [] else enc_unpacked n (f_ty f) x)
             = Some (acc ++ (if is_implicit c && is_default x then [] else [(n, x)]))).
  { intros c EC OKc NT Hl. destruct (is_implicit c && is_default x) eqn:C.
    - cbn. now rewrite app_nil_r.
    - destruct (leaf_rt _ _ Hl) as (p & He & Hd & _). unfold enc_unpacked. rewrite He. cbn [fold_opt].
      rewrite (step_singular_leaf rec desc acc n p f x L NT Hd). rewrite EC.
      destruct c; try contradiction.
      + cbn [is_implicit andb] in C. rewrite C. now rewrite fset_fresh.
      + now rewrite fset_fresh.
      + rewrite (clear_group_noop desc g n acc (OG g EC)). now rewrite fset_fresh. }
  (* singular message *)
  assert (SM : forall c m', f_card f = c -> f_ty f = TM m' ->
             (match c with CImplicit | COptional | COneof _ => True | _ => False end) ->
             typedb sch ext m' x && len_ok (enc_msg sch m' x) = true ->
             fold_opt (step rec desc) acc [(n, PLen (enc_records (enc_msg sch m' x)))]
             = Some (acc ++ [(n, norm sch m' x)])).
  { intros c m' EC ET OKc Tx. apply andb_true_iff in Tx. destruct Tx as [Tx _]. cbn [fold_opt].
    rewrite (step_singular_msg rec desc acc n _ f m' L ET). rewrite EC.
    change (enc_records (enc_msg sch m' x)) with (encode sch m' x).
    destruct c; try contradiction.
    - rewrite G. cbn [old_fields]. rewrite (Hrec m' x D Tx).
      rewrite <- (typed_msg_norm sch ext m' x Tx). now rewrite fset_fresh.
    - rewrite G. cbn [old_fields]. rewrite (Hrec m' x D Tx).
      rewrite <- (typed_msg_norm sch ext m' x Tx). now rewrite fset_fresh.
    - cbv zeta. rewrite (clear_group_noop desc g n acc (OG g EC)).
      rewrite G. cbn [old_fields]. rewrite (Hrec m' x D Tx).
      rewrite <- (typed_msg_norm sch ext m' x Tx). now rewrite fset_fresh. }
  unfold typed_field in T. unfold enc_field, norm_field. rewrite L in *.
  destruct (f_card f) eqn:EC.
  - (* implicit *)
    destruct (f_ty f) eqn:ET.
    + assert (Hl : leaf_ok (TS s) x = true) by (destruct x; exact T).
      specialize (SL CImplicit eq_refl I I Hl). destruct x; exact SL.
    + assert (Hl : leaf_ok (TE e) x = true) by (destruct x; exact T).
      specialize (SL CImplicit eq_refl I I Hl). destruct x; exact SL.
    + assert (Tx : typedb sch ext m x && len_ok (enc_msg sch m x) = true) by (destruct x; exact T).
      specialize (SM CImplicit m eq_refl eq_refl I Tx). destruct x; exact SM.
  - (* optional *)
    destruct (f_ty f) eqn:ET.
    + assert (Hl : leaf_ok (TS s) x = true) by (destruct x; exact T).
      specialize (SL COptional eq_refl I I Hl). destruct x; exact SL.
    + assert (Hl : leaf_ok (TE e) x = true) by (destruct x; exact T).
      specialize (SL COptional eq_refl I I Hl). destruct x; exact SL.
    + assert (Tx : typedb sch ext m x && len_ok (enc_msg sch m x) = true) by (destruct x; exact T).
      specialize (SM COptional m eq_refl eq_refl I Tx). destruct x; exact SM.
  - (* repeated *)
    destruct x; try discriminate T.
    apply depth_list_le in D.
    destruct (f_ty f) eqn:ET.
    + apply andb_true_iff in T. destruct T as [T1 T2].
      destruct vs as [|v0 vs0]; [cbn; now rewrite app_nil_r|].
      destruct packed.
      * cbn [fold_opt].
        rewrite (step_repeated_packed rec desc acc n _ f true (v0 :: vs0) L EC).
        -- unfold fpush. rewrite G. rewrite (fset_fresh _ _ _ G). reflexivity.
        -- rewrite ET. apply PK. reflexivity.
        -- rewrite ET. apply packed_rt; [apply PK; reflexivity|exact T1|].
           apply packed_len; [exact T1|apply PK; reflexivity].
      * pose proof (fold_repeated_unpacked acc n f false L EC (ltac:(rewrite ET; exact I)) G (v0 :: vs0) []
                   (ltac:(rewrite ET; exact T1))) as H.
        cbn [with_list app] in H. rewrite ET in H. exact H.
    + apply andb_true_iff in T. destruct T as [T1 T2].
      destruct vs as [|v0 vs0]; [cbn; now rewrite app_nil_r|].
      destruct packed.
      * cbn [fold_opt].
        rewrite (step_repeated_packed rec desc acc n _ f true (v0 :: vs0) L EC).
        -- unfold fpush. rewrite G. rewrite (fset_fresh _ _ _ G). reflexivity.
        -- rewrite ET. apply PK. reflexivity.
        -- rewrite ET. apply packed_rt; [apply PK; reflexivity|exact T1|].
           apply packed_len; [exact T1|apply PK; reflexivity].
      * pose proof (fold_repeated_unpacked acc n f false L EC (ltac:(rewrite ET; exact I)) G (v0 :: vs0) []
                   (ltac:(rewrite ET; exact T1))) as H.
        cbn [with_list app] in H. rewrite ET in H. exact H.
    + pose proof (fold_repeated_msg acc n f m packed L ET EC G vs [] D T) as H.
      cbn [with_list app] in H. rewrite H.
      destruct vs; [cbn; now rewrite app_nil_r|reflexivity].
  - (* map *)
    destruct x; try discriminate T.
    apply depth_map_le in D.
    apply andb_true_iff in T. destruct T as [ND T].
    assert (T' : forallb (entry_typed sch ext k0 (f_ty f)) kvs = true).
    { apply forallb_forall. intros kv Hkv. rewrite forallb_forall in T. specialize (T kv Hkv).
      unfold entry_typed. destruct (f_ty f); exact T. }
    pose proof (fold_map acc n f k0 L EC G kvs [] D T' ND) as H.
    cbn [with_map app] in H. rewrite H. clear H.
    assert (MI : forall t (l : list (value * value)),
               (match t with TM _ => False | _ => True end) -> map (norm_kv t) l = l).
    { intros t l NT. induction l as [|a l IHl]; [reflexivity|]. cbn [map]. rewrite IHl.
      unfold norm_kv. destruct t; try contradiction; reflexivity. }
    destruct kvs as [|kv0 r]; [cbn; now rewrite app_nil_r|].
    destruct (f_ty f) eqn:ET.
    + rewrite (MI (TS s)) by exact I. reflexivity.
    + rewrite (MI (TE e)) by exact I. reflexivity.
    + reflexivity.
  - (* oneof *)
    destruct (f_ty f) eqn:ET.
    + assert (Hl : leaf_ok (TS s) x = true) by (destruct x; exact T).
      specialize (SL (COneof g) eq_refl I I Hl). destruct x; exact SL.
    + assert (Hl : leaf_ok (TE e) x = true) by (destruct x; exact T).
      specialize (SL (COneof g) eq_refl I I Hl). destruct x; exact SL.
    + assert (Tx : typedb sch ext m x && len_ok (enc_msg sch m x) = true) by (destruct x; exact T).
      specialize (SM (COneof g) m eq_refl eq_refl I Tx). destruct x; exact SM.
Qed.
End FieldRT.

(* ------------------------------------------------------------------ all fields, all depths *)
Lemma norm_field_keys nrm desc n x kv : In kv (norm_field nrm desc (n, x)) -> fst kv = n.
Proof.
  unfold norm_field. destruct (lookup_field desc n) as [f|]; [|intros []].
  destruct (f_card f); destruct x; try destruct vs; try destruct kvs; destruct (f_ty f);
    cbn [is_implicit andb];
    try match goal with |- context [is_default ?v] => destruct (is_default v) end;
    cbn [In]; intros H; try contradiction; destruct H as [H|[]]; subst kv; reflexivity.
Qed.

Lemma in_group_groups desc g acc k' :
  In k' (keys acc) -> in_group desc g k' = true ->
  existsb (fun y => String.eqb y g) (groups_of desc acc) = true.
Proof.
  unfold keys, groups_of. intros Hin Hg. apply in_map_iff in Hin. destruct Hin as ([k0 v] & E & Hin).
  cbn in E. subst k0. apply existsb_exists. unfold in_group in Hg.
  destruct (lookup_field desc k') as [f|] eqn:L; [|discriminate].
  destruct (f_card f) eqn:EC; try discriminate.
  exists g0. split; [|exact Hg]. apply in_flat_map. exists (k', v). split; [exact Hin|].
  cbn [fst]. rewrite L, EC. left. reflexivity.
Qed.

Section Main.
Variable sch : schema.
Variable ext : bool.
Hypothesis WF : wf_schema sch = true.

Lemma unknown_skipped rec desc acc n x :
  lookup_field desc n = None ->
  fold_opt (step rec desc) acc (enc_unknown n x) = Some acc.
Proof.
  intro L. destruct x; cbn [enc_unknown fold_opt]; try reflexivity; unfold step; rewrite L; reflexivity.
Qed.

Lemma fields_rt rec k desc :
  (forall m' x, (depth x <= k)%nat -> typedb sch ext m' x = true ->
     rec m' [] (encode sch m' x) = Some (fields_of (norm sch m' x))) ->
  forallb (field_ok sch) desc = true ->
  forall fs acc,
  Forall (fun nv => (depth (snd nv) <= k)%nat) fs ->
  forallb (typed_field sch ext (typedb sch ext) desc) fs = true ->
  (forall nv, In nv fs -> fget acc (fst nv) = None) ->
  NoDup (map fst fs) ->
  nodupb String.eqb (groups_of desc fs) = true ->
  (forall nv f g, In nv fs -> lookup_field desc (fst nv) = Some f -> f_card f = COneof g ->
     forall k', In k' (keys acc) -> in_group desc g k' = false) ->
  fold_opt (step rec desc) acc (flat_map (enc_field (enc_msg sch) desc) fs)
  = Some (acc ++ flat_map (norm_field (norm sch) desc) fs).
Proof.
  intros Hrec FO fs. induction fs as [|[n x] r IH]; intros acc D T FR ND GD OG.
  - cbn. now rewrite app_nil_r.
  - cbn [flat_map]. rewrite fold_opt_app.
    inversion D as [|? ? Dx Dr]. subst. cbn [snd] in Dx.
    cbn [forallb] in T. apply andb_true_iff in T. destruct T as [Tx Tr].
    cbn [map] in ND. inversion ND as [|? ? Nn Nr]. subst.
    assert (FRn : fget acc n = None) by (apply (FR (n, x)); left; reflexivity).
    assert (STEP : fold_opt (step rec desc) acc (enc_field (enc_msg sch) desc (n, x))
                   = Some (acc ++ norm_field (norm sch) desc (n, x))).
    { destruct (lookup_field desc n) as [f|] eqn:L.
      - apply (field_rt sch ext rec k Hrec desc acc n x f L); auto.
        + apply lookup_field_In in L. rewrite forallb_forall in FO. apply FO. tauto.
        + intros g EC. apply (OG (n, x) f g); auto. left. reflexivity.
      - unfold enc_field, norm_field. rewrite L. rewrite app_nil_r. apply unknown_skipped. exact L. }
    rewrite STEP. rewrite IH; auto.
    + rewrite <- app_assoc. reflexivity.
    + (* freshness of the remaining keys *)
      intros nv Hnv. apply fget_none. rewrite keys_app. intro Hin. apply in_app_or in Hin.
      destruct Hin as [Hin|Hin].
      * apply (fget_none_inv acc (fst nv)); [apply FR; right; exact Hnv|exact Hin].
      * unfold keys in Hin. apply in_map_iff in Hin. destruct Hin as (kv & E & Hkv).
        apply norm_field_keys in Hkv. apply Nn. apply in_map_iff. exists nv. split; [congruence|exact Hnv].
    + (* groups of the remaining fields *)
      unfold groups_of in GD. cbn [flat_map] in GD. fold (groups_of desc r) in GD.
      cbn [fst] in GD.
      destruct (lookup_field desc n) as [f|]; [|exact GD].
      destruct (f_card f); try exact GD.
      cbn [app nodupb] in GD. apply andb_true_iff in GD. tauto.
    + (* no arm of a remaining oneof group is in the accumulator *)
      intros nv f g Hnv L EC k' Hk'. rewrite keys_app in Hk'. apply in_app_or in Hk'.
      destruct Hk' as [Hk'|Hk'].
      * apply (OG nv f g); auto. right. exact Hnv.
      * unfold keys in Hk'. apply in_map_iff in Hk'. destruct Hk' as (kv & E & Hkv).
        apply norm_field_keys in Hkv. assert (Ek : k' = n) by congruence. rewrite Ek. clear Ek E Hkv kv.
        unfold in_group. destruct (lookup_field desc n) as [fn|] eqn:Ln; [|reflexivity].
        destruct (f_card fn) eqn:ECn; try reflexivity.
        (* n is an arm of g0; nv is an arm of g; both groups occur in the typed message: distinct *)
        unfold groups_of in GD. cbn [flat_map fst] in GD. rewrite Ln, ECn in GD.
        cbn [app nodupb] in GD. apply andb_true_iff in GD. destruct GD as [GD _].
        apply negb_true_iff in GD.
        destruct (String.eqb g0 g) eqn:Eg; [|reflexivity].
        exfalso. assert (X : existsb (String.eqb g0) (flat_map (fun nv0 : N * value =>
                     match lookup_field desc (fst nv0) with
                     | Some f0 => match f_card f0 with COneof g1 => [g1] | _ => [] end
                     | None => [] end) r) = true).
        { apply existsb_exists. exists g. split; [|exact Eg]. apply in_flat_map. exists nv.
          split; [exact Hnv|]. rewrite L, EC. left. reflexivity. }
        congruence.
Qed.

Lemma Forall_flat_map {X Y} (P : Y -> Prop) (f : X -> list Y) l :
  (forall x, In x l -> Forall P (f x)) -> Forall P (flat_map f l).
Proof.
  induction l as [|x r IH]; cbn; [constructor|]. intro H. apply Forall_app. split.
  - apply H. left. reflexivity.
  - apply IH. intros y Hy. apply H. right. exact Hy.
Qed.

Lemma carrier_wf n x : carrier_ok n x = true -> wf_records (enc_unknown n x).
Proof.
  unfold carrier_ok. rewrite !andb_true_iff. intros [[H1 H2] H3].
  apply N.leb_le in H1. apply N.ltb_lt in H2.
  destruct x; cbn [enc_unknown]; try constructor; try constructor; repeat split; auto; cbn [snd wf_payload];
    try (apply N.ltb_lt; exact H3).
  destruct b; reflexivity.
Qed.

Lemma enc_msg_wf m v : typedb sch ext m v = true -> wf_records (enc_msg sch m v).
Proof.
  destruct v; cbn [typedb]; try discriminate. cbn [enc_msg].
  destruct (lookup_msg sch m) as [desc|] eqn:LM; [|discriminate].
  rewrite !andb_true_iff. intros [_ T].
  destruct (wf_msg_ok sch m desc WF LM) as [FO _].
  apply Forall_flat_map. intros [n x] Hin. rewrite forallb_forall in T. specialize (T _ Hin).
  destruct (lookup_field desc n) as [f|] eqn:L.
  - apply (enc_field_wf sch ext desc n x f L); [|exact T].
    apply lookup_field_In in L. rewrite forallb_forall in FO. apply FO. tauto.
  - unfold enc_field. rewrite L. unfold typed_field in T. rewrite L in T.
    apply andb_true_iff in T. apply carrier_wf. tauto.
Qed.

Theorem codec_roundtrip_fuel : forall k m v,
  typedb sch ext m v = true -> (depth v <= k)%nat ->
  dec_msg sch k m [] (encode sch m v) = Some (fields_of (norm sch m v)).
Proof.
  induction k as [|k IH]; intros m v T D.
  - destruct v; cbn [typedb] in T; try discriminate T. cbn [depth] in D. lia.
  - pose proof (enc_msg_wf m v T) as W.
    destruct v; cbn [typedb] in T; try discriminate T.
    cbn [dec_msg]. unfold encode. rewrite (records_roundtrip _ W).
    cbn [enc_msg norm] in *.
    destruct (lookup_msg sch m) as [desc|] eqn:LM; [|discriminate T].
    rewrite !andb_true_iff in T. destruct T as [[T1 T2] T3].
    destruct (wf_msg_ok sch m desc WF LM) as [FO _].
    cbn [fields_of].
    apply (fields_rt (dec_msg sch k) k desc (fun m' x Dx Tx => IH m' x Tx Dx) FO fs []
             (depth_fields_le fs k D) T3).
    + intros nv _. reflexivity.
    + apply (nodupb_NoDup N.eqb); [apply N.eqb_refl|exact T1].
    + exact T2.
    + intros nv f g _ _ _ k' [].
Qed.

End Main.

(* ================================================================== the theorems *)
Theorem codec_roundtrip sch : wf_schema sch = true ->
  forall m v, typed sch m v ->
  decode sch (fuel_for v) m (encode sch m v) = Some (norm sch m v).
Proof.
  intros WF m v T. unfold decode, fuel_for.
  rewrite (codec_roundtrip_fuel sch false WF (S (depth v)) m v T) by lia.
  cbn [option_map]. rewrite <- (typed_msg_norm sch false m v T). reflexivity.
Qed.

(* unknown fields of all four wire types, anywhere in the message tree, are tolerated *)
Theorem codec_unknown_fields sch : wf_schema sch = true ->
  forall m v, typedb sch true m v = true ->
  decode sch (fuel_for v) m (encode sch m v) = Some (norm sch m v).
Proof.
  intros WF m v T. unfold decode, fuel_for.
  rewrite (codec_roundtrip_fuel sch true WF (S (depth v)) m v T) by lia.
  cbn [option_map]. rewrite <- (typed_msg_norm sch true m v T). reflexivity.
Qed.

(* more fuel is harmless: any fuel above the nesting depth works (prost's limit is 100) *)
Theorem codec_roundtrip_any_fuel sch : wf_schema sch = true ->
  forall m v fuel, typedb sch true m v = true -> (depth v <= fuel)%nat ->
  decode sch fuel m (encode sch m v) = Some (norm sch m v).
Proof.
  intros WF m v fuel T D. unfold decode.
  rewrite (codec_roundtrip_fuel sch true WF fuel m v T D).
  cbn [option_map]. rewrite <- (typed_msg_norm sch true m v T). reflexivity.
Qed.

(* the normal form never invents a field: an unset oneof (or any absent field) stays absent *)
Lemma norm_keys sch m fs n :
  In n (keys (fields_of (norm sch m (VMsg fs)))) -> In n (keys fs).
Proof.
  cbn [norm]. destruct (lookup_msg sch m) as [desc|]; [|intros []].
  cbn [fields_of]. unfold keys. intro H. apply in_map_iff in H. destruct H as (kv & E & H).
  apply in_flat_map in H. destruct H as ([n' x] & Hin & Hkv).
  apply norm_field_keys in Hkv. apply in_map_iff. exists (n', x). split; [cbn; congruence|exact Hin].
Qed.

Theorem codec_unset_oneof sch : wf_schema sch = true ->
  forall m fs, typed sch m (VMsg fs) ->
  exists fs', decode sch (fuel_for (VMsg fs)) m (encode sch m (VMsg fs)) = Some (VMsg fs') /\
              forall n, ~ In n (keys fs) -> ~ In n (keys fs').
Proof.
  intros WF m fs T. exists (fields_of (norm sch m (VMsg fs))). split.
  - rewrite (codec_roundtrip sch WF m _ T). rewrite (typed_msg_norm sch false m _ T) at 1. reflexivity.
  - intros n Hn Hin. apply Hn. apply (norm_keys sch m fs n Hin).
Qed.
