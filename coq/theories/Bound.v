(* Bound.v — executable model of rust/ommx/src/bound.rs (interval analysis over the
   extended numbers [ext] of Num.v) and of Function::evaluate_bound / content_factor
   (rust/ommx/src/v1_ext/function.rs:189-233).

   Only definitions live here (imported by other properties); the proofs are in
   BoundProofs.v, BoundMul.v, BoundEval.v and BoundContent.v.

   Conventions: [None] models the `unwrap()` panic (resp. the `Err`) of
   `BoundError::check`; endpoints are exact ([Fin q] is the rational value of the f64),
   so float rounding of endpoints is *not* modelled (the code does not round outward);
   exponents are [nat] (the `as u8` truncation above 255 is not modelled);
   `-0.0` is identified with `0`. *)
Require Import Ommx.Num Ommx.Poly Ommx.Msg.

Record bound := { lower : ext; upper : ext }.

(* BoundError::check + Bound::new  (bound.rs:21-34, 261-264) *)
Definition bnew (l u : ext) : option bound :=
  if is_nan l || is_nan u then None                       (* NotANumber *)
  else if eeqb l PInf || eeqb u NInf then None            (* InvalidInfinity *)
  else if eltb u l then None                              (* lower > upper *)
  else Some {| lower := l; upper := u |}.

(* the invariant of the Rust type *)
Definition valid (X : bound) : Prop := bnew (lower X) (upper X) = Some X.
Definition validb (X : bound) : bool :=
  match bnew (lower X) (upper X) with Some _ => true | None => false end.

(* a rational point lies in the interval *)
Definition bmem (x : num) (X : bound) : bool :=
  eleb (lower X) (Fin x) && eleb (Fin x) (upper X).

Definition bwhole : bound := {| lower := NInf; upper := PInf |}.     (* Bound::default() *)
Definition bzero : bound := {| lower := Fin 0; upper := Fin 0 |}.    (* Bound::zero() *)
Definition bone : bound := {| lower := Fin 1; upper := Fin 1 |}.     (* Bound::new(1.0, 1.0) *)
Definition bpoint (c : num) : bound := {| lower := Fin c; upper := Fin c |}.

(* derived PartialEq: field-wise f64 == *)
Definition beqb (X Y : bound) : bool :=
  eeqb (lower X) (lower Y) && eeqb (upper X) (upper Y).

(* impl Add for Bound *)
Definition badd (X Y : bound) : option bound :=
  bnew (eadd (lower X) (lower Y)) (eadd (upper X) (upper Y)).
(* impl Add<f64> for Bound *)
Definition badd_scalar (X : bound) (c : ext) : option bound :=
  bnew (eadd (lower X) c) (eadd (upper X) c).

(* impl Mul for Bound: zero shortcut, four products, NaN-ignoring min/max *)
Definition bmul (X Y : bound) : option bound :=
  if beqb X bzero || beqb Y bzero then Some bzero
  else
    let a := emul (lower X) (lower Y) in
    let b := emul (lower X) (upper Y) in
    let c := emul (upper X) (lower Y) in
    let d := emul (upper X) (upper Y) in
    bnew (emin (emin (emin a b) c) d) (emax (emax (emax a b) c) d).

(* impl Mul<f64> for Bound: sign split on `rhs >= 0.0` *)
Definition bscale (X : bound) (k : ext) : option bound :=
  if eleb (Fin 0) k then bnew (emul (lower X) k) (emul (upper X) k)
  else bnew (emul (upper X) k) (emul (lower X) k).

(* f64::powi with an exact result; x^0 = 1 for every x *)
Definition epow (a : ext) (n : nat) : ext :=
  match n with
  | O => Fin 1
  | _ =>
      match a with
      | NaN => NaN
      | Fin x => Fin (x ^ n)
      | PInf => PInf
      | NInf => if Nat.even n then PInf else NInf
      end
  end.
Definition eabs (a : ext) : ext :=
  match a with NaN => NaN | Fin x => Fin (qabs x) | _ => PInf end.

(* Bound::pow (bound.rs:319-342) *)
Definition bpow (X : bound) (n : nat) : option bound :=
  if Nat.even n then
    if eleb (Fin 0) (lower X) then bnew (epow (lower X) n) (epow (upper X) n)
    else if eleb (upper X) (Fin 0) then bnew (epow (upper X) n) (epow (lower X) n)
    else bnew (Fin 0) (emax (epow (eabs (upper X)) n) (epow (eabs (lower X)) n))
  else bnew (epow (lower X) n) (epow (upper X) n).

(* Bound::as_integer_bound: [ceil(lower - 1e-6), floor(upper + 1e-6)], infinities kept;
   [tol6] is the exact rational value of the literal 1e-6 *)
Definition as_integer_bound (X : bound) : option bound :=
  let l := match lower X with Fin q => Fin (qz (qceil (q - tol6))) | e => e end in
  let u := match upper X with Fin q => Fin (qz (qfloor (q + tol6))) | e => e end in
  bnew l u.

(* Bound::contains(value, atol) *)
Definition bcontains (X : bound) (v atol : ext) : bool :=
  eleb (eadd (lower X) (eneg atol)) v && eleb v (eadd (upper X) atol).

(* Bound::intersection *)
Definition bintersection (X Y : bound) : option bound :=
  bnew (emax (lower X) (lower Y)) (emin (upper X) (upper Y)).

(* Bound::nearest_to_zero *)
Definition nearest_to_zero (X : bound) : ext :=
  if eleb (Fin 0) (lower X) then lower X
  else if eleb (upper X) (Fin 0) then upper X
  else Fin 0.

Definition bis_finite (X : bound) : bool := is_fin (lower X) && is_fin (upper X).

(* ---------------------------------------------------------------------------- *)
(* the term iterator `&Function: IntoIterator<Item = (SortedIds, f64)>` *)

Definition nonzero_coef (mc : list N * num) : bool := negb (qeqb (snd mc) 0).
(* &Linear: terms, then the constant, zero coefficients filtered out *)
Definition lin_iter (l : linear) : terms := filter nonzero_coef (lin_terms l).
(* &Quadratic: asserts equal array lengths (None = the assertion panics); keys are
   SortedIds::new([column, row]); then the linear part *)
Definition quad_lens_ok (q : quadratic) : bool :=
  (List.length (q_cols q) =? List.length (q_rows q))%nat &&
  (List.length (q_cols q) =? List.length (q_vals q))%nat.
Definition quad_iter (q : quadratic) : option terms :=
  if quad_lens_ok q then
    Some (map (fun t => (sort_ids [snd (fst t); fst (fst t)], snd t))
              (zip3 (q_rows q) (q_cols q) (q_vals q))
          ++ match q_lin q with Some l => lin_iter l | None => [] end)
  else None.
Definition fn_iter (f : function) : option terms :=
  match f with
  | FUnset => Some []
  | FConst c => Some [([], c)]
  | FLin l => Some (lin_iter l)
  | FQuad q => quad_iter q
  | FPoly p => Some (sort_keys p)
  end.

(* SortedIds::chunks: maximal runs of equal ids with their lengths *)
Fixpoint chunks (ids : list N) : list (N * nat) :=
  match ids with
  | [] => []
  | i :: ids' =>
      match chunks ids' with
      | (j, n) :: r => if (i =? j)%N then (j, S n) :: r else (i, 1%nat) :: (j, n) :: r
      | [] => [(i, 1%nat)]
      end
  end.

(* Bounds = HashMap<VariableID, Bound>; a missing variable is the whole line *)
Definition bounds := list (N * bound).
Fixpoint bget (bs : bounds) (i : N) : option bound :=
  match bs with
  | [] => None
  | (j, b) :: bs' => if (i =? j)%N then Some b else bget bs' i
  end.
Definition bget_d (bs : bounds) (i : N) : bound :=
  match bget bs i with Some b => b | None => bwhole end.

(* the inner loop of evaluate_bound over the chunks of one monomial *)
Inductive mres := MPanic | MWhole | MCur (cur : bound).
Fixpoint mono_loop (bs : bounds) (ch : list (N * nat)) (cur : bound) : mres :=
  match ch with
  | [] => MCur cur
  | (i, e) :: ch' =>
      match bpow (bget_d bs i) e with
      | None => MPanic
      | Some p =>
          match bmul cur p with
          | None => MPanic
          | Some c => if beqb c bwhole then MWhole else mono_loop bs ch' c
          end
      end
  end.

(* the outer loop: skip zero coefficients, add constants, `bound += value * cur` *)
Fixpoint eb_loop (bs : bounds) (ts : terms) (acc : bound) : option bound :=
  match ts with
  | [] => Some acc
  | (ids, c) :: ts' =>
      if qeqb c 0 then eb_loop bs ts' acc
      else
        match ids with
        | [] =>
            match badd_scalar acc (Fin c) with
            | Some acc' => eb_loop bs ts' acc'
            | None => None
            end
        | _ :: _ =>
            match mono_loop bs (chunks ids) bone with
            | MPanic => None
            | MWhole => Some bwhole
            | MCur cur =>
                match bscale cur (Fin c) with
                | None => None
                | Some v =>
                    match badd acc v with
                    | Some acc' => eb_loop bs ts' acc'
                    | None => None
                    end
                end
            end
        end
  end.

(* Function::evaluate_bound; None = a panic somewhere inside *)
Definition evaluate_bound (f : function) (bs : bounds) : option bound :=
  match fn_iter f with
  | None => None
  | Some ts => eb_loop bs ts bzero
  end.

(* ---------------------------------------------------------------------------- *)
(* Function::content_factor over the exact (reduced) coefficients: gcd of the numerators,
   lcm of the denominators, result lcm/gcd, 1 for the zero function.
   Not modelled: Rational64::approximate_float (the model takes the intended reduced
   fraction) and the i64 overflow error of the lcm. *)
Definition cnum (c : num) : Z := Qnum (this c).
Definition cden (c : num) : Z := Zpos (Qden (this c)).
Definition numer_gcd (cs : list num) : Z := fold_left (fun g c => Z.gcd g (cnum c)) cs 0%Z.
Definition denom_lcm (cs : list num) : Z := fold_left (fun d c => Z.lcm d (cden c)) cs 1%Z.
Definition content_of (cs : list num) : num :=
  if (numer_gcd cs =? 0)%Z then 1 else qz (denom_lcm cs) / qz (numer_gcd cs).
Definition content_factor (f : function) : option num :=
  match fn_iter f with
  | None => None
  | Some ts => Some (content_of (map snd ts))
  end.
