(* PuboInst.v — C11 at the level of instance evaluation: the dictionary exported by
   as_pubo_format / as_qubo_format, read as a polynomial over the entries of a state, equals the
   objective value that Instance::evaluate reports for that state, for every state that gives 0 or 1
   to the binary variables of the instance. *)
Require Import Ommx.Num Ommx.Poly Ommx.Msg Ommx.Eval Ommx.Tree Ommx.Arith Ommx.Inst Ommx.InstProofs
        Ommx.Transform Ommx.PuboProofs Ommx.ResidualOps.
From Coq Require Import String Lia.
Close Scope string_scope. Open Scope list_scope. Open Scope Qc_scope.

(* ------------------------------------------------------------------ *)
(* the value of a dictionary at a state *)

(* the value of variable i in the state x (first binding; 0 when x has no entry for i — for the
   dictionaries exported from an instance that evaluates at x this case never arises, see
   [pubo_keys_assigned] / [qubo_keys_assigned]) *)
Definition sval (x : state) (i : N) : num :=
  match sget x i with Some v => v | None => 0 end.
(* Π_{i in S} x_i *)
Fixpoint prod_of (x : state) (k : list N) : num :=
  match k with [] => 1 | i :: k' => sval x i * prod_of x k' end.
(* Σ_{(S, c) in D} c * Π_{i in S} x_i *)
Fixpoint pubo_value (D : terms) (x : state) : num :=
  match D with [] => 0 | (k, c) :: D' => c * prod_of x k + pubo_value D' x end.
(* Σ_{([i; j], q) in D} q * x_i * x_j   (entries whose key is not a pair contribute nothing; the
   exported dictionary has none, [C11_qubo_keys]) *)
Fixpoint qubo_sum (D : terms) (x : state) : num :=
  match D with
  | [] => 0
  | (k, q) :: D' =>
      match k with [i; j] => q * sval x i * sval x j | _ => 0 end + qubo_sum D' x
  end.
Definition qubo_value (D : terms) (c0 : num) (x : state) : num := c0 + qubo_sum D x.

(* agreement with the valuation-based sum of the function-level theorems *)
Lemma prod_of_mono_val x k : prod_of x k = mono_val (total x) k.
Proof. induction k as [|i k IH]; cbn [prod_of mono_val]; [reflexivity|]. rewrite IH. reflexivity. Qed.
Lemma pubo_value_val D x : pubo_value D x = val (total x) D.
Proof.
  induction D as [|[k c] D IH]; cbn [pubo_value]; [reflexivity|].
  rewrite val_cons, IH, prod_of_mono_val. reflexivity.
Qed.
Lemma pubo_value_agrees D x rho :
  (forall i, rho i = sval x i) -> pubo_value D x = val rho D.
Proof.
  intro H. induction D as [|[k c] D IH]; cbn [pubo_value]; [reflexivity|].
  rewrite val_cons, IH. f_equal. f_equal.
  induction k as [|i k IHk]; cbn [prod_of mono_val]; [reflexivity|]. rewrite IHk, H. reflexivity.
Qed.
Lemma qubo_sum_pubo_value D x :
  (forall k, In k (keys D) -> pair_key k) -> qubo_sum D x = pubo_value D x.
Proof.
  induction D as [|[k q] D IH]; intro H; cbn [qubo_sum pubo_value]; [reflexivity|].
  rewrite IH by (intros k' Hk'; apply H; right; exact Hk').
  destruct (H k) as (a & b & -> & _); [left; reflexivity|].
  cbn [prod_of]. ring.
Qed.

(* ------------------------------------------------------------------ *)
(* states that give 0 or 1 to the binary variables of the instance *)
Definition binary_on (I : instance) (x : state) : Prop :=
  forall i v, In i (binary_ids (i_dvs I)) -> sget x i = Some v -> v = 0 \/ v = 1.
Definition binary_onb (I : instance) (x : state) : bool :=
  forallb (fun i => match sget x i with Some v => qeqb v 0 || qeqb v 1 | None => true end)
          (binary_ids (i_dvs I)).
Lemma binary_onb_spec I x : binary_onb I x = true <-> binary_on I x.
Proof.
  unfold binary_onb, binary_on. rewrite forallb_forall. split.
  - intros H i v Hi G. specialize (H i Hi). rewrite G in H. apply orb_true_iff in H.
    destruct H as [H|H]; apply qeqb_eq in H; auto.
  - intros H i Hi. destruct (sget x i) as [v|] eqn:G; [|reflexivity].
    apply orb_true_iff. destruct (H i v Hi G) as [->| ->]; [left|right]; apply qeqb_eq; reflexivity.
Qed.

(* the 0/1 valuation read off a state: x_i where that is 0 or 1, and 0 elsewhere *)
Definition bx (x : state) : valuation := fun i => if qeqb (sval x i) 1 then 1 else 0.
Lemma bx_binary x : binary (bx x).
Proof. intro i. unfold bx. destruct (qeqb (sval x i) 1); auto. Qed.
Lemma bx_on I x i : binary_on I x -> In i (binary_ids (i_dvs I)) -> bx x i = total x i.
Proof.
  intros B Hi. unfold bx, total, sval. destruct (sget x i) as [v|] eqn:G.
  - destruct (B i v Hi G) as [->| ->]; reflexivity.
  - reflexivity.
Qed.

(* ------------------------------------------------------------------ *)
(* values depend only on the ids that occur *)
Lemma mono_val_ext_on rho rho' m :
  (forall i, In i m -> rho i = rho' i) -> mono_val rho m = mono_val rho' m.
Proof.
  induction m as [|j m IH]; intro H; cbn [mono_val]; [reflexivity|].
  rewrite IH, (H j); [reflexivity|left; reflexivity|]. intros i Hi. apply H. right. exact Hi.
Qed.
Lemma val_ext_on rho rho' (t : terms) :
  (forall i, occurs_terms t i -> rho i = rho' i) -> val rho t = val rho' t.
Proof.
  induction t as [|[m c] t IH]; intro H; [reflexivity|].
  rewrite !val_cons, IH, (mono_val_ext_on rho rho' m); [reflexivity| |].
  - intros i Hi. apply H. exists m, c. split; [left; reflexivity|exact Hi].
  - intros i (m' & c' & Hin & Hi). apply H. exists m', c'. split; [right; exact Hin|exact Hi].
Qed.
Lemma denote_ext_on f rho rho' :
  (forall i, occurs f i -> rho i = rho' i) -> denote f rho = denote f rho'.
Proof. apply val_ext_on. Qed.

(* ------------------------------------------------------------------ *)
(* ids: term iterator ⊆ syntactic occurrence ⊆ used_decision_variable_ids *)
Lemma occurs_filter (p : list N * num -> bool) (t : terms) i :
  occurs_terms (filter p t) i -> occurs_terms t i.
Proof.
  intros (m & c & Hin & Hi). apply filter_In in Hin. exists m, c. split; [apply Hin|exact Hi].
Qed.
Lemma occurs_lin_iter l i : occurs_terms (lin_iter l) i -> occurs_terms (lin_terms l) i.
Proof. apply occurs_filter. Qed.

Lemma zip3_in r c v i j x : In (i, j, x) (zip3 r c v) -> In i r /\ In j c.
Proof.
  revert c v. induction r as [|a r IH]; intros [|b c] [|y v] H; cbn [zip3] in H; try destruct H.
  - inversion H; subst. split; left; reflexivity.
  - destruct (IH _ _ H) as [H1 H2]. split; right; assumption.
Qed.

Lemma occurs_fn_iter f i : occurs_terms (fn_iter f) i -> occurs f i.
Proof.
  unfold occurs. destruct f as [|c|l|q|p]; cbn [fn_iter fn_terms]; try (intro H; exact H).
  - apply occurs_lin_iter.
  - unfold quad_iter, quad_terms. rewrite !occurs_terms_app. intros [H|H].
    + left. destruct H as (m & c & Hin & Hi). apply in_map_iff in Hin.
      destruct Hin as ([[a b] y] & E & Hin). cbn [fst snd] in E. injection E as Em Ec. subst m c.
      assert (Hi' : In i [b; a]).
      { apply (proj1 (sort_ids_in i [b; a])). exact Hi. }
      clear Hi. exists [a; b], y. split.
      * unfold quad2. apply in_map_iff. exists (a, b, y). split; [reflexivity|exact Hin].
      * cbn [In] in *. tauto.
    + right. destruct (q_lin q) as [l|]; cbn [optlin_terms]; [apply occurs_lin_iter; exact H|exact H].
  - unfold poly_iter, sort_keys. intros (m & c & Hin & Hi). apply in_map_iff in Hin.
    destruct Hin as ([m' c'] & E & Hin). cbn [fst snd] in E. injection E as Em Ec. subst m c.
    apply (proj1 (sort_ids_in _ _)) in Hi. exists m', c'. split; assumption.
Qed.

Lemma occurs_fn_used f i : occurs f i -> In i (fn_used f).
Proof.
  unfold occurs. destruct f as [|c|l|q|p]; cbn [fn_terms fn_used]; intro H.
  - exfalso. eapply occurs_terms_nil; eauto.
  - exfalso. eapply occurs_terms_const; eauto.
  - apply occurs_lin_terms. exact H.
  - unfold quad_terms in H. apply occurs_terms_app in H. apply in_or_app. destruct H as [H|H].
    + right. destruct H as (m & c & Hin & Hi). unfold quad2 in Hin. apply in_map_iff in Hin.
      destruct Hin as ([[a b] y] & E & Hin). cbn [fst snd] in E. inversion E; subst; clear E.
      apply zip3_in in Hin. destruct Hin as [Ha Hb]. apply in_or_app.
      destruct Hi as [<-|[<-|[]]]; [right|left]; assumption.
    + left. destruct (q_lin q) as [l|]; cbn [optlin_terms] in H.
      * apply occurs_lin_terms. exact H.
      * exfalso. eapply occurs_terms_nil; eauto.
  - destruct H as (m & c & Hin & Hi). apply in_flat_map. exists (m, c). split; assumption.
Qed.

Lemma dedup_sorted_in l i : In i (dedup_sorted l) -> In i l.
Proof.
  induction l as [|a l IH]; cbn [dedup_sorted]; [auto|].
  destruct l as [|b l'].
  - auto.
  - destruct (a =? b)%N.
    + intro H. right. apply IH. exact H.
    + intros [H|H]; [left; exact H|right; apply IH; exact H].
Qed.
Lemma bin_key_in ids i : In i (bin_key ids) -> In i ids.
Proof. unfold bin_key. intro H. apply dedup_sorted_in in H. apply sort_ids_in. exact H. Qed.

(* what a successful export says about the instance *)
Lemma as_pubo_inr enter leave I D : as_pubo enter leave I = inr D ->
  i_cs I = [] /\ i_sense I <> SENSE_MAX /\
  subset (fn_used (fn_or_zero (i_obj I))) (binary_ids (i_dvs I)) = true /\
  D = merge ids_eqb leave (pubo_terms enter (fn_or_zero (i_obj I))).
Proof.
  unfold as_pubo. destruct (i_cs I); [|discriminate].
  destruct (i_sense I =? SENSE_MAX)%Z eqn:S; [discriminate|]. apply Z.eqb_neq in S.
  destruct (subset _ _); cbn [negb]; [|discriminate].
  intro H; inversion H. auto.
Qed.
Lemma as_qubo_inr enter leave I D c0 : as_qubo enter leave I = inr (D, c0) ->
  i_cs I = [] /\ i_sense I <> SENSE_MAX /\
  subset (fn_used (fn_or_zero (i_obj I))) (binary_ids (i_dvs I)) = true /\
  qubo_loop enter leave (fn_iter (fn_or_zero (i_obj I))) 0 [] = Some (c0, D).
Proof.
  unfold as_qubo. destruct (i_sense I =? SENSE_MAX)%Z eqn:S; [discriminate|]. apply Z.eqb_neq in S.
  destruct (i_cs I); [|discriminate].
  destruct (subset _ _); cbn [negb]; [|discriminate].
  destruct (qubo_loop _ _ _ _ _) as [[c m]|]; [|discriminate].
  intro H; inversion H. auto.
Qed.

(* every id in a key of the exported dictionary occurs in the objective *)
Theorem pubo_keys_occur enter leave I D : as_pubo enter leave I = inr D ->
  forall i, occurs_terms D i -> occurs (fn_or_zero (i_obj I)) i.
Proof.
  intro H. apply as_pubo_inr in H. destruct H as (_ & _ & _ & ->).
  intros i (k & c & Hin & Hi).
  assert (Hk : In k (keys (pubo_terms enter (fn_or_zero (i_obj I))))).
  { pose proof (merge_from_keys ids_eqb ids_eqb_spec (fun _ => 0) leave
                  (pubo_terms enter (fn_or_zero (i_obj I))) [] k) as M.
    destruct M as [M|M]; [|destruct M|exact M].
    apply (in_map fst) in Hin. exact Hin. }
  unfold pubo_terms, keys in Hk. rewrite map_map in Hk. apply in_map_iff in Hk.
  destruct Hk as ([m c'] & <- & Hm). cbn [fst] in Hi. apply filter_In in Hm. destruct Hm as [Hm _].
  apply bin_key_in in Hi. apply occurs_fn_iter. exists m, c'. split; assumption.
Qed.

Lemma qubo_loop_occur enter leave : forall t const m const' m',
  qubo_loop enter leave t const m = Some (const', m') ->
  forall i, occurs_terms m' i -> occurs_terms m i \/ occurs_terms t i.
Proof.
  induction t as [|[ids c] t IH]; intros const m const' m' H i Hi; cbn [qubo_loop] in H.
  - inversion H; subst. left. exact Hi.
  - assert (Tl : occurs_terms t i -> occurs_terms ((ids, c) :: t) i).
    { intros (m0 & c0 & Hin & Hm). exists m0, c0. split; [right; exact Hin|exact Hm]. }
    destruct (enter c); cbn [negb] in H.
    + destruct ids as [|a0 ids'].
      * destruct (IH _ _ _ _ H i Hi) as [G|G]; [left; exact G|right; apply Tl; exact G].
      * assert (Step : forall key, (forall j, In j key -> In j (bin_key (a0 :: ids'))) ->
                  qubo_loop enter leave t const (mstep ids_eqb leave m (key, c)) = Some (const', m') ->
                  occurs_terms m i \/ occurs_terms ((a0 :: ids', c) :: t) i).
        { intros key Hkey H'. destruct (IH _ _ _ _ H' i Hi) as [G|G]; [|right; apply Tl; exact G].
          destruct G as (k & c1 & Hin & Hk). apply (in_map fst) in Hin. cbn [fst] in Hin.
          apply (mstep_keys leave) in Hin. destruct Hin as [Hin| ->].
          - left. apply in_map_iff in Hin. destruct Hin as ([k' c2] & E & Hin). cbn [fst] in E. subst k'.
            exists k, c2. split; assumption.
          - right. exists (a0 :: ids'), c. split; [left; reflexivity|].
            apply bin_key_in. apply Hkey. exact Hk. }
        destruct (bin_key (a0 :: ids')) as [|a [|b [|y r]]] eqn:K; try discriminate.
        -- apply (Step [a; a]); [|exact H]. intros j [<-|[<-|[]]]; left; reflexivity.
        -- apply (Step [a; b]); [|exact H]. intros j Hj. exact Hj.
    + destruct (IH _ _ _ _ H i Hi) as [G|G]; [left; exact G|right; apply Tl; exact G].
Qed.

Theorem qubo_keys_occur enter leave I D c0 : as_qubo enter leave I = inr (D, c0) ->
  forall i, occurs_terms D i -> occurs (fn_or_zero (i_obj I)) i.
Proof.
  intro H. apply as_qubo_inr in H. destruct H as (_ & _ & _ & H). intros i Hi.
  destruct (qubo_loop_occur _ _ _ _ _ _ _ H i Hi) as [G|G].
  - exfalso. eapply occurs_terms_nil; eauto.
  - apply occurs_fn_iter. exact G.
Qed.

(* every id in a key of the exported dictionary is a binary variable of the instance *)
Lemma used_binary I i :
  subset (fn_used (fn_or_zero (i_obj I))) (binary_ids (i_dvs I)) = true ->
  occurs (fn_or_zero (i_obj I)) i -> In i (binary_ids (i_dvs I)).
Proof. intros U Ho. apply (proj1 (subset_spec _ _) U). apply occurs_fn_used. exact Ho. Qed.

Lemma binary_ids_spec dvs i :
  In i (binary_ids dvs) <-> exists d, In d dvs /\ dv_id d = i /\ dv_kind d = KIND_BINARY.
Proof.
  unfold binary_ids. rewrite in_map_iff. split.
  - intros (d & E & Hd). apply filter_In in Hd. destruct Hd as [Hd K]. apply Z.eqb_eq in K.
    exists d. auto.
  - intros (d & Hd & E & K). exists d. split; [exact E|]. apply filter_In. split; [exact Hd|].
    apply Z.eqb_eq. exact K.
Qed.

Theorem pubo_keys_binary enter leave I D : as_pubo enter leave I = inr D ->
  forall k c i, In (k, c) D -> In i k ->
    exists d, In d (i_dvs I) /\ dv_id d = i /\ dv_kind d = KIND_BINARY.
Proof.
  intros H k c i Hin Hi. apply binary_ids_spec.
  destruct (as_pubo_inr _ _ _ _ H) as (_ & _ & U & _). apply used_binary; [exact U|].
  apply (pubo_keys_occur _ _ _ _ H). exists k, c. split; assumption.
Qed.
Theorem qubo_keys_binary enter leave I D c0 : as_qubo enter leave I = inr (D, c0) ->
  forall k c i, In (k, c) D -> In i k ->
    exists d, In d (i_dvs I) /\ dv_id d = i /\ dv_kind d = KIND_BINARY.
Proof.
  intros H k c i Hin Hi. apply binary_ids_spec.
  destruct (as_qubo_inr _ _ _ _ _ H) as (_ & _ & U & _). apply used_binary; [exact U|].
  apply (qubo_keys_occur _ _ _ _ _ H). exists k, c. split; assumption.
Qed.

(* ------------------------------------------------------------------ *)
(* the objective value reported by Instance::evaluate, at the 0/1 valuation read off the state *)
Lemma objective_at_bx I x sol :
  subset (fn_used (fn_or_zero (i_obj I))) (binary_ids (i_dvs I)) = true ->
  binary_on I x -> inst_eval I x = Some sol ->
  so_objective sol = denote (fn_or_zero (i_obj I)) (bx x).
Proof.
  intros U B E. rewrite (inst_eval_objective I x sol E (total x) (total_agrees x)).
  apply denote_ext_on. intros i Ho. symmetry. apply (bx_on I); [exact B|].
  apply used_binary; assumption.
Qed.
Lemma dict_at_bx I x (D : terms) :
  subset (fn_used (fn_or_zero (i_obj I))) (binary_ids (i_dvs I)) = true ->
  binary_on I x -> (forall i, occurs_terms D i -> occurs (fn_or_zero (i_obj I)) i) ->
  val (bx x) D = pubo_value D x.
Proof.
  intros U B K. rewrite pubo_value_val. apply val_ext_on. intros i Hi.
  apply (bx_on I); [exact B|]. apply used_binary; [exact U|]. apply K. exact Hi.
Qed.

(* ---- PUBO ---- *)
Theorem pubo_matches_evaluation : forall enter leave,
  (forall c, enter c = false -> c = 0) -> (forall v, leave v = true -> v = 0) ->
  forall I D, as_pubo enter leave I = inr D ->
  forall x sol, binary_on I x -> inst_eval I x = Some sol ->
    so_objective sol = pubo_value D x.
Proof.
  intros enter leave He Hl I D H x sol B E.
  destruct (as_pubo_inr _ _ _ _ H) as (_ & _ & U & _).
  rewrite (objective_at_bx I x sol U B E).
  rewrite <- (pubo_sound enter leave He Hl I D H (bx x) (bx_binary x)).
  apply (dict_at_bx I); [exact U|exact B|]. apply (pubo_keys_occur _ _ _ _ H).
Qed.

(* ---- QUBO ---- *)
Theorem qubo_matches_evaluation : forall enter leave,
  (forall c, enter c = false -> c = 0) -> (forall v, leave v = true -> v = 0) ->
  forall I D c0, as_qubo enter leave I = inr (D, c0) ->
  forall x sol, binary_on I x -> inst_eval I x = Some sol ->
    so_objective sol = qubo_value D c0 x.
Proof.
  intros enter leave He Hl I D c0 H x sol B E.
  destruct (as_qubo_inr _ _ _ _ _ H) as (_ & _ & U & _).
  rewrite (objective_at_bx I x sol U B E).
  rewrite <- (qubo_sound enter leave He Hl I D c0 H (bx x) (bx_binary x)).
  unfold qubo_value. rewrite (qubo_sum_pubo_value D x (qubo_keys enter leave I D c0 H)).
  rewrite (dict_at_bx I x D U B (qubo_keys_occur _ _ _ _ _ H)). ring.
Qed.

(* the default 0 of [sval] is never used: every id of the dictionary has an entry in a state at
   which the instance evaluates *)
Theorem pubo_keys_assigned enter leave I D : as_pubo enter leave I = inr D ->
  forall x sol, inst_eval I x = Some sol ->
  forall k c i, In (k, c) D -> In i k -> sget x i <> None.
Proof.
  intros H x sol E k c i Hin Hi G.
  rewrite (inst_eval_rejects_missing_objective I x i) in E; [discriminate| |exact G].
  apply (pubo_keys_occur _ _ _ _ H). exists k, c. split; assumption.
Qed.
Theorem qubo_keys_assigned enter leave I D c0 : as_qubo enter leave I = inr (D, c0) ->
  forall x sol, inst_eval I x = Some sol ->
  forall k c i, In (k, c) D -> In i k -> sget x i <> None.
Proof.
  intros H x sol E k c i Hin Hi G.
  rewrite (inst_eval_rejects_missing_objective I x i) in E; [discriminate| |exact G].
  apply (qubo_keys_occur _ _ _ _ _ H). exists k, c. split; assumption.
Qed.

(* ---- with the SDK's own tests (|c| > eps to enter, |v| < eps to leave) ---- *)
Theorem pubo_matches_evaluation_eps : forall I D, as_pubo enter_eps leave_eps I = inr D ->
  forall x sol, binary_on I x -> inst_eval I x = Some sol ->
    qabs (pubo_value D x - so_objective sol) <= qn (nterms (fn_or_zero (i_obj I))) * eps.
Proof.
  intros I D H x sol B E.
  destruct (as_pubo_inr _ _ _ _ H) as (_ & _ & U & _).
  rewrite (objective_at_bx I x sol U B E).
  rewrite <- (dict_at_bx I x D U B (pubo_keys_occur _ _ _ _ H)).
  apply (pubo_eps_bound I D H (bx x) (bx_binary x)).
Qed.
Theorem qubo_matches_evaluation_eps : forall I D c0, as_qubo enter_eps leave_eps I = inr (D, c0) ->
  forall x sol, binary_on I x -> inst_eval I x = Some sol ->
    qabs (qubo_value D c0 x - so_objective sol) <= qn (nterms (fn_or_zero (i_obj I))) * eps.
Proof.
  intros I D c0 H x sol B E.
  destruct (as_qubo_inr _ _ _ _ _ H) as (_ & _ & U & _).
  rewrite (objective_at_bx I x sol U B E).
  unfold qubo_value. rewrite (qubo_sum_pubo_value D x (qubo_keys enter_eps leave_eps I D c0 H)).
  rewrite <- (dict_at_bx I x D U B (qubo_keys_occur _ _ _ _ _ H)).
  replace (c0 + val (bx x) D) with (val (bx x) D + c0) by ring.
  apply (qubo_eps_bound I D c0 H (bx x) (bx_binary x)).
Qed.

(* ------------------------------------------------------------------ *)
(* a successful export means there is no active constraint: every evaluation is feasible for the
   active constraints, and everything recorded in the solution comes from removed constraints *)
Theorem no_active_feasible_relaxed I x sol : i_cs I = [] -> inst_eval I x = Some sol ->
  so_feasible_relaxed sol = true /\
  Forall2 (fun r e => reports_removed r x e) (i_rs I) (so_evaluated sol).
Proof.
  intros C E. destruct (inst_eval_constraints I x sol E) as (ea & er & Ev & Fa & Fr & Hrel & _).
  rewrite C in Fa. inversion Fa; subst ea. cbn [app] in Ev. rewrite Ev. split; [|exact Fr].
  apply Hrel. constructor.
Qed.
Theorem pubo_export_feasible_relaxed enter leave I D : as_pubo enter leave I = inr D ->
  forall x sol, inst_eval I x = Some sol -> so_feasible_relaxed sol = true.
Proof.
  intros H x sol E. destruct (as_pubo_inr _ _ _ _ H) as (C & _).
  exact (proj1 (no_active_feasible_relaxed I x sol C E)).
Qed.
Theorem qubo_export_feasible_relaxed enter leave I D c0 : as_qubo enter leave I = inr (D, c0) ->
  forall x sol, inst_eval I x = Some sol -> so_feasible_relaxed sol = true.
Proof.
  intros H x sol E. destruct (as_qubo_inr _ _ _ _ _ H) as (C & _).
  exact (proj1 (no_active_feasible_relaxed I x sol C E)).
Qed.

(* ------------------------------------------------------------------ *)
(* refusal, in terms of the instance *)
Theorem pubo_refuses_active_constraint enter leave I c : In c (i_cs I) ->
  as_pubo enter leave I = inl PConstraints.
Proof. unfold as_pubo. destruct (i_cs I); [intros []|reflexivity]. Qed.
Theorem pubo_refuses_maximize enter leave I : i_sense I = SENSE_MAX ->
  as_pubo enter leave I = inl (match i_cs I with [] => PMaximize | _ => PConstraints end).
Proof. unfold as_pubo. intros ->. destruct (i_cs I); reflexivity. Qed.
(* a variable stored in the objective that no definition of the instance declares binary *)
Theorem pubo_refuses_nonbinary enter leave I i : In i (fn_used (fn_or_zero (i_obj I))) ->
  (forall d, In d (i_dvs I) -> dv_id d = i -> dv_kind d <> KIND_BINARY) ->
  exists e, as_pubo enter leave I = inl e.
Proof.
  intros Hu Hk. apply pubo_refuse_iff. right. right.
  destruct (subset _ _) eqn:U; [|reflexivity]. exfalso.
  apply (proj1 (subset_spec _ _) U) in Hu. apply binary_ids_spec in Hu.
  destruct Hu as (d & Hd & E & K). exact (Hk d Hd E K).
Qed.
(* and only then *)
Theorem pubo_export_defined_iff enter leave I :
  (exists D, as_pubo enter leave I = inr D) <->
  i_cs I = [] /\ i_sense I <> SENSE_MAX /\
  forall i, In i (fn_used (fn_or_zero (i_obj I))) ->
    exists d, In d (i_dvs I) /\ dv_id d = i /\ dv_kind d = KIND_BINARY.
Proof.
  split.
  - intros [D H]. destruct (as_pubo_inr _ _ _ _ H) as (C & S & U & _). split; [exact C|].
    split; [exact S|]. intros i Hi. apply binary_ids_spec. exact (proj1 (subset_spec _ _) U i Hi).
  - intros (C & S & U). destruct (as_pubo enter leave I) as [e|D] eqn:H; [|eauto]. exfalso.
    assert (R : exists e, as_pubo enter leave I = inl e) by eauto.
    apply pubo_refuse_iff in R. destruct R as [R|[R|R]]; [contradiction|contradiction|].
    assert (T : subset (fn_used (fn_or_zero (i_obj I))) (binary_ids (i_dvs I)) = true).
    { apply subset_spec. intros i Hi. apply binary_ids_spec. apply U. exact Hi. }
    congruence.
Qed.

Theorem qubo_refuses_maximize enter leave I : i_sense I = SENSE_MAX ->
  as_qubo enter leave I = inl PMaximize.
Proof. unfold as_qubo. intros ->. reflexivity. Qed.
Theorem qubo_refuses_active_constraint enter leave I c : In c (i_cs I) ->
  as_qubo enter leave I = inl (if (i_sense I =? SENSE_MAX)%Z then PMaximize else PConstraints).
Proof.
  unfold as_qubo. destruct (i_sense I =? SENSE_MAX)%Z; [reflexivity|].
  destruct (i_cs I); [intros []|reflexivity].
Qed.
Theorem qubo_refuses_nonbinary enter leave I i : In i (fn_used (fn_or_zero (i_obj I))) ->
  (forall d, In d (i_dvs I) -> dv_id d = i -> dv_kind d <> KIND_BINARY) ->
  exists e, as_qubo enter leave I = inl e.
Proof.
  intros Hu Hk. apply qubo_refuse_iff. right. right. left.
  destruct (subset _ _) eqn:U; [|reflexivity]. exfalso.
  apply (proj1 (subset_spec _ _) U) in Hu. apply binary_ids_spec in Hu.
  destruct Hu as (d & Hd & E & K). exact (Hk d Hd E K).
Qed.
(* a term of the objective that is taken and has more than two distinct variables *)
Theorem qubo_refuses_degree enter leave I ids c :
  In (ids, c) (fn_iter (fn_or_zero (i_obj I))) -> enter c = true ->
  (2 < List.length (bin_key ids))%nat -> exists e, as_qubo enter leave I = inl e.
Proof. intros Hin He Hl. apply qubo_refuse_iff. right. right. right. eauto. Qed.
Theorem qubo_export_defined_iff enter leave I :
  (exists D c0, as_qubo enter leave I = inr (D, c0)) <->
  i_cs I = [] /\ i_sense I <> SENSE_MAX /\
  (forall i, In i (fn_used (fn_or_zero (i_obj I))) ->
     exists d, In d (i_dvs I) /\ dv_id d = i /\ dv_kind d = KIND_BINARY) /\
  (forall ids c, In (ids, c) (fn_iter (fn_or_zero (i_obj I))) -> enter c = true ->
     (List.length (bin_key ids) <= 2)%nat).
Proof.
  split.
  - intros (D & c0 & H). destruct (as_qubo_inr _ _ _ _ _ H) as (C & S & U & L). split; [exact C|].
    split; [exact S|]. split.
    + intros i Hi. apply binary_ids_spec. exact (proj1 (subset_spec _ _) U i Hi).
    + intros ids c Hin He. destruct (Nat.le_gt_cases (List.length (bin_key ids)) 2) as [G|G]; [exact G|].
      exfalso. assert (N : qubo_loop enter leave (fn_iter (fn_or_zero (i_obj I))) 0 [] = None).
      { apply qubo_loop_none_iff. exists ids, c. auto. }
      congruence.
  - intros (C & S & U & Dg). destruct (as_qubo enter leave I) as [e|[D c0]] eqn:H; [|eauto]. exfalso.
    assert (R : exists e, as_qubo enter leave I = inl e) by eauto.
    apply qubo_refuse_iff in R. destruct R as [R|[R|[R|R]]]; [contradiction|contradiction| |].
    + assert (T : subset (fn_used (fn_or_zero (i_obj I))) (binary_ids (i_dvs I)) = true).
      { apply subset_spec. intros i Hi. apply binary_ids_spec. apply U. exact Hi. }
      congruence.
    + destruct R as (ids & c & Hin & He & Hl). specialize (Dg ids c Hin He). lia.
Qed.

(* ------------------------------------------------------------------ *)
(* the same at the state reported in the Solution, when that state keeps the entries of x
   (Instance::evaluate puts substituted values and dependent variables in front of x; without
   them the reported state extends x) *)
Lemma pubo_value_ext (D : terms) x y :
  (forall i, occurs_terms D i -> sval x i = sval y i) -> pubo_value D x = pubo_value D y.
Proof. intro H. rewrite !pubo_value_val. apply val_ext_on. exact H. Qed.

Lemma insert_subst_none : forall dvs s, (forall d, In d dvs -> dv_subst d = None) -> insert_subst dvs s = s.
Proof.
  induction dvs as [|d dvs IH]; intros s H; cbn [insert_subst]; [reflexivity|].
  rewrite (H d) by (left; reflexivity). apply IH. intros d' Hd'. apply H. right. exact Hd'.
Qed.
Theorem inst_eval_keeps_state I x sol :
  i_deps I = [] -> (forall d, In d (i_dvs I) -> dv_subst d = None) -> inst_eval I x = Some sol ->
  forall i v, sget x i = Some v -> sget (so_state sol) i = Some v.
Proof.
  intros Dp Sb E. destruct (inst_eval_state I x sol E) as (s1 & E1 & Keep & _).
  rewrite Dp, (insert_subst_none _ _ Sb) in E1. cbn in E1. inversion E1; subst s1. exact Keep.
Qed.

Theorem pubo_matches_reported_state : forall enter leave,
  (forall c, enter c = false -> c = 0) -> (forall v, leave v = true -> v = 0) ->
  forall I D, as_pubo enter leave I = inr D ->
  forall x sol, binary_on I x -> inst_eval I x = Some sol ->
  (forall i v, sget x i = Some v -> sget (so_state sol) i = Some v) ->
    so_objective sol = pubo_value D (so_state sol).
Proof.
  intros enter leave He Hl I D H x sol B E Keep.
  rewrite (pubo_matches_evaluation enter leave He Hl I D H x sol B E).
  apply pubo_value_ext. intros i (k & c & Hin & Hi). unfold sval.
  destruct (sget x i) as [v|] eqn:G.
  - rewrite (Keep i v G). reflexivity.
  - exfalso. exact (pubo_keys_assigned enter leave I D H x sol E k c i Hin Hi G).
Qed.
Theorem qubo_matches_reported_state : forall enter leave,
  (forall c, enter c = false -> c = 0) -> (forall v, leave v = true -> v = 0) ->
  forall I D c0, as_qubo enter leave I = inr (D, c0) ->
  forall x sol, binary_on I x -> inst_eval I x = Some sol ->
  (forall i v, sget x i = Some v -> sget (so_state sol) i = Some v) ->
    so_objective sol = qubo_value D c0 (so_state sol).
Proof.
  intros enter leave He Hl I D c0 H x sol B E Keep.
  rewrite (qubo_matches_evaluation enter leave He Hl I D c0 H x sol B E).
  unfold qubo_value. rewrite !(qubo_sum_pubo_value D _ (qubo_keys enter leave I D c0 H)). f_equal.
  apply pubo_value_ext. intros i (k & c & Hin & Hi). unfold sval.
  destruct (sget x i) as [v|] eqn:G.
  - rewrite (Keep i v G). reflexivity.
  - exfalso. exact (qubo_keys_assigned enter leave I D c0 H x sol E k c i Hin Hi G).
Qed.

(* ------------------------------------------------------------------ *)
(* non-vacuity: 2 x1 x2 - x3 + x1 x2 x3 + 3/2 over binaries x1 x2 x3 (and an unrelated continuous
   x4), stored with unsorted and repeated ids and a split coefficient *)
Definition ex_b (k : N) : dvar :=
  {| dv_id := k; dv_kind := KIND_BINARY; dv_bound := None; dv_subst := None; dv_meta := [] |}.
Definition ex_cont (k : N) : dvar :=
  {| dv_id := k; dv_kind := KIND_CONTINUOUS; dv_bound := None; dv_subst := None; dv_meta := [] |}.
Definition ex_obj3 : function :=
  FPoly [([2; 1]%N, qz 1); ([3]%N, - (1)); ([3; 1; 2; 1]%N, qz 1); ([], qz 3 / qz 2); ([1; 2; 2]%N, qz 1)].
Definition ex_I3 : instance :=
  {| i_sense := SENSE_MIN; i_obj := Some ex_obj3; i_dvs := [ex_b 1; ex_b 2; ex_b 3; ex_cont 4];
     i_cs := []; i_rs := []; i_deps := []; i_params := None; i_hints := L []; i_desc := L [] |}.
Definition ex_D3 : terms :=
  [([1; 2]%N, qz 2); ([3]%N, - (1)); ([1; 2; 3]%N, qz 1); ([], qz 3 / qz 2)].
(* x = (1, 1, 0), x4 = 1/4   and   x = (0, 1, 1), x4 = -7 *)
Definition ex_xa : state := [(1%N, qz 1); (2%N, qz 1); (3%N, 0); (4%N, qz 1 / qz 4)].
Definition ex_xb : state := [(3%N, qz 1); (4%N, - qz 7); (1%N, 0); (2%N, qz 1)].
(* x = (1/2, 1, 1): within the bounds of the binaries, accepted by evaluate, not 0/1 *)
Definition ex_xc : state := [(1%N, qz 1 / qz 2); (2%N, qz 1); (3%N, qz 1)].

(* numbers are compared with qeqb (= on Qc, [qeqb_eq]): two computations of one rational carry
   different canonicity proofs, which [reflexivity] would have to identify *)
Definition obj_is (o : option solution) (v : num) : bool :=
  match o with Some s => qeqb (so_objective s) v | None => false end.
Lemma obj_is_spec o v : obj_is o v = true <-> exists s, o = Some s /\ so_objective s = v.
Proof.
  unfold obj_is. destruct o as [s|].
  - rewrite qeqb_eq. split; [intro H; eauto|]. intros (s' & E & H). injection E as ->. exact H.
  - split; [discriminate|intros (s' & E & _); discriminate].
Qed.

Example pubo_inst_nonvacuous :
  as_pubo enter_0 leave_0 ex_I3 = inr ex_D3 /\
  as_pubo enter_eps leave_eps ex_I3 = inr ex_D3 /\
  binary_onb ex_I3 ex_xa = true /\ binary_onb ex_I3 ex_xb = true /\
  obj_is (inst_eval ex_I3 ex_xa) (qz 7 / qz 2) = true /\
  qeqb (pubo_value ex_D3 ex_xa) (qz 7 / qz 2) = true /\
  obj_is (inst_eval ex_I3 ex_xb) (qz 1 / qz 2) = true /\
  qeqb (pubo_value ex_D3 ex_xb) (qz 1 / qz 2) = true /\
  option_map so_feasible_relaxed (inst_eval ex_I3 ex_xa) = Some true /\
  (* the cubic term: no QUBO *)
  as_qubo enter_0 leave_0 ex_I3 = inl PDegree /\
  (* the 0/1 hypothesis is needed: evaluate accepts x1 = 1/2 and the two values differ *)
  binary_onb ex_I3 ex_xc = false /\
  obj_is (inst_eval ex_I3 ex_xc) (qz 7 / qz 4) = true /\
  qeqb (pubo_value ex_D3 ex_xc) (qz 2) = true.
Proof. vm_compute. repeat split; reflexivity. Qed.

(* the theorem applies to the example (its hypotheses are satisfiable) *)
Example pubo_inst_theorem_applies : forall x sol, (x = ex_xa \/ x = ex_xb) ->
  inst_eval ex_I3 x = Some sol -> so_objective sol = pubo_value ex_D3 x /\ so_feasible_relaxed sol = true.
Proof.
  intros x sol Hx E. split.
  - assert (HD : as_pubo enter_0 leave_0 ex_I3 = inr ex_D3) by (vm_compute; reflexivity).
    assert (HB : binary_on ex_I3 x).
    { apply binary_onb_spec. destruct Hx as [->| ->]; vm_compute; reflexivity. }
    exact (pubo_matches_evaluation enter_0 leave_0 enter_0_exact leave_0_exact ex_I3 ex_D3 HD x sol HB E).
  - assert (HD : as_pubo enter_0 leave_0 ex_I3 = inr ex_D3) by (vm_compute; reflexivity).
    exact (pubo_export_feasible_relaxed enter_0 leave_0 ex_I3 ex_D3 HD x sol E).
Qed.

(* QUBO: 2 x1 x2 - x3 + 3/2 as a Quadratic message with unsorted pairs, a split coefficient, and
   -x3 written as -3 x3 x3 + 2 x3 *)
Definition ex_obj2 : function :=
  FQuad {| q_rows := [2; 1; 3]%N; q_cols := [1; 2; 3]%N; q_vals := [qz 1; qz 1; - qz 3];
           q_lin := Some {| l_terms := [(3%N, qz 2)]; l_const := qz 3 / qz 2 |} |}.
Definition ex_I2 : instance :=
  {| i_sense := SENSE_MIN; i_obj := Some ex_obj2; i_dvs := [ex_b 1; ex_b 2; ex_b 3; ex_cont 4];
     i_cs := []; i_rs := []; i_deps := []; i_params := None; i_hints := L []; i_desc := L [] |}.
Definition ex_D2 : terms := [([1; 2]%N, qz 2); ([3; 3]%N, - (1))].

Example qubo_inst_nonvacuous :
  as_qubo enter_0 leave_0 ex_I2 = inr (ex_D2, qz 3 / qz 2) /\
  as_qubo enter_eps leave_eps ex_I2 = inr (ex_D2, qz 3 / qz 2) /\
  binary_onb ex_I2 ex_xa = true /\ binary_onb ex_I2 ex_xb = true /\
  obj_is (inst_eval ex_I2 ex_xa) (qz 7 / qz 2) = true /\
  qeqb (qubo_value ex_D2 (qz 3 / qz 2) ex_xa) (qz 7 / qz 2) = true /\
  obj_is (inst_eval ex_I2 ex_xb) (qz 1 / qz 2) = true /\
  qeqb (qubo_value ex_D2 (qz 3 / qz 2) ex_xb) (qz 1 / qz 2) = true /\
  option_map so_feasible_relaxed (inst_eval ex_I2 ex_xb) = Some true.
Proof. vm_compute. repeat split; reflexivity. Qed.

Example qubo_inst_theorem_applies : forall x sol, (x = ex_xa \/ x = ex_xb) ->
  inst_eval ex_I2 x = Some sol ->
  so_objective sol = qubo_value ex_D2 (qz 3 / qz 2) x /\ so_feasible_relaxed sol = true.
Proof.
  intros x sol Hx E. split.
  - assert (HD : as_qubo enter_0 leave_0 ex_I2 = inr (ex_D2, qz 3 / qz 2)) by (vm_compute; reflexivity).
    assert (HB : binary_on ex_I2 x).
    { apply binary_onb_spec. destruct Hx as [->| ->]; vm_compute; reflexivity. }
    exact (qubo_matches_evaluation enter_0 leave_0 enter_0_exact leave_0_exact ex_I2 ex_D2 _ HD x sol HB E).
  - assert (HD : as_qubo enter_0 leave_0 ex_I2 = inr (ex_D2, qz 3 / qz 2)) by (vm_compute; reflexivity).
    exact (qubo_export_feasible_relaxed enter_0 leave_0 ex_I2 ex_D2 _ HD x sol E).
Qed.

(* refusals on variants of the example *)
Example refusal_nonvacuous :
  let c := {| c_id := 0%N; c_eq := EQ_ZERO; c_fn := Some (FConst 0); c_meta := [] |} in
  let with_c := {| i_sense := SENSE_MIN; i_obj := Some ex_obj3; i_dvs := i_dvs ex_I3; i_cs := [c];
                   i_rs := []; i_deps := []; i_params := None; i_hints := L []; i_desc := L [] |} in
  let maxi := {| i_sense := SENSE_MAX; i_obj := Some ex_obj3; i_dvs := i_dvs ex_I3; i_cs := [];
                 i_rs := []; i_deps := []; i_params := None; i_hints := L []; i_desc := L [] |} in
  let nonbin := {| i_sense := SENSE_MIN; i_obj := Some ex_obj3; i_dvs := [ex_b 1; ex_b 2; ex_cont 3];
                   i_cs := []; i_rs := []; i_deps := []; i_params := None; i_hints := L []; i_desc := L [] |} in
  as_pubo enter_eps leave_eps with_c = inl PConstraints /\
  as_pubo enter_eps leave_eps maxi = inl PMaximize /\
  as_pubo enter_eps leave_eps nonbin = inl PNonBinary /\
  as_qubo enter_eps leave_eps with_c = inl PConstraints /\
  as_qubo enter_eps leave_eps maxi = inl PMaximize /\
  as_qubo enter_eps leave_eps nonbin = inl PNonBinary.
Proof. vm_compute. repeat split; reflexivity. Qed.

Print Assumptions pubo_matches_evaluation.
Print Assumptions qubo_matches_evaluation.
Print Assumptions pubo_matches_evaluation_eps.
Print Assumptions qubo_matches_evaluation_eps.
Print Assumptions pubo_matches_reported_state.
Print Assumptions qubo_matches_reported_state.
Print Assumptions inst_eval_keeps_state.
Print Assumptions pubo_keys_binary.
Print Assumptions qubo_keys_binary.
Print Assumptions pubo_keys_assigned.
Print Assumptions qubo_keys_assigned.
Print Assumptions pubo_export_feasible_relaxed.
Print Assumptions qubo_export_feasible_relaxed.
Print Assumptions pubo_export_defined_iff.
Print Assumptions qubo_export_defined_iff.
Print Assumptions pubo_refuses_active_constraint.
Print Assumptions pubo_refuses_maximize.
Print Assumptions pubo_refuses_nonbinary.
Print Assumptions qubo_refuses_degree.
Print Assumptions pubo_inst_nonvacuous.
Print Assumptions qubo_inst_nonvacuous.
Print Assumptions pubo_inst_theorem_applies.
Print Assumptions qubo_inst_theorem_applies.
