(* QplibProofs.v — what the QPLIB reader model of Qplib.v computes, for all inputs. *)
Require Import Ommx.Num Ommx.Poly Ommx.Msg Ommx.Qplib.
From Coq Require Import String Ascii.
Open Scope list_scope.
Open Scope Qc_scope.

(* ------------------------------------------------------------------ *)
(* explicit sums of the statement *)

(* sum over the listed off-diagonal entries (i, j, v), i <> j, of v x_i x_j *)
Fixpoint offdiag_sum (rho : valuation) (q : list (N * N * num)) : num :=
  match q with
  | [] => 0
  | ((i, j), v) :: q' =>
      (if (i =? j)%N then 0 else v * rho i * rho j) + offdiag_sum rho q'
  end.
(* sum over the listed diagonal entries (i, i, v) of (v / 2) x_i^2 *)
Fixpoint diag_sum (rho : valuation) (q : list (N * N * num)) : num :=
  match q with
  | [] => 0
  | ((i, j), v) :: q' =>
      (if (i =? j)%N then half v * rho i * rho i else 0) + diag_sum rho q'
  end.
Lemma half_double v : half v + half v = v.
Proof. unfold half. field. intro H. discriminate H. Qed.

Fixpoint sumf (f : nat -> num) (l : list nat) : num :=
  match l with [] => 0 | i :: l' => f i + sumf f l' end.
(* the effective b^0: the listed entry, or the default *)
Definition b0_eff (F : qfile) (i : N) : num :=
  match aget N.eqb i (f_b0 F) with Some c => c | None => f_b0d F end.
(* sum_{i < n} b_i x_i *)
Definition lin_sum (rho : valuation) (F : qfile) : num :=
  sumf (fun i => b0_eff F (N.of_nat i) * rho (N.of_nat i)) (seq 0 (f_nvars F)).

(* what the section reader guarantees about an index/value table *)
Definition wf_tab {A} (bound : nat) (l : list (N * A)) : Prop :=
  NoDup (map fst l) /\ Forall (fun ic => (N.to_nat (fst ic) < bound)%nat) l.

(* ------------------------------------------------------------------ *)
(* wrap_function *)
Definition qval (rho : valuation) (q : list (N * N * num)) : num :=
  val rho (quad2 q).
Lemma qval_nil rho : qval rho [] = 0. Proof. reflexivity. Qed.
Lemma qval_cons rho i j v q : qval rho ((i, j, v) :: q) = v * rho i * rho j + qval rho q.
Proof. unfold qval. apply val_quad2_cons. Qed.

Lemma zip3_maps (q : list (N * N * num)) :
  zip3 (map (fun e => fst (fst e)) q) (map (fun e => snd (fst e)) q) (map snd q) = q.
Proof.
  induction q as [|[[i j] v] q IH]; cbn [map zip3 fst snd]; [reflexivity|]. rewrite IH. reflexivity.
Qed.

Lemma denote_wrap rho quad lin c :
  denote (wrap_function quad lin c) rho = qval rho quad + valg rho lin + c.
Proof.
  unfold wrap_function. destruct quad as [|e quad].
  - destruct lin as [|t lin].
    + unfold denote; cbn [fn_terms]. rewrite val_cons, val_nil. cbn [mono_val valg].
      rewrite qval_nil. ring.
    + change (denote (FLin ?l) rho) with (lin_denote l rho).
      rewrite lin_denote_eq. cbn [l_terms l_const]. rewrite qval_nil. ring.
  - unfold denote; cbn [fn_terms]. unfold quad_terms; cbn [q_rows q_cols q_vals q_lin].
    rewrite zip3_maps. rewrite val_app. cbn [optlin_terms].
    change (val rho (lin_terms ?l)) with (lin_denote l rho).
    rewrite lin_denote_eq. cbn [l_terms l_const]. unfold qval. ring.
Qed.

Lemma qval_to_quadratic rho q :
  qval rho (to_quadratic q) = offdiag_sum rho q + diag_sum rho q.
Proof.
  induction q as [|[[i j] v] q IH]; cbn [to_quadratic map qentry offdiag_sum diag_sum].
  - rewrite qval_nil. ring.
  - rewrite qval_cons. fold (to_quadratic q). rewrite IH.
    destruct (i =? j)%N eqn:E.
    + apply N.eqb_eq in E. subst j. ring.
    + ring.
Qed.

Lemma qval_neg rho q : qval rho (neg_quad q) = - qval rho q.
Proof.
  induction q as [|[[i j] v] q IH]; cbn [neg_quad map fst snd].
  - rewrite qval_nil. ring.
  - rewrite !qval_cons. fold (neg_quad q). rewrite IH. ring.
Qed.
Lemma valg_neg (rho : valuation) l : valg rho (neg_lin l) = - valg rho l.
Proof.
  induction l as [|[i c] l IH]; cbn [neg_lin map fst snd valg]; [ring|].
  fold (neg_lin l). rewrite IH. ring.
Qed.

(* ------------------------------------------------------------------ *)
(* the linear part of the objective *)

Lemma sumf_ext f g l : (forall i, In i l -> f i = g i) -> sumf f l = sumf g l.
Proof.
  induction l as [|i l IH]; intro H; cbn [sumf]; [reflexivity|].
  rewrite (H i (or_introl eq_refl)), IH; [reflexivity|]. intros j Hj. apply H. right. exact Hj.
Qed.
Lemma sumf_plus f g l : sumf (fun i => f i + g i) l = sumf f l + sumf g l.
Proof. induction l as [|i l IH]; cbn [sumf]; [ring|]. rewrite IH. ring. Qed.
Lemma sumf_zero l : sumf (fun _ => 0) l = 0.
Proof. induction l as [|i l IH]; cbn [sumf]; [reflexivity|]. rewrite IH. ring. Qed.

(* a single spike inside a range *)
Lemma sumf_single (a : num) k : forall n s, (s <= k < s + n)%nat ->
  sumf (fun i => if Nat.eqb i k then a else 0) (seq s n) = a.
Proof.
  induction n as [|n IH]; intros s H; [lia|]. cbn [seq sumf].
  destruct (Nat.eqb s k) eqn:E.
  - apply Nat.eqb_eq in E. subst s.
    rewrite (sumf_ext _ (fun _ => 0)); [rewrite sumf_zero; ring|].
    intros i Hi. apply in_seq in Hi. destruct (Nat.eqb i k) eqn:E2; [|reflexivity].
    apply Nat.eqb_eq in E2. lia.
  - apply Nat.eqb_neq in E. rewrite IH by lia. ring.
Qed.

Definition geteff (d : num) (l : list (N * num)) (i : N) : num :=
  match aget N.eqb i l with Some c => c | None => d end.

Lemma aget_not_in {A} i (l : list (N * A)) : ~ In i (map fst l) -> aget N.eqb i l = None.
Proof.
  induction l as [|[k c] l IH]; cbn [aget map fst In]; intro H; [reflexivity|].
  destruct (N.eqb i k) eqn:E.
  - apply N.eqb_eq in E. subst. exfalso. apply H. left. reflexivity.
  - apply IH. intro. apply H. right. assumption.
Qed.

(* sum over the table = sum over the index range of the looked-up entries (default 0) *)
Lemma valg_as_range (rho : valuation) n l : wf_tab n l ->
  valg rho l = sumf (fun i => geteff 0 l (N.of_nat i) * rho (N.of_nat i)) (seq 0 n).
Proof.
  intros [Hnd Hr]. induction l as [|[k c] l IH].
  - cbn [valg]. unfold geteff; cbn [aget]. rewrite (sumf_ext _ (fun _ => 0)).
    + rewrite sumf_zero. reflexivity.
    + intros. ring.
  - cbn [valg]. inversion Hnd as [|? ? Hnot Hnd']; subst. inversion Hr as [|? ? Hk Hr']; subst.
    cbn [fst] in Hk. rewrite (IH Hnd' Hr').
    rewrite (sumf_ext (fun i => geteff 0 ((k, c) :: l) (N.of_nat i) * rho (N.of_nat i))
               (fun i => (if Nat.eqb i (N.to_nat k) then c * rho k else 0)
                         + geteff 0 l (N.of_nat i) * rho (N.of_nat i))).
    + rewrite sumf_plus. rewrite sumf_single by lia. reflexivity.
    + intros i _. unfold geteff. cbn [aget].
      destruct (N.eqb (N.of_nat i) k) eqn:E.
      * apply N.eqb_eq in E. subst k. rewrite Nat2N.id, Nat.eqb_refl.
        rewrite (aget_not_in _ _ Hnot). ring.
      * apply N.eqb_neq in E. destruct (Nat.eqb i (N.to_nat k)) eqn:E2.
        -- apply Nat.eqb_eq in E2. subst i. rewrite N2Nat.id in E. congruence.
        -- ring.
Qed.

(* set_nth on a tabulated list *)
Lemma set_nth_map {A} (f : nat -> A) v : forall n s k,
  set_nth k v (map f (seq s n)) = map (fun i => if Nat.eqb i (s + k) then v else f i) (seq s n).
Proof.
  induction n as [|n IH]; intros s k; [destruct k; reflexivity|].
  cbn [seq map]. destruct k as [|k]; cbn [set_nth].
  - rewrite Nat.add_0_r, Nat.eqb_refl. f_equal.
    apply map_ext_in. intros i Hi. apply in_seq in Hi.
    destruct (Nat.eqb i s) eqn:E; [apply Nat.eqb_eq in E; lia|reflexivity].
  - destruct (Nat.eqb s (s + S k)) eqn:E; [apply Nat.eqb_eq in E; lia|].
    f_equal. rewrite IH. apply map_ext. intro i. replace (S s + k)%nat with (s + S k)%nat by lia.
    reflexivity.
Qed.

(* the dense vector after the overrides, as a tabulation *)
Lemma dense_fold (d : num) (l : list (N * num)) n : NoDup (map fst l) -> forall h,
  fold_left (fun ts ic => set_nth (N.to_nat (fst ic)) (fst ic, snd ic) ts) l
            (map (fun i => (N.of_nat i, h i)) (seq 0 n))
  = map (fun i => (N.of_nat i,
                   match aget N.eqb (N.of_nat i) l with Some c => c | None => h i end))
        (seq 0 n).
Proof.
  induction l as [|[k c] l IH]; intros Hnd h; cbn [fold_left aget].
  - reflexivity.
  - inversion Hnd as [|? ? Hnot Hnd']; subst. cbn [fst snd].
    rewrite (set_nth_map (fun i => (N.of_nat i, h i)) (k, c) n 0 (N.to_nat k)). cbn [plus].
    rewrite (map_ext (fun i => if Nat.eqb i (N.to_nat k) then (k, c) else (N.of_nat i, h i))
                     (fun i => (N.of_nat i, if Nat.eqb i (N.to_nat k) then c else h i))).
    + rewrite (IH Hnd' (fun i => if Nat.eqb i (N.to_nat k) then c else h i)).
      apply map_ext. intro i. f_equal.
      destruct (N.eqb (N.of_nat i) k) eqn:E.
      * apply N.eqb_eq in E. subst k. rewrite (aget_not_in _ _ Hnot).
        rewrite Nat2N.id, Nat.eqb_refl. reflexivity.
      * apply N.eqb_neq in E. destruct (Nat.eqb i (N.to_nat k)) eqn:E2; [|reflexivity].
        apply Nat.eqb_eq in E2. subst i. rewrite N2Nat.id in E. congruence.
    + intro i. destruct (Nat.eqb i (N.to_nat k)) eqn:E2; [|reflexivity].
      apply Nat.eqb_eq in E2. subst i. rewrite N2Nat.id. reflexivity.
Qed.

Lemma valg_filter_nonzero (rho : valuation) l :
  valg rho (filter (fun ic : N * num => negb (qeqb (snd ic) 0)) l) = valg rho l.
Proof.
  induction l as [|[k c] l IH]; cbn [filter valg snd]; [reflexivity|].
  destruct (qeqb c 0) eqn:E; cbn [negb valg].
  - apply qeqb_eq in E. subst c. rewrite IH. ring.
  - rewrite IH. reflexivity.
Qed.
Lemma valg_tabulate (rho : valuation) (h : nat -> num) l :
  valg rho (map (fun i => (N.of_nat i, h i)) l) = sumf (fun i => h i * rho (N.of_nat i)) l.
Proof. induction l as [|i l IH]; cbn [map valg sumf]; [reflexivity|]. rewrite IH. reflexivity. Qed.

Lemma objective_linear_part rho F : wf_tab (f_nvars F) (f_b0 F) ->
  valg rho (if qeqb (f_b0d F) 0 then f_b0 F else dense_b0 F) = lin_sum rho F.
Proof.
  intros Hwf. unfold lin_sum, b0_eff. destruct (qeqb (f_b0d F) 0) eqn:E.
  - apply qeqb_eq in E. rewrite E. rewrite (valg_as_range rho _ _ Hwf). reflexivity.
  - unfold dense_b0. rewrite valg_filter_nonzero.
    rewrite (dense_fold (f_b0d F) (f_b0 F) (f_nvars F) (proj1 Hwf) (fun _ => f_b0d F)).
    rewrite valg_tabulate. reflexivity.
Qed.

(* C19_objective on a parsed table *)
Theorem objective_denote F : wf_tab (f_nvars F) (f_b0 F) -> forall rho,
  denote (convert_objective F) rho
  = offdiag_sum rho (f_q0 F) + diag_sum rho (f_q0 F) + lin_sum rho F + f_q0c F.
Proof.
  intros Hwf rho. unfold convert_objective. cbv zeta. rewrite denote_wrap, qval_to_quadratic.
  rewrite <- (objective_linear_part rho F Hwf). reflexivity.
Qed.

(* ------------------------------------------------------------------ *)
(* constraints *)

(* 1/2 x'Q^i x + b^i'x from the tables of constraint i *)
Definition con_val (F : qfile) (i : nat) (bs : list (N * num)) (rho : valuation) : num :=
  offdiag_sum rho (nth i (f_qs F) []) + diag_sum rho (nth i (f_qs F) []) + valg rho bs.

(* the sides a constraint row must produce: (id, value of the "<= 0" function) *)
Definition row_sides (F : qfile) (i : nat) (bs : list (N * num)) (lo up : ext)
  : list (N * (valuation -> num)) :=
  (match up with
   | Fin c => [(N.of_nat i, fun rho => con_val F i bs rho - c)]
   | _ => []
   end)
  ++
  (match lo with
   | Fin c => [(N.of_nat (f_ncons F + i), fun rho => - con_val F i bs rho + c)]
   | _ => []
   end).
Definition spec_sides (F : qfile) : list (N * (valuation -> num)) :=
  flat_map (fun x => let '(i, (bs, lo, up)) := x in
                     row_sides F i bs (thr_lo (f_inf F) lo) (thr_hi (f_inf F) up))
           (enumerate_from 0 (zip3e (f_bs F) (f_cl F) (f_cu F))).
Definition side_ok (k : cons) (s : N * (valuation -> num)) : Prop :=
  c_id k = fst s /\ forall rho, denote (c_fn k) rho = snd s rho.

Lemma convert_constraint_sides F i bs lo up l :
  convert_constraint F i bs lo up = Some l -> Forall2 side_ok l (row_sides F i bs lo up).
Proof.
  unfold convert_constraint, row_sides.
  assert (U : forall c rho, denote (wrap_function (to_quadratic (nth i (f_qs F) [])) bs (- c)) rho
                            = con_val F i bs rho - c).
  { intros c rho. rewrite denote_wrap, qval_to_quadratic. unfold con_val. ring. }
  assert (Lw : forall c rho,
             denote (wrap_function (neg_quad (to_quadratic (nth i (f_qs F) []))) (neg_lin bs) c) rho
             = - con_val F i bs rho + c).
  { intros c rho. rewrite denote_wrap, qval_neg, valg_neg, qval_to_quadratic. unfold con_val. ring. }
  destruct up as [|cu| |]; destruct lo as [|cl| |]; intro H; try discriminate H;
    inversion H; subst; cbn [app];
    repeat (constructor; [split; [reflexivity|cbn [c_fn snd]; intro rho; auto]|]);
    constructor.
Qed.

Lemma concat_opt_Forall2 {A B} (R : A -> B -> Prop) :
  forall (xs : list (option (list A))) (ys : list (list B)) out,
  Forall2 (fun x y => forall l, x = Some l -> Forall2 R l y) xs ys ->
  concat_opt xs = Some out -> Forall2 R out (List.concat ys).
Proof.
  induction xs as [|x xs IH]; intros ys out H E.
  - inversion H; subst. cbn in E. inversion E; subst. constructor.
  - inversion H as [|? y ? ys' Hx Hxs]; subst. cbn [concat_opt] in E.
    destruct x as [a|]; [|discriminate].
    destruct (concat_opt xs) as [b|] eqn:Eb; [|discriminate]. inversion E; subst.
    cbn [List.concat]. apply Forall2_app; [apply Hx; reflexivity|]. apply (IH ys' b Hxs eq_refl).
Qed.

Theorem constraint_sides F cs :
  convert_constraints F = Some cs -> Forall2 side_ok cs (spec_sides F).
Proof.
  unfold convert_constraints, spec_sides. intro H. rewrite flat_map_concat_map.
  eapply concat_opt_Forall2; [|exact H]. clear H.
  induction (enumerate_from 0 (zip3e (f_bs F) (f_cl F) (f_cu F))) as [|[i [[bs lo] up]] l IH];
    cbn [map]; [constructor|]. constructor; [|exact IH].
  intros l0 E. apply convert_constraint_sides. exact E.
Qed.

(* exactly one constraint per finite side *)
Corollary constraint_count F cs :
  convert_constraints F = Some cs -> List.length cs = List.length (spec_sides F).
Proof.
  intro H. apply constraint_sides in H.
  induction H; cbn [List.length]; [reflexivity|]. f_equal. assumption.
Qed.

(* ------------------------------------------------------------------ *)
(* the infinity threshold *)

Lemma thr_beyond t v : t <= qabs v ->
  thr_lo (Fin t) (Fin v) = NInf /\ thr_hi (Fin t) (Fin v) = PInf.
Proof.
  intro H. unfold thr_lo, thr_hi, apply_thr. cbn [eabs eleb].
  apply qleb_le in H. rewrite H. split; reflexivity.
Qed.
Lemma thr_below t v : qabs v < t ->
  thr_lo (Fin t) (Fin v) = Fin v /\ thr_hi (Fin t) (Fin v) = Fin v.
Proof.
  intro H. unfold thr_lo, thr_hi, apply_thr. cbn [eabs eleb].
  apply qleb_gt in H. rewrite H. split; reflexivity.
Qed.
(* a literally infinite bound / side is unbounded whatever the (non-NaN) threshold is;
   with the threshold +inf nothing finite is unbounded *)
Lemma thr_infinite thr v : thr <> NaN -> (v = PInf \/ v = NInf) ->
  thr_lo thr v = NInf /\ thr_hi thr v = PInf.
Proof.
  intros Hn [->| ->]; unfold thr_lo, thr_hi, apply_thr; cbn [eabs];
    destruct thr; try congruence; split; reflexivity.
Qed.
Lemma thr_inf_threshold v : thr_lo PInf (Fin v) = Fin v /\ thr_hi PInf (Fin v) = Fin v.
Proof. split; reflexivity. Qed.

Lemma nth_error_enumerate {A} (l : list A) : forall k i,
  nth_error (enumerate_from k l) i = option_map (fun x => ((k + i)%nat, x)) (nth_error l i).
Proof.
  induction l as [|x l IH]; intros k i; destruct i; cbn [enumerate_from nth_error option_map];
    try reflexivity.
  - rewrite Nat.add_0_r. reflexivity.
  - rewrite IH. replace (S k + i)%nat with (k + S i)%nat by lia. reflexivity.
Qed.

(* the i-th declared variable: id = index, declared type, thresholded bounds, name *)
Theorem dvars_spec F i t l u :
  nth_error (zip3e (f_vtypes F) (f_lb F) (f_ub F)) i = Some (t, l, u) ->
  nth_error (convert_dvars F) i
  = Some {| dv_id := N.of_nat i; dv_kind := t;
            dv_lower := thr_lo (f_inf F) l; dv_upper := thr_hi (f_inf F) u;
            dv_name := aget N.eqb (N.of_nat i) (f_vnames F) |}.
Proof.
  intro H. unfold convert_dvars. rewrite nth_error_map, nth_error_enumerate, H.
  reflexivity.
Qed.
Lemma length_enumerate {A} (l : list A) : forall k, List.length (enumerate_from k l) = List.length l.
Proof. induction l as [|x l IH]; intro k; cbn [enumerate_from List.length]; [reflexivity|]. rewrite IH. reflexivity. Qed.
Lemma dvars_length F :
  List.length (convert_dvars F) = List.length (zip3e (f_vtypes F) (f_lb F) (f_ub F)).
Proof. unfold convert_dvars. rewrite map_length, length_enumerate. reflexivity. Qed.

Lemma convert_fields F ins : convert F = Some ins ->
  i_sense ins = f_sense F /\ i_obj ins = convert_objective F /\ i_vars ins = convert_dvars F
  /\ convert_constraints F = Some (i_cons ins).
Proof.
  unfold convert. destruct (convert_constraints F) as [cs|]; [|discriminate].
  intro H. inversion H; subst. cbn. auto.
Qed.

(* ------------------------------------------------------------------ *)
(* variable types *)

Lemma is01_spec a b : is01 (Fin a) (Fin b) = true <->
  (a = 0 /\ b = 1) \/ (a = 1 /\ b = 1) \/ (a = 0 /\ b = 0).
Proof.
  unfold is01. cbn [eeqb]. rewrite !orb_true_iff, !andb_true_iff, !qeqb_eq. tauto.
Qed.
Definition settle (t : vtype) (l u : ext) : vtype :=
  match t with TInt => if is01 l u then TBin else TInt | _ => t end.

Lemma itb_nth : forall ts lb ub i t l u,
  nth_error ts i = Some t -> nth_error lb i = Some l -> nth_error ub i = Some u ->
  nth_error (integer_to_binary ts lb ub) i = Some (settle t l u).
Proof.
  induction ts as [|t0 ts IH]; intros lb ub i t l u Ht Hl Hu; [destruct i; discriminate|].
  destruct lb as [|l0 lb]; [destruct i; discriminate|].
  destruct ub as [|u0 ub]; [destruct i; discriminate|].
  destruct i as [|i]; cbn [nth_error] in *.
  - inversion Ht; inversion Hl; inversion Hu; subst. cbn [integer_to_binary nth_error]. reflexivity.
  - cbn [integer_to_binary nth_error]. apply IH; assumption.
Qed.
Lemma nth_error_repeat {A} (x : A) n i : (i < n)%nat -> nth_error (repeat x n) i = Some x.
Proof.
  revert i. induction n as [|n IH]; intros i H; [lia|]. destruct i; cbn [repeat nth_error]; [reflexivity|].
  apply IH. lia.
Qed.

(* C19_var_types: the type of variable i from the code letter, the listed type and the bounds *)
Theorem resolve_types_spec vk n lb ub listed i l u : (i < n)%nat ->
  nth_error lb i = Some l -> nth_error ub i = Some u ->
  match vk with
  | VC => nth_error (resolve_types vk n lb ub listed) i = Some TCont
  | VB => nth_error (resolve_types vk n lb ub listed) i = Some TBin
  | VI => nth_error (resolve_types vk n lb ub listed) i = Some (settle TInt l u)
  | VM | VG => forall t, nth_error listed i = Some t ->
               nth_error (resolve_types vk n lb ub listed) i = Some (settle t l u)
  end.
Proof.
  intros Hi Hl Hu. destruct vk; cbn [resolve_types].
  - apply nth_error_repeat. exact Hi.
  - apply nth_error_repeat. exact Hi.
  - intros t Ht. apply itb_nth; assumption.
  - apply itb_nth; [apply nth_error_repeat; exact Hi|assumption|assumption].
  - intros t Ht. apply itb_nth; assumption.
Qed.

(* ------------------------------------------------------------------ *)
(* the cursor: positions, errors and what the section readers guarantee *)

Lemma skipn_cons_inv {A} : forall n (l : list A) x r,
  skipn n l = x :: r -> nth_error l n = Some x /\ skipn (S n) l = r /\ (n < List.length l)%nat.
Proof.
  induction n as [|n IH]; intros l x r H; destruct l as [|y l]; cbn [skipn] in H; try discriminate H.
  - inversion H; subst. cbn. repeat split. lia.
  - apply IH in H. destruct H as (H1 & H2 & H3). cbn [nth_error List.length]. repeat split; auto. lia.
Qed.
Lemma skipn_nil_inv {A} : forall n (l : list A), skipn n l = [] -> (List.length l <= n)%nat.
Proof.
  induction n as [|n IH]; intros l H; destruct l as [|y l]; cbn [skipn] in H; cbn [List.length];
    try discriminate H; try lia.
  apply IH in H. lia.
Qed.

Section Cursor.
  Variable ls : list string.

  (* l is the number of a line of the text that is neither blank nor a comment *)
  Definition content (l : nat) : Prop :=
    (1 <= l)%nat /\ exists s, nth_error ls (pred l) = Some s /\ skippable s = false.
  (* the cursor sits right after content line number [snd c] *)
  Definition Inv (c : cur) : Prop :=
    fst c = skipn (snd c) ls /\ (snd c <= List.length ls)%nat /\ content (snd c).
  (* an end-of-file error carries the number of the last line of the text; every other error
     carries the number of a content line *)
  Definition errok (l : nat) (k : ekind) : Prop :=
    match k with EEof => l = List.length ls | _ => content l end.
  Definition good {A} (P : A -> Prop) (m : M A) : Prop :=
    forall c, Inv c ->
      match m c with
      | Ok (a, c') => Inv c' /\ P a
      | Err l k => errok l k
      end.
  Definition goodp {A} (P : A -> Prop) (p : pv A) : Prop := forall w, good P (p w).
  Definition T {A} : A -> Prop := fun _ => True.

  Lemma expect_next_from_spec : forall rest n, rest = skipn n ls -> (n <= List.length ls)%nat ->
    match expect_next_from rest n with
    | Ok (s, c') => Inv c'
    | Err l k => k = EEof /\ l = List.length ls
    end.
  Proof.
    induction rest as [|a rest IH]; intros n E Hn; cbn [expect_next_from].
    - symmetry in E. apply skipn_nil_inv in E. split; [reflexivity|lia].
    - symmetry in E. apply skipn_cons_inv in E. destruct E as (Hnth & Hsk & Hlt).
      destruct (skippable a) eqn:S.
      + apply IH; [symmetry; exact Hsk|lia].
      + unfold Inv; cbn [fst snd]. split; [symmetry; exact Hsk|]. split; [lia|].
        split; [lia|]. exists a. cbn [pred]. auto.
  Qed.

  Lemma good_expect_next : good T expect_next.
  Proof.
    intros c (Hf & Hl & Hc). unfold expect_next.
    pose proof (expect_next_from_spec (fst c) (snd c) Hf Hl) as H.
    destruct (expect_next_from (fst c) (snd c)) as [[s c']|l k].
    - split; [exact H|exact I].
    - destruct H as [-> ->]. reflexivity.
  Qed.
  Lemma good_ret {A} (P : A -> Prop) a : P a -> good P (ret a).
  Proof. intros H c Hc. cbn. auto. Qed.
  Lemma good_fail {A} (P : A -> Prop) k : k <> EEof -> good P (fail k).
  Proof.
    intros H c (_ & _ & Hc). unfold fail. destruct k; try exact Hc. congruence.
  Qed.
  Lemma good_bind {A B} (P : A -> Prop) (Q : B -> Prop) m f :
    good P m -> (forall a, P a -> good Q (f a)) -> good Q (bind m f).
  Proof.
    intros Hm Hf c Hc. unfold bind. specialize (Hm c Hc).
    destruct (m c) as [[a c']|l k]; [|exact Hm].
    destruct Hm as [Hc' Pa]. apply (Hf a Pa c' Hc').
  Qed.
  Lemma good_weaken {A} (P Q : A -> Prop) m : (forall a, P a -> Q a) -> good P m -> good Q m.
  Proof.
    intros H Hm c Hc. specialize (Hm c Hc). destruct (m c) as [[a c']|l k]; [|exact Hm].
    destruct Hm; split; auto.
  Qed.
  Lemma good_T {A} (P : A -> Prop) m : good P m -> good T m.
  Proof. apply good_weaken. intros; exact I. Qed.

  Lemma goodp_of_opt {A} (p : string -> option A) e : e <> EEof -> goodp T (of_opt p e).
  Proof.
    intros H w. unfold of_opt. destruct (p w); [apply good_ret; exact I|apply good_fail; exact H].
  Qed.
  Lemma goodp_usize : goodp T p_usize. Proof. apply goodp_of_opt. discriminate. Qed.
  Lemma goodp_ext : goodp T p_ext. Proof. apply goodp_of_opt. discriminate. Qed.
  Lemma goodp_vtype : goodp T p_vtype. Proof. apply goodp_of_opt. discriminate. Qed.
  Lemma goodp_ptype : goodp T p_ptype. Proof. apply goodp_of_opt. discriminate. Qed.
  Lemma goodp_sense : goodp T p_sense. Proof. apply goodp_of_opt. discriminate. Qed.
  Lemma goodp_str : goodp T p_str. Proof. intro w. apply good_ret. exact I. Qed.
  Lemma goodp_num : goodp T p_num.
  Proof.
    intro w. unfold p_num. eapply good_bind; [apply goodp_ext|]. intros x _.
    unfold fin_of. destruct x; try (apply good_fail; discriminate). apply good_ret. exact I.
  Qed.

  Lemma good_next_parse {A} (P : A -> Prop) p : goodp P p -> good P (next_parse p).
  Proof.
    intro Hp. unfold next_parse. eapply good_bind; [apply good_expect_next|]. intros line _.
    destruct (first_word line); [apply Hp|apply good_fail; discriminate].
  Qed.
  Lemma good_next_split_n n : good T (next_split_n n).
  Proof.
    unfold next_split_n. eapply good_bind; [apply good_expect_next|]. intros line _.
    apply good_ret. exact I.
  Qed.
  Lemma good_field {A} (P : A -> Prop) parts k p : goodp P p -> good P (field parts k p).
  Proof.
    intro Hp. unfold field. destruct (nth_error parts k); [apply Hp|apply good_fail; discriminate].
  Qed.
  Lemma good_idx bound i : good (fun k => (N.to_nat k < bound)%nat) (idx bound i).
  Proof.
    unfold idx. destruct ((i =? 0)%N || (N.of_nat bound <? i)%N) eqn:E.
    - apply good_fail. discriminate.
    - apply good_ret. apply orb_false_iff in E. destruct E as [E1 E2].
      apply N.eqb_neq in E1. apply N.ltb_ge in E2. lia.
  Qed.
  Lemma good_repeatM {A} (P : A -> Prop) m n : good P m -> good (Forall P) (repeatM n m).
  Proof.
    intro Hm. induction n as [|n IH]; cbn [repeatM].
    - apply good_ret. constructor.
    - eapply good_bind; [exact Hm|]. intros a Pa.
      eapply good_bind; [exact IH|]. intros l Pl. apply good_ret. constructor; assumption.
  Qed.
End Cursor.

(* association lists built by insertion *)
Section AssocFacts.
  Context {K V : Type}.
  Variable keqb : K -> K -> bool.
  Hypothesis keqb_spec : forall a b, keqb a b = true <-> a = b.

  Lemma ains_keys k v (m : list (K * V)) k' :
    In k' (map fst (ains keqb k v m)) -> k' = k \/ In k' (map fst m).
  Proof.
    induction m as [|[k0 v0] m IH]; cbn [ains map fst In]; [intuition|].
    destruct (keqb k k0) eqn:E; cbn [map fst In].
    - intuition.
    - intros [H|H]; [auto|]. apply IH in H. intuition.
  Qed.
  Lemma ains_nodup k v (m : list (K * V)) : NoDup (map fst m) -> NoDup (map fst (ains keqb k v m)).
  Proof.
    induction m as [|[k0 v0] m IH]; cbn [ains map fst]; intro H.
    - constructor; [intros []|constructor].
    - inversion H as [|? ? Hn Hd]; subst. destruct (keqb k k0) eqn:E; cbn [map fst].
      + apply keqb_spec in E. subst k0. constructor; assumption.
      + constructor; [|apply IH; exact Hd].
        intro Hin. apply ains_keys in Hin. destruct Hin as [->|Hin]; [|contradiction].
        assert (keqb k k = true) by (apply keqb_spec; reflexivity). congruence.
  Qed.
  Lemma ains_forall (Q : K * V -> Prop) k v m : Q (k, v) -> Forall Q m -> Forall Q (ains keqb k v m).
  Proof.
    intros Hq. induction 1 as [|[k0 v0] m H Hm IH]; cbn [ains].
    - constructor; [exact Hq|constructor].
    - destruct (keqb k k0); constructor; assumption.
  Qed.
  Lemma of_entries_wf (Q : K * V -> Prop) (es : list (K * V)) : Forall Q es ->
    NoDup (map fst (of_entries keqb es)) /\ Forall Q (of_entries keqb es).
  Proof.
    unfold of_entries. intro H.
    assert (G : forall acc, NoDup (map fst acc) -> Forall Q acc ->
              NoDup (map fst (fold_left (fun m kv => ains keqb (fst kv) (snd kv) m) es acc))
              /\ Forall Q (fold_left (fun m kv => ains keqb (fst kv) (snd kv) m) es acc)).
    { induction H as [|[k v] es Hq Hes IH]; intros acc Hn Hf; cbn [fold_left]; [auto|].
      apply IH; [apply ains_nodup; exact Hn|apply ains_forall; assumption]. }
    apply G; constructor.
  Qed.
End AssocFacts.

Lemma set_nth_length {A} (v : A) : forall l i, List.length (set_nth i v l) = List.length l.
Proof.
  induction l as [|x l IH]; intros i; destruct i; cbn [set_nth List.length]; try reflexivity.
  rewrite IH. reflexivity.
Qed.

Section Sections.
  Variable ls : list string.
  Notation good := (good ls).
  Notation goodp := (goodp ls).

  Lemma good_collect_i_val {A} bound (p : pv A) :
    goodp T p -> good (wf_tab bound) (collect_i_val bound p).
  Proof.
    intro Hp. unfold collect_i_val.
    eapply good_bind; [apply good_next_parse; apply goodp_usize|]. intros num _.
    eapply good_bind.
    - apply (good_repeatM ls (fun kv : N * A => (N.to_nat (fst kv) < bound)%nat)).
      eapply good_bind; [apply good_next_split_n|]. intros parts _.
      eapply good_bind; [apply good_field; apply goodp_usize|]. intros i _.
      eapply good_bind; [apply good_field; exact Hp|]. intros v _.
      eapply good_bind; [apply good_idx|]. intros k Hk.
      apply good_ret. exact Hk.
    - intros es Hes. apply good_ret. unfold wf_tab.
      apply (of_entries_wf N.eqb N.eqb_eq _ es Hes).
  Qed.
  Lemma good_collect_ij_val bound : good T (collect_ij_val bound).
  Proof.
    unfold collect_ij_val.
    eapply good_bind; [apply good_next_parse; apply goodp_usize|]. intros num _.
    eapply good_bind; [|intros; apply good_ret; exact I].
    apply (good_repeatM ls T).
    eapply good_bind; [apply good_next_split_n|]. intros parts _.
    eapply good_bind; [apply good_field; apply goodp_usize|]. intros i _.
    eapply good_bind; [apply good_field; apply goodp_usize|]. intros j _.
    eapply good_bind; [apply good_field; apply goodp_num|]. intros v _.
    eapply good_bind; [apply good_idx|]. intros i' _.
    eapply good_bind; [apply good_idx|]. intros j' _.
    apply good_ret. exact I.
  Qed.
  Lemma good_collect_list_of_i_val size bound : good T (collect_list_of_i_val size bound).
  Proof.
    unfold collect_list_of_i_val.
    eapply good_bind; [apply good_next_parse; apply goodp_usize|]. intros num _.
    eapply good_bind; [|intros; apply good_ret; exact I].
    apply (good_repeatM ls T).
    eapply good_bind; [apply good_next_split_n|]. intros parts _.
    eapply good_bind; [apply good_field; apply goodp_usize|]. intros m _.
    eapply good_bind; [apply good_field; apply goodp_usize|]. intros i _.
    eapply good_bind; [apply good_field; apply goodp_num|]. intros v _.
    eapply good_bind; [apply good_idx|]. intros m' _.
    eapply good_bind; [apply good_idx|]. intros i' _.
    apply good_ret. exact I.
  Qed.
  Lemma good_collect_list_of_ij_val size bound : good T (collect_list_of_ij_val size bound).
  Proof.
    unfold collect_list_of_ij_val.
    eapply good_bind; [apply good_next_parse; apply goodp_usize|]. intros num _.
    eapply good_bind; [|intros; apply good_ret; exact I].
    apply (good_repeatM ls T).
    eapply good_bind; [apply good_next_split_n|]. intros parts _.
    eapply good_bind; [apply good_field; apply goodp_usize|]. intros m _.
    eapply good_bind; [apply good_field; apply goodp_usize|]. intros i _.
    eapply good_bind; [apply good_field; apply goodp_usize|]. intros j _.
    eapply good_bind; [apply good_field; apply goodp_num|]. intros v _.
    eapply good_bind; [apply good_idx|]. intros m' _.
    eapply good_bind; [apply good_idx|]. intros i' _.
    eapply good_bind; [apply good_idx|]. intros j' _.
    apply good_ret. exact I.
  Qed.
  Lemma good_collect_list {A} size (p : pv A) :
    goodp T p -> good (fun l => List.length l = size) (collect_list size p).
  Proof.
    intro Hp. unfold collect_list.
    eapply good_bind; [apply good_next_parse; exact Hp|]. intros d _.
    eapply good_bind; [apply good_next_parse; apply goodp_usize|]. intros num _.
    eapply good_bind.
    - apply (good_repeatM ls T).
      eapply good_bind; [apply good_next_split_n|]. intros parts _.
      eapply good_bind; [apply good_field; apply goodp_usize|]. intros i _.
      eapply good_bind; [apply good_field; exact Hp|]. intros v _.
      eapply good_bind; [apply good_idx|]. intros k _.
      apply good_ret. exact I.
    - intros es _. apply good_ret.
      assert (G : forall acc, List.length acc = size ->
                List.length (fold_left (fun out kv => set_nth (N.to_nat (fst kv)) (snd kv) out) es acc)
                = size).
      { induction es as [|e es IH]; intros acc Ha; cbn [fold_left]; [exact Ha|].
        apply IH. rewrite set_nth_length. exact Ha. }
      apply G. apply repeat_length.
  Qed.

  (* what a successfully read file satisfies *)
  Definition file_ok (F : qfile) : Prop :=
    wf_tab (f_nvars F) (f_b0 F)
    /\ List.length (f_lb F) = f_nvars F /\ List.length (f_ub F) = f_nvars F
    /\ exists listed,
         f_vtypes F = resolve_types (f_vk F) (f_nvars F) (f_lb F) (f_ub F) listed
         /\ (match f_vk F with VM | VG => List.length listed = f_nvars F | _ => True end).

  Ltac gT :=
    first
      [ apply good_ret; exact I
      | apply good_next_parse;
        first [apply goodp_usize|apply goodp_ext|apply goodp_num|apply goodp_sense
              |apply goodp_ptype|apply goodp_str|apply goodp_vtype]
      | apply good_collect_ij_val
      | apply good_collect_list_of_i_val
      | apply good_collect_list_of_ij_val
      | eapply good_T; apply good_collect_i_val;
        first [apply goodp_ext|apply goodp_num|apply goodp_str]
      | eapply good_T; apply good_collect_list;
        first [apply goodp_ext|apply goodp_vtype] ].

  Lemma good_read_body name : good file_ok (read_body name).
  Proof.
    unfold read_body.
    eapply good_bind; [gT|]. intros [[ok vk] ck] _.
    eapply good_bind; [gT|]. intros sense _.
    eapply good_bind; [gT|]. intros nv _.
    eapply good_bind; [instantiate (1 := T); destruct (has_cons ck); gT|]. intros ncs _.
    eapply good_bind; [instantiate (1 := T); destruct ok; gT|]. intros q0 _.
    eapply good_bind; [gT|]. intros b0d _.
    eapply good_bind; [apply good_collect_i_val; apply goodp_num|]. intros b0 Hb0.
    eapply good_bind; [gT|]. intros q0c _.
    eapply good_bind; [instantiate (1 := T); destruct ck; gT|]. intros qs _.
    eapply good_bind; [instantiate (1 := T); destruct (has_cons ck); gT|]. intros bs _.
    eapply good_bind; [gT|]. intros inf _.
    eapply good_bind; [instantiate (1 := T); destruct (has_cons ck); gT|]. intros cl _.
    eapply good_bind; [instantiate (1 := T); destruct (has_cons ck); gT|]. intros cu _.
    eapply good_bind.
    { instantiate (1 := fun l => List.length l = N.to_nat nv). destruct vk;
        try (apply good_collect_list; apply goodp_ext). apply good_ret. apply repeat_length. }
    intros lb Hlb.
    eapply good_bind.
    { instantiate (1 := fun l => List.length l = N.to_nat nv). destruct vk;
        try (apply good_collect_list; apply goodp_ext). apply good_ret. apply repeat_length. }
    intros ub Hub.
    eapply good_bind.
    { instantiate (1 := fun l => match vk with VM | VG => List.length l = N.to_nat nv | _ => True end).
      destruct vk; try (apply good_ret; exact I); apply good_collect_list; apply goodp_vtype. }
    intros listed Hlisted.
    eapply good_bind; [gT|]. intros x0d _.
    eapply good_bind; [gT|]. intros x0 _.
    eapply good_bind.
    { instantiate (1 := T). destruct (has_cons ck); [|gT].
      eapply good_bind; [gT|]. intros d _. eapply good_bind; [gT|]. intros l _. gT. }
    intros y0 _.
    eapply good_bind; [gT|]. intros z0d _.
    eapply good_bind; [gT|]. intros z0 _.
    eapply good_bind; [gT|]. intros vnames _.
    eapply good_bind; [gT|]. intros cnames _.
    apply good_ret. unfold file_ok. cbn.
    split; [exact Hb0|]. split; [exact Hlb|]. split; [exact Hub|].
    exists listed. split; [reflexivity|exact Hlisted].
  Qed.

  Theorem from_lines_spec :
    match from_lines ls with
    | Ok F => file_ok F
    | Err l k => errok ls l k
    end.
  Proof.
    unfold from_lines, read_file, bind, next_parse at 1, bind, expect_next. cbn [fst snd].
    pose proof (expect_next_from_spec ls ls 0 eq_refl (Nat.le_0_l _)) as H.
    destruct (expect_next_from ls 0) as [[s c']|l k].
    - destruct (first_word s) as [w|].
      + unfold p_str, ret. pose proof (good_read_body w c' H) as G.
        destruct (read_body w c') as [[F c'']|l k]; [exact (proj2 G)|exact G].
      + unfold fail. destruct H as (_ & _ & Hc). exact Hc.
    - destruct H as [-> ->]. reflexivity.
  Qed.
End Sections.

(* ------------------------------------------------------------------ *)
(* malformed head lines: the error and its line number, for every text *)

Definition blanks (pre : list string) : Prop := Forall (fun x => skippable x = true) pre.

Lemma expect_next_skip pre s rest : blanks pre -> skippable s = false -> forall n,
  expect_next_from (pre ++ s :: rest) n = Ok (s, (rest, (n + List.length pre + 1)%nat)).
Proof.
  intros Hpre Hs. induction Hpre as [|x pre Hx Hpre IH]; intro n; cbn [app expect_next_from List.length].
  - rewrite Hs. replace (n + 0 + 1)%nat with (S n) by lia. reflexivity.
  - rewrite Hx. rewrite IH. replace (S n + List.length pre + 1)%nat with (n + S (List.length pre) + 1)%nat by lia.
    reflexivity.
Qed.
Lemma next_parse_at {A} (p : pv A) pre s rest n w :
  blanks pre -> skippable s = false -> first_word s = Some w ->
  next_parse p (pre ++ s :: rest, n) = p w (rest, (n + List.length pre + 1)%nat).
Proof.
  intros Hpre Hs Hw. unfold next_parse, bind, expect_next. cbn [fst snd].
  rewrite (expect_next_skip pre s rest Hpre Hs). rewrite Hw. reflexivity.
Qed.
Lemma trim_start_head : forall s a r, trim_start s = String a r -> is_ws a = false.
Proof.
  induction s as [|c s IH]; intros a r H; cbn [trim_start] in H; [discriminate|].
  destruct (is_ws c) eqn:E; [apply (IH a r H)|]. inversion H; subst. exact E.
Qed.
Lemma first_word_content s : skippable s = false -> exists w, first_word s = Some w.
Proof.
  unfold skippable, is_blank, first_word. intro H. apply orb_false_iff in H. destruct H as [H _].
  destruct (trim_start s) as [|a r] eqn:E; [discriminate|].
  apply trim_start_head in E. cbn [take_word]. rewrite E. eexists. reflexivity.
Qed.

Theorem error_type_code pre1 l1 pre2 l2 rest w :
  blanks pre1 -> skippable l1 = false -> blanks pre2 -> skippable l2 = false ->
  first_word l2 = Some w -> parse_ptype w = None ->
  from_lines (pre1 ++ l1 :: pre2 ++ l2 :: rest)
  = Err (List.length pre1 + 1 + List.length pre2 + 1) EProblemType.
Proof.
  intros B1 S1 B2 S2 W P. destruct (first_word_content l1 S1) as [w1 W1].
  unfold from_lines, read_file. unfold bind at 1.
  rewrite (next_parse_at p_str pre1 l1 _ 0 w1 B1 S1 W1). unfold p_str, ret.
  unfold read_body. unfold bind at 1.
  rewrite (next_parse_at p_ptype pre2 l2 rest _ w B2 S2 W).
  unfold p_ptype, of_opt. rewrite P. unfold fail. cbn [snd]. reflexivity.
Qed.

Theorem error_sense pre1 l1 pre2 l2 pre3 l3 rest w2 pt w :
  blanks pre1 -> skippable l1 = false -> blanks pre2 -> skippable l2 = false ->
  first_word l2 = Some w2 -> parse_ptype w2 = Some pt ->
  blanks pre3 -> skippable l3 = false -> first_word l3 = Some w -> parse_sense w = None ->
  from_lines (pre1 ++ l1 :: pre2 ++ l2 :: pre3 ++ l3 :: rest)
  = Err (List.length pre1 + 1 + List.length pre2 + 1 + List.length pre3 + 1) ESense.
Proof.
  intros B1 S1 B2 S2 W2 P2 B3 S3 W P. destruct (first_word_content l1 S1) as [w1 W1].
  unfold from_lines, read_file. unfold bind at 1.
  rewrite (next_parse_at p_str pre1 l1 _ 0 w1 B1 S1 W1). unfold p_str, ret.
  unfold read_body. unfold bind at 1.
  rewrite (next_parse_at p_ptype pre2 l2 _ _ w2 B2 S2 W2).
  unfold p_ptype at 1, of_opt at 1. rewrite P2. unfold ret at 1.
  destruct pt as [[ok vk] ck]. unfold bind at 1.
  rewrite (next_parse_at p_sense pre3 l3 rest _ w B3 S3 W).
  unfold p_sense, of_opt. rewrite P. unfold fail. cbn [snd]. reflexivity.
Qed.

Theorem error_count pre1 l1 pre2 l2 pre3 l3 pre4 l4 rest w2 pt w3 se w :
  blanks pre1 -> skippable l1 = false -> blanks pre2 -> skippable l2 = false ->
  first_word l2 = Some w2 -> parse_ptype w2 = Some pt ->
  blanks pre3 -> skippable l3 = false -> first_word l3 = Some w3 -> parse_sense w3 = Some se ->
  blanks pre4 -> skippable l4 = false -> first_word l4 = Some w -> parse_usize w = None ->
  from_lines (pre1 ++ l1 :: pre2 ++ l2 :: pre3 ++ l3 :: pre4 ++ l4 :: rest)
  = Err (List.length pre1 + 1 + List.length pre2 + 1 + List.length pre3 + 1
         + List.length pre4 + 1) EInt.
Proof.
  intros B1 S1 B2 S2 W2 P2 B3 S3 W3 P3 B4 S4 W P. destruct (first_word_content l1 S1) as [w1 W1].
  unfold from_lines, read_file. unfold bind at 1.
  rewrite (next_parse_at p_str pre1 l1 _ 0 w1 B1 S1 W1). unfold p_str, ret.
  unfold read_body. unfold bind at 1.
  rewrite (next_parse_at p_ptype pre2 l2 _ _ w2 B2 S2 W2).
  unfold p_ptype at 1, of_opt at 1. rewrite P2. unfold ret at 1.
  destruct pt as [[ok vk] ck]. unfold bind at 1.
  rewrite (next_parse_at p_sense pre3 l3 _ _ w3 B3 S3 W3).
  unfold p_sense at 1, of_opt at 1. rewrite P3. unfold ret at 1. unfold bind at 1.
  rewrite (next_parse_at p_usize pre4 l4 rest _ w B4 S4 W).
  unfold p_usize, of_opt. rewrite P. unfold fail. cbn [snd]. reflexivity.
Qed.

(* ------------------------------------------------------------------ *)
(* the statements exported to props/C19.v *)

Theorem C19_objective_thm : forall ls F, from_lines ls = Ok F -> forall rho,
  denote (convert_objective F) rho
  = offdiag_sum rho (f_q0 F) + diag_sum rho (f_q0 F) + lin_sum rho F + f_q0c F.
Proof.
  intros ls F H. pose proof (from_lines_spec ls) as S. rewrite H in S.
  apply objective_denote. exact (proj1 S).
Qed.

Theorem C19_var_types_thm : forall ls F, from_lines ls = Ok F ->
  List.length (f_lb F) = f_nvars F /\ List.length (f_ub F) = f_nvars F /\
  exists listed,
    (match f_vk F with VM | VG => List.length listed = f_nvars F | _ => True end) /\
    forall i l u, (i < f_nvars F)%nat ->
      nth_error (f_lb F) i = Some l -> nth_error (f_ub F) i = Some u ->
      match f_vk F with
      | VC => nth_error (f_vtypes F) i = Some TCont
      | VB => nth_error (f_vtypes F) i = Some TBin
      | VI => nth_error (f_vtypes F) i = Some (settle TInt l u)
      | VM | VG => forall t, nth_error listed i = Some t ->
                   nth_error (f_vtypes F) i = Some (settle t l u)
      end.
Proof.
  intros ls F H. pose proof (from_lines_spec ls) as S. rewrite H in S.
  destruct S as (_ & Hl & Hu & listed & Ht & Hn). split; [exact Hl|]. split; [exact Hu|].
  exists listed. split; [exact Hn|]. intros i l u Hi Hli Hui. rewrite Ht.
  apply resolve_types_spec; assumption.
Qed.

Theorem C19_errors_thm :
  (forall ls l k, from_lines ls = Err l k ->
     (k = EEof -> l = List.length ls) /\ (k <> EEof -> content ls l))
  /\ (forall ls l k, load ls = Failed l k -> from_lines ls = Err l k).
Proof.
  split.
  - intros ls l k H. pose proof (from_lines_spec ls) as S. rewrite H in S.
    unfold errok in S. split; intro E; [subst k; exact S|]. destruct k; try exact S. congruence.
  - intros ls l k. unfold load. destruct (from_lines ls) as [F|l' k'].
    + destruct (convert F); discriminate.
    + destruct k'; intro H; inversion H; subst; reflexivity.
Qed.

Theorem C19_constraint_sides_thm : forall F ins, convert F = Some ins ->
  Forall2 side_ok (i_cons ins) (spec_sides F).
Proof.
  intros F ins H. apply convert_fields in H. destruct H as (_ & _ & _ & H).
  apply constraint_sides. exact H.
Qed.

Theorem C19_infinity_thm :
  (forall t v, t <= qabs v -> thr_lo (Fin t) (Fin v) = NInf /\ thr_hi (Fin t) (Fin v) = PInf)
  /\ (forall t v, qabs v < t -> thr_lo (Fin t) (Fin v) = Fin v /\ thr_hi (Fin t) (Fin v) = Fin v)
  /\ (forall thr v, thr <> NaN -> v = PInf \/ v = NInf -> thr_lo thr v = NInf /\ thr_hi thr v = PInf)
  /\ (forall F ins i t l u, convert F = Some ins ->
        nth_error (zip3e (f_vtypes F) (f_lb F) (f_ub F)) i = Some (t, l, u) ->
        nth_error (i_vars ins) i
        = Some {| dv_id := N.of_nat i; dv_kind := t;
                  dv_lower := thr_lo (f_inf F) l; dv_upper := thr_hi (f_inf F) u;
                  dv_name := aget N.eqb (N.of_nat i) (f_vnames F) |}).
Proof.
  split; [exact thr_beyond|]. split; [exact thr_below|]. split; [exact thr_infinite|].
  intros F ins i t l u H Hn. apply convert_fields in H. destruct H as (_ & _ & -> & _).
  apply dvars_spec. exact Hn.
Qed.

Theorem C19_objective_inst : forall ls F ins, from_lines ls = Ok F -> convert F = Some ins ->
  i_sense ins = f_sense F /\
  forall rho, denote (i_obj ins) rho
  = offdiag_sum rho (f_q0 F) + diag_sum rho (f_q0 F) + lin_sum rho F + f_q0c F.
Proof.
  intros ls F ins H C. apply convert_fields in C. destruct C as (Hs & -> & _ & _).
  split; [exact Hs|]. apply (C19_objective_thm ls F H).
Qed.

(* the example of the QPLIB paper (Furini et al. 2019, pp. 42-43), as in the SDK's unit test *)
Definition mipband : list string := [
  "! ---------------"; "! example problem"; "! ---------------";
  "MIPBAND # problem name"; "QML # problem is a mixed-integer quadratic program";
  "Minimize # minimize the objective function"; "3 # variables";
  "2 # general linear constraints"; "5 # nonzeros in lower triangle of Q^0";
  "1 1 2.0 5 lines row & column index & value of nonzero in lower triangle Q^0";
  "2 1 -1.0 |"; "2 2 2.0 |"; "3 2 -1.0 |"; "3 3 2.0 |";
  "-0.2 default value for entries in b_0"; "1 # non default entries in b_0";
  "2 -0.4 1 line of index & value of non-default values in b_0"; "0.0 value of q^0";
  "4 # nonzeros in vectors b^i (i=1,...,m)";
  "1 1 1.0 4 lines constraint, index & value of nonzero in b^i (i=1,...,m)";
  "1 2 1.0 |"; "2 1 1.0 |"; "2 3 1.0 |"; "1.0E+20 infinity";
  "1.0 default value for entries in c_l"; "0 # non default entries in c_l";
  "1.0E+20 default value for entries in c_u"; "0 # non default entries in c_u";
  "0.0 default value for entries in l"; "0 # non default entries in l";
  "1.0 default value for entries in u"; "1 # non default entries in u";
  "2 2.0 1 line of non-default indices and values in u";
  "0 default variable type is continuous"; "1 # non default variable types";
  "3 2 variable 3 is binary"; "1.0 default value for initial values for x";
  "0 # non default entries in x"; "0.0 default value for initial values for y";
  "0 # non default entries in y"; "0.0 default value for initial values for z";
  "0 # non default entries in z"; "0 # non default names for variables";
  "0 # non default names for constraints" ]%string.
