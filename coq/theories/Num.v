(* Num.v — numbers of the model: canonical rationals [Qc], exact decoding of IEEE
   binary64 bit patterns, the literals the SDK compares against, extended numbers. *)
From Coq Require Export QArith Qcanon Qround ZArith NArith List Lia Lqa Bool.
From Coq Require Import Qcabs.  (* not exported: its [ x ] notation clashes with lists *)
Export ListNotations.

Notation num := Qc.
Open Scope Qc_scope.

(* ---- bridging Qc facts to Q so that lra / nra apply ---- *)
Lemma this_mult (a b : Qc) : (this (a * b) == this a * this b)%Q.
Proof. unfold Qcmult, Q2Qc; cbn [this]; apply Qred_correct. Qed.
Lemma this_plus (a b : Qc) : (this (a + b) == this a + this b)%Q.
Proof. unfold Qcplus, Q2Qc; cbn [this]; apply Qred_correct. Qed.
Lemma this_opp (a : Qc) : (this (- a) == - this a)%Q.
Proof. unfold Qcopp, Q2Qc; cbn [this]; apply Qred_correct. Qed.
Lemma this_minus (a b : Qc) : (this (a - b) == this a - this b)%Q.
Proof. unfold Qcminus. rewrite this_plus, this_opp. reflexivity. Qed.
Lemma this_0 : this 0 = 0%Q. Proof. reflexivity. Qed.
Lemma this_1 : this 1 = 1%Q. Proof. reflexivity. Qed.
Lemma this_Q2Qc q : (this (Q2Qc q) == q)%Q.
Proof. unfold Q2Qc; cbn [this]; apply Qred_correct. Qed.

Lemma Qc_eq_this (a b : Qc) : (this a == this b)%Q -> a = b.
Proof. intro H. apply Qc_is_canon. exact H. Qed.

(* push an order / equality goal or hypothesis on Qc down to Q *)
Ltac qc2q :=
  unfold Qcle, Qclt in *;
  repeat match goal with
  | H : @eq Qc ?a ?b |- _ =>
      let H' := fresh "Hq" in
      assert (H' : (this a == this b)%Q) by (rewrite H; reflexivity); clear H
  | H : ?a <> ?b :> Qc |- _ =>
      let H' := fresh "Hq" in
      assert (H' : ~ (this a == this b)%Q) by (intro; apply H; apply Qc_is_canon; assumption);
      clear H
  | |- @eq Qc _ _ => apply Qc_is_canon
  end;
  repeat (rewrite ?this_mult, ?this_plus, ?this_opp, ?this_minus in * );
  change (this 0) with 0%Q in *; change (this 1) with 1%Q in *.

(* ---- boolean comparisons ---- *)
Definition qeqb (a b : Qc) : bool := Qc_eq_bool a b.
Definition qleb (a b : Qc) : bool := Qle_bool a b.
Definition qltb (a b : Qc) : bool := negb (Qle_bool b a).

Lemma qeqb_eq a b : qeqb a b = true <-> a = b.
Proof.
  unfold qeqb; split; [apply Qc_eq_bool_correct|].
  intros ->. unfold Qc_eq_bool. destruct (Qc_eq_dec b b); congruence.
Qed.
Lemma qeqb_neq a b : qeqb a b = false <-> a <> b.
Proof.
  split; intro H.
  - intro E. apply qeqb_eq in E. congruence.
  - destruct (qeqb a b) eqn:E; [apply qeqb_eq in E; contradiction|reflexivity].
Qed.
Lemma qleb_le a b : qleb a b = true <-> a <= b.
Proof. unfold qleb, Qcle. apply Qle_bool_iff. Qed.
Lemma qleb_gt a b : qleb a b = false <-> b < a.
Proof.
  unfold qleb, Qclt.
  split; intro H.
  - destruct (Qlt_le_dec b a) as [L|L]; [exact L|]. apply Qle_bool_iff in L. congruence.
  - destruct (Qle_bool a b) eqn:E; [|reflexivity].
    apply Qle_bool_iff in E. exfalso. apply (Qlt_not_le _ _ H E).
Qed.
Lemma qltb_lt a b : qltb a b = true <-> a < b.
Proof. unfold qltb. rewrite negb_true_iff. apply (qleb_gt b a). Qed.
Lemma qltb_ge a b : qltb a b = false <-> b <= a.
Proof. unfold qltb. rewrite negb_false_iff. apply (qleb_le b a). Qed.

Definition qabs (a : Qc) : Qc := Qcabs a.
Definition qmin (a b : Qc) := if qleb a b then a else b.
Definition qmax (a b : Qc) := if qleb a b then b else a.

Lemma qabs_0 : qabs 0 = 0. Proof. apply Qc_is_canon; reflexivity. Qed.
Lemma qabs_le_0 a : qabs a <= 0 -> a = 0.
Proof.
  intro H. apply Qcabs_null. apply Qcle_antisym; [exact H|apply Qcabs_nonneg].
Qed.

(* ---- powers of two and decoding of binary64 ---- *)
Definition qpow2 (k : Z) : Q :=
  if (0 <=? k)%Z then inject_Z (2 ^ k) else (1 # Z.to_pos (2 ^ (- k)))%Q.
Definition q2 (k : Z) : Qc := Q2Qc (qpow2 k).

(* extended numbers: what an f64 can hold *)
Inductive ext := NInf | Fin (q : Qc) | PInf | NaN.

Definition two52 : Z := 4503599627370496.
Definition two63 : Z := 9223372036854775808.

(* exact value of the binary64 with raw bit pattern [bits] (0 <= bits < 2^64) *)
Definition f64_of_bits (bits : Z) : ext :=
  let s := (bits / two63)%Z in
  let e := ((bits / two52) mod 2048)%Z in
  let m := (bits mod two52)%Z in
  if (e =? 2047)%Z then
    (if (m =? 0)%Z then (if (s =? 0)%Z then PInf else NInf) else NaN)
  else
    let mag : Q :=
      if (e =? 0)%Z then (inject_Z m * qpow2 (-1074))%Q
      else (inject_Z (two52 + m) * qpow2 (e - 1075))%Q in
    Fin (Q2Qc (if (s =? 0)%Z then mag else (- mag)%Q)).

Definition fin_of_bits (bits : Z) : Qc :=
  match f64_of_bits bits with Fin q => q | _ => 0 end.

(* literals of the SDK, by their exact binary64 value *)
Definition eps : Qc := q2 (-52).                         (* f64::EPSILON *)
Definition tol6 : Qc := fin_of_bits 4517329193108106637.  (* 1e-6  = 0x3EB0C6F7A0B5ED8D *)
Definition tol7 : Qc := fin_of_bits 4502148214488346440.  (* 1e-7  = 0x3E7AD7F29ABCAF48 *)

Lemma eps_pos : 0 < eps. Proof. reflexivity. Qed.
Lemma tol6_pos : 0 < tol6. Proof. reflexivity. Qed.
Lemma tol7_pos : 0 < tol7. Proof. reflexivity. Qed.

(* the dropping test of the SDK: |c| <= f64::EPSILON, and the idealised one: c = 0 *)
Definition tiny_eps (c : Qc) : bool := qleb (qabs c) eps.
Definition tiny_0 (c : Qc) : bool := qeqb c 0.

(* "a tiny coefficient is really zero": the hypothesis under which the composite
   exactness theorems are stated; [tiny_0] satisfies it. *)
Definition tiny_exact (tiny : Qc -> bool) : Prop := forall c, tiny c = true -> c = 0.
Lemma tiny_0_exact : tiny_exact tiny_0.
Proof. intros c H. apply qeqb_eq in H. exact H. Qed.
(* every dropping test of the SDK drops exact zeros *)
Definition tiny_zero (tiny : Qc -> bool) : Prop := tiny 0 = true.
Lemma tiny_eps_zero : tiny_zero tiny_eps. Proof. reflexivity. Qed.
Lemma tiny_0_zero : tiny_zero tiny_0. Proof. reflexivity. Qed.

(* ---- extended arithmetic (IEEE-like on the four shapes) ---- *)
Definition eadd (a b : ext) : ext :=
  match a, b with
  | NaN, _ | _, NaN => NaN
  | PInf, NInf | NInf, PInf => NaN
  | PInf, _ | _, PInf => PInf
  | NInf, _ | _, NInf => NInf
  | Fin x, Fin y => Fin (x + y)
  end.
Definition eneg (a : ext) : ext :=
  match a with NaN => NaN | PInf => NInf | NInf => PInf | Fin x => Fin (- x) end.
Definition esign (a : ext) : Z :=   (* -1, 0, 1 ; NaN -> 0 *)
  match a with
  | NaN => 0 | PInf => 1 | NInf => -1
  | Fin x => if qltb 0 x then 1 else if qltb x 0 then -1 else 0
  end%Z.
Definition emul (a b : ext) : ext :=
  match a, b with
  | NaN, _ | _, NaN => NaN
  | Fin x, Fin y => Fin (x * y)
  | _, _ =>
      match (esign a * esign b)%Z with
      | Z0 => NaN
      | Zpos _ => PInf
      | Zneg _ => NInf
      end
  end.
(* Rust's f64::min / f64::max: a NaN operand is ignored *)
Definition eleb (a b : ext) : bool :=   (* a <= b, false if either is NaN *)
  match a, b with
  | NaN, _ | _, NaN => false
  | NInf, _ => true
  | _, PInf => true
  | Fin x, Fin y => qleb x y
  | _, _ => false
  end.
Definition eltb (a b : ext) : bool :=
  match a, b with
  | NaN, _ | _, NaN => false
  | _, _ => negb (eleb b a)
  end.
Definition eeqb (a b : ext) : bool :=   (* IEEE ==: NaN <> NaN *)
  match a, b with
  | NInf, NInf | PInf, PInf => true
  | Fin x, Fin y => qeqb x y
  | _, _ => false
  end.
Definition emin (a b : ext) : ext :=
  match a, b with
  | NaN, _ => b | _, NaN => a
  | _, _ => if eleb a b then a else b
  end.
Definition emax (a b : ext) : ext :=
  match a, b with
  | NaN, _ => b | _, NaN => a
  | _, _ => if eleb a b then b else a
  end.
Definition is_nan (a : ext) : bool := match a with NaN => true | _ => false end.
Definition is_fin (a : ext) : bool := match a with Fin _ => true | _ => false end.

(* floor / ceil of a rational as an integer *)
Definition qfloor (q : Qc) : Z := Qfloor q.
Definition qceil (q : Qc) : Z := Qceiling q.
Definition qz (z : Z) : Qc := Q2Qc (inject_Z z).

Lemma this_qz z : (this (qz z) == inject_Z z)%Q.
Proof. apply this_Q2Qc. Qed.
