(* SamplesCompose.v — C06 composite: reading sample k out of the evaluated sample set gives the
   objective, the per-constraint values (ids, equality kinds, metadata, removal reasons) and both
   feasibility flags of evaluating the state stored for k alone. *)
Require Import Ommx.Num Ommx.Poly Ommx.Msg Ommx.Eval Ommx.Tree Ommx.Inst Ommx.Samples Ommx.SamplesProofs.
From Coq Require Import String.
Close Scope string_scope.
Open Scope list_scope.
Open Scope Qc_scope.

Definition fval (f : function) (st : state) : option num :=
  match fn_eval f st with Some (v, _) => Some v | None => None end.

(* same record up to the used-id list *)
Definition same_ev (a b : evaluated) : Prop :=
  ev_id a = ev_id b /\ ev_eq a = ev_eq b /\ ev_value a = ev_value b /\ ev_meta a = ev_meta b /\
  ev_removed a = ev_removed b.

Lemma samples_map_keys f : forall S sv, samples_map f S = Some sv -> map fst (sv_iter sv) = samples_ids S.
Proof.
  induction S as [|[st ids] S IH]; intros sv H; cbn [samples_map] in H.
  - inversion H; subst. reflexivity.
  - destruct (f st) as [v|]; [|discriminate]. destruct (samples_map f S) as [r|] eqn:R; [|discriminate].
    inversion H; subst. unfold sv_iter, samples_ids. cbn [flat_map fst snd].
    rewrite map_app, map_map. cbn [fst]. rewrite map_id. f_equal. apply IH. reflexivity.
Qed.

Lemma sv_get_in : forall sv k v, sv_get sv k = Some v -> In (k, v) (sv_iter sv).
Proof.
  induction sv as [|[w ids] sv IH]; intros k v H; cbn [sv_get] in H; [discriminate|].
  unfold sv_iter. cbn [flat_map fst snd]. apply in_or_app.
  destruct (mem k ids) eqn:M.
  - inversion H; subst. left. apply in_map_iff. exists k. split; [reflexivity|apply mem_In; exact M].
  - right. apply IH. exact H.
Qed.

Lemma feas_map_keys eq : forall l fe, feas_map eq l = Some fe -> map fst fe = map fst l.
Proof.
  induction l as [|[k v] l IH]; intros fe H; cbn [feas_map] in H.
  - inversion H; reflexivity.
  - destruct (feas_of eq v) as [b|]; [|discriminate]. destruct (feas_map eq l) as [r|]; [|discriminate].
    inversion H; subst. cbn [map fst]. f_equal. apply IH. reflexivity.
Qed.
Lemma feas_map_in eq : forall l fe k v, feas_map eq l = Some fe -> In (k, v) l ->
  exists b, feas_of eq v = Some b /\ In (k, b) fe.
Proof.
  induction l as [|[j w] l IH]; intros fe k v H Hin; cbn [feas_map] in H; [contradiction|].
  destruct (feas_of eq w) as [b|] eqn:F; [|discriminate]. destruct (feas_map eq l) as [r|] eqn:R; [|discriminate].
  inversion H; subst. destruct Hin as [E|Hin].
  - inversion E; subst. exists b. split; [exact F|left; reflexivity].
  - destruct (IH r k v eq_refl Hin) as (b' & F' & I'). exists b'. split; [exact F'|right; exact I'].
Qed.

(* the marking fold: k becomes false iff some entry (k,false) is present, else unchanged *)
Lemma fold_mark k : forall (fe : list (N * bool)) m,
  bget (fold_left (fun (m0 : list (N * bool)) (kb : N * bool) => if snd kb then m0 else bset m0 (fst kb) false) fe m) k
  = if existsb (fun kb => (k =? fst kb)%N && negb (snd kb)) fe then Some false else bget m k.
Proof.
  induction fe as [|[j b] fe IH]; intro m; cbn [fold_left existsb fst snd]; [reflexivity|].
  rewrite IH. destruct (existsb _ fe) eqn:E; [rewrite orb_true_r; reflexivity|].
  rewrite orb_false_r. destruct b; cbn [negb].
  - rewrite andb_false_r. reflexivity.
  - rewrite andb_true_r. unfold bset. cbn [bget]. destruct (k =? j)%N; reflexivity.
Qed.
Lemma existsb_unique k b : forall fe : list (N * bool), NoDup (map fst fe) -> In (k, b) fe ->
  existsb (fun kb => (k =? fst kb)%N && negb (snd kb)) fe = negb b.
Proof.
  induction fe as [|[j c] fe IH]; intros ND Hin; [contradiction|].
  cbn [map fst] in ND. inversion ND as [|? ? Hn ND']; subst. cbn [existsb fst snd].
  destruct Hin as [E|Hin].
  - inversion E; subst. rewrite N.eqb_refl. cbn [andb].
    destruct (negb b) eqn:Nb; [reflexivity|]. cbn [orb].
    apply Bool.not_true_is_false. intro Ex. apply existsb_exists in Ex. destruct Ex as ([i d] & I1 & I2).
    cbn [fst snd] in I2. apply andb_prop in I2. destruct I2 as [I2 _]. apply N.eqb_eq in I2. subst i.
    apply Hn. apply in_map_iff. exists (k, d). split; [reflexivity|exact I1].
  - rewrite IH by assumption. destruct (k =? j)%N eqn:E; [|reflexivity].
    apply N.eqb_eq in E. subst j. exfalso. apply Hn. apply in_map_iff. exists (k, b). split; [reflexivity|exact Hin].
Qed.

Lemma omap_Forall2 {X} (g : X -> option evaluated) : forall (l : list X) (r : list evaluated),
  Forall2 (fun x e2 => exists e1, g x = Some e1 /\ same_ev e1 e2) l r ->
  exists evs, omap g l = Some evs /\ Forall2 same_ev evs r.
Proof.
  induction l as [|x l IH]; intros r F; inversion F as [|? e2 ? r' (e1 & G & Se) F']; subst.
  - exists []. split; [reflexivity|constructor].
  - destruct (IH r' F') as (evs & O & Fa). exists (e1 :: evs). split; [|constructor; assumption].
    cbn [omap obind]. rewrite G. cbn [obind]. rewrite O. reflexivity.
Qed.

Section Compose.
  Variable S : samples.
  Variable k : N.
  Variable st : state.
  Hypothesis ND : NoDup (samples_ids S).           (* sample ids are distinct *)
  Hypothesis Hk : samples_state S k = Some st.     (* st is the state stored for k *)

  (* what one sampled constraint must satisfy w.r.t. its single evaluation *)
  Definition agrees_at (sc : sampled_constr) (e2 : evaluated) : Prop :=
    sv_get (sc_values sc) k = Some (ev_value e2) /\ sc_id sc = ev_id e2 /\ sc_eq sc = ev_eq e2 /\
    sc_meta sc = ev_meta e2 /\ sc_removed sc = ev_removed e2.
  Definition good {X} (evs : X -> samples -> option sampled_constr) (ev : X -> state -> option evaluated) (x : X) :=
    forall sc, evs x S = Some sc ->
      map fst (sv_iter (sc_values sc)) = samples_ids S /\ forall e2, ev x st = Some e2 -> agrees_at sc e2.

  Lemma constr_good c : good constr_eval_samples constr_eval c.
  Proof.
    intros sc H. unfold constr_eval_samples in H.
    destruct (samples_map _ S) as [vals|] eqn:M; [|discriminate].
    destruct (feas_map (c_eq c) (sv_iter vals)) as [fe|]; [|discriminate].
    inversion H; subst sc; clear H. cbn [sc_values sc_id sc_eq sc_meta sc_removed]. split.
    - eapply samples_map_keys; eauto.
    - intros e2 E. unfold constr_eval in E.
      destruct (fn_eval (fn_or_zero (c_fn c)) st) as [[v ids]|] eqn:Fv; [|discriminate].
      inversion E; subst e2; clear E. unfold agrees_at; cbn.
      rewrite (sv_get_samples_map _ _ _ k M), Hk, Fv. repeat split; reflexivity.
  Qed.
  Lemma removed_good r : good removed_eval_samples removed_eval r.
  Proof.
    intros sc H. unfold removed_eval_samples in H. destruct (r_c r) as [c|] eqn:Rc; [|discriminate].
    destruct (constr_eval_samples c S) as [sc0|] eqn:E0; [|discriminate].
    inversion H; subst sc; clear H. cbn [sc_values sc_id sc_eq sc_meta sc_removed].
    destruct (constr_good c sc0 E0) as [K A]. split; [exact K|].
    intros e2 E. unfold removed_eval in E. rewrite Rc in E.
    destruct (constr_eval c st) as [e|] eqn:Ec; [|discriminate].
    inversion E; subst e2; clear E. destruct (A e eq_refl) as (A1 & A2 & A3 & A4 & _).
    unfold agrees_at; cbn. repeat split; assumption.
  Qed.

  Definition rel (sc : sampled_constr) (e2 : evaluated) : Prop :=
    exists e1, sc_get sc k = Some e1 /\ same_ev e1 e2.
  Lemma agrees_rel sc e2 : agrees_at sc e2 -> rel sc e2.
  Proof.
    intros (A1 & A2 & A3 & A4 & A5). unfold rel, sc_get. rewrite A1. eexists. split; [reflexivity|].
    unfold same_ev; cbn. repeat split; assumption.
  Qed.

  (* the two loops in lock step: the entry of k in the feasibility map is the sticky flag *)
  Lemma loops_compose {X} (evs : X -> samples -> option sampled_constr) (ev : X -> state -> option evaluated) :
    forall (l : list X) m acc1 flag acc2 m' r1 f2 r2,
      (forall x, In x l -> good evs ev x) -> bget m k = Some flag -> Forall2 rel acc1 acc2 ->
      eval_samples_loop evs l S m acc1 = Some (m', r1) ->
      eval_loop ev l st flag acc2 = Some (f2, r2) ->
      bget m' k = Some f2 /\ Forall2 rel r1 r2.
  Proof.
    induction l as [|x l IH]; intros m acc1 flag acc2 m' r1 f2 r2 G B A L1 L2;
      cbn [eval_samples_loop eval_loop] in L1, L2.
    - inversion L1; inversion L2; subst. split; assumption.
    - destruct (evs x S) as [sc|] eqn:Es; [|discriminate].
      destruct (mark_infeasible m sc) as [m1|] eqn:Mk; [|discriminate].
      destruct (ev x st) as [e|] eqn:Ee; [|discriminate].
      destruct (G x (or_introl eq_refl) sc Es) as [Keys Ag]. specialize (Ag e Ee).
      assert (A' : Forall2 rel (acc1 ++ [sc]) (acc2 ++ [e])).
      { apply Forall2_app; [exact A|constructor; [apply agrees_rel; exact Ag|constructor]]. }
      unfold mark_infeasible in Mk.
      destruct (feas_map (sc_eq sc) (sv_iter (sc_values sc))) as [fe|] eqn:Fm; [|discriminate].
      inversion Mk; subst m1; clear Mk.
      destruct Ag as (A1 & A2 & A3 & A4 & A5).
      destruct (feas_map_in _ _ _ k (ev_value e) Fm (sv_get_in _ _ _ A1)) as (b & Fb & Ib).
      assert (NDf : NoDup (map fst fe)).
      { rewrite (feas_map_keys _ _ _ Fm), Keys. exact ND. }
      assert (B' : bget (fold_left (fun (m0 : list (N * bool)) (kb : N * bool) => if snd kb then m0 else bset m0 (fst kb) false) fe m) k
                   = Some (flag && b)).
      { rewrite fold_mark, (existsb_unique k b fe NDf Ib), B. destruct b, flag; reflexivity. }
      assert (Fe : is_feasible e tol6 = Some b).
      { unfold is_feasible. rewrite <- A3. exact Fb. }
      destruct flag.
      + rewrite Fe in L2. cbn [andb] in B'. eapply IH; eauto. intros y Hy. apply G. right. exact Hy.
      + cbn [andb] in B'. eapply IH; eauto. intros y Hy. apply G. right. exact Hy.
  Qed.

  Lemma init_flag : bget (map (fun j => (j, true)) (samples_ids S)) k = Some true.
  Proof.
    assert (In k (samples_ids S)) as Hin.
    { clear ND. revert Hk. unfold samples_ids. induction S as [|[s ids] S' IH]; cbn [samples_state flat_map snd]; [discriminate|].
      destruct (mem k ids) eqn:M; intro H; apply in_or_app; [left; apply mem_In; exact M|right; apply IH; exact H]. }
    revert Hin. generalize (samples_ids S) as l. clear.
    induction l as [|j l IH]; intro Hin; [contradiction|]. cbn [map bget].
    destruct (k =? j)%N eqn:E; [reflexivity|]. apply IH. destruct Hin as [->|Hin]; [rewrite N.eqb_refl in E; discriminate|exact Hin].
  Qed.

  (* C06 composite (objective, constraints, flags) *)
  Theorem get_evaluate_samples I ss m1 m2 :
    inst_eval_samples I S = Some ss -> ss_get ss k = Some m1 -> inst_eval I st = Some m2 ->
    so_objective m1 = so_objective m2 /\ Forall2 same_ev (so_evaluated m1) (so_evaluated m2) /\
    so_feasible_relaxed m1 = so_feasible_relaxed m2 /\ so_feasible m1 = so_feasible m2 /\
    so_dvs m1 = so_dvs m2.
  Proof.
    unfold inst_eval_samples, inst_eval.
    destruct (eval_samples_loop constr_eval_samples (i_cs I) S _ []) as [[fr cs1]|] eqn:L1; [|discriminate].
    destruct (eval_samples_loop removed_eval_samples (i_rs I) S fr cs1) as [[fe cs2]|] eqn:L1'; [|discriminate].
    destruct (samples_map _ S) as [objs|] eqn:Mo; [|discriminate].
    destruct (complete_states I S) as [S'|]; [|discriminate].
    intro H; inversion H; subst ss; clear H.
    destruct (negb (check_bound (i_dvs I) st tol7)); [intros _ H; discriminate|].
    destruct (eval_loop constr_eval (i_cs I) st true []) as [[fr2 ev1]|] eqn:L2; [|intros _ H; discriminate].
    destruct (eval_loop removed_eval (i_rs I) st fr2 ev1) as [[fe2 ev2]|] eqn:L2'; [|intros _ H; discriminate].
    destruct (fn_eval (fn_or_zero (i_obj I)) st) as [[ob ids]|] eqn:Ob; [|intros _ H; discriminate].
    destruct (eval_deps (i_deps I) _) as [t1|]; [|intros _ H; discriminate].
    destruct (fill_vacant (i_dvs I) t1) as [t2|]; [|intros _ H; discriminate].
    intros G H2; inversion H2; subst m2; clear H2.
    destruct (loops_compose constr_eval_samples constr_eval _ _ _ _ _ _ _ _ _
                (fun x _ => constr_good x) init_flag (Forall2_nil _) L1 L2) as [Bfr F1].
    destruct (loops_compose removed_eval_samples removed_eval _ _ _ _ _ _ _ _ _
                (fun x _ => removed_good x) Bfr F1 L1' L2') as [Bfe F2].
    destruct (omap_Forall2 (fun sc => sc_get sc k) cs2 ev2 F2) as (evs & O & Fa).
    unfold ss_get in G. cbn [ss_constraints ss_dvs ss_objectives] in G. rewrite O in G.
    destruct (get_state _ k []) as [stk|]; [|discriminate].
    rewrite (sv_get_samples_map _ _ _ k Mo), Hk, Ob in G.
    unfold ss_relaxed_map, ss_unrelaxed_map in G. cbn [ss_feasible_relaxed ss_feasible ss_feasible_unrelaxed] in G.
    assert (Fr : fr <> []). { intro E; subst fr; cbn [bget] in Bfr; discriminate. }
    destruct fr as [|p fr']; [contradiction|].
    rewrite Bfr, Bfe in G. inversion G; subst m1; clear G.
    cbn [so_objective so_evaluated so_feasible_relaxed so_feasible so_dvs].
    repeat split; auto.
    rewrite map_map. cbn [sd_dv]. apply map_id.
  Qed.
End Compose.
