(* RunC03.v — correspondence runner for C03 at function level. *)
Require Import Ommx.Num Ommx.Poly Ommx.Msg Ommx.Eval Ommx.Tree Ommx.Arith Ommx.PEval Ommx.RunC02.
From Coq Require Import String.
Open Scope string_scope.

Definition fn_ids_of (f : function) : list N := flat_map fst (fn_terms f).
Definition state_keys (s : state) : list N := map fst s.
Definition disjoint_b (a b : list N) : bool := forallb (fun i => negb (mem i b)) a.

Definition e_function_terms (f : function) : tree := L [A (kind_tag_of f); e_terms (fn_terms f)].

(* first-match union, as HashMap::insert of s2 over s1 on disjoint keys *)
Definition sunion (s1 s2 : state) : state := (s1 ++ s2)%list.

Definition judge_pe (f : function) (s : state) (r : tree) : tree :=
  match fn_pe tiny_eps f s with
  | None => if is_err r then agree ["err"] else disagree "partial_evaluate must fail (array lengths differ)" (A "err")
  | Some (f', used) =>
      match ok_payload r with
      | Some (L [rf; rids]) =>
          match d_function rf, d_list d_N rids with
          | Some g, Some ids =>
              if negb (String.eqb (kind_tag_of g) (kind_tag_of f'))
              then disagree "variant of the result" (e_function_terms f')
              else if negb (poly_eqb (fn_terms g) (fn_terms f'))
              then disagree "partially evaluated function" (e_function_terms f')
              else if negb (disjoint_b (fn_ids_of g) (state_keys s))
              then disagree "a fixed variable still occurs" (e_function_terms f')
              else if negb (set_eqb ids used)
              then disagree "returned id set" (e_list e_N used)
              else if negb (subset ids (state_keys s) && subset ids (fn_ids_of f))
              then disagree "returned ids must be fixed variables that occur" (e_list e_N used)
              else agree ["pe"; kind_tag_of f;
                          match fn_pe tiny_0 f s with
                          | Some (f0, _) => if poly_eqb (fn_terms f0) (fn_terms f') then "exact" else "dropped-tiny"
                          | None => "?" end]
          | _, _ => badresult "partial_evaluate: result shape"
          end
      | _ => if is_err r || is_panic r then disagree "partial_evaluate must succeed" (e_function_terms f')
             else badresult "partial_evaluate: result shape"
      end
  end.

Definition eval_value (r : tree) : option num :=
  match ok_payload r with
  | Some (L [v; _]) => d_num v
  | _ => None
  end.

Definition judge_steps (f : function) (s1 s2 : state) (r : tree) : tree :=
  let s12 := sunion s1 s2 in
  match fn_pe tiny_eps f s12, fn_eval f s12 with
  | Some (f12, _), Some (v, _) =>
      match ok_payload r with
      | Some (L [ra; rb; rc; re1; re2]) =>
          match d_function ra, d_function rb, d_function rc, eval_value re1, eval_value re2 with
          | Some a, Some b, Some c, Some v1, Some v2 =>
              if negb (poly_eqb (fn_terms c) (fn_terms f12)) then disagree "pe at the union" (e_function_terms f12)
              else if negb (poly_eqb (fn_terms a) (fn_terms f12)) then disagree "two steps (s1 then s2) vs at once" (e_function_terms f12)
              else if negb (poly_eqb (fn_terms b) (fn_terms f12)) then disagree "two steps (s2 then s1) vs at once" (e_function_terms f12)
              else if negb (qeqb v1 v) then disagree "evaluate(pe f s1, s2) vs evaluate(f, s1 u s2)" (e_num v)
              else if negb (qeqb v2 v) then disagree "evaluate(f, s1 u s2)" (e_num v)
              else agree ["steps"; kind_tag_of f]
          | _, _, _, _, _ => disagree "pe then evaluate must succeed on a covering split" (e_num v)
          end
      | _ => if is_err r || is_panic r then disagree "pe / evaluate must succeed on a covering split" (e_num v)
             else badresult "pe_steps: result shape"
      end
  | _, _ => badcase "pe_steps: generator must give covering, well-formed inputs"
  end.

Definition run_C03 (case : tree) : tree :=
  match case with
  | L [A "partial_evaluate"; L [f; s]; r] =>
      match d_function f, d_state s with
      | Some f', Some s' => judge_pe f' s' r
      | _, _ => badcase "partial_evaluate: input"
      end
  | L [A "pe_steps"; L [f; s1; s2]; r] =>
      match d_function f, d_state s1, d_state s2 with
      | Some f', Some a, Some b =>
          if disjoint_b (state_keys a) (state_keys b) then judge_steps f' a b r
          else badcase "pe_steps: states must be disjoint"
      | _, _, _ => badcase "pe_steps: input"
      end
  | _ => badcase "C03: unknown op"
  end.
