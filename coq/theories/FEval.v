(* FEval.v — C01, the floating-point layer.  Evaluate::evaluate with every arithmetic operation
   followed by a rounding [rnd], in the order the Rust code performs them (evaluate.rs:66-80,
   113-137, 199-214), and the rounding-error theorem: for every rounding with relative error at
   most u, the rounded result is within ((1+u)^K - 1) * (sum of |coefficient| * prod |value|) of the
   exact value, K = number of terms + largest number of factors of a term. *)
Require Import Ommx.Num Ommx.Poly Ommx.Msg Ommx.Eval.
From Coq Require Qcabs.

Section FloatEval.
  Variable rnd : num -> num.

  Definition fadd (a b : num) : num := rnd (a + b).
  Definition fmul (a b : num) : num := rnd (a * b).

  Fixpoint flin_loop (ts : list (N * num)) (s : state) (sum : num) : option num :=
    match ts with
    | [] => Some sum
    | (i, c) :: ts' =>
        match sget s i with
        | None => None
        | Some x => flin_loop ts' s (fadd sum (fmul c x))
        end
    end.
  Definition flin_eval (l : linear) (s : state) := flin_loop (l_terms l) s (l_const l).

  Fixpoint fquad_loop (z : list (N * N * num)) (s : state) (sum : num) : option num :=
    match z with
    | [] => Some sum
    | (i, j, x) :: z' =>
        match sget s i, sget s j with
        | Some a, Some b => fquad_loop z' s (fadd sum (fmul (fmul x a) b))
        | _, _ => None
        end
    end.
  Definition fquad_eval (q : quadratic) (s : state) : option num :=
    match (match q_lin q with Some l => flin_eval l s | None => Some 0 end) with
    | None => None
    | Some sum => fquad_loop (zip3 (q_rows q) (q_cols q) (q_vals q)) s sum
    end.

  Fixpoint fmono_loop (ids : list N) (s : state) (v : num) : option num :=
    match ids with
    | [] => Some v
    | i :: ids' =>
        match sget s i with
        | None => None
        | Some x => fmono_loop ids' s (fmul v x)
        end
    end.
  Fixpoint fpoly_loop (p : polynomial) (s : state) (sum : num) : option num :=
    match p with
    | [] => Some sum
    | (ids, c) :: p' =>
        match fmono_loop ids s c with
        | None => None
        | Some v => fpoly_loop p' s (fadd sum v)
        end
    end.
  Definition fpoly_eval (p : polynomial) (s : state) := fpoly_loop p s 0.

  Definition ffn_eval (f : function) (s : state) : option num :=
    match f with
    | FUnset => Some 0
    | FConst c => Some c
    | FLin l => flin_eval l s
    | FQuad q => fquad_eval q s
    | FPoly p => fpoly_eval p s
    end.
End FloatEval.

(* ---------------- magnitude and operation count of an evaluation ---------------- *)
Definition sabs (s : state) (i : N) : num := match sget s i with Some x => qabs x | None => 0 end.

Fixpoint lin_mag (ts : list (N * num)) (s : state) : num :=
  match ts with [] => 0 | (i, c) :: ts' => qabs c * sabs s i + lin_mag ts' s end.
Fixpoint quad_mag (z : list (N * N * num)) (s : state) : num :=
  match z with [] => 0 | (i, j, x) :: z' => qabs x * sabs s i * sabs s j + quad_mag z' s end.
Fixpoint mono_mag (ids : list N) (s : state) : num :=
  match ids with [] => 1 | i :: ids' => sabs s i * mono_mag ids' s end.
Fixpoint poly_mag (p : polynomial) (s : state) : num :=
  match p with [] => 0 | (ids, c) :: p' => qabs c * mono_mag ids s + poly_mag p' s end.
Fixpoint max_deg (p : polynomial) : nat :=
  match p with [] => O | (ids, _) :: p' => Nat.max (List.length ids) (max_deg p') end.

Definition fn_mag (f : function) (s : state) : num :=
  match f with
  | FUnset => 0
  | FConst c => qabs c
  | FLin l => qabs (l_const l) + lin_mag (l_terms l) s
  | FQuad q =>
      (match q_lin q with Some l => qabs (l_const l) + lin_mag (l_terms l) s | None => 0 end)
      + quad_mag (zip3 (q_rows q) (q_cols q) (q_vals q)) s
  | FPoly p => poly_mag p s
  end.
(* number of roundings on the longest path to the result *)
Definition fn_ops (f : function) : nat :=
  match f with
  | FUnset | FConst _ => O
  | FLin l => 1 + List.length (l_terms l)
  | FQuad q =>
      2 + (match q_lin q with Some l => List.length (l_terms l) | None => O end)
        + List.length (zip3 (q_rows q) (q_cols q) (q_vals q))
  | FPoly p => max_deg p + List.length p
  end.

(* the two arithmetic facts behind the error analysis, over Q *)
Lemma mul_step_Q (e a xa r pa g lhs T u : Q) :
  (0 <= u -> 1 <= g -> 0 <= xa -> 0 <= a -> 0 <= e -> e <= (g - 1) * T -> a <= T ->
   r <= u * (pa * xa) -> pa <= e + a -> lhs <= r + e * xa ->
   lhs <= ((1 + u) * g - 1) * (T * xa))%Q.
Proof.
  intros U G X A E H1 H2 R Hp Hd.
  assert (P1 : (pa * xa <= g * T * xa)%Q) by nra.
  assert (P2 : (e * xa <= (g - 1) * T * xa)%Q) by nra.
  assert (P3 : (u * (pa * xa) <= u * (g * T * xa))%Q) by nra.
  nra.
Qed.
Lemma add_step_Q (e1 e2 a b z r gk gd lhs A T u : Q) :
  (0 <= u -> 1 <= gd -> gd <= gk -> 0 <= a -> 0 <= b -> 0 <= e1 -> 0 <= e2 ->
   e1 <= (gk - 1) * A -> a <= A -> e2 <= (gd - 1) * T -> b <= T ->
   r <= u * z -> z <= e1 + a + (e2 + b) -> lhs <= r + (e1 + e2) ->
   lhs <= ((1 + u) * gk - 1) * (A + T))%Q.
Proof.
  intros U G1 G2 A0 B0 E1 E2 H1 H2 H3 H4 R Hz Hd.
  assert (T0 : (0 <= T)%Q) by lra. assert (A1 : (0 <= A)%Q) by lra.
  assert (P0 : (e2 <= (gk - 1) * T)%Q) by nra.
  assert (P1 : (z <= gk * (A + T))%Q) by nra.
  assert (P2 : (u * z <= u * (gk * (A + T)))%Q) by nra.
  nra.
Qed.

Section Bound.
  Variable rnd : num -> num.
  Variable u : num.
  Hypothesis u_nonneg : 0 <= u.
  (* the standard model of rounding: relative error at most u (no underflow, no overflow) *)
  Hypothesis rnd_err : forall z, qabs (rnd z - z) <= u * qabs z.

  Fixpoint gpow (k : nat) : num := match k with O => 1 | S k' => (1 + u) * gpow k' end.

  Lemma gpow_ge1 k : 1 <= gpow k.
  Proof. induction k as [|k IH]; cbn [gpow]; [apply Qcle_refl|]. qc2q. nra. Qed.
  Lemma gpow_S_le k : gpow k <= gpow (S k).
  Proof. pose proof (gpow_ge1 k). cbn [gpow]. qc2q. nra. Qed.
  Lemma gpow_mono k k' : (k <= k')%nat -> gpow k <= gpow k'.
  Proof.
    induction 1 as [|m _ IH]; [apply Qcle_refl|]. eapply Qcle_trans; [exact IH|apply gpow_S_le].
  Qed.

  Lemma qabs_nonneg x : 0 <= qabs x. Proof. apply Qcabs.Qcabs_nonneg. Qed.
  Lemma qabs_mul x y : qabs (x * y) = qabs x * qabs y. Proof. apply Qcabs.Qcabs_Qcmult. Qed.
  Lemma qabs_tri x y : qabs (x + y) <= qabs x + qabs y. Proof. apply Qcabs.Qcabs_triangle. Qed.

  (* one rounded multiplication by an exactly known factor *)
  Lemma mul_step ph t T x D :
    qabs (ph - t) <= (gpow D - 1) * T -> qabs t <= T ->
    qabs (fmul rnd ph x - t * x) <= (gpow (S D) - 1) * (T * qabs x) /\ qabs (t * x) <= T * qabs x.
  Proof.
    intros H1 H2. unfold fmul.
    pose proof (rnd_err (ph * x)) as R. pose proof (gpow_ge1 D) as G1.
    pose proof (qabs_nonneg x) as X0. pose proof (qabs_nonneg t) as T0.
    pose proof (qabs_nonneg (ph - t)) as E0.
    assert (Hp : qabs ph <= qabs (ph - t) + qabs t).
    { replace ph with ((ph - t) + t) at 1 by ring. apply qabs_tri. }
    assert (Hd : qabs (rnd (ph * x) - t * x) <= qabs (rnd (ph * x) - ph * x) + qabs (ph - t) * qabs x).
    { replace (rnd (ph * x) - t * x) with ((rnd (ph * x) - ph * x) + (ph - t) * x) by ring.
      rewrite <- qabs_mul. apply qabs_tri. }
    rewrite qabs_mul in R. rewrite (qabs_mul t x). cbn [gpow].
    set (e := qabs (ph - t)) in *. set (a := qabs t) in *. set (xa := qabs x) in *.
    set (r := qabs (rnd (ph * x) - ph * x)) in *. set (pa := qabs ph) in *.
    set (g := gpow D) in *. set (lhs := qabs (rnd (ph * x) - t * x)) in *.
    clearbody e a xa r pa g lhs. clear rnd_err.
    split.
    - qc2q. apply (mul_step_Q (this e) (this a) (this xa) (this r) (this pa) (this g) (this lhs) (this T) (this u));
        assumption.
    - qc2q. nra.
  Qed.

  (* one rounded addition of a rounded term *)
  Lemma add_step sh s A ph t T k D :
    qabs (sh - s) <= (gpow k - 1) * A -> qabs s <= A ->
    qabs (ph - t) <= (gpow D - 1) * T -> qabs t <= T -> (D <= k)%nat ->
    qabs (fadd rnd sh ph - (s + t)) <= (gpow (S k) - 1) * (A + T) /\ qabs (s + t) <= A + T.
  Proof.
    intros H1 H2 H3 H4 Hk. unfold fadd.
    pose proof (rnd_err (sh + ph)) as R. pose proof (gpow_ge1 D) as G1. pose proof (gpow_mono _ _ Hk) as G2.
    pose proof (qabs_nonneg s) as S0. pose proof (qabs_nonneg t) as T0.
    pose proof (qabs_nonneg (sh - s)) as E1. pose proof (qabs_nonneg (ph - t)) as E2.
    assert (Hz : qabs (sh + ph) <= qabs (sh - s) + qabs s + (qabs (ph - t) + qabs t)).
    { replace (sh + ph) with (((sh - s) + s) + ((ph - t) + t)) by ring.
      eapply Qcle_trans; [apply qabs_tri|]. apply Qcplus_le_compat; apply qabs_tri. }
    assert (Hd : qabs (rnd (sh + ph) - (s + t)) <= qabs (rnd (sh + ph) - (sh + ph)) + (qabs (sh - s) + qabs (ph - t))).
    { replace (rnd (sh + ph) - (s + t)) with ((rnd (sh + ph) - (sh + ph)) + ((sh - s) + (ph - t))) by ring.
      eapply Qcle_trans; [apply qabs_tri|]. apply Qcplus_le_compat; [apply Qcle_refl|apply qabs_tri]. }
    pose proof (qabs_tri s t) as Hst. cbn [gpow].
    set (e1 := qabs (sh - s)) in *. set (e2 := qabs (ph - t)) in *. set (a := qabs s) in *. set (b := qabs t) in *.
    set (z := qabs (sh + ph)) in *. set (r := qabs (rnd (sh + ph) - (sh + ph))) in *.
    set (gk := gpow k) in *. set (gd := gpow D) in *. set (lhs := qabs (rnd (sh + ph) - (s + t))) in *.
    set (st := qabs (s + t)) in *.
    clearbody e1 e2 a b z r gk gd lhs st. clear rnd_err.
    split.
    - qc2q. apply (add_step_Q (this e1) (this e2) (this a) (this b) (this z) (this r) (this gk) (this gd)
                     (this lhs) (this A) (this T) (this u)); assumption.
    - qc2q. lra.
  Qed.

  Lemma qabs_self x : qabs (x - x) = 0.
  Proof. replace (x - x) with 0 by ring. apply qabs_0. Qed.
  Lemma gap_nonneg k A : 0 <= A -> 0 <= (gpow k - 1) * A.
  Proof. intro H. pose proof (gpow_ge1 k). qc2q. nra. Qed.
  Lemma exact_start x k : qabs (x - x) <= (gpow k - 1) * qabs x.
  Proof. rewrite qabs_self. apply gap_nonneg. apply qabs_nonneg. Qed.

  Lemma sabs_get s i x : sget s i = Some x -> sabs s i = qabs x.
  Proof. unfold sabs. intros ->. reflexivity. Qed.

  Lemma flin_loop_bound s : forall ts sh sm A k used vh v ids,
    qabs (sh - sm) <= (gpow k - 1) * A -> qabs sm <= A -> (1 <= k)%nat ->
    flin_loop rnd ts s sh = Some vh -> lin_eval_loop ts s sm used = Some (v, ids) ->
    qabs (vh - v) <= (gpow (k + List.length ts) - 1) * (A + lin_mag ts s) /\ qabs v <= A + lin_mag ts s.
  Proof.
    induction ts as [|[i c] ts IH]; intros sh sm A k used vh v ids H1 H2 Hk F E;
      cbn [flin_loop lin_eval_loop List.length lin_mag] in *.
    - inversion F; inversion E; subst. rewrite Nat.add_0_r, Qcplus_0_r. split; assumption.
    - destruct (sget s i) as [x|] eqn:G; [|discriminate]. rewrite (sabs_get _ _ _ G).
      destruct (mul_step c c (qabs c) x 0 (exact_start c 0) (Qcle_refl _)) as [M1 M2].
      destruct (add_step sh sm A (fmul rnd c x) (c * x) (qabs c * qabs x) k 1 H1 H2 M1 M2 Hk) as [A1 A2].
      destruct (IH _ _ _ (S k) _ _ _ _ A1 A2 (le_S _ _ Hk) F E) as [R1 R2].
      rewrite <- Nat.add_succ_comm, Qcplus_assoc. split; assumption.
  Qed.

  Lemma fquad_loop_bound s : forall z sh sm A k used vh v ids,
    qabs (sh - sm) <= (gpow k - 1) * A -> qabs sm <= A -> (2 <= k)%nat ->
    fquad_loop rnd z s sh = Some vh -> quad_eval_loop z s sm used = Some (v, ids) ->
    qabs (vh - v) <= (gpow (k + List.length z) - 1) * (A + quad_mag z s) /\ qabs v <= A + quad_mag z s.
  Proof.
    induction z as [|[[i j] x] z IH]; intros sh sm A k used vh v ids H1 H2 Hk F E;
      cbn [fquad_loop quad_eval_loop List.length quad_mag] in *.
    - inversion F; inversion E; subst. rewrite Nat.add_0_r, Qcplus_0_r. split; assumption.
    - destruct (sget s i) as [a|] eqn:Gi; [|discriminate].
      destruct (sget s j) as [b|] eqn:Gj; [|discriminate].
      rewrite (sabs_get _ _ _ Gi), (sabs_get _ _ _ Gj).
      destruct (mul_step x x (qabs x) a 0 (exact_start x 0) (Qcle_refl _)) as [M1 M2].
      destruct (mul_step _ _ _ b 1 M1 M2) as [N1 N2].
      destruct (add_step sh sm A _ _ _ k 2 H1 H2 N1 N2 Hk) as [A1 A2].
      destruct (IH _ _ _ (S k) _ _ _ _ A1 A2 (le_S _ _ Hk) F E) as [R1 R2].
      rewrite <- Nat.add_succ_comm, Qcplus_assoc. split; assumption.
  Qed.

  Lemma fmono_loop_bound s : forall ids ph t T D used vh v out,
    qabs (ph - t) <= (gpow D - 1) * T -> qabs t <= T ->
    fmono_loop rnd ids s ph = Some vh -> mono_eval_loop ids s t used = Some (v, out) ->
    qabs (vh - v) <= (gpow (D + List.length ids) - 1) * (T * mono_mag ids s) /\ qabs v <= T * mono_mag ids s.
  Proof.
    induction ids as [|i ids IH]; intros ph t T D used vh v out H1 H2 F E;
      cbn [fmono_loop mono_eval_loop List.length mono_mag] in *.
    - inversion F; inversion E; subst. rewrite Nat.add_0_r, Qcmult_1_r. split; assumption.
    - destruct (sget s i) as [x|] eqn:G; [|discriminate]. rewrite (sabs_get _ _ _ G).
      destruct (mul_step ph t T x D H1 H2) as [M1 M2].
      destruct (IH _ _ _ (S D) _ _ _ _ M1 M2 F E) as [R1 R2].
      rewrite <- Nat.add_succ_comm.
      replace (T * (qabs x * mono_mag ids s)) with (T * qabs x * mono_mag ids s) by ring. split; assumption.
  Qed.

  Lemma fpoly_loop_bound s : forall p sh sm A k used vh v ids,
    qabs (sh - sm) <= (gpow k - 1) * A -> qabs sm <= A -> (max_deg p <= k)%nat ->
    fpoly_loop rnd p s sh = Some vh -> poly_eval_loop p s sm used = Some (v, ids) ->
    qabs (vh - v) <= (gpow (k + List.length p) - 1) * (A + poly_mag p s) /\ qabs v <= A + poly_mag p s.
  Proof.
    induction p as [|[m c] p IH]; intros sh sm A k used vh v ids H1 H2 Hk F E;
      cbn [fpoly_loop poly_eval_loop List.length poly_mag max_deg] in *.
    - inversion F; inversion E; subst. rewrite Nat.add_0_r, Qcplus_0_r. split; assumption.
    - destruct (fmono_loop rnd m s c) as [wh|] eqn:Fm; [|discriminate].
      destruct (mono_eval_loop m s c used) as [[w used']|] eqn:Em; [|discriminate].
      destruct (fmono_loop_bound s m c c (qabs c) 0 used wh w used' (exact_start c 0) (Qcle_refl _) Fm Em) as [M1 M2].
      cbn [plus] in M1.
      assert (Hd : (List.length m <= k)%nat) by lia.
      destruct (add_step sh sm A wh w _ k _ H1 H2 M1 M2 Hd) as [A1 A2].
      assert (Hk' : (max_deg p <= S k)%nat) by lia.
      destruct (IH _ _ _ (S k) _ _ _ _ A1 A2 Hk' F E) as [R1 R2].
      rewrite <- Nat.add_succ_comm, Qcplus_assoc. split; assumption.
  Qed.

  (* C01, rounding clause *)
  Theorem ffn_eval_bound f s vh v ids :
    ffn_eval rnd f s = Some vh -> fn_eval f s = Some (v, ids) ->
    qabs (vh - v) <= (gpow (fn_ops f) - 1) * fn_mag f s.
  Proof.
    destruct f as [|c|l|q|p]; cbn [ffn_eval fn_eval fn_ops fn_mag]; intros F E.
    - inversion F; inversion E; subst. rewrite qabs_self. apply gap_nonneg. apply Qcle_refl.
    - inversion F; inversion E; subst. apply exact_start.
    - unfold flin_eval in F. unfold lin_eval in E.
      destruct (flin_loop_bound s _ _ _ (qabs (l_const l)) 1 _ _ _ _ (exact_start _ 1) (Qcle_refl _) (le_n 1) F E) as [R _].
      exact R.
    - unfold fquad_eval in F. unfold quad_eval in E.
      destruct (q_lin q) as [l|].
      + destruct (flin_eval rnd l s) as [sh|] eqn:Fl; [|discriminate].
        destruct (lin_eval l s) as [[sm used]|] eqn:El; [|discriminate].
        unfold flin_eval in Fl. unfold lin_eval in El.
        destruct (flin_loop_bound s _ _ _ (qabs (l_const l)) 2 _ _ _ _ (exact_start _ 2) (Qcle_refl _) (le_S _ _ (le_n 1)) Fl El) as [R1 R2].
        assert (Hk : (2 <= 2 + List.length (l_terms l))%nat) by lia.
        destruct (fquad_loop_bound s _ _ _ _ _ _ _ _ _ R1 R2 Hk F E) as [R _]. exact R.
      + assert (S0 : qabs (0 - 0) <= (gpow 2 - 1) * 0).
        { rewrite qabs_self. apply gap_nonneg. apply Qcle_refl. }
        assert (S1 : qabs 0 <= 0) by (rewrite qabs_0; apply Qcle_refl).
        destruct (fquad_loop_bound s _ _ _ _ _ _ _ _ _ S0 S1 (le_n 2) F E) as [R _].
        rewrite Nat.add_0_r. exact R.
    - unfold fpoly_eval in F. unfold poly_eval in E.
      assert (S0 : qabs (0 - 0) <= (gpow (max_deg p) - 1) * 0).
      { rewrite qabs_self. apply gap_nonneg. apply Qcle_refl. }
      assert (S1 : qabs 0 <= 0) by (rewrite qabs_0; apply Qcle_refl).
      destruct (fpoly_loop_bound s _ _ _ _ _ _ _ _ _ S0 S1 (le_n _) F E) as [R _].
      rewrite Qcplus_0_l in R. exact R.
  Qed.
End Bound.
