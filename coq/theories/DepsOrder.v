(* DepsOrder.v — C04: the dependency pass (eval_dependencies, evaluate.rs:510-539) is independent of
   the iteration order of the dependency map and complete: it succeeds exactly when SOME order
   exists in which the dependencies can be evaluated one after the other, and all successful runs
   report the same values. *)
Require Import Ommx.Num Ommx.Poly Ommx.Msg Ommx.Eval Ommx.Tree Ommx.Inst Ommx.InstProofs Ommx.Subst Ommx.SubstProofs.
From Coq Require Import Permutation Lia.
Close Scope string_scope.
Open Scope list_scope.

(* the dependencies of l can be evaluated one after the other from s, ending in s' *)
Inductive seq_ok : state -> list (N * function) -> state -> Prop :=
| seq_nil s : seq_ok s [] s
| seq_cons s d f v ids l s' : sget s d = None -> fn_eval f s = Some (v, ids) ->
    seq_ok (sset s d v) l s' -> seq_ok s ((d, f) :: l) s'.

Lemma seq_ok_app a l1 b l2 c : seq_ok a l1 b -> seq_ok b l2 c -> seq_ok a (l1 ++ l2) c.
Proof. induction 1 as [|s d f v ids l s' Hn E _ IH]; intro H2; cbn [app]; [exact H2|]. econstructor; eauto. Qed.
Lemma seq_ok_sext a l b : seq_ok a l b -> sext a b.
Proof.
  induction 1 as [|s d f v ids l s' Hn E _ IH]; [apply sext_refl|].
  eapply sext_trans; [apply sext_sset; exact Hn|exact IH].
Qed.
Lemma seq_ok_keys a l b : seq_ok a l b -> forall d, In d (dkeys l) -> sget b d <> None.
Proof.
  induction 1 as [|s d f v ids l s' Hn E H IH]; intros d0 Hd; [destruct Hd|].
  destruct Hd as [<-|Hd]; [|apply IH; exact Hd].
  cbn [fst]. pose proof (seq_ok_sext _ _ _ H d v) as X. rewrite sget_sset, N.eqb_refl in X.
  rewrite (X eq_refl). discriminate.
Qed.
Lemma seq_ok_dom a l b : seq_ok a l b -> forall i, sget b i <> None -> sget a i <> None \/ In i (dkeys l).
Proof.
  induction 1 as [|s d f v ids l s' Hn E H IH]; intros i Hi; [left; exact Hi|].
  destruct (IH i Hi) as [H1|H1].
  - rewrite sget_sset in H1. destruct (i =? d)%N eqn:Ei.
    + apply N.eqb_eq in Ei. subst. right. left. reflexivity.
    + left. exact H1.
  - right. right. exact H1.
Qed.
Lemma seq_ok_solved a l b : seq_ok a l b -> solved l b.
Proof.
  induction 1 as [|s d f v ids l s' Hn E H IH]; intros d0 f0 Hin; [destruct Hin|].
  destruct Hin as [Eq|Hin]; [|apply IH; exact Hin].
  inversion Eq; subst d0 f0. pose proof (seq_ok_sext _ _ _ H) as X. exists v, ids. split.
  - apply X. rewrite sget_sset, N.eqb_refl. reflexivity.
  - eapply fn_eval_mono; [|exact E]. eapply sext_trans; [apply sext_sset; exact Hn|exact X].
Qed.
(* any solution of the dependencies that extends the start extends the whole run *)
Lemma seq_ok_below a l b : seq_ok a l b -> forall s2, sext a s2 -> solved l s2 -> sext b s2.
Proof.
  induction 1 as [|s d f v ids l s' Hn E H IH]; intros s2 X S2; [exact X|].
  apply IH.
  - destruct (S2 d f (or_introl eq_refl)) as (v' & ids' & G & E').
    rewrite (fn_eval_mono _ _ _ _ X E) in E'. inversion E'; subst v' ids'.
    intros i w. rewrite sget_sset. destruct (i =? d)%N eqn:Ei.
    + apply N.eqb_eq in Ei. subst i. intro H0. inversion H0; subst. exact G.
    + apply X.
  - intros d0 f0 Hin. apply S2. right. exact Hin.
Qed.

Lemma solved_perm a b s : Permutation a b -> solved a s -> solved b s.
Proof. intros P S d f Hin. apply S. eapply Permutation_in; [apply Permutation_sym; exact P|exact Hin]. Qed.

Lemma nodup_keys_fun (l : list (N * function)) d f f' :
  NoDup (dkeys l) -> In (d, f) l -> In (d, f') l -> f = f'.
Proof.
  induction l as [|[e g] l IH]; intros ND H1 H2; [destruct H1|].
  cbn [dkeys map fst] in ND. inversion ND as [|? ? Hn ND']; subst.
  destruct H1 as [E1|H1], H2 as [E2|H2].
  - congruence.
  - inversion E1; subst. exfalso. apply Hn. apply in_map_iff. exists (d, f'). split; [reflexivity|exact H2].
  - inversion E2; subst. exfalso. apply Hn. apply in_map_iff. exists (d, f). split; [reflexivity|exact H1].
  - apply IH; assumption.
Qed.
Lemma in_dkeys (l : list (N * function)) d : In d (dkeys l) -> exists f, In (d, f) l.
Proof. intro H. apply in_map_iff in H. destruct H as ([e f] & E & I). cbn in E. subst. exists f. exact I. Qed.
Lemma dkeys_in (l : list (N * function)) d f : In (d, f) l -> In d (dkeys l).
Proof. intro H. apply in_map_iff. exists (d, f). split; [reflexivity|exact H]. Qed.

(* ---------------- one pass, with its trace ---------------- *)
Lemma round_trace : forall b s failed s' failed',
  NoDup (dkeys b) -> (forall d, In d (dkeys b) -> sget s d = None) ->
  deps_round b s failed = (s', failed') ->
  exists done' rest, failed' = failed ++ rest /\ seq_ok s done' s' /\ Permutation b (done' ++ rest).
Proof.
  induction b as [|[d f] b IH]; intros s failed s' failed' ND FR H; cbn [deps_round] in H.
  - inversion H; subst. exists [], []. rewrite app_nil_r. repeat split; constructor.
  - cbn [dkeys map fst] in ND. inversion ND as [|? ? Hn ND']; subst.
    destruct (fn_eval f s) as [[v ids]|] eqn:E.
    + assert (Fd : sget s d = None) by (apply FR; left; reflexivity).
      destruct (IH (sset s d v) failed s' failed' ND') as (done' & rest & Hf & Ht & Hp); auto.
      * intros d' Hd'. rewrite sget_sset. destruct (d' =? d)%N eqn:Ed; [apply N.eqb_eq in Ed; subst; contradiction|].
        apply FR. right. exact Hd'.
      * exists ((d, f) :: done'), rest. split; [exact Hf|]. split; [econstructor; eauto|].
        cbn [app]. constructor. exact Hp.
    + destruct (IH s (failed ++ [(d, f)]) s' failed' ND') as (done' & rest & Hf & Ht & Hp); auto.
      * intros d' Hd'. apply FR. right. exact Hd'.
      * exists done', ((d, f) :: rest). split; [rewrite Hf, <- app_assoc; reflexivity|]. split; [exact Ht|].
        apply Permutation_cons_app. exact Hp.
Qed.

(* a pass without progress: every dependency of the bucket fails in the (unchanged) state *)
Lemma round_stall : forall b s failed s' failed',
  deps_round b s failed = (s', failed') ->
  List.length failed' = (List.length failed + List.length b)%nat ->
  forall d f, In (d, f) b -> fn_eval f s = None.
Proof.
  induction b as [|[d f] b IH]; intros s failed s' failed' H L d0 f0 Hin; [destruct Hin|].
  cbn [deps_round] in H. cbn [List.length] in L.
  destruct (fn_eval f s) as [[v ids]|] eqn:E.
  - apply deps_round_length in H. lia.
  - destruct Hin as [Eq|Hin]; [inversion Eq; subst; exact E|].
    eapply IH; [exact H| |exact Hin]. rewrite app_length. cbn [List.length]. lia.
Qed.

(* ---------------- trace of a successful run ---------------- *)
Lemma fuel_trace : forall fuel bucket last t t',
  NoDup (dkeys bucket) -> (forall d, In d (dkeys bucket) -> sget t d = None) ->
  eval_deps_fuel fuel bucket last t = Some t' ->
  exists o, Permutation o bucket /\ seq_ok t o t'.
Proof.
  induction fuel as [|fuel IH]; intros bucket last t t' ND FR H; cbn [eval_deps_fuel] in H; [discriminate|].
  destruct (deps_round (rev bucket) t []) as [t1 failed] eqn:Rd.
  assert (NDr : NoDup (dkeys (rev bucket))).
  { eapply Permutation_NoDup; [apply perm_dkeys; apply Permutation_rev|exact ND]. }
  assert (FRr : forall d, In d (dkeys (rev bucket)) -> sget t d = None).
  { intros d Hd. apply FR. eapply Permutation_in; [apply Permutation_sym; apply perm_dkeys; apply Permutation_rev|exact Hd]. }
  destruct (round_trace _ _ _ _ _ NDr FRr Rd) as (done' & rest & Hf & Ht & Hp). cbn [app] in Hf. subst failed.
  assert (Pb : Permutation bucket (done' ++ rest)) by (eapply perm_trans; [apply Permutation_rev|exact Hp]).
  destruct rest as [|r0 rest].
  - inversion H; subst. exists done'. rewrite app_nil_r in Pb. split; [apply Permutation_sym; exact Pb|exact Ht].
  - destruct (Nat.eqb last (List.length (r0 :: rest))); [discriminate|].
    assert (NDk : NoDup (dkeys (done' ++ r0 :: rest))).
    { eapply Permutation_NoDup; [apply perm_dkeys; exact Pb|exact ND]. }
    assert (NDrest : NoDup (dkeys (r0 :: rest))).
    { unfold dkeys in NDk. rewrite map_app in NDk. eapply NoDup_app_r; exact NDk. }
    assert (FRrest : forall d, In d (dkeys (r0 :: rest)) -> sget t1 d = None).
    { intros d Hd. destruct (sget t1 d) as [v|] eqn:G; [|reflexivity]. exfalso.
      destruct (seq_ok_dom _ _ _ Ht d) as [H0|H0]; [congruence| |].
      - apply H0. apply FR. eapply Permutation_in; [apply Permutation_sym; apply perm_dkeys; exact Pb|].
        unfold dkeys. rewrite map_app. apply in_or_app. right. exact Hd.
      - clear - NDk Hd H0. unfold dkeys in *. rewrite map_app in NDk.
        induction (map fst done') as [|x l IHl]; [destruct H0|].
        cbn [app] in NDk. inversion NDk as [|? ? Hn ND']; subst.
        destruct H0 as [->|H0]; [apply Hn; apply in_or_app; right; exact Hd|apply IHl; assumption]. }
    destruct (IH _ _ _ _ NDrest FRrest H) as (o & Po & So).
    exists (done' ++ o). split.
    + eapply perm_trans; [apply Permutation_app_head; exact Po|apply Permutation_sym; exact Pb].
    + eapply seq_ok_app; eauto.
Qed.

Section Complete.
  Variable deps : list (N * function).
  Variable s : state.
  Variable o : list (N * function).
  Variable s1 : state.
  Hypothesis ND : NoDup (dkeys deps).
  Hypothesis Po : Permutation o deps.
  Hypothesis So : seq_ok s o s1.

  Lemma solved_deps_s1 : solved deps s1.
  Proof. eapply solved_perm; [exact Po|apply seq_ok_solved with (a := s); exact So]. Qed.

  (* in a state between s and s1 in which everything outside the bucket B is resolved, the first
     element of the witness order that belongs to B can be evaluated *)
  Lemma trace_progress (B : list (N * function)) t : forall p l,
    seq_ok p l s1 -> sext p t -> sext t s1 ->
    (forall d f, In (d, f) l -> In d (dkeys B) \/ sget t d <> None) ->
    (exists d f, In (d, f) l /\ In d (dkeys B)) ->
    exists d f, In (d, f) l /\ In d (dkeys B) /\ fn_eval f t <> None.
  Proof.
    intros p l H. remember s1 as e eqn:He. revert He.
    induction H as [|q d f v ids l s' Hn E H IH]; intros He Xp Xt R Ex; subst.
    - destruct Ex as (d & f & [] & _).
    - destruct (in_dec N.eq_dec d (dkeys B)) as [Hd|Hd].
      + exists d, f. split; [left; reflexivity|]. split; [exact Hd|].
        rewrite (fn_eval_mono _ _ _ _ Xp E). discriminate.
      + destruct (R d f (or_introl eq_refl)) as [Hb|Hr]; [contradiction|].
        destruct (sget t d) as [w|] eqn:G; [|contradiction].
        assert (Ev : sget s1 d = Some v).
        { apply (seq_ok_sext _ _ _ H). rewrite sget_sset, N.eqb_refl. reflexivity. }
        assert (w = v) by (apply Xt in G; congruence). subst w.
        destruct IH as (d' & f' & I1 & I2 & I3); auto.
        * intros i x. rewrite sget_sset. destruct (i =? d)%N eqn:Ei.
          -- apply N.eqb_eq in Ei. subst i. intro H0. inversion H0; subst. exact G.
          -- apply Xp.
        * intros d' f' Hin. apply (R d' f'). right. exact Hin.
        * destruct Ex as (d' & f' & [Eq|Hin] & Hb).
          -- inversion Eq; subst. contradiction.
          -- exists d', f'. split; assumption.
        * exists d', f'. split; [right; exact I1|]. split; assumption.
  Qed.

  Lemma fuel_complete : forall n bucket t,
    (List.length bucket <= n)%nat -> NoDup (dkeys bucket) ->
    (forall d, In d (dkeys bucket) -> sget t d = None) -> incl bucket deps ->
    sext s t -> sext t s1 ->
    (forall d, In d (dkeys deps) -> ~ In d (dkeys bucket) -> sget t d <> None) ->
    exists t', eval_deps_fuel (S n) bucket (List.length bucket) t = Some t'.
  Proof.
    induction n as [|n IH]; intros bucket t Ln NDb FR Inc Xs Xt Res; cbn [eval_deps_fuel].
    - destruct bucket; [|cbn in Ln; lia]. cbn. eexists; reflexivity.
    - destruct (deps_round (rev bucket) t []) as [t1 failed] eqn:Rd.
      assert (NDr : NoDup (dkeys (rev bucket))).
      { eapply Permutation_NoDup; [apply perm_dkeys; apply Permutation_rev|exact NDb]. }
      assert (FRr : forall d, In d (dkeys (rev bucket)) -> sget t d = None).
      { intros d Hd. apply FR. eapply Permutation_in; [apply Permutation_sym; apply perm_dkeys; apply Permutation_rev|exact Hd]. }
      destruct (round_trace _ _ _ _ _ NDr FRr Rd) as (done' & rest & Hf & Ht & Hp). cbn [app] in Hf. subst failed.
      assert (Pb : Permutation bucket (done' ++ rest)) by (eapply perm_trans; [apply Permutation_rev|exact Hp]).
      destruct rest as [|r0 rest]; [eexists; reflexivity|].
      assert (Len : List.length bucket = (List.length done' + List.length (r0 :: rest))%nat).
      { rewrite (Permutation_length Pb), app_length. reflexivity. }
      destruct (Nat.eqb (List.length bucket) (List.length (r0 :: rest))) eqn:Eq.
      + (* a stall is impossible *)
        exfalso. apply Nat.eqb_eq in Eq.
        assert (St : forall d f, In (d, f) (rev bucket) -> fn_eval f t = None).
        { eapply round_stall; [exact Rd|]. cbn [List.length plus]. rewrite rev_length. cbn [List.length] in Eq. lia. }
        destruct r0 as [d0 f0].
        assert (In0 : In (d0, f0) bucket).
        { eapply Permutation_in; [apply Permutation_sym; exact Pb|]. apply in_or_app. right. left. reflexivity. }
        destruct (trace_progress bucket t s o So Xs Xt) as (d & f & I1 & I2 & I3).
        * intros d f Hin. destruct (in_dec N.eq_dec d (dkeys bucket)) as [Hd|Hd]; [left; exact Hd|right].
          apply Res; [|exact Hd]. eapply dkeys_in. eapply Permutation_in; [exact Po|exact Hin].
        * exists d0, f0. split; [|eapply dkeys_in; exact In0].
          eapply Permutation_in; [apply Permutation_sym; exact Po|apply Inc; exact In0].
        * apply I3. destruct (in_dkeys _ _ I2) as (f' & If').
          assert (f = f').
          { eapply nodup_keys_fun; [exact ND| |apply Inc; exact If']. eapply Permutation_in; [exact Po|exact I1]. }
          subst f'. apply (St d f). apply -> in_rev. exact If'.
      + apply Nat.eqb_neq in Eq.
        assert (NDk : NoDup (dkeys (done' ++ r0 :: rest))).
        { eapply Permutation_NoDup; [apply perm_dkeys; exact Pb|exact NDb]. }
        assert (NDrest : NoDup (dkeys (r0 :: rest))).
        { unfold dkeys in NDk. rewrite map_app in NDk. eapply NoDup_app_r; exact NDk. }
        assert (Disj : forall d, In d (dkeys done') -> In d (dkeys (r0 :: rest)) -> False).
        { clear - NDk. unfold dkeys in *. rewrite map_app in NDk. intros d H0 Hd.
          induction (map fst done') as [|x l IHl]; [destruct H0|].
          cbn [app] in NDk. inversion NDk as [|? ? Hn ND']; subst.
          destruct H0 as [->|H0]; [apply Hn; apply in_or_app; right; exact Hd|apply IHl; assumption]. }
        assert (FRrest : forall d, In d (dkeys (r0 :: rest)) -> sget t1 d = None).
        { intros d Hd. destruct (sget t1 d) as [v|] eqn:G; [|reflexivity]. exfalso.
          destruct (seq_ok_dom _ _ _ Ht d) as [H0|H0]; [congruence| |].
          - apply H0. apply FR. eapply Permutation_in; [apply Permutation_sym; apply perm_dkeys; exact Pb|].
            unfold dkeys. rewrite map_app. apply in_or_app. right. exact Hd.
          - eapply Disj; eauto. }
        assert (Incb : incl (done' ++ r0 :: rest) deps).
        { intros x Hx. apply Inc. eapply Permutation_in; [apply Permutation_sym; exact Pb|exact Hx]. }
        apply IH.
        * lia.
        * exact NDrest.
        * exact FRrest.
        * intros x Hx. apply Incb. apply in_or_app. right. exact Hx.
        * eapply sext_trans; [exact Xs|eapply seq_ok_sext; exact Ht].
        * eapply seq_ok_below; [exact Ht|exact Xt|].
          intros d f Hin. apply solved_deps_s1. apply Incb. apply in_or_app. left. exact Hin.
        * intros d Hd Hnr. destruct (in_dec N.eq_dec d (dkeys bucket)) as [Hb|Hb].
          -- assert (Hd' : In d (dkeys (done' ++ r0 :: rest))).
             { eapply Permutation_in; [apply perm_dkeys; exact Pb|exact Hb]. }
             unfold dkeys in Hd'. rewrite map_app in Hd'. apply in_app_or in Hd'.
             destruct Hd' as [Hd'|Hd']; [|contradiction]. eapply seq_ok_keys; eauto.
          -- pose proof (Res d Hd Hb) as R0. destruct (sget t d) as [w|] eqn:G; [|contradiction].
             rewrite (seq_ok_sext _ _ _ Ht d w G). discriminate.
  Qed.
End Complete.

(* ---------------- the statements ---------------- *)
(* completeness: if the dependencies can be evaluated one after the other in SOME order, the pass
   succeeds whatever order its map iterates in *)
Theorem eval_deps_complete deps s o s1 :
  NoDup (dkeys deps) -> (forall d, In d (dkeys deps) -> sget s d = None) ->
  Permutation o deps -> seq_ok s o s1 -> exists s', eval_deps deps s = Some s'.
Proof.
  intros ND FR Po So. unfold eval_deps.
  apply (fuel_complete deps s o s1 ND Po So); auto;
    try apply incl_refl; try apply sext_refl; try (eapply seq_ok_sext; exact So);
    try (intros d Hd Hn; contradiction).
Qed.

(* a successful run is such an order *)
Theorem eval_deps_trace deps s s1 :
  NoDup (dkeys deps) -> (forall d, In d (dkeys deps) -> sget s d = None) ->
  eval_deps deps s = Some s1 -> exists o, Permutation o deps /\ seq_ok s o s1.
Proof. intros ND FR H. eapply fuel_trace; eauto. Qed.

(* failure is exactly the absence of any evaluation order (a cycle, or a reference to a variable
   that has no value) *)
Theorem eval_deps_fails_iff deps s :
  NoDup (dkeys deps) -> (forall d, In d (dkeys deps) -> sget s d = None) ->
  (eval_deps deps s = None <-> ~ exists o s1, Permutation o deps /\ seq_ok s o s1).
Proof.
  intros ND FR. split.
  - intros H (o & s1 & Po & So). destruct (eval_deps_complete deps s o s1 ND FR Po So) as (s' & E). congruence.
  - intro H. destruct (eval_deps deps s) as [s1|] eqn:E; [|reflexivity]. exfalso. apply H.
    destruct (eval_deps_trace deps s s1 ND FR E) as (o & Po & So). exists o, s1. split; assumption.
Qed.

(* order independence: any reordering of the dependency map succeeds as well and reports the same
   value for every id *)
Theorem eval_deps_order_free deps deps' s s1 :
  NoDup (dkeys deps) -> (forall d, In d (dkeys deps) -> sget s d = None) ->
  Permutation deps deps' -> eval_deps deps s = Some s1 ->
  exists s2, eval_deps deps' s = Some s2 /\ forall i, sget s2 i = sget s1 i.
Proof.
  intros ND FR P H.
  assert (ND' : NoDup (dkeys deps')) by (eapply Permutation_NoDup; [apply perm_dkeys; exact P|exact ND]).
  assert (FR' : forall d, In d (dkeys deps') -> sget s d = None).
  { intros d Hd. apply FR. eapply Permutation_in; [apply Permutation_sym; apply perm_dkeys; exact P|exact Hd]. }
  destruct (eval_deps_trace deps s s1 ND FR H) as (o & Po & So).
  destruct (eval_deps_complete deps' s o s1 ND' FR' (perm_trans Po P) So) as (s2 & E2).
  exists s2. split; [exact E2|].
  destruct (eval_deps_trace deps' s s2 ND' FR' E2) as (o' & Po' & So').
  assert (X12 : sext s1 s2).
  { eapply seq_ok_below; [exact So|eapply seq_ok_sext; exact So'|].
    eapply solved_perm; [|apply seq_ok_solved with (a := s); exact So'].
    eapply perm_trans; [exact Po'|]. eapply perm_trans; [apply Permutation_sym; exact P|apply Permutation_sym; exact Po]. }
  assert (X21 : sext s2 s1).
  { eapply seq_ok_below; [exact So'|eapply seq_ok_sext; exact So|].
    eapply solved_perm; [|apply seq_ok_solved with (a := s); exact So].
    eapply perm_trans; [exact Po|]. eapply perm_trans; [exact P|apply Permutation_sym; exact Po']. }
  intro i. destruct (sget s2 i) as [v|] eqn:G2.
  - symmetry. apply X21. exact G2.
  - destruct (sget s1 i) as [w|] eqn:G1; [|reflexivity]. apply X12 in G1. congruence.
Qed.
