(* Subst.v — Function::substitute (v1_ext/function.rs:170-187) and Instance::substitute
   (v1_ext/instance.rs:419-440). *)
Require Import Ommx.Num Ommx.Poly Ommx.Msg Ommx.Eval Ommx.Tree Ommx.Arith Ommx.Inst Ommx.Transform.

Definition repl := list (N * function).       (* HashMap<u64, Function> *)

Section Subst.
  Variable tiny : num -> bool.

  (* v = Function::from(coefficient); for id in ids { v = v * (replacement | x_id) } *)
  Fixpoint subst_mono (ids : list N) (R : repl) (v : function) : option function :=
    match ids with
    | [] => Some v
    | i :: ids' =>
        match fn_mul tiny v (match lookup i R with Some r => r | None => FLin (lin_single i 1) end) with
        | Some v' => subst_mono ids' R v'
        | None => None
        end
    end.
  Fixpoint subst_terms (t : terms) (R : repl) (out : function) : option function :=
    match t with
    | [] => Some out
    | (ids, c) :: t' =>
        match subst_mono ids R (FConst c) with
        | None => None
        | Some v =>
            match fn_add tiny out v with
            | Some out' => subst_terms t' R out'
            | None => None
            end
        end
    end.
  (* an empty map returns a clone *)
  Definition fn_substitute (f : function) (R : repl) : option function :=
    match R with
    | [] => Some f
    | _ => subst_terms (fn_iter f) R (FConst 0)
    end.

  Definition opt_subst (o : option function) (R : repl) : option (option function) :=
    match o with
    | None => Some None
    | Some f => match fn_substitute f R with Some g => Some (Some g) | None => None end
    end.
  Fixpoint constrs_subst (cs : list constr) (R : repl) : option (list constr) :=
    match cs with
    | [] => Some []
    | c :: cs' =>
        match opt_subst (c_fn c) R, constrs_subst cs' R with
        | Some f', Some r => Some ({| c_id := c_id c; c_eq := c_eq c; c_fn := f'; c_meta := c_meta c |} :: r)
        | _, _ => None
        end
    end.
  Fixpoint removed_subst (rs : list removed) (R : repl) : option (list removed) :=
    match rs with
    | [] => Some []
    | r :: rs' =>
        match (match r_c r with
               | None => Some None
               | Some c =>
                   match opt_subst (c_fn c) R with
                   | Some f' => Some (Some {| c_id := c_id c; c_eq := c_eq c; c_fn := f'; c_meta := c_meta c |})
                   | None => None
                   end
               end), removed_subst rs' R with
        | Some c', Some rest => Some ({| r_c := c'; r_reason := r_reason r; r_params := r_params r |} :: rest)
        | _, _ => None
        end
    end.
  Fixpoint deps_subst (ds : list (N * function)) (R : repl) : option (list (N * function)) :=
    match ds with
    | [] => Some []
    | (d, f) :: ds' =>
        match fn_substitute f R, deps_subst ds' R with
        | Some g, Some r => Some ((d, g) :: r)
        | _, _ => None
        end
    end.
  (* HashMap::extend: the new binding of a key replaces the old one; first-match lookup *)
  Definition inst_substitute (I : instance) (R : repl) : option instance :=
    match opt_subst (i_obj I) R, constrs_subst (i_cs I) R, removed_subst (i_rs I) R, deps_subst (i_deps I) R with
    | Some o, Some cs, Some rs, Some ds =>
        Some {| i_sense := i_sense I; i_obj := o; i_dvs := i_dvs I; i_cs := cs; i_rs := rs;
                i_deps := R ++ filter (fun df => negb (existsb (fun rf => (fst rf =? fst df)%N) R)) ds;
                i_params := i_params I; i_hints := i_hints I; i_desc := i_desc I |}
    | _, _, _, _ => None
    end.
End Subst.
