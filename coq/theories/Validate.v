(* Validate.v — Instance::validate*, ParametricInstance::validate* (v1_ext/instance.rs:93-132,
   parametric_instance.rs:128-171) and the typed view TryFrom<v1::Instance> with its Parse impls
   (instance.rs, constraint.rs, decision_variable.rs, function.rs, bound.rs, parse.rs). *)
Require Import Ommx.Num Ommx.Poly Ommx.Msg Ommx.Eval Ommx.Tree Ommx.Inst Ommx.Relax Ommx.Transform.
From Coq Require Import String.
Open Scope string_scope.
Open Scope list_scope.

Fixpoint nodupb (l : list N) : bool :=
  match l with [] => true | i :: l' => negb (mem i l') && nodupb l' end.

(* ---------------- validate ---------------- *)
Definition constr_used (c : constr) : list N := fn_used (fn_or_zero (c_fn c)).
Definition inst_used (I : instance) : list N :=
  fn_used (fn_or_zero (i_obj I)) ++ flat_map constr_used (i_cs I)
  ++ flat_map constr_used (removed_constrs (i_rs I)).
Definition validate_dv_ids (I : instance) : bool :=
  nodupb (map dv_id (i_dvs I)) && subset (inst_used I) (map dv_id (i_dvs I)).
Definition validate_constraint_ids (I : instance) : bool := nodupb (map c_id (all_constrs I)).
Definition validate (I : instance) : bool := validate_dv_ids I && validate_constraint_ids I.

(* parametric: decision-variable and parameter ids jointly unique and covering the ids used by
   the objective and the ACTIVE constraints *)
Definition pvalidate (P : pinstance) : bool :=
  let ids := map dv_id (p_dvs P) ++ map pa_id (p_params P) in
  nodupb ids &&
  subset (fn_used (fn_or_zero (p_obj P)) ++ flat_map constr_used (p_cs P)) ids &&
  nodupb (map c_id (p_cs P ++ removed_constrs (p_rs P))).

(* ---------------- typed view ---------------- *)
Inductive raw_err :=
| EUnsupported
| EMissing (message field : string)
| EUnspecified (enum_name : string)
| EDupVar (id : N) | EDupConstr (id : N)
| EUndefVar (id : N) | EUndefConstr (id : N)
| ENonUniqueVar (id : N) | ENonUniqueConstr (id : N)
| EInvalidBound.
(* context: innermost first, as pushed while the error propagates outwards *)
Definition ctx := list (string * string).
Definition perr := (raw_err * ctx)%type.

Definition M_INSTANCE := "ommx.v1.Instance".
Definition M_DV := "ommx.v1.DecisionVariable".
Definition M_CONSTR := "ommx.v1.Constraint".
Definition M_REMOVED := "ommx.v1.RemovedConstraint".
Definition M_HINTS := "ommx.v1.ConstraintHints".
Definition M_ONEHOT := "ommx.v1.OneHot".
Definition M_SOS1 := "ommx.v1.Sos1".

Definition with_ctx (c : string * string) (e : perr) : perr := (fst e, snd e ++ [c]).

(* parse of one decision variable: kind, then bound *)
Definition parse_dv (v : dvar) : option perr :=
  if negb ((1 <=? dv_kind v)%Z && (dv_kind v <=? 5)%Z)
  then Some (EUnspecified "ommx.v1.decision_variable.Kind", [(M_DV, "kind")])
  else match dv_bound_of v with
       | None => Some (EInvalidBound, [(M_DV, "bound")])
       | Some _ => None
       end.
(* Vec<v1::DecisionVariable>: each parsed in order, a repeated id reported when it is inserted *)
Fixpoint parse_dvs (dvs : list dvar) (seen : list N) : option perr :=
  match dvs with
  | [] => None
  | v :: dvs' =>
      match parse_dv v with
      | Some e => Some e
      | None => if mem (dv_id v) seen then Some (EDupVar (dv_id v), [])
                else parse_dvs dvs' (dv_id v :: seen)
      end
  end.
Definition parse_fn (o : function) : option raw_err :=
  match o with FUnset => Some EUnsupported | _ => None end.
(* v1::Constraint: equality, then function present, then function supported *)
Definition parse_constr (c : constr) : option perr :=
  if negb ((c_eq c =? EQ_ZERO)%Z || (c_eq c =? LE_ZERO)%Z)
  then Some (EUnspecified "ommx.v1.Equality", [(M_CONSTR, "equality")])
  else match c_fn c with
       | None => Some (EMissing M_CONSTR "function", [])
       | Some f => match parse_fn f with
                   | Some e => Some (e, [(M_CONSTR, "function")])
                   | None => None
                   end
       end.
Fixpoint parse_constrs (cs : list constr) (seen : list N) : option perr :=
  match cs with
  | [] => None
  | c :: cs' =>
      match parse_constr c with
      | Some e => Some e
      | None => if mem (c_id c) seen then Some (EDupConstr (c_id c), [])
                else parse_constrs cs' (c_id c :: seen)
      end
  end.
Fixpoint parse_removed (rs : list removed) (active seen : list N) : option perr :=
  match rs with
  | [] => None
  | r :: rs' =>
      match r_c r with
      | None => Some (EMissing M_REMOVED "constraint", [])
      | Some c =>
          match parse_constr c with
          | Some e => Some (with_ctx (M_REMOVED, "constraint") e)
          | None =>
              if mem (c_id c) active || mem (c_id c) seen then Some (EDupConstr (c_id c), [])
              else parse_removed rs' active (c_id c :: seen)
          end
      end
  end.

(* where the iteration order of a HashMap decides which of several violations is reported, every
   one of them is acceptable: these phases return the list of candidates *)
Definition undefined_in (ids defined : list N) : list N := filter (fun i => negb (mem i defined)) ids.

Record hints := { h_onehot : list (N * list N); h_sos1 : list (N * list N * list N) }.
Definition d_hints (t : tree) : option (option hints) :=
  match t with
  | L [] => Some None
  | L [L [oh; so]] =>
      do oh' <- d_list (d_pair d_N (d_list d_N)) oh;
      do so' <- d_list (fun t => match t with
                                 | L [b; m; v] => do b' <- d_N b; do m' <- d_list d_N m; do v' <- d_list d_N v; Some (b', m', v')
                                 | _ => None end) so;
      Some (Some {| h_onehot := oh'; h_sos1 := so' |})
  | _ => None
  end.

Fixpoint unique_defined (ids : list N) (defined seen : list N) (undef nonuniq : N -> raw_err) : option raw_err :=
  match ids with
  | [] => None
  | i :: ids' =>
      if negb (mem i defined) then Some (undef i)
      else if mem i seen then Some (nonuniq i)
      else unique_defined ids' defined (i :: seen) undef nonuniq
  end.
Definition parse_onehot (o : N * list N) (dvids cids : list N) : option perr :=
  if negb (mem (fst o) cids) then Some (EUndefConstr (fst o), [(M_ONEHOT, "constraint_id")])
  else match unique_defined (snd o) dvids [] EUndefVar ENonUniqueVar with
       | Some e => Some (e, [(M_ONEHOT, "decision_variables")])
       | None => None
       end.
Definition parse_sos1 (o : N * list N * list N) (dvids cids : list N) : option perr :=
  let '(b, m, v) := o in
  if negb (mem b cids) then Some (EUndefConstr b, [(M_SOS1, "binary_constraint_id")])
  else match unique_defined m cids [] EUndefConstr ENonUniqueConstr with
       | Some e => Some (e, [(M_SOS1, "big_m_constraint_ids")])
       | None =>
           match unique_defined v dvids [] EUndefVar ENonUniqueVar with
           | Some e => Some (e, [(M_SOS1, "decision_variables")])
           | None => None
           end
       end.
Fixpoint first_err {X} (p : X -> option perr) (l : list X) : option perr :=
  match l with
  | [] => None
  | x :: l' => match p x with Some e => Some e | None => first_err p l' end
  end.
Definition parse_hints (h : option hints) (dvids cids : list N) : option perr :=
  match h with
  | None => None
  | Some h =>
      match first_err (fun o => parse_onehot o dvids cids) (h_onehot h) with
      | Some e => Some (with_ctx (M_INSTANCE, "constraint_hints") (with_ctx (M_HINTS, "one_hot_constraints") e))
      | None =>
          match first_err (fun o => parse_sos1 o dvids cids) (h_sos1 h) with
          | Some e => Some (with_ctx (M_INSTANCE, "constraint_hints") (with_ctx (M_HINTS, "sos1_constraints") e))
          | None => None
          end
      end
  end.

(* TryFrom<v1::Instance>: None = Ok; Some errs = Err, any element of errs acceptable *)
Definition parse_instance (I : instance) (h : option hints) : option (list perr) :=
  let dvids := map dv_id (i_dvs I) in
  let one e := Some [e] in
  if negb ((i_sense I =? SENSE_MIN)%Z || (i_sense I =? SENSE_MAX)%Z)
  then one (EUnspecified "ommx.v1.instance.Sense", [(M_INSTANCE, "sense")])
  else
  match parse_dvs (i_dvs I) [] with
  | Some e => one (with_ctx (M_INSTANCE, "decision_variables") e)
  | None =>
  match i_obj I with
  | None => one (EMissing M_INSTANCE "objective", [])
  | Some f =>
  match parse_fn f with
  | Some e => one (e, [(M_INSTANCE, "objective")])
  | None =>
  match undefined_in (fn_used f) dvids with
  | (_ :: _) as u => Some (map (fun i => (EUndefVar i, [(M_INSTANCE, "objective")])) u)
  | [] =>
  match parse_constrs (i_cs I) [] with
  | Some e => one (with_ctx (M_INSTANCE, "constraints") e)
  | None =>
  match undefined_in (flat_map constr_used (i_cs I)) dvids with
  | (_ :: _) as u => Some (map (fun i => (EUndefVar i, [(M_INSTANCE, "constraints")])) u)
  | [] =>
  match parse_removed (i_rs I) (map c_id (i_cs I)) [] with
  | Some e => one (with_ctx (M_INSTANCE, "removed_constraints") e)
  | None =>
  match undefined_in (flat_map constr_used (removed_constrs (i_rs I))) dvids with
  | (_ :: _) as u => Some (map (fun i => (EUndefVar i, [(M_INSTANCE, "removed_constraints")])) u)
  | [] =>
  (* dependency map: keys must be defined, functions supported; hash-map order *)
  match flat_map (fun df => (if mem (fst df) dvids then [] else [(EUndefVar (fst df), [(M_INSTANCE, "decision_variable_dependency")])])
                            ++ match parse_fn (snd df) with
                               | Some e => [(e, [(M_INSTANCE, "decision_variable_dependency")])]
                               | None => [] end) (i_deps I) with
  | (_ :: _) as es => Some es
  | [] =>
  match parse_hints h dvids (map c_id (i_cs I)) with
  | Some e => one e
  | None => None
  end end end end end end end end end end.

(* the declarative well-formedness the typed view requires *)
Definition wf_typed (I : instance) (h : option hints) : Prop :=
  (i_sense I = SENSE_MIN \/ i_sense I = SENSE_MAX) /\
  (forall v, In v (i_dvs I) -> (1 <= dv_kind v <= 5)%Z /\ dv_bound_of v <> None) /\
  NoDup (map dv_id (i_dvs I)) /\
  (exists f, i_obj I = Some f /\ f <> FUnset /\ forall i, In i (fn_used f) -> In i (map dv_id (i_dvs I))) /\
  (forall c, In c (all_constrs I) ->
     (c_eq c = EQ_ZERO \/ c_eq c = LE_ZERO) /\ (exists f, c_fn c = Some f /\ f <> FUnset) /\
     forall i, In i (constr_used c) -> In i (map dv_id (i_dvs I))) /\
  (forall r, In r (i_rs I) -> r_c r <> None) /\
  NoDup (map c_id (all_constrs I)) /\
  (forall d f, In (d, f) (i_deps I) -> In d (map dv_id (i_dvs I)) /\ f <> FUnset) /\
  parse_hints h (map dv_id (i_dvs I)) (map c_id (i_cs I)) = None.
