(* RunC08.v — correspondence runner for C08. *)
Require Import Ommx.Num Ommx.Poly Ommx.Msg Ommx.Eval Ommx.Tree Ommx.Arith Ommx.Inst Ommx.Relax
        Ommx.RunC02 Ommx.RunC03 Ommx.RunC05 Ommx.RunC14 Ommx.Transform Ommx.RunTransform Ommx.Validate.
From Coq Require Import String.
Open Scope string_scope.

Definition e_raw (e : raw_err) : tree :=
  match e with
  | EUnsupported => L [A "unsupported"; L []]
  | EMissing m f => L [A "missing"; L [A m; A f]]
  | EUnspecified n => L [A "unspecified"; L [A n]]
  | EDupVar i => L [A "dup-var"; L [e_N i]]
  | EDupConstr i => L [A "dup-constr"; L [e_N i]]
  | EUndefVar i => L [A "undef-var"; L [e_N i]]
  | EUndefConstr i => L [A "undef-constr"; L [e_N i]]
  | ENonUniqueVar i => L [A "nonunique-var"; L [e_N i]]
  | ENonUniqueConstr i => L [A "nonunique-constr"; L [e_N i]]
  | EInvalidBound => L [A "invalid-bound"; L []]
  end.
Definition e_perr (e : perr) : tree :=
  match e_raw (fst e) with
  | L [k; p] => L [A "err"; k; p; L (map (fun c => L [A (fst c); A (snd c)]) (snd e))]
  | t => t
  end.

Definition sort_dvs (dvs : list dvar) : list dvar :=
  let ids := sort_ids (map dv_id dvs) in
  flat_map (fun i => match find_dv i dvs with Some v => [v] | None => [] end) ids.

(* typed decision variable as returned by the harness:
   [id, kind, lower, upper, opt subst, name, subscripts, params, description] *)
Definition typed_dv_ok (v : dvar) (t : tree) : bool :=
  match t with
  | L [i; k; lo; hi; sv; n; su; pa; de] =>
      match d_N i, d_Z k, d_ext lo, d_ext hi, d_opt d_num sv, dv_bound_of v with
      | Some i', Some k', Some lo', Some hi', Some sv', Some (bl, bu) =>
          (i' =? dv_id v)%N && (k' =? dv_kind v)%Z && ext_eqb lo' bl && ext_eqb hi' bu &&
          optb qeqb sv' (dv_subst v) && trees_eqb [n; su; pa; de] (dv_meta v)
      | _, _, _, _, _, _ => false
      end
  | _ => false
  end.
Definition typed_constr_ok (c : constr) (t : tree) : bool :=
  match t with
  | L [i; e; f; n; su; pa; de] =>
      match d_N i, d_Z e, d_function f, c_fn c with
      | Some i', Some e', Some f', Some g =>
          (i' =? c_id c)%N && (e' =? c_eq c)%Z && fn_eqb f' g &&
          String.eqb (kind_tag_of f') (kind_tag_of g) && trees_eqb [n; su; pa; de] (c_meta c)
      | _, _, _, _ => false
      end
  | _ => false
  end.
Definition sort_constrs (cs : list constr) : list constr :=
  let ids := sort_ids (map c_id cs) in
  flat_map (fun i => match filter (fun c => (c_id c =? i)%N) cs with c :: _ => [c] | [] => [] end) ids.
Definition typed_removed_ok (r : removed) (t : tree) : bool :=
  match t, r_c r with
  | L [c; reason; params], Some c0 => typed_constr_ok c0 c && tree_eqb reason (r_reason r) && tree_eqb params (r_params r)
  | _, _ => false
  end.
Definition sort_removed (rs : list removed) : list removed :=
  let ids := sort_ids (map c_id (removed_constrs rs)) in
  flat_map (fun i => match filter (fun r => removed_has_id i r) rs with r :: _ => [r] | [] => [] end) ids.

(* typed sense / objective / hints as returned by the harness (public Parse impls of the same components) *)
Definition typed_obj_ok (o : option function) (t : tree) : bool :=
  match d_function t, o with
  | Some f', Some g => fn_eqb f' g && String.eqb (kind_tag_of f') (kind_tag_of g)
  | _, _ => false
  end.
Definition typed_hints_ok (h : option hints) (t : tree) : bool :=
  let oh := match h with Some x => h_onehot x | None => [] end in
  let so := match h with Some x => h_sos1 x | None => [] end in
  match t with
  | L [L ohs; L sos] =>
      list_eqb (fun (o : N * list N) t' =>
                  match t' with
                  | L [i; vs] => match d_N i, d_list d_N vs with
                                 | Some i', Some vs' => (i' =? fst o)%N && ids_eqb vs' (sort_ids (snd o))
                                 | _, _ => false end
                  | _ => false end) oh ohs &&
      list_eqb (fun (s : N * list N * list N) t' =>
                  match t' with
                  | L [b; ms; vs] => match d_N b, d_list d_N ms, d_list d_N vs with
                                     | Some b', Some ms', Some vs' =>
                                         (b' =? fst (fst s))%N && ids_eqb ms' (sort_ids (snd (fst s))) && ids_eqb vs' (sort_ids (snd s))
                                     | _, _, _ => false end
                  | _ => false end) so sos
  | _ => false
  end.

Definition run_C08 (case : tree) : tree :=
  match case with
  | L [A "validate"; i; r] =>
      match d_instance i with
      | Some I' =>
          if validate I' then (if ok_payload r then agree ["validate"; "ok"] else disagree "a well-formed instance must validate" (A "ok"))
          else (if is_err r then agree ["validate"; "err"] else disagree "validation must fail (repeated id or undefined variable)" (A "err"))
      | None => badcase "validate: input"
      end
  | L [A "pvalidate"; p; r] =>
      match d_pinstance p with
      | Some P =>
          if pvalidate P then (if ok_payload r then agree ["pvalidate"; "ok"] else disagree "a well-formed parametric instance must validate" (A "ok"))
          else (if is_err r then agree ["pvalidate"; "err"] else disagree "parametric validation must fail" (A "err"))
      | None => badcase "pvalidate: input"
      end
  | L [A "typed_parse"; i; L [res; comps]] =>
      match d_instance i with
      | Some I' =>
          match d_hints (i_hints I') with
          | None => badcase "typed_parse: hints"
          | Some h =>
              match parse_instance I' h with
              | Some errs =>
                  match res with
                  | L (A "err" :: _) =>
                      if existsb (fun e => tree_eqb (e_perr e) res) errs then agree ["typed"; "rejected"]
                      else disagree "the typed view must report the violated rule with the path to the offending field"
                                    (L (map e_perr errs))
                  | _ => disagree "the typed view must reject this message" (L (map e_perr errs))
                  end
              | None =>
                  match res, comps with
                  | A "ok", L [L dvs; L cs; L rs; se; ob; hs] =>
                      if negb (list_eqb typed_dv_ok (sort_dvs (i_dvs I')) dvs)
                      then disagree "typed decision variables carry the same content (absent bound = unbounded, [0,1] for binaries)" (L [])
                      else if negb (list_eqb typed_constr_ok (sort_constrs (i_cs I')) cs)
                      then disagree "typed constraints carry the same content" (L [])
                      else if negb (list_eqb typed_removed_ok (sort_removed (i_rs I')) rs)
                      then disagree "typed removed constraints carry the same content" (L [])
                      else if negb (match d_Z se with Some s => (s =? i_sense I')%Z | None => false end)
                      then disagree "typed sense carries the same content" (L [])
                      else if negb (typed_obj_ok (i_obj I') ob)
                      then disagree "typed objective carries the same content" (L [])
                      else if negb (typed_hints_ok h hs)
                      then disagree "typed hints carry the same content (constraint id and variable set of every one-hot / SOS1 hint, in order)" (L [])
                      else agree ["typed"; "ok"]
                  | _, _ => disagree "the typed view must never reject a well-formed message" (A "ok")
                  end
              end
          end
      | None => badcase "typed_parse: input"
      end
  | _ => badcase "C08: unknown op"
  end.
