(* SamplesSubst.v — C06 composite, the decision-variable values, for instances WITH fixed values
   (dv_subst = Some x; they arise from Instance::partial_evaluate).

   Instance::evaluate inserts the fixed values into the state BEFORE the dependency pass
   (insert_subst); Instance::evaluate_samples runs the dependency pass on the bare sample state and
   SampleSet::get then prefers the fixed value over the sampled one.  The two routes agree on the
   reported variable values under three conditions on the instance, each of which is necessary
   (counterexamples at the end of the file):

     (H1) fixed_unread   no dependency function reads an id that carries a fixed value
                         (state-wise form fixed_unread_at: the fixed values do not change what a
                         dependency function reads from the sample state);
     (H2) keys_unfixed   no dependency key carries a fixed value;
     (H3) last_decl_decides  if the last declaration of an id carries no fixed value then no
                         declaration of that id does (implied by pairwise distinct ids).

   Main results
     get_evaluate_samples_state_fixed : the value theorem (all conclusions of
                                        SamplesState.get_evaluate_samples_state)
     get_evaluate_samples_state_wf    : the same under the boolean predicate wf_fixed
     inst_eval_samples_succeeds_if / _only_if / _iff : success of evaluate_samples against success
                                        of evaluate on every stored state. *)
Require Import Ommx.Num Ommx.Poly Ommx.Msg Ommx.Eval Ommx.Tree Ommx.Inst Ommx.InstProofs Ommx.Samples
        Ommx.SamplesProofs Ommx.SamplesCompose Ommx.SamplesState Ommx.Subst Ommx.SubstProofs
        Ommx.DepsOrder Ommx.InstTotal.
From Coq Require Import String Lia.
Close Scope string_scope.
Open Scope list_scope.
Open Scope Qc_scope.

(* ------------------------------------------------------------------ *)
(* states *)
Lemma sget_app (a b : state) i :
  sget (a ++ b) i = match sget a i with Some v => Some v | None => sget b i end.
Proof.
  induction a as [|[j v] a IH]; cbn [app sget]; [reflexivity|].
  destruct (i =? j)%N; [reflexivity|exact IH].
Qed.
Lemma sget_notin (a : state) i : ~ In i (map fst a) -> sget a i = None.
Proof.
  induction a as [|[j v] a IH]; cbn [map fst sget In]; intro H; [reflexivity|].
  destruct (i =? j)%N eqn:E.
  - apply N.eqb_eq in E. subst. exfalso. apply H. left. reflexivity.
  - apply IH. intro Hin. apply H. right. exact Hin.
Qed.

Definition same_on (R : N -> Prop) (s s' : state) : Prop := forall i, R i -> sget s i = sget s' i.
Lemma same_on_sset R s s' d v : same_on R s s' -> same_on R (sset s d v) (sset s' d v).
Proof. intros H i Ri. rewrite !sget_sset. destruct (i =? d)%N; [reflexivity|apply H; exact Ri]. Qed.
Lemma same_on_app R pre s s' : same_on R s s' -> same_on R (pre ++ s) (pre ++ s').
Proof. intros H i Ri. rewrite !sget_app. destruct (sget pre i); [reflexivity|apply H; exact Ri]. Qed.

(* ------------------------------------------------------------------ *)
(* evaluation of a function only reads the ids that occur in it *)
Lemma fn_eval_same f s s' v ids : (forall i, occurs f i -> sget s i = sget s' i) ->
  fn_eval f s = Some (v, ids) -> exists ids', fn_eval f s' = Some (v, ids').
Proof.
  intros A E.
  assert (C : covers s' f).
  { intros i Ho. rewrite <- (A i Ho). apply (proj1 (fn_eval_defined_iff f s)); [congruence|exact Ho]. }
  destruct (fn_eval_total f s' C) as (v' & ids' & E'). exists ids'. rewrite E'.
  destruct (fn_eval_sound _ _ _ _ E) as [Hv _]. destruct (fn_eval_sound _ _ _ _ E') as [Hv' _].
  rewrite (Hv (total s) (total_agrees s)), (Hv' (total s') (total_agrees s')).
  do 2 f_equal. unfold denote. apply it_val_local. intros i Hi. unfold total.
  change (occurs_terms (fn_terms f) i) with (occurs f i) in Hi. rewrite (A i Hi). reflexivity.
Qed.
Lemma fn_eval_same' f s s' : (forall i, occurs f i -> sget s i = sget s' i) ->
  match fn_eval f s, fn_eval f s' with
  | Some (v, _), Some (v', _) => v = v'
  | None, None => True
  | _, _ => False
  end.
Proof.
  intro A. destruct (fn_eval f s) as [[v ids]|] eqn:E.
  - destruct (fn_eval_same f s s' v ids A E) as (ids' & ->). reflexivity.
  - destruct (fn_eval f s') as [[v' ids']|] eqn:E'; [|exact Logic.I].
    destruct (fn_eval_same f s' s v' ids') as (ids2 & E2); [intros i Ho; symmetry; apply A; exact Ho|exact E'|].
    congruence.
Qed.

(* ------------------------------------------------------------------ *)
(* the dependency pass from two states that agree on every id a dependency function reads: both
   fail, or both succeed and prepend the SAME new bindings *)
Section DepsSame.
  Variable R : N -> Prop.
  Variable deps : list (N * function).
  Hypothesis HR : forall d f i, In (d, f) deps -> occurs f i -> R i.

  Lemma deps_round_same : forall b s s' failed, incl b deps -> same_on R s s' ->
    exists pre fl, deps_round b s failed = (pre ++ s, fl) /\ deps_round b s' failed = (pre ++ s', fl) /\
                   incl (map fst pre) (map fst b) /\ (forall x, In x fl -> In x failed \/ In x b).
  Proof.
    induction b as [|[d f] b IH]; intros s s' failed Hi Sa; cbn [deps_round].
    - exists [], failed. cbn [app map]. repeat split; auto. intros x [].
    - assert (Hb : incl b deps) by (intros x Hx; apply Hi; right; exact Hx).
      assert (Hf : forall i, occurs f i -> sget s i = sget s' i).
      { intros i Ho. apply Sa. apply (HR d f i); [apply Hi; left; reflexivity|exact Ho]. }
      pose proof (fn_eval_same' f s s' Hf) as X.
      destruct (fn_eval f s) as [[v ids]|]; destruct (fn_eval f s') as [[v' ids']|]; cbn in X; try contradiction.
      + subst v'. destruct (IH (sset s d v) (sset s' d v) failed Hb) as (pre & fl & E1 & E2 & K & Fl).
        { apply same_on_sset; exact Sa. }
        exists (pre ++ [(d, v)]), fl. rewrite E1, E2. unfold sset. rewrite <- !app_assoc. cbn [app].
        split; [reflexivity|]. split; [reflexivity|]. split.
        * rewrite map_app. cbn [map fst]. intros x Hx. apply in_app_iff in Hx.
          destruct Hx as [Hx|[<-|[]]]; [right; apply K; exact Hx|left; reflexivity].
        * intros x Hx. destruct (Fl x Hx) as [A|A]; [left; exact A|right; right; exact A].
      + destruct (IH s s' (failed ++ [(d, f)]) Hb Sa) as (pre & fl & E1 & E2 & K & Fl).
        exists pre, fl. split; [exact E1|]. split; [exact E2|]. split.
        * intros x Hx. cbn [map fst]. right. apply K. exact Hx.
        * intros x Hx. destruct (Fl x Hx) as [A|A]; [|right; right; exact A].
          apply in_app_iff in A. destruct A as [A|[<-|[]]]; [left; exact A|right; left; reflexivity].
  Qed.

  Lemma eval_deps_fuel_same : forall fuel bucket last s s', incl bucket deps -> same_on R s s' ->
    match eval_deps_fuel fuel bucket last s, eval_deps_fuel fuel bucket last s' with
    | Some t, Some t' => exists pre, t = pre ++ s /\ t' = pre ++ s' /\ incl (map fst pre) (map fst deps)
    | None, None => True
    | _, _ => False
    end.
  Proof.
    induction fuel as [|k IH]; intros bucket last s s' Hi Sa; cbn [eval_deps_fuel]; [exact Logic.I|].
    assert (Hr : incl (rev bucket) deps) by (intros x Hx; apply Hi; apply in_rev; exact Hx).
    destruct (deps_round_same (rev bucket) s s' [] Hr Sa) as (pre & fl & E1 & E2 & K & Fl).
    rewrite E1, E2.
    assert (Kd : incl (map fst pre) (map fst deps)).
    { intros x Hx. apply K in Hx. apply in_map_iff in Hx. destruct Hx as (p & <- & Hp).
      apply in_map. apply Hr. exact Hp. }
    destruct fl as [|x fl]; [exists pre; auto|].
    destruct (Nat.eqb last (List.length (x :: fl))); [exact Logic.I|].
    assert (Hi' : incl (x :: fl) deps).
    { intros y Hy. destruct (Fl y Hy) as [[]|A]. apply Hr. exact A. }
    pose proof (IH (x :: fl) (List.length (x :: fl)) (pre ++ s) (pre ++ s') Hi' (same_on_app R pre s s' Sa)) as X.
    destruct (eval_deps_fuel k (x :: fl) (List.length (x :: fl)) (pre ++ s)) as [t|];
      destruct (eval_deps_fuel k (x :: fl) (List.length (x :: fl)) (pre ++ s')) as [t'|]; try exact X.
    destruct X as (pre2 & -> & -> & K2). exists (pre2 ++ pre). rewrite <- !app_assoc.
    split; [reflexivity|]. split; [reflexivity|]. rewrite map_app. apply incl_app; assumption.
  Qed.
End DepsSame.

Lemma eval_deps_same I s s' : (forall i, occurs_dep I i -> sget s i = sget s' i) ->
  match eval_deps (i_deps I) s, eval_deps (i_deps I) s' with
  | Some t, Some t' => exists pre, t = pre ++ s /\ t' = pre ++ s' /\ incl (map fst pre) (dkeys (i_deps I))
  | None, None => True
  | _, _ => False
  end.
Proof.
  intro A. unfold eval_deps, dkeys.
  apply (eval_deps_fuel_same (occurs_dep I) (i_deps I)); [|apply incl_refl|exact A].
  intros d f i Hin Ho. exists d, f. split; assumption.
Qed.

(* ------------------------------------------------------------------ *)
(* the completion of vacant variables, id by id *)
Definition fill_at (dvs : list dvar) (i : N) : option num :=
  match List.find (is_id i) dvs with
  | Some d => match dv_bound_of d with
              | Some b => match nearest_to_zero b with Fin x => Some x | _ => None end
              | None => None
              end
  | None => None
  end.
Lemma fill_vacant_at : forall dvs a a', fill_vacant dvs a = Some a' ->
  forall i, sget a' i = match sget a i with Some v => Some v | None => fill_at dvs i end.
Proof.
  induction dvs as [|d dvs IH]; intros a a' H i; cbn [fill_vacant] in H.
  - inversion H; subst. unfold fill_at. cbn [List.find]. destruct (sget a' i); reflexivity.
  - unfold fill_at. cbn [List.find]. unfold is_id at 1. fold (fill_at dvs i).
    destruct (sget a (dv_id d)) as [v0|] eqn:G.
    + rewrite (IH _ _ H i). destruct (sget a i) as [v|] eqn:Gi; [reflexivity|].
      destruct (i =? dv_id d)%N eqn:E; [|reflexivity].
      apply N.eqb_eq in E. subst i. congruence.
    + destruct (dv_bound_of d) as [b|] eqn:B; [|discriminate].
      destruct (nearest_to_zero b) as [|x0| |] eqn:Nz; try discriminate.
      rewrite (IH _ _ H i), sget_sset. destruct (i =? dv_id d)%N eqn:E.
      * apply N.eqb_eq in E. subst i. rewrite G. cbn beta iota. rewrite B, Nz. reflexivity.
      * reflexivity.
Qed.

(* ------------------------------------------------------------------ *)
(* declarations: last declaration of an id, last declaration with a fixed value *)
Lemma find_refine {X} (p q : X -> bool) : (forall y, q y = true -> p y = true) ->
  forall l d, List.find p l = Some d -> q d = true -> List.find q l = Some d.
Proof.
  intros Hpq. induction l as [|a l IH]; intros d H Q; cbn [List.find] in *; [discriminate|].
  destruct (p a) eqn:Pa.
  - inversion H; subst. rewrite Q. reflexivity.
  - destruct (q a) eqn:Qa; [rewrite (Hpq a Qa) in Pa; discriminate|]. apply IH; assumption.
Qed.
Lemma eff_fixed dvs i d x : eff_dv dvs i = Some d -> dv_subst d = Some x -> fixed_dv dvs i = Some d.
Proof.
  unfold eff_dv, fixed_dv. intros E Sd. apply (find_refine (is_id i) (has_fixed i)); [|exact E|].
  - intros y Hy. unfold has_fixed in Hy. apply andb_true_iff in Hy. tauto.
  - unfold has_fixed. apply find_some in E. destruct E as [_ E]. rewrite E, Sd. reflexivity.
Qed.
Lemma eff_dv_mem dvs i :
  mem i (map dv_id dvs) = match eff_dv dvs i with Some _ => true | None => false end.
Proof.
  destruct (eff_dv dvs i) as [d|] eqn:E.
  - destruct (eff_dv_in _ _ _ E) as [Hin Ei]. apply mem_In. apply in_map_iff. exists d. auto.
  - apply Bool.not_true_is_false. intro M. apply mem_In in M. apply in_map_iff in M.
    destruct M as (d & Ei & Hin). apply (proj1 (eff_dv_none dvs i) E d Hin Ei).
Qed.

(* ------------------------------------------------------------------ *)
(* the hypotheses *)

(* (H1), state-wise: inserting the fixed values does not change what the dependency functions read
   from st *)
Definition fixed_unread_at (I : instance) (st : state) : Prop :=
  forall i, occurs_dep I i -> sget (insert_subst (i_dvs I) st) i = sget st i.
(* (H1): no dependency function mentions an id that carries a fixed value *)
Definition fixed_unread (I : instance) : Prop :=
  forall d, In d (i_dvs I) -> dv_subst d <> None -> ~ occurs_dep I (dv_id d).
(* alternative sufficient condition: st already stores every fixed value *)
Definition stores_fixed (I : instance) (st : state) : Prop :=
  forall d x, In d (i_dvs I) -> dv_subst d = Some x -> sget st (dv_id d) = Some x.
(* (H2): a dependency key carries no fixed value *)
Definition keys_unfixed (I : instance) : Prop :=
  forall d, In d (i_dvs I) -> In (dv_id d) (dkeys (i_deps I)) -> dv_subst d = None.
(* (H3): if the LAST declaration of an id carries no fixed value, no declaration of it does *)
Definition last_decl_decides (dvs : list dvar) : Prop :=
  forall i d, eff_dv dvs i = Some d -> dv_subst d = None ->
    forall d', In d' dvs -> dv_id d' = i -> dv_subst d' = None.

Lemma fixed_unread_everywhere I : fixed_unread I -> forall st, fixed_unread_at I st.
Proof.
  intros H st i Ho. rewrite sget_insert_subst. destruct (fixed_dv (i_dvs I) i) as [d|] eqn:E; [|reflexivity].
  destruct (fixed_dv_some _ _ _ E) as (Hin & Ei & Hs). exfalso. apply (H d Hin Hs). rewrite Ei. exact Ho.
Qed.
Lemma stores_fixed_unread_at I st : stores_fixed I st -> fixed_unread_at I st.
Proof.
  intros H i _. rewrite sget_insert_subst. destruct (fixed_dv (i_dvs I) i) as [d|] eqn:E; [|reflexivity].
  destruct (fixed_dv_some _ _ _ E) as (Hin & Ei & Hs). destruct (dv_subst d) as [x|] eqn:Sd; [|congruence].
  rewrite <- Ei. symmetry. apply H; assumption.
Qed.

Lemma NoDup_map_inj {X Y} (f : X -> Y) : forall l a b, NoDup (map f l) -> In a l -> In b l -> f a = f b -> a = b.
Proof.
  induction l as [|x l IH]; intros a b ND Ha Hb E; [destruct Ha|].
  cbn [map] in ND. inversion ND as [|? ? Hn ND']; subst.
  destruct Ha as [<-|Ha]; destruct Hb as [<-|Hb]; [reflexivity| | |apply IH; assumption].
  - exfalso. apply Hn. rewrite E. apply in_map. exact Hb.
  - exfalso. apply Hn. rewrite <- E. apply in_map. exact Ha.
Qed.
Lemma distinct_ids_last_decl dvs : NoDup (map dv_id dvs) -> last_decl_decides dvs.
Proof.
  intros ND i d E Sd d' Hin' Ei'. destruct (eff_dv_in _ _ _ E) as [Hin Ei].
  rewrite (NoDup_map_inj dv_id dvs d' d ND Hin' Hin); [exact Sd|congruence].
Qed.

(* ------------------------------------------------------------------ *)
(* SampleSet::get on the variable table, fixed values included *)
Lemma get_state_spec_fixed S' k st' : NoDup (samples_ids S') -> samples_state S' k = Some st' ->
  forall dvs acc,
    (forall d, In d dvs -> dv_subst d = None -> sget st' (dv_id d) <> None) ->
    exists acc', get_state (map (SamplesState.mk S') dvs) k acc = Some acc' /\
      forall i, sget acc' i = match eff_dv dvs i with
                              | Some d => match dv_subst d with Some x => Some x | None => sget st' i end
                              | None => sget acc i
                              end.
Proof.
  intros ND Hk. induction dvs as [|d dvs IH]; intros acc H; cbn [map get_state].
  - exists acc. split; [reflexivity|]. intro i. reflexivity.
  - cbn [SamplesState.mk sd_dv sd_samples]. destruct (dv_subst d) as [x|] eqn:Sd.
    + destruct (IH (sset acc (dv_id d) x)) as (acc' & Ga & Sa).
      { intros d' Hd'. apply H. right. exact Hd'. }
      exists acc'. split; [exact Ga|]. intro i. rewrite Sa, eff_dv_cons.
      destruct (eff_dv dvs i) as [d'|]; [reflexivity|]. rewrite sget_sset. unfold is_id.
      destruct (i =? dv_id d)%N; [rewrite Sd; reflexivity|reflexivity].
    + destruct (sget st' (dv_id d)) as [v|] eqn:G; [|exfalso; apply (H d (or_introl eq_refl) Sd G)].
      destruct (transpose_get S' (dv_id d) k st' v ND Hk G) as (g & Tg & Sg). rewrite Tg, Sg.
      destruct (IH (sset acc (dv_id d) v)) as (acc' & Ga & Sa).
      { intros d' Hd'. apply H. right. exact Hd'. }
      exists acc'. split; [exact Ga|]. intro i. rewrite Sa, eff_dv_cons.
      destruct (eff_dv dvs i) as [d'|]; [reflexivity|]. rewrite sget_sset. unfold is_id.
      destruct (i =? dv_id d)%N eqn:Ei; [|reflexivity].
      apply N.eqb_eq in Ei. subst i. rewrite Sd, G. reflexivity.
Qed.

(* ------------------------------------------------------------------ *)
(* C06 composite, variable values, instances with fixed values *)
Theorem get_evaluate_samples_state_fixed I S k st ss m1 m2 :
  NoDup (samples_ids S) -> samples_state S k = Some st ->
  fixed_unread_at I st -> keys_unfixed I -> last_decl_decides (i_dvs I) ->
  inst_eval_samples I S = Some ss -> ss_get ss k = Some m1 -> inst_eval I st = Some m2 ->
  forall i, sget (so_state m1) i = if mem i (map dv_id (i_dvs I)) then sget (so_state m2) i else None.
Proof.
  intros ND Hk HA HK HL. unfold inst_eval_samples, inst_eval.
  destruct (eval_samples_loop constr_eval_samples (i_cs I) S _ []) as [[fr cs1]|]; [|discriminate].
  destruct (eval_samples_loop removed_eval_samples (i_rs I) S fr cs1) as [[fe cs2]|]; [|discriminate].
  destruct (samples_map _ S) as [objs|]; [|discriminate].
  destruct (complete_states I S) as [S'|] eqn:CS; [|discriminate].
  intro H; inversion H; subst ss; clear H.
  destruct (negb (check_bound (i_dvs I) st tol7)); [intros _ H; discriminate|].
  destruct (eval_loop constr_eval (i_cs I) st true []) as [[fr2 ev1]|]; [|intros _ H; discriminate].
  destruct (eval_loop removed_eval (i_rs I) st fr2 ev1) as [[fe2 ev2]|]; [|intros _ H; discriminate].
  destruct (fn_eval (fn_or_zero (i_obj I)) st) as [[ob ids]|]; [|intros _ H; discriminate].
  destruct (complete_states_spec I S S' CS) as [K G]. destruct (G k st Hk) as (t & st' & Ed & Fv & Hk').
  pose proof (eval_deps_same I (insert_subst (i_dvs I) st) st HA) as X. rewrite Ed in X.
  destruct (eval_deps (i_deps I) (insert_subst (i_dvs I) st)) as [s1|]; [|intros _ H; discriminate].
  destruct X as (pre & E1 & E2 & Kp).
  destruct (fill_vacant (i_dvs I) s1) as [s2|] eqn:Fv2; [|intros _ H; discriminate].
  intros Gs H2; inversion H2; subst m2; clear H2. cbn [so_state].
  unfold ss_get in Gs. cbn [ss_constraints ss_dvs ss_objectives] in Gs.
  destruct (omap _ cs2) as [evs|]; [|discriminate].
  assert (ND' : NoDup (samples_ids S')) by (rewrite K; exact ND).
  destruct (get_state_spec_fixed S' k st' ND' Hk' (i_dvs I) []) as (acc' & Ga & Sa).
  { intros d Hd _. destruct (fill_vacant_spec _ _ _ Fv) as (_ & H2 & _). apply H2. exact Hd. }
  change (map (fun d => {| sd_dv := d; sd_samples := transpose_at S' (dv_id d) |}) (i_dvs I))
    with (map (SamplesState.mk S') (i_dvs I)) in Gs.
  rewrite Ga in Gs.
  destruct (match Some objs with Some o => sv_get o k | None => None end); [|discriminate].
  destruct (bget _ k); [|discriminate]. destruct (bget _ k); [|discriminate].
  inversion Gs; subst m1; clear Gs. cbn [so_state]. intro i. rewrite Sa, eff_dv_mem.
  destruct (eff_dv (i_dvs I) i) as [d|] eqn:Ef; [|reflexivity].
  destruct (eff_dv_in _ _ _ Ef) as [Hd Ei]. destruct (dv_subst d) as [x|] eqn:Sd.
  - (* the last declaration of i is fixed: not a dependency key, so the inserted value survives *)
    symmetry. apply (proj1 (fill_vacant_spec _ _ _ Fv2)). rewrite E1, sget_app, sget_notin.
    + rewrite sget_insert_subst, (eff_fixed _ _ _ _ Ef Sd). exact Sd.
    + intro Hin. apply Kp in Hin. specialize (HK d Hd). rewrite Ei in HK. rewrite (HK Hin) in Sd. discriminate.
  - (* not fixed: no declaration of i is fixed, both routes start from the same value at i *)
    assert (Fx : fixed_dv (i_dvs I) i = None) by (apply fixed_dv_none; apply (HL i d Ef Sd)).
    rewrite (fill_vacant_at _ _ _ Fv i), (fill_vacant_at _ _ _ Fv2 i), E1, E2, !sget_app,
      sget_insert_subst, Fx. reflexivity.
Qed.

(* the instance-only form: (H1) no dependency function reads a fixed id, (H2), distinct ids *)
Corollary get_evaluate_samples_state_H123 I S k st ss m1 m2 :
  NoDup (samples_ids S) -> samples_state S k = Some st ->
  fixed_unread I -> keys_unfixed I -> NoDup (map dv_id (i_dvs I)) ->
  inst_eval_samples I S = Some ss -> ss_get ss k = Some m1 -> inst_eval I st = Some m2 ->
  forall i, sget (so_state m1) i = if mem i (map dv_id (i_dvs I)) then sget (so_state m2) i else None.
Proof.
  intros ND Hk H1 H2 H3. apply get_evaluate_samples_state_fixed; auto.
  - apply fixed_unread_everywhere. exact H1.
  - apply distinct_ids_last_decl. exact H3.
Qed.

(* the theorem of SamplesState.v is the special case without fixed values *)
Corollary get_evaluate_samples_state_again I S k st ss m1 m2 :
  NoDup (samples_ids S) -> samples_state S k = Some st ->
  (forall d, In d (i_dvs I) -> dv_subst d = None) ->
  inst_eval_samples I S = Some ss -> ss_get ss k = Some m1 -> inst_eval I st = Some m2 ->
  forall i, sget (so_state m1) i = if mem i (map dv_id (i_dvs I)) then sget (so_state m2) i else None.
Proof.
  intros ND Hk NoSub. apply get_evaluate_samples_state_fixed; auto.
  - apply fixed_unread_everywhere. intros d Hd Hs. exfalso. apply Hs. apply NoSub. exact Hd.
  - intros d Hd _. apply NoSub. exact Hd.
  - intros i d _ _ d' Hd' _. apply NoSub. exact Hd'.
Qed.

(* ------------------------------------------------------------------ *)
(* boolean form of the hypotheses *)
Definition fids (f : function) : list N := flat_map fst (fn_terms f).
Lemma occurs_fids f i : occurs f i <-> In i (fids f).
Proof.
  unfold occurs, occurs_terms, fids. rewrite in_flat_map. split.
  - intros (m & c & Hin & Him). exists (m, c). auto.
  - intros ([m c] & Hin & Him). exists m, c. auto.
Qed.
Definition dep_ids (I : instance) : list N := flat_map (fun df => fids (snd df)) (i_deps I).
Lemma occurs_dep_ids I i : occurs_dep I i <-> In i (dep_ids I).
Proof.
  unfold occurs_dep, dep_ids. rewrite in_flat_map. split.
  - intros (d & f & Hin & Ho). exists (d, f). split; [exact Hin|]. apply occurs_fids. exact Ho.
  - intros ([d f] & Hin & Ho). exists d, f. split; [exact Hin|]. apply occurs_fids. exact Ho.
Qed.
Fixpoint nodupb (l : list N) : bool :=
  match l with [] => true | x :: l' => negb (mem x l') && nodupb l' end.
Lemma nodupb_NoDup l : nodupb l = true -> NoDup l.
Proof.
  induction l as [|x l IH]; cbn [nodupb]; intro H; [constructor|].
  apply andb_true_iff in H. destruct H as [H1 H2]. constructor; [|apply IH; exact H2].
  intro Hin. apply mem_In in Hin. rewrite Hin in H1. discriminate.
Qed.
Definition unfixed_or_outside (l : list N) (d : dvar) : bool :=
  match dv_subst d with Some _ => negb (mem (dv_id d) l) | None => true end.
Definition fixed_unreadb (I : instance) : bool := forallb (unfixed_or_outside (dep_ids I)) (i_dvs I).
Definition keys_unfixedb (I : instance) : bool := forallb (unfixed_or_outside (dkeys (i_deps I))) (i_dvs I).
Definition wf_fixed (I : instance) : bool :=
  fixed_unreadb I && keys_unfixedb I && nodupb (map dv_id (i_dvs I)).

Lemma unfixed_or_outside_spec l d : unfixed_or_outside l d = true -> In (dv_id d) l -> dv_subst d = None.
Proof.
  unfold unfixed_or_outside. destruct (dv_subst d); [|reflexivity]. intros H Hin.
  apply mem_In in Hin. rewrite Hin in H. discriminate.
Qed.
Lemma fixed_unreadb_true I : fixed_unreadb I = true -> fixed_unread I.
Proof.
  unfold fixed_unreadb. rewrite forallb_forall. intros H d Hd Hs Ho. apply Hs.
  apply (unfixed_or_outside_spec (dep_ids I)); [apply H; exact Hd|apply occurs_dep_ids; exact Ho].
Qed.
Lemma keys_unfixedb_true I : keys_unfixedb I = true -> keys_unfixed I.
Proof.
  unfold keys_unfixedb. rewrite forallb_forall. intros H d Hd Hin.
  apply (unfixed_or_outside_spec (dkeys (i_deps I))); [apply H; exact Hd|exact Hin].
Qed.
Lemma wf_fixed_true I : wf_fixed I = true ->
  fixed_unread I /\ keys_unfixed I /\ NoDup (map dv_id (i_dvs I)).
Proof.
  unfold wf_fixed. rewrite !andb_true_iff. intros [[A B] C].
  split; [apply fixed_unreadb_true; exact A|]. split; [apply keys_unfixedb_true; exact B|].
  apply nodupb_NoDup. exact C.
Qed.

Theorem get_evaluate_samples_state_wf I S k st ss m1 m2 :
  NoDup (samples_ids S) -> samples_state S k = Some st -> wf_fixed I = true ->
  inst_eval_samples I S = Some ss -> ss_get ss k = Some m1 -> inst_eval I st = Some m2 ->
  forall i, sget (so_state m1) i = if mem i (map dv_id (i_dvs I)) then sget (so_state m2) i else None.
Proof.
  intros ND Hk W. destruct (wf_fixed_true I W) as (H1 & H2 & H3).
  apply get_evaluate_samples_state_H123; assumption.
Qed.

(* ------------------------------------------------------------------ *)
(* SUCCESS of evaluate_samples against success of evaluate on the stored states *)
Lemma samples_map_total f : forall S, (forall st ids, In (st, ids) S -> f st <> None) ->
  exists sv, samples_map f S = Some sv.
Proof.
  induction S as [|[st ids] S IH]; intro H; cbn [samples_map]; [eauto|].
  destruct (f st) as [v|] eqn:E; [|exfalso; apply (H st ids); [left; reflexivity|exact E]].
  destruct IH as [r ->]; [intros st' ids' Hin; apply (H st' ids'); right; exact Hin|]. eauto.
Qed.
Lemma samples_map_some f : forall S sv, samples_map f S = Some sv ->
  forall st ids, In (st, ids) S -> f st <> None.
Proof.
  induction S as [|[st0 ids0] S IH]; intros sv H st ids Hin; [destruct Hin|]. cbn [samples_map] in H.
  destruct (f st0) as [v|] eqn:E; [|discriminate]. destruct (samples_map f S) as [r|] eqn:R; [|discriminate].
  destruct Hin as [Eq|Hin]; [inversion Eq; subst; congruence|]. eapply IH; eauto.
Qed.

Definition eq_supported (e : Z) : Prop := e = EQ_ZERO \/ e = LE_ZERO.
Lemma feas_of_defined e v : feas_of e v <> None <-> eq_supported e.
Proof.
  unfold feas_of, eq_supported. destruct (e =? EQ_ZERO)%Z eqn:A.
  - apply Z.eqb_eq in A. split; [auto|discriminate].
  - apply Z.eqb_neq in A. destruct (e =? LE_ZERO)%Z eqn:B.
    + apply Z.eqb_eq in B. split; [auto|discriminate].
    + apply Z.eqb_neq in B. split; [congruence|tauto].
Qed.
Lemma feas_map_total e : eq_supported e -> forall l, exists fe, feas_map e l = Some fe.
Proof.
  intros Se. induction l as [|[k v] l [r IH]]; cbn [feas_map]; [eauto|].
  destruct (feas_of e v) as [b|] eqn:F; [|exfalso; apply (proj2 (feas_of_defined e v) Se F)].
  rewrite IH. eauto.
Qed.
Lemma feas_map_some e l fe : feas_map e l = Some fe -> l <> [] -> eq_supported e.
Proof.
  destruct l as [|[k v] l]; [congruence|]. cbn [feas_map]. intros H _. apply (feas_of_defined e v).
  destruct (feas_of e v); [discriminate|discriminate H].
Qed.

Lemma fval_defined f st :
  (match fn_eval f st with Some (v, _) => Some v | None => None end) <> None <-> covers st f.
Proof.
  rewrite <- fn_eval_defined_iff.
  destruct (fn_eval f st) as [[v ids]|]; split; intro H; try discriminate; exfalso; apply H; reflexivity.
Qed.

Lemma constr_eval_samples_some c S sc : constr_eval_samples c S = Some sc ->
  (forall st ids, In (st, ids) S -> covers st (cfun c)) /\ (samples_ids S <> [] -> supported c).
Proof.
  unfold constr_eval_samples. cbn zeta.
  destruct (samples_map _ S) as [vals|] eqn:M; [|discriminate].
  destruct (feas_map (c_eq c) (sv_iter vals)) as [fe|] eqn:F; [|discriminate].
  intros _. split.
  - intros st ids Hin. apply fval_defined. apply (samples_map_some _ _ _ M st ids Hin).
  - intro Ne. apply (feas_map_some _ _ _ F). intro E. apply Ne.
    rewrite <- (samples_map_keys _ _ _ M), E. reflexivity.
Qed.
Lemma constr_eval_samples_total c S : supported c -> (forall st ids, In (st, ids) S -> covers st (cfun c)) ->
  exists sc, constr_eval_samples c S = Some sc /\ sc_eq sc = c_eq c.
Proof.
  intros Su C. unfold constr_eval_samples. cbn zeta.
  destruct (samples_map_total
              (fun st => match fn_eval (fn_or_zero (c_fn c)) st with Some (v, _) => Some v | None => None end) S)
    as [vals M].
  { intros st ids Hin. apply fval_defined. apply (C st ids Hin). }
  rewrite M. destruct (feas_map_total (c_eq c) Su (sv_iter vals)) as [fe ->]. eexists. split; reflexivity.
Qed.
Lemma removed_eval_samples_some r S sc : removed_eval_samples r S = Some sc ->
  exists c sc0, r_c r = Some c /\ constr_eval_samples c S = Some sc0.
Proof.
  unfold removed_eval_samples. destruct (r_c r) as [c|]; [|discriminate].
  destruct (constr_eval_samples c S) as [sc0|] eqn:E0; [|discriminate]. intros _. exists c, sc0. auto.
Qed.
Lemma removed_eval_samples_total r S c : r_c r = Some c -> supported c ->
  (forall st ids, In (st, ids) S -> covers st (cfun c)) ->
  exists sc, removed_eval_samples r S = Some sc /\ sc_eq sc = c_eq c.
Proof.
  intros E Su C. unfold removed_eval_samples. rewrite E.
  destruct (constr_eval_samples_total c S Su C) as (sc0 & -> & Eq). eexists. split; [reflexivity|exact Eq].
Qed.

Lemma eval_samples_loop_total {X} (ev : X -> samples -> option sampled_constr) S : forall l,
  (forall x, In x l -> exists sc, ev x S = Some sc /\ eq_supported (sc_eq sc)) ->
  forall m acc, exists r, eval_samples_loop ev l S m acc = Some r.
Proof.
  induction l as [|x l IH]; intros H m acc; cbn [eval_samples_loop]; [eauto|].
  destruct (H x (or_introl eq_refl)) as (sc & -> & Su). unfold mark_infeasible.
  destruct (feas_map_total _ Su (sv_iter (sc_values sc))) as [fe ->].
  apply IH. intros y Hy. apply H. right. exact Hy.
Qed.
Lemma eval_samples_loop_some {X} (ev : X -> samples -> option sampled_constr) S : forall l m acc r,
  eval_samples_loop ev l S m acc = Some r -> forall x, In x l -> exists sc, ev x S = Some sc.
Proof.
  induction l as [|x l IH]; intros m acc r H y Hy; [destruct Hy|]. cbn [eval_samples_loop] in H.
  destruct (ev x S) as [sc|] eqn:E; [|discriminate].
  destruct (mark_infeasible m sc) as [m'|]; [|discriminate].
  destruct Hy as [<-|Hy]; [eauto|]. eapply IH; eauto.
Qed.

Lemma complete_states_total I : forall S,
  (forall st ids, In (st, ids) S ->
     exists s1, eval_deps (i_deps I) st = Some s1 /\ fill_vacant (i_dvs I) s1 <> None) ->
  exists S', complete_states I S = Some S'.
Proof.
  induction S as [|[st ids] S IH]; intro H; cbn [complete_states]; [eauto|].
  destruct (H st ids (or_introl eq_refl)) as (s1 & -> & F).
  destruct (fill_vacant (i_dvs I) s1) as [s2|]; [|congruence].
  destruct IH as [r ->]; [intros st' ids' Hin; apply (H st' ids'); right; exact Hin|]. eauto.
Qed.
Lemma complete_states_some I : forall S S', complete_states I S = Some S' ->
  forall st ids, In (st, ids) S -> eval_deps (i_deps I) st <> None.
Proof.
  induction S as [|[st0 ids0] S IH]; intros S' H st ids Hin; [destruct Hin|]. cbn [complete_states] in H.
  destruct (eval_deps (i_deps I) st0) as [s1|] eqn:E; [|discriminate].
  destruct (fill_vacant (i_dvs I) s1) as [s2|]; [|discriminate].
  destruct (complete_states I S) as [r|] eqn:R; [|discriminate].
  destruct Hin as [Eq|Hin]; [inversion Eq; subst; congruence|]. eapply IH; eauto.
Qed.

(* the dependency pass succeeds from st iff it succeeds from st extended by the fixed values *)
Lemma eval_deps_fixed_iff I st : fixed_unread_at I st ->
  (eval_deps (i_deps I) (insert_subst (i_dvs I) st) <> None <-> eval_deps (i_deps I) st <> None).
Proof.
  intro HA. pose proof (eval_deps_same I (insert_subst (i_dvs I) st) st HA) as X.
  destruct (eval_deps (i_deps I) (insert_subst (i_dvs I) st)); destruct (eval_deps (i_deps I) st);
    try contradiction; split; intro H; try discriminate; exact H.
Qed.

(* (<=) if Instance::evaluate succeeds on the state of every entry then evaluate_samples succeeds.
   Needed besides (H1): every constraint has a supported equality (evaluate does not look at the
   kind of a constraint after the first violated one, evaluate_samples always does) and every
   removed entry carries a constraint (else evaluate_samples fails even on an empty collection). *)
Theorem inst_eval_samples_succeeds_if I S :
  (forall st ids, In (st, ids) S -> fixed_unread_at I st) ->
  (forall c, In c (i_cs I) -> supported c) ->
  (forall r, In r (i_rs I) -> exists c, r_c r = Some c /\ supported c) ->
  (forall st ids, In (st, ids) S -> exists sol, inst_eval I st = Some sol) ->
  exists ss, inst_eval_samples I S = Some ss.
Proof.
  intros HA SupA SupR Hall.
  assert (OK : forall st ids, In (st, ids) S -> eval_ok I st).
  { intros st ids Hin. apply inst_eval_succeeds_iff. eapply Hall; eauto. }
  unfold inst_eval_samples.
  destruct (eval_samples_loop_total constr_eval_samples S (i_cs I)) with
    (m := map (fun k : N => (k, true)) (samples_ids S)) (acc := @nil sampled_constr) as [[fr cs1] L1].
  { intros c Hc. destruct (constr_eval_samples_total c S (SupA c Hc)) as (sc & E & Eq).
    - intros st ids Hin. destruct (OK st ids Hin) as (_ & _ & C1 & _). apply C1. exact Hc.
    - exists sc. split; [exact E|]. unfold eq_supported. rewrite Eq. apply SupA. exact Hc. }
  rewrite L1.
  destruct (eval_samples_loop_total removed_eval_samples S (i_rs I)) with (m := fr) (acc := cs1)
    as [[fe cs2] L2].
  { intros r Hr. destruct (SupR r Hr) as (c & Er & Su).
    destruct (removed_eval_samples_total r S c Er Su) as (sc & E & Eq).
    - intros st ids Hin. destruct (OK st ids Hin) as (_ & _ & _ & C2 & _).
      destruct (C2 r Hr) as (c' & Er' & C). assert (c' = c) by congruence. subst c'. exact C.
    - exists sc. split; [exact E|]. unfold eq_supported. rewrite Eq. exact Su. }
  rewrite L2.
  destruct (samples_map_total
              (fun st => match fn_eval (fn_or_zero (i_obj I)) st with Some (v, _) => Some v | None => None end) S)
    as [objs Mo].
  { intros st ids Hin. apply fval_defined. destruct (OK st ids Hin) as (_ & _ & _ & _ & _ & CO & _). exact CO. }
  rewrite Mo.
  destruct (complete_states_total I S) as [S' ->]; [|eauto].
  intros st ids Hin. destruct (OK st ids Hin) as (V & _ & _ & _ & _ & _ & D).
  apply (eval_deps_fixed_iff I st (HA st ids Hin)) in D.
  destruct (eval_deps (i_deps I) st) as [s1|]; [|congruence]. exists s1. split; [reflexivity|].
  destruct (fill_vacant_total _ V s1) as [s2 ->]. discriminate.
Qed.

(* (=>) if evaluate_samples succeeds then evaluate succeeds on the state of an entry, PROVIDED that
   state passes the bound check (evaluate_samples never checks bounds).  The entry must list a
   sample id, or else all constraints must be known to have a supported equality. *)
Theorem inst_eval_samples_succeeds_only_if I S ss st ids :
  inst_eval_samples I S = Some ss -> In (st, ids) S ->
  ids <> [] \/ (forall c, In c (all_constrs I) -> supported c) ->
  fixed_unread_at I st -> check_bound (i_dvs I) st tol7 = true ->
  exists sol, inst_eval I st = Some sol.
Proof.
  intros H Hin Hs HA CB. unfold inst_eval_samples in H.
  destruct (eval_samples_loop constr_eval_samples (i_cs I) S _ []) as [[fr cs1]|] eqn:L1; [|discriminate].
  destruct (eval_samples_loop removed_eval_samples (i_rs I) S fr cs1) as [[fe cs2]|] eqn:L2; [|discriminate].
  destruct (samples_map _ S) as [objs|] eqn:Mo; [|discriminate].
  destruct (complete_states I S) as [S'|] eqn:CS; [|discriminate]. clear H.
  apply check_bound_iff in CB. destruct CB as [V B].
  assert (CA : forall c, In c (i_cs I) -> exists sc, constr_eval_samples c S = Some sc).
  { intros c Hc. apply (eval_samples_loop_some _ _ _ _ _ _ L1 c Hc). }
  assert (CR : forall r, In r (i_rs I) -> exists c sc, r_c r = Some c /\ constr_eval_samples c S = Some sc).
  { intros r Hr. destruct (eval_samples_loop_some _ _ _ _ _ _ L2 r Hr) as [sc E].
    apply removed_eval_samples_some in E. exact E. }
  assert (Sup : forall c, In c (all_constrs I) -> supported c).
  { destruct Hs as [Ne|Sup]; [|exact Sup]. intros c Hc.
    assert (NeS : samples_ids S <> []).
    { intro E. apply Ne. unfold samples_ids in E.
      assert (X : forall x, In x ids -> In x (flat_map snd S)).
      { intros x Hx. apply in_flat_map. exists (st, ids). split; [exact Hin|exact Hx]. }
      rewrite E in X. destruct ids as [|x ids']; [reflexivity|]. destruct (X x (or_introl eq_refl)). }
    apply in_all_constrs in Hc. destruct Hc as [Hc|(r & Hr & Er)].
    - destruct (CA c Hc) as [sc E]. apply (proj2 (constr_eval_samples_some c S sc E) NeS).
    - destruct (CR r Hr) as (c' & sc & Er' & E). assert (c' = c) by congruence. subst c'.
      apply (proj2 (constr_eval_samples_some c S sc E) NeS). }
  apply inst_eval_succeeds_iff. unfold eval_ok.
  split; [exact V|]. split; [exact B|]. split.
  { intros c Hc. destruct (CA c Hc) as [sc E]. apply (proj1 (constr_eval_samples_some c S sc E) st ids Hin). }
  split.
  { intros r Hr. destruct (CR r Hr) as (c & sc & Er & E). exists c. split; [exact Er|].
    apply (proj1 (constr_eval_samples_some c S sc E) st ids Hin). }
  split.
  { intros pre c post E _. apply Sup. rewrite E. apply in_elt. }
  split.
  { apply fval_defined. apply (samples_map_some _ _ _ Mo st ids Hin). }
  apply (eval_deps_fixed_iff I st HA). apply (complete_states_some I S S' CS st ids Hin).
Qed.

(* both directions, instance-only hypotheses *)
Corollary inst_eval_samples_succeeds_iff I S :
  fixed_unread I ->
  (forall c, In c (i_cs I) -> supported c) ->
  (forall r, In r (i_rs I) -> exists c, r_c r = Some c /\ supported c) ->
  (forall st ids, In (st, ids) S -> check_bound (i_dvs I) st tol7 = true) ->
  ((exists ss, inst_eval_samples I S = Some ss) <->
   (forall st ids, In (st, ids) S -> exists sol, inst_eval I st = Some sol)).
Proof.
  intros H1 SupA SupR CB. split.
  - intros [ss E] st ids Hin. apply (inst_eval_samples_succeeds_only_if I S ss st ids E Hin).
    + right. intros c Hc. apply in_all_constrs in Hc. destruct Hc as [Hc|(r & Hr & Er)]; [apply SupA; exact Hc|].
      destruct (SupR r Hr) as (c' & Er' & Su). congruence.
    + apply fixed_unread_everywhere. exact H1.
    + apply (CB st ids Hin).
  - intro Hall. apply inst_eval_samples_succeeds_if; auto.
    intros st ids _. apply fixed_unread_everywhere. exact H1.
Qed.

(* by sample id *)
Lemma samples_state_entry : forall S k st, samples_state S k = Some st -> exists ids, In (st, ids) S /\ In k ids.
Proof.
  induction S as [|[s0 ids0] S IH]; intros k st H; cbn [samples_state] in H; [discriminate|].
  destruct (mem k ids0) eqn:M.
  - inversion H; subst. exists ids0. split; [left; reflexivity|apply mem_In; exact M].
  - destruct (IH k st H) as (ids & Hin & Hk). exists ids. split; [right; exact Hin|exact Hk].
Qed.
Corollary inst_eval_samples_succeeds_at_id I S ss k st :
  inst_eval_samples I S = Some ss -> samples_state S k = Some st ->
  fixed_unread_at I st -> check_bound (i_dvs I) st tol7 = true ->
  exists sol, inst_eval I st = Some sol.
Proof.
  intros E Hk HA CB. destruct (samples_state_entry S k st Hk) as (ids & Hin & Hki).
  apply (inst_eval_samples_succeeds_only_if I S ss st ids E Hin); auto.
  left. intro E0. rewrite E0 in Hki. destruct Hki.
Qed.

(* ------------------------------------------------------------------ *)
(* EXAMPLES *)
Local Notation lin := InstTotal.lin.
Local Notation dv := InstTotal.dv.
Local Notation cn := InstTotal.cn.
Local Notation rm := InstTotal.rm.
Local Notation mkI := InstTotal.mk.

(* non-vacuity: x3 is fixed to 5, x2 := 2 x1 + 1 is dependent, x4 in [1,4] is vacant; objective x1,
   constraint x1 - 2 <= 0; two samples x1 = 1 (id 10) and x1 = 3 (id 11) *)
Definition nv_I : instance :=
  mkI (Some (lin [(1%N, 1)] 0))
      [dv 1 3 None None; dv 2 3 None None; dv 3 3 None (Some (qz 5));
       dv 4 3 (Some (Fin (qz 1), Fin (qz 4))) None]
      [cn 7 LE_ZERO (Some (lin [(1%N, 1)] (qz (-2))))] []
      [(2%N, lin [(1%N, qz 2)] 1)].
Definition nv_S : samples := [([(1%N, qz 1)], [10%N]); ([(1%N, qz 3)], [11%N])].

Example nv_wf : wf_fixed nv_I = true.
Proof. vm_compute. reflexivity. Qed.
Example nv_nodup : NoDup (samples_ids nv_S).
Proof. repeat constructor; cbn; intuition discriminate. Qed.
Example nv_runs :
  exists ss m1 m2, inst_eval_samples nv_I nv_S = Some ss /\ ss_get ss 11 = Some m1 /\
    inst_eval nv_I [(1%N, qz 3)] = Some m2 /\ samples_state nv_S 11 = Some [(1%N, qz 3)] /\
    sget (so_state m1) 1 = Some (qz 3) /\ sget (so_state m1) 2 = Some (qz 7) /\
    sget (so_state m1) 3 = Some (qz 5) /\ sget (so_state m1) 4 = Some (qz 1) /\
    sget (so_state m2) 2 = Some (qz 7) /\ sget (so_state m2) 3 = Some (qz 5) /\
    so_feasible m1 = false.
Proof.
  eexists; eexists; eexists. split; [vm_compute; reflexivity|]. split; [vm_compute; reflexivity|].
  split; [vm_compute; reflexivity|]. repeat split; vm_compute; reflexivity.
Qed.
(* the theorem applies to it *)
Example nv_theorem_applies :
  exists ss m1 m2, inst_eval_samples nv_I nv_S = Some ss /\ ss_get ss 11 = Some m1 /\
    inst_eval nv_I [(1%N, qz 3)] = Some m2 /\
    forall i, sget (so_state m1) i = if mem i (map dv_id (i_dvs nv_I)) then sget (so_state m2) i else None.
Proof.
  destruct nv_runs as (ss & m1 & m2 & E1 & E2 & E3 & Hk & _). exists ss, m1, m2.
  split; [exact E1|]. split; [exact E2|]. split; [exact E3|].
  exact (get_evaluate_samples_state_wf nv_I nv_S 11 _ ss m1 m2 nv_nodup Hk nv_wf E1 E2 E3).
Qed.
(* ... and so does the success equivalence *)
Example nv_success_iff :
  (exists ss, inst_eval_samples nv_I nv_S = Some ss) <->
  (forall st ids, In (st, ids) nv_S -> exists sol, inst_eval nv_I st = Some sol).
Proof.
  apply inst_eval_samples_succeeds_iff.
  - apply fixed_unreadb_true. vm_compute. reflexivity.
  - intros c [<-|[]]. right. reflexivity.
  - intros r [].
  - intros st ids [E|[E|[]]]; inversion E; subst; vm_compute; reflexivity.
Qed.

Ltac num_clash X :=
  let X' := fresh in
  inversion X as [X']; apply (f_equal (fun q : Qc => Qnum (this q))) in X'; vm_compute in X'; discriminate X'.

(* ---- (H1) is necessary ---- *)
(* x1 is fixed to 5 and the dependency x2 := x1 READS it.  (H2) and (H3) hold. *)
Definition h1_I : instance :=
  mkI None [dv 1 3 None (Some (qz 5)); dv 2 3 None None] [] [] [(2%N, lin [(1%N, 1)] 0)].
Example h1_hyps : fixed_unreadb h1_I = false /\ keys_unfixedb h1_I = true /\ nodupb (map dv_id (i_dvs h1_I)) = true.
Proof. vm_compute. repeat split. Qed.
(* (a) the sample does not mention the fixed id (the natural case: the variable was eliminated):
   evaluate succeeds and reports x2 = 5, evaluate_samples FAILS (x1 has no value in the pass) *)
Example h1_refuted_success :
  (exists m2, inst_eval h1_I [] = Some m2 /\ sget (so_state m2) 2 = Some (qz 5) /\ sget (so_state m2) 1 = Some (qz 5)) /\
  inst_eval_samples h1_I [([], [0%N])] = None /\ check_bound (i_dvs h1_I) [] tol7 = true.
Proof. split; [eexists; split; [vm_compute; reflexivity|split; vm_compute; reflexivity]|split; vm_compute; reflexivity]. Qed.
(* (b) the sample stores ANOTHER value x1 = 3 for the fixed id: both succeed; evaluate reports
   x1 = 5, x2 = 5; get reports x1 = 5 but x2 = 3 (computed from the sampled x1) *)
Example h1_runs :
  exists ss m1 m2, inst_eval_samples h1_I [([(1%N, qz 3)], [0%N])] = Some ss /\ ss_get ss 0 = Some m1 /\
    inst_eval h1_I [(1%N, qz 3)] = Some m2 /\
    sget (so_state m1) 1 = Some (qz 5) /\ sget (so_state m1) 2 = Some (qz 3) /\
    sget (so_state m2) 1 = Some (qz 5) /\ sget (so_state m2) 2 = Some (qz 5).
Proof.
  eexists; eexists; eexists. split; [vm_compute; reflexivity|]. split; [vm_compute; reflexivity|].
  split; [vm_compute; reflexivity|]. repeat split; vm_compute; reflexivity.
Qed.
Example h1_refuted :
  ~ (forall I S k st ss m1 m2,
       NoDup (samples_ids S) -> samples_state S k = Some st ->
       keys_unfixed I -> NoDup (map dv_id (i_dvs I)) ->
       inst_eval_samples I S = Some ss -> ss_get ss k = Some m1 -> inst_eval I st = Some m2 ->
       forall i, sget (so_state m1) i = if mem i (map dv_id (i_dvs I)) then sget (so_state m2) i else None).
Proof.
  intro H. destruct h1_runs as (ss & m1 & m2 & E1 & E2 & E3 & _ & V1 & _ & V2).
  assert (ND : NoDup (samples_ids [([(1%N, qz 3)], [0%N])])) by (repeat constructor; cbn; intuition).
  pose proof (H h1_I _ 0%N [(1%N, qz 3)] ss m1 m2 ND eq_refl
                (keys_unfixedb_true h1_I eq_refl) (nodupb_NoDup (map dv_id (i_dvs h1_I)) eq_refl) E1 E2 E3 2%N) as X.
  rewrite V1, V2 in X. cbn in X. num_clash X.
Qed.

(* ---- (H2) is necessary ---- *)
(* the dependency key x2 := x1 also carries the fixed value 7; (H1), (H3) hold; sample x1 = 3.
   evaluate lets the dependency win (x2 = 3), get lets the fixed value win (x2 = 7) *)
Definition h2_I : instance :=
  mkI None [dv 1 3 None None; dv 2 3 None (Some (qz 7))] [] [] [(2%N, lin [(1%N, 1)] 0)].
Example h2_hyps : fixed_unreadb h2_I = true /\ keys_unfixedb h2_I = false /\ nodupb (map dv_id (i_dvs h2_I)) = true.
Proof. vm_compute. repeat split. Qed.
Example h2_runs :
  exists ss m1 m2, inst_eval_samples h2_I [([(1%N, qz 3)], [0%N])] = Some ss /\ ss_get ss 0 = Some m1 /\
    inst_eval h2_I [(1%N, qz 3)] = Some m2 /\
    sget (so_state m1) 2 = Some (qz 7) /\ sget (so_state m2) 2 = Some (qz 3).
Proof.
  eexists; eexists; eexists. split; [vm_compute; reflexivity|]. split; [vm_compute; reflexivity|].
  split; [vm_compute; reflexivity|]. split; vm_compute; reflexivity.
Qed.
Example h2_refuted :
  ~ (forall I S k st ss m1 m2,
       NoDup (samples_ids S) -> samples_state S k = Some st ->
       fixed_unread I -> NoDup (map dv_id (i_dvs I)) ->
       inst_eval_samples I S = Some ss -> ss_get ss k = Some m1 -> inst_eval I st = Some m2 ->
       forall i, sget (so_state m1) i = if mem i (map dv_id (i_dvs I)) then sget (so_state m2) i else None).
Proof.
  intro H. destruct h2_runs as (ss & m1 & m2 & E1 & E2 & E3 & V1 & V2).
  assert (ND : NoDup (samples_ids [([(1%N, qz 3)], [0%N])])) by (repeat constructor; cbn; intuition).
  pose proof (H h2_I _ 0%N [(1%N, qz 3)] ss m1 m2 ND eq_refl
                (fixed_unreadb_true h2_I eq_refl) (nodupb_NoDup (map dv_id (i_dvs h2_I)) eq_refl) E1 E2 E3 2%N) as X.
  rewrite V1, V2 in X. cbn in X. num_clash X.
Qed.

(* ---- (H3) is necessary ---- *)
(* x1 is declared twice: first with the fixed value 5, then without; no dependencies, so (H1),
   (H2) hold; sample x1 = 3.  evaluate reports 5 (the fixed value), get reports 3 (the LAST
   declaration is not fixed, so the sampled value is taken) *)
Definition h3_I : instance :=
  mkI None [dv 1 3 None (Some (qz 5)); dv 1 3 None None] [] [] [].
Example h3_hyps : fixed_unreadb h3_I = true /\ keys_unfixedb h3_I = true /\ nodupb (map dv_id (i_dvs h3_I)) = false.
Proof. vm_compute. repeat split. Qed.
Example h3_runs :
  exists ss m1 m2, inst_eval_samples h3_I [([(1%N, qz 3)], [0%N])] = Some ss /\ ss_get ss 0 = Some m1 /\
    inst_eval h3_I [(1%N, qz 3)] = Some m2 /\
    sget (so_state m1) 1 = Some (qz 3) /\ sget (so_state m2) 1 = Some (qz 5).
Proof.
  eexists; eexists; eexists. split; [vm_compute; reflexivity|]. split; [vm_compute; reflexivity|].
  split; [vm_compute; reflexivity|]. split; vm_compute; reflexivity.
Qed.
Example h3_refuted :
  ~ (forall I S k st ss m1 m2,
       NoDup (samples_ids S) -> samples_state S k = Some st ->
       fixed_unread I -> keys_unfixed I ->
       inst_eval_samples I S = Some ss -> ss_get ss k = Some m1 -> inst_eval I st = Some m2 ->
       forall i, sget (so_state m1) i = if mem i (map dv_id (i_dvs I)) then sget (so_state m2) i else None).
Proof.
  intro H. destruct h3_runs as (ss & m1 & m2 & E1 & E2 & E3 & V1 & V2).
  assert (ND : NoDup (samples_ids [([(1%N, qz 3)], [0%N])])) by (repeat constructor; cbn; intuition).
  pose proof (H h3_I _ 0%N [(1%N, qz 3)] ss m1 m2 ND eq_refl
                (fixed_unreadb_true h3_I eq_refl) (keys_unfixedb_true h3_I eq_refl) E1 E2 E3 1%N) as X.
  rewrite V1, V2 in X. cbn in X. num_clash X.
Qed.

(* ---- the side conditions of the success theorems are necessary ---- *)
(* evaluate_samples never checks bounds: x1 in [0,1], sample x1 = 5 *)
Example success_needs_bound_check :
  let I := mkI None [dv 1 3 (Some (Fin 0, Fin 1)) None] [] [] [] in
  (exists ss, inst_eval_samples I [([(1%N, qz 5)], [0%N])] = Some ss) /\ inst_eval I [(1%N, qz 5)] = None.
Proof. split; [eexists; vm_compute; reflexivity|vm_compute; reflexivity]. Qed.
(* evaluate does not look at the kind of a constraint after the first violated one (x1 <= 0 at
   x1 = 1), evaluate_samples does: equality kind 7 *)
Example success_needs_supported :
  let I := mkI None [dv 1 3 None None] [cn 1 LE_ZERO (Some (lin [(1%N, 1)] 0)); cn 2 7 None] [] [] in
  (exists sol, inst_eval I [(1%N, qz 1)] = Some sol) /\ inst_eval_samples I [([(1%N, qz 1)], [0%N])] = None.
Proof. split; [eexists; vm_compute; reflexivity|vm_compute; reflexivity]. Qed.
(* a removed entry without a constraint makes evaluate_samples fail even on no samples at all *)
Example success_needs_removed_constraint :
  let I := mkI None [] [] [rm None] [] in inst_eval_samples I [] = None.
Proof. vm_compute. reflexivity. Qed.

Print Assumptions get_evaluate_samples_state_fixed.
Print Assumptions get_evaluate_samples_state_H123.
Print Assumptions get_evaluate_samples_state_wf.
Print Assumptions inst_eval_samples_succeeds_if.
Print Assumptions inst_eval_samples_succeeds_only_if.
Print Assumptions inst_eval_samples_succeeds_iff.
Print Assumptions inst_eval_samples_succeeds_at_id.
Print Assumptions nv_theorem_applies.
Print Assumptions h1_refuted.
Print Assumptions h1_refuted_success.
Print Assumptions h2_refuted.
Print Assumptions h3_refuted.
