(* RunC20.v — correspondence runner for C20: replay the add operations on the model of
   Artifact.v and judge every answer of the real Builder / Artifact.

   case   = L [A "artifact_roundtrip"; L [mode; L ops; A probe]; result]
   result = ok [aux; raw manifest; checked manifest; by_kind; rows; A digest_of_"{}"; A times_check; listing]
   aux_i  = [A blob_hex; A sha256 (computed by check.py with hashlib); I size (idem);
             canonical message tree; [[A rendered; I secs; I nanos]..]]
   The Section variables of the model are instantiated by tables read off the case:
   blob = hex string, digest/size = the independently computed sha256/length of that blob,
   decode k b = the canonical message of the first add-op of kind k with blob b,
   render_time/parse_time = the (instant, RFC3339 string) pairs chrono produced in this case. *)
Require Import Ommx.Num Ommx.Poly Ommx.Msg Ommx.Tree Ommx.Artifact.
From Coq Require Import String Ascii.
Open Scope string_scope.
Open Scope list_scope.
Notation "a +++ b" := (String.append a b) (at level 60, right associativity).

(* f64 bit patterns: -0.0 is identified with 0.0 (DESIGN 3.2; prost drops a map value that
   compares equal to the default, so a State entry -0.0 is read back as +0.0) *)
Definition is_zero_bits (x : Z) : bool := Z.eqb x 0 || Z.eqb x 9223372036854775808.
Fixpoint tree_eqb (a b : tree) : bool :=
  match a, b with
  | A x, A y => String.eqb x y
  | I x, I y => Z.eqb x y
  | F x, F y => Z.eqb x y || (is_zero_bits x && is_zero_bits y)
  | L xs, L ys =>
      (fix go (xs ys : list tree) : bool :=
         match xs, ys with
         | [], [] => true
         | x :: xs', y :: ys' => tree_eqb x y && go xs' ys'
         | _, _ => false
         end) xs ys
  | _, _ => false
  end.

Definition d_amap (t : tree) : option amap := d_list (d_pair d_str d_str) t.
Definition e_amap (m : amap) : tree := L (map (fun kv => L [A (fst kv); A (snd kv)]) m).

Definition opt_str_eqb (a b : option string) : bool :=
  match a, b with Some x, Some y => String.eqb x y | None, None => true | _, _ => false end.
Definition amap_sub (m1 m2 : amap) : bool :=
  forallb (fun kv => opt_str_eqb (aget (fst kv) m2) (Some (snd kv))) m1.
(* equality of finite maps (the SDK side is a key-sorted dump of a HashMap) *)
Definition amap_eqb (m1 m2 : amap) : bool :=
  amap_sub m1 m2 && amap_sub m2 m1 && Nat.eqb (List.length m1) (List.length m2).

Definition d_kind (t : tree) : option kind :=
  match t with
  | A "instance" => Some KInstance
  | A "parametric_instance" => Some KParametric
  | A "solution" => Some KSolution
  | A "sample_set" => Some KSampleSet
  | _ => None
  end.
Definition kind_name (k : kind) : string :=
  match k with
  | KInstance => "instance" | KParametric => "parametric_instance"
  | KSolution => "solution" | KSampleSet => "sample_set"
  end.
Definition instance_like (k : kind) : bool :=
  match k with KInstance | KParametric => true | _ => false end.
Definition all_kinds : list kind := [KInstance; KParametric; KSolution; KSampleSet].

Definition time := (Z * Z)%type.     (* unix seconds, nanoseconds *)
Definition time_eqb (a b : time) : bool := Z.eqb (fst a) (fst b) && Z.eqb (snd a) (snd b).
Definition d_time_entry (t : tree) : option (string * time) :=
  match t with
  | L [A r; I s; I n] => Some (r, (s, n))
  | _ => None
  end.

(* decode the setters of one add-op; time setters consume the chrono renderings in order *)
Fixpoint d_aops (k : kind) (ts : list tree) (times : list (string * time)) : option (list (aop time)) :=
  match ts with
  | [] => match times with [] => Some [] | _ => None end
  | t :: ts' =>
      let il := instance_like k in
      match t with
      | L [A "title"; A s] => if il then do r <- d_aops k ts' times; Some (ATitle s :: r) else None
      | L [A "license"; A s] => if il then do r <- d_aops k ts' times; Some (ALicense s :: r) else None
      | L [A "dataset"; A s] => if il then do r <- d_aops k ts' times; Some (ADataset s :: r) else None
      | L [A "authors"; l] =>
          if il then do l' <- d_list d_str l; do r <- d_aops k ts' times; Some (AAuthors l' :: r) else None
      | L [A "variables"; n] =>
          if il then do n' <- d_N n; do r <- d_aops k ts' times; Some (AVariables n' :: r) else None
      | L [A "constraints"; n] =>
          if il then do n' <- d_N n; do r <- d_aops k ts' times; Some (AConstraints n' :: r) else None
      | L [A "created"; A _] =>
          match times with
          | (_, tm) :: times' => if il then do r <- d_aops k ts' times'; Some (ACreated tm :: r) else None
          | [] => None
          end
      | L [A "start"; A _] =>
          match times with
          | (_, tm) :: times' => if il then None else do r <- d_aops k ts' times'; Some (AStart tm :: r)
          | [] => None
          end
      | L [A "end"; A _] =>
          match times with
          | (_, tm) :: times' => if il then None else do r <- d_aops k ts' times'; Some (AEnd tm :: r)
          | [] => None
          end
      | L [A "instance"; A d] =>
          if il then None else do d' <- parse_digest d; do r <- d_aops k ts' times; Some (AInstance d' :: r)
      | L [A "solver"; A d] =>
          if il then None else do d' <- parse_digest d; do r <- d_aops k ts' times; Some (ASolver d' :: r)
      | L [A "other"; A k'; A v] => do r <- d_aops k ts' times; Some (AOther k' v :: r)
      | _ => None
      end
  end.

(* one decoded add-op with everything the harness and check.py reported about it *)
Record rop := {
  r_kind : kind; r_hex : string; r_digest : string; r_size : N; r_msg : tree;
  r_times : list (string * time); r_aops : list (aop time)
}.

Definition d_rop (opt aux : tree) : option rop :=
  match opt, aux with
  | L [k; _; L setters], L [A hex; A dgst; sz; canon; L times] =>
      do k' <- d_kind k; do sz' <- d_N sz; do times' <- omap d_time_entry times;
      do aops <- d_aops k' setters times';
      Some {| r_kind := k'; r_hex := hex; r_digest := dgst; r_size := sz'; r_msg := canon;
              r_times := times'; r_aops := aops |}
  | _, _ => None
  end.

Fixpoint d_rops (ops auxs : list tree) : option (list rop) :=
  match ops, auxs with
  | [], [] => Some []
  | o :: ops', x :: auxs' => do r <- d_rop o x; do rs <- d_rops ops' auxs'; Some (r :: rs)
  | _, _ => None
  end.

Section Instance.
  Variable rops : list rop.
  Variable empty_digest : string.

  Definition empty_json_hex : string := "7b7d".
  Definition t_digest (b : string) : string :=
    if String.eqb b empty_json_hex then empty_digest
    else match List.find (fun r => String.eqb (r_hex r) b) rops with Some r => r_digest r | None => "" end.
  Definition t_size (b : string) : N :=
    if String.eqb b empty_json_hex then 2%N
    else match List.find (fun r => String.eqb (r_hex r) b) rops with Some r => r_size r | None => 0%N end.
  Definition t_decode (k : kind) (b : string) : option tree :=
    match List.find (fun r => kind_eqb (r_kind r) k && String.eqb (r_hex r) b) rops with
    | Some r => Some (r_msg r)
    | None => None
    end.
  Definition all_times : list (string * time) := flat_map r_times rops.
  Definition t_render (t : time) : string :=
    match List.find (fun e => time_eqb (snd e) t) all_times with Some e => fst e | None => "" end.
  Definition t_parse (s : string) : option time :=
    match List.find (fun e => String.eqb (fst e) s) all_times with Some e => Some (snd e) | None => None end.

  Definition mop (r : rop) : op string tree :=
    {| o_kind := r_kind r; o_msg := r_msg r; o_blob := r_hex r;
       o_ann := apply_aops t_render (r_kind r) (r_aops r) |}.
  Definition mops : list (op string tree) := map mop rops.

  Definition m_build (ty : option string) : artifact string string :=
    build_with t_digest t_size empty_json_hex ty mops.
  Definition m_get (k : kind) (a : artifact string string) (d : string) : result (tree * amap) :=
    get_as String.eqb t_decode k a d.

  (* the hypotheses of the theorems, checked on this case *)
  Definition inj_check : bool :=
    let bs := stored_blobs empty_json_hex mops in
    forallb (fun b1 => forallb (fun b2 =>
      implb (String.eqb (t_digest b1) (t_digest b2)) (String.eqb b1 b2)) bs) bs.
  Definition wf_check : bool :=
    forallb (fun r => match t_decode (r_kind r) (r_hex r) with
                      | Some m => tree_eqb m (r_msg r) | None => false end) rops.
  Definition tables_check : bool :=
    forallb (fun r => String.eqb (t_digest (r_hex r)) (r_digest r) && N.eqb (t_size (r_hex r)) (r_size r)) rops
    && forallb (fun e => String.eqb (t_render (snd e)) (fst e)
                         && match t_parse (fst e) with Some t => time_eqb t (snd e) | None => false end) all_times.

  (* ---- encoders of model answers ---- *)
  Definition e_desc (d : descriptor string) : tree :=
    L [A (d_media d); A (d_digest d); I (Z.of_N (d_size d)); e_amap (d_ann d)].
  Definition desc_agrees (d : descriptor string) (t : tree) : bool :=
    match t with
    | L [A mt; A dgst; sz; ann] =>
        match d_N sz, d_amap ann with
        | Some sz', Some ann' =>
            String.eqb mt (d_media d) && String.eqb dgst (d_digest d) && N.eqb sz' (d_size d)
            && amap_eqb ann' (d_ann d)
        | _, _ => false
        end
    | _ => false
    end.
  Fixpoint descs_agree (ds : list (descriptor string)) (ts : list tree) : bool :=
    match ds, ts with
    | [], [] => true
    | d :: ds', t :: ts' => desc_agrees d t && descs_agree ds' ts'
    | _, _ => false
    end.

  Definition e_time (t : time) : tree := L [I (fst t); I (snd t)].
  Definition e_accessors (k : kind) (ann : amap) : tree :=
    if instance_like k then
      L [ e_opt A (acc_string k "title" ann);
          e_opt e_time (acc_time t_parse k "created" ann);
          e_opt (fun l => L (map A l)) (acc_authors k ann);
          e_opt A (acc_string k "license" ann);
          e_opt A (acc_string k "dataset" ann);
          e_opt e_N (acc_usize k "variables" ann);
          e_opt e_N (acc_usize k "constraints" ann) ]
    else
      L [ e_opt e_time (acc_time t_parse k "start" ann);
          e_opt e_time (acc_time t_parse k "end" ann);
          e_opt A (acc_digest k "instance" ann);
          e_opt A (acc_digest k "solver" ann) ].

  (* ---- judging ---- *)
  (* first disagreement wins; [None] = this part agrees *)
  Definition first_some (l : list (option tree)) : option tree :=
    fold_right (fun o acc => match o with Some v => Some v | None => acc end) None l.

  Definition judge_get (k : kind) (a : artifact string string) (d : string) (obs : tree) : option tree :=
    let clause := "get_" +++ kind_name k in
    match m_get k a d with
    | Err _ =>
        if is_err obs then None
        else Some (disagree (clause +++ " must fail (unknown digest / other media type)") (A "err"))
    | Ok (m, ann) =>
        match ok_payload obs with
        | Some (L [m'; ann'; acc']) =>
            match d_amap ann' with
            | Some ann'' =>
                if negb (tree_eqb m m') then Some (disagree (clause +++ ": message") m)
                else if negb (amap_eqb ann'' ann) then Some (disagree (clause +++ ": annotations") (e_amap ann))
                else if negb (tree_eqb (e_accessors k ann) acc')
                     then Some (disagree (clause +++ ": annotation accessors") (e_accessors k ann))
                else None
            | None => Some (badresult "get: annotations shape")
            end
        | _ =>
            if is_err obs || is_panic obs
            then Some (disagree (clause +++ " must succeed") (L [m; e_amap ann; e_accessors k ann]))
            else Some (badresult "get: result shape")
        end
    end.

  Definition judge_row (a : artifact string string) (row : tree) : option tree :=
    match row with
    | L [A d; L [g1; g2; g3; g4]] =>
        first_some [judge_get KInstance a d g1; judge_get KParametric a d g2;
                    judge_get KSolution a d g3; judge_get KSampleSet a d g4]
    | _ => Some (badresult "row shape")
    end.

  Definition row_digest (row : tree) : string :=
    match row with L (A d :: _) => d | _ => "" end.

  Definition judge_layers (clause : string) (ty : option string) (ds : list (descriptor string)) (obs : tree) : option tree :=
    match ok_payload obs with
    | Some (L [oty; L ls]) =>
        match d_opt d_str oty with
        | Some oty' =>
            if negb (match ty, oty' with
                     | Some x, Some y => String.eqb x y | None, None => true | _, _ => false end)
            then Some (disagree (clause +++ ": artifact type") (e_opt A ty))
            else if negb (descs_agree ds ls)
            then Some (disagree (clause +++ ": layers (order, media type, sha256, size, annotations)")
                                (L (map e_desc ds)))
            else None
        | None => Some (badresult "manifest: type shape")
        end
    | _ => Some (disagree (clause +++ " must succeed") (L (map e_desc ds)))
    end.

  Definition judge_checked (a : artifact string string) (obs : tree) : option tree :=
    match get_manifest a with
    | Err _ =>
        if is_err obs then None
        else Some (disagree "get_manifest must fail: not an OMMX artifact" (A "err"))
    | Ok (t, ds) => judge_layers "get_manifest" (Some t) ds obs
    end.

  Definition judge_by_kind (a : artifact string string) (k : kind) (obs : tree) : option tree :=
    match get_layer_descriptors a (media_type k) with
    | Err _ =>
        if is_err obs then None
        else Some (disagree "get_layer_descriptors must fail: not an OMMX artifact" (A "err"))
    | Ok ds =>
        match ok_payload obs with
        | Some (L ls) =>
            if descs_agree ds ls then None
            else Some (disagree ("get_layer_descriptors " +++ kind_name k) (L (map e_desc ds)))
        | _ => Some (disagree ("get_layer_descriptors " +++ kind_name k +++ " must succeed") (L (map e_desc ds)))
        end
    end.

  (* get_instances / get_solutions: every layer of the kind in insertion order, each with ITS OWN
     descriptor (annotations, media type) and its decoded message -- also when two layers hold the
     same bytes.  (These accessors read the raw manifest: no artifact-type check.) *)
  Definition expected_listing (a : artifact string string) (k : kind) : list (descriptor string * tree) :=
    filter (fun dm => String.eqb (d_media (fst dm)) (media_type k))
           (combine (a_layers a) (map (fun o : op string tree => o_msg o) mops)).
  Fixpoint listing_agrees (es : list (descriptor string * tree)) (ts : list tree) : bool :=
    match es, ts with
    | [], [] => true
    | (d, m) :: es', L [dt; mt] :: ts' => desc_agrees d dt && tree_eqb m mt && listing_agrees es' ts'
    | _, _ => false
    end.
  Definition judge_listing (a : artifact string string) (k : kind) (obs : tree) : option tree :=
    let clause := "get_" +++ kind_name k +++ "s (listing: own descriptor and message of every layer of the kind, in order)" in
    match ok_payload obs with
    | Some (L ls) =>
        if listing_agrees (expected_listing a k) ls then None
        else Some (disagree clause (L (map (fun dm => L [e_desc (fst dm); snd dm]) (expected_listing a k))))
    | _ => if is_err obs || is_panic obs
           then Some (disagree (clause +++ " must succeed") (L (map (fun dm => L [e_desc (fst dm); snd dm]) (expected_listing a k))))
           else Some (badresult "listing shape")
    end.

  Definition has_dup_blob : bool :=
    negb (Nat.eqb (List.length (nodup string_dec (map r_hex rops))) (List.length rops)).
  Definition has_cross_kind_dup : bool :=
    existsb (fun r1 => existsb (fun r2 => String.eqb (r_hex r1) (r_hex r2)
                                          && negb (kind_eqb (r_kind r1) (r_kind r2))) rops) rops.

  Definition tags (ty : option string) (a : artifact string string) (probe : string) : list string :=
    (match get_manifest a with Ok _ => ["ommx"] | Err _ => ["not-ommx"] end)
    ++ (if has_dup_blob then ["dup-blob"] else [])
    ++ (if has_cross_kind_dup then ["dup-blob-cross-kind"] else [])
    ++ (match rops with [] => ["empty"] | _ => [] end)
    ++ map (fun r => "kind:" +++ kind_name (r_kind r)) rops
    ++ (if existsb (fun r => match r_aops r with [] => false | _ => true end) rops then ["annotated"] else [])
    ++ (if existsb (fun r => existsb (fun k => match m_get k a (r_digest r) with Err EWrongMedia => true | _ => false end) all_kinds) rops
        then ["wrong-media-err"] else [])
    ++ (if existsb (fun k => match m_get k a probe with Err ENotFound => true | _ => false end) all_kinds
        then ["unknown-digest-err"] else []).

  Definition judge (ty : option string) (probe : string) (raw checked : tree) (by_kind rows : list tree) (listing : tree) : tree :=
    let a := m_build ty in
    if negb tables_check then badresult "tables (digest/size/time) inconsistent"
    else if negb inj_check then badresult "sha256 collision between distinct stored blobs"
    else if negb wf_check then badresult "same kind and bytes, different canonical message"
    else
      let expected_digests := nodup string_dec (map (d_digest (dg := string)) (a_layers a) ++ [probe]) in
      let seen := map row_digest rows in
      match first_some
        ([ judge_layers "manifest" ty (a_layers a) raw; judge_checked a checked ]
         ++ (match by_kind with
             | [b1; b2; b3; b4] =>
                 [judge_by_kind a KInstance b1; judge_by_kind a KParametric b2;
                  judge_by_kind a KSolution b3; judge_by_kind a KSampleSet b4]
             | _ => [Some (badresult "by_kind shape")]
             end)
         ++ (match listing with
             | L [li; ls] => [judge_listing a KInstance li; judge_listing a KSolution ls]
             | _ => [Some (badresult "listing shape")]
             end)
         ++ [ if forallb (fun d => existsb (String.eqb d) seen) expected_digests then None
              else Some (badresult "not every stored digest was queried") ]
         ++ map (judge_row a) rows)
      with
      | Some v => v
      | None => agree (tags ty a probe)
      end.
End Instance.

Definition d_mode (t : tree) : option (option string) :=
  match t with
  | L [A "ommx"] => Some (Some ommx_artifact_type)
  | L [A "raw"; A ty] => Some (Some ty)
  | L [A "notype"] => Some None
  | _ => None
  end.

Definition run_C20 (case : tree) : tree :=
  match case with
  | L [A "artifact_roundtrip"; L [mode; L ops; A probe]; res] =>
      match d_mode mode with
      | None => badcase "C20: mode"
      | Some ty =>
          match ok_payload res with
          | Some (L [L aux; raw; checked; L by_kind; L rows; A empty_digest; A tcheck; listing]) =>
              match d_rops ops aux with
              | Some rops =>
                  if negb (String.eqb tcheck "times-ok")
                  then disagree "RFC3339 annotation denotes the instant that was set" (A tcheck)
                  else judge rops empty_digest ty probe raw checked by_kind rows listing
              | None => badcase "C20: add operations / aux"
              end
          | _ =>
              if is_err res || is_panic res
              then disagree "building and reopening a local archive must succeed" (A "ok")
              else badresult "C20: result shape"
          end
      end
  | _ => badcase "C20: unknown op"
  end.

(* ---- the comparator is sound: when a getter answer is accepted, it is what the model says ---- *)
Lemma judge_get_sound rops k a d obs :
  judge_get rops k a d obs = None ->
  match m_get rops k a d with
  | Err _ => is_err obs = true
  | Ok (m, ann) =>
      exists m' ann' acc' ann'',
        ok_payload obs = Some (L [m'; ann'; acc']) /\ d_amap ann' = Some ann'' /\
        tree_eqb m m' = true /\ amap_eqb ann'' ann = true /\
        tree_eqb (e_accessors rops k ann) acc' = true
  end.
Proof.
  unfold judge_get. destruct (m_get rops k a d) as [[m ann]|e].
  - destruct (ok_payload obs) as [p|] eqn:E.
    + destruct p as [| | |[|m' [|ann' [|acc' [|]]]]]; try (destruct (_ || _); discriminate).
      destruct (d_amap ann') as [ann''|] eqn:Ea; [|discriminate].
      destruct (tree_eqb m m') eqn:E1; cbn [negb]; [|discriminate].
      destruct (amap_eqb ann'' ann) eqn:E2; cbn [negb]; [|discriminate].
      destruct (tree_eqb (e_accessors rops k ann) acc') eqn:E3; cbn [negb]; [|discriminate].
      intros _. exists m', ann', acc', ann''. repeat split; assumption.
    + destruct (_ || _); discriminate.
  - destruct (is_err obs); [reflexivity|discriminate].
Qed.
