(* BoundEval.v — Function::evaluate_bound encloses the value of the function on every point
   of the box (missing variable = whole line), never panics on a well-shaped message and
   returns a valid interval; and the function-level content_factor theorem. *)
Require Import Ommx.Num Ommx.Poly Ommx.Msg Ommx.Bound Ommx.BoundProofs Ommx.BoundMul Ommx.BoundPow
  Ommx.BoundContent.

Definition valid_box (bs : bounds) : Prop := forall i b, bget bs i = Some b -> valid b.
Definition in_box (rho : valuation) (bs : bounds) : Prop :=
  forall i, bmem (rho i) (bget_d bs i) = true.

Lemma valid_bget_d bs i : valid_box bs -> valid (bget_d bs i).
Proof.
  intro V. unfold bget_d. destruct (bget bs i) as [b|] eqn:E; [eapply V; exact E|apply valid_bwhole].
Qed.

(* ---- chunks ---- *)
Fixpoint chunk_val (rho : valuation) (ch : list (N * nat)) : num :=
  match ch with [] => 1 | (i, e) :: r => rho i ^ e * chunk_val rho r end.

Lemma chunks_val rho ids : chunk_val rho (chunks ids) = mono_val rho ids.
Proof.
  induction ids as [|i ids IH]; [reflexivity|].
  cbn [chunks mono_val]. rewrite <- IH.
  destruct (chunks ids) as [|[j n] r]; cbn [chunk_val Qcpower]; [ring|].
  destruct (i =? j)%N eqn:E.
  - apply N.eqb_eq in E. subst j. cbn [chunk_val Qcpower]. ring.
  - cbn [chunk_val Qcpower]. ring.
Qed.

(* ---- the monomial loop ---- *)
Lemma mono_loop_sound bs rho : valid_box bs -> in_box rho bs ->
  forall ch cur v, valid cur -> bmem v cur = true ->
  match mono_loop bs ch cur with
  | MPanic => False
  | MWhole => True
  | MCur c => valid c /\ bmem (v * chunk_val rho ch) c = true
  end.
Proof.
  intros VB IB. induction ch as [|[i e] ch IH]; intros cur v VC HC; cbn [mono_loop chunk_val].
  - split; [exact VC|]. replace (v * 1) with v by ring. exact HC.
  - destruct (bpow_sound (bget_d bs i) e (rho i) (valid_bget_d bs i VB) (IB i)) as (p & Ep & Vp & Mp).
    rewrite Ep.
    destruct (bmul_sound cur p v (rho i ^ e) VC Vp HC Mp) as (c & Ec & Vc & Mc).
    rewrite Ec. destruct (beqb c bwhole); [exact I|].
    specialize (IH c (v * rho i ^ e) Vc Mc).
    replace (v * (rho i ^ e * chunk_val rho ch)) with (v * rho i ^ e * chunk_val rho ch) by ring.
    exact IH.
Qed.

(* ---- the term loop ---- *)
Lemma eb_loop_sound bs rho : valid_box bs -> in_box rho bs ->
  forall ts acc s, valid acc -> bmem s acc = true ->
  exists B, eb_loop bs ts acc = Some B /\ valid B /\ bmem (s + val rho ts) B = true.
Proof.
  intros VB IB. induction ts as [|[ids c] ts IH]; intros acc s VA HA; cbn [eb_loop].
  - exists acc. split; [reflexivity|]. split; [exact VA|].
    rewrite val_nil. replace (s + 0) with s by ring. exact HA.
  - rewrite val_cons. destruct (qeqb c 0) eqn:C0.
    + apply qeqb_eq in C0. subst c.
      destruct (IH acc s VA HA) as (B & E & V & M). exists B. split; [exact E|]. split; [exact V|].
      replace (s + (0 * mono_val rho ids + val rho ts)) with (s + val rho ts) by ring. exact M.
    + apply qeqb_neq in C0. destruct ids as [|i ids'].
      * destruct (badd_scalar_sound acc c s VA HA) as (acc' & E & V & M). rewrite E.
        destruct (IH acc' (s + c) V M) as (B & E' & V' & M'). exists B.
        split; [exact E'|]. split; [exact V'|]. cbn [mono_val].
        replace (s + (c * 1 + val rho ts)) with (s + c + val rho ts) by ring. exact M'.
      * pose proof (mono_loop_sound bs rho VB IB (chunks (i :: ids')) bone 1 valid_bone
                      (bmem_bpoint 1)) as ML.
        destruct (mono_loop bs (chunks (i :: ids')) bone) as [| |cur]; [contradiction| |].
        -- exists bwhole. split; [reflexivity|]. split; [apply valid_bwhole|apply bmem_bwhole].
        -- destruct ML as [Vc Mc]. rewrite chunks_val in Mc.
           replace (1 * mono_val rho (i :: ids')) with (mono_val rho (i :: ids')) in Mc by ring.
           destruct (bscale_sound cur c _ Vc C0 Mc) as (v & Ev & Vv & Mv). rewrite Ev.
           destruct (badd_sound acc v s _ VA Vv HA Mv) as (acc' & E & V & M). rewrite E.
           destruct (IH acc' _ V M) as (B & E' & V' & M'). exists B.
           split; [exact E'|]. split; [exact V'|].
           replace (s + (c * mono_val rho (i :: ids') + val rho ts))
             with (s + c * mono_val rho (i :: ids') + val rho ts) by ring. exact M'.
Qed.

(* ---- the iterator yields the terms of the message (up to zero coefficients and the
   order of ids inside a monomial) ---- *)
Lemma val_filter_nonzero rho ts : val rho (filter nonzero_coef ts) = val rho ts.
Proof.
  induction ts as [|[m c] ts IH]; [reflexivity|]. cbn [filter]. unfold nonzero_coef at 1. cbn [snd].
  destruct (qeqb c 0) eqn:E; cbn [negb]; rewrite !val_cons, ?IH; [|reflexivity].
  apply qeqb_eq in E. subst c. ring.
Qed.
Lemma val_quad_sorted rho z :
  val rho (map (fun t : N * N * num => (sort_ids [snd (fst t); fst (fst t)], snd t)) z)
  = val rho (quad2 z).
Proof.
  induction z as [|[[r c] v] z IH]; [reflexivity|].
  cbn [map fst snd]. rewrite val_cons, val_quad2_cons, IH, mono_val_sort. cbn [mono_val]. ring.
Qed.
Lemma fn_iter_val f ts rho : fn_iter f = Some ts -> val rho ts = denote f rho.
Proof.
  unfold denote. destruct f as [|c|l|q|p]; cbn [fn_iter fn_terms].
  - intro H; inversion H; reflexivity.
  - intro H; inversion H; reflexivity.
  - intro H; inversion H. apply val_filter_nonzero.
  - unfold quad_iter, quad_terms. destruct (quad_lens_ok q); [|discriminate].
    intro H; inversion H. rewrite !val_app, val_quad_sorted. f_equal.
    destruct (q_lin q) as [l|]; cbn [optlin_terms]; [apply val_filter_nonzero|reflexivity].
  - intro H; inversion H. apply val_sort_keys.
Qed.

(* the only way the iterator can fail: a quadratic whose three arrays differ in length
   (`assert_eq!` in `&Quadratic: IntoIterator`) *)
Definition iter_ok (f : function) : Prop :=
  match f with FQuad q => quad_lens_ok q = true | _ => True end.
Lemma fn_iter_ok f : iter_ok f -> exists ts, fn_iter f = Some ts.
Proof.
  destruct f as [|c|l|q|p]; cbn [iter_ok fn_iter]; eauto.
  unfold quad_iter. intros ->. eauto.
Qed.

Theorem evaluate_bound_sound f bs rho :
  valid_box bs -> in_box rho bs -> iter_ok f ->
  exists B, evaluate_bound f bs = Some B /\ valid B /\ bmem (denote f rho) B = true.
Proof.
  intros VB IB OK. destruct (fn_iter_ok f OK) as (ts & E). unfold evaluate_bound. rewrite E.
  destruct (eb_loop_sound bs rho VB IB ts bzero 0 valid_bzero (bmem_bpoint 0)) as (B & E' & V & M).
  exists B. split; [exact E'|]. split; [exact V|].
  rewrite <- (fn_iter_val f ts rho E). replace (val rho ts) with (0 + val rho ts) by ring. exact M.
Qed.

(* every answer of evaluate_bound is an enclosure, also without the shape hypothesis *)
Corollary evaluate_bound_encloses f bs rho B :
  valid_box bs -> in_box rho bs -> evaluate_bound f bs = Some B ->
  valid B /\ bmem (denote f rho) B = true.
Proof.
  intros VB IB E. assert (OK : iter_ok f).
  { destruct f as [|c|l|q|p]; cbn [iter_ok]; auto.
    unfold evaluate_bound in E. cbn [fn_iter] in E. unfold quad_iter in E.
    destruct (quad_lens_ok q); [reflexivity|discriminate]. }
  destruct (evaluate_bound_sound f bs rho VB IB OK) as (B' & E' & V & M).
  rewrite E in E'. inversion E'. subst B'. split; assumption.
Qed.

(* ---- content_factor at the level of the function message ---- *)
(* the coefficients seen by the iterator are the coefficients of the message, zeros of a
   linear part possibly dropped *)
Lemma in_filter_nonzero m c ts : In (m, c) ts -> c = 0 \/ In (m, c) (filter nonzero_coef ts).
Proof.
  intro H. destruct (qeqb c 0) eqn:E; [left; apply qeqb_eq; exact E|right].
  apply filter_In. split; [exact H|]. unfold nonzero_coef. cbn [snd]. rewrite E. reflexivity.
Qed.
Lemma fn_iter_coeffs f ts : fn_iter f = Some ts ->
  (forall m c, In (m, c) (fn_terms f) -> c = 0 \/ In c (map snd ts)) /\
  (forall c, In c (map snd ts) -> exists m, In (m, c) (fn_terms f)).
Proof.
  assert (F : forall (l : terms) m c, In (m, c) l -> In c (map snd l)).
  { intros l m c H. apply in_map_iff. exists (m, c). auto. }
  assert (Gf : forall (l : terms) c, In c (map snd (filter nonzero_coef l)) -> exists m, In (m, c) l).
  { intros l c H. apply in_map_iff in H. destruct H as ([m c'] & E & H). cbn [snd] in E. subst c'.
    apply filter_In in H. exists m. tauto. }
  destruct f as [|c0|l|q|p]; cbn [fn_iter fn_terms].
  - intro H; inversion H. split; [intros m c []|intros c []].
  - intro H; inversion H. split.
    + intros m c [E|[]]. inversion E. right. left. reflexivity.
    + intros c [E|[]]. cbn [snd] in E. subst c. exists []. left. reflexivity.
  - intro H; inversion H. split.
    + intros m c Hin. destruct (in_filter_nonzero _ _ _ Hin) as [Z|Hf]; [left; exact Z|right].
      eapply F. exact Hf.
    + apply Gf.
  - unfold quad_iter, quad_terms. destruct (quad_lens_ok q); [|discriminate].
    intro H; inversion H. clear H H1. split.
    + intros m c Hin. apply in_app_or in Hin. rewrite map_app. destruct Hin as [Hin|Hin].
      * right. apply in_or_app. left. unfold quad2 in Hin. apply in_map_iff in Hin.
        destruct Hin as (t & E & Ht). inversion E. rewrite map_map. cbn [snd].
        apply in_map_iff. exists t. split; [reflexivity|exact Ht].
      * destruct (q_lin q) as [l|]; cbn [optlin_terms] in Hin; [|destruct Hin].
        destruct (in_filter_nonzero _ _ _ Hin) as [Z|Hf]; [left; exact Z|right].
        apply in_or_app. right. eapply F. exact Hf.
    + intros c Hin. rewrite map_app in Hin. apply in_app_or in Hin. destruct Hin as [Hin|Hin].
      * rewrite map_map in Hin. cbn [snd] in Hin. apply in_map_iff in Hin.
        destruct Hin as (t & E & Ht). subst c.
        exists [fst (fst t); snd (fst t)]. apply in_or_app. left. unfold quad2.
        apply in_map_iff. exists t. split; [reflexivity|exact Ht].
      * destruct (q_lin q) as [l|]; [|destruct Hin].
        destruct (Gf _ _ Hin) as (m & Hm). exists m. apply in_or_app. right. exact Hm.
  - intro H; inversion H. unfold sort_keys. rewrite map_map. cbn [snd]. split.
    + intros m c Hin. right. apply in_map_iff. exists (m, c). auto.
    + intros c Hin. apply in_map_iff in Hin. destruct Hin as ([m c'] & E & Hin). cbn [snd] in E.
      subst c'. exists m. exact Hin.
Qed.

Definition coeff_of (f : function) (c : num) : Prop := exists m, In (m, c) (fn_terms f).

Theorem content_factor_sound f a : content_factor f = Some a ->
  0 < a /\
  (forall c, coeff_of f c -> is_int (a * c)) /\
  ((forall c, coeff_of f c -> c = 0) -> a = 1) /\
  (forall a', (exists c, coeff_of f c /\ c <> 0) -> 0 < a' ->
     (forall c, coeff_of f c -> is_int (a' * c)) ->
     (exists k : Z, (0 < k)%Z /\ a' = qz k * a) /\ a <= a').
Proof.
  unfold content_factor. destruct (fn_iter f) as [ts|] eqn:E; [|discriminate].
  intro H; inversion H; clear H. destruct (fn_iter_coeffs f ts E) as [C1 C2].
  split; [apply content_of_pos|]. split; [|split].
  - intros c (m & Hc). destruct (C1 m c Hc) as [Z|Hin].
    + subst c. exists 0%Z. rewrite qz_0. ring.
    + apply content_of_integral. exact Hin.
  - intro Z. apply content_of_zero. intros c Hc. destruct (C2 c Hc) as (m & Hm). apply Z. exists m. exact Hm.
  - intros a' (c & (m & Hc) & Nc) Pa Int.
    assert (NZ : exists c, In c (map snd ts) /\ c <> 0).
    { exists c. split; [|exact Nc]. destruct (C1 m c Hc) as [Z|Hin]; [contradiction|exact Hin]. }
    assert (I' : forall c, In c (map snd ts) -> is_int (a' * c)).
    { intros d Hd. apply Int. destruct (C2 d Hd) as (m' & Hm'). exists m'. exact Hm'. }
    split; [apply content_of_minimal; assumption|apply content_of_least; assumption].
Qed.
Lemma content_factor_total f : iter_ok f -> exists a, content_factor f = Some a.
Proof.
  intro OK. destruct (fn_iter_ok f OK) as (ts & E). unfold content_factor. rewrite E. eauto.
Qed.
