(* SubstInst.v — C04 at instance level: Instance::substitute followed by Instance::evaluate.
   The solution reported for the substituted instance J at a state s over the remaining variables
   (a) gives every replaced variable the value of its replacement in the reported state,
   (b) has the objective value of the ORIGINAL objective at the reported state,
   (c) has, constraint by constraint (active and removed, same order, same id / equality /
       metadata / removal reason), the value of the ORIGINAL constraint function at the reported
       state,
   (d) keeps for every earlier dependent variable that is not replaced the value of its ORIGINAL
       defining function at the reported state;
   and the same after two successive substitutions (chain). *)
Require Import Ommx.Num Ommx.Poly Ommx.Msg Ommx.Eval Ommx.Tree Ommx.Arith Ommx.ArithProofs Ommx.Inst
        Ommx.InstProofs Ommx.Transform Ommx.TransformProofs Ommx.Subst Ommx.SubstProofs Ommx.DepsOrder.
From Coq Require Import String Permutation.
Close Scope string_scope.
Open Scope list_scope.
Open Scope Qc_scope.

(* ---------------- small facts ---------------- *)
Lemma lookup_in {X} i (m : list (N * X)) x : lookup i m = Some x -> In (i, x) m.
Proof.
  induction m as [|[j y] m IH]; cbn [lookup]; [discriminate|].
  destruct (i =? j)%N eqn:E.
  - apply N.eqb_eq in E. subst. intro H; inversion H; subst. left. reflexivity.
  - intro H. right. apply IH. exact H.
Qed.

Lemma agrees_sext rho s s' : sext s s' -> agrees rho s' -> agrees rho s.
Proof. intros X Ag i v G. apply Ag. apply X. exact G. Qed.

Lemma NoDup_app_intro {X} (a b : list X) :
  NoDup a -> NoDup b -> (forall x, In x a -> ~ In x b) -> NoDup (a ++ b).
Proof.
  induction a as [|x a IH]; cbn [app]; intros Ha Hb Hd; [exact Hb|].
  inversion Ha as [|? ? Hn Ha']; subst. constructor.
  - intro Hin. apply in_app_or in Hin. destruct Hin as [Hin|Hin]; [contradiction|].
    apply (Hd x); [left; reflexivity|exact Hin].
  - apply IH; auto. intros y Hy. apply Hd. right. exact Hy.
Qed.

Lemma Forall2_compose {X Y Z} (P : X -> Y -> Prop) (Q : Y -> Z -> Prop) (T : X -> Z -> Prop) :
  (forall x y z, P x y -> Q y z -> T x z) ->
  forall l l' l'', Forall2 P l l' -> Forall2 Q l' l'' -> Forall2 T l l''.
Proof.
  intros H l l' l'' F. revert l''. induction F as [|x y l l' Pxy F IH]; intros l'' G; inversion G; subst; constructor.
  - eapply H; eauto.
  - apply IH. assumption.
Qed.

(* the dependency entries of the original instance that survive: their key is not replaced *)
Definition keep (R : repl) : N * function -> bool :=
  fun df => negb (existsb (fun rf : N * function => (fst rf =? fst df)%N) R).

Lemma keep_true R df : keep R df = true <-> ~ In (fst df) (dkeys R).
Proof.
  unfold keep. rewrite Bool.negb_true_iff. split.
  - intros H Hin. apply in_map_iff in Hin. destruct Hin as ([a f] & E & Hin). cbn [fst] in E.
    assert (Ex : existsb (fun rf : N * function => (fst rf =? fst df)%N) R = true).
    { apply existsb_exists. exists (a, f). split; [exact Hin|]. cbn [fst]. apply N.eqb_eq. exact E. }
    congruence.
  - intro H. destruct (existsb _ R) eqn:Ex; [|reflexivity]. exfalso. apply H.
    apply existsb_exists in Ex. destruct Ex as (x & Hin & Hx). apply N.eqb_eq in Hx.
    apply in_map_iff. exists x. split; assumption.
Qed.

Lemma NoDup_dkeys_filter (p : N * function -> bool) l : NoDup (dkeys l) -> NoDup (dkeys (filter p l)).
Proof.
  induction l as [|x l IH]; cbn [filter dkeys map]; intro H; [constructor|].
  inversion H as [|? ? Hn H']; subst. destruct (p x).
  - cbn [map]. constructor; [|apply IH; exact H'].
    intro Hin. apply Hn. apply in_map_iff in Hin. destruct Hin as (y & E & Hy).
    apply filter_In in Hy. apply in_map_iff. exists y. split; [exact E|apply Hy].
  - apply IH. exact H'.
Qed.

Lemma dkeys_app (a b : list (N * function)) : dkeys (a ++ b) = dkeys a ++ dkeys b.
Proof. unfold dkeys. apply map_app. Qed.

(* a valuation in which every replaced variable already has the value of its replacement *)
Definition fixes (R : repl) (rho : valuation) : Prop :=
  forall i r, lookup i R = Some r -> denote r rho = rho i.

Lemma sigma_fixes R rho : fixes R rho -> forall i, sigma R rho i = rho i.
Proof. intros Fx i. unfold sigma. destruct (lookup i R) as [r|] eqn:Lk; [apply Fx; exact Lk|reflexivity]. Qed.

(* when every listed dependency is solved in a state, every valuation of that state fixes any
   replacement map whose bindings are among the dependencies *)
Lemma solved_fixes deps st (R : repl) rho :
  solved deps st -> (forall i r, lookup i R = Some r -> In (i, r) deps) -> agrees rho st -> fixes R rho.
Proof.
  intros Sv Sub Ag i r Lk. destruct (Sv i r (Sub i r Lk)) as (v & ids & G & E).
  apply fn_eval_sound in E. rewrite <- (proj1 E rho Ag). symmetry. apply Ag. exact G.
Qed.

(* what is recorded for a constraint, with the value stated against the valuations of a state *)
Definition reports_at (c : constr) (rm : option (tree * tree)) (st : state) (e : evaluated) : Prop :=
  ev_id e = c_id c /\ ev_eq e = c_eq c /\ ev_meta e = c_meta c /\ ev_removed e = rm /\
  (forall rho, agrees rho st -> ev_value e = denote (fn_or_zero (c_fn c)) rho).
Definition reports_removed_at (r : removed) (st : state) (e : evaluated) : Prop :=
  exists c, r_c r = Some c /\ reports_at c (Some (r_reason r, r_params r)) st e.

Lemma reports_reports_at c rm s st e : sext s st -> reports c rm s e -> reports_at c rm st e.
Proof.
  intros X (H1 & H2 & H3 & H4 & H5 & _). repeat split; auto.
  intros rho Ag. apply H5. eapply agrees_sext; eauto.
Qed.

(* the state reported by inst_eval: it extends the given state completed by the fixed values, and
   every dependency holds the value of its function in it *)
Lemma inst_eval_state_solved J s sol :
  NoDup (dkeys (i_deps J)) ->
  (forall d, In d (dkeys (i_deps J)) -> sget (insert_subst (i_dvs J) s) d = None) ->
  inst_eval J s = Some sol ->
  sext (insert_subst (i_dvs J) s) (so_state sol) /\ solved (i_deps J) (so_state sol).
Proof.
  intros ND FR HE. destruct (inst_eval_state _ _ _ HE) as (s1 & D & K & _).
  destruct (eval_deps_sound _ _ _ ND FR D) as [X S].
  assert (X2 : sext s1 (so_state sol)) by exact K.
  split; [eapply sext_trans; eauto|eapply solved_ext; eauto].
Qed.

Lemma inst_eval_dvs J s sol : inst_eval J s = Some sol -> so_dvs sol = i_dvs J.
Proof.
  unfold inst_eval. destruct (negb (check_bound (i_dvs J) s tol7)); [discriminate|].
  destruct (eval_loop constr_eval (i_cs J) s true []) as [[fr ev1]|]; [|discriminate].
  destruct (eval_loop removed_eval (i_rs J) s fr ev1) as [[fe ev2]|]; [|discriminate].
  destruct (fn_eval (fn_or_zero (i_obj J)) s) as [[obj ids]|]; [|discriminate].
  destruct (eval_deps (i_deps J) (insert_subst (i_dvs J) s)) as [s1|]; [|discriminate].
  destruct (fill_vacant (i_dvs J) s1) as [s2|]; [|discriminate].
  intro H; inversion H; subst. reflexivity.
Qed.

(* sufficient condition for the consistency hypothesis: no decision variable carries a
   substituted (fixed) value *)
Lemma insert_subst_none : forall dvs s, (forall v, In v dvs -> dv_subst v = None) -> insert_subst dvs s = s.
Proof.
  induction dvs as [|v dvs IH]; intros s H; cbn [insert_subst]; [reflexivity|].
  rewrite (H v (or_introl eq_refl)). apply IH. intros w Hw. apply H. right. exact Hw.
Qed.

Section SubstInst.
  Variable tiny : num -> bool.
  Hypothesis TE : tiny_exact tiny.

  (* ---------------- shape of the substituted instance ---------------- *)
  Lemma subst_fix R f g rho : (forall i r, lookup i R = Some r -> fwf r) ->
    fn_substitute tiny f R = Some g -> fixes R rho -> denote g rho = denote f rho.
  Proof.
    intros RW H Fx. rewrite (fn_substitute_sound tiny TE R RW f g H rho).
    unfold denote. apply val_ext. apply sigma_fixes. exact Fx.
  Qed.

  Lemma opt_subst_fix R o o' rho : (forall i r, lookup i R = Some r -> fwf r) ->
    opt_subst tiny o R = Some o' -> fixes R rho ->
    denote (fn_or_zero o') rho = denote (fn_or_zero o) rho.
  Proof.
    intros RW. unfold opt_subst. destruct o as [f|].
    - destruct (fn_substitute tiny f R) as [g|] eqn:E; [|discriminate].
      intro H; inversion H; subst. cbn [fn_or_zero]. intro Fx. eapply subst_fix; eauto.
    - intro H; inversion H; subst. reflexivity.
  Qed.

  Definition c_rel (R : repl) (c c' : constr) : Prop :=
    c_id c' = c_id c /\ c_eq c' = c_eq c /\ c_meta c' = c_meta c /\
    opt_subst tiny (c_fn c) R = Some (c_fn c').
  Definition r_rel (R : repl) (r r' : removed) : Prop :=
    r_reason r' = r_reason r /\ r_params r' = r_params r /\
    match r_c r, r_c r' with
    | None, None => True
    | Some c, Some c' => c_rel R c c'
    | _, _ => False
    end.

  Lemma constrs_subst_rel R : forall cs cs', constrs_subst tiny cs R = Some cs' -> Forall2 (c_rel R) cs cs'.
  Proof.
    induction cs as [|c cs IH]; intros cs' H; cbn [constrs_subst] in H.
    - inversion H; subst. constructor.
    - destruct (opt_subst tiny (c_fn c) R) as [f'|] eqn:E; [|discriminate].
      destruct (constrs_subst tiny cs R) as [r|] eqn:Er; [|discriminate].
      inversion H; subst. constructor; [|apply IH; reflexivity].
      unfold c_rel; cbn [c_id c_eq c_meta c_fn]. repeat split; auto.
  Qed.

  Lemma removed_subst_rel R : forall rs rs', removed_subst tiny rs R = Some rs' -> Forall2 (r_rel R) rs rs'.
  Proof.
    induction rs as [|r rs IH]; intros rs' H; cbn [removed_subst] in H.
    - inversion H; subst. constructor.
    - destruct (r_c r) as [c|] eqn:Ec.
      + destruct (opt_subst tiny (c_fn c) R) as [f'|] eqn:E; [|discriminate].
        destruct (removed_subst tiny rs R) as [rest|] eqn:Er; [|discriminate].
        inversion H; subst. constructor; [|apply IH; reflexivity].
        unfold r_rel; cbn [r_c r_reason r_params]. rewrite Ec. repeat split; auto.
      + destruct (removed_subst tiny rs R) as [rest|] eqn:Er; [|discriminate].
        inversion H; subst. constructor; [|apply IH; reflexivity].
        unfold r_rel; cbn [r_c r_reason r_params]. rewrite Ec. repeat split; auto.
  Qed.

  Lemma deps_subst_rel R : forall ds ds', deps_subst tiny ds R = Some ds' ->
    dkeys ds' = dkeys ds /\
    (forall d h, In (d, h) ds -> exists g, In (d, g) ds' /\ fn_substitute tiny h R = Some g).
  Proof.
    induction ds as [|[d f] ds IH]; intros ds' H; cbn [deps_subst] in H.
    - inversion H; subst. split; [reflexivity|intros d h []].
    - destruct (fn_substitute tiny f R) as [g|] eqn:E; [|discriminate].
      destruct (deps_subst tiny ds R) as [r|] eqn:Er; [|discriminate].
      inversion H; subst. destruct (IH _ eq_refl) as [K Rl]. split.
      + cbn [dkeys map fst]. f_equal. exact K.
      + intros d0 h [Eq|Hin].
        * inversion Eq; subst. exists g. split; [left; reflexivity|exact E].
        * destruct (Rl d0 h Hin) as (g0 & Hg & Eg). exists g0. split; [right; exact Hg|exact Eg].
  Qed.

  Lemma inst_substitute_shape Ins R J : inst_substitute tiny Ins R = Some J ->
    exists ds', opt_subst tiny (i_obj Ins) R = Some (i_obj J) /\
                constrs_subst tiny (i_cs Ins) R = Some (i_cs J) /\
                removed_subst tiny (i_rs Ins) R = Some (i_rs J) /\
                deps_subst tiny (i_deps Ins) R = Some ds' /\
                i_deps J = R ++ filter (keep R) ds' /\ i_dvs J = i_dvs Ins.
  Proof.
    unfold inst_substitute.
    destruct (opt_subst tiny (i_obj Ins) R) as [o|]; [|discriminate].
    destruct (constrs_subst tiny (i_cs Ins) R) as [cs|]; [|discriminate].
    destruct (removed_subst tiny (i_rs Ins) R) as [rs|]; [|discriminate].
    destruct (deps_subst tiny (i_deps Ins) R) as [ds|]; [|discriminate].
    intro H; inversion H; subst; clear H. exists ds. cbn. repeat split; reflexivity.
  Qed.

  (* the dependency keys of the substituted instance: the replaced variables, then the earlier
     dependent variables that are not replaced *)
  Lemma inst_substitute_dkeys Ins R J : inst_substitute tiny Ins R = Some J ->
    (forall d, In d (dkeys (i_deps J)) -> In d (dkeys R) \/ In d (dkeys (i_deps Ins))) /\
    (NoDup (dkeys R) -> NoDup (dkeys (i_deps Ins)) -> NoDup (dkeys (i_deps J))).
  Proof.
    intro HS. destruct (inst_substitute_shape _ _ _ HS) as (ds' & _ & _ & _ & Hd & EJ & _).
    destruct (deps_subst_rel _ _ _ Hd) as [K _]. rewrite EJ, dkeys_app. split.
    - intros d Hin. apply in_app_or in Hin. destruct Hin as [Hin|Hin]; [left; exact Hin|right].
      rewrite <- K. apply in_map_iff in Hin. destruct Hin as (x & E & Hx). apply filter_In in Hx.
      apply in_map_iff. exists x. split; [exact E|apply Hx].
    - intros NR NI. apply NoDup_app_intro; [exact NR|apply NoDup_dkeys_filter; rewrite K; exact NI|].
      intros x Hx Hin. apply in_map_iff in Hin. destruct Hin as (y & E & Hy). apply filter_In in Hy.
      destruct Hy as [_ Hk]. apply keep_true in Hk. apply Hk. rewrite E. exact Hx.
  Qed.

  (* transfer of a recorded constraint from the substituted constraint to the original one *)
  Lemma reports_at_transfer R c c' rm st e : (forall i r, lookup i R = Some r -> fwf r) ->
    (forall rho, agrees rho st -> fixes R rho) ->
    c_rel R c c' -> reports_at c' rm st e -> reports_at c rm st e.
  Proof.
    intros RW Fx (E1 & E2 & E3 & E4) (H1 & H2 & H3 & H4 & H5).
    unfold reports_at. rewrite <- E1, <- E2, <- E3. repeat split; auto.
    intros rho Ag. rewrite (H5 rho Ag). apply (opt_subst_fix R _ _ rho RW E4). apply Fx. exact Ag.
  Qed.
  Lemma reports_removed_at_transfer R r r' st e : (forall i r, lookup i R = Some r -> fwf r) ->
    (forall rho, agrees rho st -> fixes R rho) ->
    r_rel R r r' -> reports_removed_at r' st e -> reports_removed_at r st e.
  Proof.
    intros RW Fx (E1 & E2 & E3) (c' & Hc & Hr). rewrite Hc in E3.
    destruct (r_c r) as [c|] eqn:Ec; [|contradiction].
    exists c. split; [exact Ec|]. rewrite <- E1, <- E2. eapply reports_at_transfer; eauto.
  Qed.
End SubstInst.

(* ================= the instance-level composite ================= *)
Section SubstInstMain.
  Variable tiny : num -> bool.
  Hypothesis TE : tiny_exact tiny.

  (* the reported state extends the given one, solves every dependency of J, and each of its
     valuations gives every replaced variable the value of its replacement *)
  Lemma subst_eval_core Ins R J s sol :
    NoDup (dkeys R) -> NoDup (dkeys (i_deps Ins)) ->
    (forall d, In d (dkeys R) \/ In d (dkeys (i_deps Ins)) -> sget (insert_subst (i_dvs Ins) s) d = None) ->
    sext s (insert_subst (i_dvs Ins) s) ->
    inst_substitute tiny Ins R = Some J -> inst_eval J s = Some sol ->
    sext s (so_state sol) /\ solved (i_deps J) (so_state sol) /\
    (forall rho, agrees rho (so_state sol) -> fixes R rho).
  Proof.
    intros NDR NDI FR SX HS HE.
    destruct (inst_substitute_dkeys tiny _ _ _ HS) as [Kin Knd].
    destruct (inst_substitute_shape tiny _ _ _ HS) as (ds' & _ & _ & _ & _ & EJ & Edv).
    destruct (inst_eval_state_solved J s sol) as [X Sv].
    - apply Knd; assumption.
    - intros d Hd. rewrite Edv. apply FR. apply Kin. exact Hd.
    - exact HE.
    - rewrite Edv in X. split; [eapply sext_trans; eauto|]. split; [exact Sv|].
      intros rho Ag. apply (solved_fixes (i_deps J) (so_state sol)); auto.
      intros i r Lk. rewrite EJ. apply in_or_app. left. apply lookup_in. exact Lk.
  Qed.

  Theorem inst_substitute_eval : forall Ins R J s sol,
    (* the replacement functions are well-formed messages *)
    (forall i r, lookup i R = Some r -> fwf r) ->
    (* the replacement map and the dependency map of the instance are maps *)
    NoDup (dkeys R) -> NoDup (dkeys (i_deps Ins)) ->
    (* the state (completed by the fixed values) gives no value to a replaced or dependent variable *)
    (forall d, In d (dkeys R) \/ In d (dkeys (i_deps Ins)) -> sget (insert_subst (i_dvs Ins) s) d = None) ->
    (* fixed values recorded in the decision variables do not contradict the state *)
    sext s (insert_subst (i_dvs Ins) s) ->
    inst_substitute tiny Ins R = Some J ->
    inst_eval J s = Some sol ->
    (* the reported state extends the given one *)
    sext s (so_state sol) /\
    (* (a) every replaced variable reports the value of its replacement in the reported state,
           which is its value at s whenever s alone suffices to evaluate it *)
    (forall a f, lookup a R = Some f ->
       exists v ids, sget (so_state sol) a = Some v /\ fn_eval f (so_state sol) = Some (v, ids) /\
                     (forall rho, agrees rho (so_state sol) -> v = denote f rho) /\
                     (forall w ids', fn_eval f s = Some (w, ids') -> w = v)) /\
    (* (d) every earlier dependent variable that is not replaced reports the value of its ORIGINAL
           defining function at the reported state *)
    (forall d h, In (d, h) (i_deps Ins) -> ~ In d (dkeys R) ->
       exists v, sget (so_state sol) d = Some v /\
                 forall rho, agrees rho (so_state sol) -> v = denote h rho) /\
    (* (b) the objective value is that of the ORIGINAL objective at the reported state *)
    (forall rho, agrees rho (so_state sol) -> so_objective sol = denote (fn_or_zero (i_obj Ins)) rho) /\
    (* (c) the evaluated constraints: those of the ORIGINAL instance, in the same order, with the
           value of the ORIGINAL function at the reported state; the flags judge exactly them *)
    (exists ea er, so_evaluated sol = ea ++ er /\
       Forall2 (fun c e => reports_at c None (so_state sol) e) (i_cs Ins) ea /\
       Forall2 (fun r e => reports_removed_at r (so_state sol) e) (i_rs Ins) er /\
       (so_feasible_relaxed sol = true <-> Forall holds ea) /\
       (so_feasible sol = true <-> Forall holds (ea ++ er))) /\
    so_dvs sol = i_dvs Ins.
  Proof.
    intros Ins R J s sol RW NDR NDI FR SX HS HE.
    destruct (subst_eval_core _ _ _ _ _ NDR NDI FR SX HS HE) as (X & Sv & Fx).
    destruct (inst_substitute_shape tiny _ _ _ HS) as (ds' & Eo & Ec & Er & Ed & EJ & Edv).
    split; [exact X|]. split; [|split; [|split; [|split]]].
    - (* a *)
      intros a f Lk. destruct (Sv a f) as (v & ids & G & E).
      { rewrite EJ. apply in_or_app. left. apply lookup_in. exact Lk. }
      exists v, ids. split; [exact G|]. split; [exact E|]. split.
      + intros rho Ag. apply fn_eval_sound in E. apply (proj1 E rho Ag).
      + intros w ids' Ew. pose proof (fn_eval_mono _ _ _ _ X Ew) as E'. congruence.
    - (* d *)
      intros d h Hin Hn. destruct (deps_subst_rel tiny _ _ _ Ed) as [_ Rl].
      destruct (Rl d h Hin) as (g & Hg & Eg).
      destruct (Sv d g) as (v & ids & G & E).
      { rewrite EJ. apply in_or_app. right. apply filter_In. split; [exact Hg|].
        apply keep_true. exact Hn. }
      exists v. split; [exact G|]. intros rho Ag. apply fn_eval_sound in E.
      rewrite (proj1 E rho Ag). apply (subst_fix tiny TE R h g rho RW Eg). apply Fx. exact Ag.
    - (* b *)
      intros rho Ag. rewrite (inst_eval_objective _ _ _ HE rho (agrees_sext _ _ _ X Ag)).
      apply (opt_subst_fix tiny TE R _ _ rho RW Eo). apply Fx. exact Ag.
    - (* c *)
      destruct (inst_eval_constraints _ _ _ HE) as (ea & er & E1 & Fa & Fr & H1 & H2).
      exists ea, er. split; [exact E1|]. split; [|split; [|split; assumption]].
      + apply (Forall2_compose (c_rel tiny R) (fun c e => reports c None s e)) with (l' := i_cs J);
          [|apply constrs_subst_rel; exact Ec|exact Fa].
        intros c c' e Rc Rp. eapply (reports_at_transfer tiny TE); eauto.
        eapply reports_reports_at; eauto.
      + apply (Forall2_compose (r_rel tiny R) (fun r e => reports_removed r s e)) with (l' := i_rs J);
          [|apply removed_subst_rel; exact Er|exact Fr].
        intros r r' e Rr (c' & Hc & Rp). eapply (reports_removed_at_transfer tiny TE); eauto.
        exists c'. split; [exact Hc|]. eapply reports_reports_at; eauto.
    - rewrite (inst_eval_dvs _ _ _ HE). exact Edv.
  Qed.
End SubstInstMain.

(* ================= two successive substitutions ================= *)
Section SubstInstChain.
  Variable tiny : num -> bool.
  Hypothesis TE : tiny_exact tiny.

  Theorem inst_substitute_chain : forall Ins R1 R2 J1 J2 s sol,
    (forall i r, lookup i R1 = Some r -> fwf r) ->
    (forall i r, lookup i R2 = Some r -> fwf r) ->
    NoDup (dkeys R1) -> NoDup (dkeys R2) -> NoDup (dkeys (i_deps Ins)) ->
    (* the second map replaces remaining variables only (they may occur in R1's functions) *)
    (forall d, In d (dkeys R1) -> ~ In d (dkeys R2)) ->
    (forall d, In d (dkeys R1) \/ In d (dkeys R2) \/ In d (dkeys (i_deps Ins)) ->
               sget (insert_subst (i_dvs Ins) s) d = None) ->
    sext s (insert_subst (i_dvs Ins) s) ->
    inst_substitute tiny Ins R1 = Some J1 ->
    inst_substitute tiny J1 R2 = Some J2 ->
    inst_eval J2 s = Some sol ->
    sext s (so_state sol) /\
    (* the variables replaced first report the value of their replacement at the reported state
       (in which the variables replaced second carry the value of THEIR replacement) *)
    (forall a f, lookup a R1 = Some f ->
       exists v, sget (so_state sol) a = Some v /\
                 (forall rho, agrees rho (so_state sol) -> v = denote f rho) /\
                 (forall w ids, fn_eval f (so_state sol) = Some (w, ids) -> w = v)) /\
    (forall b g, lookup b R2 = Some g ->
       exists v ids, sget (so_state sol) b = Some v /\ fn_eval g (so_state sol) = Some (v, ids) /\
                     (forall rho, agrees rho (so_state sol) -> v = denote g rho) /\
                     (forall w ids', fn_eval g s = Some (w, ids') -> w = v)) /\
    (forall d h, In (d, h) (i_deps Ins) -> ~ In d (dkeys R1) -> ~ In d (dkeys R2) ->
       exists v, sget (so_state sol) d = Some v /\
                 forall rho, agrees rho (so_state sol) -> v = denote h rho) /\
    (forall rho, agrees rho (so_state sol) -> so_objective sol = denote (fn_or_zero (i_obj Ins)) rho) /\
    (exists ea er, so_evaluated sol = ea ++ er /\
       Forall2 (fun c e => reports_at c None (so_state sol) e) (i_cs Ins) ea /\
       Forall2 (fun r e => reports_removed_at r (so_state sol) e) (i_rs Ins) er /\
       (so_feasible_relaxed sol = true <-> Forall holds ea) /\
       (so_feasible sol = true <-> Forall holds (ea ++ er))) /\
    so_dvs sol = i_dvs Ins.
  Proof.
    intros Ins R1 R2 J1 J2 s sol RW1 RW2 ND1 ND2 NDI Dj FR SX HS1 HS2 HE.
    destruct (inst_substitute_dkeys tiny _ _ _ HS1) as [Kin Knd].
    destruct (inst_substitute_shape tiny _ _ _ HS1) as (ds1 & Eo & Ec & Er & Ed & EJ & Edv).
    assert (FR' : forall d, In d (dkeys R2) \/ In d (dkeys (i_deps J1)) ->
                            sget (insert_subst (i_dvs J1) s) d = None).
    { intros d Hd. rewrite Edv. apply FR. destruct Hd as [Hd|Hd]; [right; left; exact Hd|].
      destruct (Kin d Hd) as [H|H]; [left; exact H|right; right; exact H]. }
    assert (SX' : sext s (insert_subst (i_dvs J1) s)) by (rewrite Edv; exact SX).
    destruct (inst_substitute_eval tiny TE J1 R2 J2 s sol RW2 ND2 (Knd ND1 NDI) FR' SX' HS2 HE)
      as (X & A2 & D2 & B2 & C2 & Dv).
    (* every valuation of the reported state fixes R1 *)
    assert (Fx1 : forall rho, agrees rho (so_state sol) -> fixes R1 rho).
    { intros rho Ag i r Lk. apply lookup_in in Lk.
      destruct (D2 i r) as (v & G & Hv).
      - rewrite EJ. apply in_or_app. left. exact Lk.
      - apply Dj. eapply dkeys_in. exact Lk.
      - rewrite <- (Hv rho Ag). symmetry. apply Ag. exact G. }
    split; [exact X|]. split; [|split; [exact A2|split; [|split; [|split]]]].
    - intros a f Lk. apply lookup_in in Lk.
      destruct (D2 a f) as (v & G & Hv).
      + rewrite EJ. apply in_or_app. left. exact Lk.
      + apply Dj. eapply dkeys_in. exact Lk.
      + exists v. split; [exact G|]. split; [exact Hv|].
        intros w ids E. apply fn_eval_sound in E.
        rewrite (proj1 E _ (total_agrees (so_state sol))). symmetry. apply Hv. apply total_agrees.
    - intros d h Hin Hn1 Hn2. destruct (deps_subst_rel tiny _ _ _ Ed) as [_ Rl].
      destruct (Rl d h Hin) as (g & Hg & Eg).
      destruct (D2 d g) as (v & G & Hv); [|exact Hn2|].
      + rewrite EJ. apply in_or_app. right. apply filter_In. split; [exact Hg|].
        apply keep_true. exact Hn1.
      + exists v. split; [exact G|]. intros rho Ag. rewrite (Hv rho Ag).
        apply (subst_fix tiny TE R1 h g rho RW1 Eg). apply Fx1. exact Ag.
    - intros rho Ag. rewrite (B2 rho Ag).
      apply (opt_subst_fix tiny TE R1 _ _ rho RW1 Eo). apply Fx1. exact Ag.
    - destruct C2 as (ea & er & E1 & Fa & Fr & H1 & H2).
      exists ea, er. split; [exact E1|]. split; [|split; [|split; assumption]].
      + apply (Forall2_compose (c_rel tiny R1) (fun c e => reports_at c None (so_state sol) e)) with (l' := i_cs J1);
          [|apply constrs_subst_rel; exact Ec|exact Fa].
        intros c c' e Rc Rp. exact (reports_at_transfer tiny TE R1 c c' None _ e RW1 Fx1 Rc Rp).
      + apply (Forall2_compose (r_rel tiny R1) (fun r e => reports_removed_at r (so_state sol) e)) with (l' := i_rs J1);
          [|apply removed_subst_rel; exact Er|exact Fr].
        intros r r' e Rr Rp. exact (reports_removed_at_transfer tiny TE R1 r r' _ e RW1 Fx1 Rr Rp).
    - rewrite Dv. exact Edv.
  Qed.
End SubstInstChain.

(* ================= convenient forms ================= *)
(* (a), value form: a replacement that mentions only variables that have values in s reports
   exactly its value at s *)
Corollary inst_substitute_eval_value : forall tiny, tiny_exact tiny -> forall Ins R J s sol,
  (forall i r, lookup i R = Some r -> fwf r) ->
  NoDup (dkeys R) -> NoDup (dkeys (i_deps Ins)) ->
  (forall d, In d (dkeys R) \/ In d (dkeys (i_deps Ins)) -> sget (insert_subst (i_dvs Ins) s) d = None) ->
  sext s (insert_subst (i_dvs Ins) s) ->
  inst_substitute tiny Ins R = Some J -> inst_eval J s = Some sol ->
  forall a f, lookup a R = Some f -> covers s f ->
    exists w ids, fn_eval f s = Some (w, ids) /\ sget (so_state sol) a = Some w.
Proof.
  intros tiny TE Ins R J s sol RW NDR NDI FR SX HS HE a f Lk Cv.
  destruct (inst_substitute_eval tiny TE _ _ _ _ _ RW NDR NDI FR SX HS HE) as (_ & A & _).
  destruct (A a f Lk) as (v & ids & G & _ & _ & Hw).
  destruct (fn_eval_total f s Cv) as (w & ids' & E).
  exists w, ids'. split; [exact E|]. rewrite (Hw w ids' E). exact G.
Qed.

(* when no decision variable carries a fixed (substituted) value, the two hypotheses about the
   completed state are hypotheses about the state itself *)
Lemma no_fixed_values_hyps Ins s (P : N -> Prop) :
  (forall v, In v (i_dvs Ins) -> dv_subst v = None) ->
  (forall d, P d -> sget s d = None) ->
  (forall d, P d -> sget (insert_subst (i_dvs Ins) s) d = None) /\ sext s (insert_subst (i_dvs Ins) s).
Proof.
  intros Hn Hf. rewrite (insert_subst_none _ s Hn). split; [exact Hf|apply sext_refl].
Qed.

(* ================= non-vacuity ================= *)
(* x1 in [0,10], x2, x3, x4 free, x5 fixed to 2 (substituted value recorded in the variable);
   minimise x1*x2 + x3; active constraint 7: x2 - x3 <= 0; removed constraint 8: x2 - 4 = 0;
   x4 is already a dependent variable, x4 = x2 + x1.  Replace x2 := x1 + 1 and x3 := x1*x1 (a
   quadratic message), evaluate at x1 = 3. *)
Definition xdv (i : N) : dvar :=
  {| dv_id := i; dv_kind := KIND_CONTINUOUS; dv_bound := None; dv_subst := None; dv_meta := [] |}.
Definition lin2 (i : N) (a : num) (j : N) (b : num) (c : num) : function :=
  FLin {| l_terms := [(i, a); (j, b)]; l_const := c |}.
Definition Ins_ex : instance :=
  {| i_sense := SENSE_MIN;
     i_obj := Some (FPoly [([1; 2]%N, 1); ([3]%N, 1)]);
     i_dvs := [ {| dv_id := 1; dv_kind := KIND_CONTINUOUS; dv_bound := Some (Fin 0, Fin (qz 10));
                   dv_subst := None; dv_meta := [A "x"%string] |};
                xdv 2; xdv 3; xdv 4;
                {| dv_id := 5; dv_kind := KIND_CONTINUOUS; dv_bound := None; dv_subst := Some (qz 2);
                   dv_meta := [] |} ];
     i_cs := [ {| c_id := 7; c_eq := LE_ZERO; c_fn := Some (lin2 2 1 3 (qz (-1)) 0); c_meta := [A "c7"%string] |} ];
     i_rs := [ {| r_c := Some {| c_id := 8; c_eq := EQ_ZERO;
                                 c_fn := Some (FLin {| l_terms := [(2%N, 1)]; l_const := qz (-4) |});
                                 c_meta := [A "c8"%string] |};
                  r_reason := A "why"%string; r_params := L [] |} ];
     i_deps := [ (4%N, lin2 2 1 1 1 0) ];
     i_params := None; i_hints := L []; i_desc := L [] |}.
Definition sq1 : function := FQuad {| q_rows := [1%N]; q_cols := [1%N]; q_vals := [1]; q_lin := None |}.
Definition R_ex : repl := [ (2%N, FLin {| l_terms := [(1%N, 1)]; l_const := 1 |}); (3%N, sq1) ].
Definition s_ex : state := [ (1%N, qz 3) ].

Lemma sq1_wf : fwf sq1.
Proof. unfold fwf, qwf, sq1. vm_compute. constructor; [intros []|constructor]. Qed.

Lemma s_ex_consistent : sext s_ex (insert_subst (i_dvs Ins_ex) s_ex).
Proof.
  intros i v H. unfold s_ex in H. cbn [sget] in H.
  destruct (i =? 1)%N eqn:E; [|discriminate]. apply N.eqb_eq in E. subst i.
  inversion H; subst. vm_compute. reflexivity.
Qed.

(* ALL hypotheses of inst_substitute_eval hold, substitution and evaluation succeed, and the
   solution is the expected one: x2 = 4, x3 = 9, x4 = 7, objective 3*4 + 9 = 21, constraint
   values 4 - 9 = -5 and 4 - 4 = 0, feasible *)
Example inst_substitute_eval_nonvacuous :
  exists J sol,
    (forall i r, lookup i R_ex = Some r -> fwf r) /\
    NoDup (dkeys R_ex) /\ NoDup (dkeys (i_deps Ins_ex)) /\
    (forall d, In d (dkeys R_ex) \/ In d (dkeys (i_deps Ins_ex)) ->
               sget (insert_subst (i_dvs Ins_ex) s_ex) d = None) /\
    sext s_ex (insert_subst (i_dvs Ins_ex) s_ex) /\
    inst_substitute tiny_0 Ins_ex R_ex = Some J /\
    inst_eval J s_ex = Some sol /\
    so_objective sol = qz 21 /\
    sget (so_state sol) 2 = Some (qz 4) /\ sget (so_state sol) 3 = Some (qz 9) /\
    sget (so_state sol) 4 = Some (qz 7) /\ sget (so_state sol) 5 = Some (qz 2) /\
    map ev_value (so_evaluated sol) = [qz (-5); 0] /\ map ev_id (so_evaluated sol) = [7%N; 8%N] /\
    so_feasible sol = true.
Proof.
  eexists. eexists.
  split. { intros i r H. unfold R_ex in H. cbn [lookup] in H.
           destruct (i =? 2)%N; [inversion H; subst; exact Logic.I|].
           destruct (i =? 3)%N; [inversion H; subst; exact sq1_wf|discriminate]. }
  split. { vm_compute. repeat constructor; cbn [In]; intuition discriminate. }
  split. { vm_compute. repeat constructor; cbn [In]; intuition discriminate. }
  split. { intros d [H|H]; vm_compute in H; intuition (subst; vm_compute; reflexivity). }
  split. { exact s_ex_consistent. }
  split. { vm_compute. reflexivity. }
  split. { vm_compute. reflexivity. }
  repeat split; vm_compute; reflexivity.
Qed.

(* chain: first x2 := x3 + 1, then x3 := x1*x1 (a key of the second map occurs in a function of
   the first); at x1 = 3: x3 = 9, x2 = 10, x4 = 13, objective 3*10 + 9 = 39 *)
Definition R1_ex : repl := [ (2%N, FLin {| l_terms := [(3%N, 1)]; l_const := 1 |}) ].
Definition R2_ex : repl := [ (3%N, sq1) ].

Example inst_substitute_chain_nonvacuous :
  exists J1 J2 sol,
    (forall i r, lookup i R1_ex = Some r -> fwf r) /\
    (forall i r, lookup i R2_ex = Some r -> fwf r) /\
    NoDup (dkeys R1_ex) /\ NoDup (dkeys R2_ex) /\ NoDup (dkeys (i_deps Ins_ex)) /\
    (forall d, In d (dkeys R1_ex) -> ~ In d (dkeys R2_ex)) /\
    (forall d, In d (dkeys R1_ex) \/ In d (dkeys R2_ex) \/ In d (dkeys (i_deps Ins_ex)) ->
               sget (insert_subst (i_dvs Ins_ex) s_ex) d = None) /\
    sext s_ex (insert_subst (i_dvs Ins_ex) s_ex) /\
    inst_substitute tiny_0 Ins_ex R1_ex = Some J1 /\
    inst_substitute tiny_0 J1 R2_ex = Some J2 /\
    inst_eval J2 s_ex = Some sol /\
    so_objective sol = qz 39 /\
    sget (so_state sol) 2 = Some (qz 10) /\ sget (so_state sol) 3 = Some (qz 9) /\
    sget (so_state sol) 4 = Some (qz 13) /\
    map ev_value (so_evaluated sol) = [qz 1; qz 6] /\ so_feasible sol = false.
Proof.
  eexists. eexists. eexists.
  split. { intros i r H. unfold R1_ex in H. cbn [lookup] in H.
           destruct (i =? 2)%N; [inversion H; subst; exact Logic.I|discriminate]. }
  split. { intros i r H. unfold R2_ex in H. cbn [lookup] in H.
           destruct (i =? 3)%N; [inversion H; subst; exact sq1_wf|discriminate]. }
  split. { vm_compute. repeat constructor; cbn [In]; intuition discriminate. }
  split. { vm_compute. repeat constructor; cbn [In]; intuition discriminate. }
  split. { vm_compute. repeat constructor; cbn [In]; intuition discriminate. }
  split. { intros d H1 H2. vm_compute in H1, H2. intuition (subst; discriminate). }
  split. { intros d [H|[H|H]]; vm_compute in H; intuition (subst; vm_compute; reflexivity). }
  split. { exact s_ex_consistent. }
  split. { vm_compute. reflexivity. }
  split. { vm_compute. reflexivity. }
  split. { vm_compute. reflexivity. }
  repeat split; vm_compute; reflexivity.
Qed.

Print Assumptions inst_substitute_eval.
Print Assumptions inst_substitute_chain.
Print Assumptions inst_substitute_eval_value.
Print Assumptions inst_substitute_eval_nonvacuous.
Print Assumptions inst_substitute_chain_nonvacuous.
