(* RunTransform.v — correspondence runners for C09, C10, C11, C12 and the
   as_minimization part of C15. *)
Require Import Ommx.Num Ommx.Poly Ommx.Msg Ommx.Eval Ommx.Tree Ommx.Arith Ommx.PEval Ommx.Inst
        Ommx.Relax Ommx.RunC02 Ommx.RunC03 Ommx.RunC05 Ommx.RunC14 Ommx.Transform.
From Coq Require Import String.
Open Scope string_scope.

Definition ofn_eqb (a b : option function) : bool := fn_eqb (fn_or_zero a) (fn_or_zero b).
Definition dep_eqb (a b : N * function) : bool := (fst a =? fst b)%N && fn_eqb (snd a) (snd b).
Definition instance_eqb (a b : instance) : bool :=
  (i_sense a =? i_sense b)%Z && ofn_eqb (i_obj a) (i_obj b) && list_eqb dvar_eqb (i_dvs a) (i_dvs b) &&
  list_eqb constr_eqb (i_cs a) (i_cs b) && list_eqb removed_eqb (i_rs a) (i_rs b) &&
  mset_eqb dep_eqb (i_deps a) (i_deps b) && optb state_eqb (i_params a) (i_params b) &&
  tree_eqb (i_hints a) (i_hints b) && tree_eqb (i_desc a) (i_desc b).

Definition e_fn (f : function) : tree := L [A (kind_tag_of f); e_terms (fn_terms f)].
Definition e_instance_brief (I : instance) : tree :=
  L [A "sense"; Tree.I (i_sense I); A "objective"; e_fn (fn_or_zero (i_obj I));
     A "variables"; e_list (fun v => L [e_N (dv_id v); Tree.I (dv_kind v)]) (i_dvs I);
     A "constraints"; e_list (fun c => L [e_N (c_id c); Tree.I (c_eq c); e_fn (fn_or_zero (c_fn c))]) (i_cs I);
     A "removed"; e_list e_N (map c_id (removed_constrs (i_rs I)));
     A "parameters"; e_opt e_state (i_params I)].

Definition judge_instance (expected : option instance) (r : tree) (tag : string) : tree :=
  match expected with
  | None => if is_err r || is_panic r then agree [tag; "err"]
            else disagree (tag ++ ": must fail") (A "err")
  | Some E =>
      match ok_payload r with
      | Some p =>
          match d_instance p with
          | Some G => if instance_eqb G E then agree [tag; "ok"]
                      else disagree (tag ++ ": resulting instance") (e_instance_brief E)
          | None => badresult (tag ++ ": instance shape")
          end
      | None => if is_err r || is_panic r then disagree (tag ++ ": must succeed") (e_instance_brief E)
                else badresult (tag ++ ": shape")
      end
  end.

(* ---------------- C09 ---------------- *)
Fixpoint nodup_b (l : list N) : bool :=
  match l with [] => true | i :: l' => negb (mem i l') && nodup_b l' end.

Definition disjoint_ids (a b : list N) : bool := forallb (fun i => negb (mem i b)) a.

(* expected objective for GIVEN weight-parameter ids (fresh ids are a constrained observable) *)
Fixpoint penalty_obj (cs : list constr) (ids : list N) (obj : function) : option function :=
  match cs, ids with
  | [], [] => Some obj
  | c :: cs', k :: ids' =>
      match penalty_term tiny_eps k (fn_or_zero (c_fn c)) with
      | Some t => match fn_add tiny_eps obj t with Some o => penalty_obj cs' ids' o | None => None end
      | None => None
      end
  | _, _ => None
  end.
Fixpoint uniform_sum (cs : list constr) (qs : function) : option function :=
  match cs with
  | [] => Some qs
  | c :: cs' =>
      let f := fn_or_zero (c_fn c) in
      match fn_mul tiny_eps f f with
      | Some ff => match fn_add tiny_eps qs ff with Some q => uniform_sum cs' q | None => None end
      | None => None
      end
  end.

Definition kept_constraints (I : instance) : list (option constr) :=
  (map r_c (i_rs I) ++ map Some (i_cs I))%list.

Definition judge_penalty (uniform : bool) (I : instance) (r : tree) : tree :=
  let model := if uniform then uniform_penalty tiny_eps I else penalty tiny_eps I in
  match model with
  | None => if is_err r || is_panic r then agree ["penalty"; "err"]
            else disagree "penalty method must fail (unset function)" (A "err")
  | Some M =>
      match ok_payload r with
      | Some p =>
          match d_pinstance p with
          | None => badresult "penalty: parametric instance shape"
          | Some P =>
              let pids := map pa_id (p_params P) in
              let expected_obj :=
                if uniform then
                  match pids, uniform_sum (i_cs I) (FConst 0) with
                  | [k], Some qs =>
                      match fn_mul tiny_eps qs (FLin (lin_single k 1)) with
                      | Some t => fn_add tiny_eps (fn_or_zero (i_obj I)) t
                      | None => None
                      end
                  | _, _ => None
                  end
                else penalty_obj (i_cs I) pids (fn_or_zero (i_obj I)) in
              if negb (match p_cs P with [] => true | _ => false end)
              then disagree "no active constraint may remain" (L [])
              else if negb (list_eqb (optb constr_eqb) (map r_c (p_rs P)) (kept_constraints I))
              then disagree "every constraint of the input (already removed ones included) is kept as a removed constraint with unchanged id, function, equality"
                            (e_list e_N (map c_id (all_constrs I)))
              else if negb (nodup_b pids && disjoint_ids pids (map dv_id (i_dvs I)))
              then disagree "weight-parameter ids must be pairwise distinct and differ from every decision-variable id" (e_list e_N (map pa_id (p_params M)))
              else if negb (uniform || list_eqb tree_eqb
                                         (map (fun q => nth 1 (pa_meta q) (L [])) (p_params P))
                                         (map (fun c => L [Tree.I (Z.of_N (c_id c))]) (i_cs I)))
              then disagree "each weight parameter is tagged (subscripts) with its constraint's id" (L [])
              else
                match expected_obj with
                | None => disagree "one weight parameter per constraint (uniform: exactly one)" (e_list e_N (map pa_id (p_params M)))
                | Some o =>
                    if negb (ofn_eqb (p_obj P) (Some o))
                    then disagree "objective = f + sum of weight * g^2" (e_fn o)
                    else if negb ((p_sense P =? i_sense I)%Z && list_eqb dvar_eqb (p_dvs P) (i_dvs I) &&
                                  mset_eqb dep_eqb (p_deps P) (i_deps I) && tree_eqb (p_hints P) (i_hints I))
                    then disagree "variables, sense, dependencies and hints are carried over" (L [])
                    else if negb (tree_eqb (p_desc P) (i_desc I))
                    then disagree "the description is carried over" (i_desc I)
                    else if negb (list_eqb removed_eqb (firstn (List.length (i_rs I)) (p_rs P)) (i_rs I))
                    then disagree "previously removed constraints keep their reason and reason parameters" (L [])
                    else if negb (list_eqb removed_eqb (p_rs P) (p_rs M))
                    then disagree "the newly removed constraints record the method as reason and the weight parameter's id" (L [])
                    else agree ["penalty"; if uniform then "uniform" else "per-constraint";
                                match i_rs I with [] => "no-previous-removed" | _ => "previous-removed" end]
                end
          end
      | None => if is_err r || is_panic r then disagree "penalty method must succeed" (L [])
                else badresult "penalty: shape"
      end
  end.

(* ---------------- C10 ---------------- *)
Definition judge_with_parameters (P : pinstance) (theta : state) (r : tree) : tree :=
  judge_instance (with_parameters tiny_eps P theta) r "with_parameters".

Definition judge_roundtrip (I : instance) (r : tree) : tree :=
  match with_parameters tiny_eps (of_instance I) [] with
  | None => if is_err r || is_panic r then agree ["roundtrip"; "err"] else disagree "roundtrip must fail" (A "err")
  | Some E =>
      match ok_payload r with
      | Some (L [_; it]) =>
          match d_instance it with
          | Some G =>
              if negb (instance_eqb G E) then disagree "instance -> parametric -> instance" (e_instance_brief E)
              (* same mathematical problem as the original *)
              else if negb (ofn_eqb (i_obj G) (i_obj I) &&
                            list_eqb (fun a b => (c_id a =? c_id b)%N && (c_eq a =? c_eq b)%Z && ofn_eqb (c_fn a) (c_fn b))
                                     (i_cs G) (i_cs I) &&
                            list_eqb removed_eqb (i_rs G) (i_rs I) && list_eqb dvar_eqb (i_dvs G) (i_dvs I) &&
                            (i_sense G =? i_sense I)%Z)
              then disagree "round trip must give the same mathematical problem" (e_instance_brief I)
              else agree ["roundtrip"; "ok"]
          | None => badresult "roundtrip: instance shape"
          end
      | _ => if is_err r || is_panic r then disagree "roundtrip must succeed" (e_instance_brief E)
             else badresult "roundtrip: shape"
      end
  end.

(* ---------------- C11 ---------------- *)
Fixpoint strictly_increasing (l : list N) : bool :=
  match l with
  | i :: (j :: _) as l' => (i <? j)%N && strictly_increasing l'
  | _ => true
  end.

(* all 0/1 assignments of the listed ids *)
Fixpoint assignments (ids : list N) : list state :=
  match ids with
  | [] => [[]]
  | i :: ids' => flat_map (fun s => [(i, 0) :: s; (i, 1) :: s]) (assignments ids')
  end.
Definition dedup_ids (l : list N) : list N := dedup_sorted (sort_ids l).

Fixpoint nodup_keys (Sd : terms) : bool :=
  match Sd with [] => true | (k, _) :: S' => negb (existsb (fun mc => ids_eqb k (fst mc)) S') && nodup_keys S' end.

Definition judge_pubo (I : instance) (r : tree) : tree :=
  match as_pubo enter_eps leave_eps I with
  | inl _ => if is_err r then agree ["pubo"; "refused"] else disagree "PUBO export must be refused" (A "err")
  | inr D =>
      match ok_payload r with
      | Some p =>
          match d_polynomial p with
          | Some Sd =>
              let obj := fn_or_zero (i_obj I) in
              let ids := dedup_ids (fn_used obj) in
              if negb (forallb (fun mc => strictly_increasing (fst mc)) Sd)
              then disagree "PUBO keys must be duplicate-free sorted sets" (e_terms D)
              else if negb (nodup_keys Sd)
              then disagree "PUBO keys must be distinct" (e_terms D)
              else if negb (forallb (fun mc => negb (qeqb (snd mc) 0)) Sd)
              then disagree "no stored PUBO coefficient may be zero" (e_terms D)
              else if negb (poly_eqb Sd D) then disagree "PUBO dictionary" (e_terms D)
              else
                (* independent sweep over all 2^n assignments, when no coefficient was dropped *)
                let exact := match as_pubo enter_0 leave_0 I with inr D0 => poly_eqb D0 D | inl _ => false end in
                if exact && (Nat.leb (List.length ids) 10) &&
                   negb (forallb (fun s => qeqb (val (total s) Sd) (val (total s) (fn_terms obj))) (assignments ids))
                then disagree "sum_S c_S prod x_i = objective(x) on every binary x" (e_terms D)
                else agree ["pubo"; "ok"; if exact then (if Nat.leb (List.length ids) 10 then "all-assignments" else "dictionary-only") else "dropped-tiny"]
          | None => badresult "pubo: shape"
          end
      | None => if is_err r || is_panic r then disagree "PUBO export must succeed" (e_terms D) else badresult "pubo: shape"
      end
  end.

Definition d_qubo_entry (t : tree) : option (list N * num) :=
  match t with
  | L [L [a; b]; c] => do a' <- d_N a; do b' <- d_N b; do c' <- d_num c; Some ([a'; b'], c')
  | _ => None
  end.

Definition judge_qubo (I : instance) (r : tree) : tree :=
  match as_qubo enter_eps leave_eps I with
  | inl _ => if is_err r then agree ["qubo"; "refused"] else disagree "QUBO export must be refused" (A "err")
  | inr (D, c0) =>
      match ok_payload r with
      | Some (L [m; off]) =>
          match d_list d_qubo_entry m, d_num off with
          | Some Sd, Some off' =>
              let obj := fn_or_zero (i_obj I) in
              let ids := dedup_ids (fn_used obj) in
              if negb (forallb (fun mc => match fst mc with [a; b] => (a <=? b)%N | _ => false end) Sd)
              then disagree "QUBO keys must satisfy i <= j" (e_terms D)
              else if negb (nodup_keys Sd) then disagree "QUBO keys must be distinct" (e_terms D)
              else if negb (forallb (fun mc => negb (qeqb (snd mc) 0)) Sd)
              then disagree "no stored QUBO coefficient may be zero" (e_terms D)
              else if negb (poly_eqb Sd D) then disagree "QUBO matrix" (e_terms D)
              else if negb (qeqb off' c0) then disagree "QUBO offset" (e_num c0)
              else
                let exact := match as_qubo enter_0 leave_0 I with
                             | inr (D0, c00) => poly_eqb D0 D && qeqb c00 c0 | inl _ => false end in
                if exact && (Nat.leb (List.length ids) 10) &&
                   negb (forallb (fun s => qeqb (val (total s) Sd + off') (val (total s) (fn_terms obj))) (assignments ids))
                then disagree "sum Q_ij x_i x_j + offset = objective(x) on every binary x" (e_terms D)
                else agree ["qubo"; "ok"; if exact then "all-assignments" else "dropped-tiny"]
          | _, _ => badresult "qubo: shape"
          end
      | _ => if is_err r || is_panic r then disagree "QUBO export must succeed" (e_terms D) else badresult "qubo: shape"
      end
  end.

(* ---------------- C12 ---------------- *)
Definition is_hang (t : tree) : bool := match t with L [A "hang"] | L [A "crash"] => true | _ => false end.

(* the decision variables the SDK appended, and the encoding expected for THOSE ids *)
Fixpoint drop {X} (n : nat) (l : list X) : list X :=
  match n, l with O, _ => l | S n', _ :: l' => drop n' l' | _, [] => [] end.
Fixpoint firstn' {X} (n : nat) (l : list X) : list X :=
  match n, l with O, _ => [] | S n', x :: l' => x :: firstn' n' l' | _, [] => [] end.

Fixpoint bits_ok (orig : N) (i : N) (vs : list dvar) : bool :=
  match vs with
  | [] => true
  | v :: vs' =>
      (dv_kind v =? KIND_BINARY)%Z &&
      optb (fun p q => ext_eqb (fst p) (fst q) && ext_eqb (snd p) (snd q)) (dv_bound v) (Some (Fin 0, Fin 1)) &&
      optb qeqb (dv_subst v) None &&
      tree_eqb (nth 1 (dv_meta v) (L [])) (L [I (as_i64 orig); I (Z.of_N i)]) &&
      bits_ok orig (i + 1) vs'
  end.

Definition set_dvs (J : instance) (dvs : list dvar) : instance :=
  {| i_sense := i_sense J; i_obj := i_obj J; i_dvs := dvs; i_cs := i_cs J; i_rs := i_rs J;
     i_deps := i_deps J; i_params := i_params J; i_hints := i_hints J; i_desc := i_desc J |}.

Definition judge_log_encode (I : instance) (id : N) (r : tree) : tree :=
  match r with
  | L [res; after] =>
      match d_instance after with
      | None => badresult "log_encode: instance shape"
      | Some J =>
          match log_encode tiny_eps I id with
          | inl _ =>
              if negb (is_err res) then disagree "log_encode must return an error" (A "err")
              else if negb (instance_eqb J I) then disagree "a failed log_encode must leave the instance unchanged" (L [])
              else agree ["log_encode"; "err"]
          | inr (lin, newvs) =>
              match ok_payload res with
              | Some lt =>
                  match d_linear lt with
                  | Some got =>
                      let n0 := List.length (i_dvs I) in
                      let added := drop n0 (i_dvs J) in
                      let ids := map dv_id added in
                      let cs := map (fun ic => snd ic) (l_terms lin) in
                      if negb (list_eqb dvar_eqb (firstn' n0 (i_dvs J)) (i_dvs I))
                      then disagree "existing decision variables must be kept" (L [])
                      else if negb (Nat.eqb (List.length added) (List.length newvs))
                      then disagree "number of binary variables registered" (Tree.I (Z.of_nat (List.length newvs)))
                      else if negb (nodup_b ids && disjoint_ids ids (map dv_id (i_dvs I)))
                      then disagree "registered binaries need new unique ids" (L [])
                      else if negb (bits_ok id 0 added)
                      then disagree "registered binaries: kind binary, bound [0,1], tagged [encoded id, bit index]" (L [])
                      else if negb (poly_eqb (lin_terms got)
                                             (lin_terms {| l_terms := combine ids cs; l_const := l_const lin |}))
                      then disagree "log-encoding coefficients / constant" (e_terms (lin_terms lin))
                      else if negb (instance_eqb (set_dvs J (i_dvs I)) I)
                      then disagree "log_encode must only append decision variables" (L [])
                      else agree ["log_encode"; match newvs with [] => "single-integer" | _ => "encoded" end]
                  | None => badresult "log_encode: linear shape"
                  end
              | None =>
                  if is_err res || is_panic res then disagree "log_encode must succeed" (e_terms (lin_terms lin))
                  else badresult "log_encode: shape"
              end
          end
      end
  | _ => if is_hang r then disagree "log_encode must return (no hang)" (A "err")
         else if is_panic r then disagree "log_encode must not panic" (A "err")
         else badresult "log_encode: shape"
  end.

(* ---------------- dispatch ---------------- *)
Definition run_C09 (case : tree) : tree :=
  match case with
  | L [A "penalty"; i; r] =>
      match d_instance i with Some I' => judge_penalty false I' r | None => badcase "penalty: input" end
  | L [A "uniform_penalty"; i; r] =>
      match d_instance i with Some I' => judge_penalty true I' r | None => badcase "uniform_penalty: input" end
  | _ => badcase "C09: unknown op"
  end.

Definition run_C10 (case : tree) : tree :=
  match case with
  | L [A "with_parameters"; L [p; th]; r] =>
      match d_pinstance p, d_state th with
      | Some P, Some theta => judge_with_parameters P theta r
      | _, _ => badcase "with_parameters: input"
      end
  | L [A "of_instance_roundtrip"; i; r] =>
      match d_instance i with Some I' => judge_roundtrip I' r | None => badcase "roundtrip: input" end
  | _ => badcase "C10: unknown op"
  end.

Definition run_C11 (case : tree) : tree :=
  match case with
  | L [A "as_pubo"; i; r] =>
      match d_instance i with Some I' => judge_pubo I' r | None => badcase "as_pubo: input" end
  | L [A "as_qubo"; i; r] =>
      match d_instance i with Some I' => judge_qubo I' r | None => badcase "as_qubo: input" end
  | _ => badcase "C11: unknown op"
  end.

Definition run_C12 (case : tree) : tree :=
  match case with
  | L [A "log_encode"; L [i; id]; r] =>
      match d_instance i, d_N id with
      | Some I', Some id' => judge_log_encode I' id' r
      | _, _ => badcase "log_encode: input"
      end
  | _ => badcase "C12: unknown op"
  end.

Definition run_as_min (case : tree) : tree :=
  match case with
  | L [A "as_min"; i; r] =>
      match d_instance i with
      | Some I' => judge_instance (as_min tiny_eps I') r "as_min"
      | None => badcase "as_min: input"
      end
  | _ => badcase "as_min: unknown op"
  end.
