(* Inst.v — instance-level messages and Instance::evaluate (evaluate.rs:257-415, 510-539;
   v1_ext/instance.rs:27-53; v1_ext/constraint.rs:16-27; bound.rs:21-34, 345-361). *)
Require Import Ommx.Num Ommx.Poly Ommx.Msg Ommx.Eval Ommx.Tree.
From Coq Require Import String.
Open Scope string_scope.

(* metadata that evaluation only copies (name, subscripts, parameters, description) is carried
   as opaque trees *)
Record dvar := {
  dv_id : N; dv_kind : Z; dv_bound : option (ext * ext); dv_subst : option num;
  dv_meta : list tree }.
Record constr := { c_id : N; c_eq : Z; c_fn : option function; c_meta : list tree }.
Record removed := { r_c : option constr; r_reason : tree; r_params : tree }.
Record instance := {
  i_sense : Z; i_obj : option function; i_dvs : list dvar; i_cs : list constr;
  i_rs : list removed; i_deps : list (N * function); i_params : option state;
  i_hints : tree; i_desc : tree }.

(* kinds / equalities / senses as in the .proto enums *)
Definition KIND_BINARY : Z := 1.
Definition KIND_INTEGER : Z := 2.
Definition KIND_CONTINUOUS : Z := 3.
Definition EQ_ZERO : Z := 1.
Definition LE_ZERO : Z := 2.
Definition SENSE_MIN : Z := 1.
Definition SENSE_MAX : Z := 2.

(* ---------------- decoders / encoders ---------------- *)
Definition d_extpair (t : tree) : option (ext * ext) := d_pair d_ext d_ext t.
Definition d_dvar (t : tree) : option dvar :=
  match t with
  | L [i; k; b; sv; n; su; pa; de] =>
      do i' <- d_N i; do k' <- d_Z k; do b' <- d_opt d_extpair b; do sv' <- d_opt d_num sv;
      Some {| dv_id := i'; dv_kind := k'; dv_bound := b'; dv_subst := sv'; dv_meta := [n; su; pa; de] |}
  | _ => None
  end.
Definition d_constr (t : tree) : option constr :=
  match t with
  | L [i; e; f; n; su; pa; de] =>
      do i' <- d_N i; do e' <- d_Z e; do f' <- d_opt d_function f;
      Some {| c_id := i'; c_eq := e'; c_fn := f'; c_meta := [n; su; pa; de] |}
  | _ => None
  end.
Definition d_removed (t : tree) : option removed :=
  match t with
  | L [c; r; p] => do c' <- d_opt d_constr c; Some {| r_c := c'; r_reason := r; r_params := p |}
  | _ => None
  end.
Definition d_instance (t : tree) : option instance :=
  match t with
  | L [se; ob; dvs; cs; rs; deps; pa; hi; de] =>
      do se' <- d_Z se; do ob' <- d_opt d_function ob; do dvs' <- d_list d_dvar dvs;
      do cs' <- d_list d_constr cs; do rs' <- d_list d_removed rs;
      do deps' <- d_list (d_pair d_N d_function) deps; do pa' <- d_opt d_state pa;
      Some {| i_sense := se'; i_obj := ob'; i_dvs := dvs'; i_cs := cs'; i_rs := rs';
              i_deps := deps'; i_params := pa'; i_hints := hi; i_desc := de |}
  | _ => None
  end.

(* ---------------- bounds ---------------- *)
(* BoundError::check *)
Definition bcheck (l u : ext) : option (ext * ext) :=
  if is_nan l || is_nan u then None
  else match l, u with
       | PInf, _ | _, NInf => None
       | _, _ => if eltb u l then None else Some (l, u)
       end.
(* TryFrom<&v1::DecisionVariable> for Bound *)
Definition dv_bound_of (v : dvar) : option (ext * ext) :=
  match dv_bound v with
  | Some (l, u) => bcheck l u
  | None => if (dv_kind v =? KIND_BINARY)%Z then Some (Fin 0, Fin 1) else Some (NInf, PInf)
  end.
(* Bound::contains(value, atol): lower - atol <= value && value <= upper + atol *)
Definition bcontains (b : ext * ext) (v : num) (atol : num) : bool :=
  eleb (eadd (fst b) (Fin (- atol))) (Fin v) && eleb (Fin v) (eadd (snd b) (Fin atol)).
(* Bound::nearest_to_zero; an infinite endpoint cannot be selected for a valid bound *)
Definition nearest_to_zero (b : ext * ext) : ext :=
  if eleb (Fin 0) (fst b) then fst b else if eleb (snd b) (Fin 0) then snd b else Fin 0.

(* get_bounds: HashMap insert in order, a later definition of the same id wins; None = Err *)
Fixpoint get_bounds (dvs : list dvar) (acc : list (N * (ext * ext))) : option (list (N * (ext * ext))) :=
  match dvs with
  | [] => Some acc
  | v :: dvs' =>
      match dv_bound_of v with
      | None => None
      | Some b => get_bounds dvs' ((dv_id v, b) :: acc)
      end
  end.
Fixpoint lookup {X} (i : N) (m : list (N * X)) : option X :=
  match m with
  | [] => None
  | (j, x) :: m' => if (i =? j)%N then Some x else lookup i m'
  end.
(* check_bound over the entries of the state *)
Definition check_bound (dvs : list dvar) (s : state) (atol : num) : bool :=
  match get_bounds dvs [] with
  | None => false
  | Some bs =>
      forallb (fun iv => match lookup (fst iv) bs with
                         | Some b => bcontains b (snd iv) atol
                         | None => true end) s
  end.

(* ---------------- constraints ---------------- *)
Record evaluated := {
  ev_id : N; ev_eq : Z; ev_value : num; ev_used : list N; ev_meta : list tree;
  ev_removed : option (tree * tree) }.

Definition fn_or_zero (o : option function) : function :=
  match o with Some f => f | None => FConst 0 end.

Definition constr_eval (c : constr) (s : state) : option evaluated :=
  match fn_eval (fn_or_zero (c_fn c)) s with
  | None => None
  | Some (v, ids) =>
      Some {| ev_id := c_id c; ev_eq := c_eq c; ev_value := v; ev_used := ids;
              ev_meta := c_meta c; ev_removed := None |}
  end.
Definition removed_eval (r : removed) (s : state) : option evaluated :=
  match r_c r with
  | None => None
  | Some c =>
      match constr_eval c s with
      | None => None
      | Some e => Some {| ev_id := ev_id e; ev_eq := ev_eq e; ev_value := ev_value e;
                          ev_used := ev_used e; ev_meta := ev_meta e;
                          ev_removed := Some (r_reason r, r_params r) |}
      end
  end.
(* EvaluatedConstraint::is_feasible(atol): None = Err "Unsupported equality" *)
Definition is_feasible (e : evaluated) (atol : num) : option bool :=
  if (ev_eq e =? EQ_ZERO)%Z then Some (qltb (qabs (ev_value e)) atol)
  else if (ev_eq e =? LE_ZERO)%Z then Some (qltb (ev_value e) atol)
  else None.

(* the two constraint loops with their sticky flag: is_feasible is only consulted while the
   flag is still true *)
Fixpoint eval_loop {X} (ev : X -> state -> option evaluated) (l : list X) (s : state)
         (flag : bool) (acc : list evaluated) : option (bool * list evaluated) :=
  match l with
  | [] => Some (flag, acc)
  | x :: l' =>
      match ev x s with
      | None => None
      | Some e =>
          if flag then
            match is_feasible e tol6 with
            | None => None
            | Some b => eval_loop ev l' s b (acc ++ [e])
            end
          else eval_loop ev l' s false (acc ++ [e])
      end
  end.

(* ---------------- dependencies ---------------- *)
Definition sset (s : state) (i : N) (v : num) : state := (i, v) :: s.

(* one pass over the bucket (already in pop order): successes are inserted at once, failures kept *)
Fixpoint deps_round (bucket : list (N * function)) (s : state) (failed : list (N * function))
  : state * list (N * function) :=
  match bucket with
  | [] => (s, failed)
  | (d, f) :: b =>
      match fn_eval f s with
      | Some (v, _) => deps_round b (sset s d v) failed
      | None => deps_round b s (failed ++ [(d, f)])
      end
  end.
(* the retry loop; `pop` takes from the back, so a pass runs over the reversed bucket *)
Fixpoint eval_deps_fuel (fuel : nat) (bucket : list (N * function)) (last : nat) (s : state)
  : option state :=
  match fuel with
  | O => None
  | S k =>
      match deps_round (rev bucket) s [] with
      | (s', []) => Some s'
      | (s', failed) =>
          if Nat.eqb last (List.length failed) then None
          else eval_deps_fuel k failed (List.length failed) s'
      end
  end.
Definition eval_deps (deps : list (N * function)) (s : state) : option state :=
  eval_deps_fuel (S (List.length deps)) deps (List.length deps) s.

(* ---------------- Instance::evaluate ---------------- *)
Record solution := {
  so_state : state; so_objective : num; so_dvs : list dvar; so_evaluated : list evaluated;
  so_feasible : bool; so_feasible_relaxed : bool }.

Fixpoint insert_subst (dvs : list dvar) (s : state) : state :=
  match dvs with
  | [] => s
  | v :: dvs' =>
      insert_subst dvs' (match dv_subst v with Some x => sset s (dv_id v) x | None => s end)
  end.
(* fill every defined variable that has no value with the point of its bound nearest to zero;
   None if that point is not finite or the bound invalid (cannot happen after check_bound) *)
Fixpoint fill_vacant (dvs : list dvar) (s : state) : option state :=
  match dvs with
  | [] => Some s
  | v :: dvs' =>
      match sget s (dv_id v) with
      | Some _ => fill_vacant dvs' s
      | None =>
          match dv_bound_of v with
          | Some b =>
              match nearest_to_zero b with
              | Fin x => fill_vacant dvs' (sset s (dv_id v) x)
              | _ => None
              end
          | None => None
          end
      end
  end.

Definition inst_eval (I : instance) (s : state) : option solution :=
  if negb (check_bound (i_dvs I) s tol7) then None else
  match eval_loop constr_eval (i_cs I) s true [] with
  | None => None
  | Some (feasible_relaxed, ev1) =>
      match eval_loop removed_eval (i_rs I) s feasible_relaxed ev1 with
      | None => None
      | Some (feasible, ev2) =>
          match fn_eval (fn_or_zero (i_obj I)) s with
          | None => None
          | Some (obj, _) =>
              match eval_deps (i_deps I) (insert_subst (i_dvs I) s) with
              | None => None
              | Some s1 =>
                  match fill_vacant (i_dvs I) s1 with
                  | None => None
                  | Some s2 =>
                      Some {| so_state := s2; so_objective := obj; so_dvs := i_dvs I;
                              so_evaluated := ev2; so_feasible := feasible;
                              so_feasible_relaxed := feasible_relaxed |}
                  end
              end
          end
      end
  end.

(* a state as a finite map: first binding of each key *)
Fixpoint sdedup (s : state) (seen : list N) : state :=
  match s with
  | [] => []
  | (i, v) :: s' => if mem i seen then sdedup s' seen else (i, v) :: sdedup s' (i :: seen)
  end.
Definition state_eqb (a b : state) : bool :=
  let a' := sdedup a [] in
  let b' := sdedup b [] in
  forallb (fun iv => match sget b' (fst iv) with Some w => qeqb w (snd iv) | None => false end) a' &&
  forallb (fun iv => match sget a' (fst iv) with Some w => qeqb w (snd iv) | None => false end) b'.

(* ---------------- tree equality (metadata) ---------------- *)
Fixpoint tree_eqb (a b : tree) : bool :=
  match a, b with
  | A x, A y => String.eqb x y
  | I x, I y => (x =? y)%Z
  | F x, F y => (x =? y)%Z
  | L x, L y =>
      (fix go (x y : list tree) : bool :=
         match x, y with
         | [], [] => true
         | p :: x', q :: y' => tree_eqb p q && go x' y'
         | _, _ => false
         end) x y
  | _, _ => false
  end.
Definition trees_eqb (a b : list tree) : bool := tree_eqb (L a) (L b).
