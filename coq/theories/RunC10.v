(* RunC10.v — correspondence runner for C10: RunTransform.run_C10 plus the composite observation
   "the instantiated instance evaluates at x" (no parameter id may survive in any representation). *)
Require Import Ommx.Num Ommx.Poly Ommx.Msg Ommx.Eval Ommx.Tree Ommx.Arith Ommx.PEval Ommx.Inst
        Ommx.Relax Ommx.RunC02 Ommx.RunC03 Ommx.RunC05 Ommx.RunC14 Ommx.Transform Ommx.RunTransform Ommx.RunC04.
From Coq Require Import String.
Open Scope string_scope.

Definition run_C10x (case : tree) : tree :=
  match case with
  | L [A "with_parameters_eval"; L [p; th; s]; L [res; ev]] =>
      match d_pinstance p, d_state th, d_state s with
      | Some P, Some theta, Some s' =>
          match judge_instance (with_parameters tiny_eps P theta) res "with_parameters" with
          | L (A "agree" :: _) =>
              match with_parameters tiny_eps P theta with
              | None => agree ["with_parameters_eval"; "err"]
              | Some E =>
                  (* judged on the message the SDK holds (equal to E as formal polynomials): the VALUES must be
                     those of E at x; a surviving parameter id makes the SDK's evaluation fail *)
                  let G := match ok_payload res with
                           | Some t => match d_instance t with Some G0 => G0 | None => E end
                           | None => E end in
                  match judge_subst_eval E G s' ev with
                  | L (A "agree" :: _) => agree ["with_parameters_eval"; "ok"]
                  | v => v
                  end
              end
          | v => v
          end
      | _, _, _ => badcase "with_parameters_eval: input"
      end
  | _ => run_C10 case
  end.
