(* CodecAny.v — C07: decoding ANY conforming encoding.

   [CodecProof.codec_roundtrip] is about the bytes the model encoder itself produces.  The wire
   format leaves an encoder much more freedom; this file defines the set of encodings a conforming
   protobuf implementation may produce for a value and proves that the decoder model reads every
   one of them with the content of the value.

   [conforming sch m v rs]  (records)   /   [conforming_bytes sch m v bytes]  (bytes)
   is stated by projection: for every field number n of the descriptor of m, the subsequence of the
   records carrying number n ([payloads n rs]) is a conforming encoding of field n of v
   ([conf_field]); records whose number is not in the descriptor are unconstrained.  Hence
     (a) the fields of a message may come in any order and arbitrarily interleaved (also the
         elements of a repeated field with other fields, the entries of a map in any order, the
         records inside a map entry in any order), at every nesting level;
     (b) a repeated scalar field is any sequence of "runs", each either one element in its own
         record or a packed record holding zero or more elements, whatever the schema says about
         [packed] ([run]);
     (c) a singular scalar field (implicit, optional, oneof arm, map key, scalar map value) may be
         preceded by any number of overridden occurrences, the last one counts ([conf_last]);
         a singular message field (also the message value of a map entry) may be given in several
         pieces whose concatenation conforms: the decoder merges them ([chunks]);
     (d) an implicit scalar whose value is the default may be written out or omitted, whether the
         value lists it or not; inside a map entry a default key / value may be written out or
         omitted ([conf_dflt], [cf_implicit_omitted], [cf_implicit_explicit_default]);
     (e) unknown fields (any wire type) anywhere: top level, nested messages, map entries.
   At the byte level every length-delimited payload holding records is only required to PARSE to
   those records ([parse_records b = Some rs]), which also covers non-minimal varints in keys and
   lengths.  Not covered (no claim): a oneof group whose arms are both present on the wire (the
   last arm wins), a map key occurring in two entries (the last entry wins), non-canonical scalar
   payloads (a bool written as 2, packed elements with non-minimal varints), groups.

   Main results (no hypothesis on the schema is needed for the first one):
     [codec_decode_any_encoding]  typed v, conforming bytes, fuel >= depth v  ->
        decode sch fuel m bytes = Some w  with  [veq w (norm sch m v)]
     [encode_conforming]          the model encoder's own output is conforming (wf schema)
     [codec_decode_any_encoding_vs_model]  same content as decoding the model encoder's output
     [codec_decode_any_encoding_canon]     (wf schema)  canon w = canon (norm sch m v), Leibniz
     [codec_decode_any_encoding_same_content]  [CodecEq.same_content] (the comparator of the
        correspondence check) accepts w against the decoding of the model encoder's own bytes
   [veq] is equality up to the order of the fields of a message and of the entries of a map (the
   decoder lists fields in order of first occurrence, so the order is all that can differ);
   [veq_canon] turns it into equality of the sorted forms of CodecEq.v. *)
From Coq Require Import NArith ZArith List Lia Bool String Permutation.
Require Import Ommx.Schema Ommx.Wire Ommx.Codec Ommx.CodecProof Ommx.CodecEq.
Import ListNotations.
Close Scope string_scope.
Open Scope list_scope.
Open Scope N_scope.

(* the payloads of the records carrying field number n, in wire order *)
Definition payloads (n : N) (rs : list record) : list payload :=
  map snd (filter (fun r : record => fst r =? n) rs).

(* equal up to the order of the fields of a message and of the entries of a map *)
Inductive veq : value -> value -> Prop :=
| veq_refl a : veq a a
| veq_msg fa fb fb' : Permutation fb fb' ->
    Forall2 (fun x y : N * value => fst x = fst y /\ veq (snd x) (snd y)) fa fb' -> veq (VMsg fa) (VMsg fb)
| veq_list xa xb : Forall2 veq xa xb -> veq (VList xa) (VList xb)
| veq_map ka kb kb' : Permutation kb kb' ->
    Forall2 (fun x y : value * value => fst x = fst y /\ veq (snd x) (snd y)) ka kb' -> veq (VMap ka) (VMap kb).

(* ------------------------------------------------------------------ the conforming encodings
   p is the encoding of the in-range scalar x at type t *)
Definition leaf_enc (t : ty) (x : value) (p : payload) : Prop :=
  leaf_ok t x = true /\ enc_leaf t x = Some p.
(* occurrences that a later one overrides: encodings of arbitrary in-range scalars *)
Definition overridden (t : ty) (ps : list payload) : Prop :=
  Forall (fun p => exists x, leaf_enc t x p) ps.
(* (c) a singular scalar: any overridden occurrences, then the encoding of x *)
Inductive conf_last (t : ty) (x : value) : list payload -> Prop :=
| conf_last_intro pre p : overridden t pre -> leaf_enc t x p -> conf_last t x (pre ++ [p]).
(* (d) a scalar that is omitted when it is the default, or written out *)
Inductive conf_dflt (t : ty) (x : value) : list payload -> Prop :=
| conf_dflt_omitted : leaf_ok t x = true -> is_default x = true -> conf_dflt t x []
| conf_dflt_explicit ps : conf_last t x ps -> conf_dflt t x ps.
(* (c) a message given in pieces: length-delimited payloads whose records, concatenated, are rs *)
Inductive chunks : list payload -> list record -> Prop :=
| chunks_nil : chunks [] []
| chunks_cons b rs ps rest : parse_records b = Some rs -> chunks ps rest -> chunks (PLen b :: ps) (rs ++ rest).
(* (b) one record of a repeated scalar field: a single element, or a packed run of any length *)
Inductive run (t : ty) : list value -> payload -> Prop :=
| run_one e p : leaf_enc t e p -> run t [e] p
| run_packed vs : packable t = true -> forallb (leaf_ok t) vs = true ->
    run t vs (PLen (flat_map (enc_packed_elem t) vs)).
Definition is_leaf_ty (t : ty) : Prop := match t with TM _ => False | _ => True end.
Definition singular (c : card) : bool := match c with CImplicit | COptional | COneof _ => true | _ => false end.
Definition list_of (ox : option value) (vs : list value) : Prop := ox = Some (VList vs) \/ (ox = None /\ vs = []).
Definition map_of (ox : option value) (kvs : list (value * value)) : Prop := ox = Some (VMap kvs) \/ (ox = None /\ kvs = []).

Section Conf.
(* [cm m' x rs]: the records rs are a conforming encoding of the message x of type m' *)
Variable cm : string -> value -> list record -> Prop.

(* an element of a repeated message field *)
Inductive conf_elem (m' : string) : value -> payload -> Prop :=
| conf_elem_intro e b rs : parse_records b = Some rs -> cm m' e rs -> conf_elem m' e (PLen b).

(* the value of a map entry (records numbered 2): a scalar, or a message possibly in pieces / absent *)
Inductive conf_entry_val (t : ty) (x : value) (ps : list payload) : Prop :=
| cev_leaf : is_leaf_ty t -> conf_dflt t x ps -> conf_entry_val t x ps
| cev_msg m' rs : t = TM m' -> chunks ps rs -> cm m' x rs -> conf_entry_val t x ps.

(* a map entry: key = records numbered 1, value = records numbered 2, any order, anything else ignored *)
Inductive conf_entry (k : scalar) (t : ty) : value * value -> payload -> Prop :=
| conf_entry_intro kv b rs : parse_records b = Some rs ->
    conf_dflt (TS k) (fst kv) (payloads 1 rs) -> conf_entry_val t (snd kv) (payloads 2 rs) ->
    conf_entry k t kv (PLen b).

(* field f of a message: [ox] is its value in v (None = absent), [ps] its payloads in wire order *)
Inductive conf_field (f : field) : option value -> list payload -> Prop :=
| cf_absent : singular (f_card f) = true -> conf_field f None []
| cf_implicit_omitted x : f_card f = CImplicit -> is_leaf_ty (f_ty f) ->
    leaf_ok (f_ty f) x = true -> is_default x = true -> conf_field f (Some x) []
| cf_implicit_explicit_default x ps : f_card f = CImplicit -> is_leaf_ty (f_ty f) ->
    is_default x = true -> conf_last (f_ty f) x ps -> conf_field f None ps
| cf_leaf x ps : singular (f_card f) = true -> is_leaf_ty (f_ty f) ->
    conf_last (f_ty f) x ps -> conf_field f (Some x) ps
| cf_msg m' x ps rs : singular (f_card f) = true -> f_ty f = TM m' -> ps <> [] ->
    chunks ps rs -> cm m' x rs -> conf_field f (Some x) ps
| cf_rep_leaf pk ox runs ps : f_card f = CRepeated pk -> is_leaf_ty (f_ty f) ->
    list_of ox (List.concat runs) -> Forall2 (run (f_ty f)) runs ps -> conf_field f ox ps
| cf_rep_msg pk m' ox vs ps : f_card f = CRepeated pk -> f_ty f = TM m' ->
    list_of ox vs -> Forall2 (conf_elem m') vs ps -> conf_field f ox ps
| cf_map k ox kvs kvs' ps : f_card f = CMap k -> map_of ox kvs -> Permutation kvs kvs' ->
    Forall2 (conf_entry k (f_ty f)) kvs' ps -> conf_field f ox ps.
End Conf.

(* (a), (e): every field of the descriptor is judged on its own subsequence of the records; records
   with any other number are unconstrained *)
Inductive conforming (sch : schema) : string -> value -> list record -> Prop :=
| conforming_intro m desc fs rs :
    lookup_msg sch m = Some desc ->
    (forall n f, lookup_field desc n = Some f ->
       conf_field (conforming sch) f (fget fs n) (payloads n rs)) ->
    conforming sch m (VMsg fs) rs.

(* ================================================================== finite-map facts *)
Lemma fget_fset_same acc n v : fget (fset acc n v) n = Some v.
Proof.
  induction acc as [|[k x] r IH]; cbn [fset fget].
  - now rewrite N.eqb_refl.
  - destruct (N.eqb_spec k n) as [E|E]; cbn [fget].
    + subst. now rewrite N.eqb_refl.
    + destruct (N.eqb_spec k n); [contradiction|exact IH].
Qed.
Lemma fget_fset_other acc n v k : k <> n -> fget (fset acc n v) k = fget acc k.
Proof.
  intro D. induction acc as [|[j x] r IH]; cbn [fset fget].
  - destruct (N.eqb_spec n k); [congruence|reflexivity].
  - destruct (N.eqb_spec j n) as [E|E]; cbn [fget].
    + subst. destruct (N.eqb_spec n k); [congruence|reflexivity].
    + now rewrite IH.
Qed.
Lemma keys_fset acc n v k : In k (keys (fset acc n v)) -> k = n \/ In k (keys acc).
Proof.
  induction acc as [|[j x] r IH]; cbn [fset keys map fst In].
  - intros [H|[]]; auto.
  - destruct (N.eqb_spec j n) as [E|E]; cbn [keys map fst In]; [tauto|].
    intros [H|H]; [tauto|]. apply IH in H. tauto.
Qed.
Lemma nodup_fset acc n v : NoDup (keys acc) -> NoDup (keys (fset acc n v)).
Proof.
  induction acc as [|[j x] r IH]; cbn [fset keys map fst]; intro H.
  - constructor; [intros []|constructor].
  - inversion H as [|? ? Hj Hr]; subst. destruct (N.eqb_spec j n) as [E|E]; cbn [keys map fst].
    + constructor; assumption.
    + constructor; [|apply IH; exact Hr]. intro Hin. apply keys_fset in Hin. tauto.
Qed.
Lemma fget_fremove_same acc n : fget (fremove acc n) n = None.
Proof.
  unfold fremove. induction acc as [|[j x] r IH]; cbn [filter fget fst]; [reflexivity|].
  destruct (N.eqb_spec j n) as [E|E]; cbn [negb fget]; [exact IH|].
  destruct (N.eqb_spec j n); [contradiction|exact IH].
Qed.
Lemma fget_fremove_other acc n k : k <> n -> fget (fremove acc n) k = fget acc k.
Proof.
  intro D. unfold fremove. induction acc as [|[j x] r IH]; cbn [filter fget fst]; [reflexivity|].
  destruct (N.eqb_spec j n) as [E|E]; cbn [negb fget].
  - subst. destruct (N.eqb_spec n k); [congruence|exact IH].
  - now rewrite IH.
Qed.
Lemma keys_filter (p : N * value -> bool) acc k : In k (keys (filter p acc)) -> In k (keys acc).
Proof.
  unfold keys. intro H. apply in_map_iff in H. destruct H as (kv & E & H). apply filter_In in H.
  apply in_map_iff. exists kv. tauto.
Qed.
Lemma nodup_filter (p : N * value -> bool) acc : NoDup (keys acc) -> NoDup (keys (filter p acc)).
Proof.
  induction acc as [|kv r IH]; cbn [filter keys map]; intro H; [constructor|].
  inversion H as [|? ? Hj Hr]; subst. destruct (p kv); cbn [keys map].
  - constructor; [|apply IH; exact Hr]. intro Hin. apply Hj. apply (keys_filter p). exact Hin.
  - apply IH. exact Hr.
Qed.

Definition upd (acc : list (N * value)) (n : N) (o : option value) (acc' : list (N * value)) : Prop :=
  fget acc' n = o /\ (forall k, k <> n -> fget acc' k = fget acc k) /\
  (NoDup (keys acc) -> NoDup (keys acc')) /\ (forall k, In k (keys acc') -> k = n \/ In k (keys acc)).

Lemma upd_same acc n o : fget acc n = o -> upd acc n o acc.
Proof. intro H. repeat split; auto. Qed.
Lemma upd_fset acc n v : upd acc n (Some v) (fset acc n v).
Proof.
  repeat split.
  - apply fget_fset_same.
  - intros k D. now apply fget_fset_other.
  - apply nodup_fset.
  - apply keys_fset.
Qed.
Lemma upd_fremove acc n : upd acc n None (fremove acc n).
Proof.
  repeat split.
  - apply fget_fremove_same.
  - intros k D. now apply fget_fremove_other.
  - apply nodup_filter.
  - intros k H. right. apply (keys_filter _ _ _ H).
Qed.

Definition spush (o : option value) (vs : list value) : option value :=
  match vs with
  | [] => o
  | _ => match o with Some (VList old) => Some (VList (old ++ vs)) | _ => Some (VList vs) end
  end.
Definition smap_insert (o : option value) (k v : value) : option value :=
  match o with Some (VMap old) => Some (VMap (kv_insert old k v)) | _ => Some (VMap [(k, v)]) end.

Lemma upd_fpush acc n vs : upd acc n (spush (fget acc n) vs) (fpush acc n vs).
Proof.
  unfold spush, fpush. destruct vs as [|v vs]; [now apply upd_same|].
  destruct (fget acc n) as [[]|]; apply upd_fset.
Qed.
Lemma upd_fmap_insert acc n k v : upd acc n (smap_insert (fget acc n) k v) (fmap_insert acc n k v).
Proof.
  unfold smap_insert, fmap_insert. destruct (fget acc n) as [[]|]; apply upd_fset.
Qed.

(* ================================================================== the decoder, one slot at a time *)
Definition slot_step (rec : rec_t) (f : field) (o : option value) (p : payload) : option (option value) :=
  match f_card f, f_ty f with
  | CImplicit, TM m' | COptional, TM m' | COneof _, TM m' =>
      match p with
      | PLen b => match rec m' (old_fields o) b with Some fs => Some (Some (VMsg fs)) | None => None end
      | _ => None
      end
  | CImplicit, t =>
      match dec_leaf t p with Some x => Some (if is_default x then None else Some x) | None => None end
  | COptional, t | COneof _, t =>
      match dec_leaf t p with Some x => Some (Some x) | None => None end
  | CRepeated _, TM m' =>
      match p with
      | PLen b => match rec m' [] b with Some fs => Some (spush o [VMsg fs]) | None => None end
      | _ => None
      end
  | CRepeated _, t =>
      match p with
      | PLen b =>
          if packable t then
            match dec_packed (List.length b) t b with Some vs => Some (spush o vs) | None => None end
          else match dec_leaf t p with Some x => Some (spush o [x]) | None => None end
      | _ => match dec_leaf t p with Some x => Some (spush o [x]) | None => None end
      end
  | CMap k, t =>
      match p with
      | PLen b =>
          match parse_records b with
          | Some rs =>
              match fold_opt (entry_step rec k t) (default_of (TS k), default_of t) rs with
              | Some (key, x) => Some (smap_insert o key x)
              | None => None end
          | None => None
          end
      | _ => None
      end
  end.

Lemma step_sem rec desc acc n p f o' :
  lookup_field desc n = Some f ->
  (forall g, f_card f = COneof g -> clear_group desc g n acc = acc) ->
  slot_step rec f (fget acc n) p = Some o' ->
  exists acc', step rec desc acc (n, p) = Some acc' /\ upd acc n o' acc'.
Proof.
  intros L CG. unfold step, slot_step. rewrite L.
  destruct (f_card f) eqn:EC; destruct (f_ty f) eqn:ET; cbv zeta;
    try rewrite (CG _ eq_refl);
    repeat match goal with
    | |- context [match ?p with PVarint _ => _ | PI64 _ => _ | PLen _ => _ | PI32 _ => _ end] =>
        is_var p; destruct p
    | |- context [if packable ?t then _ else _] => destruct (packable t)
    | |- context [match dec_leaf ?t ?p with Some _ => _ | None => _ end] => destruct (dec_leaf t p)
    | |- context [match dec_packed ?a ?t ?p with Some _ => _ | None => _ end] => destruct (dec_packed a t p)
    | |- context [match parse_records ?b with Some _ => _ | None => _ end] => destruct (parse_records b)
    | |- context [match rec ?a ?b ?c with Some _ => _ | None => _ end] => destruct (rec a b c)
    | |- context [match fold_opt ?a ?b ?c with Some _ => _ | None => _ end] => destruct (fold_opt a b c) as [[? ?]|]
    | |- context [if is_default ?x then _ else _] => destruct (is_default x)
    end;
    intro H; try discriminate H; inversion H; subst o'; eexists; (split; [reflexivity|]);
    first [apply upd_fset | apply upd_fremove | apply upd_fpush | apply upd_fmap_insert].
Qed.

Lemma payloads_cons_same n p rs : payloads n ((n, p) :: rs) = p :: payloads n rs.
Proof. unfold payloads. cbn [filter fst]. rewrite N.eqb_refl. reflexivity. Qed.
Lemma payloads_cons_other n k p rs : k <> n -> payloads n ((k, p) :: rs) = payloads n rs.
Proof. intro D. unfold payloads. cbn [filter fst]. destruct (N.eqb_spec k n); [contradiction|reflexivity]. Qed.
Lemma payloads_app n a b : payloads n (a ++ b) = payloads n a ++ payloads n b.
Proof. unfold payloads. now rewrite filter_app, map_app. Qed.

Lemma clear_group_keep desc g n acc :
  (forall k, In k (keys acc) -> in_group desc g k = true -> k = n) -> clear_group desc g n acc = acc.
Proof.
  intro H. unfold clear_group. apply filter_all. intros [k v] Hin. cbn [fst].
  destruct (in_group desc g k) eqn:E; [|reflexivity].
  rewrite (H k); [now rewrite N.eqb_refl| |exact E].
  unfold keys. apply in_map_iff. exists (k, v). auto.
Qed.

Section Fold.
Variable rec : rec_t.
Variable desc : list field.
Variable arm_ok : N -> Prop.
Hypothesis arm_uni : forall k n g, arm_ok k -> arm_ok n ->
  in_group desc g k = true -> in_group desc g n = true -> k = n.

Definition is_arm (n : N) : Prop := exists f g, lookup_field desc n = Some f /\ f_card f = COneof g.
Definition Inv (acc : list (N * value)) : Prop := forall k, In k (keys acc) -> is_arm k -> arm_ok k.

Definition slot_of (n : N) (o : option value) (ps : list payload) : option (option value) :=
  match lookup_field desc n with
  | None => Some o
  | Some f => fold_opt (slot_step rec f) o ps
  end.

Lemma in_group_arm g k : in_group desc g k = true -> is_arm k.
Proof.
  unfold in_group, is_arm. destruct (lookup_field desc k) as [f|]; [|discriminate].
  destruct (f_card f) eqn:E; try discriminate. intros _. eauto.
Qed.

Lemma fold_sem : forall rs acc,
  NoDup (keys acc) -> Inv acc ->
  (forall r, In r rs -> is_arm (fst r) -> arm_ok (fst r)) ->
  (forall n, slot_of n (fget acc n) (payloads n rs) <> None) ->
  exists acc', fold_opt (step rec desc) acc rs = Some acc' /\ NoDup (keys acc') /\
     forall n, slot_of n (fget acc n) (payloads n rs) = Some (fget acc' n).
Proof.
  induction rs as [|[n0 p] rs IH]; intros acc ND IV AR SL.
  - exists acc. split; [reflexivity|]. split; [exact ND|].
    intro n. unfold slot_of. destruct (lookup_field desc n); reflexivity.
  - cbn [fold_opt]. destruct (lookup_field desc n0) as [f|] eqn:L.
    + pose proof (SL n0) as S0. unfold slot_of in S0. rewrite L, payloads_cons_same in S0.
      cbn [fold_opt] in S0. destruct (slot_step rec f (fget acc n0) p) as [o'|] eqn:ES; [|contradiction].
      assert (A0 : is_arm n0 -> arm_ok n0) by (apply (AR (n0, p)); left; reflexivity).
      destruct (step_sem rec desc acc n0 p f o' L) as (acc1 & E1 & U1 & U2 & U3 & U4); [|exact ES|].
      { intros g EC. apply clear_group_keep. intros k Hk Hg.
        assert (Ak : arm_ok k) by (apply IV; [exact Hk|apply (in_group_arm g); exact Hg]).
        assert (An : arm_ok n0) by (apply A0; exists f, g; auto).
        apply (arm_uni k n0 g Ak An Hg). unfold in_group. rewrite L, EC. apply String.eqb_refl. }
      rewrite E1.
      destruct (IH acc1) as (acc' & F & ND' & SL').
      * apply U3. exact ND.
      * intros k Hk. destruct (U4 k Hk) as [->|Hk']; [exact A0|apply IV; exact Hk'].
      * intros r Hr. apply AR. right. exact Hr.
      * intro n. destruct (N.eq_dec n n0) as [->|D].
        -- rewrite U1. unfold slot_of. rewrite L. exact S0.
        -- rewrite (U2 n D). specialize (SL n). rewrite payloads_cons_other in SL by congruence. exact SL.
      * exists acc'. split; [exact F|]. split; [exact ND'|].
        intro n. destruct (N.eq_dec n n0) as [->|D].
        -- rewrite <- SL'. rewrite U1. unfold slot_of. rewrite L, payloads_cons_same. cbn [fold_opt].
           rewrite ES. reflexivity.
        -- rewrite <- SL'. rewrite (U2 n D). rewrite payloads_cons_other by congruence. reflexivity.
    + assert (E1 : step rec desc acc (n0, p) = Some acc) by (unfold step; rewrite L; reflexivity).
      rewrite E1.
      destruct (IH acc ND IV) as (acc' & F & ND' & SL').
      * intros r Hr. apply AR. right. exact Hr.
      * intro n. destruct (N.eq_dec n n0) as [->|D].
        -- unfold slot_of. rewrite L. discriminate.
        -- specialize (SL n). rewrite payloads_cons_other in SL by congruence. exact SL.
      * exists acc'. split; [exact F|]. split; [exact ND'|].
        intro n. destruct (N.eq_dec n n0) as [->|D].
        -- rewrite <- SL'. unfold slot_of. rewrite L. reflexivity.
        -- rewrite <- SL'. rewrite payloads_cons_other by congruence. reflexivity.
Qed.
End Fold.

(* ================================================================== the decoder on parsed records *)
Definition dec_fold (sch : schema) (k : nat) (m : string) (acc : list (N * value)) (rs : list record)
  : option (list (N * value)) :=
  match k with
  | O => None
  | S k' => match lookup_msg sch m with
            | Some desc => fold_opt (step (dec_msg sch k') desc) acc rs
            | None => None
            end
  end.

Lemma dec_msg_parse sch k m acc bs rs :
  parse_records bs = Some rs -> dec_msg sch k m acc bs = dec_fold sch k m acc rs.
Proof.
  intro P. destruct k as [|k]; [reflexivity|]. cbn [dec_msg dec_fold]. rewrite P.
  destruct (lookup_msg sch m); reflexivity.
Qed.
Lemma dec_fold_app sch k m acc r1 r2 :
  dec_fold sch k m acc (r1 ++ r2) =
  match dec_fold sch k m acc r1 with Some a => dec_fold sch k m a r2 | None => None end.
Proof.
  destruct k as [|k]; [reflexivity|]. cbn [dec_fold]. destruct (lookup_msg sch m); [|reflexivity].
  apply fold_opt_app.
Qed.
Lemma dec_fold_nil sch k m acc a : dec_fold sch k m acc [] = Some a -> a = acc.
Proof.
  destruct k as [|k]; [discriminate|]. cbn [dec_fold]. destruct (lookup_msg sch m); [|discriminate].
  cbn. congruence.
Qed.

Inductive oeq : option value -> option value -> Prop :=
| oeq_none : oeq None None
| oeq_some a b : veq a b -> oeq (Some a) (Some b).

Definition norm_slot (sch : schema) (desc : list field) (n : N) (ox : option value) : option value :=
  match ox with
  | None => None
  | Some x => fget (norm_field (norm sch) desc (n, x)) n
  end.

(* ------------------------------------------------------------------ [slot_step] by shape *)
Section SlotShapes.
Variable rec : rec_t.
Variable f : field.

Lemma slot_step_sing_leaf o p : singular (f_card f) = true -> is_leaf_ty (f_ty f) ->
  slot_step rec f o p =
  match dec_leaf (f_ty f) p with
  | Some x => Some (if is_implicit (f_card f) && is_default x then None else Some x)
  | None => None
  end.
Proof.
  unfold slot_step. destruct (f_card f); try discriminate; destruct (f_ty f); try contradiction;
    intros _ _; cbn [is_implicit andb]; destruct (dec_leaf _ p); reflexivity.
Qed.

Lemma slot_step_sing_msg o p m' : singular (f_card f) = true -> f_ty f = TM m' ->
  slot_step rec f o p =
  match p with
  | PLen b => match rec m' (old_fields o) b with Some fs => Some (Some (VMsg fs)) | None => None end
  | _ => None
  end.
Proof.
  unfold slot_step. intros S ->. destruct (f_card f); try discriminate; reflexivity.
Qed.

Lemma slot_step_rep_leaf o p pk : f_card f = CRepeated pk -> is_leaf_ty (f_ty f) ->
  slot_step rec f o p =
  match p with
  | PLen b =>
      if packable (f_ty f) then
        match dec_packed (List.length b) (f_ty f) b with Some vs => Some (spush o vs) | None => None end
      else match dec_leaf (f_ty f) p with Some x => Some (spush o [x]) | None => None end
  | _ => match dec_leaf (f_ty f) p with Some x => Some (spush o [x]) | None => None end
  end.
Proof.
  unfold slot_step. intros ->. destruct (f_ty f); try contradiction; reflexivity.
Qed.

Lemma slot_step_rep_msg o p pk m' : f_card f = CRepeated pk -> f_ty f = TM m' ->
  slot_step rec f o p =
  match p with
  | PLen b => match rec m' [] b with Some fs => Some (spush o [VMsg fs]) | None => None end
  | _ => None
  end.
Proof. unfold slot_step. intros -> ->. reflexivity. Qed.

Lemma slot_step_map o p k : f_card f = CMap k ->
  slot_step rec f o p =
  match p with
  | PLen b =>
      match parse_records b with
      | Some rs =>
          match fold_opt (entry_step rec k (f_ty f)) (default_of (TS k), default_of (f_ty f)) rs with
          | Some (key, x) => Some (smap_insert o key x)
          | None => None end
      | None => None
      end
  | _ => None
  end.
Proof. unfold slot_step. intros ->. destruct (f_ty f); reflexivity. Qed.
End SlotShapes.

(* ------------------------------------------------------------------ [norm_slot] by shape *)
Lemma fget_single n (x : value) : fget [(n, x)] n = Some x.
Proof. cbn [fget]. now rewrite N.eqb_refl. Qed.

Section NormShapes.
Variable sch : schema.
Variable desc : list field.
Variable n : N.
Variable f : field.
Hypothesis L : lookup_field desc n = Some f.

Lemma norm_slot_sing_leaf x : singular (f_card f) = true -> is_leaf_ty (f_ty f) ->
  norm_slot sch desc n (Some x) = if is_implicit (f_card f) && is_default x then None else Some x.
Proof.
  unfold norm_slot, norm_field. rewrite L.
  destruct (f_card f); try discriminate; destruct (f_ty f); try contradiction; intros _ _;
    cbn [is_implicit andb]; destruct x; try destruct (is_default _); try apply fget_single; reflexivity.
Qed.

Lemma norm_slot_sing_msg x m' : singular (f_card f) = true -> f_ty f = TM m' ->
  norm_slot sch desc n (Some x) = Some (norm sch m' x).
Proof.
  unfold norm_slot, norm_field. rewrite L. intros S ->.
  destruct (f_card f); try discriminate; destruct x; apply fget_single.
Qed.

Lemma norm_slot_rep_leaf vs pk : f_card f = CRepeated pk -> is_leaf_ty (f_ty f) ->
  norm_slot sch desc n (Some (VList vs)) = match vs with [] => None | _ => Some (VList vs) end.
Proof.
  unfold norm_slot, norm_field. rewrite L. intros ->.
  destruct (f_ty f); try contradiction; intros _; destruct vs; try apply fget_single; reflexivity.
Qed.

Lemma norm_slot_rep_msg vs pk m' : f_card f = CRepeated pk -> f_ty f = TM m' ->
  norm_slot sch desc n (Some (VList vs)) =
  match vs with [] => None | _ => Some (VList (map (norm sch m') vs)) end.
Proof.
  unfold norm_slot, norm_field. rewrite L. intros -> ->.
  destruct vs; try apply fget_single; reflexivity.
Qed.

Definition norm_kv (t : ty) (kv : value * value) : value * value :=
  match t with TM m' => (fst kv, norm sch m' (snd kv)) | _ => kv end.

Lemma norm_slot_map kvs k : f_card f = CMap k ->
  norm_slot sch desc n (Some (VMap kvs)) =
  match kvs with [] => None | _ => Some (VMap (map (norm_kv (f_ty f)) kvs)) end.
Proof.
  unfold norm_slot, norm_field. rewrite L. intros ->.
  destruct kvs as [|kv r]; [reflexivity|]. rewrite fget_single. f_equal. f_equal.
  unfold norm_kv. destruct (f_ty f); try reflexivity.
  - symmetry. apply map_id.
  - symmetry. apply map_id.
Qed.
End NormShapes.

(* ================================================================== small facts *)
Lemma leaf_dec t x p : leaf_enc t x p ->
  dec_leaf t p = Some x /\
  match p with PLen _ => packable t = false | PI32 _ => False | _ => True end.
Proof.
  intros [H E]. destruct (leaf_rt t x H) as (p' & He & Hd & _ & Hs).
  rewrite E in He. inversion He. subst p'. auto.
Qed.

Lemma last_wins {S} (stp : S -> payload -> option S) (g : value -> S) t x ps :
  (forall s p y, dec_leaf t p = Some y -> stp s p = Some (g y)) ->
  conf_last t x ps -> forall s, fold_opt stp s ps = Some (g x).
Proof.
  intros H C. destruct C as [pre p O Hl]. intro s. rewrite fold_opt_app.
  assert (P : exists s1, fold_opt stp s pre = Some s1).
  { revert s. induction O as [|q pre (y & Hy) _ IHO]; intro s; [exists s; reflexivity|].
    cbn [fold_opt]. rewrite (H s q y (proj1 (leaf_dec _ _ _ Hy))). apply IHO. }
  destruct P as (s1 & ->). cbn [fold_opt]. rewrite (H s1 p x (proj1 (leaf_dec _ _ _ Hl))). reflexivity.
Qed.

Lemma dflt_fold (stp : value -> payload -> option value) t x ps :
  (forall s p y, dec_leaf t p = Some y -> stp s p = Some y) ->
  conf_dflt t x ps -> fold_opt stp (default_of t) ps = Some x.
Proof.
  intros H [Hok Hd|ps' C].
  - cbn [fold_opt]. now rewrite (leaf_default t x Hok Hd).
  - apply (last_wins stp (fun y => y) t x _ H C).
Qed.

Lemma key_eqb_sym a b : key_eqb a b = key_eqb b a.
Proof.
  destruct a, b; cbn [key_eqb]; try reflexivity.
  - apply N.eqb_sym.
  - apply Z.eqb_sym.
  - destruct b, b0; reflexivity.
  - revert b0. induction b as [|x r IH]; intros [|y s]; cbn [list_eqb]; try reflexivity.
    rewrite N.eqb_sym, IH. reflexivity.
  - apply Z.eqb_sym.
Qed.

Lemma existsb_perm {X} (p : X -> bool) l l' : Permutation l l' -> existsb p l = existsb p l'.
Proof.
  induction 1; cbn [existsb]; try congruence.
  destruct (p x), (p y); reflexivity.
Qed.
Lemma nodupb_perm {X} (e : X -> X -> bool) : (forall x y, e x y = e y x) ->
  forall l l', Permutation l l' -> nodupb e l = nodupb e l'.
Proof.
  intros Sy l l'. induction 1; cbn [nodupb existsb]; try congruence.
  - rewrite IHPermutation, (existsb_perm _ _ _ H). reflexivity.
  - rewrite (Sy y x). destruct (e x y), (existsb (e y) l), (existsb (e x) l); reflexivity.
Qed.

Definition slist (vs : list value) : option value := match vs with [] => None | _ => Some (VList vs) end.
Definition smap (kvs : list (value * value)) : option value :=
  match kvs with [] => None | _ => Some (VMap kvs) end.

Lemma spush_slist pre vs : spush (slist pre) vs = slist (pre ++ vs).
Proof.
  destruct vs as [|v vs]; [now rewrite app_nil_r|]. destruct pre as [|p pre]; reflexivity.
Qed.
Lemma smap_insert_fresh pre key x :
  existsb (fun k' => key_eqb k' key) (map fst pre) = false ->
  smap_insert (smap pre) key x = smap (pre ++ [(key, x)]).
Proof.
  intro H. destruct pre as [|p pre]; [reflexivity|].
  cbn [smap smap_insert]. rewrite (kv_insert_fresh _ _ _ H). reflexivity.
Qed.

Lemma chunks_nil_inv rs : chunks [] rs -> rs = [].
Proof. intro H. inversion H. reflexivity. Qed.

(* what [typed_field] says, by shape *)
Lemma typed_sing_msg sch ext desc n x f m' :
  lookup_field desc n = Some f -> singular (f_card f) = true -> f_ty f = TM m' ->
  typed_field sch ext (typedb sch ext) desc (n, x) = true -> typedb sch ext m' x = true.
Proof.
  unfold typed_field. intros L S ET. rewrite L, ET.
  destruct (f_card f); try discriminate; destruct x; rewrite andb_true_iff; tauto.
Qed.
Lemma typed_rep_msg sch ext desc n vs f pk m' :
  lookup_field desc n = Some f -> f_card f = CRepeated pk -> f_ty f = TM m' ->
  typed_field sch ext (typedb sch ext) desc (n, VList vs) = true ->
  forall e, In e vs -> typedb sch ext m' e = true.
Proof.
  unfold typed_field. intros L EC ET. rewrite L, EC, ET. intros H e He.
  rewrite forallb_forall in H. specialize (H e He). apply andb_true_iff in H. tauto.
Qed.
Lemma typed_map sch ext desc n kvs f kk :
  lookup_field desc n = Some f -> f_card f = CMap kk ->
  typed_field sch ext (typedb sch ext) desc (n, VMap kvs) = true ->
  nodupb key_eqb (map fst kvs) = true /\
  forall kv, In kv kvs -> forall m', f_ty f = TM m' -> typedb sch ext m' (snd kv) = true.
Proof.
  unfold typed_field. intros L EC. rewrite L, EC. rewrite andb_true_iff. intros [H1 H2].
  split; [exact H1|]. intros kv Hkv m' ET. rewrite forallb_forall in H2. specialize (H2 kv Hkv).
  rewrite ET in H2. rewrite !andb_true_iff in H2. tauto.
Qed.

Lemma oeq_refl o : oeq o o.
Proof. destruct o; constructor. apply veq_refl. Qed.

Lemma Forall2_map_r {X Y Z} (Q : X -> Y -> Prop) (R : X -> Z -> Prop) (g : Y -> Z) l l' :
  (forall a b, Q a b -> R a (g b)) -> Forall2 Q l l' -> Forall2 R l (map g l').
Proof. intro H. induction 1; cbn [map]; constructor; auto. Qed.

(* ================================================================== one field, any encoding *)
Section FieldAny.
Variable sch : schema.
Variable ext : bool.
Variable k : nat.
Hypothesis IH : forall m' x rs, typedb sch ext m' x = true -> (depth x <= k)%nat ->
  conforming sch m' x rs ->
  exists fs', dec_fold sch k m' [] rs = Some fs' /\ veq (VMsg fs') (norm sch m' x).
Local Notation rec := (dec_msg sch k).

Lemma dec_fold_nil_some m acc rs a : dec_fold sch k m acc rs = Some a -> dec_fold sch k m a [] = Some a.
Proof.
  destruct k as [|k']; [discriminate|]. cbn [dec_fold]. destruct (lookup_msg sch m); [|discriminate].
  reflexivity.
Qed.

(* a message given in pieces: the decoder merges, i.e. decodes the concatenation *)
Lemma chunks_fold {S} (stp : S -> payload -> option S) (get : S -> list (N * value))
  (put : list (N * value) -> S) m' :
  (forall s b, stp s (PLen b) = match rec m' (get s) b with Some fs => Some (put fs) | None => None end) ->
  (forall fs, get (put fs) = fs) ->
  forall ps rs, chunks ps rs -> ps <> [] -> forall s,
  fold_opt stp s ps = match dec_fold sch k m' (get s) rs with Some fs => Some (put fs) | None => None end.
Proof.
  intros Hs Hg ps rs C. induction C as [|b rs ps rest P C IHC]; intros NE s; [contradiction|].
  cbn [fold_opt]. rewrite Hs, (dec_msg_parse sch k m' _ b rs P), dec_fold_app.
  destruct (dec_fold sch k m' (get s) rs) as [fs|] eqn:E; [|reflexivity].
  destruct ps as [|p ps'].
  - apply chunks_nil_inv in C. subst rest. cbn [fold_opt].
    rewrite (dec_fold_nil_some _ _ _ _ E). reflexivity.
  - rewrite IHC by discriminate. rewrite Hg. reflexivity.
Qed.

(* ---- map entries *)
Definition kstep (kk : scalar) (key : value) (p : payload) : option value := dec_leaf (TS kk) p.
Definition vstep (t : ty) (v : value) (p : payload) : option value :=
  match t with
  | TM m' =>
      match p with
      | PLen b => match rec m' (old_fields (Some v)) b with Some fs => Some (VMsg fs) | None => None end
      | _ => None
      end
  | _ => dec_leaf t p
  end.

Lemma entry_sem kk t : forall rs key v,
  fold_opt (entry_step rec kk t) (key, v) rs =
  match fold_opt (kstep kk) key (payloads 1 rs), fold_opt (vstep t) v (payloads 2 rs) with
  | Some key', Some v' => Some (key', v')
  | _, _ => None
  end.
Proof.
  induction rs as [|[n p] rs IHrs]; intros key v; [reflexivity|].
  cbn [fold_opt]. unfold entry_step at 1. cbn [fst snd].
  destruct (N.eqb_spec n 1) as [E1|E1].
  - subst n. rewrite payloads_cons_same, (payloads_cons_other 2 1) by discriminate.
    cbn [fold_opt]. unfold kstep at 1. destruct (dec_leaf (TS kk) p); [apply IHrs|reflexivity].
  - destruct (N.eqb_spec n 2) as [E2|E2].
    + subst n. rewrite payloads_cons_same, (payloads_cons_other 1 2) by discriminate.
      cbn [fold_opt].
      assert (X : match t with
                  | TM m' => match p with
                             | PLen b => match rec m' (old_fields (Some v)) b with
                                         | Some fs => Some (key, VMsg fs) | None => None end
                             | _ => None end
                  | _ => match dec_leaf t p with Some x => Some (key, x) | None => None end
                  end = match vstep t v p with Some v' => Some (key, v') | None => None end).
      { unfold vstep. destruct t; try reflexivity. destruct p; try reflexivity.
        destruct (rec m (old_fields (Some v)) b); reflexivity. }
      rewrite X. destruct (vstep t v p) as [v'|]; [apply IHrs|].
      destruct (fold_opt (kstep kk) key (payloads 1 rs)); reflexivity.
    + rewrite !payloads_cons_other by congruence. apply IHrs.
Qed.

Lemma entry_any kk t kv p :
  conf_entry (conforming sch) kk t kv p ->
  (forall m', t = TM m' -> typedb sch ext m' (snd kv) = true) -> (depth (snd kv) <= k)%nat ->
  exists b rs w, p = PLen b /\ parse_records b = Some rs /\
    fold_opt (entry_step rec kk t) (default_of (TS kk), default_of t) rs = Some (fst kv, w) /\
    veq w (snd (norm_kv sch t kv)).
Proof.
  intros C T D. destruct C as [kv b rs P CK CV]. exists b, rs.
  assert (K : fold_opt (kstep kk) (default_of (TS kk)) (payloads 1 rs) = Some (fst kv)).
  { apply dflt_fold; [|exact CK]. intros s q y H. exact H. }
  assert (V : exists w, fold_opt (vstep t) (default_of t) (payloads 2 rs) = Some w /\
                        veq w (snd (norm_kv sch t kv))).
  { destruct CV as [Lf CD|m' rs' -> CH CM].
    - exists (snd kv). split.
      + apply dflt_fold; [|exact CD]. intros s q y H. unfold vstep. destruct t; try contradiction; exact H.
      + unfold norm_kv. destruct t; try contradiction; apply veq_refl.
    - destruct (IH m' (snd kv) rs' (T m' eq_refl) D CM) as (fs' & F & Q).
      unfold norm_kv. cbn [snd].
      destruct (payloads 2 rs) as [|q qs] eqn:EP.
      + apply chunks_nil_inv in CH. subst rs'. apply dec_fold_nil in F. subst fs'.
        exists (VMsg []). split; [reflexivity|exact Q].
      + exists (VMsg fs'). split; [|exact Q].
        rewrite (chunks_fold (vstep (TM m')) (fun v => old_fields (Some v)) VMsg m'
                   (fun s b0 => eq_refl) (fun fs => eq_refl) _ _ CH) by discriminate.
        cbn [default_of old_fields]. rewrite F. reflexivity. }
  destruct V as (w & V & Q). exists w. repeat split; auto.
  rewrite entry_sem, K, V. reflexivity.
Qed.

(* ---- repeated scalars: packed runs and single elements, in any mixture *)
Lemma runs_fold f pk : f_card f = CRepeated pk -> is_leaf_ty (f_ty f) ->
  forall runs ps, Forall2 (run (f_ty f)) runs ps -> forall pre,
  fold_opt (slot_step rec f) (slist pre) ps = Some (slist (pre ++ List.concat runs)).
Proof.
  intros EC Lf runs ps F. induction F as [|vs p runs ps R F IHF]; intro pre.
  - cbn. now rewrite app_nil_r.
  - cbn [fold_opt List.concat]. rewrite (slot_step_rep_leaf rec f _ p pk EC Lf).
    assert (X : match p with
      | PLen b =>
          if packable (f_ty f) then
            match dec_packed (List.length b) (f_ty f) b with
            | Some vs0 => Some (spush (slist pre) vs0) | None => None end
          else match dec_leaf (f_ty f) p with Some x => Some (spush (slist pre) [x]) | None => None end
      | _ => match dec_leaf (f_ty f) p with Some x => Some (spush (slist pre) [x]) | None => None end
      end = Some (spush (slist pre) vs)).
    { destruct R as [e p Hl|vs Hp Hok].
      - destruct (leaf_dec _ _ _ Hl) as [Hd Hs]. destruct p; try rewrite Hs; rewrite Hd; reflexivity.
      - rewrite Hp. rewrite (packed_rt _ Hp vs _ Hok (packed_len _ _ Hok Hp)). reflexivity. }
    rewrite X, spush_slist, IHF, app_assoc. reflexivity.
Qed.

(* ---- repeated messages *)
Lemma elems_fold f pk m' : f_card f = CRepeated pk -> f_ty f = TM m' ->
  forall vs ps, Forall2 (conf_elem (conforming sch) m') vs ps ->
  (forall e, In e vs -> typedb sch ext m' e = true /\ (depth e <= k)%nat) ->
  forall pre, exists ws,
  fold_opt (slot_step rec f) (slist pre) ps = Some (slist (pre ++ ws)) /\
  Forall2 veq ws (map (norm sch m') vs).
Proof.
  intros EC ET vs ps F. induction F as [|e p vs ps C F IHF]; intros T pre.
  - exists []. split; [cbn; now rewrite app_nil_r|constructor].
  - destruct C as [e b rs P C].
    destruct (T e (or_introl eq_refl)) as [Te De].
    destruct (IH m' e rs Te De C) as (fs' & E & Q).
    destruct (IHF (fun e' H => T e' (or_intror H)) (pre ++ [VMsg fs'])) as (ws & E2 & Q2).
    exists (VMsg fs' :: ws). split; [|cbn [map]; constructor; assumption].
    cbn [fold_opt]. rewrite (slot_step_rep_msg rec f _ _ pk m' EC ET).
    rewrite (dec_msg_parse sch k m' _ b rs P), E, spush_slist, E2, <- app_assoc. reflexivity.
Qed.

(* ---- map entries, in any order *)
Lemma entries_fold f kk : f_card f = CMap kk ->
  forall kvs ps, Forall2 (conf_entry (conforming sch) kk (f_ty f)) kvs ps ->
  (forall kv, In kv kvs ->
     (forall m', f_ty f = TM m' -> typedb sch ext m' (snd kv) = true) /\ (depth (snd kv) <= k)%nat) ->
  forall pre, nodupb key_eqb (map fst pre ++ map fst kvs) = true ->
  exists ws,
  fold_opt (slot_step rec f) (smap pre) ps = Some (smap (pre ++ ws)) /\
  Forall2 (fun w kv => fst w = fst kv /\ veq (snd w) (snd (norm_kv sch (f_ty f) kv))) ws kvs.
Proof.
  intros EC kvs ps F. induction F as [|kv p kvs ps C F IHF]; intros T pre ND.
  - exists []. split; [cbn; now rewrite app_nil_r|constructor].
  - destruct (T kv (or_introl eq_refl)) as [Tk Dk].
    destruct (entry_any kk (f_ty f) kv p C Tk Dk) as (b & rs & w & -> & P & E & Q).
    destruct (IHF (fun kv' H => T kv' (or_intror H)) (pre ++ [(fst kv, w)])) as (ws & E2 & Q2).
    { rewrite map_app. cbn [map fst]. rewrite <- app_assoc. exact ND. }
    exists ((fst kv, w) :: ws). split; [|constructor; [split; [reflexivity|exact Q]|exact Q2]].
    cbn [fold_opt]. rewrite (slot_step_map rec f _ _ kk EC), P, E.
    rewrite smap_insert_fresh by (cbn [map] in ND; apply (nodupb_app_fresh key_eqb _ _ _ ND)).
    rewrite E2, <- app_assoc. reflexivity.
Qed.

(* ---- the per-field statement *)
Lemma field_any desc n f ox ps :
  lookup_field desc n = Some f ->
  (forall x, ox = Some x ->
     typed_field sch ext (typedb sch ext) desc (n, x) = true /\ (depth x <= k)%nat) ->
  conf_field (conforming sch) f ox ps ->
  exists o, fold_opt (slot_step rec f) None ps = Some o /\ oeq o (norm_slot sch desc n ox).
Proof.
  intros L T C.
  assert (LW : forall x ps, singular (f_card f) = true -> is_leaf_ty (f_ty f) ->
             conf_last (f_ty f) x ps ->
             fold_opt (slot_step rec f) None ps
             = Some (if is_implicit (f_card f) && is_default x then None else Some x)).
  { intros x ps0 S Lf CL.
    apply (last_wins (slot_step rec f)
             (fun y => if is_implicit (f_card f) && is_default y then None else Some y) (f_ty f) x ps0); [|exact CL].
    intros s p y Hd. rewrite (slot_step_sing_leaf rec f s p S Lf), Hd. reflexivity. }
  destruct C as [S|x EC Lf Hok Hd|x ps EC Lf Hd CL|x ps S Lf CL|m' x ps rs S ET NE CH CM
                 |pk ox runs ps EC Lf LO F|pk m' ox vs ps EC ET LO F|kk ox kvs kvs' ps EC MO PM F].
  - exists None. split; [reflexivity|constructor].
  - exists None. split; [reflexivity|].
    rewrite (norm_slot_sing_leaf sch desc n f L x) by (try rewrite EC; auto).
    rewrite EC, Hd. constructor.
  - exists None. split; [|constructor].
    rewrite (LW x ps) by (try rewrite EC; auto). rewrite EC, Hd. reflexivity.
  - eexists. split; [apply (LW x ps S Lf CL)|].
    rewrite (norm_slot_sing_leaf sch desc n f L x S Lf). apply oeq_refl.
  - destruct (T x eq_refl) as [Tx Dx].
    destruct (IH m' x rs (typed_sing_msg sch ext desc n x f m' L S ET Tx) Dx CM) as (fs' & E & Q).
    exists (Some (VMsg fs')). split.
    + rewrite (chunks_fold (slot_step rec f) old_fields (fun fs => Some (VMsg fs)) m'
                 (fun s b => slot_step_sing_msg rec f s (PLen b) m' S ET) (fun fs => eq_refl) _ _ CH NE).
      cbn [old_fields]. rewrite E. reflexivity.
    + rewrite (norm_slot_sing_msg sch desc n f L x m' S ET). constructor. exact Q.
  - exists (slist (List.concat runs)). split; [apply (runs_fold f pk EC Lf runs ps F [])|].
    destruct LO as [->|[-> ->]]; [|constructor].
    rewrite (norm_slot_rep_leaf sch desc n f L _ pk EC Lf). apply oeq_refl.
  - assert (TV : forall e, In e vs -> typedb sch ext m' e = true /\ (depth e <= k)%nat).
    { destruct LO as [->|[-> ->]]; [|intros e []].
      destruct (T _ eq_refl) as [Tx Dx]. intros e He. split.
      - apply (typed_rep_msg sch ext desc n vs f pk m' L EC ET Tx e He).
      - apply depth_list_le in Dx. rewrite Forall_forall in Dx. apply Dx. exact He. }
    destruct (elems_fold f pk m' EC ET vs ps F TV []) as (ws & E & Q).
    exists (slist ws). split; [exact E|].
    assert (Q' : oeq (slist ws) (match vs with [] => None | _ => Some (VList (map (norm sch m') vs)) end)).
    { destruct vs as [|v0 vs0].
      - inversion Q. constructor.
      - cbn [map] in Q. inversion Q as [|w y ws0 ys Q1 Q2]. subst. constructor. apply veq_list.
        cbn [map]. constructor; assumption. }
    destruct LO as [->|[-> ->]].
    + rewrite (norm_slot_rep_msg sch desc n f L _ pk m' EC ET). exact Q'.
    + exact Q'.
  - assert (TV : nodupb key_eqb (map fst kvs) = true /\ forall kv, In kv kvs ->
       (forall m', f_ty f = TM m' -> typedb sch ext m' (snd kv) = true) /\ (depth (snd kv) <= k)%nat).
    { destruct MO as [->|[-> ->]]; [|split; [reflexivity|intros kv []]].
      destruct (T _ eq_refl) as [Tx Dx].
      destruct (typed_map sch ext desc n kvs f kk L EC Tx) as [N1 N2]. split; [exact N1|].
      intros kv Hkv. split; [apply N2; exact Hkv|].
      apply depth_map_le in Dx. rewrite Forall_forall in Dx. apply Dx. exact Hkv. }
    destruct TV as [ND TV].
    destruct (entries_fold f kk EC kvs' ps F) with (pre := @nil (value * value)) as (ws & E & Q).
    + intros kv Hkv. apply TV. apply (Permutation_in _ (Permutation_sym PM)). exact Hkv.
    + cbn [map app]. rewrite <- (nodupb_perm key_eqb key_eqb_sym _ _ (Permutation_map fst PM)). exact ND.
    + exists (smap ws). split; [exact E|].
      assert (Q' : oeq (smap ws)
                (match kvs with [] => None | _ => Some (VMap (map (norm_kv sch (f_ty f)) kvs)) end)).
      { destruct kvs as [|kv0 kvs0].
        - apply Permutation_nil in PM. subst kvs'. inversion Q. constructor.
        - destruct ws as [|w0 ws0].
          + inversion Q. subst kvs'. apply Permutation_sym, Permutation_nil in PM. discriminate PM.
          + constructor. apply (veq_map _ _ (map (norm_kv sch (f_ty f)) kvs')).
            * apply Permutation_map. exact PM.
            * eapply Forall2_map_r; [|exact Q].
              intros w kv [H1 H2]. split; [|exact H2].
              rewrite H1. unfold norm_kv. destruct (f_ty f); reflexivity. }
      destruct MO as [->|[-> ->]].
      * rewrite (norm_slot_map sch desc n f L _ kk EC). exact Q'.
      * exact Q'.
Qed.
End FieldAny.

(* ================================================================== all fields of a message *)
Lemma fget_In fs n x : fget fs n = Some x -> In (n, x) fs.
Proof.
  induction fs as [|[j y] r IH]; cbn [fget]; [discriminate|].
  destruct (N.eqb_spec j n) as [->|D]; intro H; [inversion H; left; reflexivity|right; auto].
Qed.
Lemma fget_In_keys fs n x : fget fs n = Some x -> In n (keys fs).
Proof. intro H. apply fget_In in H. unfold keys. apply in_map_iff. exists (n, x). auto. Qed.
Lemma fget_app a b n : fget (a ++ b) n = match fget a n with Some v => Some v | None => fget b n end.
Proof.
  induction a as [|[j y] r IH]; cbn [app fget]; [reflexivity|]. destruct (j =? n); [reflexivity|exact IH].
Qed.

Lemma norm_field_shape nrm desc n x :
  norm_field nrm desc (n, x) = [] \/ exists y, norm_field nrm desc (n, x) = [(n, y)].
Proof.
  unfold norm_field. destruct (lookup_field desc n) as [f|]; [|left; reflexivity].
  destruct (f_card f); destruct x; try destruct vs; try destruct kvs; destruct (f_ty f);
    cbn [is_implicit andb];
    try match goal with |- context [is_default ?v] => destruct (is_default v) end; eauto.
Qed.

Lemma keys_flat_norm nrm desc fs j :
  In j (keys (flat_map (norm_field nrm desc) fs)) -> In j (keys fs).
Proof.
  unfold keys. intro H. apply in_map_iff in H. destruct H as (kv & E & H).
  apply in_flat_map in H. destruct H as ([n x] & Hin & Hkv). apply norm_field_keys in Hkv.
  apply in_map_iff. exists (n, x). split; [cbn; congruence|exact Hin].
Qed.

Lemma nodup_flat_norm nrm desc fs :
  NoDup (keys fs) -> NoDup (keys (flat_map (norm_field nrm desc) fs)).
Proof.
  induction fs as [|[n x] r IH]; cbn [flat_map keys map fst]; intro H; [constructor|].
  inversion H as [|? ? Hn Hr]; subst.
  destruct (norm_field_shape nrm desc n x) as [E|(y & E)]; rewrite E; cbn [app map fst].
  - apply IH. exact Hr.
  - constructor; [|apply IH; exact Hr]. intro Hin. apply Hn. apply (keys_flat_norm nrm desc). exact Hin.
Qed.

Lemma fget_flat_norm sch desc fs n : NoDup (keys fs) ->
  fget (flat_map (norm_field (norm sch) desc) fs) n = norm_slot sch desc n (fget fs n).
Proof.
  induction fs as [|[j x] r IH]; cbn [flat_map keys map fst]; intro H; [reflexivity|].
  inversion H as [|? ? Hn Hr]; subst. rewrite fget_app. cbn [fget].
  destruct (N.eqb_spec j n) as [->|D].
  - cbn [norm_slot]. destruct (fget (norm_field (norm sch) desc (n, x)) n); [reflexivity|].
    rewrite (IH Hr). rewrite (fget_none r n Hn). reflexivity.
  - rewrite (fget_none (norm_field (norm sch) desc (j, x)) n); [exact (IH Hr)|].
    unfold keys. intro Hin. apply in_map_iff in Hin. destruct Hin as (kv & E & Hkv).
    apply norm_field_keys in Hkv. congruence.
Qed.

(* two finite maps with the same content are equal up to a permutation *)
Lemma ext_perm : forall fa fb, NoDup (keys fa) -> NoDup (keys fb) ->
  (forall n, oeq (fget fa n) (fget fb n)) ->
  exists fb', Permutation fb fb' /\
    Forall2 (fun x y : N * value => fst x = fst y /\ veq (snd x) (snd y)) fa fb'.
Proof.
  induction fa as [|[k x] r IH]; intros fb Na Nb H.
  - exists []. split; [|constructor]. destruct fb as [|[j y] fb]; [constructor|].
    specialize (H j). cbn [fget] in H. rewrite N.eqb_refl in H. inversion H.
  - pose proof (H k) as Hk. cbn [fget] in Hk. rewrite N.eqb_refl in Hk.
    inversion Hk as [|a y Vxy]. subst a.
    assert (Iy : In (k, y) fb) by (apply fget_In; congruence).
    destruct (in_split _ _ Iy) as (l1 & l2 & ->).
    cbn [keys map fst] in Na. inversion Na as [|? ? Hk1 Hr]; subst.
    unfold keys in Nb. rewrite map_app in Nb. cbn [map fst] in Nb.
    pose proof (NoDup_remove_1 _ _ _ Nb) as Nb1. pose proof (NoDup_remove_2 _ _ _ Nb) as Nb2.
    rewrite <- map_app in Nb1, Nb2.
    destruct (IH (l1 ++ l2) Hr Nb1) as (fb0 & P & F).
    + intro n. destruct (N.eq_dec n k) as [->|D].
      * rewrite (fget_none r k Hk1), (fget_none (l1 ++ l2) k Nb2). constructor.
      * specialize (H n). cbn [fget] in H. destruct (N.eqb_spec k n); [congruence|].
        rewrite fget_app in H. cbn [fget] in H. destruct (N.eqb_spec k n); [congruence|].
        rewrite fget_app. exact H.
    + exists ((k, y) :: fb0). split.
      * eapply Permutation_trans; [apply Permutation_sym, Permutation_middle|]. now constructor.
      * constructor; [split; [reflexivity|exact Vxy]|exact F].
Qed.

Lemma in_group_In desc g fs k :
  In k (keys fs) -> in_group desc g k = true -> In g (groups_of desc fs).
Proof.
  unfold keys, groups_of, in_group. intros Hin Hg. apply in_map_iff in Hin.
  destruct Hin as ([k0 v] & E & Hin). cbn in E. subst k0.
  destruct (lookup_field desc k) as [f|] eqn:L; [|discriminate].
  destruct (f_card f) eqn:EC; try discriminate. apply String.eqb_eq in Hg. subst g0.
  apply in_flat_map. exists (k, v). split; [exact Hin|]. cbn [fst]. rewrite L, EC. left. reflexivity.
Qed.

Lemma group_uni desc : forall fs, nodupb String.eqb (groups_of desc fs) = true ->
  forall k n g, In k (keys fs) -> In n (keys fs) ->
  in_group desc g k = true -> in_group desc g n = true -> k = n.
Proof.
  induction fs as [|[j x] r IH]; intros ND k n g Hk Hn Gk Gn; [destruct Hk|].
  assert (TL : nodupb String.eqb (groups_of desc r) = true).
  { unfold groups_of in ND. cbn [flat_map fst] in ND. fold (groups_of desc r) in ND.
    destruct (lookup_field desc j) as [f|]; [|exact ND]. destruct (f_card f); try exact ND.
    cbn [app nodupb] in ND. apply andb_true_iff in ND. tauto. }
  assert (HD : forall n', In n' (keys r) -> in_group desc g j = true -> in_group desc g n' = true -> False).
  { intros n' Hn' Gj Gn'. pose proof (in_group_In desc g r n' Hn' Gn') as I1.
    unfold groups_of in ND. cbn [flat_map fst] in ND. fold (groups_of desc r) in ND.
    unfold in_group in Gj. destruct (lookup_field desc j) as [f|]; [|discriminate].
    destruct (f_card f); try discriminate. apply String.eqb_eq in Gj. subst g0.
    cbn [app nodupb] in ND. apply andb_true_iff in ND. destruct ND as [ND _].
    apply negb_true_iff in ND.
    assert (X : existsb (String.eqb g) (groups_of desc r) = true).
    { apply existsb_exists. exists g. split; [exact I1|apply String.eqb_refl]. }
    congruence. }
  cbn [keys map fst In] in Hk, Hn. destruct Hk as [<-|Hk], Hn as [<-|Hn].
  - reflexivity.
  - exfalso. apply (HD n Hn Gk Gn).
  - exfalso. apply (HD k Hk Gn Gk).
  - apply (IH TL k n g Hk Hn Gk Gn).
Qed.

Lemma arm_present cm f g ps : conf_field cm f None ps -> f_card f = COneof g -> ps = [].
Proof.
  intros C EC. inversion C; subst; try reflexivity; try congruence.
Qed.

Lemma payloads_In n p rs : In (n, p) rs -> In p (payloads n rs).
Proof.
  intro H. unfold payloads. apply in_map_iff. exists (n, p). split; [reflexivity|].
  apply filter_In. split; [exact H|]. cbn [fst]. apply N.eqb_refl.
Qed.

Section MsgAny.
Variable sch : schema.
Variable ext : bool.

Lemma msg_any : forall k m v rs,
  typedb sch ext m v = true -> (depth v <= k)%nat -> conforming sch m v rs ->
  exists fs', dec_fold sch k m [] rs = Some fs' /\ veq (VMsg fs') (norm sch m v).
Proof.
  induction k as [|k IHk]; intros m v rs T D C.
  - destruct C. cbn [depth] in D. lia.
  - destruct C as [m desc fs rs LM CF]. cbn [typedb] in T. rewrite LM in T.
    rewrite !andb_true_iff in T. destruct T as [[T1 T2] T3].
    assert (ND : NoDup (keys fs)) by (apply (nodupb_NoDup N.eqb); [apply N.eqb_refl|exact T1]).
    pose proof (depth_fields_le fs k D) as DF. rewrite Forall_forall in DF.
    rewrite forallb_forall in T3.
    cbn [dec_fold norm]. rewrite LM.
    assert (FA : forall n f, lookup_field desc n = Some f ->
              exists o, fold_opt (slot_step (dec_msg sch k) f) None (payloads n rs) = Some o /\
                        oeq o (norm_slot sch desc n (fget fs n))).
    { intros n f L. apply (field_any sch ext k IHk desc n f _ _ L); [|apply CF; exact L].
      intros x Hx. apply fget_In in Hx. split; [apply T3; exact Hx|apply (DF _ Hx)]. }
    destruct (fold_sem (dec_msg sch k) desc (fun n => In n (keys fs)) (group_uni desc fs T2) rs [])
      as (acc & F & NA & SL).
    + constructor.
    + intros j [].
    + intros [n p] Hr (f & g & L & EC). cbn [fst].
      destruct (fget fs n) as [x|] eqn:G; [apply (fget_In_keys _ _ _ G)|].
      exfalso. pose proof (CF n f L) as C. rewrite G in C.
      apply (payloads_In n p rs) in Hr.
      rewrite (arm_present _ f g _ C EC) in Hr. destruct Hr.
    + intro n. unfold slot_of. destruct (lookup_field desc n) as [f|] eqn:L; [|discriminate].
      cbn [fget]. destruct (FA n f L) as (o & E & _). rewrite E. discriminate.
    + exists acc. split; [exact F|].
      destruct (ext_perm acc (flat_map (norm_field (norm sch) desc) fs) NA
                  (nodup_flat_norm _ _ _ ND)) as (fb' & P & Q).
      * intro n. rewrite (fget_flat_norm sch desc fs n ND).
        specialize (SL n). unfold slot_of in SL. cbn [fget] in SL.
        destruct (lookup_field desc n) as [f|] eqn:L.
        -- destruct (FA n f L) as (o & E & O). rewrite E in SL. inversion SL. subst o. exact O.
        -- inversion SL as [E]. unfold norm_slot, norm_field. rewrite L.
           destruct (fget fs n); constructor.
      * apply (veq_msg _ _ fb' P Q).
Qed.
End MsgAny.

(* ================================================================== the theorem *)
Definition conforming_bytes (sch : schema) (m : string) (v : value) (bytes : list byte) : Prop :=
  exists rs, parse_records bytes = Some rs /\ conforming sch m v rs.

Theorem codec_decode_any_encoding sch m v bytes fuel :
  typedb sch true m v = true -> conforming_bytes sch m v bytes -> (depth v <= fuel)%nat ->
  exists w, decode sch fuel m bytes = Some w /\ veq w (norm sch m v).
Proof.
  intros T (rs & P & C) D. unfold decode. rewrite (dec_msg_parse sch fuel m [] bytes rs P).
  destruct (msg_any sch true fuel m v rs T D C) as (fs' & E & Q). rewrite E.
  exists (VMsg fs'). split; [reflexivity|exact Q].
Qed.

(* ------------------------------------------------------------------ (a) and (e) as closure properties *)
(* only the order among the records of one field matters *)
Lemma conforming_reorder sch m v rs rs' :
  (forall n, payloads n rs' = payloads n rs) -> conforming sch m v rs -> conforming sch m v rs'.
Proof.
  intros H C. destruct C as [m desc fs rs LM CF]. apply (conforming_intro sch m desc fs rs' LM).
  intros n f L. rewrite H. apply CF. exact L.
Qed.
(* a record with a number outside the descriptor may be inserted anywhere *)
Lemma conforming_unknown sch m desc v a b n p :
  lookup_msg sch m = Some desc -> lookup_field desc n = None ->
  conforming sch m v (a ++ b) -> conforming sch m v (a ++ (n, p) :: b).
Proof.
  intros LM LN C. inversion C as [m0 desc0 fs rs LM0 CF]; subst.
  rewrite LM in LM0. inversion LM0; subst desc0.
  apply (conforming_intro sch m desc fs _ LM). intros n' f L.
  assert (D : n <> n') by congruence.
  rewrite payloads_app, (payloads_cons_other n' n p b D), <- payloads_app. apply CF. exact L.
Qed.

Lemma conf_last_one t x p : leaf_enc t x p -> conf_last t x [p].
Proof. intro H. apply (conf_last_intro t x [] p); [constructor|exact H]. Qed.
Lemma conf_last_cons t x y q ps : leaf_enc t y q -> conf_last t x ps -> conf_last t x (q :: ps).
Proof.
  intros H [pre p O L].
  apply (conf_last_intro t x (q :: pre) p); [constructor; [exists y; exact H|exact O]|exact L].
Qed.
Lemma run_packed_eq t vs b : packable t = true -> forallb (leaf_ok t) vs = true ->
  b = flat_map (enc_packed_elem t) vs -> run t vs (PLen b).
Proof. intros H1 H2 ->. now apply run_packed. Qed.

Lemma chunks_one b rs : parse_records b = Some rs -> chunks [PLen b] rs.
Proof. intro P. rewrite <- (app_nil_r rs). apply chunks_cons; [exact P|constructor]. Qed.

(* ================================================================== the model encoder's own output conforms *)
Lemma in_enc_unpacked n t e r : In r (enc_unpacked n t e) -> fst r = n.
Proof. unfold enc_unpacked. destruct (enc_leaf t e); cbn; [intros [<-|[]]; reflexivity|intros []]. Qed.

Lemma enc_field_nums E desc k x r : In r (enc_field E desc (k, x)) -> fst r = k.
Proof.
  unfold enc_field. destruct (lookup_field desc k) as [f|].
  - assert (U : forall t, In r (if is_implicit (f_card f) && is_default x then [] else enc_unpacked k t x) -> fst r = k).
    { intro t. destruct (is_implicit (f_card f) && is_default x); [intros []|apply in_enc_unpacked]. }
    assert (R : forall t vs pk, In r (match vs with
                                  | [] => []
                                  | _ => if pk : bool then [(k, PLen (flat_map (enc_packed_elem t) vs))]
                                         else flat_map (enc_unpacked k t) vs end) -> fst r = k).
    { intros t vs pk. destruct vs as [|v0 vs0]; [intros []|]. destruct pk.
      - intros [<-|[]]. reflexivity.
      - intro H. apply in_flat_map in H. destruct H as (e & _ & H). apply (in_enc_unpacked _ _ _ _ H). }
    destruct (f_card f) eqn:EC; destruct x; try (intros []); destruct (f_ty f);
      try apply U; try apply R; try (intros [<-|[]]; reflexivity);
      try (intro H; apply in_map_iff in H; destruct H as (? & <- & _); reflexivity).
  - unfold enc_unknown. destruct x; cbn [In]; intro H; try contradiction; destruct H as [<-|[]]; reflexivity.
Qed.

Lemma payloads_none n l : (forall r, In r l -> fst r <> n) -> payloads n l = [].
Proof.
  intro H. unfold payloads. induction l as [|r l IH]; [reflexivity|]. cbn [filter].
  destruct (N.eqb_spec (fst r) n) as [E|E]; [exfalso; apply (H r); [left; reflexivity|exact E]|].
  apply IH. intros r' Hr'. apply H. right. exact Hr'.
Qed.
Lemma payloads_all n l : (forall r, In r l -> fst r = n) -> payloads n l = map snd l.
Proof.
  intro H. unfold payloads. induction l as [|r l IH]; [reflexivity|]. cbn [filter map].
  rewrite (H r) by (left; reflexivity). rewrite N.eqb_refl. cbn [map]. f_equal.
  apply IH. intros r' Hr'. apply H. right. exact Hr'.
Qed.

Lemma payloads_enc_fields E desc fs n : NoDup (keys fs) ->
  payloads n (flat_map (enc_field E desc) fs) =
  match fget fs n with Some x => map snd (enc_field E desc (n, x)) | None => [] end.
Proof.
  induction fs as [|[k x] r IH]; cbn [flat_map keys map fst fget]; intro H; [reflexivity|].
  inversion H as [|? ? Hk Hr]; subst. rewrite payloads_app, (IH Hr).
  destruct (N.eqb_spec k n) as [->|D].
  - rewrite (fget_none r n Hk), app_nil_r. apply payloads_all. apply enc_field_nums.
  - rewrite payloads_none; [reflexivity|]. intros r0 Hr0. rewrite (enc_field_nums _ _ _ _ _ Hr0). exact D.
Qed.

Lemma concat_singletons {X} (l : list X) : List.concat (map (fun e => [e]) l) = l.
Proof. induction l as [|x l IH]; cbn; [reflexivity|now rewrite IH]. Qed.

Lemma unpacked_runs n t vs : forallb (leaf_ok t) vs = true ->
  Forall2 (run t) (map (fun e => [e]) vs) (map snd (flat_map (enc_unpacked n t) vs)).
Proof.
  induction vs as [|v vs IH]; cbn [forallb map flat_map]; intro H; [constructor|].
  apply andb_true_iff in H. destruct H as [Hv Hvs].
  destruct (leaf_rt t v Hv) as (p & He & _). unfold enc_unpacked at 1. rewrite He. cbn [app map snd].
  constructor; [apply run_one; split; assumption|apply IH; exact Hvs].
Qed.

Lemma entry_leaf_conf t num x : leaf_ok t x = true ->
  conf_dflt t x (payloads num (enc_entry_leaf t num x)) /\
  forall num', num' <> num -> payloads num' (enc_entry_leaf t num x) = [].
Proof.
  intro H. unfold enc_entry_leaf. destruct (is_default x) eqn:D.
  - split; [apply conf_dflt_omitted; assumption|reflexivity].
  - destruct (leaf_rt t x H) as (p & He & _). rewrite He. split.
    + rewrite payloads_cons_same. apply conf_dflt_explicit. apply conf_last_one. split; assumption.
    + intros num' Hn. rewrite payloads_cons_other by congruence. reflexivity.
Qed.

Section EncConf.
Variable sch : schema.
Variable ext : bool.
Hypothesis WF : wf_schema sch = true.

Lemma parse_enc_msg m v : typedb sch ext m v = true ->
  parse_records (enc_records (enc_msg sch m v)) = Some (enc_msg sch m v).
Proof. intro T. apply records_roundtrip. apply (enc_msg_wf sch ext WF m v T). Qed.

Section OneField.
Variable k : nat.
Hypothesis IH : forall m' x, typedb sch ext m' x = true -> (depth x <= k)%nat ->
  conforming sch m' x (enc_msg sch m' x).

Lemma absent_conf f : conf_field (conforming sch) f None [].
Proof.
  destruct (f_card f) eqn:EC; try (apply cf_absent; rewrite EC; reflexivity).
  - destruct (f_ty f) eqn:ET.
    + apply (cf_rep_leaf _ f packed None []); [exact EC|rewrite ET; exact Logic.I|right; auto|constructor].
    + apply (cf_rep_leaf _ f packed None []); [exact EC|rewrite ET; exact Logic.I|right; auto|constructor].
    + apply (cf_rep_msg _ f packed m None []); [exact EC|exact ET|right; auto|constructor].
  - apply (cf_map _ f k0 None [] []); [exact EC|right; auto|constructor|constructor].
Qed.

Lemma entry_conf kk t kv : entry_typed sch ext kk t kv = true -> (depth (snd kv) <= k)%nat ->
  conf_entry (conforming sch) kk t kv (PLen (enc_records (enc_entry (enc_msg sch) kk t kv))).
Proof.
  intros T D. pose proof (enc_entry_wf sch ext kk t kv T) as W.
  unfold entry_typed in T. rewrite !andb_true_iff in T. destruct T as [[Tk Tv] _].
  apply (conf_entry_intro _ kk t kv _ (enc_entry (enc_msg sch) kk t kv)).
  - apply records_roundtrip. exact W.
  - unfold enc_entry. rewrite payloads_app.
    destruct (entry_leaf_conf (TS kk) 1 (fst kv) Tk) as [C _].
    rewrite (payloads_none 1 (match t with TM m' => _ | _ => _ end)); [rewrite app_nil_r; exact C|].
    intros r Hr. destruct t as [s|e|m'].
    + unfold enc_entry_leaf in Hr. destruct (is_default (snd kv)); [destruct Hr|].
      destruct (enc_leaf (TS s) (snd kv)); [destruct Hr as [<-|[]]; discriminate|destruct Hr].
    + unfold enc_entry_leaf in Hr. destruct (is_default (snd kv)); [destruct Hr|].
      destruct (enc_leaf (TE e) (snd kv)); [destruct Hr as [<-|[]]; discriminate|destruct Hr].
    + destruct (enc_msg sch m' (snd kv)); [destruct Hr|destruct Hr as [<-|[]]; discriminate].
  - unfold enc_entry. rewrite payloads_app.
    destruct (entry_leaf_conf (TS kk) 1 (fst kv) Tk) as [_ C0]. rewrite (C0 2) by discriminate.
    cbn [app]. destruct t as [s|e|m'].
    + apply cev_leaf; [exact Logic.I|]. apply (entry_leaf_conf (TS s) 2 (snd kv) Tv).
    + apply cev_leaf; [exact Logic.I|]. apply (entry_leaf_conf (TE e) 2 (snd kv) Tv).
    + apply andb_true_iff in Tv. destruct Tv as [Tv _].
      pose proof (IH m' (snd kv) Tv D) as C. pose proof (parse_enc_msg m' (snd kv) Tv) as P.
      destruct (enc_msg sch m' (snd kv)) as [|r0 rs0] eqn:E.
      * apply (cev_msg _ _ _ _ m' []); [reflexivity|constructor|exact C].
      * rewrite payloads_cons_same. apply (cev_msg _ _ _ _ m' (r0 :: rs0)); [reflexivity| |exact C].
        apply chunks_one. exact P.
Qed.

Lemma field_conf desc n x f :
  lookup_field desc n = Some f -> field_ok sch f = true -> (depth x <= k)%nat ->
  typed_field sch ext (typedb sch ext) desc (n, x) = true ->
  conf_field (conforming sch) f (Some x) (map snd (enc_field (enc_msg sch) desc (n, x))).
Proof.
  intros L FO D T.
  assert (PK : f_card f = CRepeated true -> packable (f_ty f) = true).
  { intro EC. unfold field_ok in FO. rewrite EC in FO. rewrite !andb_true_iff in FO.
    destruct FO as [_ FO]. exact FO. }
  assert (SL : singular (f_card f) = true -> is_leaf_ty (f_ty f) -> leaf_ok (f_ty f) x = true ->
             conf_field (conforming sch) f (Some x)
               (map snd (if is_implicit (f_card f) && is_default x then [] else enc_unpacked n (f_ty f) x))).
  { intros S Lf Hl. destruct (is_implicit (f_card f) && is_default x) eqn:C.
    - apply andb_true_iff in C. destruct C as [C1 C2].
      apply cf_implicit_omitted; auto. destruct (f_card f); try discriminate C1; reflexivity.
    - destruct (leaf_rt _ _ Hl) as (p & He & _). unfold enc_unpacked. rewrite He. cbn [map snd].
      apply cf_leaf; auto. apply conf_last_one. split; assumption. }
  assert (SM : forall m', singular (f_card f) = true -> f_ty f = TM m' ->
             typedb sch ext m' x && len_ok (enc_msg sch m' x) = true ->
             conf_field (conforming sch) f (Some x) (map snd [(n, PLen (enc_records (enc_msg sch m' x)))])).
  { intros m' S ET Tx. apply andb_true_iff in Tx. destruct Tx as [Tx _]. cbn [map snd].
    apply (cf_msg _ f m' x _ (enc_msg sch m' x) S ET); [discriminate| |apply IH; assumption].
    apply chunks_one. apply parse_enc_msg. exact Tx. }
  unfold typed_field in T. unfold enc_field. rewrite L in *.
  destruct (f_card f) eqn:EC.
  - destruct (f_ty f) eqn:ET.
    + assert (Hl : leaf_ok (TS s) x = true) by (destruct x; exact T).
      specialize (SL eq_refl Logic.I Hl). destruct x; exact SL.
    + assert (Hl : leaf_ok (TE e) x = true) by (destruct x; exact T).
      specialize (SL eq_refl Logic.I Hl). destruct x; exact SL.
    + assert (Tx : typedb sch ext m x && len_ok (enc_msg sch m x) = true) by (destruct x; exact T).
      specialize (SM m eq_refl eq_refl Tx). destruct x; exact SM.
  - destruct (f_ty f) eqn:ET.
    + assert (Hl : leaf_ok (TS s) x = true) by (destruct x; exact T).
      specialize (SL eq_refl Logic.I Hl). destruct x; exact SL.
    + assert (Hl : leaf_ok (TE e) x = true) by (destruct x; exact T).
      specialize (SL eq_refl Logic.I Hl). destruct x; exact SL.
    + assert (Tx : typedb sch ext m x && len_ok (enc_msg sch m x) = true) by (destruct x; exact T).
      specialize (SM m eq_refl eq_refl Tx). destruct x; exact SM.
  - destruct x; try discriminate T. apply depth_list_le in D.
    assert (RL : is_leaf_ty (f_ty f) -> forallb (leaf_ok (f_ty f)) vs = true ->
               conf_field (conforming sch) f (Some (VList vs))
                 (map snd (match vs with
                           | [] => []
                           | _ => if packed then [(n, PLen (flat_map (enc_packed_elem (f_ty f)) vs))]
                                  else flat_map (enc_unpacked n (f_ty f)) vs end))).
    { intros Lf T1. destruct vs as [|v0 vs0].
      - apply (cf_rep_leaf _ f packed _ []); [exact EC|exact Lf|left; reflexivity|constructor].
      - destruct packed.
        + apply (cf_rep_leaf _ f true _ [v0 :: vs0]); [exact EC|exact Lf| |].
          * left. cbn [List.concat]. now rewrite app_nil_r.
          * cbn [map snd]. constructor; [|constructor]. apply run_packed; [apply PK; reflexivity|exact T1].
        + apply (cf_rep_leaf _ f false _ (map (fun e => [e]) (v0 :: vs0))); [exact EC|exact Lf| |].
          * left. now rewrite concat_singletons.
          * apply unpacked_runs. exact T1. }
    destruct (f_ty f) eqn:ET.
    + apply andb_true_iff in T. destruct T as [T1 _]. apply (RL Logic.I T1).
    + apply andb_true_iff in T. destruct T as [T1 _]. apply (RL Logic.I T1).
    + apply (cf_rep_msg _ f packed m _ vs _ EC ET); [left; reflexivity|].
      clear RL SL SM. revert D T. induction vs as [|v vs IHvs]; intros D T; cbn [map]; [constructor|].
      cbn [forallb] in T. apply andb_true_iff in T. destruct T as [Tv Tr].
      apply andb_true_iff in Tv. destruct Tv as [Tv _]. inversion D as [|? ? Dv Dr]; subst.
      constructor; [|apply IHvs; assumption]. cbn [snd].
      apply (conf_elem_intro _ m v _ (enc_msg sch m v)); [apply parse_enc_msg; exact Tv|apply IH; assumption].
  - destruct x; try discriminate T. apply depth_map_le in D.
    apply andb_true_iff in T. destruct T as [_ T].
    assert (T' : forallb (entry_typed sch ext k0 (f_ty f)) kvs = true).
    { apply forallb_forall. intros kv Hkv. rewrite forallb_forall in T. specialize (T kv Hkv).
      unfold entry_typed. destruct (f_ty f); exact T. }
    apply (cf_map _ f k0 _ kvs kvs _ EC); [left; reflexivity|apply Permutation_refl|].
    clear T SL SM. revert D T'. induction kvs as [|kv kvs IHkvs]; intros D T'; cbn [map]; [constructor|].
    cbn [forallb] in T'. apply andb_true_iff in T'. destruct T' as [Tv Tr].
    inversion D as [|? ? Dv Dr]; subst.
    constructor; [|apply IHkvs; assumption]. cbn [snd]. apply entry_conf; assumption.
  - destruct (f_ty f) eqn:ET.
    + assert (Hl : leaf_ok (TS s) x = true) by (destruct x; exact T).
      specialize (SL eq_refl Logic.I Hl). destruct x; exact SL.
    + assert (Hl : leaf_ok (TE e) x = true) by (destruct x; exact T).
      specialize (SL eq_refl Logic.I Hl). destruct x; exact SL.
    + assert (Tx : typedb sch ext m x && len_ok (enc_msg sch m x) = true) by (destruct x; exact T).
      specialize (SM m eq_refl eq_refl Tx). destruct x; exact SM.
Qed.
End OneField.

Lemma encode_conforming_depth : forall k m v,
  typedb sch ext m v = true -> (depth v <= k)%nat -> conforming sch m v (enc_msg sch m v).
Proof.
  induction k as [|k IHk]; intros m v T D.
  - destruct v; cbn [typedb] in T; try discriminate T. cbn [depth] in D. lia.
  - destruct v; cbn [typedb] in T; try discriminate T. cbn [enc_msg].
    destruct (lookup_msg sch m) as [desc|] eqn:LM; [|discriminate T].
    rewrite !andb_true_iff in T. destruct T as [[T1 T2] T3].
    destruct (wf_msg_ok sch m desc WF LM) as [FO _].
    assert (ND : NoDup (keys fs)) by (apply (nodupb_NoDup N.eqb); [apply N.eqb_refl|exact T1]).
    pose proof (depth_fields_le fs k D) as DF. rewrite Forall_forall in DF.
    rewrite forallb_forall in T3, FO.
    apply (conforming_intro sch m desc fs _ LM). intros n f L.
    rewrite (payloads_enc_fields _ _ _ _ ND).
    destruct (fget fs n) as [x|] eqn:G; [|apply absent_conf].
    apply fget_In in G.
    apply (field_conf k IHk desc n x f L); [|apply (DF _ G)|apply T3; exact G].
    apply FO. apply lookup_field_In in L. tauto.
Qed.
End EncConf.

Theorem encode_conforming sch : wf_schema sch = true ->
  forall m v, typedb sch true m v = true -> conforming_bytes sch m v (encode sch m v).
Proof.
  intros WF m v T. exists (enc_msg sch m v). split.
  - apply (parse_enc_msg sch true WF m v T).
  - apply (encode_conforming_depth sch true WF (depth v) m v T). lia.
Qed.

Corollary codec_decode_any_encoding_vs_model sch : wf_schema sch = true ->
  forall m v bytes fuel,
  typedb sch true m v = true -> conforming_bytes sch m v bytes -> (depth v <= fuel)%nat ->
  exists w w0, decode sch fuel m bytes = Some w /\
               decode sch fuel m (encode sch m v) = Some w0 /\ veq w w0.
Proof.
  intros WF m v bytes fuel T C D.
  destruct (codec_decode_any_encoding sch m v bytes fuel T C D) as (w & E & Q).
  exists w, (norm sch m v). split; [exact E|]. split; [|exact Q].
  apply (codec_roundtrip_any_fuel sch WF m v fuel T D).
Qed.


(* ================================================================== sorting forgets the order *)
Section ISort.
Variables (A K : Type) (key : A -> K) (le : A -> A -> bool) (P : A -> Prop).
Hypothesis le_total : forall x y, P x -> P y -> le x y = true \/ le y x = true.
Hypothesis le_trans : forall x y z, P x -> P y -> P z -> le x y = true -> le y z = true -> le x z = true.
Hypothesis le_anti : forall x y, P x -> P y -> le x y = true -> le y x = true -> key x = key y.

Fixpoint ins (x : A) (l : list A) : list A :=
  match l with
  | [] => [x]
  | y :: r => if le x y then x :: l else y :: ins x r
  end.
Definition isort (l : list A) : list A := fold_right ins [] l.

Lemma ins_perm x l : Permutation (ins x l) (x :: l).
Proof.
  induction l as [|y r IH]; cbn [ins]; [apply Permutation_refl|].
  destruct (le x y); [apply Permutation_refl|].
  eapply Permutation_trans; [apply perm_skip; exact IH|apply perm_swap].
Qed.
Lemma isort_perm0 l : Permutation (isort l) l.
Proof.
  induction l as [|x l IH]; cbn [isort fold_right]; [constructor|].
  eapply Permutation_trans; [apply ins_perm|]. apply perm_skip. exact IH.
Qed.

Lemma ins_comm x y : P x -> P y -> key x <> key y ->
  forall l, Forall P l -> ins x (ins y l) = ins y (ins x l).
Proof.
  intros Px Py D.
  assert (XY : (le x y = true /\ le y x = false) \/ (le x y = false /\ le y x = true)).
  { destruct (le x y) eqn:E1, (le y x) eqn:E2; auto.
    - exfalso. apply D. apply le_anti; assumption.
    - destruct (le_total x y Px Py); congruence. }
  induction 1 as [|z l Pz Pl IH]; cbn [ins].
  - destruct XY as [[-> ->]|[-> ->]]; reflexivity.
  - destruct (le y z) eqn:Eyz, (le x z) eqn:Exz; cbn [ins]; rewrite ?Eyz, ?Exz.
    + destruct XY as [[-> ->]|[-> ->]]; reflexivity.
    + destruct XY as [[E1 E2]|[E1 E2]]; rewrite E1.
      * rewrite (le_trans x y z Px Py Pz E1 Eyz) in Exz. discriminate.
      * reflexivity.
    + destruct XY as [[E1 E2]|[E1 E2]]; rewrite E2.
      * reflexivity.
      * rewrite (le_trans y x z Py Px Pz E2 Exz) in Eyz. discriminate.
    + rewrite IH. reflexivity.
Qed.

Lemma isort_perm l l' : Permutation l l' -> Forall P l -> NoDup (map key l) -> isort l = isort l'.
Proof.
  induction 1 as [|x l l' H IH|x y l|l l' l'' H1 IH1 H2 IH2]; intros FP ND.
  - reflexivity.
  - cbn [isort fold_right]. fold (isort l) (isort l'). rewrite IH; [reflexivity| |].
    + inversion FP; assumption.
    + cbn [map] in ND. inversion ND; assumption.
  - cbn [isort fold_right]. fold (isort l).
    inversion FP as [|? ? Py FP']; subst. inversion FP' as [|? ? Px FP'']; subst.
    cbn [map] in ND. inversion ND as [|? ? N1 N2]; subst.
    apply ins_comm; auto.
    + intro E. apply N1. left. symmetry. exact E.
    + eapply Permutation_Forall; [apply Permutation_sym, isort_perm0|exact FP''].
  - rewrite IH1 by assumption. apply IH2.
    + eapply Permutation_Forall; eassumption.
    + eapply Permutation_NoDup; [apply Permutation_map; exact H1|exact ND].
Qed.
End ISort.

(* ---- the two instances used by [canon] *)
Definition le_field (x y : N * value) : bool := fst x <=? fst y.
Definition le_entry (x y : value * value) : bool := key_leb (fst x) (fst y).

Lemma insert_field_ins x l : insert_field x l = ins _ le_field x l.
Proof. induction l as [|y r IH]; cbn [insert_field ins]; [reflexivity|]. unfold le_field at 1. now rewrite IH. Qed.
Lemma insert_entry_ins x l : insert_entry x l = ins _ le_entry x l.
Proof. induction l as [|y r IH]; cbn [insert_entry ins]; [reflexivity|]. unfold le_entry at 1. now rewrite IH. Qed.
Lemma sort_fields_isort l : fold_right insert_field [] l = isort _ le_field l.
Proof. induction l as [|x l IH]; cbn [fold_right isort]; [reflexivity|]. fold (isort _ le_field l). now rewrite IH, insert_field_ins. Qed.
Lemma sort_entries_isort l : fold_right insert_entry [] l = isort _ le_entry l.
Proof. induction l as [|x l IH]; cbn [fold_right isort]; [reflexivity|]. fold (isort _ le_entry l). now rewrite IH, insert_entry_ins. Qed.

Lemma sort_fields_perm l l' : Permutation l l' -> NoDup (map fst l) ->
  fold_right insert_field [] l = fold_right insert_field [] l'.
Proof.
  intros PM ND. rewrite !sort_fields_isort.
  apply (isort_perm _ _ fst le_field (fun _ => True)); [| | |exact PM| |exact ND].
  - intros x y _ _. unfold le_field. destruct (N.leb_spec (fst x) (fst y)); [auto|].
    right. apply N.leb_le. lia.
  - intros x y z _ _ _. unfold le_field. rewrite !N.leb_le. lia.
  - intros x y _ _. unfold le_field. rewrite !N.leb_le. lia.
  - apply Forall_forall. auto.
Qed.

(* keys of one kind are totally ordered by [key_leb] *)
Definition ktag_of (v : value) : N :=
  match v with VU64 _ => 1 | VI64 _ => 2 | VBool _ => 3 | VStr _ => 4 | VEnum _ => 5 | _ => 0 end.

Lemma bytes_leb_total a : forall b, bytes_leb a b = true \/ bytes_leb b a = true.
Proof.
  induction a as [|x r IH]; intros [|y s]; cbn [bytes_leb]; auto.
  destruct (N.ltb_spec x y), (N.ltb_spec y x); auto; try lia.
Qed.
Lemma bytes_leb_anti a : forall b, bytes_leb a b = true -> bytes_leb b a = true -> a = b.
Proof.
  induction a as [|x r IH]; intros [|y s]; cbn [bytes_leb]; auto; try discriminate.
  destruct (N.ltb_spec x y), (N.ltb_spec y x); try discriminate; try lia.
  intros H1 H2. assert (x = y) by lia. subst. f_equal. apply IH; assumption.
Qed.
Lemma bytes_leb_trans a : forall b c, bytes_leb a b = true -> bytes_leb b c = true -> bytes_leb a c = true.
Proof.
  induction a as [|x r IH]; intros [|y s] [|z u]; cbn [bytes_leb]; auto; try discriminate.
  destruct (N.ltb_spec x y), (N.ltb_spec y x), (N.ltb_spec y z), (N.ltb_spec z y),
           (N.ltb_spec x z), (N.ltb_spec z x); try discriminate; try lia; auto.
  apply IH.
Qed.

Lemma sort_entries_perm c l l' : c <> 0 -> Permutation l l' ->
  Forall (fun kv : value * value => ktag_of (fst kv) = c) l -> NoDup (map fst l) ->
  fold_right insert_entry [] l = fold_right insert_entry [] l'.
Proof.
  intros C PM FT ND. rewrite !sort_entries_isort.
  apply (isort_perm _ _ fst le_entry (fun kv => ktag_of (fst kv) = c)); [| | |exact PM|exact FT|exact ND].
  - intros [x vx] [y vy]. unfold le_entry. cbn [fst]. intros Hx Hy.
    destruct x, y; cbn [ktag_of] in Hx, Hy; try congruence; cbn [key_leb].
    + destruct (N.leb_spec n n0); [auto|]. right. apply N.leb_le. lia.
    + destruct (Z.leb_spec z z0); [auto|]. right. apply Z.leb_le. lia.
    + destruct b, b0; auto.
    + apply bytes_leb_total.
    + destruct (Z.leb_spec z z0); [auto|]. right. apply Z.leb_le. lia.
  - intros [x vx] [y vy] [z vz]. unfold le_entry. cbn [fst]. intros Hx Hy Hz.
    destruct x, y, z; cbn [ktag_of] in Hx, Hy, Hz; try congruence; cbn [key_leb].
    + rewrite !N.leb_le. lia.
    + rewrite !Z.leb_le. lia.
    + destruct b, b0, b1; auto.
    + apply bytes_leb_trans.
    + rewrite !Z.leb_le. lia.
  - intros [x vx] [y vy]. unfold le_entry. cbn [fst]. intros Hx Hy.
    destruct x, y; cbn [ktag_of] in Hx, Hy; try congruence; cbn [key_leb].
    + rewrite !N.leb_le. intros. f_equal. lia.
    + rewrite !Z.leb_le. intros. f_equal. lia.
    + destruct b, b0; auto; discriminate.
    + intros H1 H2. f_equal. apply bytes_leb_anti; assumption.
    + rewrite !Z.leb_le. intros. f_equal. lia.
Qed.

(* ================================================================== [veq] values have the same canonical form *)
Definition is_leaf_value (v : value) : Prop :=
  match v with VMsg _ | VList _ | VMap _ => False | _ => True end.

(* well keyed: field numbers are distinct, the keys of a map are distinct and of one kind *)
Inductive wk : value -> Prop :=
| wk_leaf v : is_leaf_value v -> wk v
| wk_msg fs : NoDup (map fst fs) -> Forall (fun nv : N * value => wk (snd nv)) fs -> wk (VMsg fs)
| wk_list vs : Forall wk vs -> wk (VList vs)
| wk_map kvs c : c <> 0 -> Forall (fun kv : value * value => ktag_of (fst kv) = c) kvs ->
    NoDup (map fst kvs) -> Forall (fun kv : value * value => wk (snd kv)) kvs -> wk (VMap kvs).

Lemma map_fst_canon {X} (l : list (X * value)) :
  map fst (map (fun nv : X * value => (fst nv, canon (snd nv))) l) = map fst l.
Proof. rewrite map_map. apply map_ext. reflexivity. Qed.

Theorem veq_canon : forall a b, veq a b -> wk b -> canon a = canon b.
Proof.
  induction a as [n|z|b|n|b|z|fa IHfa|xa IHxa|ka IHka] using value_ind';
    intros b0 V W;
    inversion V as [|fa0 fb0 fb' PM F2|xa0 xb0 F2|ka0 kb0 kb' PM F2]; subst; try reflexivity.
  - (* messages *)
    inversion W as [? L| fs ND FW | |]; subst; [destruct L|].
    cbn [canon]. f_equal.
    assert (FW' : Forall (fun nv : N * value => wk (snd nv)) fb').
    { eapply Permutation_Forall; eassumption. }
    assert (E : map (fun nv : N * value => (fst nv, canon (snd nv))) fa =
                map (fun nv : N * value => (fst nv, canon (snd nv))) fb').
    { clear PM ND V W. revert IHfa FW'. induction F2 as [|x y fa fb [E1 E2] F IH]; intros IHfa FW';
        [reflexivity|]. cbn [map]. inversion IHfa; subst. inversion FW'; subst.
      f_equal; [|apply IH; assumption]. rewrite E1. f_equal. auto. }
    rewrite E. symmetry. apply sort_fields_perm.
    + apply Permutation_map. exact PM.
    + rewrite map_fst_canon. exact ND.
  - (* lists *)
    inversion W as [? L| |vs FW|]; subst; [destruct L|]. cbn [canon]. f_equal.
    clear V W. revert IHxa FW. induction F2 as [|x y xa xb E F IH]; intros IHxa FW; [reflexivity|].
    cbn [map]. inversion IHxa; subst. inversion FW; subst. f_equal; auto.
  - (* maps *)
    inversion W as [? L| | |kvs c C FT ND FW]; subst; [destruct L|].
    cbn [canon]. f_equal.
    assert (FW' : Forall (fun kv : value * value => wk (snd kv)) kb').
    { eapply Permutation_Forall; eassumption. }
    assert (E : map (fun kv : value * value => (fst kv, canon (snd kv))) ka =
                map (fun kv : value * value => (fst kv, canon (snd kv))) kb').
    { clear PM ND V W FT. revert IHka FW'. induction F2 as [|x y ka kb [E1 E2] F IH]; intros IHka FW';
        [reflexivity|]. cbn [map]. inversion IHka as [|? ? [_ Hx] Hr]; subst. inversion FW'; subst.
      f_equal; [|apply IH; assumption]. rewrite E1. f_equal. auto. }
    rewrite E. symmetry. apply (sort_entries_perm c); [exact C| | |].
    + apply Permutation_map. exact PM.
    + apply Forall_forall. intros kv Hkv. apply in_map_iff in Hkv. destruct Hkv as (kv0 & <- & Hkv0).
      cbn [fst]. rewrite Forall_forall in FT. apply FT. exact Hkv0.
    + rewrite map_fst_canon. exact ND.
Qed.

(* ================================================================== the normal form of a typed value is well keyed *)
Lemma leaf_ok_leaf t x : leaf_ok t x = true -> is_leaf_value x.
Proof. destruct t as [s|e|m]; [destruct s| |]; destruct x; cbn; intro H; try discriminate H; exact Logic.I. Qed.

Definition stag (kk : scalar) : N :=
  match kk with SUInt64 => 1 | SInt64 => 2 | SBool => 3 | SString => 4 | _ => 0 end.
Lemma key_tag kk key : map_key_ok kk = true -> leaf_ok (TS kk) key = true ->
  ktag_of key = stag kk /\ stag kk <> 0.
Proof.
  destruct kk; destruct key; cbn; intros H1 H2; try discriminate H1; try discriminate H2;
    (split; [reflexivity|discriminate]).
Qed.

Lemma list_eqb_refl {X} (e : X -> X -> bool) : (forall x, e x x = true) -> forall l, list_eqb e l l = true.
Proof. intros H l. induction l as [|x l IH]; cbn; [reflexivity|]. now rewrite H, IH. Qed.
Lemma key_eqb_refl key : ktag_of key <> 0 -> key_eqb key key = true.
Proof.
  destruct key; cbn; intro H; try congruence.
  - apply N.eqb_refl.
  - apply Z.eqb_refl.
  - destruct b; reflexivity.
  - apply list_eqb_refl. apply N.eqb_refl.
  - apply Z.eqb_refl.
Qed.
Lemma nodupb_NoDup_on {X} (e : X -> X -> bool) (l : list X) :
  (forall x, In x l -> e x x = true) -> nodupb e l = true -> NoDup l.
Proof.
  induction l as [|x r IH]; cbn [nodupb]; intros Hr H; [constructor|].
  apply andb_true_iff in H. destruct H as [H1 H2]. constructor.
  - intro Hin. apply negb_true_iff in H1.
    assert (existsb (e x) r = true).
    { apply existsb_exists. exists x. split; [exact Hin|apply Hr; left; reflexivity]. }
    congruence.
  - apply IH; [|exact H2]. intros y Hy. apply Hr. right. exact Hy.
Qed.

Section NormWk.
Variable sch : schema.
Variable ext : bool.
Hypothesis WF : wf_schema sch = true.

Lemma norm_field_wk k desc n x f :
  (forall m' y, typedb sch ext m' y = true -> (depth y <= k)%nat -> wk (norm sch m' y)) ->
  lookup_field desc n = Some f -> field_ok sch f = true -> (depth x <= k)%nat ->
  typed_field sch ext (typedb sch ext) desc (n, x) = true ->
  Forall (fun nv : N * value => wk (snd nv)) (norm_field (norm sch) desc (n, x)).
Proof.
  intros IH L FO D T.
  assert (SL : is_leaf_ty (f_ty f) -> leaf_ok (f_ty f) x = true ->
             Forall (fun nv : N * value => wk (snd nv))
               (if is_implicit (f_card f) && is_default x then [] else [(n, x)])).
  { intros _ Hl. destruct (is_implicit (f_card f) && is_default x); constructor; [|constructor].
    apply wk_leaf. apply (leaf_ok_leaf _ _ Hl). }
  assert (SM : forall m', typedb sch ext m' x && len_ok (enc_msg sch m' x) = true ->
             Forall (fun nv : N * value => wk (snd nv)) [(n, norm sch m' x)]).
  { intros m' Tx. apply andb_true_iff in Tx. destruct Tx as [Tx _].
    constructor; [|constructor]. apply IH; assumption. }
  unfold typed_field in T. unfold norm_field. rewrite L in *.
  destruct (f_card f) eqn:EC.
  - destruct (f_ty f) eqn:ET.
    + assert (Hl : leaf_ok (TS s) x = true) by (destruct x; exact T).
      specialize (SL Logic.I Hl). destruct x; exact SL.
    + assert (Hl : leaf_ok (TE e) x = true) by (destruct x; exact T).
      specialize (SL Logic.I Hl). destruct x; exact SL.
    + assert (Tx : typedb sch ext m x && len_ok (enc_msg sch m x) = true) by (destruct x; exact T).
      specialize (SM m Tx). destruct x; exact SM.
  - destruct (f_ty f) eqn:ET.
    + assert (Hl : leaf_ok (TS s) x = true) by (destruct x; exact T).
      specialize (SL Logic.I Hl). destruct x; exact SL.
    + assert (Hl : leaf_ok (TE e) x = true) by (destruct x; exact T).
      specialize (SL Logic.I Hl). destruct x; exact SL.
    + assert (Tx : typedb sch ext m x && len_ok (enc_msg sch m x) = true) by (destruct x; exact T).
      specialize (SM m Tx). destruct x; exact SM.
  - destruct x; try discriminate T. apply depth_list_le in D. clear SL SM.
    destruct vs as [|v0 vs0]; [constructor|]. constructor; [|constructor]. cbn [snd]. apply wk_list.
    remember (v0 :: vs0) as vs. clear Heqvs v0 vs0.
    assert (RL : forall t, forallb (leaf_ok t) vs = true -> Forall wk vs).
    { intros t H. apply Forall_forall. intros e He. rewrite forallb_forall in H.
      apply wk_leaf. apply (leaf_ok_leaf t). apply H. exact He. }
    destruct (f_ty f) eqn:ET.
    + apply andb_true_iff in T. destruct T as [T1 _]. apply (RL _ T1).
    + apply andb_true_iff in T. destruct T as [T1 _]. apply (RL _ T1).
    + apply Forall_forall. intros y Hy. apply in_map_iff in Hy. destruct Hy as (e & <- & He).
      rewrite forallb_forall in T. specialize (T e He). apply andb_true_iff in T. destruct T as [Te _].
      rewrite Forall_forall in D. apply IH; [exact Te|apply D; exact He].
  - destruct x; try discriminate T. apply depth_map_le in D. clear SL SM.
    apply andb_true_iff in T. destruct T as [ND T].
    destruct kvs as [|kv0 kvs0]; [constructor|]. constructor; [|constructor]. cbn [snd].
    assert (NE : In kv0 (kv0 :: kvs0)) by (left; reflexivity).
    remember (kv0 :: kvs0) as kvs. clear Heqkvs kvs0.
    assert (MK : map_key_ok k0 = true).
    { unfold field_ok in FO. rewrite EC in FO. rewrite !andb_true_iff in FO. destruct FO as [_ FO].
      destruct (f_ty f); exact FO. }
    rewrite forallb_forall in T.
    assert (KT : forall kv, In kv kvs -> ktag_of (fst kv) = stag k0 /\ stag k0 <> 0).
    { intros kv Hkv. specialize (T kv Hkv). rewrite !andb_true_iff in T. destruct T as [[Tk _] _].
      apply (key_tag k0 (fst kv) MK Tk). }
    assert (NDK : NoDup (map fst kvs)).
    { apply (nodupb_NoDup_on key_eqb); [|exact ND]. intros key Hk. apply in_map_iff in Hk.
      destruct Hk as (kv & <- & Hkv). apply key_eqb_refl. destruct (KT kv Hkv) as [E1 E2]. congruence. }
    pose proof (proj2 (KT kv0 NE)) as C0.
    assert (FT : Forall (fun kv : value * value => ktag_of (fst kv) = stag k0) kvs).
    { apply Forall_forall. intros kv Hkv. apply (KT kv Hkv). }
    assert (VL : forall t, is_leaf_ty t ->
              (forall kv, In kv kvs -> leaf_ok t (snd kv) = true) -> wk (VMap kvs)).
    { intros t _ H. apply (wk_map kvs (stag k0) C0 FT NDK). apply Forall_forall. intros kv Hkv.
      apply wk_leaf. apply (leaf_ok_leaf t). apply H. exact Hkv. }
    destruct (f_ty f) eqn:ET.
    + apply (VL (TS s) Logic.I). intros kv Hkv. specialize (T kv Hkv). rewrite !andb_true_iff in T. tauto.
    + apply (VL (TE e) Logic.I). intros kv Hkv. specialize (T kv Hkv). rewrite !andb_true_iff in T. tauto.
    + apply (wk_map _ (stag k0) C0).
      * apply Forall_forall. intros y Hy. apply in_map_iff in Hy. destruct Hy as (kv & <- & Hkv).
        cbn [fst]. apply (KT kv Hkv).
      * rewrite map_map. cbn [fst]. exact NDK.
      * apply Forall_forall. intros y Hy. apply in_map_iff in Hy. destruct Hy as (kv & <- & Hkv).
        cbn [snd]. specialize (T kv Hkv). rewrite !andb_true_iff in T. destruct T as [[_ [Tv _]] _].
        rewrite Forall_forall in D. apply IH; [exact Tv|apply D; exact Hkv].
  - destruct (f_ty f) eqn:ET.
    + assert (Hl : leaf_ok (TS s) x = true) by (destruct x; exact T).
      specialize (SL Logic.I Hl). destruct x; exact SL.
    + assert (Hl : leaf_ok (TE e) x = true) by (destruct x; exact T).
      specialize (SL Logic.I Hl). destruct x; exact SL.
    + assert (Tx : typedb sch ext m x && len_ok (enc_msg sch m x) = true) by (destruct x; exact T).
      specialize (SM m Tx). destruct x; exact SM.
Qed.

Lemma norm_wk : forall k m v, typedb sch ext m v = true -> (depth v <= k)%nat -> wk (norm sch m v).
Proof.
  induction k as [|k IHk]; intros m v T D.
  - destruct v; cbn [typedb] in T; try discriminate T. cbn [depth] in D. lia.
  - destruct v; cbn [typedb] in T; try discriminate T. cbn [norm].
    destruct (lookup_msg sch m) as [desc|] eqn:LM; [|discriminate T].
    rewrite !andb_true_iff in T. destruct T as [[T1 T2] T3].
    destruct (wf_msg_ok sch m desc WF LM) as [FO _].
    assert (ND : NoDup (keys fs)) by (apply (nodupb_NoDup N.eqb); [apply N.eqb_refl|exact T1]).
    pose proof (depth_fields_le fs k D) as DF. rewrite Forall_forall in DF.
    rewrite forallb_forall in T3, FO.
    apply wk_msg; [apply (nodup_flat_norm _ _ _ ND)|].
    apply Forall_flat_map. intros [n x] Hin.
    destruct (lookup_field desc n) as [f|] eqn:L.
    + apply (norm_field_wk k desc n x f (fun m' y Ty Dy => IHk m' y Ty Dy) L);
        [|apply (DF _ Hin)|apply T3; exact Hin].
      apply FO. apply lookup_field_In in L. tauto.
    + unfold norm_field. rewrite L. constructor.
Qed.
End NormWk.

(* ================================================================== the theorem, with Leibniz equality of canonical forms *)
Theorem codec_decode_any_encoding_canon sch : wf_schema sch = true ->
  forall m v bytes fuel,
  typedb sch true m v = true -> conforming_bytes sch m v bytes -> (depth v <= fuel)%nat ->
  exists w, decode sch fuel m bytes = Some w /\ canon w = canon (norm sch m v).
Proof.
  intros WF m v bytes fuel T C D.
  destruct (codec_decode_any_encoding sch m v bytes fuel T C D) as (w & E & Q).
  exists w. split; [exact E|]. apply (veq_canon w _ Q).
  apply (norm_wk sch true WF (depth v) m v T). lia.
Qed.

Lemma value_eqb_refl : forall a, value_eqb a a = true.
Proof.
  induction a as [n|z|b|n|b|z|fs IHfs|vs IHvs|kvs IHkvs] using value_ind'; cbn [value_eqb].
  - apply N.eqb_refl.
  - apply Z.eqb_refl.
  - destruct b; reflexivity.
  - apply N.eqb_refl.
  - apply list_eqb_refl. apply N.eqb_refl.
  - apply Z.eqb_refl.
  - induction IHfs as [|[n x] r Hx Hr IH]; [reflexivity|]. cbn [fst snd] in *.
    rewrite N.eqb_refl, Hx, IH. reflexivity.
  - induction IHvs as [|x r Hx Hr IH]; [reflexivity|]. rewrite Hx, IH. reflexivity.
  - induction IHkvs as [|[k x] r [Hk Hx] Hr IH]; [reflexivity|]. cbn [fst snd] in *.
    rewrite Hk, Hx, IH. reflexivity.
Qed.

(* the comparator of the correspondence check ([CodecEq.same_content]) accepts the result, against
   the normal form and against what the decoder makes of the model encoder's own bytes *)
Corollary codec_decode_any_encoding_same_content sch : wf_schema sch = true ->
  forall m v bytes fuel,
  typedb sch true m v = true -> conforming_bytes sch m v bytes -> (depth v <= fuel)%nat ->
  exists w w0, decode sch fuel m bytes = Some w /\
               decode sch fuel m (encode sch m v) = Some w0 /\
               same_content w w0 = true /\ canon w = canon w0.
Proof.
  intros WF m v bytes fuel T C D.
  destruct (codec_decode_any_encoding_canon sch WF m v bytes fuel T C D) as (w & E & Q).
  exists w, (norm sch m v). split; [exact E|]. split; [apply (codec_roundtrip_any_fuel sch WF m v fuel T D)|].
  split; [|exact Q]. unfold same_content. rewrite Q. apply value_eqb_refl.
Qed.

(* ================================================================== examples, one per liberty *)
Open Scope string_scope.
Open Scope list_scope.
Open Scope N_scope.

Definition ex_sch : schema := mkS
  [ mkM "inner" [ mkF 1 "a" (TS SUInt64) CImplicit; mkF 2 "s" (TS SString) COptional ];
    mkM "outer" [ mkF 1 "id" (TS SUInt64) CImplicit;
                  mkF 2 "xs" (TS SUInt64) (CRepeated true);
                  mkF 3 "sub" (TM "inner") COptional;
                  mkF 4 "tbl" (TM "inner") (CMap SUInt64);
                  mkF 5 "flag" (TS SBool) (COneof "which");
                  mkF 6 "name" (TS SString) (COneof "which");
                  mkF 7 "subs" (TM "inner") (CRepeated false);
                  mkF 8 "ys" (TS SInt64) (CRepeated false);
                  mkF 9 "cnt" (TS SUInt64) (CMap SString) ] ] [].
Example ex_sch_wf : wf_schema ex_sch = true.
Proof. reflexivity. Qed.

Definition ex_v : value :=
  VMsg [ (1, VU64 7);
         (2, VList [VU64 1; VU64 2; VU64 300]);
         (3, VMsg [(1, VU64 5); (2, VStr [104; 105])]);
         (4, VMap [ (VU64 0, VMsg [(1, VU64 9)]); (VU64 3, VMsg []) ]);
         (6, VStr [111]);
         (8, VList [VI64 (-1); VI64 2]) ].
Example ex_v_typed : typedb ex_sch true "outer" ex_v = true.
Proof. vm_compute. reflexivity. Qed.
Example ex_v_model_encoding :
  enc_msg ex_sch "outer" ex_v =
  [ (1, PVarint 7); (2, PLen [1; 2; 172; 2]); (3, PLen [8; 5; 18; 2; 104; 105]);
    (4, PLen [18; 2; 8; 9]); (4, PLen [8; 3]); (6, PLen [111]);
    (8, PVarint 18446744073709551615); (8, PVarint 2) ].
Proof. vm_compute. reflexivity. Qed.

Ltac solve_c := vm_compute; reflexivity.
Ltac leafenc := split; solve_c.
Ltac solve_chunks := repeat (eapply chunks_cons; [solve_c|]); apply chunks_nil.
Ltac solve_last_n :=
  lazymatch goal with
  | |- conf_last ?t ?x (?p :: nil) => apply conf_last_one; leafenc
  | |- conf_last ?t ?x (?q :: ?ps) =>
      let d := eval vm_compute in (dec_leaf t q) in
      lazymatch d with
      | Some ?y => apply (conf_last_cons t x y q ps); [leafenc|solve_last_n]
      end
  end.
Ltac solve_last :=
  lazymatch goal with |- conf_last ?t ?x ?ps =>
    let x' := eval vm_compute in x in
    let ps' := eval vm_compute in ps in change (conf_last t x' ps'); solve_last_n end.
Ltac solve_dflt :=
  lazymatch goal with |- conf_dflt ?t ?x ?ps =>
    let x' := eval vm_compute in x in
    let ps' := eval vm_compute in ps in change (conf_dflt t x' ps');
    lazymatch ps' with
    | nil => apply conf_dflt_omitted; solve_c
    | _ => apply conf_dflt_explicit; solve_last_n
    end end.
Ltac field_cases L :=
  cbn in L;
  repeat match type of L with
  | (if ?a =? ?n then _ else _) = _ =>
      destruct (N.eqb_spec a n) as [<-|?]; [inversion L; subst; clear L|]
  end; try discriminate L.
Ltac norm_goal :=
  match goal with |- conf_field ?cm ?f ?ox ?ps =>
    let ox' := eval vm_compute in ox in
    let ps' := eval vm_compute in ps in change (conf_field cm f ox' ps') end.
Ltac absent :=
  first [ apply cf_absent; reflexivity
        | eapply (cf_rep_leaf _ _ _ None []); [reflexivity|exact Logic.I|right; split; reflexivity|constructor]
        | eapply (cf_rep_msg _ _ _ _ None []); [reflexivity|reflexivity|right; split; reflexivity|constructor]
        | eapply (cf_map _ _ _ None [] []); [reflexivity|right; split; reflexivity|constructor|constructor] ].
Ltac open_msg := eapply conforming_intro; [reflexivity|]; intros n f L; field_cases L; norm_goal; try absent.
Ltac sing_leaf := apply cf_leaf; [reflexivity|exact Logic.I|solve_last].
Ltac sing_msg := eapply cf_msg; [reflexivity|reflexivity|discriminate|solve_chunks|].

(* (a) any order of the fields, of the entries of a map, of the fields of nested messages;
   the elements of a repeated field interleaved with other fields *)
Definition ex_a : list record :=
  [ (6, PLen [111]);
    (8, PVarint 18446744073709551615);
    (4, PLen [8; 3]);
    (3, PLen (enc_records [(2, PLen [104; 105]); (1, PVarint 5)]));
    (2, PLen [1; 2; 172; 2]);
    (8, PVarint 2);
    (4, PLen (enc_records [(2, PLen [8; 9])]));
    (1, PVarint 7) ].

Ltac ys_unpacked :=
  eapply (cf_rep_leaf _ _ _ _ [[VI64 (-1)]; [VI64 2]]); [reflexivity|exact Logic.I|left; reflexivity|];
  constructor; [apply run_one; leafenc|constructor; [apply run_one; leafenc|constructor]].
Ltac xs_packed :=
  eapply (cf_rep_leaf _ _ _ _ [[VU64 1; VU64 2; VU64 300]]); [reflexivity|exact Logic.I|left; reflexivity|];
  constructor; [|constructor]; apply run_packed_eq; solve_c.
Ltac tbl_model :=
  eapply (cf_map _ _ _ _ _ [ (VU64 0, VMsg [(1, VU64 9)]); (VU64 3, VMsg []) ]);
    [reflexivity|left; reflexivity|apply Permutation_refl|];
  constructor; [|constructor; [|constructor]];
  [ eapply conf_entry_intro; [solve_c|solve_dflt|];
    eapply cev_msg; [reflexivity|solve_chunks|]; open_msg; sing_leaf
  | eapply conf_entry_intro; [solve_c|solve_dflt|];
    eapply cev_msg; [reflexivity|solve_chunks|]; open_msg ].

Example ex_a_conforming : conforming_bytes ex_sch "outer" ex_v (enc_records ex_a).
Proof.
  exists ex_a. split; [solve_c|].
  open_msg.
  - sing_leaf.
  - xs_packed.
  - sing_msg. open_msg; sing_leaf.
  - eapply (cf_map _ _ _ _ _ [ (VU64 3, VMsg []); (VU64 0, VMsg [(1, VU64 9)]) ]);
      [reflexivity|left; reflexivity|apply perm_swap|].
    constructor; [|constructor; [|constructor]].
    + eapply conf_entry_intro; [solve_c| |].
      * solve_dflt.
      * eapply cev_msg; [reflexivity|solve_chunks|]. open_msg.
    + eapply conf_entry_intro; [solve_c| |].
      * solve_dflt.
      * eapply cev_msg; [reflexivity|solve_chunks|]. open_msg. sing_leaf.
  - sing_leaf.
  - ys_unpacked.
Qed.

Example ex_a_decoded :
  decode ex_sch 3 "outer" (enc_records ex_a) =
  Some (VMsg [ (6, VStr [111]);
               (8, VList [VI64 (-1); VI64 2]);
               (4, VMap [ (VU64 3, VMsg []); (VU64 0, VMsg [(1, VU64 9)]) ]);
               (3, VMsg [(2, VStr [104; 105]); (1, VU64 5)]);
               (2, VList [VU64 1; VU64 2; VU64 300]);
               (1, VU64 7) ]).
Proof. vm_compute. reflexivity. Qed.

(* (b) the packed field [xs] given as single elements and several packed runs (one of them empty),
   the unpacked field [ys] given packed *)
Definition ex_b : list record :=
  [ (1, PVarint 7);
    (2, PVarint 1);
    (2, PLen []);
    (3, PLen [8; 5; 18; 2; 104; 105]);
    (2, PLen [2; 172; 2]);
    (4, PLen [18; 2; 8; 9]); (4, PLen [8; 3]); (6, PLen [111]);
    (8, PLen (enc_varint 18446744073709551615 ++ [2])) ].

Example ex_b_conforming : conforming_bytes ex_sch "outer" ex_v (enc_records ex_b).
Proof.
  exists ex_b. split; [solve_c|].
  open_msg.
  - sing_leaf.
  - eapply (cf_rep_leaf _ _ _ _ [[VU64 1]; []; [VU64 2; VU64 300]]);
      [reflexivity|exact Logic.I|left; reflexivity|].
    constructor; [apply run_one; leafenc|].
    constructor; [apply run_packed_eq; solve_c|].
    constructor; [apply run_packed_eq; solve_c|constructor].
  - sing_msg. open_msg; sing_leaf.
  - tbl_model.
  - sing_leaf.
  - eapply (cf_rep_leaf _ _ _ _ [[VI64 (-1); VI64 2]]); [reflexivity|exact Logic.I|left; reflexivity|].
    constructor; [apply run_packed_eq; solve_c|constructor].
Qed.

Example ex_b_decoded :
  decode ex_sch 3 "outer" (enc_records ex_b) = Some (norm ex_sch "outer" ex_v).
Proof. vm_compute. reflexivity. Qed.

(* (c) singular scalars occurring several times (the last one wins), a oneof arm set twice,
   the singular message [sub] given in two pieces that the decoder merges (and whose field [a]
   is itself overridden by the second piece) *)
Definition ex_c : list record :=
  [ (1, PVarint 99);
    (6, PLen [120; 120]);
    (3, PLen (enc_records [(1, PVarint 4)]));
    (2, PLen [1; 2; 172; 2]);
    (1, PVarint 0);
    (3, PLen (enc_records [(2, PLen [104; 105]); (1, PVarint 5)]));
    (4, PLen [18; 2; 8; 9]); (4, PLen [8; 3]);
    (6, PLen [111]);
    (1, PVarint 7);
    (8, PVarint 18446744073709551615); (8, PVarint 2) ].

Example ex_c_conforming : conforming_bytes ex_sch "outer" ex_v (enc_records ex_c).
Proof.
  exists ex_c. split; [solve_c|].
  open_msg.
  - sing_leaf.
  - xs_packed.
  - sing_msg. open_msg; sing_leaf.
  - tbl_model.
  - sing_leaf.
  - ys_unpacked.
Qed.

Example ex_c_decoded :   (* same content as [ex_v]; [id] was removed by the explicit 0 and re-appended *)
  decode ex_sch 3 "outer" (enc_records ex_c) =
  Some (VMsg [ (6, VStr [111]);
               (3, VMsg [(1, VU64 5); (2, VStr [104; 105])]);
               (2, VList [VU64 1; VU64 2; VU64 300]);
               (4, VMap [ (VU64 0, VMsg [(1, VU64 9)]); (VU64 3, VMsg []) ]);
               (1, VU64 7);
               (8, VList [VI64 (-1); VI64 2]) ]).
Proof. vm_compute. reflexivity. Qed.

(* (d) explicit defaults: the implicit field [id] = 0 written out; map entries with an explicit
   default key and an explicit default (empty-message / zero) value, where the model encoder
   (like prost) omits them.  The same bytes conform to the value with [id] absent. *)
Definition ex_vd : value :=
  VMsg [ (1, VU64 0);
         (4, VMap [ (VU64 0, VMsg []) ]);
         (9, VMap [ (VStr [], VU64 0); (VStr [107], VU64 0) ]) ].
Definition ex_vd' : value :=
  VMsg [ (4, VMap [ (VU64 0, VMsg []) ]);
         (9, VMap [ (VStr [], VU64 0); (VStr [107], VU64 0) ]) ].
Example ex_vd_typed : typedb ex_sch true "outer" ex_vd = true /\ typedb ex_sch true "outer" ex_vd' = true.
Proof. split; vm_compute; reflexivity. Qed.
Example ex_vd_model_encoding :
  enc_msg ex_sch "outer" ex_vd = [ (4, PLen []); (9, PLen []); (9, PLen [10; 1; 107]) ].
Proof. vm_compute. reflexivity. Qed.

Definition ex_d : list record :=
  [ (1, PVarint 0);
    (4, PLen (enc_records [(1, PVarint 0); (2, PLen [])]));
    (9, PLen (enc_records [(1, PLen []); (2, PVarint 0)]));
    (9, PLen (enc_records [(2, PVarint 0); (1, PLen [107])])) ].

Example ex_d_conforming :
  conforming_bytes ex_sch "outer" ex_vd (enc_records ex_d) /\
  conforming_bytes ex_sch "outer" ex_vd' (enc_records ex_d).
Proof.
  split; (exists ex_d; split; [solve_c|]); open_msg.
  - sing_leaf.
  - eapply (cf_map _ _ _ _ _ [ (VU64 0, VMsg []) ]); [reflexivity|left; reflexivity|apply Permutation_refl|].
    constructor; [|constructor].
    eapply conf_entry_intro; [solve_c|solve_dflt|].
    eapply cev_msg; [reflexivity|solve_chunks|]. open_msg.
  - eapply (cf_map _ _ _ _ _ [ (VStr [], VU64 0); (VStr [107], VU64 0) ]);
      [reflexivity|left; reflexivity|apply Permutation_refl|].
    constructor; [|constructor; [|constructor]];
      (eapply conf_entry_intro; [solve_c|solve_dflt|];
       apply cev_leaf; [exact Logic.I|solve_dflt]).
  - eapply (cf_implicit_explicit_default _ _ (VU64 0)); [reflexivity|exact Logic.I|reflexivity|solve_last].
  - eapply (cf_map _ _ _ _ _ [ (VU64 0, VMsg []) ]); [reflexivity|left; reflexivity|apply Permutation_refl|].
    constructor; [|constructor].
    eapply conf_entry_intro; [solve_c|solve_dflt|].
    eapply cev_msg; [reflexivity|solve_chunks|]. open_msg.
  - eapply (cf_map _ _ _ _ _ [ (VStr [], VU64 0); (VStr [107], VU64 0) ]);
      [reflexivity|left; reflexivity|apply Permutation_refl|].
    constructor; [|constructor; [|constructor]];
      (eapply conf_entry_intro; [solve_c|solve_dflt|];
       apply cev_leaf; [exact Logic.I|solve_dflt]).
Qed.

Example ex_d_decoded :
  decode ex_sch 3 "outer" (enc_records ex_d) = Some (norm ex_sch "outer" ex_vd) /\
  norm ex_sch "outer" ex_vd = norm ex_sch "outer" ex_vd' /\
  decode ex_sch 3 "outer" (encode ex_sch "outer" ex_vd) = decode ex_sch 3 "outer" (enc_records ex_d).
Proof. repeat split; vm_compute; reflexivity. Qed.

(* (e) unknown fields of all four wire types: at the top level, inside a nested message, inside a
   map entry and inside the message value of a map entry *)
Definition ex_e : list record :=
  [ (15, PI32 5);
    (1, PVarint 7); (2, PLen [1; 2; 172; 2]);
    (100, PLen [1; 2; 3]);
    (3, PLen (enc_records [(1, PVarint 5); (9, PVarint 1); (2, PLen [104; 105]); (10, PI64 77)]));
    (4, PLen (enc_records [(3, PI64 0); (2, PLen (enc_records [(1, PVarint 9); (7, PI32 1)]))]));
    (4, PLen (enc_records [(1, PVarint 3); (5, PLen [])]));
    (6, PLen [111]);
    (8, PVarint 18446744073709551615); (8, PVarint 2);
    (536870911, PVarint 1) ].

Example ex_e_conforming : conforming_bytes ex_sch "outer" ex_v (enc_records ex_e).
Proof.
  exists ex_e. split; [solve_c|].
  open_msg.
  - sing_leaf.
  - xs_packed.
  - sing_msg. open_msg; sing_leaf.
  - tbl_model.
  - sing_leaf.
  - ys_unpacked.
Qed.

Example ex_e_decoded :
  decode ex_sch 3 "outer" (enc_records ex_e) = Some (norm ex_sch "outer" ex_v).
Proof. vm_compute. reflexivity. Qed.

(* the theorem at the examples *)
Example ex_c_by_theorem :
  exists w, decode ex_sch 3 "outer" (enc_records ex_c) = Some w /\ veq w (norm ex_sch "outer" ex_v).
Proof. apply codec_decode_any_encoding; [exact ex_v_typed|exact ex_c_conforming|vm_compute; lia]. Qed.
Example ex_v_model_conforming : conforming_bytes ex_sch "outer" ex_v (encode ex_sch "outer" ex_v).
Proof. apply encode_conforming; [exact ex_sch_wf|exact ex_v_typed]. Qed.

Example ex_c_canon :
  exists w, decode ex_sch 3 "outer" (enc_records ex_c) = Some w /\ canon w = canon (norm ex_sch "outer" ex_v).
Proof.
  apply codec_decode_any_encoding_canon; [exact ex_sch_wf|exact ex_v_typed|exact ex_c_conforming|vm_compute; lia].
Qed.

Print Assumptions codec_decode_any_encoding.
Print Assumptions codec_decode_any_encoding_canon.
Print Assumptions encode_conforming.
Print Assumptions codec_decode_any_encoding_vs_model.
Print Assumptions codec_decode_any_encoding_same_content.
