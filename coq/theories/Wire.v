(* Wire.v — the schema-free layer of the protobuf wire format (C07):
   base-128 varints, little-endian fixed-width integers, tags, and the four record shapes
   (varint / 64-bit / length-delimited / 32-bit).  Bytes are [N] (0..255).

   Mirrors prost::encoding: [decode_varint] reads at most 10 bytes and rejects a value that does
   not fit 64 bits; [decode_key] rejects keys above u32::MAX, field number 0 and wire types
   6 and 7.  Groups (wire types 3, 4) are not modelled: [dec_record] answers [None]. *)
From Coq Require Import NArith ZArith List Lia Bool ZifyN ZifyBool ZifyNat.
Import ListNotations.
Ltac Zify.zify_post_hook ::= Z.div_mod_to_equations.
Open Scope N_scope.
Arguments N.add : simpl never.
Arguments N.sub : simpl never.
Arguments N.mul : simpl never.
Arguments N.eqb : simpl never.
Arguments N.ltb : simpl never.
Arguments N.leb : simpl never.
Arguments N.div : simpl never.
Arguments N.modulo : simpl never.
Arguments N.pow : simpl never.

Definition byte := N.

(* ------------------------------------------------------------------ varint *)
Fixpoint enc_varint_f (fuel : nat) (n : N) : list byte :=
  match fuel with
  | O => []
  | S f => if n <? 128 then [n] else (n mod 128 + 128) :: enc_varint_f f (n / 128)
  end.

Fixpoint dec_varint_f (fuel : nat) (bs : list byte) : option (N * list byte) :=
  match fuel, bs with
  | S f, b :: r =>
      if b <? 128 then Some (b, r)
      else match dec_varint_f f r with
           | Some (hi, r') => Some ((b - 128) + 128 * hi, r')
           | None => None
           end
  | _, _ => None
  end.

Definition enc_varint (n : N) : list byte := enc_varint_f 10 n.
Definition dec_varint (bs : list byte) : option (N * list byte) :=
  match dec_varint_f 10 bs with
  | Some (n, r) => if n <? 2 ^ 64 then Some (n, r) else None
  | None => None
  end.

Lemma enc_S f n :
  enc_varint_f (S f) n = if n <? 128 then [n] else (n mod 128 + 128) :: enc_varint_f f (n / 128).
Proof. reflexivity. Qed.
Lemma dec_S f b r :
  dec_varint_f (S f) (b :: r) =
  if b <? 128 then Some (b, r)
  else match dec_varint_f f r with
       | Some (hi, r') => Some ((b - 128) + 128 * hi, r') | None => None end.
Proof. reflexivity. Qed.

Lemma varint_f_roundtrip fuel : forall n r, n < 2 ^ (7 * N.of_nat (S fuel)) ->
  dec_varint_f (S fuel) (enc_varint_f (S fuel) n ++ r) = Some (n, r).
Proof.
  induction fuel as [|f IH]; intros n r Hn; rewrite enc_S.
  - change (2 ^ (7 * N.of_nat 1)) with 128 in Hn.
    destruct (N.ltb_spec n 128) as [Hs|Hb]; [|lia].
    cbn [app]. rewrite dec_S. destruct (N.ltb_spec n 128); [reflexivity|lia].
  - destruct (N.ltb_spec n 128) as [Hs|Hb].
    + cbn [app]. rewrite dec_S. destruct (N.ltb_spec n 128); [reflexivity|lia].
    + cbn [app]. rewrite dec_S.
      assert (Hm : n mod 128 < 128) by (apply N.mod_lt; lia).
      destruct (N.ltb_spec (n mod 128 + 128) 128); [lia|].
      rewrite IH.
      * f_equal. f_equal. rewrite N.add_sub. pose proof (N.div_mod n 128). lia.
      * replace (7 * N.of_nat (S (S f))) with (7 + 7 * N.of_nat (S f)) in Hn by lia.
        rewrite N.pow_add_r in Hn. change (2 ^ 7) with 128 in Hn.
        apply N.div_lt_upper_bound; lia.
Qed.

Theorem varint_roundtrip n r : n < 2 ^ 64 -> dec_varint (enc_varint n ++ r) = Some (n, r).
Proof.
  intros H. unfold dec_varint, enc_varint. rewrite (varint_f_roundtrip 9).
  - destruct (N.ltb_spec n (2 ^ 64)); [reflexivity|lia].
  - change (7 * N.of_nat 10) with 70.
    eapply N.lt_trans; [exact H|]. apply N.pow_lt_mono_r; lia.
Qed.

Lemma enc_varint_nonempty n : exists b t, enc_varint n = b :: t.
Proof.
  unfold enc_varint. rewrite enc_S. destruct (n <? 128); eauto.
Qed.

(* every byte produced is a byte *)
Lemma enc_varint_f_bytes fuel : forall n, Forall (fun b => b < 256) (enc_varint_f fuel n).
Proof.
  induction fuel as [|f IH]; intro n; [constructor|]. rewrite enc_S.
  destruct (N.ltb_spec n 128).
  - constructor; [lia|constructor].
  - constructor; [|apply IH]. assert (n mod 128 < 128) by (apply N.mod_lt; lia). lia.
Qed.

(* ------------------------------------------------------------------ fixed-width little endian *)
Fixpoint enc_le (k : nat) (n : N) : list byte :=
  match k with O => [] | S k => (n mod 256) :: enc_le k (n / 256) end.
Fixpoint dec_le (bs : list byte) : N :=
  match bs with [] => 0 | b :: r => b + 256 * dec_le r end.

Lemma enc_le_length k : forall n, List.length (enc_le k n) = k.
Proof. induction k; intro n; cbn [enc_le List.length]; [reflexivity|]. now rewrite IHk. Qed.

Lemma le_roundtrip k : forall n, n < 256 ^ N.of_nat k -> dec_le (enc_le k n) = n.
Proof.
  induction k as [|k IH]; intros n Hn.
  - change (256 ^ N.of_nat 0) with 1 in Hn. cbn [enc_le dec_le]. lia.
  - cbn [enc_le dec_le]. rewrite IH.
    + pose proof (N.div_mod n 256). lia.
    + replace (N.of_nat (S k)) with (1 + N.of_nat k) in Hn by lia.
      rewrite N.pow_add_r in Hn. change (256 ^ 1) with 256 in Hn.
      apply N.div_lt_upper_bound; lia.
Qed.

Lemma firstn_app_exact {X} (a b : list X) : firstn (List.length a) (a ++ b) = a.
Proof. induction a; cbn; [reflexivity|]. now rewrite IHa. Qed.
Lemma skipn_app_exact {X} (a b : list X) : skipn (List.length a) (a ++ b) = b.
Proof. induction a; cbn; auto. Qed.
Lemma firstn_app_len {X} k (a b : list X) : List.length a = k -> firstn k (a ++ b) = a.
Proof. intros <-. apply firstn_app_exact. Qed.
Lemma skipn_app_len {X} k (a b : list X) : List.length a = k -> skipn k (a ++ b) = b.
Proof. intros <-. apply skipn_app_exact. Qed.

(* ------------------------------------------------------------------ records *)
Inductive payload :=
| PVarint (n : N)            (* wire type 0 *)
| PI64 (n : N)               (* wire type 1 *)
| PLen (b : list byte)       (* wire type 2 *)
| PI32 (n : N).              (* wire type 5 *)
Definition record := (N * payload)%type.

Definition enc_record (r : record) : list byte :=
  let (f, p) := r in
  match p with
  | PVarint n => enc_varint (f * 8 + 0) ++ enc_varint n
  | PI64 n => enc_varint (f * 8 + 1) ++ enc_le 8 n
  | PLen b => enc_varint (f * 8 + 2) ++ enc_varint (N.of_nat (List.length b)) ++ b
  | PI32 n => enc_varint (f * 8 + 5) ++ enc_le 4 n
  end.
Definition enc_records (rs : list record) : list byte := flat_map enc_record rs.

Definition dec_record (bs : list byte) : option (record * list byte) :=
  match dec_varint bs with
  | None => None
  | Some (key, r) =>
      if negb (key <? 2 ^ 32) then None else
      let f := key / 8 in
      if f =? 0 then None else
      match key mod 8 with
      | 0 => match dec_varint r with
             | Some (n, r') => Some ((f, PVarint n), r')
             | None => None end
      | 1 => if (List.length r <? 8)%nat then None
             else Some ((f, PI64 (dec_le (firstn 8 r))), skipn 8 r)
      | 2 => match dec_varint r with
             | Some (l, r') =>
                 if N.of_nat (List.length r') <? l then None
                 else Some ((f, PLen (firstn (N.to_nat l) r')), skipn (N.to_nat l) r')
             | None => None end
      | 5 => if (List.length r <? 4)%nat then None
             else Some ((f, PI32 (dec_le (firstn 4 r))), skipn 4 r)
      | _ => None
      end
  end.

Fixpoint dec_records (fuel : nat) (bs : list byte) : option (list record) :=
  match bs with
  | [] => Some []
  | _ :: _ =>
      match fuel with
      | O => None
      | S fuel =>
          match dec_record bs with
          | Some (r, rest) =>
              match dec_records fuel rest with
              | Some rs => Some (r :: rs)
              | None => None
              end
          | None => None
          end
      end
  end.

(* every record takes at least one byte, so the byte count is enough fuel *)
Definition parse_records (bs : list byte) : option (list record) :=
  dec_records (List.length bs) bs.

Definition wf_payload (p : payload) : Prop :=
  match p with
  | PVarint n => n < 2 ^ 64
  | PI64 n => n < 2 ^ 64
  | PLen b => N.of_nat (List.length b) < 2 ^ 64
  | PI32 n => n < 2 ^ 32
  end.
Definition wf_record (r : record) : Prop := 1 <= fst r /\ fst r < 2 ^ 29 /\ wf_payload (snd r).
Definition wf_records (rs : list record) : Prop := Forall wf_record rs.

Lemma record_roundtrip r rest :
  wf_record r -> dec_record (enc_record r ++ rest) = Some (r, rest).
Proof.
  destruct r as [f p]. intros (H1 & H2 & Hp). cbn [fst snd] in *.
  assert (P29 : 2 ^ 29 = 536870912) by reflexivity.
  assert (P32 : 2 ^ 32 = 4294967296) by reflexivity.
  assert (P64 : 2 ^ 64 = 18446744073709551616) by reflexivity.
  unfold dec_record.
  destruct p as [n|n|b|n]; cbn [enc_record wf_payload] in *; rewrite <- !app_assoc;
    (rewrite varint_roundtrip by lia);
    match goal with |- context [negb (?k <? 2 ^ 32)] =>
      destruct (N.ltb_spec k (2 ^ 32)); [|lia] end; cbn [negb];
    match goal with |- context [?k / 8 =? 0] =>
      destruct (N.eqb_spec (k / 8) 0) as [E|E]; [exfalso; lia|] end.
  - replace ((f * 8 + 0) mod 8) with 0 by lia. rewrite varint_roundtrip by lia.
    replace ((f * 8 + 0) / 8) with f by lia. reflexivity.
  - replace ((f * 8 + 1) mod 8) with 1 by lia.
    pose proof (enc_le_length 8 n) as L.
    destruct (Nat.ltb_spec (List.length (enc_le 8 n ++ rest)) 8) as [Hl|Hl].
    { rewrite app_length in Hl. lia. }
    rewrite (firstn_app_len _ _ _ L), (skipn_app_len _ _ _ L).
    rewrite le_roundtrip by (change (256 ^ N.of_nat 8) with (2 ^ 64); lia).
    replace ((f * 8 + 1) / 8) with f by lia. reflexivity.
  - replace ((f * 8 + 2) mod 8) with 2 by lia. rewrite varint_roundtrip by lia.
    destruct (N.ltb_spec (N.of_nat (List.length (b ++ rest))) (N.of_nat (List.length b))) as [Hl|Hl].
    { rewrite app_length in Hl. lia. }
    rewrite Nnat.Nat2N.id, firstn_app_exact, skipn_app_exact.
    replace ((f * 8 + 2) / 8) with f by lia. reflexivity.
  - replace ((f * 8 + 5) mod 8) with 5 by lia.
    pose proof (enc_le_length 4 n) as L.
    destruct (Nat.ltb_spec (List.length (enc_le 4 n ++ rest)) 4) as [Hl|Hl].
    { rewrite app_length in Hl. lia. }
    rewrite (firstn_app_len _ _ _ L), (skipn_app_len _ _ _ L).
    rewrite le_roundtrip by (change (256 ^ N.of_nat 4) with (2 ^ 32); lia).
    replace ((f * 8 + 5) / 8) with f by lia. reflexivity.
Qed.

Lemma enc_record_nonempty r : exists b t, enc_record r = b :: t.
Proof.
  destruct r as [f p]. destruct p; cbn [enc_record];
    match goal with |- context [enc_varint ?k ++ _] =>
      destruct (enc_varint_nonempty k) as (b0 & t0 & E); rewrite E end;
    cbn [app]; eauto.
Qed.

Lemma enc_records_cons r rs : enc_records (r :: rs) = enc_record r ++ enc_records rs.
Proof. reflexivity. Qed.

Lemma enc_records_app a b : enc_records (a ++ b) = enc_records a ++ enc_records b.
Proof. unfold enc_records. apply flat_map_app. Qed.

Lemma dec_records_roundtrip rs : wf_records rs ->
  forall fuel, (List.length rs <= fuel)%nat -> dec_records fuel (enc_records rs) = Some rs.
Proof.
  induction 1 as [|r rs Hr Hrs IH]; intros fuel Hf.
  - destruct fuel; reflexivity.
  - rewrite enc_records_cons.
    destruct (enc_record_nonempty r) as (b & t & E).
    destruct fuel as [|fuel]; [cbn in Hf; lia|].
    assert (D : dec_record ((b :: t) ++ enc_records rs) = Some (r, enc_records rs))
      by (rewrite <- E; apply record_roundtrip; exact Hr).
    cbn [dec_records app] in *. rewrite E. cbn [app]. rewrite D.
    rewrite IH by (cbn in Hf; lia). reflexivity.
Qed.

Lemma enc_records_length rs : (List.length rs <= List.length (enc_records rs))%nat.
Proof.
  induction rs as [|r rs IH]; [cbn; lia|].
  rewrite enc_records_cons, app_length.
  destruct (enc_record_nonempty r) as (b & t & E). rewrite E. cbn [List.length]. lia.
Qed.

Theorem records_roundtrip rs : wf_records rs -> parse_records (enc_records rs) = Some rs.
Proof.
  intro H. unfold parse_records. apply dec_records_roundtrip; [exact H|apply enc_records_length].
Qed.

(* more fuel never hurts *)
Lemma dec_records_fuel_mono fuel : forall bs rs fuel',
  dec_records fuel bs = Some rs -> (fuel <= fuel')%nat -> dec_records fuel' bs = Some rs.
Proof.
  induction fuel as [|f IH]; intros bs rs fuel' H Hle.
  - destruct bs; cbn in H; [|discriminate]. destruct fuel'; exact H.
  - destruct bs as [|b t]; [destruct fuel'; exact H|].
    destruct fuel' as [|f']; [lia|].
    cbn [dec_records] in *. destruct (dec_record (b :: t)) as [[r rest]|]; [|discriminate].
    destruct (dec_records f rest) as [rs'|] eqn:E; [|discriminate].
    rewrite (IH _ _ f' E) by lia. exact H.
Qed.

(* ------------------------------------------------------------------ two's complement helpers *)
Definition z_to_u64 (z : Z) : N := Z.to_N (z mod 2 ^ 64).
Definition u64_to_z (n : N) : Z :=
  if n <? 2 ^ 63 then Z.of_N n else (Z.of_N n - 2 ^ 64)%Z.
(* prost reads an enumeration as `decode_varint(..)? as i32`: the low 32 bits, signed *)
Definition u64_to_i32 (n : N) : Z :=
  let m := n mod 2 ^ 32 in
  if m <? 2 ^ 31 then Z.of_N m else (Z.of_N m - 2 ^ 32)%Z.

Lemma i64_roundtrip z : (- 2 ^ 63 <= z < 2 ^ 63)%Z -> u64_to_z (z_to_u64 z) = z.
Proof.
  intro H. unfold u64_to_z, z_to_u64.
  assert (P63 : (2 ^ 63 = 9223372036854775808)%Z) by reflexivity.
  assert (P64 : (2 ^ 64 = 18446744073709551616)%Z) by reflexivity.
  assert (Q63 : 2 ^ 63 = 9223372036854775808) by reflexivity.
  rewrite Q63.
  destruct (N.ltb_spec (Z.to_N (z mod 2 ^ 64)) 9223372036854775808); lia.
Qed.

Lemma z_to_u64_lt z : z_to_u64 z < 2 ^ 64.
Proof.
  unfold z_to_u64.
  assert (P64 : (2 ^ 64 = 18446744073709551616)%Z) by reflexivity.
  assert (Q64 : 2 ^ 64 = 18446744073709551616) by reflexivity.
  lia.
Qed.

Lemma i32_roundtrip z : (- 2 ^ 31 <= z < 2 ^ 31)%Z -> u64_to_i32 (z_to_u64 z) = z.
Proof.
  intro H. unfold u64_to_i32, z_to_u64.
  assert (P31 : (2 ^ 31 = 2147483648)%Z) by reflexivity.
  assert (P64 : (2 ^ 64 = 18446744073709551616)%Z) by reflexivity.
  assert (Q32 : 2 ^ 32 = 4294967296) by reflexivity.
  assert (Q31 : 2 ^ 31 = 2147483648) by reflexivity.
  rewrite Q32, Q31.
  destruct (N.ltb_spec (Z.to_N (z mod 2 ^ 64) mod 4294967296) 2147483648); lia.
Qed.
