(* LogEncProofs.v — C12: the log-encoding reaches exactly the integers of the range, for every
   width (no bound), registration facts, error conditions. *)
Require Import Ommx.Num Ommx.Poly Ommx.Msg Ommx.Eval Ommx.Tree Ommx.Arith Ommx.ArithProofs Ommx.Inst
        Ommx.Transform Ommx.TransformProofs.
From Coq Require Import String ZifyN ZifyBool ZifyNat.
Close Scope string_scope.
Open Scope list_scope.
Ltac Zify.zify_post_hook ::= Z.div_mod_to_equations.

Section Cover.
  Open Scope N_scope.

  Fixpoint dot (cs : list N) (bs : list bool) : N :=
    match cs, bs with
    | c :: cs', b :: bs' => (if b then c else 0) + dot cs' bs'
    | _, _ => 0
    end.

  Lemma dot_app cs1 cs2 bs1 bs2 : List.length cs1 = List.length bs1 ->
    dot (cs1 ++ cs2) (bs1 ++ bs2) = dot cs1 bs1 + dot cs2 bs2.
  Proof.
    revert bs1; induction cs1 as [|c cs IH]; intros [|b bs] H; cbn [List.length app dot] in *; try lia.
    rewrite IH by lia. lia.
  Qed.
  Lemma le_pows_length i k : List.length (le_pows i k) = k.
  Proof. revert i; induction k as [|k IH]; intro i; cbn [le_pows List.length]; [reflexivity|]. rewrite IH. reflexivity. Qed.
  Lemma pow2_pos i : 0 < 2 ^ i.
  Proof. apply N.neq_0_lt_0, N.pow_nonzero; lia. Qed.

  (* binary digits cover exactly [0, 2^k) *)
  Lemma pows_range k : forall i bs, List.length bs = k ->
    dot (le_pows i k) bs + 2 ^ i <= 2 ^ i * 2 ^ (N.of_nat k).
  Proof.
    induction k as [|k IH]; intros i [|b bs] H; cbn [le_pows dot List.length] in *; try lia.
    specialize (IH (i + 1) bs ltac:(lia)). rewrite N.pow_add_r in IH.
    replace (N.of_nat (S k)) with (1 + N.of_nat k) by lia. rewrite N.pow_add_r.
    change (2 ^ 1) with 2 in *.
    pose proof (pow2_pos i). pose proof (pow2_pos (N.of_nat k)).
    destruct b; nia.
  Qed.
  Lemma pows_onto k : forall i z, z < 2 ^ (N.of_nat k) ->
    exists bs, List.length bs = k /\ dot (le_pows i k) bs = 2 ^ i * z.
  Proof.
    induction k as [|k IH]; intros i z Hz.
    - exists []. cbn in *. split; [reflexivity|lia].
    - replace (N.of_nat (S k)) with (1 + N.of_nat k) in Hz by lia. rewrite N.pow_add_r in Hz.
      change (2 ^ 1) with 2 in Hz.
      destruct (IH (i + 1) (z / 2)) as [bs [Hl Hd]].
      { apply N.div_lt_upper_bound; lia. }
      exists (N.odd z :: bs). split; [cbn [List.length]; lia|]. cbn [le_pows dot]. rewrite Hd.
      rewrite N.pow_add_r. change (2 ^ 1) with 2.
      pose proof (N.div_mod z 2 ltac:(lia)) as E.
      assert (Hm : z mod 2 = if N.odd z then 1 else 0).
      { rewrite <- N.bit0_mod. rewrite N.bit0_odd. destruct (N.odd z); reflexivity. }
      destruct (N.odd z); nia.
  Qed.

  (* for every K >= 1: the bit patterns of length nbits K reach exactly 0..K *)
  Theorem log_encode_cover K : 1 <= K -> forall z,
    (exists bs, List.length bs = le_nbits K /\ dot (le_coeffs K) bs = z) <-> z <= K.
  Proof.
    intros HK z. unfold le_coeffs. set (n := le_nbits K).
    assert (Hn : (1 <= n)%nat).
    { unfold n, le_nbits.
      assert (H2 : N.log2_up 2 <= N.log2_up (K + 1)) by (apply N.log2_up_le_mono; lia).
      change (N.log2_up 2) with 1 in H2. lia. }
    pose proof (N.log2_up_spec (K + 1) ltac:(lia)) as [Hlo Hhi].
    set (m := pred n) in *.
    assert (Em : N.of_nat m = N.pred (N.log2_up (K + 1))) by (unfold m, n, le_nbits; lia).
    rewrite <- Em in Hlo.
    assert (Hhi' : K + 1 <= 2 * 2 ^ (N.of_nat m)).
    { assert (E2 : N.log2_up (K + 1) = 1 + N.of_nat m) by (unfold m, n, le_nbits in *; lia).
      rewrite E2, N.pow_add_r in Hhi. exact Hhi. }
    set (P := 2 ^ (N.of_nat m)) in *. set (c := K - P + 1).
    split.
    - intros [bs [Hl Hd]].
      assert (exists b1 b, bs = b1 ++ [b] /\ List.length b1 = m) as [b1 [b [-> Hb1]]].
      { assert (Hne : bs <> []) by (intro; subst; cbn in Hl; lia).
        exists (removelast bs), (last bs false). split.
        - apply app_removelast_last. exact Hne.
        - rewrite (app_removelast_last false Hne) in Hl. rewrite app_length in Hl. cbn in Hl. unfold m. lia. }
      rewrite dot_app in Hd by (rewrite le_pows_length; lia).
      pose proof (pows_range m 0 b1 Hb1) as R. change (2 ^ 0) with 1 in R. fold P in R.
      cbn [dot] in Hd. unfold c in Hd. destruct b; lia.
    - intros Hz. destruct (N.ltb_spec z P) as [Hs|Hb].
      + destruct (pows_onto m 0 z Hs) as [b1 [Hl Hd]]. exists (b1 ++ [false]). split.
        * rewrite app_length. cbn. unfold m in Hl. lia.
        * rewrite dot_app by (rewrite le_pows_length; lia). rewrite Hd. change (2 ^ 0) with 1. cbn [dot]. lia.
      + destruct (pows_onto m 0 (z - c)) as [b1 [Hl Hd]]; [unfold c; fold P; lia|].
        exists (b1 ++ [true]). split.
        * rewrite app_length. cbn. unfold m in Hl. lia.
        * rewrite dot_app by (rewrite le_pows_length; lia). rewrite Hd. change (2 ^ 0) with 1.
          cbn [dot]. unfold c in *. lia.
  Qed.

  Lemma le_coeffs_length K : List.length (le_coeffs K) = S (pred (le_nbits K)).
  Proof. unfold le_coeffs. rewrite app_length, le_pows_length. cbn. lia. Qed.
  Lemma le_nbits_pos K : 1 <= K -> (1 <= le_nbits K)%nat.
  Proof.
    intro HK. unfold le_nbits.
    assert (H2 : N.log2_up 2 <= N.log2_up (K + 1)) by (apply N.log2_up_le_mono; lia).
    change (N.log2_up 2) with 1 in H2. lia.
  Qed.
End Cover.

Open Scope Qc_scope.

(* the linear expression, evaluated on a bit assignment of the new ids, is lower + dot coeffs bits *)
Fixpoint bit_val (base : N) (bs : list bool) (i : N) : num :=
  match bs with
  | [] => 0
  | b :: bs' => if (i =? base)%N then (if b then 1 else 0) else bit_val (base + 1) bs' i
  end.

Lemma qz_add a b : qz (a + b) = qz a + qz b.
Proof.
  unfold qz. apply Qc_is_canon. rewrite this_plus, !this_Q2Qc. unfold Qeq; cbn. lia.
Qed.
Lemma qz_0 : qz 0 = 0. Proof. apply Qc_is_canon. reflexivity. Qed.

Lemma bit_val_below base bs i : (i < base)%N -> bit_val base bs i = 0.
Proof.
  revert base; induction bs as [|b bs IH]; intros base H; cbn [bit_val]; [reflexivity|].
  destruct (i =? base)%N eqn:E; [apply N.eqb_eq in E; lia|]. apply IH. lia.
Qed.

Lemma enum_from_val cs : forall base bs, List.length bs = List.length cs ->
  valg (bit_val base bs) (enum_from base cs) = qz (Z.of_N (dot cs bs)).
Proof.
  induction cs as [|c cs IH]; intros base [|b bs] H; cbn [List.length] in H; try discriminate.
  - cbn [enum_from valg dot]. change (Z.of_N 0%N) with 0%Z. symmetry. apply qz_0.
  - cbn [enum_from valg dot].
    assert (E : valg (bit_val base (b :: bs)) (enum_from (base + 1) cs)
                = valg (bit_val (base + 1) bs) (enum_from (base + 1) cs)).
    { assert (G : forall l k, (base < k)%N ->
                  valg (bit_val base (b :: bs)) (enum_from k l) = valg (bit_val (base + 1) bs) (enum_from k l)).
      { induction l as [|x l IHl]; intros k Hk; cbn [enum_from valg]; [reflexivity|].
        rewrite IHl by lia. f_equal. f_equal. cbn [bit_val].
        destruct (k =? base)%N eqn:Ek; [apply N.eqb_eq in Ek; lia|reflexivity]. }
      apply G. lia. }
    rewrite E, IH by lia. cbn [bit_val]. rewrite N.eqb_refl.
    rewrite N2Z.inj_add, qz_add. destruct b; [ring|change (Z.of_N 0%N) with 0%Z; rewrite qz_0; ring].
Qed.

Section LogEncode.
  Variable tiny : num -> bool.
  Hypothesis TE : tiny_exact tiny.

  (* success exactly for a known integer variable with a finite bound that contains an integer *)
  Theorem log_encode_ok_iff I id :
    (exists r, log_encode tiny I id = inr r) <->
    exists v l u, find_dv id (i_dvs I) = Some v /\ dv_kind v = KIND_INTEGER /\
                  dv_bound v = Some (Fin l, Fin u) /\ (qceil l <= qfloor u)%Z.
  Proof.
    unfold log_encode. destruct (find_dv id (i_dvs I)) as [v|].
    - destruct (dv_kind v =? KIND_INTEGER)%Z eqn:K; cbn [negb].
      + apply Z.eqb_eq in K. destruct (dv_bound v) as [[l u]|] eqn:B.
        * destruct l as [|ql| |]; destruct u as [|qu| |]; cbn [is_nan orb];
            try (split; [intros [r H]; discriminate
                        |intros (v' & l' & u' & E1 & _ & E3 & _); inversion E1; subst; congruence]).
          destruct (qfloor qu - qceil ql <? 0)%Z eqn:Neg.
          -- apply Z.ltb_lt in Neg. split; [intros [r H]; discriminate|].
             intros (v' & l' & u' & E1 & _ & E3 & Hle). inversion E1; subst v'.
             rewrite B in E3. inversion E3; subst. lia.
          -- apply Z.ltb_ge in Neg. split.
             ++ intros _. exists v, ql, qu. repeat split; auto. lia.
             ++ intros _. destruct (qfloor qu - qceil ql =? 0)%Z; eauto.
        * split; [intros [r H]; discriminate|intros (v' & l' & u' & E1 & _ & E3 & _); inversion E1; subst; congruence].
      + apply Z.eqb_neq in K. split; [intros [r H]; discriminate|].
        intros (v' & l' & u' & E1 & E2 & _). inversion E1; subst. contradiction.
    - split; [intros [r H]; discriminate|intros (v' & l' & u' & E1 & _); discriminate].
  Qed.

  (* a single-integer range yields a constant and adds no variables *)
  Theorem log_encode_single I id v l u :
    find_dv id (i_dvs I) = Some v -> dv_kind v = KIND_INTEGER -> dv_bound v = Some (Fin l, Fin u) ->
    qceil l = qfloor u ->
    log_encode tiny I id = inr (lin_of_c (qz (qceil l)), []).
  Proof.
    intros F K B E. unfold log_encode. rewrite F, K, B. cbn [negb Z.eqb].
    rewrite Z.eqb_refl. cbn [negb]. rewrite E, Z.sub_diag. reflexivity.
  Qed.

  (* the encoding: n = log2_up(K+1) new binaries whose weighted sum ranges over exactly 0..K *)
  Theorem log_encode_encoding I id v l u :
    find_dv id (i_dvs I) = Some v -> dv_kind v = KIND_INTEGER -> dv_bound v = Some (Fin l, Fin u) ->
    (qceil l < qfloor u)%Z ->
    let K := Z.to_N (qfloor u - qceil l) in
    let base := next_id (i_dvs I) in
    exists lin news,
      log_encode tiny I id = inr (lin, news) /\
      List.length news = le_nbits K /\
      map dv_id news = map (fun j => (base + N.of_nat j)%N) (seq 0 (le_nbits K)) /\
      Forall (fun d => dv_kind d = KIND_BINARY /\ dv_bound d = Some (Fin 0, Fin 1) /\ dv_subst d = None) news /\
      (* value on every bit assignment of the new variables *)
      (forall bs, List.length bs = le_nbits K ->
         val (bit_val base bs) (lin_terms lin) = qz (qceil l + Z.of_N (dot (le_coeffs K) bs))) /\
      (* exactly the integers ceil(l)..floor(u) *)
      (forall z : Z, (exists bs, List.length bs = le_nbits K /\
                                 val (bit_val base bs) (lin_terms lin) = qz z)
                     <-> (qceil l <= z <= qfloor u)%Z).
  Proof.
    intros F Kd B Lt K base. unfold log_encode. rewrite F, Kd, B. cbn [negb Z.eqb].
    rewrite Z.eqb_refl. cbn [negb].
    destruct (qfloor u - qceil l <? 0)%Z eqn:Neg; [apply Z.ltb_lt in Neg; lia|].
    destruct (qfloor u - qceil l =? 0)%Z eqn:Z0; [apply Z.eqb_eq in Z0; lia|].
    fold K. fold base.
    assert (HK : (1 <= K)%N) by (unfold K; lia).
    assert (Ln : List.length (le_coeffs K) = le_nbits K).
    { rewrite le_coeffs_length. pose proof (le_nbits_pos K HK). lia. }
    eexists; eexists. split; [reflexivity|].
    assert (NB : forall orig k i, List.length (new_bits orig base k i) = k /\
                 map dv_id (new_bits orig base k i) = map (fun j => (base + i + N.of_nat j)%N) (seq 0 k) /\
                 Forall (fun d => dv_kind d = KIND_BINARY /\ dv_bound d = Some (Fin 0, Fin 1) /\ dv_subst d = None)
                        (new_bits orig base k i)).
    { intros orig k. induction k as [|k IH]; intro i; cbn [new_bits List.length map seq].
      - repeat split; constructor.
      - destruct (IH (i + 1)%N) as (H1 & H2 & H3). repeat split.
        + rewrite H1. reflexivity.
        + cbn [dv_id]. f_equal; [lia|]. rewrite H2, <- seq_shift, map_map. apply map_ext. intro j. lia.
        + constructor; [cbn; auto|exact H3]. }
    destruct (NB id (List.length (le_coeffs K)) 0%N) as (H1 & H2 & H3).
    rewrite Ln in H1, H2, H3.
    split; [rewrite ?Ln; exact H1|]. split.
    { rewrite ?Ln. rewrite H2. apply map_ext. intro j. lia. }
    split; [rewrite ?Ln; exact H3|].
    assert (Val : forall bs, List.length bs = le_nbits K ->
              val (bit_val base bs) (lin_terms (lin_new tiny (enum_from base (le_coeffs K)) (qz (qceil l))))
              = qz (qceil l + Z.of_N (dot (le_coeffs K) bs))).
    { intros bs Hb. rewrite (V_lin_new tiny TE), enum_from_val by lia. rewrite qz_add. ring. }
    split; [exact Val|].
    intro z. split.
    - intros (bs & Hb & Hv). rewrite (Val bs Hb) in Hv.
      assert (Ez : (qceil l + Z.of_N (dot (le_coeffs K) bs))%Z = z).
      { apply (f_equal this) in Hv. unfold qz in Hv.
        assert (Hq : (inject_Z (qceil l + Z.of_N (dot (le_coeffs K) bs)) == inject_Z z)%Q).
        { rewrite <- (this_Q2Qc (inject_Z (qceil l + Z.of_N (dot (le_coeffs K) bs)))), <- (this_Q2Qc (inject_Z z)).
          fold (qz (qceil l + Z.of_N (dot (le_coeffs K) bs))). fold (qz z). unfold qz. rewrite Hv. reflexivity. }
        unfold Qeq in Hq. cbn in Hq. lia. }
      pose proof (proj1 (log_encode_cover K HK (dot (le_coeffs K) bs)) (ex_intro _ bs (conj Hb eq_refl))) as Hle.
      assert (HKv : K = Z.to_N (qfloor u - qceil l)) by reflexivity.
      set (d := dot (le_coeffs K) bs) in *. clearbody d. clearbody K. lia.
    - intros [Hlo Hhi].
      assert (HKv : K = Z.to_N (qfloor u - qceil l)) by reflexivity.
      destruct (proj2 (log_encode_cover K HK (Z.to_N (z - qceil l)))) as (bs & Hb & Hd); [lia|].
      exists bs. split; [exact Hb|]. rewrite (Val bs Hb), Hd. f_equal. lia.
  Qed.

  (* fresh ids: above every existing decision-variable id, hence new and pairwise distinct *)
  Theorem log_encode_fresh I j v : In v (i_dvs I) -> (dv_id v < next_id (i_dvs I) + N.of_nat j)%N.
  Proof. intro H. pose proof (next_id_above _ _ H). lia. Qed.
End LogEncode.
