(* ValidateErrors.v — C08, the rejecting side: every error the typed view (Validate.parse_instance)
   may report names a rule that really is violated by the message, at a place that really lies on
   the reported context path.

   [violated I h e] is a declarative reading of the error [e = (raw error, context path)]: by
   cases on the raw error and on the path it states a membership / counting fact about the message
   (an element of the named repeated field is in the named state, an id is used at the named place
   and no decision variable defines it, an id occurs twice in the named list).  It does not mention
   the parser, its order of checks, or its seen-lists.

   Main results
     parse_instance_sound  : parse_instance I h = Some errs ->
                             errs <> [] /\ forall e, In e errs -> violated I h e
     violated_not_wf       : violated I h e -> ~ wf_typed I h
     violated_rejects      : violated I h e -> parse_instance I h <> None
     rejected_iff_violated : parse_instance I h <> None <-> exists e, violated I h e
     wf_typed_iff_no_violation : wf_typed I h <-> forall e, ~ violated I h e
     parse_hints_none_iff  : the last conjunct of wf_typed (a run of parse_hints) stated declaratively
   (violated_not_wf shows that [violated] is not vacuous: each of its cases contradicts wf_typed;
   the reported error need not be the only violated one: see ex_two_meaning). *)
Require Import Ommx.Num Ommx.Poly Ommx.Msg Ommx.Eval Ommx.Tree Ommx.Inst Ommx.Relax Ommx.Transform
        Ommx.Validate Ommx.ValidateProofs.
From Coq Require Import String.
Open Scope string_scope.
Open Scope list_scope.

(* ------------------------------------------------------------------------------------------ *)
(* counting occurrences of an id                                                               *)
(* ------------------------------------------------------------------------------------------ *)
Definition occ (i : N) (l : list N) : nat := count_occ N.eq_dec l i.
(* the id occurs at two (or more) positions of the list *)
Definition repeated (i : N) (l : list N) : Prop := (2 <= occ i l)%nat.

Lemma occ_nil i : occ i [] = 0%nat.
Proof. reflexivity. Qed.
Lemma occ_app i a b : occ i (a ++ b) = (occ i a + occ i b)%nat.
Proof. apply count_occ_app. Qed.
Lemma occ_cons i j l : occ i (j :: l) = ((if N.eqb i j then 1 else 0) + occ i l)%nat.
Proof.
  unfold occ. cbn [count_occ]. destruct (N.eq_dec j i) as [E|E].
  - subst. rewrite N.eqb_refl. reflexivity.
  - destruct (N.eqb_spec i j); [congruence|reflexivity].
Qed.
Lemma occ_In i l : In i l <-> (1 <= occ i l)%nat.
Proof. unfold occ. rewrite (count_occ_In N.eq_dec). lia. Qed.

(* [repeated] in positional form: two distinct positions of the list hold the id *)
Lemma repeated_split i l : repeated i l <-> exists a b c, l = a ++ i :: b ++ i :: c.
Proof.
  unfold repeated. split.
  - induction l as [|j l IH]; [rewrite occ_nil; lia|]. rewrite occ_cons.
    destruct (N.eqb_spec i j) as [E|E].
    + subst j. intro H. assert (Hin : In i l) by (apply occ_In; lia).
      apply in_split in Hin. destruct Hin as (b & c & ->). exists [], b, c. reflexivity.
    + intro H. destruct (IH H) as (a & b & c & ->). exists (j :: a), b, c. reflexivity.
  - intros (a & b & c & ->). rewrite occ_app, occ_cons, occ_app, occ_cons, N.eqb_refl. lia.
Qed.
Lemma repeated_not_NoDup i l : repeated i l -> ~ NoDup l.
Proof.
  unfold repeated, occ. intros H Hn. rewrite (NoDup_count_occ N.eq_dec) in Hn.
  specialize (Hn i). lia.
Qed.

(* ------------------------------------------------------------------------------------------ *)
(* the states a field can be in                                                                *)
(* ------------------------------------------------------------------------------------------ *)
(* bound.rs BoundError::check rejects: a NaN endpoint, lower = +inf, upper = -inf, upper < lower *)
Definition bad_bound (l u : ext) : Prop :=
  l = NaN \/ u = NaN \/ l = PInf \/ u = NInf \/ eltb u l = true.

Lemma bcheck_none l u : bcheck l u = None <-> bad_bound l u.
Proof.
  unfold bcheck, bad_bound.
  destruct l, u; cbn [is_nan orb];
    try (destruct (eltb _ _) eqn:E);
    (split; [intro H; try discriminate H; auto 6
            |intro H; try reflexivity; decompose [or] H; try discriminate; congruence]).
Qed.

Lemma dv_bound_of_none v :
  dv_bound_of v = None <-> exists l u, dv_bound v = Some (l, u) /\ bad_bound l u.
Proof.
  unfold dv_bound_of. destruct (dv_bound v) as [[l u]|].
  - rewrite bcheck_none. split.
    + intro H. exists l, u. split; [reflexivity|exact H].
    + intros (l' & u' & E & H). inversion E; subst. exact H.
  - split.
    + destruct (dv_kind v =? KIND_BINARY)%Z; discriminate.
    + intros (l & u & E & _). discriminate.
Qed.

(* the elements named by the path *)
Definition removed_of (I : instance) (c : constr) : Prop :=
  exists r, In r (i_rs I) /\ r_c r = Some c.
Definition onehot_of (h : option hints) (o : N * list N) : Prop :=
  exists hh, h = Some hh /\ In o (h_onehot hh).
Definition sos1_of (h : option hints) (o : N * list N * list N) : Prop :=
  exists hh, h = Some hh /\ In o (h_sos1 hh).

Lemma removed_constrs_In rs c : In c (removed_constrs rs) <-> exists r, In r rs /\ r_c r = Some c.
Proof.
  induction rs as [|r rs IH]; cbn [removed_constrs].
  - split; [intros []|intros (r & [] & _)].
  - destruct (r_c r) as [c0|] eqn:Rc.
    + cbn [In]. rewrite IH. split.
      * intros [<-|(r' & Hr & E)]; [exists r; auto|exists r'; auto].
      * intros (r' & [<-|Hr] & E); [left; congruence|right; exists r'; auto].
    + rewrite IH. split.
      * intros (r' & Hr & E). exists r'. cbn [In]. auto.
      * intros (r' & [<-|Hr] & E); [congruence|exists r'; auto].
Qed.

(* ------------------------------------------------------------------------------------------ *)
(* what an error means                                                                         *)
(* ------------------------------------------------------------------------------------------ *)
(* The context path is listed from the innermost field outwards, as in Validate.ctx. *)
Definition violated (I : instance) (h : option hints) (e : perr) : Prop :=
  let dvids := map dv_id (i_dvs I) in       (* the ids the decision variables define *)
  let cids := map c_id (i_cs I) in          (* the ids of the ACTIVE constraints (hints refer to these) *)
  let path := snd e in
  match fst e with
  (* an enumeration field holds no known value *)
  | EUnspecified n =>
      (n = "ommx.v1.instance.Sense" /\ path = [(M_INSTANCE, "sense")] /\
         i_sense I <> SENSE_MIN /\ i_sense I <> SENSE_MAX)
   \/ (n = "ommx.v1.decision_variable.Kind" /\
         path = [(M_DV, "kind"); (M_INSTANCE, "decision_variables")] /\
         exists v, In v (i_dvs I) /\ ~ (1 <= dv_kind v <= 5)%Z)
   \/ (n = "ommx.v1.Equality" /\
         path = [(M_CONSTR, "equality"); (M_INSTANCE, "constraints")] /\
         exists c, In c (i_cs I) /\ c_eq c <> EQ_ZERO /\ c_eq c <> LE_ZERO)
   \/ (n = "ommx.v1.Equality" /\
         path = [(M_CONSTR, "equality"); (M_REMOVED, "constraint"); (M_INSTANCE, "removed_constraints")] /\
         exists c, removed_of I c /\ c_eq c <> EQ_ZERO /\ c_eq c <> LE_ZERO)
  (* the bound message of a decision variable is not a valid interval *)
  | EInvalidBound =>
      path = [(M_DV, "bound"); (M_INSTANCE, "decision_variables")] /\
      exists v l u, In v (i_dvs I) /\ dv_bound v = Some (l, u) /\ bad_bound l u
  (* a required message field is absent: [message].[field] *)
  | EMissing m f =>
      (m = M_INSTANCE /\ f = "objective" /\ path = [] /\ i_obj I = None)
   \/ (m = M_CONSTR /\ f = "function" /\ path = [(M_INSTANCE, "constraints")] /\
         exists c, In c (i_cs I) /\ c_fn c = None)
   \/ (m = M_CONSTR /\ f = "function" /\
         path = [(M_REMOVED, "constraint"); (M_INSTANCE, "removed_constraints")] /\
         exists c, removed_of I c /\ c_fn c = None)
   \/ (m = M_REMOVED /\ f = "constraint" /\ path = [(M_INSTANCE, "removed_constraints")] /\
         exists r, In r (i_rs I) /\ r_c r = None)
  (* a function message is present but its oneof is not set *)
  | EUnsupported =>
      (path = [(M_INSTANCE, "objective")] /\ i_obj I = Some FUnset)
   \/ (path = [(M_CONSTR, "function"); (M_INSTANCE, "constraints")] /\
         exists c, In c (i_cs I) /\ c_fn c = Some FUnset)
   \/ (path = [(M_CONSTR, "function"); (M_REMOVED, "constraint"); (M_INSTANCE, "removed_constraints")] /\
         exists c, removed_of I c /\ c_fn c = Some FUnset)
   \/ (path = [(M_INSTANCE, "decision_variable_dependency")] /\
         exists d, In (d, FUnset) (i_deps I))
  (* two decision variables carry the id *)
  | EDupVar i =>
      path = [(M_INSTANCE, "decision_variables")] /\ repeated i dvids
  (* two constraints carry the id: two active ones / a removed one and another (active or removed) *)
  | EDupConstr i =>
      (path = [(M_INSTANCE, "constraints")] /\ repeated i cids)
   \/ (path = [(M_INSTANCE, "removed_constraints")] /\
         (exists c, removed_of I c /\ c_id c = i) /\ repeated i (map c_id (all_constrs I)))
  (* the id is used at the place named by the path and no decision variable defines it *)
  | EUndefVar i =>
      ~ In i dvids /\
      ( (path = [(M_INSTANCE, "objective")] /\
           exists f, i_obj I = Some f /\ In i (fn_used f))
     \/ (path = [(M_INSTANCE, "constraints")] /\
           exists c f, In c (i_cs I) /\ c_fn c = Some f /\ In i (fn_used f))
     \/ (path = [(M_INSTANCE, "removed_constraints")] /\
           exists c f, removed_of I c /\ c_fn c = Some f /\ In i (fn_used f))
     \/ (path = [(M_INSTANCE, "decision_variable_dependency")] /\
           exists f, In (i, f) (i_deps I))
     \/ (path = [(M_ONEHOT, "decision_variables"); (M_HINTS, "one_hot_constraints");
                 (M_INSTANCE, "constraint_hints")] /\
           exists o, onehot_of h o /\ In i (snd o))
     \/ (path = [(M_SOS1, "decision_variables"); (M_HINTS, "sos1_constraints");
                 (M_INSTANCE, "constraint_hints")] /\
           exists b m v, sos1_of h (b, m, v) /\ In i v) )
  (* a hint refers to the constraint id and no active constraint carries it *)
  | EUndefConstr i =>
      ~ In i cids /\
      ( (path = [(M_ONEHOT, "constraint_id"); (M_HINTS, "one_hot_constraints");
                 (M_INSTANCE, "constraint_hints")] /\
           exists o, onehot_of h o /\ fst o = i)
     \/ (path = [(M_SOS1, "binary_constraint_id"); (M_HINTS, "sos1_constraints");
                 (M_INSTANCE, "constraint_hints")] /\
           exists m v, sos1_of h (i, m, v))
     \/ (path = [(M_SOS1, "big_m_constraint_ids"); (M_HINTS, "sos1_constraints");
                 (M_INSTANCE, "constraint_hints")] /\
           exists b m v, sos1_of h (b, m, v) /\ In i m) )
  (* the variable list of a hint holds the id twice *)
  | ENonUniqueVar i =>
      (path = [(M_ONEHOT, "decision_variables"); (M_HINTS, "one_hot_constraints");
               (M_INSTANCE, "constraint_hints")] /\
         exists o, onehot_of h o /\ repeated i (snd o))
   \/ (path = [(M_SOS1, "decision_variables"); (M_HINTS, "sos1_constraints");
               (M_INSTANCE, "constraint_hints")] /\
         exists b m v, sos1_of h (b, m, v) /\ repeated i v)
  (* the big-M constraint list of a SOS1 hint holds the id twice *)
  | ENonUniqueConstr i =>
      path = [(M_SOS1, "big_m_constraint_ids"); (M_HINTS, "sos1_constraints");
              (M_INSTANCE, "constraint_hints")] /\
      exists b m v, sos1_of h (b, m, v) /\ repeated i m
  end.

Ltac vio := unfold violated; cbv zeta; cbn [fst snd with_ctx app].

(* ------------------------------------------------------------------------------------------ *)
(* the component parsers: what a reported error says about the component                       *)
(* ------------------------------------------------------------------------------------------ *)
Lemma parse_dv_some v e : parse_dv v = Some e ->
  (e = (EUnspecified "ommx.v1.decision_variable.Kind", [(M_DV, "kind")]) /\ ~ (1 <= dv_kind v <= 5)%Z)
  \/ (e = (EInvalidBound, [(M_DV, "bound")]) /\ exists l u, dv_bound v = Some (l, u) /\ bad_bound l u).
Proof.
  unfold parse_dv.
  destruct ((1 <=? dv_kind v)%Z && (dv_kind v <=? 5)%Z) eqn:K; cbn [negb].
  - destruct (dv_bound_of v) eqn:B; [discriminate|]. intro H. inversion H; subst. right.
    split; [reflexivity|]. apply dv_bound_of_none. exact B.
  - intro H. inversion H; subst. left. split; [reflexivity|]. intros [K1 K2].
    apply andb_false_iff in K. destruct K as [K|K]; apply Z.leb_gt in K; lia.
Qed.

Lemma parse_dvs_some : forall dvs seen e, parse_dvs dvs seen = Some e ->
  (exists v, In v dvs /\ parse_dv v = Some e)
  \/ (exists i, e = (EDupVar i, []) /\ repeated i (seen ++ map dv_id dvs)).
Proof.
  induction dvs as [|v dvs IH]; intros seen e; cbn [parse_dvs map]; [discriminate|].
  destruct (parse_dv v) as [e0|] eqn:P.
  - intro H. inversion H; subst. left. exists v. split; [left; reflexivity|exact P].
  - destruct (mem (dv_id v) seen) eqn:M.
    + intro H. inversion H; subst. right. exists (dv_id v). split; [reflexivity|].
      apply mem_In, occ_In in M. unfold repeated. rewrite occ_app, occ_cons, N.eqb_refl. lia.
    + intro H. apply IH in H. destruct H as [(w & Hw & Pw)|(i & -> & R)].
      * left. exists w. split; [right; exact Hw|exact Pw].
      * right. exists i. split; [reflexivity|]. unfold repeated in *.
        rewrite occ_app, occ_cons in R. rewrite occ_app, occ_cons. lia.
Qed.

(* the faults of one constraint message *)
Definition constr_fault (c : constr) (e : perr) : Prop :=
  (e = (EUnspecified "ommx.v1.Equality", [(M_CONSTR, "equality")]) /\ c_eq c <> EQ_ZERO /\ c_eq c <> LE_ZERO)
  \/ (e = (EMissing M_CONSTR "function", []) /\ c_fn c = None)
  \/ (e = (EUnsupported, [(M_CONSTR, "function")]) /\ c_fn c = Some FUnset).

Lemma parse_fn_some f e : parse_fn f = Some e -> e = EUnsupported /\ f = FUnset.
Proof. destruct f; cbn [parse_fn]; intro H; inversion H; auto. Qed.

Lemma parse_constr_some c e : parse_constr c = Some e -> constr_fault c e.
Proof.
  unfold parse_constr, constr_fault.
  destruct ((c_eq c =? EQ_ZERO)%Z || (c_eq c =? LE_ZERO)%Z) eqn:E; cbn [negb].
  - destruct (c_fn c) as [f|].
    + destruct (parse_fn f) as [e0|] eqn:Pf; [|discriminate].
      apply parse_fn_some in Pf. destruct Pf as [-> ->]. intro H. inversion H; subst. right. right. auto.
    + intro H. inversion H; subst. right. left. auto.
  - intro H. inversion H; subst. left. apply orb_false_iff in E. destruct E as [E1 E2].
    apply Z.eqb_neq in E1. apply Z.eqb_neq in E2. auto.
Qed.

Lemma parse_constrs_some : forall cs seen e, parse_constrs cs seen = Some e ->
  (exists c, In c cs /\ parse_constr c = Some e)
  \/ (exists i, e = (EDupConstr i, []) /\ repeated i (seen ++ map c_id cs)).
Proof.
  induction cs as [|c cs IH]; intros seen e; cbn [parse_constrs map]; [discriminate|].
  destruct (parse_constr c) as [e0|] eqn:P.
  - intro H. inversion H; subst. left. exists c. split; [left; reflexivity|exact P].
  - destruct (mem (c_id c) seen) eqn:M.
    + intro H. inversion H; subst. right. exists (c_id c). split; [reflexivity|].
      apply mem_In, occ_In in M. unfold repeated. rewrite occ_app, occ_cons, N.eqb_refl. lia.
    + intro H. apply IH in H. destruct H as [(w & Hw & Pw)|(i & -> & R)].
      * left. exists w. split; [right; exact Hw|exact Pw].
      * right. exists i. split; [reflexivity|]. unfold repeated in *.
        rewrite occ_app, occ_cons in R. rewrite occ_app, occ_cons. lia.
Qed.

Lemma parse_removed_some : forall rs active seen e, parse_removed rs active seen = Some e ->
  (e = (EMissing M_REMOVED "constraint", []) /\ exists r, In r rs /\ r_c r = None)
  \/ (exists r c e0, In r rs /\ r_c r = Some c /\ parse_constr c = Some e0 /\
                     e = with_ctx (M_REMOVED, "constraint") e0)
  \/ (exists i, e = (EDupConstr i, []) /\ In i (map c_id (removed_constrs rs)) /\
                repeated i (active ++ seen ++ map c_id (removed_constrs rs))).
Proof.
  induction rs as [|r rs IH]; intros active seen e; cbn [parse_removed removed_constrs]; [discriminate|].
  destruct (r_c r) as [c|] eqn:Rc.
  - destruct (parse_constr c) as [e0|] eqn:P.
    + intro H. inversion H; subst. right. left. exists r, c, e0.
      split; [left; reflexivity|]. auto.
    + cbn [map]. destruct (mem (c_id c) active || mem (c_id c) seen) eqn:M.
      * intro H. inversion H; subst. right. right. exists (c_id c).
        split; [reflexivity|]. split; [left; reflexivity|].
        unfold repeated. rewrite !occ_app, occ_cons, N.eqb_refl.
        apply orb_true_iff in M. destruct M as [M|M]; apply mem_In, occ_In in M; lia.
      * intro H. apply IH in H. destruct H as [[-> (r' & Hr & E)]|[(r' & c' & e0 & Hr & E & P' & ->)|(i & -> & Hi & R)]].
        -- left. split; [reflexivity|]. exists r'. split; [right; exact Hr|exact E].
        -- right. left. exists r', c', e0. split; [right; exact Hr|]. auto.
        -- right. right. exists i. split; [reflexivity|]. split; [right; exact Hi|].
           unfold repeated in *. rewrite !occ_app in *. rewrite !occ_cons in *. lia.
  - intro H. inversion H; subst. left. split; [reflexivity|]. exists r. split; [left; reflexivity|exact Rc].
Qed.

Lemma undefined_in_In ids defined i :
  In i (undefined_in ids defined) <-> In i ids /\ ~ In i defined.
Proof.
  unfold undefined_in. rewrite filter_In, negb_true_iff. split.
  - intros [H M]. split; [exact H|]. intro Hin. apply mem_In in Hin. congruence.
  - intros [H M]. split; [exact H|]. destruct (mem i defined) eqn:E; [|reflexivity].
    apply mem_In in E. contradiction.
Qed.

Lemma constr_used_In c i : In i (constr_used c) <-> exists f, c_fn c = Some f /\ In i (fn_used f).
Proof.
  unfold constr_used, fn_or_zero. destruct (c_fn c) as [f|].
  - split; [intro H; exists f; auto|intros (f' & E & H); inversion E; subst; exact H].
  - cbn [fn_used]. split; [intros []|intros (f' & E & _); discriminate].
Qed.

Lemma unique_defined_some (U NU : N -> raw_err) : forall ids defined seen e,
  unique_defined ids defined seen U NU = Some e ->
  (exists i, e = U i /\ In i ids /\ ~ In i defined)
  \/ (exists i, e = NU i /\ repeated i (seen ++ ids)).
Proof.
  induction ids as [|i ids IH]; intros defined seen e; cbn [unique_defined]; [discriminate|].
  destruct (mem i defined) eqn:D; cbn [negb].
  - destruct (mem i seen) eqn:M.
    + intro H. inversion H; subst. right. exists i. split; [reflexivity|].
      apply mem_In, occ_In in M. unfold repeated. rewrite occ_app, occ_cons, N.eqb_refl. lia.
    + intro H. apply IH in H. destruct H as [(j & -> & Hj & Nj)|(j & -> & R)].
      * left. exists j. split; [reflexivity|]. split; [right; exact Hj|exact Nj].
      * right. exists j. split; [reflexivity|]. unfold repeated in *.
        rewrite occ_app, occ_cons in R. rewrite occ_app, occ_cons. lia.
  - intro H. inversion H; subst. left. exists i. split; [reflexivity|]. split; [left; reflexivity|].
    intro Hin. apply mem_In in Hin. congruence.
Qed.

Lemma first_err_some {X} (p : X -> option perr) : forall l e,
  first_err p l = Some e -> exists x, In x l /\ p x = Some e.
Proof.
  induction l as [|x l IH]; intros e; cbn [first_err]; [discriminate|].
  destruct (p x) as [e0|] eqn:P.
  - intro H. inversion H; subst. exists x. split; [left; reflexivity|exact P].
  - intro H. apply IH in H. destruct H as (y & Hy & Py). exists y. split; [right; exact Hy|exact Py].
Qed.

(* ------------------------------------------------------------------------------------------ *)
(* soundness, section by section                                                               *)
(* ------------------------------------------------------------------------------------------ *)
Lemma dvs_sound I h e : parse_dvs (i_dvs I) [] = Some e ->
  violated I h (with_ctx (M_INSTANCE, "decision_variables") e).
Proof.
  intro H. apply parse_dvs_some in H. destruct H as [(v & Hv & P)|(i & -> & R)].
  - apply parse_dv_some in P. destruct P as [[-> K]|[-> (l & u & B & Bad)]]; vio.
    + right. left. split; [reflexivity|]. split; [reflexivity|]. exists v. auto.
    + split; [reflexivity|]. exists v, l, u. auto.
  - vio. split; [reflexivity|exact R].
Qed.

Lemma constraints_sound I h e : parse_constrs (i_cs I) [] = Some e ->
  violated I h (with_ctx (M_INSTANCE, "constraints") e).
Proof.
  intro H. apply parse_constrs_some in H. destruct H as [(c & Hc & P)|(i & -> & R)].
  - apply parse_constr_some in P. destruct P as [[-> K]|[[-> K]|[-> K]]]; vio.
    + right. right. left. split; [reflexivity|]. split; [reflexivity|]. exists c. auto.
    + right. left. repeat (split; [reflexivity|]). exists c. auto.
    + right. left. split; [reflexivity|]. exists c. auto.
  - vio. left. split; [reflexivity|exact R].
Qed.

Lemma removed_sound I h e : parse_removed (i_rs I) (map c_id (i_cs I)) [] = Some e ->
  violated I h (with_ctx (M_INSTANCE, "removed_constraints") e).
Proof.
  intro H. apply parse_removed_some in H.
  destruct H as [[-> (r & Hr & E)]|[(r & c & e0 & Hr & E & P & ->)|(i & -> & Hi & R)]].
  - vio. right. right. right. repeat (split; [reflexivity|]). exists r. auto.
  - assert (Hc : removed_of I c) by (exists r; auto).
    apply parse_constr_some in P. destruct P as [[-> K]|[[-> K]|[-> K]]]; vio.
    + right. right. right. split; [reflexivity|]. split; [reflexivity|]. exists c. auto.
    + right. right. left. repeat (split; [reflexivity|]). exists c. auto.
    + right. right. left. split; [reflexivity|]. exists c. auto.
  - vio. right. split; [reflexivity|]. split.
    + apply in_map_iff in Hi. destruct Hi as (c & E & Hc). exists c. split; [|exact E].
      apply removed_constrs_In. exact Hc.
    + unfold all_constrs. rewrite map_app. exact R.
Qed.

Lemma hints_sound I h e :
  parse_hints h (map dv_id (i_dvs I)) (map c_id (i_cs I)) = Some e -> violated I h e.
Proof.
  unfold parse_hints. destruct h as [hh|]; [|discriminate].
  destruct (first_err _ (h_onehot hh)) as [e1|] eqn:F1.
  - intro H. inversion H; subst. clear H. apply first_err_some in F1. destruct F1 as (o & Ho & P).
    assert (Oo : onehot_of (Some hh) o) by (exists hh; auto).
    unfold parse_onehot in P. destruct (mem (fst o) (map c_id (i_cs I))) eqn:M; cbn [negb] in P.
    + destruct (unique_defined _ _ _ _ _) as [r|] eqn:Ud; [|discriminate]. inversion P; subst. clear P.
      apply unique_defined_some in Ud. destruct Ud as [(i & -> & Hi & Ni)|(i & -> & R)]; vio.
      * split; [exact Ni|]. right. right. right. right. left. split; [reflexivity|]. exists o. auto.
      * left. split; [reflexivity|]. exists o. auto.
    + inversion P; subst. vio. split.
      * intro Hin. apply mem_In in Hin. congruence.
      * left. split; [reflexivity|]. exists o. auto.
  - destruct (first_err _ (h_sos1 hh)) as [e2|] eqn:F2; [|discriminate].
    intro H. inversion H; subst. clear H. apply first_err_some in F2. destruct F2 as ([[b m] v] & Ho & P).
    assert (Oo : sos1_of (Some hh) (b, m, v)) by (exists hh; auto).
    unfold parse_sos1 in P. destruct (mem b (map c_id (i_cs I))) eqn:M; cbn [negb] in P.
    + destruct (unique_defined m _ _ _ _) as [r|] eqn:Um.
      * inversion P; subst. clear P.
        apply unique_defined_some in Um. destruct Um as [(i & -> & Hi & Ni)|(i & -> & R)]; vio.
        -- split; [exact Ni|]. right. right. split; [reflexivity|]. exists b, m, v. auto.
        -- split; [reflexivity|]. exists b, m, v. auto.
      * destruct (unique_defined v _ _ _ _) as [r|] eqn:Uv; [|discriminate]. inversion P; subst. clear P.
        apply unique_defined_some in Uv. destruct Uv as [(i & -> & Hi & Ni)|(i & -> & R)]; vio.
        -- split; [exact Ni|]. right. right. right. right. right. split; [reflexivity|]. exists b, m, v. auto.
        -- right. split; [reflexivity|]. exists b, m, v. auto.
    + inversion P; subst. vio. split.
      * intro Hin. apply mem_In in Hin. congruence.
      * right. left. split; [reflexivity|]. exists m, v. exact Oo.
Qed.

(* ------------------------------------------------------------------------------------------ *)
(* soundness of the whole conversion                                                           *)
(* ------------------------------------------------------------------------------------------ *)
Theorem parse_instance_sound I h errs :
  parse_instance I h = Some errs -> errs <> [] /\ forall e, In e errs -> violated I h e.
Proof.
  unfold parse_instance. cbv zeta.
  destruct ((i_sense I =? SENSE_MIN)%Z || (i_sense I =? SENSE_MAX)%Z) eqn:S; cbn [negb].
  2:{ intro H. inversion H; subst. split; [discriminate|]. intros e [<-|[]].
      apply orb_false_iff in S. destruct S as [S1 S2]. apply Z.eqb_neq in S1. apply Z.eqb_neq in S2.
      vio. left. auto. }
  destruct (parse_dvs (i_dvs I) []) as [e0|] eqn:Pd.
  { intro H. inversion H; subst. split; [discriminate|]. intros e [<-|[]]. apply dvs_sound. exact Pd. }
  destruct (i_obj I) as [f|] eqn:Ob.
  2:{ intro H. inversion H; subst. split; [discriminate|]. intros e [<-|[]]. vio. left. auto. }
  destruct (parse_fn f) as [e0|] eqn:Pf.
  { apply parse_fn_some in Pf. destruct Pf as [-> ->].
    intro H. inversion H; subst. split; [discriminate|]. intros e [<-|[]]. vio. left. auto. }
  destruct (undefined_in (fn_used f) (map dv_id (i_dvs I))) as [|u0 us] eqn:Uo.
  2:{ rewrite <- Uo. intro H. injection H as <-. split; [rewrite Uo; discriminate|]. intros e He.
      apply in_map_iff in He. destruct He as (i & <- & Hi). apply undefined_in_In in Hi.
      destruct Hi as [Hi Ni]. vio. split; [exact Ni|]. left. split; [reflexivity|]. exists f. auto. }
  destruct (parse_constrs (i_cs I) []) as [e0|] eqn:Pc.
  { intro H. inversion H; subst. split; [discriminate|]. intros e [<-|[]]. apply constraints_sound. exact Pc. }
  destruct (undefined_in (flat_map constr_used (i_cs I)) (map dv_id (i_dvs I))) as [|u0 us] eqn:Uc.
  2:{ rewrite <- Uc. intro H. injection H as <-. split; [rewrite Uc; discriminate|]. intros e He.
      apply in_map_iff in He. destruct He as (i & <- & Hi). apply undefined_in_In in Hi.
      destruct Hi as [Hi Ni]. apply in_flat_map in Hi. destruct Hi as (c & Hc & Hi).
      apply constr_used_In in Hi. destruct Hi as (g & Eg & Hi).
      vio. split; [exact Ni|]. right. left. split; [reflexivity|]. exists c, g. auto. }
  destruct (parse_removed (i_rs I) (map c_id (i_cs I)) []) as [e0|] eqn:Pr.
  { intro H. inversion H; subst. split; [discriminate|]. intros e [<-|[]]. apply removed_sound. exact Pr. }
  destruct (undefined_in (flat_map constr_used (removed_constrs (i_rs I))) (map dv_id (i_dvs I))) as [|u0 us] eqn:Ur.
  2:{ rewrite <- Ur. intro H. injection H as <-. split; [rewrite Ur; discriminate|]. intros e He.
      apply in_map_iff in He. destruct He as (i & <- & Hi). apply undefined_in_In in Hi.
      destruct Hi as [Hi Ni]. apply in_flat_map in Hi. destruct Hi as (c & Hc & Hi).
      apply constr_used_In in Hi. destruct Hi as (g & Eg & Hi). apply removed_constrs_In in Hc.
      vio. split; [exact Ni|]. right. right. left. split; [reflexivity|]. exists c, g. auto. }
  match goal with |- context [flat_map ?g (i_deps I)] => destruct (flat_map g (i_deps I)) as [|d0 ds] eqn:Dp end.
  2:{ intro H. injection H as <-. split; [discriminate|]. intros e He. rewrite <- Dp in He.
      apply in_flat_map in He. destruct He as ([d g] & Hd & He). cbn [fst snd] in He.
      apply in_app_or in He. destruct He as [He|He].
      - destruct (mem d (map dv_id (i_dvs I))) eqn:M; [destruct He|]. destruct He as [<-|[]].
        vio. split; [intro Hin; apply mem_In in Hin; congruence|].
        right. right. right. left. split; [reflexivity|]. exists g. exact Hd.
      - destruct (parse_fn g) as [r|] eqn:Pg; [|destruct He]. apply parse_fn_some in Pg.
        destruct Pg as [-> ->]. destruct He as [<-|[]]. vio. right. right. right.
        split; [reflexivity|]. exists d. exact Hd. }
  destruct (parse_hints h (map dv_id (i_dvs I)) (map c_id (i_cs I))) as [e0|] eqn:Ph; [|discriminate].
  intro H. inversion H; subst. split; [discriminate|]. intros e [<-|[]]. apply hints_sound. exact Ph.
Qed.

(* ------------------------------------------------------------------------------------------ *)
(* [violated] is not vacuous: each of its cases contradicts well-formedness, so a message for   *)
(* which some error is [violated] is rejected                                                  *)
(* ------------------------------------------------------------------------------------------ *)
Lemma unique_defined_none (U NU : N -> raw_err) : forall ids defined seen,
  unique_defined ids defined seen U NU = None <->
  (forall i, In i ids -> In i defined) /\ NoDup ids /\ (forall i, In i ids -> ~ In i seen).
Proof.
  induction ids as [|i ids IH]; intros defined seen; cbn [unique_defined].
  - split; [intros _; split; [intros ? []|split; [constructor|intros ? []]]|reflexivity].
  - destruct (mem i defined) eqn:D; cbn [negb].
    + destruct (mem i seen) eqn:M.
      * split; [discriminate|]. intros (_ & _ & H). exfalso. apply (H i (or_introl eq_refl)).
        apply mem_In. exact M.
      * rewrite IH. split.
        -- intros (H1 & H2 & H3). split; [|split].
           ++ intros j [<-|Hj]; [apply mem_In; exact D|apply H1; exact Hj].
           ++ constructor; [|exact H2]. intro Hin. apply (H3 i Hin). left. reflexivity.
           ++ intros j [<-|Hj]; [intro Hin; apply mem_In in Hin; congruence|].
              intro Hin. apply (H3 j Hj). right. exact Hin.
        -- intros (H1 & H2 & H3). inversion H2 as [|? ? Hn Hd]; subst. split; [|split].
           ++ intros j Hj. apply H1. right. exact Hj.
           ++ exact Hd.
           ++ intros j Hj [E|Hin]; [subst; contradiction|apply (H3 j (or_intror Hj)); exact Hin].
    + split; [discriminate|]. intros (H & _). specialize (H i (or_introl eq_refl)).
      apply mem_In in H. congruence.
Qed.

Lemma first_err_none {X} (p : X -> option perr) : forall l,
  first_err p l = None <-> forall x, In x l -> p x = None.
Proof.
  induction l as [|x l IH]; cbn [first_err]; [split; [intros _ ? []|reflexivity]|].
  destruct (p x) as [e|] eqn:P.
  - split; [discriminate|]. intro H. rewrite (H x (or_introl eq_refl)) in P. discriminate.
  - rewrite IH. split; [intros H y [<-|Hy]; auto|intros H y Hy; apply H; right; exact Hy].
Qed.

Definition onehot_ok (dvids cids : list N) (o : N * list N) : Prop :=
  In (fst o) cids /\ (forall i, In i (snd o) -> In i dvids) /\ NoDup (snd o).
Definition sos1_ok (dvids cids : list N) (o : N * list N * list N) : Prop :=
  let '(b, m, v) := o in
  In b cids /\ (forall i, In i m -> In i cids) /\ NoDup m /\ (forall i, In i v -> In i dvids) /\ NoDup v.

Lemma parse_onehot_none o dvids cids : parse_onehot o dvids cids = None <-> onehot_ok dvids cids o.
Proof.
  unfold parse_onehot, onehot_ok. destruct (mem (fst o) cids) eqn:M; cbn [negb].
  - destruct (unique_defined _ _ _ _ _) as [r|] eqn:Ud.
    + split; [discriminate|]. intros (_ & H1 & H2).
      assert (N : unique_defined (snd o) dvids [] EUndefVar ENonUniqueVar = None).
      { apply unique_defined_none. split; [exact H1|]. split; [exact H2|intros ? _ []]. }
      congruence.
    + apply unique_defined_none in Ud. destruct Ud as (H1 & H2 & _).
      split; [intros _|reflexivity]. split; [apply mem_In; exact M|]. auto.
  - split; [discriminate|]. intros (H & _). apply mem_In in H. congruence.
Qed.

Lemma parse_sos1_none o dvids cids : parse_sos1 o dvids cids = None <-> sos1_ok dvids cids o.
Proof.
  destruct o as [[b m] v]. unfold parse_sos1, sos1_ok. destruct (mem b cids) eqn:M; cbn [negb].
  - destruct (unique_defined m _ _ _ _) as [r|] eqn:Um.
    + split; [discriminate|]. intros (_ & H1 & H2 & _).
      assert (N : unique_defined m cids [] EUndefConstr ENonUniqueConstr = None).
      { apply unique_defined_none. split; [exact H1|]. split; [exact H2|intros ? _ []]. }
      congruence.
    + apply unique_defined_none in Um. destruct Um as (M1 & M2 & _).
      destruct (unique_defined v _ _ _ _) as [r|] eqn:Uv.
      * split; [discriminate|]. intros (_ & _ & _ & H1 & H2).
        assert (N : unique_defined v dvids [] EUndefVar ENonUniqueVar = None).
        { apply unique_defined_none. split; [exact H1|]. split; [exact H2|intros ? _ []]. }
        congruence.
      * apply unique_defined_none in Uv. destruct Uv as (V1 & V2 & _).
        split; [intros _|reflexivity]. split; [apply mem_In; exact M|]. auto.
  - split; [discriminate|]. intros (H & _). apply mem_In in H. congruence.
Qed.

(* the last conjunct of wf_typed, declaratively *)
Theorem parse_hints_none_iff h dvids cids : parse_hints h dvids cids = None <->
  (forall o, onehot_of h o -> onehot_ok dvids cids o) /\
  (forall o, sos1_of h o -> sos1_ok dvids cids o).
Proof.
  unfold parse_hints, onehot_of, sos1_of. destruct h as [hh|].
  2:{ split; [intros _; split; intros o (hh & E & _); discriminate|reflexivity]. }
  destruct (first_err _ (h_onehot hh)) as [e|] eqn:F1.
  { split; [discriminate|]. intros [H _].
    assert (N : first_err (fun o => parse_onehot o dvids cids) (h_onehot hh) = None).
    { apply first_err_none. intros o Ho. apply parse_onehot_none. apply H. exists hh. auto. }
    congruence. }
  assert (F1' := proj1 (first_err_none _ _) F1).
  destruct (first_err _ (h_sos1 hh)) as [e|] eqn:F2.
  { split; [discriminate|]. intros [_ H].
    assert (N : first_err (fun o => parse_sos1 o dvids cids) (h_sos1 hh) = None).
    { apply first_err_none. intros o Ho. apply parse_sos1_none. apply H. exists hh. auto. }
    congruence. }
  assert (F2' := proj1 (first_err_none _ _) F2).
  split; [intros _|reflexivity]. split.
  - intros o (hh' & E & Ho). inversion E; subst. apply parse_onehot_none. apply F1'. exact Ho.
  - intros o (hh' & E & Ho). inversion E; subst. apply parse_sos1_none. apply F2'. exact Ho.
Qed.

Theorem violated_not_wf I h e : violated I h e -> ~ wf_typed I h.
Proof.
  intros V (W1 & W2 & W3 & (fo & Efo & Nfo & Ufo) & W5 & W6 & W7 & W8 & W9).
  apply parse_hints_none_iff in W9. destruct W9 as [Woh Wso].
  assert (W5r : forall c, removed_of I c -> In c (all_constrs I)).
  { intros c Hc. apply in_or_app. right. apply removed_constrs_In. exact Hc. }
  assert (W5a : forall c, In c (i_cs I) -> In c (all_constrs I)).
  { intros c Hc. apply in_or_app. left. exact Hc. }
  destruct e as [r p]. unfold violated in V. cbv zeta in V. cbn [fst snd] in V. destruct r.
  - (* EUnsupported *)
    destruct V as [[_ E]|[(_ & c & Hc & E)|[(_ & c & Hc & E)|(_ & d & Hd)]]].
    + congruence.
    + destruct (W5 c (W5a c Hc)) as (_ & (f & Ef & Nf) & _). congruence.
    + destruct (W5 c (W5r c Hc)) as (_ & (f & Ef & Nf) & _). congruence.
    + destruct (W8 d FUnset Hd) as [_ Nf]. congruence.
  - (* EMissing *)
    destruct V as [(_ & _ & _ & E)|[(_ & _ & _ & c & Hc & E)|[(_ & _ & _ & c & Hc & E)|(_ & _ & _ & r & Hr & E)]]].
    + congruence.
    + destruct (W5 c (W5a c Hc)) as (_ & (f & Ef & Nf) & _). congruence.
    + destruct (W5 c (W5r c Hc)) as (_ & (f & Ef & Nf) & _). congruence.
    + exact (W6 r Hr E).
  - (* EUnspecified *)
    destruct V as [(_ & _ & N1 & N2)|[(_ & _ & v & Hv & K)|[(_ & _ & c & Hc & N1 & N2)|(_ & _ & c & Hc & N1 & N2)]]].
    + destruct W1; contradiction.
    + apply K. apply (W2 v Hv).
    + destruct (W5 c (W5a c Hc)) as ([E|E] & _); contradiction.
    + destruct (W5 c (W5r c Hc)) as ([E|E] & _); contradiction.
  - (* EDupVar *)
    destruct V as [_ R]. exact (repeated_not_NoDup _ _ R W3).
  - (* EDupConstr *)
    destruct V as [[_ R]|(_ & _ & R)].
    + unfold all_constrs in W7. rewrite map_app in W7. apply NoDup_app_iff in W7.
      exact (repeated_not_NoDup _ _ R (proj1 W7)).
    + exact (repeated_not_NoDup _ _ R W7).
  - (* EUndefVar *)
    destruct V as [Ni [(_ & f & Ef & Hi)|[(_ & c & f & Hc & Ef & Hi)|[(_ & c & f & Hc & Ef & Hi)|[(_ & f & Hd)|[(_ & o & Ho & Hi)|(_ & b & m & v & Ho & Hi)]]]]]]; apply Ni.
    + rewrite Efo in Ef. inversion Ef; subst. apply Ufo. exact Hi.
    + destruct (W5 c (W5a c Hc)) as (_ & _ & U). apply U. apply constr_used_In. exists f. auto.
    + destruct (W5 c (W5r c Hc)) as (_ & _ & U). apply U. apply constr_used_In. exists f. auto.
    + apply (W8 id f Hd).
    + destruct (Woh o Ho) as (_ & U & _). apply U. exact Hi.
    + destruct (Wso _ Ho) as (_ & _ & _ & U & _). apply U. exact Hi.
  - (* EUndefConstr *)
    destruct V as [Ni [(_ & o & Ho & E)|[(_ & m & v & Ho)|(_ & b & m & v & Ho & Hi)]]]; apply Ni.
    + subst id. apply (Woh o Ho).
    + destruct (Wso _ Ho) as (U & _). exact U.
    + destruct (Wso _ Ho) as (_ & U & _). apply U. exact Hi.
  - (* ENonUniqueVar *)
    destruct V as [(_ & o & Ho & R)|(_ & b & m & v & Ho & R)].
    + destruct (Woh o Ho) as (_ & _ & Nd). exact (repeated_not_NoDup _ _ R Nd).
    + destruct (Wso _ Ho) as (_ & _ & _ & _ & Nd). exact (repeated_not_NoDup _ _ R Nd).
  - (* ENonUniqueConstr *)
    destruct V as (_ & b & m & v & Ho & R).
    destruct (Wso _ Ho) as (_ & _ & Nd & _). exact (repeated_not_NoDup _ _ R Nd).
  - (* EInvalidBound *)
    destruct V as (_ & v & l & u & Hv & B & Bad).
    destruct (W2 v Hv) as [_ Nb]. apply Nb. apply dv_bound_of_none. exists l, u. auto.
Qed.

Corollary violated_rejects I h e : violated I h e -> parse_instance I h <> None.
Proof. intros V H. apply parse_instance_iff in H. exact (violated_not_wf I h e V H). Qed.

(* a message is rejected exactly when some error is [violated]; it is accepted exactly when none is *)
Corollary rejected_iff_violated I h : parse_instance I h <> None <-> exists e, violated I h e.
Proof.
  split.
  - destruct (parse_instance I h) as [errs|] eqn:P; [intros _|intro H; contradiction].
    destruct (parse_instance_sound I h errs P) as [Ne Hv].
    destruct errs as [|e errs]; [contradiction|]. exists e. apply Hv. left. reflexivity.
  - intros (e & V). exact (violated_rejects I h e V).
Qed.
Corollary wf_typed_iff_no_violation I h : wf_typed I h <-> forall e, ~ violated I h e.
Proof.
  rewrite <- parse_instance_iff. split.
  - intros H e V. exact (violated_rejects I h e V H).
  - intro H. destruct (parse_instance I h) as [errs|] eqn:P; [|reflexivity]. exfalso.
    assert (R : parse_instance I h <> None) by congruence.
    apply rejected_iff_violated in R. destruct R as (e & V). exact (H e V).
Qed.

(* ------------------------------------------------------------------------------------------ *)
(* examples: what the model reports (vm_compute) and what the theorem then says of the message  *)
(* ------------------------------------------------------------------------------------------ *)
Local Open Scope N_scope.
Definition x_dv (i : N) : dvar :=
  {| dv_id := i; dv_kind := KIND_BINARY; dv_bound := None; dv_subst := None; dv_meta := [] |}.
Definition x_lin (ids : list N) : function :=
  FLin {| l_terms := map (fun i => (i, 1%Qc)) ids; l_const := 0%Qc |}.
Definition x_c (i : N) (eq : Z) (ids : list N) : constr :=
  {| c_id := i; c_eq := eq; c_fn := Some (x_lin ids); c_meta := [] |}.
Definition x_r (c : constr) : removed := {| r_c := Some c; r_reason := L []; r_params := L [] |}.
Definition x_inst (dvs : list dvar) (obj : option function) (cs : list constr) (rs : list removed)
           (deps : list (N * function)) : instance :=
  {| i_sense := SENSE_MIN; i_obj := obj; i_dvs := dvs; i_cs := cs; i_rs := rs; i_deps := deps;
     i_params := None; i_hints := L []; i_desc := L [] |}.

(* a well-formed message: variables 1 2 3, active constraints 10 11, removed constraint 20 *)
Definition x_ok : instance :=
  x_inst [x_dv 1; x_dv 2; x_dv 3] (Some (x_lin [1; 2]))
         [x_c 10 EQ_ZERO [1]; x_c 11 LE_ZERO [2; 3]] [x_r (x_c 20 LE_ZERO [3])] [(3, x_lin [1])].
Definition x_hints_ok : option hints :=
  Some {| h_onehot := [(10, [1; 2])]; h_sos1 := [(10, [11; 10], [2; 3])] |}.
Example ex_ok : parse_instance x_ok x_hints_ok = None.
Proof. vm_compute. reflexivity. Qed.
Example ex_ok_no_violation : forall e, ~ violated x_ok x_hints_ok e.
Proof. apply wf_typed_iff_no_violation. apply parse_instance_iff. exact ex_ok. Qed.

(* 1. duplicate variable id *)
Definition x_dupvar : instance :=
  x_inst [x_dv 1; x_dv 2; x_dv 1; x_dv 3] (Some (x_lin [1; 2]))
         [x_c 10 EQ_ZERO [1]; x_c 11 LE_ZERO [2; 3]] [x_r (x_c 20 LE_ZERO [3])] [].
Example ex_dupvar_reported :
  parse_instance x_dupvar None = Some [(EDupVar 1, [(M_INSTANCE, "decision_variables")])].
Proof. vm_compute. reflexivity. Qed.
Example ex_dupvar_meaning : repeated 1 (map dv_id (i_dvs x_dupvar)).
Proof.
  destruct (parse_instance_sound _ _ _ ex_dupvar_reported) as [_ H].
  specialize (H _ (or_introl eq_refl)). unfold violated in H. cbv zeta in H. cbn [fst snd] in H.
  exact (proj2 H).
Qed.

(* 2. undefined id in a removed constraint *)
Definition x_undef_removed : instance :=
  x_inst [x_dv 1; x_dv 2; x_dv 3] (Some (x_lin [1; 2]))
         [x_c 10 EQ_ZERO [1]; x_c 11 LE_ZERO [2; 3]] [x_r (x_c 20 LE_ZERO [3; 7])] [].
Example ex_undef_removed_reported :
  parse_instance x_undef_removed None = Some [(EUndefVar 7, [(M_INSTANCE, "removed_constraints")])].
Proof. vm_compute. reflexivity. Qed.
Example ex_undef_removed_meaning :
  ~ In 7 (map dv_id (i_dvs x_undef_removed)) /\
  exists c f, removed_of x_undef_removed c /\ c_fn c = Some f /\ In 7 (fn_used f).
Proof.
  destruct (parse_instance_sound _ _ _ ex_undef_removed_reported) as [_ H].
  specialize (H _ (or_introl eq_refl)). unfold violated in H. cbv zeta in H. cbn [fst snd] in H.
  destruct H as [Ni H]. split; [exact Ni|].
  destruct H as [[E _]|[[E _]|[[_ H]|[[E _]|[[E _]|[E _]]]]]]; try discriminate E. exact H.
Qed.

(* 3. a SOS1 hint repeating a big-M constraint id *)
Definition x_hints_bigm : option hints :=
  Some {| h_onehot := [(10, [1; 2])]; h_sos1 := [(10, [11; 10; 11], [2; 3])] |}.
Example ex_bigm_reported :
  parse_instance x_ok x_hints_bigm =
  Some [(ENonUniqueConstr 11, [(M_SOS1, "big_m_constraint_ids"); (M_HINTS, "sos1_constraints");
                               (M_INSTANCE, "constraint_hints")])].
Proof. vm_compute. reflexivity. Qed.
Example ex_bigm_meaning : exists b m v, sos1_of x_hints_bigm (b, m, v) /\ repeated 11 m.
Proof.
  destruct (parse_instance_sound _ _ _ ex_bigm_reported) as [_ H].
  specialize (H _ (or_introl eq_refl)). unfold violated in H. cbv zeta in H. cbn [fst snd] in H.
  exact (proj2 H).
Qed.

(* 4. several candidates (hash-map order): two undefined ids in the objective, both reports are right;
      the later faults of the same message (duplicate constraint id 10) are not reported but the
      message is still one for which a constraint-id error would be [violated] *)
Definition x_two : instance :=
  x_inst [x_dv 1; x_dv 2; x_dv 3] (Some (x_lin [8; 1; 9]))
         [x_c 10 EQ_ZERO [1]; x_c 10 LE_ZERO [2; 3]] [] [].
Example ex_two_reported :
  parse_instance x_two None = Some [(EUndefVar 8, [(M_INSTANCE, "objective")]);
                                    (EUndefVar 9, [(M_INSTANCE, "objective")])].
Proof. vm_compute. reflexivity. Qed.
Example ex_two_meaning :
  violated x_two None (EUndefVar 8, [(M_INSTANCE, "objective")]) /\
  violated x_two None (EUndefVar 9, [(M_INSTANCE, "objective")]) /\
  violated x_two None (EDupConstr 10, [(M_INSTANCE, "constraints")]).
Proof.
  destruct (parse_instance_sound _ _ _ ex_two_reported) as [_ H].
  split; [apply H; left; reflexivity|]. split; [apply H; right; left; reflexivity|].
  vio. left. split; [reflexivity|]. unfold repeated. vm_compute. lia.
Qed.

(* 5. an invalid bound (upper < lower) on the second variable *)
Definition x_badbound : instance :=
  x_inst [x_dv 1; {| dv_id := 2; dv_kind := KIND_CONTINUOUS; dv_bound := Some (Fin 1%Qc, Fin 0%Qc);
                     dv_subst := None; dv_meta := [] |}] (Some (x_lin [1; 2])) [] [] [].
Example ex_badbound_reported :
  parse_instance x_badbound None =
  Some [(EInvalidBound, [(M_DV, "bound"); (M_INSTANCE, "decision_variables")])].
Proof. vm_compute. reflexivity. Qed.
Example ex_badbound_meaning :
  exists v l u, In v (i_dvs x_badbound) /\ dv_bound v = Some (l, u) /\ bad_bound l u.
Proof.
  destruct (parse_instance_sound _ _ _ ex_badbound_reported) as [_ H].
  specialize (H _ (or_introl eq_refl)). unfold violated in H. cbv zeta in H. cbn [fst snd] in H.
  exact (proj2 H).
Qed.

Print Assumptions parse_instance_sound.
Print Assumptions violated_not_wf.
Print Assumptions rejected_iff_violated.
Print Assumptions wf_typed_iff_no_violation.
Print Assumptions parse_hints_none_iff.
Print Assumptions ex_dupvar_meaning.
Print Assumptions ex_undef_removed_meaning.
Print Assumptions ex_bigm_meaning.
Print Assumptions ex_two_meaning.
