(* RunC03i.v — C03 at instance level, on top of the function-level runner. *)
Require Import Ommx.Num Ommx.Poly Ommx.Msg Ommx.Eval Ommx.Tree Ommx.Arith Ommx.PEval Ommx.Inst Ommx.Relax
        Ommx.RunC02 Ommx.RunC03 Ommx.RunC05 Ommx.RunC14 Ommx.Transform Ommx.RunTransform Ommx.Samples
        Ommx.RunSamples Ommx.PEvalInst.
From Coq Require Import String.
Open Scope string_scope.

Fixpoint pe_all (I : instance) (steps : list state) (last_ids : list N) : option (instance * list N) :=
  match steps with
  | [] => Some (I, last_ids)
  | s :: steps' =>
      match inst_pe tiny_eps I s with
      | Some (J, u) => pe_all J steps' u
      | None => None
      end
  end.
Fixpoint all_disjoint (l : list (list N)) : bool :=
  match l with
  | [] => true
  | a :: l' => forallb (disjoint_b a) l' && all_disjoint l'
  end.

(* what C03_instance / C03_instance_state relate: everything but the used-id lists of the
   constraint records (a partially evaluated constraint no longer uses the fixed ids) *)
Definition sol_eqb_pe (dvids : list N) (a b : solution) : bool :=
  qeqb (so_objective a) (so_objective b) && Bool.eqb (so_feasible a) (so_feasible b) &&
  Bool.eqb (so_feasible_relaxed a) (so_feasible_relaxed b) && state_eqb_on dvids (so_state a) (so_state b) &&
  list_eqb (fun x y => (ev_id x =? ev_id y)%N && (ev_eq x =? ev_eq y)%Z && qeqb (ev_value x) (ev_value y) &&
                        trees_eqb (ev_meta x) (ev_meta y) &&
                        optb (fun p q => tree_eqb (fst p) (fst q) && tree_eqb (snd p) (snd q)) (ev_removed x) (ev_removed y))
           (so_evaluated a) (so_evaluated b).

Definition run_C03i (case : tree) : tree :=
  match case with
  | L [A "inst_pe_steps"; L [i; ss; sl]; L [res; ev1; ev2]] =>
      match d_instance i, d_list d_state ss, d_state sl with
      | Some I', Some steps, Some b =>
          if negb (all_disjoint (map state_keys (b :: steps))) then badcase "inst_pe_steps: states must be disjoint"
          else
          let a := List.concat steps in
          let s12 := (a ++ b)%list in
          match pe_all I' steps [] with
          | None => if is_err res || is_panic res then agree ["inst-pe"; "err"]
                    else disagree "Instance::partial_evaluate must fail" (A "err")
          | Some (J, used) =>
              match ok_payload res with
              | Some (L [jt; ut]) =>
                  match d_instance jt, d_list d_N ut with
                  | Some G, Some ids =>
                      if negb (instance_eqb G J)
                      then disagree "partially evaluated instance (objective, constraints, removed constraints, dependencies; substituted_value recorded on every fixed variable, also after several steps)" (e_instance_brief J)
                      else if negb (set_eqb ids used) then disagree "returned id set" (e_list e_N used)
                      else if negb (subset ids (state_keys a)) then disagree "returned ids must be fixed variables" (e_list e_N used)
                      else
                        match inst_eval J b, inst_eval I' s12 with
                        | Some m1, Some m2 =>
                            if negb (sol_eqb_pe (map dv_id (i_dvs I')) m1 m2)
                            then badcase "MODEL: evaluate(pe I s1.., s_last) differs from evaluate(I, union)"
                            else
                              match judge_inst_eval J b ev1 with
                              | L (A "agree" :: _) =>
                                  match judge_inst_eval I' s12 ev2 with
                                  | L (A "agree" :: _) =>
                                      agree ["inst-pe"; "commutes"; match steps with [_] => "one-step" | [] => "no-step" | _ => "multi-step" end]
                                  | v => v
                                  end
                              | v => v
                              end
                        | _, _ => badcase "inst_pe_steps: generator must give an in-bound covering split"
                        end
                  | _, _ => badresult "inst_pe_steps: shape"
                  end
              | _ => if is_err res || is_panic res then disagree "Instance::partial_evaluate must succeed" (e_instance_brief J)
                     else badresult "inst_pe_steps: shape"
              end
          end
      | _, _, _ => badcase "inst_pe_steps: input"
      end
  | _ => run_C03 case
  end.
