(* SlackProofs.v — C13: the integer-slack conversions preserve the feasible set. *)
Require Import Ommx.Num Ommx.Poly Ommx.Msg Ommx.Eval Ommx.Tree Ommx.Arith Ommx.ArithProofs Ommx.Inst
        Ommx.Relax Ommx.Transform Ommx.Bound Ommx.BoundProofs Ommx.BoundContent Ommx.BoundEval Ommx.Slack.
From Coq Require Import String.
Close Scope string_scope.
Open Scope list_scope.
Open Scope Qc_scope.

(* ---- integers ---- *)
Lemma qz_plus (a b : Z) : qz (a + b)%Z = qz a + qz b.
Proof. qc2q. rewrite !this_qz. rewrite inject_Z_plus. reflexivity. Qed.
Lemma qz_opp (a : Z) : qz (- a)%Z = - qz a.
Proof. qc2q. rewrite !this_qz. rewrite inject_Z_opp. reflexivity. Qed.
Lemma is_int_plus a b : is_int a -> is_int b -> is_int (a + b).
Proof. intros [x ->] [y ->]. exists (x + y)%Z. symmetry. apply qz_plus. Qed.
Lemma is_int_mult a b : is_int a -> is_int b -> is_int (a * b).
Proof. intros [x ->] [y ->]. exists (x * y)%Z. symmetry. apply qz_mul. Qed.
Lemma is_int_0 : is_int 0. Proof. exists 0%Z. symmetry. apply qz_0. Qed.
Lemma is_int_1 : is_int 1. Proof. exists 1%Z. symmetry. apply qz_1. Qed.

Definition int_valued (rho : valuation) : Prop := forall i, is_int (rho i).

Lemma mono_val_int rho m : int_valued rho -> is_int (mono_val rho m).
Proof.
  intro H. induction m as [|i m IH]; cbn [mono_val]; [apply is_int_1|apply is_int_mult; auto].
Qed.

(* a polynomial all of whose coefficients become integers after scaling by a takes, scaled by a,
   integer values at integer points *)
Lemma int_combination a rho (t : terms) :
  (forall m c, In (m, c) t -> is_int (a * c)) -> int_valued rho -> is_int (a * val rho t).
Proof.
  intros Hc Hr. induction t as [|[m c] t IH].
  - rewrite val_nil. replace (a * 0) with 0 by ring. apply is_int_0.
  - rewrite val_cons. replace (a * (c * mono_val rho m + val rho t)) with ((a * c) * mono_val rho m + a * val rho t) by ring.
    apply is_int_plus.
    + apply is_int_mult; [apply (Hc m c); left; reflexivity|apply mono_val_int; exact Hr].
    + apply IH. intros m' c' Hin. apply (Hc m' c'). right. exact Hin.
Qed.

Lemma eleb_fin a b : eleb (Fin a) (Fin b) = true <-> a <= b.
Proof. cbn [eleb]. apply qleb_le. Qed.

(* ---- the mathematical core ---- *)
Section Core.
  Variable tiny : num -> bool.
  Hypothesis TE : tiny_exact tiny.

  (* the scaled function a*f takes integer values, bounded below by the integer bound *)
  Lemma scaled_value f a af bs B0 B rho :
    content_factor f = Some a -> fn_mul tiny f (FConst a) = Some af ->
    evaluate_bound af bs = Some B0 -> as_integer_bound B0 = Some B ->
    valid_box bs -> in_box rho bs -> int_valued rho ->
    0 < a /\ exists z : Z, a * denote f rho = qz z /\ bmem (qz z) B = true.
  Proof.
    intros Hc Hm He Hi Vb Ib Ir.
    destruct (content_factor_sound _ _ Hc) as (Apos & Aint & _).
    split; [exact Apos|].
    assert (Hz : is_int (a * denote f rho)).
    { unfold denote. apply int_combination; [|exact Ir]. intros m c Hin. apply Aint. exists m. exact Hin. }
    destruct Hz as [z Ez]. exists z. split; [exact Ez|].
    destruct (evaluate_bound_encloses _ _ rho _ Vb Ib He) as [V0 M0].
    assert (Ed : denote af rho = qz z).
    { rewrite (fn_mul_sound tiny TE _ _ _ Hm rho). unfold denote at 2; cbn [fn_terms].
      rewrite val_cons, val_nil. cbn [mono_val]. rewrite <- Ez. ring. }
    rewrite Ed in M0.
    destruct (as_integer_bound_sound B0 z V0 M0) as (R & ER & _ & Hall).
    rewrite Hi in ER. inversion ER; subst R. apply Hall. exact M0.
  Qed.

  (* order facts, pushed to Q *)
  Lemma scaled_sign a x z : 0 < a -> a * x = z -> (x <= 0 <-> z <= 0).
  Proof. intros Ha E. split; intro H; qc2q; nra. Qed.
  Lemma scaled_pos a x z : 0 < a -> a * x = z -> (0 < x <-> 0 < z).
  Proof. intros Ha E. split; intro H; qc2q; nra. Qed.
  Lemma inv_pos a ia : 0 < a -> a * ia = 1 -> 0 < ia.
  Proof. intros Ha E. qc2q. nra. Qed.

  (* f(x) <= 0 exactly when some integer slack 0 <= s <= -L solves f(x) + s/a = 0 *)
  Theorem convert_equiv f a af bs B0 B l rho :
    content_factor f = Some a -> fn_mul tiny f (FConst a) = Some af ->
    evaluate_bound af bs = Some B0 -> as_integer_bound B0 = Some B -> lower B = Fin l ->
    valid_box bs -> in_box rho bs -> int_valued rho ->
    (denote f rho <= 0 <-> exists s : Z, 0 <= qz s /\ qz s <= - l /\ denote f rho + qz s * (1 / a) = 0).
  Proof.
    intros Hc Hm He Hi Hl Vb Ib Ir.
    destruct (scaled_value _ _ _ _ _ _ _ Hc Hm He Hi Vb Ib Ir) as (Apos & z & Ez & Mz).
    assert (Ane : a <> 0) by (apply not_eq_sym; apply Qclt_not_eq; exact Apos).
    apply bmem_inv in Mz. destruct Mz as [Mlo _]. rewrite Hl in Mlo. apply eleb_fin in Mlo.
    set (ia := 1 / a). assert (Hia : a * ia = 1) by (unfold ia; field; exact Ane).
    pose proof (inv_pos a ia Apos Hia) as Ipos.
    set (F := denote f rho) in *.
    split.
    - intro Hle. exists (- z)%Z. rewrite qz_opp.
      assert (Hz0 : qz z <= 0) by (apply (scaled_sign a F (qz z) Apos Ez); exact Hle).
      split; [|split].
      + clear - Hz0. qc2q. lra.
      + clear - Mlo. qc2q. lra.
      + rewrite <- Ez. transitivity (F - F * (a * ia)); [ring|]. rewrite Hia. ring.
    - intros (s & Hs0 & _ & Heq). clear - Hs0 Heq Ipos. qc2q. nra.
  Qed.

  (* interval analysis says "always": the inequality holds at every integer point of the box *)
  Theorem convert_always f a af bs B0 B rho :
    content_factor f = Some a -> fn_mul tiny f (FConst a) = Some af ->
    evaluate_bound af bs = Some B0 -> as_integer_bound B0 = Some B -> ext_le0 (upper B) = true ->
    valid_box bs -> in_box rho bs -> int_valued rho -> denote f rho <= 0.
  Proof.
    intros Hc Hm He Hi Hu Vb Ib Ir.
    destruct (scaled_value _ _ _ _ _ _ _ Hc Hm He Hi Vb Ib Ir) as (Apos & z & Ez & Mz).
    apply bmem_inv in Mz. destruct Mz as [_ Mhi]. unfold ext_le0 in Hu.
    assert (Hz0 : qz z <= 0).
    { destruct (upper B) as [|u| |]; cbn [eleb] in *; try discriminate.
      apply (proj1 (qleb_le _ _)) in Mhi. apply (proj1 (qleb_le _ _)) in Hu. exact (Qcle_trans _ _ _ Mhi Hu). }
    apply (scaled_sign a (denote f rho) (qz z) Apos Ez). exact Hz0.
  Qed.

  (* interval analysis says "never": the inequality fails at every integer point of the box *)
  Theorem convert_never f a af bs B0 B rho :
    content_factor f = Some a -> fn_mul tiny f (FConst a) = Some af ->
    evaluate_bound af bs = Some B0 -> as_integer_bound B0 = Some B -> ext_gt0 (lower B) = true ->
    valid_box bs -> in_box rho bs -> int_valued rho -> 0 < denote f rho.
  Proof.
    intros Hc Hm He Hi Hl Vb Ib Ir.
    destruct (scaled_value _ _ _ _ _ _ _ Hc Hm He Hi Vb Ib Ir) as (Apos & z & Ez & Mz).
    apply bmem_inv in Mz. destruct Mz as [Mlo _]. unfold ext_gt0 in Hl.
    assert (Hz0 : 0 < qz z).
    { destruct (lower B) as [|l| |]; cbn [eltb eleb negb] in *; try discriminate.
      apply (proj1 (qleb_le _ _)) in Mlo. apply negb_true_iff in Hl. apply (proj1 (qleb_gt _ _)) in Hl.
      exact (Qclt_le_trans _ _ _ Hl Mlo). }
    apply (scaled_pos a (denote f rho) (qz z) Apos Ez). exact Hz0.
  Qed.

  (* adding a bounded slack term b*s with b = -L/U >= 0 keeps the projection onto x *)
  Theorem add_equiv f bs B l U rho :
    evaluate_bound f bs = Some B -> lower B = Fin l -> ext_gt0 (lower B) = false -> (0 < U)%Z ->
    let b := (- l) / qz U in
    0 <= b /\
    (denote f rho <= 0 <-> exists s : Z, (0 <= s <= U)%Z /\ denote f rho + b * qz s <= 0).
  Proof.
    intros He Hl Hg HU b.
    assert (Hl0 : l <= 0).
    { unfold ext_gt0 in Hg. rewrite Hl in Hg. cbn [eltb eleb negb] in Hg. apply negb_false_iff in Hg.
      apply qleb_le in Hg. exact Hg. }
    assert (HUq : 0 < qz U) by (rewrite <- qz_0; apply qz_lt; exact HU).
    assert (Une : qz U <> 0) by (apply not_eq_sym; apply Qclt_not_eq; exact HUq).
    set (iu := 1 / qz U). assert (Hiu : qz U * iu = 1) by (unfold iu; field; exact Une).
    pose proof (inv_pos _ _ HUq Hiu) as Ipos.
    assert (Eb : b = (- l) * iu) by (unfold b, iu; field; exact Une).
    assert (Hb : 0 <= b) by (rewrite Eb; clear - Hl0 Ipos; qc2q; nra).
    split; [exact Hb|]. split.
    - intro Hle. exists 0%Z. split; [lia|]. rewrite qz_0. replace (denote f rho + b * 0) with (denote f rho) by ring. exact Hle.
    - intros (s & [Hs0 _] & Hle).
      assert (Hs : 0 <= qz s) by (rewrite <- qz_0; apply qz_le; exact Hs0).
      clear - Hb Hs Hle. set (F := denote f rho) in *. qc2q. nra.
  Qed.
End Core.

(* ---- the model functions: rejections and the shape of a successful conversion ---- *)
Section Shape.
  Variable tiny : num -> bool.

  Theorem prologue_rejects I cid :
    (find_constr cid (i_cs I) = None -> box_of (i_dvs I) [] <> None ->
       slack_prologue I cid true = inl SNotFound) /\
    (forall c, box_of (i_dvs I) [] <> None -> find_constr cid (i_cs I) = Some c -> c_eq c <> LE_ZERO ->
       slack_prologue I cid true = inl SNotInequality).
  Proof.
    unfold slack_prologue. split.
    - intros F Bx. destruct (box_of (i_dvs I) []); [|contradiction]. rewrite F. reflexivity.
    - intros c Bx F Ne. destruct (box_of (i_dvs I) []); [|contradiction]. rewrite F.
      destruct (c_eq c =? LE_ZERO)%Z eqn:E; [apply Z.eqb_eq in E; contradiction|reflexivity].
  Qed.

  Theorem convert_rejected_by_prologue I cid mx e :
    slack_prologue I cid true = inl e -> convert_slack tiny I cid mx = inl e.
  Proof. unfold convert_slack. intros ->. reflexivity. Qed.
  Theorem add_rejected_by_prologue I cid U e :
    slack_prologue I cid true = inl e -> add_slack tiny I cid U = inl e.
  Proof. unfold add_slack. intros ->. reflexivity. Qed.

  (* a continuous (or unknown) variable in the constraint is rejected *)
  Theorem prologue_rejects_kind I cid bs c f e :
    box_of (i_dvs I) [] = Some bs -> find_constr cid (i_cs I) = Some c -> c_eq c = LE_ZERO ->
    c_fn c = Some f -> check_kinds (used_sorted f) (i_dvs I) = Some e ->
    slack_prologue I cid true = inl e.
  Proof.
    intros Bx F E Fn K. unfold slack_prologue. rewrite Bx, F, E. cbn [negb Z.eqb]. rewrite Z.eqb_refl. cbn [negb].
    rewrite Fn, K. reflexivity.
  Qed.

  (* shape of a success: either the constraint was moved to the removed list unchanged, or a
     slack variable [0, -L] was appended and the function became f + s/a with equality kind *)
  Theorem convert_slack_spec I cid mx J : convert_slack tiny I cid mx = inr J ->
    exists bs c f a af B0 B,
      slack_prologue I cid true = inr (bs, c, f) /\
      content_factor f = Some a /\ fn_mul tiny f (FConst a) = Some af /\
      evaluate_bound af bs = Some B0 /\ as_integer_bound B0 = Some B /\ ext_gt0 (lower B) = false /\
      ((ext_le0 (upper B) = true /\
        relax I cid (A "convert_inequality_to_equality_with_integer_slack"%string) (L []) = Some J) \/
       (ext_le0 (upper B) = false /\
        eltb (Fin (qz (Z.of_N mx))) (eneg (lower B)) = false /\
        exists f', fn_add tiny f (FLin (lin_single (next_id (i_dvs I)) (1 / a))) = Some f' /\
          J = set_dvs_cs I (i_dvs I ++ [slack_dv (next_id (i_dvs I)) cid (Fin 0, eneg (lower B))])
                (replace_constr cid {| c_id := c_id c; c_eq := EQ_ZERO; c_fn := Some f'; c_meta := c_meta c |} (i_cs I)))).
  Proof.
    unfold convert_slack.
    destruct (slack_prologue I cid true) as [e|[[bs c] f]] eqn:E0; [discriminate|].
    destruct (content_factor f) as [a|] eqn:E1; [|discriminate].
    destruct (fn_mul tiny f (FConst a)) as [af|] eqn:E2; [|discriminate].
    destruct (evaluate_bound af bs) as [B0|] eqn:E3; [|discriminate].
    destruct (as_integer_bound B0) as [B|] eqn:E4; [|discriminate].
    destruct (ext_gt0 (lower B)) eqn:G; [discriminate|].
    intro H. exists bs, c, f, a, af, B0, B.
    split; [reflexivity|]. split; [exact E1|]. split; [exact E2|]. split; [exact E3|].
    split; [exact E4|]. split; [exact G|].
    destruct (ext_le0 (upper B)) eqn:U.
    - left. split; [reflexivity|]. unfold relaxed_with in H.
      destruct (relax I cid _ _) as [I'|]; [inversion H; reflexivity|discriminate].
    - right. split; [reflexivity|].
      destruct (eltb (Fin (qz (Z.of_N mx))) (eneg (lower B))) eqn:R; [discriminate|]. split; [reflexivity|].
      destruct (fn_add tiny f (FLin (lin_single (next_id (i_dvs I)) (1 / a)))) as [f'|]; [|discriminate].
      exists f'. split; [reflexivity|]. inversion H. reflexivity.
  Qed.
End Shape.
