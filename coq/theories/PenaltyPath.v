(* PenaltyPath.v — the dependency map recorded by Instance::substitute survives the penalty
   conversions and the instantiation of the weights (the QUBO-driver path of C04). *)
Require Import Ommx.Num Ommx.Poly Ommx.Msg Ommx.Eval Ommx.Tree Ommx.Arith Ommx.PEval Ommx.Inst Ommx.Transform.
From Coq Require Import List.
Import ListNotations.

Section PenaltyPath.
  Variable tiny : num -> bool.

  Lemma penalty_frame J P : penalty tiny J = Some P -> p_deps P = i_deps J /\ p_dvs P = i_dvs J.
  Proof.
    unfold penalty. destruct (penalty_loop tiny _ _ _ _ _) as [[[o ps] rs]|]; [|discriminate].
    intros H. injection H as <-. split; reflexivity.
  Qed.

  Lemma uniform_penalty_frame J P : uniform_penalty tiny J = Some P -> p_deps P = i_deps J /\ p_dvs P = i_dvs J.
  Proof.
    unfold uniform_penalty. destruct (uniform_loop tiny _ _ _) as [[qs rs]|]; [|discriminate].
    destruct (fn_mul tiny _ _) as [t|]; [|discriminate].
    destruct (fn_add tiny _ _) as [o|]; [|discriminate].
    intros H. injection H as <-. split; reflexivity.
  Qed.

  Lemma with_parameters_frame P theta I2 :
    with_parameters tiny P theta = Some I2 -> i_deps I2 = p_deps P /\ i_dvs I2 = p_dvs P.
  Proof.
    unfold with_parameters. destruct (negb _); [discriminate|].
    destruct (opt_fn_pe tiny _ _) as [o|]; [|discriminate].
    destruct (constrs_pe tiny _ _) as [cs|]; [|discriminate].
    intros H. injection H as <-. split; reflexivity.
  Qed.

  Theorem penalty_path_frame J P theta I2 :
    (penalty tiny J = Some P \/ uniform_penalty tiny J = Some P) ->
    with_parameters tiny P theta = Some I2 ->
    i_deps I2 = i_deps J /\ i_dvs I2 = i_dvs J.
  Proof.
    intros HP HW. destruct (with_parameters_frame _ _ _ HW) as [D V].
    destruct HP as [HP|HP]; [destruct (penalty_frame _ _ HP) as [D' V'] | destruct (uniform_penalty_frame _ _ HP) as [D' V']];
      rewrite D, V, D', V'; split; reflexivity.
  Qed.
End PenaltyPath.
