(* Tree.v — the generic case/result format shared by the harness, check.py and Coq,
   with Gallina decoders into model values and encoders for expected results. *)
Require Import Ommx.Num Ommx.Poly Ommx.Msg.
From Coq Require Import String.
Open Scope string_scope.

Inductive tree :=
| A (s : string)          (* atom / tag / text *)
| I (z : Z)               (* integer *)
| F (bits : Z)            (* f64 as its raw bit pattern *)
| L (l : list tree).

(* option monad *)
Definition obind {X Y} (o : option X) (f : X -> option Y) : option Y :=
  match o with Some x => f x | None => None end.
Notation "'do' x <- o ; k" := (obind o (fun x => k))
  (at level 200, x pattern, o at level 100, k at level 200, right associativity).

Fixpoint omap {X Y} (d : X -> option Y) (l : list X) : option (list Y) :=
  match l with
  | [] => Some []
  | x :: l' => do y <- d x; do ys <- omap d l'; Some (y :: ys)
  end.

(* ---- decoders ---- *)
Definition d_Z (t : tree) : option Z := match t with I z => Some z | _ => None end.
Definition d_N (t : tree) : option N :=
  match t with I z => if (0 <=? z)%Z then Some (Z.to_N z) else None | _ => None end.
Definition d_ext (t : tree) : option ext :=
  match t with
  | F bits => Some (f64_of_bits bits)
  | I z => Some (Fin (qz z))
  | _ => None
  end.
Definition d_num (t : tree) : option num :=
  match d_ext t with Some (Fin q) => Some q | _ => None end.
Definition d_str (t : tree) : option string := match t with A s => Some s | _ => None end.
Definition d_list {X} (d : tree -> option X) (t : tree) : option (list X) :=
  match t with L l => omap d l | _ => None end.
Definition d_pair {X Y} (dx : tree -> option X) (dy : tree -> option Y) (t : tree)
  : option (X * Y) :=
  match t with
  | L [a; b] => do x <- dx a; do y <- dy b; Some (x, y)
  | _ => None
  end.
Definition d_opt {X} (d : tree -> option X) (t : tree) : option (option X) :=
  match t with
  | L [] => Some None
  | L [a] => do x <- d a; Some (Some x)
  | _ => None
  end.
Definition d_bool (t : tree) : option bool :=
  match t with I 0 => Some false | I 1 => Some true | _ => None end.

Definition d_linear (t : tree) : option linear :=
  match t with
  | L [ts; c] =>
      do ts' <- d_list (d_pair d_N d_num) ts; do c' <- d_num c;
      Some {| l_terms := ts'; l_const := c' |}
  | _ => None
  end.
Definition d_quadratic (t : tree) : option quadratic :=
  match t with
  | L [r; c; v; l] =>
      do r' <- d_list d_N r; do c' <- d_list d_N c; do v' <- d_list d_num v;
      do l' <- d_opt d_linear l;
      Some {| q_rows := r'; q_cols := c'; q_vals := v'; q_lin := l' |}
  | _ => None
  end.
Definition d_polynomial (t : tree) : option polynomial :=
  d_list (d_pair (d_list d_N) d_num) t.
Definition d_function (t : tree) : option function :=
  match t with
  | L [A "unset"] => Some FUnset
  | L [A "const"; c] => do c' <- d_num c; Some (FConst c')
  | L [A "lin"; l] => do l' <- d_linear l; Some (FLin l')
  | L [A "quad"; q] => do q' <- d_quadratic q; Some (FQuad q')
  | L [A "poly"; p] => do p' <- d_polynomial p; Some (FPoly p')
  | _ => None
  end.
Definition d_state (t : tree) : option state := d_list (d_pair d_N d_num) t.

(* ---- encoders (expected values shown in a disagreement) ---- *)
Definition e_num (q : num) : tree := L [A "q"; I (Qnum q); I (Zpos (Qden q))].
Definition e_N (n : N) : tree := I (Z.of_N n).
Definition e_ext (x : ext) : tree :=
  match x with NInf => A "-inf" | PInf => A "inf" | NaN => A "nan" | Fin q => e_num q end.
Definition e_list {X} (e : X -> tree) (l : list X) : tree := L (map e l).
Definition e_terms (t : terms) : tree :=
  e_list (fun mc => L [e_list e_N (fst mc); e_num (snd mc)]) t.
Definition e_opt {X} (e : X -> tree) (o : option X) : tree :=
  match o with None => L [] | Some x => L [e x] end.
Definition e_bool (b : bool) : tree := I (if b then 1 else 0).
Definition e_state (s : state) : tree := e_list (fun iv => L [e_N (fst iv); e_num (snd iv)]) s.

(* ---- verdicts ---- *)
Definition agree (tags : list string) : tree := L [A "agree"; L (map A tags)].
Definition disagree (clause : string) (expected : tree) : tree :=
  L [A "disagree"; A clause; expected].
Definition badcase (why : string) : tree := L [A "badcase"; A why].
Definition badresult (why : string) : tree := L [A "badresult"; A why].

(* ---- small set utilities on id lists ---- *)
Definition mem (i : N) (l : list N) : bool := existsb (N.eqb i) l.
Definition subset (a b : list N) : bool := forallb (fun i => mem i b) a.
Definition set_eqb (a b : list N) : bool := subset a b && subset b a.

Lemma mem_In i l : mem i l = true <-> In i l.
Proof.
  unfold mem. rewrite existsb_exists. split.
  - intros (x & Hx & E). apply N.eqb_eq in E. subst. exact Hx.
  - intro H. exists i. split; [exact H|apply N.eqb_refl].
Qed.
Lemma subset_spec a b : subset a b = true <-> (forall i, In i a -> In i b).
Proof.
  unfold subset. rewrite forallb_forall. split; intros H i Hi.
  - apply mem_In. apply H. exact Hi.
  - apply mem_In. apply H. exact Hi.
Qed.
Lemma set_eqb_spec a b : set_eqb a b = true <-> (forall i, In i a <-> In i b).
Proof.
  unfold set_eqb. rewrite andb_true_iff, !subset_spec. split.
  - intros [H1 H2] i. split; auto.
  - intro H. split; intros i; apply H.
Qed.

(* SDK result shapes *)
Definition is_err (t : tree) : bool :=
  match t with L (A "err" :: _) => true | _ => false end.
Definition is_panic (t : tree) : bool :=
  match t with A "panic" | L (A "panic" :: _) => true | _ => false end.
Definition ok_payload (t : tree) : option tree :=
  match t with L [A "ok"; p] => Some p | _ => None end.
