(* RunC18.v — correspondence runner for C18: the writer model's text (phase 1) and the
   four-way cross check  {SDK, model} writer x {SDK, model} reader  against the original
   instance (phase 2). *)
Require Import Ommx.Num Ommx.Poly Ommx.Msg Ommx.Tree Ommx.Mps Ommx.MpsSpec Ommx.MpsProofs Ommx.RunC17.
From Coq Require Import String Ascii.
Open Scope string_scope.
Open Scope list_scope.

(* ---- phase 1: the model writer's text ([] when the model refuses) ---- *)
Definition write_C18 (t : tree) : tree :=
  match t with
  | L (i :: _) =>
      match d_inst i with
      | None => badcase "C18 write: input"
      | Some I0 => match write_mps I0 with WOk ls => e_lines ls | WErr _ => L [] end
      end
  | _ => badcase "C18 write: input"
  end.

(* ---- same problem ---- *)
Definition idterms_eqb (a b : list (N * num)) : bool :=
  forallb (fun kc => qeqb (snd kc) 0)
          (merge N.eqb never (a ++ map (fun kc => (fst kc, - snd kc)) b)).

Definition lin_eqb (f g : function) : bool :=
  match as_linear f, as_linear g with
  | Some l1, Some l2 => idterms_eqb (l_terms l1) (l_terms l2) && qeqb (l_const l1) (l_const l2)
  | _, _ => false
  end.

Definition dom_eqb (a b : bool * ext * ext) : bool :=
  let '(i1, l1, u1) := a in let '(i2, l2, u2) := b in
  Bool.eqb i1 i2 && eeqb l1 l2 && eeqb u1 u2.

(* ids with a non-zero (summed) coefficient somewhere in the original *)
Definition nz_ids (f : function) : list N :=
  match as_linear f with
  | Some l => filter (fun i => negb (qeqb (coef_sum i (l_terms l)) 0)) (map fst (l_terms l))
  | None => []
  end.
Definition used_nz (I0 : inst) : list N :=
  fold_right ins_sorted [] (nz_ids (in_obj I0) ++ flat_map (fun c => nz_ids (cn_fn c)) (in_cons I0)).

(* None = I' is the same problem as I0 (sense, functions and equality kinds under the same ids,
   domains of the used variables); Some clause = first difference *)
Definition same_problem (I0 I' : inst) : option string :=
  if negb (in_sense I' =? in_sense I0)%N then Some "sense"
  else if negb (lin_eqb (in_obj I0) (in_obj I')) then Some "objective"
  else if negb (nodupb (map cn_id (in_cons I'))) then Some "constraint ids are not distinct"
  else if negb (Nat.eqb (List.length (in_cons I')) (List.length (in_cons I0))) then Some "number of constraints"
  else if negb (forallb (fun c =>
         match List.find (fun c' => (cn_id c' =? cn_id c)%N) (in_cons I') with
         | None => false
         | Some c' => (cn_eq c' =? cn_eq c)%N && lin_eqb (cn_fn c) (cn_fn c')
         end) (in_cons I0)) then Some "a constraint (id, equality kind or function)"
  else if negb (nodupb (map dv_id (in_dvars I'))) then Some "decision variable ids are not distinct"
  else if negb (forallb (fun id =>
         match var_by_id I0 id, List.find (fun v => (dv_id v =? id)%N) (in_dvars I') with
         | Some v, Some v' =>
             dom_eqb (domain (dv_kind v) (dv_bound v)) (domain (dv_kind v') (dv_bound v'))
         | _, _ => false
         end) (used_nz I0)) then Some "value domain of a used variable"
  else None.

(* ---- errors of the writer ---- *)
Definition werr_tree (e : werr) : tree :=
  match e with
  | WConstraint n d => L [A "err"; A "InvalidConstraintType"; L [A n; I (Z.of_N d)]]
  | WObjective d => L [A "err"; A "InvalidObjectiveType"; L [I (Z.of_N d)]]
  | WInvalidVariableId i => L [A "err"; A "InvalidVariableId"; L [I (Z.of_N i)]]
  end.
Fixpoint tree_eqb (a b : tree) : bool :=
  match a, b with
  | A x, A y => x =? y
  | I x, I y => (x =? y)%Z
  | F x, F y => (x =? y)%Z
  | L x, L y =>
      (fix go (x y : list tree) : bool :=
         match x, y with
         | [], [] => true
         | t :: x', u :: y' => tree_eqb t u && go x' y'
         | _, _ => false
         end) x y
  | _, _ => false
  end.

Definition load_of_tree (r : tree) : option (option inst) :=   (* Some None = SDK error *)
  match ok_payload r with
  | Some p => match d_inst p with Some i => Some (Some i) | None => None end
  | None => if is_err r || is_panic r then Some None else None
  end.

Definition lines_eqb (a b : list string) : bool :=
  Nat.eqb (List.length a) (List.length b) && forallb (fun ab => fst ab =? snd ab) (combine a b).

Definition run_C18 (case : tree) : tree :=
  match case with
  | L [A "mps_cross"; L [i; mlines]; L [wt; l1; l2]] =>
      match d_inst i, d_lines mlines with
      | Some I0, Some ml =>
          match write_mps I0 with
          | WErr e =>
              if negb (lines_eqb ml []) then badcase "C18: model text given for a refused instance"
              else if tree_eqb wt (werr_tree e)
              then agree ["refused"; match e with WConstraint _ _ => "constraint" | WObjective _ => "objective"
                                                | WInvalidVariableId _ => "variable-id" end]
              else disagree "the instance must be refused, naming the offender" (werr_tree e)
          | WOk wl =>
              if negb (lines_eqb ml wl) then badcase "C18: the lines are not write_mps I"
              else
                match ok_payload wt with
                | None => disagree "a linear instance must be written" (A "ok")
                | Some st =>
                    match d_lines st, load_of_tree l1, load_of_tree l2 with
                    | Some sl, Some a, Some c =>
                        let chk (who : string) (x : option inst) : option string :=
                          match x with
                          | None => Some (who +++ ": the text is rejected")
                          | Some I' => match same_problem I0 I' with
                                       | None => None
                                       | Some why => Some (who +++ ": " +++ why)
                                       end
                          end in
                        let b := match load_lines sl with Ok x => Some x | Err _ => None end in
                        let d := match load_lines wl with Ok x => Some x | Err _ => None end in
                        match chk "SDK write -> SDK read" a with
                        | Some why => disagree why (A "same problem")
                        | None =>
                            match chk "model write -> SDK read" c with
                            | Some why => disagree why (A "same problem")
                            | None =>
                                match chk "SDK write -> model read" b with
                                | Some why => disagree why (A "same problem")
                                | None =>
                                    match chk "model write -> model read" d with
                                    | Some why => badcase why
                                    | None =>
                                        agree ["roundtrip"; if lines_eqb sl wl then "same-text" else "text-differs"]
                                    end
                                end
                            end
                        end
                    | _, _, _ => badresult "mps_cross: result shape"
                    end
                end
          end
      | _, _ => badcase "C18: input"
      end
  | _ => badcase "C18: unknown op"
  end.

(* ---- the comparator's equality of linear forms is semantic equality ---- *)
Theorem idterms_eqb_sound : forall a b, idterms_eqb a b = true ->
  forall rho : N -> num, valg rho a = valg rho b.
Proof.
  intros a b H kv. unfold idterms_eqb in H.
  assert (Z : valg kv (merge N.eqb never (a ++ map (fun kc => (fst kc, - snd kc)) b)) = 0).
  { apply valg_all_zero. apply Forall_forall. intros kc Hin.
    rewrite forallb_forall in H. apply qeqb_eq. apply H. exact Hin. }
  rewrite (merge_val_exact N.eqb N.eqb_eq kv never _ never_exact) in Z.
  rewrite valg_app, valg_negmap in Z.
  transitivity (valg kv a + - valg kv b + valg kv b); [ring|]. rewrite Z. ring.
Qed.

(* same_problem's function test: equal linear forms denote the same function *)
Theorem lin_eqb_sound : forall f g, lin_eqb f g = true ->
  exists l1 l2, as_linear f = Some l1 /\ as_linear g = Some l2 /\
    forall rho, lin_denote l1 rho = lin_denote l2 rho.
Proof.
  intros f g H. unfold lin_eqb in H.
  destruct (as_linear f) as [l1|]; [|discriminate]. destruct (as_linear g) as [l2|]; [|discriminate].
  apply andb_true_iff in H. destruct H as [H1 H2]. apply qeqb_eq in H2.
  exists l1, l2. repeat split. intro rho. rewrite !lin_denote_eq, H2.
  rewrite (idterms_eqb_sound _ _ H1 rho). reflexivity.
Qed.
