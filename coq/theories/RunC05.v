(* RunC05.v — correspondence runner for C05: the whole Solution message against inst_eval. *)
Require Import Ommx.Num Ommx.Poly Ommx.Msg Ommx.Eval Ommx.Tree Ommx.Inst.
From Coq Require Import String.
Open Scope string_scope.

Definition ext_eqb (a b : ext) : bool :=
  match a, b with
  | NaN, NaN => true
  | _, _ => eeqb a b
  end.
Definition optb {X} (e : X -> X -> bool) (a b : option X) : bool :=
  match a, b with
  | None, None => true
  | Some x, Some y => e x y
  | _, _ => false
  end.
Definition dvar_eqb (a b : dvar) : bool :=
  (dv_id a =? dv_id b)%N && (dv_kind a =? dv_kind b)%Z &&
  optb (fun p q => ext_eqb (fst p) (fst q) && ext_eqb (snd p) (snd q)) (dv_bound a) (dv_bound b) &&
  optb qeqb (dv_subst a) (dv_subst b) && trees_eqb (dv_meta a) (dv_meta b).
Fixpoint list_eqb {X Y} (e : X -> Y -> bool) (a : list X) (b : list Y) : bool :=
  match a, b with
  | [], [] => true
  | x :: a', y :: b' => e x y && list_eqb e a' b'
  | _, _ => false
  end.

(* SDK evaluated constraint:
   [id, equality, value, [used ids], name, subscripts, params, description, dual, removed_reason, rr_params] *)
Definition d_evaluated (t : tree) : option (evaluated * tree) :=
  match t with
  | L [i; e; v; u; n; su; pa; de; dual; rr; rp] =>
      do i' <- d_N i; do e' <- d_Z e; do v' <- d_num v; do u' <- d_list d_N u;
      do rr' <- d_opt (fun x => Some x) rr;
      Some ({| ev_id := i'; ev_eq := e'; ev_value := v'; ev_used := u'; ev_meta := [n; su; pa; de];
               ev_removed := match rr' with Some r => Some (r, rp) | None => None end |}, dual)
  | _ => None
  end.
Definition evaluated_eqb (m : evaluated) (st : evaluated * tree) : bool :=
  let s := fst st in
  (ev_id m =? ev_id s)%N && (ev_eq m =? ev_eq s)%Z && qeqb (ev_value m) (ev_value s) &&
  set_eqb (ev_used m) (ev_used s) && trees_eqb (ev_meta m) (ev_meta s) &&
  optb (fun p q => tree_eqb (fst p) (fst q) && tree_eqb (snd p) (snd q)) (ev_removed m) (ev_removed s) &&
  tree_eqb (snd st) (L []) &&
  (* an active constraint carries no removal parameters *)
  match ev_removed s with Some _ => true | None => true end.

Definition e_evaluated (e : evaluated) : tree :=
  L [e_N (ev_id e); I (ev_eq e); e_num (ev_value e); e_list e_N (ev_used e); L (ev_meta e);
     match ev_removed e with Some (r, p) => L [r; p] | None => L [] end].
Definition e_solution (s : solution) : tree :=
  L [A "state"; e_state (sdedup (so_state s) []); A "objective"; e_num (so_objective s);
     A "constraints"; e_list e_evaluated (so_evaluated s);
     A "feasible"; e_bool (so_feasible s); A "feasible_relaxed"; e_bool (so_feasible_relaxed s)].

Definition judge_solution (sol : solution) (p : tree) : tree :=
  match p with
  | L [st; obj; dvs; evs; fe; fr; _; _; _] =>
      match d_opt d_state st, d_num obj, d_list d_dvar dvs, d_list d_evaluated evs,
            d_bool fe, d_opt d_bool fr with
      | Some (Some st'), Some obj', Some dvs', Some evs', Some fe', Some fr' =>
          if negb (qeqb obj' (so_objective sol)) then disagree "objective" (e_solution sol)
          else if negb (list_eqb evaluated_eqb (so_evaluated sol) evs')
          then disagree "evaluated constraints (id, equality, value, used ids, metadata, removal reason; each once, in order)" (e_solution sol)
          else if negb (optb Bool.eqb fr' (Some (so_feasible_relaxed sol)))
          then disagree "feasible_relaxed flag" (e_solution sol)
          else if negb (Bool.eqb fe' (so_feasible sol)) then disagree "feasible flag" (e_solution sol)
          else if negb (state_eqb st' (so_state sol)) then disagree "reported state" (e_solution sol)
          else if negb (list_eqb dvar_eqb (so_dvs sol) dvs') then disagree "decision variables of the solution" (e_solution sol)
          else agree ["solution";
                      if so_feasible sol then "feasible" else if so_feasible_relaxed sol then "relaxed-only" else "infeasible"]
      | _, _, _, _, _, _ => badresult "solution: shape"
      end
  | _ => badresult "solution: shape"
  end.

Definition judge_inst_eval (I : instance) (s : state) (r : tree) : tree :=
  match inst_eval I s with
  | None =>
      if is_err r then agree ["rejected"]
      else disagree "evaluation must be rejected (bound violated / invalid bound / missing variable / dependency failure / unsupported equality)" (A "err")
  | Some sol =>
      match ok_payload r with
      | Some p => judge_solution sol p
      | None => if is_err r || is_panic r then disagree "evaluation must succeed" (e_solution sol)
                else badresult "inst_evaluate: shape"
      end
  end.

Definition run_C05 (case : tree) : tree :=
  match case with
  | L [A "inst_evaluate"; L [i; s]; r] =>
      match d_instance i, d_state s with
      | Some I', Some s' => judge_inst_eval I' s' r
      | _, _ => badcase "inst_evaluate: input"
      end
  | _ => badcase "C05: unknown op"
  end.
