(* Msg.v — the function messages of ommx.v1 and the polynomial each one denotes. *)
Require Import Ommx.Num Ommx.Poly.

Record linear := { l_terms : list (N * num); l_const : num }.
Record quadratic := {
  q_rows : list N; q_cols : list N; q_vals : list num; q_lin : option linear }.
Definition polynomial := list (list N * num).    (* Monomial { ids, coefficient } *)
Inductive function :=
| FUnset | FConst (c : num) | FLin (l : linear) | FQuad (q : quadratic) | FPoly (p : polynomial).

(* itertools::multizip: stops with the shortest of the three arrays *)
Fixpoint zip3 (r c : list N) (v : list num) : list (N * N * num) :=
  match r, c, v with
  | i :: r', j :: c', x :: v' => (i, j, x) :: zip3 r' c' v'
  | _, _, _ => []
  end.

Definition lin1 (ts : list (N * num)) : terms := map (fun ic => ([fst ic], snd ic)) ts.
Definition lin_terms (l : linear) : terms := lin1 (l_terms l) ++ [([], l_const l)].
Definition quad2 (z : list (N * N * num)) : terms :=
  map (fun t => ([fst (fst t); snd (fst t)], snd t)) z.
Definition optlin_terms (o : option linear) : terms :=
  match o with Some l => lin_terms l | None => [] end.
Definition quad_terms (q : quadratic) : terms :=
  quad2 (zip3 (q_rows q) (q_cols q) (q_vals q)) ++ optlin_terms (q_lin q).
Definition fn_terms (f : function) : terms :=
  match f with
  | FUnset => []
  | FConst c => [([], c)]
  | FLin l => lin_terms l
  | FQuad q => quad_terms q
  | FPoly p => p
  end.

(* the represented polynomial, as a function of the valuation *)
Definition denote (f : function) (rho : valuation) : num := val rho (fn_terms f).
(* syntactic occurrence of a variable id (zero-coefficient terms included) *)
Definition occurs (f : function) (i : N) : Prop := occurs_terms (fn_terms f) i.

Definition lin_denote (l : linear) rho := val rho (lin_terms l).
Definition quad_denote (q : quadratic) rho := val rho (quad_terms q).

Lemma val_lin1 rho ts : val rho (lin1 ts) = valg rho ts.
Proof.
  induction ts as [|[i c] ts IH]; cbn [lin1 map fst snd valg]; [reflexivity|].
  rewrite val_cons. fold (lin1 ts). rewrite IH. cbn [mono_val]. ring.
Qed.
Lemma lin_denote_eq l rho : lin_denote l rho = valg rho (l_terms l) + l_const l.
Proof.
  unfold lin_denote, lin_terms. rewrite val_app, val_lin1, val_cons, val_nil.
  cbn [mono_val]. ring.
Qed.
Lemma val_quad2_cons rho i j x z :
  val rho (quad2 ((i, j, x) :: z)) = x * rho i * rho j + val rho (quad2 z).
Proof. unfold quad2. cbn [map fst snd]. rewrite val_cons. cbn [mono_val]. ring. Qed.

Lemma occurs_lin1 ts i : occurs_terms (lin1 ts) i <-> In i (map fst ts).
Proof.
  unfold occurs_terms, lin1. split.
  - intros (m & c & Hin & Him). apply in_map_iff in Hin. destruct Hin as ([j d] & E & Hj).
    cbn [fst snd] in E. inversion E; subst. destruct Him as [<-|[]].
    apply in_map_iff. exists (j, c). auto.
  - intro H. apply in_map_iff in H. destruct H as ([j d] & E & Hj). cbn [fst] in E. subst j.
    exists [i], d. split; [|left; reflexivity].
    apply in_map_iff. exists (i, d). auto.
Qed.

Lemma occurs_terms_app a b i : occurs_terms (a ++ b) i <-> occurs_terms a i \/ occurs_terms b i.
Proof.
  unfold occurs_terms. split.
  - intros (m & c & Hin & Him). apply in_app_or in Hin.
    destruct Hin; [left|right]; exists m, c; auto.
  - intros [(m & c & Hin & Him)|(m & c & Hin & Him)]; exists m, c; split; auto;
      apply in_or_app; auto.
Qed.
Lemma occurs_terms_const c i : ~ occurs_terms [([], c)] i.
Proof. intros (m & d & [E|[]] & Him). inversion E; subst. destruct Him. Qed.
Lemma occurs_terms_nil i : ~ occurs_terms [] i.
Proof. intros (m & d & [] & _). Qed.

Lemma occurs_lin_terms l i : occurs_terms (lin_terms l) i <-> In i (map fst (l_terms l)).
Proof.
  unfold lin_terms. rewrite occurs_terms_app, occurs_lin1.
  split; [intros [H|H]; [exact H|exfalso; eapply occurs_terms_const; eauto]|auto].
Qed.
