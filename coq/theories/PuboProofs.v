(* PuboProofs.v — C11: the exported PUBO / QUBO dictionaries reproduce the objective on every
   binary assignment (any number of variables), keys are canonical, no stored coefficient is
   zero, and the refusal conditions. *)
Require Import Ommx.Num Ommx.Poly Ommx.Msg Ommx.Eval Ommx.Tree Ommx.Arith Ommx.ArithProofs Ommx.Inst
        Ommx.Transform.
From Coq Require Import String.
Close Scope string_scope.
Open Scope list_scope.
Open Scope Qc_scope.

Definition binary (rho : valuation) : Prop := forall i, rho i = 0 \/ rho i = 1.

Lemma binary_sq rho i : binary rho -> rho i * rho i = rho i.
Proof. intro B. destruct (B i) as [->| ->]; ring. Qed.

(* x^2 = x: removing adjacent duplicates does not change a monomial's value *)
Lemma mono_val_dedup rho l : binary rho -> mono_val rho (dedup_sorted l) = mono_val rho l.
Proof.
  intro B. induction l as [|i l IH]; [reflexivity|].
  cbn [dedup_sorted]. destruct l as [|j l']; [reflexivity|].
  destruct (i =? j)%N eqn:E.
  - apply N.eqb_eq in E. subst j. rewrite IH. cbn [mono_val].
    transitivity (rho i * rho i * mono_val rho l'); [rewrite binary_sq by exact B; reflexivity|ring].
  - cbn [mono_val] in *. rewrite IH. reflexivity.
Qed.
Lemma mono_val_bin_key rho ids : binary rho -> mono_val rho (bin_key ids) = mono_val rho ids.
Proof. intro B. unfold bin_key. rewrite mono_val_dedup by exact B. apply mono_val_sort. Qed.

(* ---- keys are strictly increasing ---- *)
Fixpoint sorted_le (l : list N) : bool :=
  match l with
  | i :: ((j :: _) as l') => (i <=? j)%N && sorted_le l'
  | _ => true
  end.
Fixpoint sorted_lt (l : list N) : bool :=
  match l with
  | i :: ((j :: _) as l') => (i <? j)%N && sorted_lt l'
  | _ => true
  end.

Lemma ins_id_sorted i l : sorted_le l = true -> sorted_le (ins_id i l) = true.
Proof.
  induction l as [|j l IH]; intro S; [reflexivity|].
  cbn [ins_id]. destruct (i <=? j)%N eqn:E.
  - cbn [sorted_le]. rewrite E. exact S.
  - apply N.leb_gt in E.
    assert (S' : sorted_le l = true).
    { destruct l as [|k l']; [reflexivity|]. cbn [sorted_le] in S. apply andb_true_iff in S. tauto. }
    specialize (IH S').
    destruct l as [|k l'].
    + cbn [ins_id sorted_le]. rewrite andb_true_r. apply N.leb_le. lia.
    + cbn [ins_id] in *. cbn [sorted_le] in S. apply andb_true_iff in S. destruct S as [Sjk _].
      destruct (i <=? k)%N eqn:E2.
      * cbn [sorted_le]. cbn [sorted_le] in IH. rewrite IH, andb_true_r. apply N.leb_le. lia.
      * cbn [sorted_le]. cbn [sorted_le] in IH. rewrite Sjk. exact IH.
Qed.
Lemma sort_ids_sorted l : sorted_le (sort_ids l) = true.
Proof. induction l as [|i l IH]; [reflexivity|]. cbn [sort_ids]. apply ins_id_sorted. exact IH. Qed.

Lemma dedup_sorted_head i l : sorted_le (i :: l) = true ->
  match dedup_sorted (i :: l) with j :: _ => j = i | [] => False end.
Proof.
  revert i; induction l as [|k l IH]; intros i S; [reflexivity|].
  cbn [dedup_sorted]. destruct (i =? k)%N eqn:E; [|reflexivity].
  apply N.eqb_eq in E. subst k. cbn [sorted_le] in S. apply andb_true_iff in S. destruct S as [_ S].
  apply IH. exact S.
Qed.
Lemma dedup_sorted_lt l : sorted_le l = true -> sorted_lt (dedup_sorted l) = true.
Proof.
  induction l as [|i l IH]; intro S; [reflexivity|].
  destruct l as [|k l']; [reflexivity|].
  cbn [sorted_le] in S. apply andb_true_iff in S. destruct S as [Sik S'].
  specialize (IH S').
  change (dedup_sorted (i :: k :: l')) with (if (i =? k)%N then dedup_sorted (k :: l') else i :: dedup_sorted (k :: l')).
  destruct (i =? k)%N eqn:E; [exact IH|].
  pose proof (dedup_sorted_head k l' S') as Hd.
  destruct (dedup_sorted (k :: l')) as [|j r] eqn:D; [destruct Hd|]. subst j.
  change (sorted_lt (i :: k :: r)) with ((i <? k)%N && sorted_lt (k :: r)).
  rewrite IH, andb_true_r. apply N.ltb_lt. apply N.leb_le in Sik. apply N.eqb_neq in E. lia.
Qed.
Theorem bin_key_canonical ids : sorted_lt (bin_key ids) = true.
Proof. unfold bin_key. apply dedup_sorted_lt. apply sort_ids_sorted. Qed.

(* ---- PUBO ---- *)
Section PuboProofs.
  Variable enter leave : num -> bool.
  Hypothesis enter_exact : forall c, enter c = false -> c = 0.
  Hypothesis leave_exact : forall v, leave v = true -> v = 0.

  Lemma fn_iter_denote f rho : val rho (fn_iter f) = denote f rho.
  Proof. exact (fn_iter_val f rho). Qed.

  Lemma pubo_terms_val f rho : binary rho -> val rho (pubo_terms enter f) = denote f rho.
  Proof.
    intro B. rewrite <- fn_iter_denote. unfold pubo_terms.
    induction (fn_iter f) as [|[m c] t IH]; cbn [filter map fst snd]; [reflexivity|].
    destruct (enter c) eqn:E; cbn [map fst snd].
    - rewrite !val_cons, IH, mono_val_bin_key by exact B. reflexivity.
    - rewrite val_cons, IH. apply enter_exact in E. subst c. ring.
  Qed.

  Theorem pubo_sound I D : as_pubo enter leave I = inr D ->
    forall rho, binary rho -> val rho D = denote (fn_or_zero (i_obj I)) rho.
  Proof.
    unfold as_pubo. destruct (i_cs I); [|discriminate].
    destruct (i_sense I =? SENSE_MAX)%Z; [discriminate|].
    destruct (negb _); [discriminate|].
    intro H; inversion H; subst; clear H. intros rho B.
    unfold val at 1. rewrite (merge_val_exact ids_eqb ids_eqb_spec (mono_val rho) leave _ leave_exact).
    apply pubo_terms_val. exact B.
  Qed.

  Theorem pubo_keys I D : as_pubo enter leave I = inr D ->
    NoDup (keys D) /\ forall k c, In (k, c) D -> sorted_lt k = true.
  Proof.
    unfold as_pubo. destruct (i_cs I); [|discriminate].
    destruct (i_sense I =? SENSE_MAX)%Z; [discriminate|].
    destruct (negb _); [discriminate|].
    intro H; inversion H; subst; clear H. split.
    - exact (merge_nodup ids_eqb ids_eqb_spec (fun _ => 0) leave _).
    - intros k c Hin.
      assert (Hk : In k (keys (pubo_terms enter (fn_or_zero (i_obj I))))).
      { pose proof (merge_from_keys ids_eqb ids_eqb_spec (fun _ => 0) leave
                      (pubo_terms enter (fn_or_zero (i_obj I))) [] k) as M.
        destruct M as [M|M]; [|destruct M|exact M].
        apply (in_map fst) in Hin. exact Hin. }
      unfold pubo_terms, keys in Hk. rewrite map_map in Hk. apply in_map_iff in Hk.
      destruct Hk as ([m c'] & <- & _). cbn [fst]. apply bin_key_canonical.
  Qed.

  Theorem pubo_nonzero I D : leave 0 = true -> as_pubo enter leave I = inr D ->
    forall k c, In (k, c) D -> c <> 0.
  Proof.
    intro L0. unfold as_pubo. destruct (i_cs I); [|discriminate].
    destruct (i_sense I =? SENSE_MAX)%Z; [discriminate|].
    destruct (negb _); [discriminate|].
    intro H; inversion H; subst; clear H. intros k c Hin Hc. subst c.
    pose proof (merge_nontiny ids_eqb leave (pubo_terms enter (fn_or_zero (i_obj I)))) as NT.
    unfold all_nontiny in NT. rewrite Forall_forall in NT. specialize (NT _ Hin). cbn [snd] in NT. congruence.
  Qed.

  Theorem pubo_refuse_iff I :
    (exists e, as_pubo enter leave I = inl e) <->
    i_cs I <> [] \/ i_sense I = SENSE_MAX \/
    subset (fn_used (fn_or_zero (i_obj I))) (binary_ids (i_dvs I)) = false.
  Proof.
    unfold as_pubo. destruct (i_cs I) as [|c cs].
    - destruct (i_sense I =? SENSE_MAX)%Z eqn:S.
      + apply Z.eqb_eq in S. split; [intros _; auto|intros _; eauto].
      + apply Z.eqb_neq in S.
        destruct (subset _ _) eqn:U; cbn [negb].
        * split; [intros [e H]; discriminate|intros [H|[H|H]]; [contradiction|contradiction|discriminate]].
        * split; [intros _; auto|intros _; eauto].
    - split; [intros _; left; discriminate|intros _; eauto].
  Qed.

  (* ---- QUBO ---- *)
  Lemma mstep_val rho (m : terms) kc : NoDup (keys m) ->
    NoDup (keys (mstep ids_eqb leave m kc)) /\
    val rho (mstep ids_eqb leave m kc) = val rho m + snd kc * mono_val rho (fst kc).
  Proof.
    intro ND. split.
    - change (mstep ids_eqb leave m kc) with (merge_from ids_eqb leave m [kc]).
      exact (merge_from_nodup ids_eqb ids_eqb_spec (fun _ => 0) leave [kc] m ND).
    - change (mstep ids_eqb leave m kc) with (merge_from ids_eqb leave m [kc]).
      unfold val. rewrite (merge_from_val_exact ids_eqb ids_eqb_spec (mono_val rho) leave m [kc] leave_exact ND).
      destruct kc as [k c]. cbn [valg fst snd]. ring.
  Qed.

  Lemma qubo_loop_val rho : binary rho -> forall t const m const' m',
    NoDup (keys m) -> qubo_loop enter leave t const m = Some (const', m') ->
    NoDup (keys m') /\ val rho m' + const' = val rho m + const + val rho t.
  Proof.
    intro B. induction t as [|[ids c] t IH]; intros const m const' m' ND H; cbn [qubo_loop] in H.
    - inversion H; subst. split; [exact ND|rewrite val_nil; ring].
    - destruct (enter c) eqn:E; cbn [negb] in H.
      + destruct ids as [|i ids'].
        * apply IH in H; [|exact ND]. destruct H as [N' V]. split; [exact N'|].
          rewrite V, val_cons. cbn [mono_val]. ring.
        * pose proof (mono_val_bin_key rho (i :: ids') B) as MK.
          destruct (bin_key (i :: ids')) as [|a [|b [|x r]]] eqn:K; try discriminate.
          -- destruct (mstep_val rho m ([a; a], c) ND) as [N1 V1].
             apply IH in H; [|exact N1]. destruct H as [N' V]. split; [exact N'|].
             rewrite V, V1, val_cons. cbn [fst snd]. rewrite <- MK. cbn [mono_val].
             rewrite (Qcmult_assoc (rho a) (rho a) 1), binary_sq by exact B. ring.
          -- destruct (mstep_val rho m ([a; b], c) ND) as [N1 V1].
             apply IH in H; [|exact N1]. destruct H as [N' V]. split; [exact N'|].
             rewrite V, V1, val_cons. cbn [fst snd]. rewrite <- MK. ring.
      + apply IH in H; [|exact ND]. destruct H as [N' V]. split; [exact N'|].
        rewrite V, val_cons. apply enter_exact in E. subst c. ring.
  Qed.

  Theorem qubo_sound I D c0 : as_qubo enter leave I = inr (D, c0) ->
    forall rho, binary rho -> val rho D + c0 = denote (fn_or_zero (i_obj I)) rho.
  Proof.
    unfold as_qubo. destruct (i_sense I =? SENSE_MAX)%Z; [discriminate|].
    destruct (i_cs I); [|discriminate]. destruct (negb _); [discriminate|].
    destruct (qubo_loop enter leave (fn_iter (fn_or_zero (i_obj I))) 0 []) as [[c m]|] eqn:E; [|discriminate].
    intro H; inversion H; subst; clear H. intros rho B.
    assert (ND0 : NoDup (keys (@nil (list N * num)))) by constructor.
    destruct (qubo_loop_val rho B _ _ [] _ _ ND0 E) as [_ V].
    rewrite V, val_nil, fn_iter_denote. ring.
  Qed.

  (* keys are canonical pairs i <= j *)
  Definition pair_key (k : list N) : Prop := exists a b, k = [a; b] /\ (a <= b)%N.

  Lemma mstep_keys m kc k : In k (keys (mstep ids_eqb leave m kc)) -> In k (keys m) \/ k = fst kc.
  Proof.
    intro H. change (mstep ids_eqb leave m kc) with (merge_from ids_eqb leave m [kc]) in H.
    apply (merge_from_keys ids_eqb ids_eqb_spec (fun _ => 0) leave [kc] m k) in H.
    destruct H as [H|[H|[]]]; auto.
  Qed.

  Lemma qubo_loop_keys : forall t const m const' m',
    (forall k, In k (keys m) -> pair_key k) ->
    qubo_loop enter leave t const m = Some (const', m') -> forall k, In k (keys m') -> pair_key k.
  Proof.
    induction t as [|[ids c] t IH]; intros const m const' m' Hm H; cbn [qubo_loop] in H.
    - inversion H; subst. exact Hm.
    - destruct (enter c); cbn [negb] in H; [|eapply IH; eauto].
      destruct ids as [|i ids']; [eapply IH; eauto|].
      pose proof (bin_key_canonical (i :: ids')) as C.
      destruct (bin_key (i :: ids')) as [|a [|b [|x r]]] eqn:K; try discriminate.
      + eapply IH; [|exact H]. intros k Hk. apply mstep_keys in Hk. destruct Hk as [Hk| ->]; [auto|].
        exists a, a. split; [reflexivity|lia].
      + eapply IH; [|exact H]. intros k Hk. apply mstep_keys in Hk. destruct Hk as [Hk| ->]; [auto|].
        exists a, b. split; [reflexivity|]. cbn [sorted_lt] in C. apply andb_true_iff in C.
        destruct C as [C _]. apply N.ltb_lt in C. lia.
  Qed.

  Theorem qubo_keys I D c0 : as_qubo enter leave I = inr (D, c0) -> forall k, In k (keys D) -> pair_key k.
  Proof.
    unfold as_qubo. destruct (i_sense I =? SENSE_MAX)%Z; [discriminate|].
    destruct (i_cs I); [|discriminate]. destruct (negb _); [discriminate|].
    destruct (qubo_loop enter leave (fn_iter (fn_or_zero (i_obj I))) 0 []) as [[c m]|] eqn:E; [|discriminate].
    intro H; inversion H; subst; clear H.
    eapply qubo_loop_keys; [|exact E]. intros k [].
  Qed.

  (* the degree refusal: some entering term has more than two distinct variables *)
  Lemma qubo_loop_none_iff : forall t const m,
    qubo_loop enter leave t const m = None <->
    exists ids c, In (ids, c) t /\ enter c = true /\ (2 < List.length (bin_key ids))%nat.
  Proof.
    induction t as [|[ids c] t IH]; intros const m; cbn [qubo_loop].
    - split; [discriminate|intros (ids & c & [] & _)].
    - destruct (enter c) eqn:E; cbn [negb].
      + destruct ids as [|i ids'].
        * rewrite IH. split; intros (ids & c' & Hin & He & Hl).
          -- exists ids, c'. split; [right; exact Hin|auto].
          -- destruct Hin as [Eq|Hin]; [inversion Eq; subst; cbn in Hl; lia|exists ids, c'; auto].
        * destruct (bin_key (i :: ids')) as [|a [|b [|x r]]] eqn:K.
          -- exfalso.
             assert (In i (bin_key (i :: ids'))) as Hi.
             { unfold bin_key.
               assert (G : forall l x, In x l -> In x (dedup_sorted l)).
               { induction l as [|y l IHl]; intros x0 Hx; [destruct Hx|].
                 cbn [dedup_sorted]. destruct l as [|z l'].
                 - exact Hx.
                 - destruct (y =? z)%N eqn:Eyz.
                   + apply N.eqb_eq in Eyz. subst z. apply IHl. destruct Hx as [->|Hx]; [left; reflexivity|exact Hx].
                   + destruct Hx as [->|Hx]; [left; reflexivity|right; apply IHl; exact Hx]. }
               apply G. apply sort_ids_in. left. reflexivity. }
             rewrite K in Hi. destruct Hi.
          -- rewrite IH. split; intros (ids & c' & Hin & He & Hl).
             ++ exists ids, c'. split; [right; exact Hin|auto].
             ++ destruct Hin as [Eq|Hin]; [inversion Eq; subst; rewrite K in Hl; cbn in Hl; lia|exists ids, c'; auto].
          -- rewrite IH. split; intros (ids & c' & Hin & He & Hl).
             ++ exists ids, c'. split; [right; exact Hin|auto].
             ++ destruct Hin as [Eq|Hin]; [inversion Eq; subst; rewrite K in Hl; cbn in Hl; lia|exists ids, c'; auto].
          -- split; [intros _|reflexivity].
             exists (i :: ids'), c. split; [left; reflexivity|]. split; [exact E|]. rewrite K. cbn. lia.
      + rewrite IH. split; intros (ids' & c' & Hin & He & Hl).
        * exists ids', c'. split; [right; exact Hin|auto].
        * destruct Hin as [Eq|Hin]; [inversion Eq; subst; congruence|exists ids', c'; auto].
  Qed.

  Theorem qubo_refuse_iff I :
    (exists e, as_qubo enter leave I = inl e) <->
    i_sense I = SENSE_MAX \/ i_cs I <> [] \/
    subset (fn_used (fn_or_zero (i_obj I))) (binary_ids (i_dvs I)) = false \/
    exists ids c, In (ids, c) (fn_iter (fn_or_zero (i_obj I))) /\ enter c = true /\
                  (2 < List.length (bin_key ids))%nat.
  Proof.
    unfold as_qubo. destruct (i_sense I =? SENSE_MAX)%Z eqn:S.
    - apply Z.eqb_eq in S. split; [intros _; auto|intros _; eauto].
    - apply Z.eqb_neq in S. destruct (i_cs I) as [|c cs].
      + destruct (subset _ _) eqn:U; cbn [negb].
        * destruct (qubo_loop enter leave (fn_iter (fn_or_zero (i_obj I))) 0 []) as [[c m]|] eqn:E.
          -- split; [intros [e H]; discriminate|].
             intros [H|[H|[H|H]]]; [contradiction|contradiction|discriminate|].
             apply (qubo_loop_none_iff _ 0 []) in H. congruence.
          -- split; [intros _|intros _; eauto]. right. right. right.
             apply (qubo_loop_none_iff _ 0 []). exact E.
        * split; [intros _; auto|intros _; eauto].
      + split; [intros _; right; left; discriminate|intros _; eauto].
  Qed.
End PuboProofs.

Lemma enter_0_exact c : enter_0 c = false -> c = 0.
Proof. unfold enter_0. rewrite negb_false_iff. apply qeqb_eq. Qed.
Lemma leave_0_exact v : leave_0 v = true -> v = 0.
Proof. apply qeqb_eq. Qed.
