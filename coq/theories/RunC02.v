(* RunC02.v — correspondence runner for C02 (operator table on the seven operand kinds). *)
Require Import Ommx.Num Ommx.Poly Ommx.Msg Ommx.Eval Ommx.Tree Ommx.Arith.
From Coq Require Import String.
Open Scope string_scope.

Definition d_operand (t : tree) : option operand :=
  match t with
  | L [A "num"; c] => do c' <- d_num c; Some (ONum c')
  (* a decision-variable message with further fields set (kind, bound, substituted value, name): as an operand it is
     still the monomial x_id *)
  | L [A "var"; L (i :: _)] => do i' <- d_N i; Some (OVar i')
  | L [A "var"; i] => do i' <- d_N i; Some (OVar i')
  | L [A "param"; i] => do i' <- d_N i; Some (OParam i')
  | L [A "lin"; l] => do l' <- d_linear l; Some (OLin l')
  | L [A "quad"; q] => do q' <- d_quadratic q; Some (OQuad q')
  | L [A "poly"; p] => do p' <- d_polynomial p; Some (OPoly p')
  | L [A "fn"; f] => do f' <- d_function f; Some (OFn f')
  | _ => None
  end.

Definition okind (x : operand) : string :=
  match x with
  | ONum _ => "num" | OVar _ => "var" | OParam _ => "param" | OLin _ => "lin"
  | OQuad _ => "quad" | OPoly _ => "poly"
  | OFn FUnset => "fn-unset" | OFn (FConst _) => "fn-const" | OFn (FLin _) => "fn-lin"
  | OFn (FQuad _) => "fn-quad" | OFn (FPoly _) => "fn-poly"
  end.

Definition e_operand (x : operand) : tree := L [A (okind x); e_terms (op_terms x)].

Definition apply_op (tiny : num -> bool) (op : string) (x y : operand) : option operand :=
  if String.eqb op "add" then op_add tiny x y
  else if String.eqb op "sub" then op_sub tiny x y
  else if String.eqb op "mul" then op_mul tiny x y
  else None.

(* judge: same result kind (capacity) and the same formal polynomial *)
Definition judge_operand (expected : operand) (exact : operand) (r : tree) (tag : string) : tree :=
  match ok_payload r with
  | Some p =>
      match d_operand p with
      | Some got =>
          if negb (String.eqb (okind got) (okind expected))
          then disagree "result kind" (e_operand expected)
          else if negb (poly_eqb (op_terms got) (op_terms expected))
          then disagree "result polynomial" (e_operand expected)
          else agree [tag; okind expected;
                      if poly_eqb (op_terms exact) (op_terms expected) then "exact" else "dropped-tiny"]
      | None => badresult "operand result shape"
      end
  | None =>
      if is_err r || is_panic r then disagree "operator must be defined and succeed" (e_operand expected)
      else badresult "operand result shape"
  end.

Definition sorted_ids_b (l : list N) : bool := ids_eqb (sort_ids l) l.

Definition fn_iter_model (tiny : num -> bool) (f : function) : terms :=
  match f with
  | FUnset => []
  | FConst c => [([], c)]
  | FLin l => lin_iter l
  | FQuad q => quad_iter q
  | FPoly p => poly_iter p
  end.

Definition kind_tag_of (f : function) : string :=
  match f with
  | FUnset => "unset" | FConst _ => "const" | FLin _ => "lin" | FQuad _ => "quad" | FPoly _ => "poly"
  end.

(* the operator table of the model: which (op, kind, kind) triples are defined *)
Definition sample_operand (k : string) : operand :=
  if String.eqb k "num" then ONum 1 else if String.eqb k "var" then OVar 1
  else if String.eqb k "param" then OParam 2 else if String.eqb k "lin" then OLin (lin_single 1 1)
  else if String.eqb k "quad" then OQuad (quad_of_lin (lin_single 1 1))
  else if String.eqb k "poly" then OPoly [([1%N], 1)] else OFn (FConst 1).
Definition all_kinds : list string := ["num"; "var"; "param"; "lin"; "quad"; "poly"; "fn"].
Definition model_table : list (string * (string * string)) :=
  flat_map (fun op => flat_map (fun kx => flat_map (fun ky =>
    match apply_op tiny_eps op (sample_operand kx) (sample_operand ky) with
    | Some _ => [(op, (kx, ky))] | None => [] end) all_kinds) all_kinds) ["add"; "sub"; "mul"].
Definition triple_eqb (a b : string * (string * string)) : bool :=
  String.eqb (fst a) (fst b) && String.eqb (fst (snd a)) (fst (snd b)) && String.eqb (snd (snd a)) (snd (snd b)).
Definition table_subset (a b : list (string * (string * string))) : bool :=
  forallb (fun x => existsb (triple_eqb x) b) a.
Definition d_triple (t : tree) : option (string * (string * string)) :=
  match t with L [A o; A x; A y] => Some (o, (x, y)) | _ => None end.
Definition e_table (l : list (string * (string * string))) : tree :=
  L (map (fun t => L [A (fst t); A (fst (snd t)); A (snd (snd t))]) l).

Definition run_C02 (case : tree) : tree :=
  match case with
  | L [A "op_table"; L []; r] =>
      match ok_payload r with
      | Some p =>
          match d_list d_triple p with
          | Some tb =>
              if table_subset tb model_table && table_subset model_table tb
              then agree ["op-table"] else disagree "operator table" (e_table model_table)
          | None => badresult "op_table: shape"
          end
      | None => badresult "op_table: shape"
      end
  | L [A "binop"; L [A op; x; y]; r] =>
      match d_operand x, d_operand y with
      | Some x', Some y' =>
          match apply_op tiny_eps op x' y', apply_op tiny_0 op x' y' with
          | Some z, Some z0 => judge_operand z z0 r op
          | _, _ =>
              (* not in the API table, or an unset oneof (panics by `expect`) *)
              if is_err r || is_panic r then agree ["undefined"; op]
              else disagree "operator must not be defined / must panic on an unset oneof" (A "err")
          end
      | _, _ => badcase "binop: input"
      end
  | L [A "neg"; L [x]; r] =>
      match d_operand x with
      | Some x' =>
          match op_neg tiny_eps x' with
          | Some z => judge_operand z z r "neg"
          | None => if is_err r || is_panic r then agree ["undefined"; "neg"]
                    else disagree "neg of an unset oneof must panic" (A "err")
          end
      | None => badcase "neg: input"
      end
  | L [A "iter_fn"; L [f]; r] =>
      match d_function f with
      | Some f' =>
          match ok_payload r with
          | Some items =>
              match d_polynomial items with
              | Some its =>
                  if negb (forallb (fun mc => sorted_ids_b (fst mc)) its)
                  then disagree "iterator ids must be sorted" (e_terms (fn_iter_model tiny_eps f'))
                  else if negb (poly_eqb its (fn_terms f'))
                  then disagree "iterator terms must sum to the function" (e_terms (fn_iter_model tiny_eps f'))
                  else agree ["iter"; kind_tag_of f']
              | None => badresult "iter_fn: result shape"
              end
          | None => disagree "iterator must succeed" (e_terms (fn_iter_model tiny_eps f'))
          end
      | None => badcase "iter_fn: input"
      end
  | _ => badcase "C02: unknown op"
  end.
